import Ssv.Props.C18
