/- Native model driver for engine `storekey` (C15, key layer of the decided-instance store). -/
import Ssv.Common.Wire
import Ssv.Model.StoreKey
open Ssv Ssv.StoreKey Ssv.Wire

def step (line : String) : String :=
  match words line with
  | ["hkey", p, i] => match unhex p, unhex i with
      | some pp, some ii => let a := dbArgs pp ii .highest; s!"{hex a.1} {hex a.2}"
      | _, _ => "bad-op"
  | ["ikey", p, i, h] => match unhex p, unhex i, h.toNat? with
      | some pp, some ii, some hh => let a := dbArgs pp ii (.inst hh); s!"{hex a.1} {hex a.2}"
      | _, _, _ => "bad-op"
  | ["cprefix", p, i] => match unhex p, unhex i with
      | some pp, some ii => hex (cleanPrefix pp ii)
      | _, _ => "bad-op"
  | ["case"] => "ok"
  | _ => "bad-op"

def main : IO Unit := do
  loopLines (← IO.getStdin) (← IO.getStdout) step
