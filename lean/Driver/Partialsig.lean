/- Native model driver for engine `partialsig` (C05). One op per line on stdin, one observation per line on stdout.
   Ops: `quorum n=<n>` | `reset kind=<att|prop|propb|agg|sc|contrib|reg|exit> n=<n> dec=<0|1>` | `decide` |
        `msg s=<signer> in=<inner signer> slot=<0|1 wrong> sh=<idx|x><flavour><verified 0|1>,…|-` -/
import Ssv.Common.Wire
import Ssv.Model.PartialSig
open Ssv Ssv.PartialSig Ssv.Wire

def kindOf (k : String) : Option (Style × Nat × Bool) :=
  match k with
  | "att" | "prop" | "propb" | "agg" | "sc" => some (.loop, 1, true)
  | "contrib" => some (.loopMatch, 3, true)
  | "reg" | "exit" => some (.first, 1, false)
  | _ => none

def dump (st : St) : String :=
  String.intercalate ";" (st.expected.map fun r =>
    let l := (signersOf st.cm st.c r).map fun s => toString s ++ (if st.c.get r s == some true then "g" else "b")
    if l.isEmpty then "-" else String.intercalate "," l)

def showSubs (l : List Sub) : String :=
  if l.isEmpty then "-" else String.intercalate "," (l.map fun s => toString s.root)

def obs (st : St) (err : Bool) (subs : List Sub) : String :=
  s!"r={if err then 1 else 0} sub={showSubs subs} fin={if st.finished then 1 else 0} c={dump st}"

/-- `<idx|x><flavour><bit>` → (root id, verified); an unexpected root gets an id outside the expected range -/
def parseTok (i : Nat) (t : String) : Option (Nat × Bool) :=
  let cs := t.toList
  let ds := cs.takeWhile Char.isDigit
  let rest := cs.dropWhile Char.isDigit
  let (root?, rest) : Option Nat × List Char :=
    if ds.isEmpty then
      match rest with
      | 'x' :: r => (some (1000 + i), r)
      | _ => (none, rest)
    else ((String.ofList ds).toNat?, rest)
  match root?, rest with
  | some r, [_, b] => if b == '1' then some (r, true) else if b == '0' then some (r, false) else none
  | _, _ => none

def parseShares (s : String) : Option (List (Nat × Bool)) :=
  if s = "-" then some [] else
  let toks := s.splitOn ","
  let rec go (i : Nat) : List String → Option (List (Nat × Bool))
    | [] => some []
    | t :: ts => do
      let x ← parseTok i t
      let r ← go (i + 1) ts
      pure (x :: r)
  go 0 toks

def stepLine1 (st? : Option St) (line : String) : Option St × String :=
  let ws := words line
  match ws.head? with
  | some "quorum" =>
    match (kv ws "n").bind String.toNat? with
    | some n => (st?, s!"q={quorumOf n} pq={partialQuorumOf n}")
    | none => (st?, "bad-op")
  | some "reset" =>
    match (kv ws "kind").bind kindOf, (kv ws "n").bind String.toNat?, kv ws "dec" with
    | some (sty, k, hasCons), some n, some d =>
      if n = 4 ∨ n = 7 ∨ n = 10 ∨ n = 13 then
        let st := init n k sty (d != "0" || !hasCons)
        (some st, s!"ok q={st.q} k={k}")
      else (st?, "bad-op")
    | _, _, _ => (st?, if ((kv ws "kind").bind kindOf).isNone then "bad-kind" else "bad-op")
  | some "decide" =>
    match st? with
    | none => (none, "bad-op")
    | some st => if st.decided then (some st, "noop") else
        let st' := decide' st
        (some st', obs st' false [])
  | some "msg" =>
    match st?, (kv ws "s").bind String.toNat?, (kv ws "in").bind String.toNat?, kv ws "slot", (kv ws "sh").bind parseShares with
    | some st, some s, some inn, some sl, some sh =>
      let m : Msg := { signer := s, slotOk := sl != "1", entries := sh.map fun (r, g) => (inn, r, g) }
      match step st m with
      | (st', .rejected _) => (some st', obs st' true [])
      | (st', .collected) => (some st', obs st' false [])
      | (st', .reconstructFailed subs) => (some st', obs st' true subs)
      | (st', .submitted subs) => (some st', obs st' false subs)
      | (st', .panicked) => (some st', "panic")
    | _, _, _, _, _ => (st?, "bad-op")
  | _ => (st?, "bad-op")

/-- driver state: the runner model and the slot offset of the duty started last (`ShouldProcessDuty` /
    `ShouldProcessNonBeaconDuty` refuse a duty whose slot is not later) -/
def stepLine (s : Option St × Nat) (line : String) : (Option St × Nat) × String :=
  let ws := words line
  match ws.head? with
  | some "next" =>
    match s.1, (kv ws "d").bind String.toNat?, kv ws "dec" with
    | some st, some d, some dec =>
      if d ≤ s.2 then (s, "refused")
      else
        let hasCons := st.style != .first
        let st' := nextDuty st (dec != "0" || !hasCons)
        ((some st', d), s!"ok q={st'.q} k={st'.expected.length}")
    | _, _, _ => (s, "bad-op")
  | some "arbids" => (s, "done")      -- implementation-side oracle probe (committees with arbitrary operator ids), nothing to model
  | some "exitprobe" => (s, "done")   -- implementation-side oracle probe, nothing to model
  | some "reset" =>
    let (st', o) := stepLine1 s.1 line
    ((st', 0), o)
  | _ =>
    let (st', o) := stepLine1 s.1 line
    ((st', s.2), o)

def main : IO Unit := do
  loopState (← IO.getStdin) (← IO.getStdout) ((none, 0) : Option St × Nat) stepLine
