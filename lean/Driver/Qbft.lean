/- Native model driver for engine `qbft` (C01, C02, C06, C07 …). One op per line on stdin, one observation per line.

   reset mode=<inst|ctrl> n=<committee size> q=<quorum> pq=<partial quorum> op=<own id> h=<height> cutoff=<CutoffRound>
         cap=<instance container capacity> bad=<value ids rejected by valCheck, + separated or ->
   instance mode  : start v=<value> [h=<height>] | deliver <msg> | timeout | compact | compactcopy | stop
   controller mode: cstart h=<height> v=<value> | cdeliver <msg> | ctimeout h=<height> r=<round> | ccompact h=<height>
                    | crcompact <msg>   (runner-style compactInstanceIfNeeded(msg))
   <msg> is spelled out as in Ssv/Model/Qbft/Wire.lean. -/
import Ssv.Model.Qbft.Wire
import Ssv.Model.Qbft.Faulty
open Ssv Ssv.Wire Ssv.Qbft Ssv.Qbft.Wire

structure DState where
  cfg : Cfg
  ctrlMode : Bool
  inst : State
  ctrl : Ctrl

def mkCfg (n q pq own cutoff cap : Nat) (bad : List Nat) : Cfg :=
  let committee := (List.range n).map (· + 1)
  { committee := committee, quorum := q, partialQuorum := pq, own := own, ident := 1, cutoff := cutoff, capacity := cap,
    valCheck := fun v => !bad.contains v,
    proposer := fun h r => roundRobinProposer committee h r }

def initD : DState :=
  { cfg := mkCfg 4 3 2 1 15 2 [], ctrlMode := false, inst := newInstance 0, ctrl := newController }

def doReset (ws : List String) : Option DState := do
  let mode ← kv ws "mode"
  let cfg := mkCfg (← kvNat ws "n") (← kvNat ws "q") (← kvNat ws "pq") (← kvNat ws "op") (← kvNat ws "cutoff")
    (← kvNat ws "cap") (← parseNatList (← kv ws "bad") "+")
  pure { cfg := cfg, ctrlMode := mode == "ctrl", inst := newInstance (← kvNat ws "h"), ctrl := newController }

/-- optional `nf=a|b` on start / deliver / timeout ops: the operator's own Broadcast fails after / before sending -/
def netFaultOf (ws : List String) : NetFault :=
  match kv ws "nf" with
  | some "a" => .after
  | some "b" => .before
  | _ => .none

def step (d : DState) (line : String) : DState × String :=
  let ws := words line
  let nf := netFaultOf ws
  match ws with
  | "reset" :: rest =>
    match doReset rest with
    | some d' => (d', "ok")
    | none => (d, "bad-op")
  | "start" :: rest =>
    match kvNat rest "v" with
    | some v =>
      let h := (kvNat rest "h").getD d.inst.height
      let st := startF nf d.cfg d.inst v h
      ({ d with inst := st.st }, fmtStep d.cfg st)
    | none => (d, "bad-op")
  | "deliver" :: rest =>
    match parseMsg rest with
    | some m => let st := processMsgF nf d.cfg d.inst m; ({ d with inst := st.st }, fmtStep d.cfg st)
    | none => (d, "bad-op")
  | "timeout" :: _ => let st := uponRoundTimeoutF nf d.cfg d.inst; ({ d with inst := st.st }, fmtStep d.cfg st)
  | ["compact"] => let s := compact d.inst; ({ d with inst := s }, "ok | " ++ fmtState d.cfg s)
  | ["compactcopy"] => let s := compactCopy d.inst; ({ d with inst := s }, "ok | " ++ fmtState d.cfg s)
  | ["stop"] => let s := forceStop d.inst; ({ d with inst := s }, "ok | " ++ fmtState d.cfg s)
  | "cstart" :: rest =>
    match kvNat rest "h", kvNat rest "v" with
    | some h, some v => let st := d.ctrl.startNewInstanceF nf d.cfg h v; ({ d with ctrl := st.ct }, fmtCStep d.cfg st)
    | _, _ => (d, "bad-op")
  | "cdeliver" :: rest =>
    match parseMsg rest with
    | some m => let st := d.ctrl.processMsgF nf d.cfg m; ({ d with ctrl := st.ct }, fmtCStep d.cfg st)
    | none => (d, "bad-op")
  | "ctimeout" :: rest =>
    match kvNat rest "h", kvNat rest "r" with
    | some h, some r => let st := d.ctrl.onTimeoutF nf d.cfg h r; ({ d with ctrl := st.ct }, fmtCStep d.cfg st)
    | _, _ => (d, "bad-op")
  | "ccompact" :: rest =>
    match kvNat rest "h" with
    | some h => let c := d.ctrl.compactAt h; ({ d with ctrl := c }, "ok | " ++ fmtCtrl d.cfg c)
    | none => (d, "bad-op")
  | "crcompact" :: rest =>
    match parseMsg rest with
    | some m => let c := d.ctrl.compactIfNeeded d.cfg m; ({ d with ctrl := c }, "ok | " ++ fmtCtrl d.cfg c)
    | none => (d, "bad-op")
  | _ => (d, "bad-op")

def main : IO Unit := do
  loopState (← IO.getStdin) (← IO.getStdout) initD step
