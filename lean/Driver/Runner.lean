/- Native model driver for engine `runner` (C03). One op per line on stdin (`<scenario text> | <abstract op>`; only the
   part after ` | ` is read), one observation per line on stdout.
   Ops: `reset role=<att|prop|propb|agg|sc|contrib|reg|exit> n=<n>` | `start slot= pre=<ids|-> iok=` |
        `pre s= slot= sh=<inner:root:good,…|-> iok=` | `post s= slot= sh=…` |
        `cons id= h= dec= valid= v= vd= vc= vs= vo=<ids|-> vg= idec=` | `foreign` -/
import Ssv.Common.Wire
import Ssv.Model.Runner
open Ssv Ssv.Runner Ssv.Wire

def roleOf (k : String) : Option Role :=
  match k with
  | "att" => some .attester
  | "prop" | "propb" => some .proposer
  | "agg" => some .aggregator
  | "sc" => some .syncCommittee
  | "contrib" => some .contribution
  | "reg" => some .registration
  | "exit" => some .exit
  | _ => none

def domName : Dom → String
  | .randao => "randao" | .selectionProof => "selectionProof" | .syncSelectionProof => "syncSelectionProof"
  | .voluntaryExit => "voluntaryExit" | .applicationBuilder => "applicationBuilder" | .attester => "attester"
  | .proposer => "proposer" | .aggregateAndProof => "aggregateAndProof" | .syncCommittee => "syncCommittee"
  | .contributionAndProof => "contributionAndProof"

def natList (s : String) : Option (List Nat) :=
  if s = "-" then some [] else (s.splitOn ",").mapM String.toNat?

def joinOr (l : List String) (sep : String) : String := if l.isEmpty then "-" else String.intercalate sep l

def b01 (b : Bool) : String := if b then "1" else "0"

def dump (st : RSt) : String :=
  let duty := match st.duty with
    | none => "-"
    | some d =>
      let run := match d.running with | some id => toString (heightOf st id) | none => "-"
      let rdec := match d.running with
        | some id => (match instOf st id with | some i => b01 i.decided | none => "-")
        | none => "-"
      let dv := match d.decidedValue with | some v => toString v.id | none => "-"
      s!"{d.slot},{run},{rdec},{dv},{b01 d.finished}"
  let ctrl := if st.role == .exit then "-|-" else
    let ins := st.stored.map fun id => match instOf st id with
      | some i => s!"{i.height}:{b01 i.decided}"
      | none => "?"
    s!"{st.ctrlHeight}|{joinOr ins ","}"
  s!"{duty}|{st.highestDecidedSlot}|{ctrl}"

def obs (st : RSt) (r : Option Bool) (evs : List Ev) : String :=
  let sg := evs.filterMap fun e => match e with
    | .sign _ root ep dom => some s!"{root}:{ep}:{domName dom}"
    | _ => none
  let bc := evs.filterMap fun e => match e with
    | .bcast roots => some (joinOr (roots.map toString) "+")
    | _ => none
  let sub := evs.filterMap fun e => match e with
    | .submit r => some (toString r)
    | _ => none
  let rs := match r with | some ok => (if ok then "0" else "1") | none => "-"
  s!"r={rs} sg={joinOr sg ","} bc={joinOr bc ","} sub={joinOr sub ","} st={dump st}"

def parseEntries (s : String) : Option (List (Nat × Nat × Bool)) :=
  if s = "-" then some [] else
  (s.splitOn ",").mapM fun t =>
    match t.splitOn ":" with
    | [a, b, c] => do
      let x ← a.toNat?; let y ← b.toNat?
      pure (x, y, c == "1")
    | _ => none

def flag (ws : List String) (k : String) : Option Bool := (kv ws k).map (· == "1")

def stepLine (st? : Option RSt) (line : String) : Option RSt × String :=
  let body := match line.splitOn " | " with
    | [_, b] => b
    | _ => line
  let ws := words body
  match ws.head? with
  | some "reset" =>
    match (kv ws "role").bind roleOf, (kv ws "n").bind String.toNat? with
    | some role, some n => let st := init role n; (some st, s!"ok st={dump st}")
    | _, _ => (st?, "bad-op")
  | some "start" =>
    match st?, (kv ws "slot").bind String.toNat?, (kv ws "pre").bind natList, flag ws "iok" with
    | some st, some slot, some pre, some iok =>
      let (st', ok, evs) := step st (.start slot pre iok)
      (some st', obs st' (some ok) evs)
    | _, _, _, _ => (st?, "bad-op")
  | some "pre" =>
    match st?, (kv ws "s").bind String.toNat?, (kv ws "slot").bind String.toNat?, (kv ws "sh").bind parseEntries, flag ws "iok" with
    | some st, some s, some slot, some sh, some iok =>
      let (st', ok, evs) := step st (.pre { signer := s, slotOk := true, entries := sh } slot iok)
      (some st', obs st' (some ok) evs)
    | _, _, _, _, _ => (st?, "bad-op")
  | some "post" =>
    match st?, (kv ws "s").bind String.toNat?, (kv ws "slot").bind String.toNat?, (kv ws "sh").bind parseEntries with
    | some st, some s, some slot, some sh =>
      let (st', ok, evs) := step st (.post { signer := s, slotOk := true, entries := sh } slot)
      (some st', obs st' (some ok) evs)
    | _, _, _, _ => (st?, "bad-op")
  | some "cons" =>
    match st?, flag ws "id", (kv ws "h").bind String.toNat?, flag ws "dec", flag ws "valid", (kv ws "v").bind String.toNat?,
          flag ws "vd", flag ws "vc", (kv ws "vs").bind String.toNat?, (kv ws "vo").bind natList, flag ws "vg", flag ws "idec" with
    | some st, some idOk, some h, some dec, some valid, some v, some vd, some vc, some vs, some vo, some vg, some idec =>
      let c : ConsIn := { idOk := idOk, height := h, isDecided := dec, valid := valid,
                          value := { id := v, decodeOk := vd, vcOk := vc, slot := vs, objs := vo, getOk := vg },
                          instDecides := idec, instErr := false }
      let (st', ok, evs) := step st (.cons c)
      (some st', obs st' (if dec then some ok else none) evs)
    | _, _, _, _, _, _, _, _, _, _, _, _ => (st?, "bad-op")
  | some "foreign" =>
    match st? with
    | some st => let (st', _, evs) := step st .foreign; (some st', obs st' none evs)
    | none => (none, "bad-op")
  | _ => (st?, "bad-op")

def main : IO Unit := do
  loopState (← IO.getStdin) (← IO.getStdout) (none : Option RSt) stepLine
