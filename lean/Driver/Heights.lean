/- Native model driver for engine `heights` (C15). One op per line on stdin, one canonical observation per line on stdout.
   `reset full=<0|1> q=<quorum>` starts a new self-contained case.
   `reset … old=1` selects the semantics BEFORE the fixes 358626700 / 26e2e6b00 (Ssv/Model/HeightsOld.lean);
   bin/check never uses it: it is for old-vs-new runs against a scratch worktree of the old tree. -/
import Ssv.Common.Wire
import Ssv.Model.Heights
import Ssv.Model.HeightsOld
open Ssv Ssv.Heights Ssv.Wire

def b01 (b : Bool) : String := if b then "1" else "0"

def showSigners (l : List Nat) : String := if l.isEmpty then "-" else String.intercalate "." (l.map toString)

def showMsg (m : Msg) : String := s!"{m.round}/{m.root}/{showSigners m.signers}"

/-- stable insertion by round: the Go container is a map round → list (iteration order is canonicalised by the harness) -/
def insByRound (m : Msg) : List Msg → List Msg
  | [] => [m]
  | x :: xs => if m.round < x.round then m :: x :: xs else x :: insByRound m xs

def canonCommits (l : List Msg) : List Msg := l.foldl (fun acc m => insByRound m acc) []

def showOpt {α} (f : α → String) : Option α → String
  | some a => f a
  | none => "-"

def showInst (i : Inst) : String :=
  s!"{i.height}:{i.round}:{b01 i.decided}:{b01 i.stopped}:{showOpt toString i.accepted}:[{String.intercalate ";" ((canonCommits i.commits).map showMsg)}]"

def showStored (s : Stored) : String := s!"{showInst s.inst}#{showMsg s.cert}"

def showState (s : State) : String :=
  let insts := String.intercalate "," (s.c.insts.map showInst)
  let hist := String.intercalate "," (s.s.hist.map fun e => s!"{e.1}={showStored e.2}")
  s!"H={s.c.height} I={insts} R={showOpt toString s.r.duty}/{showOpt toString s.r.running}/{b01 (s.r.running.isSome && s.r.runDecided)}/{b01 (s.r.duty.isSome && s.r.hasValue)}/{s.r.hds} S={showOpt showStored s.s.highest} X={hist}"

def showOut : Out → String
  | .ok => "ok" | .guard => "guard" | .refused => "refused" | .noduty => "noduty"
  | .derr => "err" | .dnew => "new" | .ddup => "dup"
  | .rerr => "rerr" | .rok => "rok"
  | .cok => "cok" | .cerr => "cerr" | .na => "na"
  | .done => "done" | .loaded => "loaded" | .empty => "empty"

def parseSigners (s : String) : Option (List Nat) :=
  if s = "-" then some [] else (s.splitOn ".").mapM (·.toNat?)

def kvNat (ws : List String) (k : String) : Option Nat := (kv ws k).bind (·.toNat?)
def kvBool (ws : List String) (k : String) : Option Bool := (kvNat ws k).map (· != 0)

def parseOp (ws : List String) : Option Op :=
  match ws with
  | ["start", s] => s.toNat?.map Op.start
  | ["begin", s] => s.toNat?.map Op.begin
  | ["decide"] => some Op.decide
  | ["compact", h] => h.toNat?.map Op.compact
  | "restart" :: rest => (kvBool rest "full").map Op.restart
  | "decided" :: rest => do
    let h ← kvNat rest "h"; let r ← kvNat rest "r"; let root ← kvNat rest "root"
    let sg ← (kv rest "s").bind parseSigners
    let ok ← kvBool rest "ok"
    let via ← kv rest "via"
    let sf := (kvBool rest "sf").getD false
    pure (if sf then Op.decidedSF h r root sg ok (via == "r") else Op.decided h r root sg ok (via == "r"))
  | "commits" :: rest => do
    let root ← kvNat rest "root"; let vc ← kvBool rest "vc"
    pure (Op.commits root vc)
  | _ => none

def stepLine (st : Option (State × Bool)) (line : String) : Option (State × Bool) × String :=
  let ws := words line
  match ws with
  | "reset" :: rest =>
    match kvBool rest "full", kvNat rest "q" with
    | some f, some q =>
      let s := init f q
      (some (s, (kvBool rest "old").getD false), "ready " ++ showState s)
    | _, _ => (st, "bad-op")
  | _ =>
    match st, parseOp ws with
    | some (s, old), some op =>
      let (s', o) := if old then stepOld s op else step s op
      (some (s', old), showOut o ++ " " ++ showState s')
    | _, _ => (st, "bad-op")

def main : IO Unit := do
  loopState (← IO.getStdin) (← IO.getStdout) (none : Option (State × Bool)) stepLine
