/- Native model driver for engine `registry` (C11, C12). One op per line on stdin, one canonical observation per
   line on stdout.

   reset me=<rsa id>                    fresh database, fresh process
   block <number> <event> ...           processBlockEvents on one block
   fault <crash|error|retry> <k> <number> <event> ...
                                        the block is processed until its k-th database write (0-based) fails / the
                                        process dies just before it; crash,error: process restarted on the surviving
                                        database; retry: same process continues (transaction discarded)
   restart                              new process on the surviving database
   setmeta <pk> <index> | hist <pk> | seedrec <owner> <fee> <nonce|->
   events:  OA:id:owner:pk  OR:id  VA:owner:pk:<signedNonce|->:<sharesLen>:<op/key/dec/km,...|->
            VR:owner:pk:<ops|->  VE:owner:pk:<ops|->  CL:owner:<ops|->  CR:owner:<ops|->  FR:owner:fee  UP  UK  NT -/
import Ssv.Common.Wire
import Ssv.Model.Registry
import Ssv.Model.RegistryCrash
open Ssv Ssv.Registry Ssv.Wire

def natList? (s : String) : Option (List Nat) :=
  if s = "-" ∨ s = "" then some [] else (s.splitOn ",").mapM (·.toNat?)

def optNat? (s : String) : Option (Option Nat) :=
  if s = "-" then some none else s.toNat?.map some

def member? (s : String) : Option Member :=
  match s.splitOn "/" with
  | [a, b, c, d] => do
    let op ← a.toNat?; let key ← b.toNat?; let dc ← c.toNat?; let km ← d.toNat?
    pure { op := op, key := key, decryptOk := dc != 0, keyMatches := km != 0 }
  | _ => none

def members? (s : String) : Option (List Member) :=
  if s = "-" ∨ s = "" then some [] else (s.splitOn ",").mapM member?

def event? (t : String) : Option Event :=
  match t.splitOn ":" with
  | ["OA", a, b, c] => do pure (.operatorAdded (← a.toNat?) (← b.toNat?) (← c.toNat?))
  | ["OR", a] => do pure (.operatorRemoved (← a.toNat?))
  | ["VA", o, pk, sn, len, ms] => do
    pure (.validatorAdded (← o.toNat?) (← pk.toNat?) (← optNat? sn) (← len.toNat?) (← members? ms))
  | ["VR", o, pk, ops] => do pure (.validatorRemoved (← o.toNat?) (← pk.toNat?) (← natList? ops))
  | ["VE", o, pk, ops] => do pure (.validatorExited (← o.toNat?) (← pk.toNat?) (← natList? ops))
  | ["CL", o, ops] => do pure (.clusterLiquidated (← o.toNat?) (← natList? ops))
  | ["CR", o, ops] => do pure (.clusterReactivated (← o.toNat?) (← natList? ops))
  | ["FR", o, f] => do pure (.feeRecipientUpdated (← o.toNat?) (← f.toNat?))
  | ["UP"] => some .unparsable
  | ["UK"] => some .unknownTopic
  | ["NT"] => some .noTopics
  | _ => none

def insertBy {α : Type} (lt : α → α → Bool) (x : α) : List α → List α
  | [] => [x]
  | y :: ys => if lt x y then x :: y :: ys else y :: insertBy lt x ys

def sortBy {α : Type} (lt : α → α → Bool) (l : List α) : List α := l.foldl (fun acc x => insertBy lt x acc) []

def joinNats (l : List Nat) : String := if l.isEmpty then "-" else String.intercalate "," (l.map toString)
def sortedNats (l : List Nat) : String := joinNats (sortBy (fun a b => a < b) l)
def optS (o : Option Nat) : String := match o with | some v => toString v | none => "-"

def shareS (s : Share) : String :=
  s!"{s.pk}:{s.owner}:{s.operatorId}:{optS s.sharePk}:{if s.liquidated then 1 else 0}:{optS s.bmeta}:" ++
  String.intercalate "," (s.committee.map fun p => s!"{p.1}/{p.2}")

def sharesS (l : List Share) : String :=
  "S[" ++ String.intercalate ";" ((sortBy (fun a b => a.pk < b.pk) l).map shareS) ++ "]"

def memS (n : Node) : String := sharesS n.reg.shares ++ s!"self={n.reg.self}"

def dbS (me : Nat) (n : Node) : String :=
  let d := n.reg.db
  sharesS d.shares ++
  "O[" ++ String.intercalate ";" ((sortBy (fun a b => a.id < b.id) d.ops).map fun o => s!"{o.id}:{o.pk}:{o.owner}") ++ "]" ++
  "R[" ++ String.intercalate ";" ((sortBy (fun a b => a.owner < b.owner) d.recips).map fun r => s!"{r.owner}:{r.fee}:{optS r.nonce}") ++ "]" ++
  "M=" ++ optS d.marker ++
  "W[" ++ sortedNats (n.wal.recs.map (·.2)) ++ "]" ++
  "I[" ++ sortedNats (n.wal.pidx.map (·.1)) ++ "]" ++
  "H[" ++ sortedNats n.hist.inst ++ "|" ++ sortedNats n.hist.high ++ "]" ++
  s!"rself={lookupSelf me d.ops}"

def taskS : Task → String
  | .start pk => s!"start:{pk}"
  | .stop pk => s!"stop:{pk}"
  | .liquidate o ops pks => s!"liq:{o}:{sortedNats ops}:{sortedNats pks}"
  | .reactivate o ops pks => s!"react:{o}:{sortedNats ops}:{sortedNats pks}"
  | .updateFee o f => s!"fee:{o}:{f}"
  | .exit pk blk idx => s!"exit:{pk}:{blk}:{idx}"

def outS (l : List Outcome) : String :=
  let s := String.join (l.map fun o => match o with
    | .processed _ => "P" | .malformed _ => "F" | _ => "")
  if s.isEmpty then "-" else s

def tasksS (l : List Outcome) : String :=
  let ts := l.filterMap fun o => match o with | .processed (some t) => some (taskS t) | _ => none
  if ts.isEmpty then "-" else String.intercalate "," ts

def traceS (l : List Step) : String :=
  let ks := (l.filter Step.isWrite).map Step.kind
  if ks.isEmpty then "-" else String.intercalate "," ks

structure DState where
  me : Nat := 1
  node : Node := {}

def stateS (d : DState) : String := s!"mem={memS d.node} db={dbS d.me d.node}"

def step (d : DState) (line : String) : DState × String :=
  match words line with
  | "reset" :: rest =>
    match (kv rest "me").bind String.toNat? with
    | some me => ({ me := me, node := init }, "ok")
    | none => (d, "bad-op")
  | "block" :: num :: toks =>
    match num.toNat?, toks.mapM event? with
    | some n, some evs =>
      let b : Block := { number := n, events := evs }
      let tr := blockTrace d.me d.node b
      let r := applyBlock d.me d.node b
      let d' := { d with node := r.1 }
      match r.2.1 with
      | .ok => (d', s!"ok out={outS r.2.2} tasks={tasksS r.2.2} trace={traceS tr} {stateS d'}")
      | .refused => (d', s!"refused out=- tasks=- trace=- {stateS d'}")
      | .panicked => (d', s!"panic out={outS r.2.2} tasks=- trace={traceS tr} {stateS d'}")
    | _, _ => (d, "bad-op")
  | "fault" :: kind :: k :: num :: toks =>
    match faultKind? kind, k.toNat?, num.toNat?, toks.mapM event? with
    | some fk, some k, some n, some evs =>
      let b : Block := { number := n, events := evs }
      let r := faultBlock d.me d.node b fk k
      let d' := { d with node := r.1 }
      (d', s!"{faultStatusS r.2} {stateS d'}")
    | _, _, _, _ => (d, "bad-op")
  | ["restart"] =>
    let d' := { d with node := restart d.me d.node }
    (d', s!"ok {stateS d'}")
  | ["setmeta", pk, idx] =>
    match pk.toNat?, idx.toNat? with
    | some pk, some idx => let d' := { d with node := setMeta d.node pk idx }; (d', s!"ok {stateS d'}")
    | _, _ => (d, "bad-op")
  | ["hist", pk] =>
    match pk.toNat? with
    | some pk => let d' := { d with node := seedHist d.node pk }; (d', s!"ok {stateS d'}")
    | none => (d, "bad-op")
  | ["seedrec", o, f, nn] =>
    match o.toNat?, f.toNat?, optNat? nn with
    | some o, some f, some nn =>
      let d' := { d with node := seedRecipient d.node { owner := o, fee := f, nonce := nn } }
      (d', s!"ok {stateS d'}")
    | _, _, _ => (d, "bad-op")
  | _ => (d, "bad-op")

def main : IO Unit := do
  loopState (← IO.getStdin) (← IO.getStdout) ({} : DState) step
