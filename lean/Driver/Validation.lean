/- Native model driver for engine `validation` (C08, C09, C10).
   stdin: one op per line; stdout: one canonical observation per line.

   reset g=<genesis> d=<slotDur> spe=<slotsPerEpoch> epp=<epochsPerPeriod> perm=<epoch> pd=<e:s:i,..|-> sd=<p:i,..|->
   v  <fields>      one validateSSVMessage call
   p  sdo= plen= ndo= top= <fields>    one validateP2PMessage call
   fields: vid= role= dlen= dom= pk= sh=<->|shc= shq= shf=<liq meta att pend> shae= shix=  now=<unixsec>.<nsec> we= env=<n|v|f|i>
           b=<u|m|e|c|p>  c: mt= h= r= root= fd=<id|-> sg=<a,b|-> sl= sz= pjm= pjl= rcm= rcl= jok=
                          p: pt= ps= psg= it=<signer:root:len:zero,..|-> sl= sz=
   e  ent= rec= kind= val=             one node-record entry reader (GetDomainTypeEntry / GetSubnetsEntry)
   observation: <accept|ignore:Tag|reject:Tag|panic:Site> st=<signer:slot,round,pre,prop,prep,com,dec,rc,post,pd,duties;..|->
-/
import Ssv.Common.Wire
import Ssv.Model.Validation
import Ssv.Model.ValidationRecords
open Ssv Ssv.Validation Ssv.Wire

structure DState where
  ctx : Ctx
  st : State

def defaultCfg : NetCfg := { genesis := 1616508000, slotDur := 12, slotsPerEpoch := 32, epochsPerPeriod := 256, permissionlessEpoch := 0 }

def natOf (ws : List String) (k : String) : Option Nat := (kv ws k).bind String.toNat?
def natD (ws : List String) (k : String) (d : Nat := 0) : Nat := (natOf ws k).getD d
def boolOf (ws : List String) (k : String) : Bool := natD ws k != 0

def natList (s : String) : Option (List Nat) :=
  if s = "-" then some [] else (s.splitOn ",").mapM String.toNat?

def tuples (s : String) : Option (List (List Nat)) :=
  if s = "-" then some [] else (s.splitOn ",").mapM fun t => (t.splitOn ":").mapM String.toNat?

def parseReset (ws : List String) : Option DState := do
  let pd ← tuples ((kv ws "pd").getD "-")
  let sd ← tuples ((kv ws "sd").getD "-")
  let pd' ← pd.mapM fun t => match t with | [e, s, i] => some (e, s, i) | _ => none
  let sd' ← sd.mapM fun t => match t with | [p, i] => some (p, i) | _ => none
  let cfg : NetCfg := { genesis := natD ws "g" defaultCfg.genesis, slotDur := natD ws "d" 12, slotsPerEpoch := natD ws "spe" 32,
                        epochsPerPeriod := natD ws "epp" 256, permissionlessEpoch := natD ws "perm" 0 }
  pure { ctx := { cfg := cfg, duties := { proposer := pd', sync := sd' } }, st := State.empty }

def parseShare (ws : List String) : Option (Option Share) :=
  match kv ws "sh" with
  | some "-" => some none
  | _ => do
    let c ← natList ((kv ws "shc").getD "-")
    let f := ((kv ws "shf").getD "0000").toList
    let b (i : Nat) : Bool := f.getD i '0' == '1'
    pure (some { committee := c, quorum := natD ws "shq", liquidated := b 0, hasMeta := b 1, statusAttesting := b 2,
                 pendingQueued := b 3, activationEpoch := natD ws "shae", index := natD ws "shix" })

def parseBody (ws : List String) : Option Body :=
  match kv ws "b" with
  | some "u" => some .unknownType
  | some "m" => some .malformed
  | some "e" => some .event
  | some "c" => do
    let sg ← natList ((kv ws "sg").getD "-")
    let fd ← match kv ws "fd" with
      | some "-" => some none
      | some s => s.toNat?.map some
      | none => some none
    pure (.consensus { mtype := natD ws "mt", height := natD ws "h", round := natD ws "r", root := natD ws "root", fullData := fd,
                       signers := sg, sigLen := natD ws "sl", sigZero := boolOf ws "sz", pjMalformed := boolOf ws "pjm",
                       pjLen := natD ws "pjl", rcjMalformed := boolOf ws "rcm", rcjLen := natD ws "rcl", justOk := boolOf ws "jok" })
  | some "p" => do
    let its ← tuples ((kv ws "it").getD "-")
    let its' ← its.mapM fun t => match t with
      | [s, r, l, z] => some ({ signer := s, root := r, sigLen := l, sigZero := z != 0 } : PItem)
      | _ => none
    pure (.partialSig { ptype := natD ws "pt", slot := natD ws "ps", signer := natD ws "psg", msgs := its',
                        sigLen := natD ws "sl", sigZero := boolOf ws "sz" })
  | _ => none

def parseNow (s : String) : Option GoTime :=
  match s.splitOn "." with
  | [a, b] => do
    let sec ← a.toInt?
    let ns ← b.toNat?
    pure { sec := wrapI64 (sec + unixToInternal), nsec := ns }
  | _ => none

def parseInput (ws : List String) : Option Input := do
  let sh ← parseShare ws
  let body ← parseBody ws
  let now ← parseNow ((kv ws "now").getD "")
  let env ← match kv ws "env" with
    | some "n" => some EnvSig.none
    | some "v" => some EnvSig.valid
    | some "f" => some EnvSig.operatorNotFound
    | some "i" => some EnvSig.invalid
    | _ => none
  pure { vid := natD ws "vid", role := natD ws "role", dataLen := natD ws "dlen", domainOk := boolOf ws "dom", pkOk := boolOf ws "pk",
         share := sh, body := body, envSig := env, now := now, wallEpoch := natD ws "we" }

def tagName (t : Tag) : String :=
  let s := reprStr t
  (s.splitOn ".").getLastD s

def showOutcome : Outcome → String
  | .accept => "accept"
  | .ignore t => "ignore:" ++ tagName t
  | .reject t => "reject:" ++ tagName t
  | .panic s => let r := reprStr s; "panic:" ++ (r.splitOn ".").getLastD r

def showSS (s : Nat) (ss : Option SignerState) : String :=
  match ss with
  | none => s!"{s}:-"
  | some x =>
    let c := x.counts
    let pd := match x.proposalData with | none => "-" | some h => toString h
    s!"{s}:{x.slot},{x.round},{c.preConsensus},{c.proposal},{c.prepare},{c.commit},{c.decided},{c.roundChange},{c.postConsensus},{pd},{x.epochDuties}"

def signersOf (i : Input) : List Nat :=
  match i.body with
  | .consensus m => (m.signers.take 13).eraseDups
  | .partialSig m => [m.signer]
  | _ => []

def showState (st : State) (i : Input) : String :=
  match signersOf i with
  | [] => "-"
  | ss => String.intercalate ";" (ss.map fun s => showSS s (st (i.vid, i.role, s)))

/-- arithmetic kernels compared directly with the real functions -/
def kernel (kind : String) (ws : List String) : String :=
  match kind with
  | "est" => match (kv ws "d").bind String.toInt? with
    | some dd => toString (currentEstimatedRound dd)
    | none => "bad-op"
  | "maxdec" => toString (maxDecidedCount (natD ws "n"))
  | "slottime" => match parseNow ((kv ws "now").getD "") with
    | some now => showOutcome (Outcome.ofChk (validateSlotTime defaultCfg (natD ws "slot") (natD ws "role") now))
    | none => "bad-op"
  | "leader" =>
    let n := natD ws "n"
    match roundRobinProposer ((List.range n).map fun i => (i + 1) * 10) (natD ws "h") (natD ws "r") with
    | .ok op => toString op
    | .error (.panic s) => showOutcome (.panic s)
    | .error (.tag t) => showOutcome (.reject t)
  | _ => "bad-op"

/-- pack a list of 0/1 entries into bytes (bit i of byte i/8, as `bitfield.Bitvector128`) -/
def packBits (l : List Nat) : List Nat :=
  (List.range ((l.length + 7) / 8)).map fun j => (List.range 8).foldl (fun acc k => acc + (l.getD (8 * j + k) 0) * 2 ^ k) 0

/-- `e ent=<domaintype|subnets> rec=<0|1> kind=<a|s|n> val=<hex|->`: one node-record entry read through the real enr.Record.
    rec=0: the record could not be built / decoded (no reader runs); kind a: entry absent, s: canonical byte string (val), n: not a
    byte string -/
def entryOp (ws : List String) : String :=
  if natD ws "rec" == 0 then "norecord" else
  match kv ws "kind" with
  | some "a" => "notfound"
  | some k =>
    let v? : Option EnrValue :=
      if k == "n" then some .notBytes
      else if k == "s" then (match kv ws "val" with
        | some "-" => some (.bytes [])
        | some h => (unhex h).map .bytes
        | none => none)
      else none
    match v?, kv ws "ent" with
    | some v, some "domaintype" =>
      (match decodeDomainType v with | .ok b => "ok:" ++ hex b | .err => "err" | .panic => "panic:enr-domaintype")
    | some v, some "subnets" =>
      (match decodeSubnets v with | .ok l => "ok:" ++ hex (packBits l) | .err => "err" | .panic => "panic:enr-subnets")
    | _, _ => "bad-op"
  | none => "bad-op"

def stepLine (d : DState) (line : String) : DState × String :=
  let ws := words line
  match ws with
  | "reset" :: rest =>
    match parseReset rest with
    | some d' => (d', "ok")
    | none => (d, "bad-op")
  | "duties" :: rest =>
    -- the duty store changed (it is shared with the duty handlers): same signer state, new duties
    match parseReset rest with
    | some d' => ({ d with ctx := { d.ctx with duties := d'.ctx.duties } }, "ok")
    | none => (d, "bad-op")
  | "v" :: rest =>
    match parseInput rest with
    | some i =>
      let (st', o) := validate d.ctx d.st i
      ({ d with st := st' }, showOutcome o ++ " st=" ++ showState st' i)
    | none => (d, "bad-op")
  | "p" :: rest =>
    match parseInput rest with
    | some i =>
      let sg : SigResult := match i.envSig with
        | .valid => .valid
        | .operatorNotFound => .operatorNotFound
        | _ => .invalid        -- letter n: no verification was made (fork inactive or envelope undecodable): never consulted
      let p : P2PInput := { signedDecodeOk := boolOf rest "sdo", sig := sg, payloadLen := natD rest "plen", netDecodeOk := boolOf rest "ndo",
                            topicOk := boolOf rest "top", inner := i }
      let (st', o) := validateP2P d.ctx d.st p
      ({ d with st := st' }, showOutcome o ++ " st=" ++ showState st' i)
    | none => (d, "bad-op")
  | "e" :: rest => (d, entryOp rest)
  | "f" :: _ => (d, "fz")      -- malformed byte stream: oracle only, no model
  | "ms" :: _ => (d, "ok")     -- metric series stream: implementation-side state oracle only
  | "gc" :: _ => (d, "ok")     -- msg-id handler garbage collection: implementation-side state oracle only
  | "conc" :: _ => (d, "ok")   -- concurrent stage: the harness runs this driver itself as the sequential oracle
  | "k" :: kind :: rest => (d, kernel kind rest)
  | _ => (d, "bad-op")

def main : IO Unit := do
  let d0 : DState := { ctx := { cfg := defaultCfg, duties := { proposer := [], sync := [] } }, st := State.empty }
  loopState (← IO.getStdin) (← IO.getStdout) d0 stepLine
