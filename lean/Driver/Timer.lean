/- Native model driver for engine `timer` (C17). One op per line on stdin, one observation per line on stdout.

   reset timer role= slot= thr= quick= slow= gen= [hd=-] → ok        (new RoundTimer built with handler 0, or with nil when hd=-; all values in ns)
   arm h= r= at=                                       → f=<round@handler of the callbacks delivered since the previous op>
   register k=<n|-> at=                                → f=…         (OnTimeout(handler n) / OnTimeout(nil))
   netdl role= slot= thr= quick= slow= gen= h= r=      → abs <deadline ns> | rel <ns>   (real beacon.Network stratum; stateless)
   cancel at=                                          → f=…
   end at=                                             → f=…
   dur role= slot= thr= quick= slow= r=                → <ns>        (duration part of RoundTimeout; stateless)
   reset ctl cap= cutoff=                              → ok          (new controller)
   start h= | decide h= r= | timeout h= r= | badtimeout→ e=<0|1> bc=<round-changes broadcast by this op> tm=<#arms>:<last armed round> st=H<ctl height>[h:round:decided:canProcess,…]
-/
import Ssv.Common.Wire
import Ssv.Model.Timer
open Ssv Ssv.Wire Ssv.Timer

inductive DState where
  | none
  | timer (c : Cfg) (s : Timer.State)
  | ctl (s : Ctl.State) (tmCount tmLast : Nat)

def num (ws : List String) (k : String) : Option Nat := (kv ws k).bind String.toNat?

def showFires (fs : List Fire) : String :=
  if fs.isEmpty then "f=-" else "f=" ++ String.intercalate "," (fs.map fun f => s!"{f.round}@{f.handler}")

def b01 (b : Bool) : String := if b then "1" else "0"

def showCtl (s : Ctl.State) : String :=
  "H" ++ toString s.height ++ "[" ++
    String.intercalate "," (s.insts.map fun i =>
      s!"{i.height}:{i.round}:{b01 i.decided}:{b01 (Ctl.canProcess s i)}") ++ "]"

def isErr : Ctl.Tag → Bool
  | .ok | .oldRound | .decided => false
  | _ => true

def ctlStep (s : Ctl.State) (tc tl : Nat) (op : Ctl.Op) (showBc : Bool) : DState × String :=
  let (s', o) := Ctl.step s op
  let tc' := tc + o.arms.length
  let tl' := match o.arms.getLast? with | some (_, r) => r | none => tl
  (.ctl s' tc' tl', s!"e={b01 (isErr o.tag)} bc={if showBc then toString o.bcast else "-"} tm={tc'}:{tl'} st={showCtl s'}")

def stepLine (st : DState) (line : String) : DState × String :=
  let ws := words line
  match ws with
  | "reset" :: "timer" :: _ =>
    match num ws "role", num ws "slot", num ws "thr", num ws "quick", num ws "slow", num ws "gen" with
    | some role, some slot, some thr, some quick, some slow, some gen =>
      let c : Cfg := { role := role, slotDur := slot, quickThr := thr, quick := quick, slow := slow, genesis := gen }
      let h0 : Option Nat := if kv ws "hd" = some "-" then none else some 0
      (.timer c (Timer.step c Timer.init (.register h0)).1, "ok")
    | _, _, _, _, _, _ => (.none, "bad-op")
  | "reset" :: "ctl" :: _ =>
    match num ws "cap", num ws "cutoff" with
    | some cap, some cutoff => (.ctl (Ctl.init cap cutoff) 0 0, "ok")
    | _, _ => (.none, "bad-op")
  | "dur" :: _ =>
    match num ws "role", num ws "slot", num ws "thr", num ws "quick", num ws "slow", num ws "r" with
    | some role, some slot, some thr, some quick, some slow, some r =>
      (st, toString (roundDuration { role := role, slotDur := slot, quickThr := thr, quick := quick, slow := slow, genesis := 0 } r))
    | _, _, _, _, _, _ => (st, "bad-op")
  | "netdl" :: _ =>
    match num ws "role", num ws "slot", num ws "thr", num ws "quick", num ws "slow", num ws "gen", num ws "h", num ws "r" with
    | some role, some slot, some thr, some quick, some slow, some gen, some h, some r =>
      let c : Cfg := { role := role, slotDur := slot, quickThr := thr, quick := quick, slow := slow, genesis := gen }
      (st, match roleBase c with
           | some _ => s!"abs {deadline c h r 0}"
           | none => s!"rel {perRound c r}")
    | _, _, _, _, _, _, _, _ => (st, "bad-op")
  | "register" :: _ =>
    match st, num ws "at" with
    | .timer c s, some t =>
      let k : Option Nat := (kv ws "k").bind String.toNat?
      let (s1, fs) := advance c s t
      ((.timer c (Timer.step c s1 (.register k)).1), showFires fs)
    | _, _ => (st, "bad-op")
  | "arm" :: _ =>
    match st, num ws "h", num ws "r", num ws "at" with
    | .timer c s, some h, some r, some t =>
      let (s1, fs) := advance c s t
      ((.timer c (Timer.step c s1 (.arm h r t)).1), showFires fs)
    | _, _, _, _ => (st, "bad-op")
  | "cancel" :: _ =>
    match st, num ws "at" with
    | .timer c s, some t =>
      let (s1, fs) := advance c s t
      ((.timer c (Timer.step c s1 .cancel).1), showFires fs)
    | _, _ => (st, "bad-op")
  | "end" :: _ =>
    match st, num ws "at" with
    | .timer c s, some t =>
      let (s1, fs) := advance c s t
      (.timer c s1, showFires fs)
    | _, _ => (st, "bad-op")
  | "start" :: _ =>
    match st, num ws "h" with
    | .ctl s tc tl, some h => ctlStep s tc tl (.start h) false
    | _, _ => (st, "bad-op")
  | "decide" :: _ =>
    match st, num ws "h", num ws "r" with
    | .ctl s tc tl, some h, some r => ctlStep s tc tl (.decide h r) true
    | _, _, _ => (st, "bad-op")
  | "timeout" :: _ =>
    match st, num ws "h", num ws "r" with
    | .ctl s tc tl, some h, some r => ctlStep s tc tl (.timeout h r) true
    | _, _, _ => (st, "bad-op")
  | ["badtimeout"] =>
    match st with
    | .ctl s tc tl => ctlStep s tc tl .badTimeout true
    | _ => (st, "bad-op")
  | _ => (st, "bad-op")

def main : IO Unit := do
  loopState (← IO.getStdin) (← IO.getStdout) DState.none stepLine
