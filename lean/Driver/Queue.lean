/- Native model driver for engine `queue` (C14). -/
import Ssv.Common.Wire
import Ssv.Model.Queue
open Ssv Ssv.Queue Ssv.Wire

def parseBody (s : String) : Option Body :=
  match s.splitOn ":" with
  | ["ev", t] => t.toNat?.map Body.event
  | ["c", h, r, t, n] => do
      let h ← h.toNat?; let r ← r.toNat?; let t ← t.toNat?; let n ← n.toNat?
      pure (Body.consensus h r t n)
  | ["p", sl, post] => do
      let sl ← sl.toNat?; let post ← post.toNat?
      pure (Body.partialSig sl (post == 1))
  | _ => none

def parseState (s : String) : Option PState :=
  match s.splitOn ":" with
  | [run, h, r, sl, q] => do
      let run ← run.toNat?; let h ← h.toNat?; let r ← r.toNat?; let sl ← sl.toNat?; let q ← q.toNat?
      pure ⟨run == 1, h, r, sl, q⟩
  | _ => none

def parseFilter (st : PState) (s : String) : Option (Msg → Bool) :=
  match s.splitOn ":" with
  | ["any"] => some filterAny
  | ["idle"] => some filterIdle
  | ["noprop"] => some (filterNoProposal st)
  | ["none"] => some (fun _ => false)
  | ["mod", k, r] => do
      let k ← k.toNat?; let r ← r.toNat?
      pure (fun m => m.id % k == r)
  | ["height", h] => do
      let h ← h.toNat?
      pure (fun m => match m.body with | .consensus hh _ _ _ => hh == h | _ => false)
  | _ => none

def showPop (q : Q Msg) (r : Option Msg) : String :=
  (match r with | some m => toString m.id | none => "nil") ++ s!" len={q.len}"

def step (q : Q Msg) (line : String) : Q Msg × String :=
  let ws := words line
  match ws with
  | "reset" :: rest =>
    match (kv rest "cap").bind String.toNat? with
    | some c => (⟨[], c, []⟩, "ok")
    | none => (q, "bad-op")
  | "push" :: rest =>
    match (kv rest "id").bind String.toNat?, (kv rest "body").bind parseBody with
    | some i, some b =>
      let (q', ok) := q.tryPush ⟨i, b⟩
      (q', if ok then "1" else "0")
    | _, _ => (q, "bad-op")
  | "trypop" :: rest =>
    match (kv rest "st").bind parseState with
    | some st =>
      match (kv rest "f").bind (parseFilter st) with
      | some f => let (q', r) := q.tryPop (prior st) f; (q', showPop q' r)
      | none => (q, "bad-op")
    | none => (q, "bad-op")
  | "pop" :: rest =>
    match (kv rest "st").bind parseState, (kv rest "rf").bind String.toNat? with
    | some st, some rf =>
      match (kv rest "f").bind (parseFilter st) with
      | some f => let (q', r) := q.popBlocking (rf == 1) (prior st) f; (q', showPop q' r)
      | none => (q, "bad-op")
    | _, _ => (q, "bad-op")
  | ["len"] => (q, toString q.len)
  | ["prior", st, a, b] =>
    match parseState st, parseBody a, parseBody b with
    | some st, some a, some b => (q, if prior st ⟨0, a⟩ ⟨1, b⟩ then "1" else "0")
    | _, _, _ => (q, "bad-op")
  | _ => (q, "bad-op")

def main : IO Unit := do
  loopState (← IO.getStdin) (← IO.getStdout) (⟨[], 32, []⟩ : Q Msg) step
