/- Native model driver for engine `topics` (C18). One op per line on stdin, one result per line on stdout. -/
import Ssv.Common.Wire
import Ssv.Model.Topics
open Ssv Ssv.Topics Ssv.Wire

def showInt (i : Int) : String := toString i

def step (line : String) : String :=
  match words line with
  | ["subnet", s] => match unhex s with
      | some b => showInt (validatorSubnet b)
      | none => "bad-op"
  | ["topicid", pk] => match unhex pk with
      | some b => String.intercalate "," ((validatorTopicID b).map hex)
      | none => "bad-op"
  | ["fullname", s] => match unhex s with
      | some b => hex (getTopicFullName b)
      | none => "bad-op"
  | ["basename", s] => match unhex s with
      | some b => hex (getTopicBaseName b)
      | none => "bad-op"
  | ["pubtopics", pk] => match unhex pk with
      | some b => String.intercalate "," ((publishTopics b).map hex)
      | none => "bad-op"
  | ["subtopics", pk] => match unhex pk with
      | some b => String.intercalate "," ((subscribeTopics b).map hex)
      | none => "bad-op"
  | ["vstart", pk, _spk] => match unhex pk with   -- Validator.Start: subscribes for the VALIDATOR key; the share key plays no role
      | some b => String.intercalate "," ((subscribeTopics b).map hex)
      | none => "bad-op"
  | ["accept", pk, t] => match unhex pk, unhex t with
      | some b, some tt => if validatorAcceptsTopic b tt then "1" else "0"
      | _, _ => "bad-op"
  | ["enc", m, id, sg] => match unhex m, id.toNat?, unhex sg with
      | some mm, some i, some ss => hex (encodeSigned mm i ss)
      | _, _, _ => "bad-op"
  | ["dec", e] => match unhex e with
      | some b => match decodeSigned b with
        | some (m, i, sg) => s!"{hex m} {i} {hex sg}"
        | none => "err"
      | none => "bad-op"
  | ["substr", v] => match unhex v with
      | some b => hex (subnetsToString b)
      | none => "bad-op"
  | ["subfrom", v] => match unhex v with
      | some b => match subnetsFromString b with
        | some d => hex d
        | none => "err"
      | none => "bad-op"
  | ["shared", a, b, m] => match unhex a, unhex b, m.toInt? with
      | some aa, some bb, some mm => "[" ++ String.intercalate "," ((sharedSubnets aa bb mm).map toString) ++ "]"
      | _, _, _ => "bad-op"
  | ["diff", a, b] => match unhex a, unhex b with
      | some aa, some bb => "[" ++ String.intercalate "," ((diffSubnets aa bb).map fun (i, v) => s!"{i}:{v}") ++ "]"
      | _, _ => "bad-op"
  | ["active", v] => match unhex v with
      | some b => toString (active b)
      | none => "bad-op"
  | ["alltopics"] => String.intercalate "," (allTopics.map hex)
  | _ => "bad-op"

def main : IO Unit := do
  loopLines (← IO.getStdin) (← IO.getStdout) step
