/- Native model driver for engine `duties` (C16). One op per line on stdin, one observation per line on stdout.

   reset kind=att|prop|sync spe=<n> epp=<n> clock=<slot> shares=<shares> f1=<chain>   start a case (initial duties use f1)
   tick slot=<s> clock=<c> f1=<chain> f2=<chain>
   reorg slot=<s> prev=0|1 cur=0|1
   indices clock=<c>
   shares set=<shares>                                   the registry changes (no notice to the handler)
   <chain>  ::= f | ok:<duties>          duties ::= - | s/v/t;s/v/t     (what the beacon node would answer, for anybody)
   <shares> ::= - | v/<own><liq>/<st>;…  st ::= a (attesting) | q<epoch> (pending queued, activation) | o (other) | n (no metadata)
   observation: atoms in order, `F<epoch arg>:ok|fail|noidx` and non-empty `X[s/v/t,...]` (sorted), or `-` when there is none. -/
import Ssv.Common.Wire
import Ssv.Model.DutiesIndices
open Ssv Ssv.Duties Ssv.Wire

def parseNats (sep : String) (s : String) : Option (List Nat) :=
  if s = "-" then some [] else (s.splitOn sep).mapM (fun w => w.toNat?)

def parseDuty (s : String) : Option Duty :=
  match s.splitOn "/" with
  | [a, b, c] => do
    let x ← a.toNat?; let y ← b.toNat?; let z ← c.toNat?
    pure ⟨x, y, z⟩
  | _ => none

def parseChain (s : String) : Option Chain :=
  if s = "f" then some .fail
  else match s.splitOn ":" with
    | ["ok", d] => do
      let ds ← if d = "-" then some [] else (d.splitOn ";").mapM parseDuty
      pure (.ok ds)
    | _ => none

def parseStatus (s : String) : Option ShareStatus :=
  if s = "a" then some .attesting
  else if s = "o" then some .other
  else if s = "n" then some .noMeta
  else if s.startsWith "q" then (s.drop 1).toString.toNat?.map ShareStatus.pendingQueued
  else none

def parseShare (s : String) : Option Share :=
  match s.splitOn "/" with
  | [v, fl, st] => do
    let vi ← v.toNat?
    let stt ← parseStatus st
    match fl.toList with
    | [o, l] => pure ⟨vi, o == '1', l == '1', stt⟩
    | _ => none
  | _ => none

def parseShares (s : String) : Option (List Share) :=
  if s = "-" then some [] else (s.splitOn ";").mapM parseShare

def dutyLe (a b : Duty) : Bool :=
  a.slot < b.slot || (a.slot == b.slot && (a.vidx < b.vidx || (a.vidx == b.vidx && a.tag ≤ b.tag)))

def insertSorted (d : Duty) : List Duty → List Duty
  | [] => [d]
  | x :: xs => if dutyLe d x then d :: x :: xs else x :: insertSorted d xs

def sortDuties (l : List Duty) : List Duty := l.foldr insertSorted []

def showAtom : Atom → String
  | .fetch _ arg r =>
    let t := match r with | .noIdx => "noidx" | .fail => "fail" | .ok _ _ => "ok"
    s!"F{arg}:{t}"
  | .execs _ _ ds =>
    "X[" ++ String.intercalate "," ((sortDuties ds).map fun d => s!"{d.slot}/{d.vidx}/{d.tag}") ++ "]"

/-- an `execs` atom that hands nothing to `executeDuties` is not observable on the implementation -/
def visible : Atom → Bool
  | .execs _ _ [] => false
  | _ => true

def showAtoms (l : List Atom) : String :=
  let l := l.filter visible
  if l.isEmpty then "-" else String.intercalate " " (l.map showAtom)

structure DState where
  k : Kind
  n : Net
  shares : List Share
  st : RState

def natArg (ws : List String) (k : String) : Option Nat := (kv ws k).bind (·.toNat?)
def chainArg (ws : List String) (k : String) : Option Chain := (kv ws k).bind parseChain
def boolArg (ws : List String) (k : String) : Option Bool := (natArg ws k).map (· != 0)

def stepLine (s : Option DState) (line : String) : Option DState × String :=
  let ws := words line
  match ws.head? with
  | some "reset" =>
    let kind := match kv ws "kind" with
      | some "att" => some Kind.att | some "prop" => some Kind.prop | some "sync" => some Kind.sync | _ => none
    match kind, natArg ws "spe", natArg ws "epp", natArg ws "clock", chainArg ws "f1", (kv ws "shares").bind parseShares with
    | some k, some spe, some epp, some c, some ch, some sh =>
      let n : Net := ⟨spe, epp⟩
      if n.ok then
        let (st, o) := initH k n c (resolveInit k n sh c ch)
        (some ⟨k, n, sh, st⟩, showAtoms o)
      else (none, "bad-params")
    | _, _, _, _, _, _ => (none, "bad-op")
  | some op =>
    match s with
    | none => (none, "no-state")
    | some d =>
      let ev : Option EnvEvent :=
        if op = "tick" then
          match natArg ws "slot", natArg ws "clock", chainArg ws "f1", chainArg ws "f2" with
          | some a, some b, some r1, some r2 => some (.tick a b r1 r2)
          | _, _, _, _ => none
        else if op = "reorg" then
          match natArg ws "slot", boolArg ws "prev", boolArg ws "cur" with
          | some a, some p, some c => some (.reorg a p c)
          | _, _, _ => none
        else if op = "indices" then (natArg ws "clock").map EnvEvent.indices
        else if op = "shares" then ((kv ws "set").bind parseShares).map EnvEvent.shares
        else none
      match ev with
      | none => (s, "bad-op")
      | some e =>
        let (sh, st, o) := stepE d.k d.n d.shares d.st e
        (some { d with shares := sh, st := st }, showAtoms o)
  | none => (s, "bad-op")

def main : IO Unit := do
  loopState (← IO.getStdin) (← IO.getStdout) (none : Option DState) stepLine
