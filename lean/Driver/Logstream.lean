/- Native model driver for engine `logstream` (C13). One op per line on stdin, one observation per line on stdout.

   reset start=S follow=F batch=B hist=H|-|fail harm=K|- [hmsg=…] chain=BLOCK:ID.TX.REMOVED,…;BLOCK:…   (chain=- : no logs)
   head n=N | suberr | drop | fetcherr k=K [mode=rpc|drop] [msg=generic|toolarge|readlimit|respsize] | subfail | end

   `mode` (RPC error vs. connection dropped instead of an answer) and `msg`/`hmsg` (the text of the RPC error: a generic
   failure or one of the "response too large" answers of real nodes) only tell the fake node HOW to fail; the code does
   not inspect either, so the model's transition is the same for all of them.
-/
import Ssv.Common.Wire
import Ssv.Model.LogStream
open Ssv Ssv.LogStream Ssv.Wire

structure DState where
  cfg : Cfg
  st : St
  hist : List BlockLogs
  dead : Bool          -- the node process is gone (historical sync failed fatally)

def natOf (ws : List String) (k : String) : Option Nat := (kv ws k).bind String.toNat?

def optNatOf (ws : List String) (k : String) : Option (Option Nat) :=
  match kv ws k with
  | none => some none
  | some "-" => some none
  | some v => v.toNat?.map some

def parseLog (s : String) : Option RawLog :=
  match s.splitOn "." with
  | [i, t, r] => do
    let i ← i.toNat?; let t ← t.toNat?; let r ← r.toNat?
    pure ⟨i, t, r != 0⟩
  | _ => none

def parseBlock (s : String) : Option (Nat × List RawLog) :=
  match s.splitOn ":" with
  | [b, ls] => do
    let b ← b.toNat?
    let logs ← (ls.splitOn ",").mapM parseLog
    pure (b, logs)
  | _ => none

def parseChain (s : String) : Option (List (Nat × List RawLog)) :=
  if s = "-" then some [] else (s.splitOn ";").mapM parseBlock

def chainOf (tbl : List (Nat × List RawLog)) : Nat → List RawLog :=
  fun b => match tbl.find? (fun p => p.1 == b) with
    | some p => p.2
    | none => []

def showCalls (cs : List Call) : String :=
  "[" ++ String.intercalate "," (cs.map fun c => s!"{c.lo}-{c.hi}" ++ (if c.ok then "" else "!")) ++ "]"

def showEntry (e : BlockLogs) : String :=
  s!"{e.block}:" ++ String.intercalate "+" (e.logs.map fun l => toString l.id)

def showOut (es : List BlockLogs) : String :=
  "[" ++ String.intercalate "," (es.map showEntry) ++ "]"

def b01 (b : Bool) : String := if b then "1" else "0"

/-- number of eth_subscribe requests the node sees while the client recovers from a failure:
    one per consumed armed subscribe failure, plus the final successful one unless the client gave up -/
def subsSeen (s s' : St) : Nat := (s.armSub - s'.armSub) + (if s'.aborted then 0 else 1)

def histErrTag : HistErr → String
  | .nothingToSync => "nothing"
  | .inferior => "inferior"
  | _ => "err"      -- blockNumber / fetch / lastZero / replay: the harness does not tell error texts apart

def doReset (ws : List String) : Option (DState × String) := do
  let start ← natOf ws "start"
  let follow ← natOf ws "follow"
  let batch ← natOf ws "batch"
  let tbl ← parseChain ((kv ws "chain").getD "-")
  let cfg : Cfg := ⟨chainOf tbl, batch, follow⟩
  match kv ws "hist" with
  | none | some "-" => pure (⟨cfg, init start, [], false⟩, "ok")
  | some h =>
    let cur : Option Nat ← if h = "fail" then some none else h.toNat?.map some
    let harm ← optNatOf ws "harm"
    let calls := match fetchHistorical cfg start cur harm with
      | .ok r => showCalls r.calls
      | .error _ => "[]"
    match syncHistory cfg (start - 1) start cur harm with
    | .ok (hist, last) => pure (⟨cfg, init (last + 1), hist, false⟩, s!"hist=ok last={last} calls={calls}")
    | .error .nothingToSync => pure (⟨cfg, init start, [], false⟩, s!"hist=nothing calls={calls}")
    | .error e =>
      let delivered := match fetchHistorical cfg start cur harm with
        | .ok r => r.entries
        | .error _ => []
      pure (⟨cfg, init start, delivered, true⟩, s!"hist=err:{histErrTag e} calls={calls}")

def stepLine (ds : Option DState) (line : String) : Option DState × String :=
  let ws := words line
  match ws with
  | "nodewire" :: _ => (ds, "done")   -- implementation-side wire oracle on the node's real hand-over (nothing to model here)
  | "reset" :: rest =>
    match doReset rest with
    | some (d, o) => (some d, o)
    | none => (none, "bad-op")
  | cmd :: rest =>
    match ds with
    | none => (none, "no-case")
    | some d =>
      if cmd = "end" then
        (some d, s!"out={showOut (d.hist ++ d.st.out)} ab={b01 d.st.aborted}")
      else if d.dead || d.st.aborted then (some d, "dead")
      else
        let op : Option Op := match cmd with
          | "head" => (natOf rest "n").map Op.head
          | "suberr" => some .subErr
          | "drop" => some .connDrop
          | "fetcherr" => (natOf rest "k").map Op.fetchErr
          | "subfail" => some .subFail
          | _ => none
        match op with
        | none => (some d, "bad-op")
        | some o =>
          let (s', calls) := step d.cfg d.st o
          let failed := match o with
            | .head _ => calls.any (fun c => !c.ok)
            | .subErr | .connDrop => true
            | _ => false
          let obs := match o with
            | .head _ => s!"calls={showCalls calls} subs={if failed then subsSeen d.st s' else 0} ab={b01 s'.aborted}"
            | .subErr | .connDrop => s!"subs={subsSeen d.st s'} ab={b01 s'.aborted}"
            | _ => "armed"
          (some { d with st := s' }, obs)
  | [] => (ds, "bad-op")

def main : IO Unit := do
  loopState (← IO.getStdin) (← IO.getStdout) (none : Option DState) stepLine
