/- Native model driver for engine `ssz` (C08, byte-level SSZ decoders of the validation path).
   op:  <target> <bytes>      target ∈ ssv | qmsg | signed | psig | psigs | spsig
        encqmsg <type> <height> <round> <id> <root> <dataRound> <rcj> <pj>   (lists: [] or items joined by ',') |
        encssv <type> <id> <data> | encspsig <sigbytes> <signer> <type> <slot> <psig>*   (psig = sig:root:signer)
   <bytes> = chunks joined by '+': lower-case hex, `zN` (N zero bytes) or `-` (empty). -/
import Ssv.Common.Wire
import Ssv.Model.Ssz
open Ssv Ssv.Ssz Ssv.Wire

def parseChunk (s : String) : Option (List Nat) :=
  if s.startsWith "z" then (s.drop 1).toString.toNat?.map fun n => List.replicate n 0 else unhex s

def parseBytes (s : String) : Option (List Nat) :=
  (s.splitOn "+").foldl (fun acc c => do let a ← acc; let b ← parseChunk c; pure (a ++ b)) (some [])

def cksum (b : List Nat) : Nat := b.foldl (fun c x => (c * 31 + x) % 4294967296) 7

/-- short byte strings in hex, long ones as `#len:checksum` -/
def rb (b : List Nat) : String := if b.length ≤ 40 then hex b else s!"#{b.length}:{cksum b}"

def rlist (l : List (List Nat)) : String := "[" ++ ",".intercalate (l.map rb) ++ "]"

def rnats (l : List Nat) : String := if l.isEmpty then "-" else ",".intercalate (l.map toString)

def rQ (m : QMsg) : String :=
  s!"t={m.msgType} h={m.height} r={m.round} id={rb m.identifier} root={rb m.root} dr={m.dataRound} rcj={rlist m.rcj} pj={rlist m.pj}"

def rP (m : PSig) : String := s!"{rb m.partialSignature}:{rb m.signingRoot}:{m.signer}"

def rPs (m : PSigs) : String := s!"t={m.type} slot={m.slot} msgs=[" ++ ",".intercalate (m.messages.map rP) ++ "]"

def render {α : Type} (r : Res α) (f : α → String) : String :=
  match r with
  | .ok a => "ok " ++ f a
  | .err => "err"
  | .panic => "panic"

def parsePSig (s : String) : Option PSig :=
  match s.splitOn ":" with
  | [a, b, c] => do
    let sig ← unhex a; let root ← unhex b; let signer ← c.toNat?
    pure { partialSignature := sig, signingRoot := root, signer }
  | _ => none

def parseList (s : String) : Option (List (List Nat)) :=
  if s = "[]" then some [] else (s.splitOn ",").mapM parseBytes

def step (line : String) : String :=
  match words line with
  | ["ssv", b] => match parseBytes b with
      | some bs => render (decodeSSV bs) fun m => s!"t={m.msgType} id={rb m.msgID} data={rb m.data}"
      | none => "bad-op"
  | ["qmsg", b] => match parseBytes b with
      | some bs => render (decodeQMsg bs) rQ
      | none => "bad-op"
  | ["signed", b] => match parseBytes b with
      | some bs => render (decodeSigned bs) fun m => s!"sig={rb m.signature} signers={rnats m.signers} {rQ m.message} fd={rb m.fullData}"
      | none => "bad-op"
  | ["psig", b] => match parseBytes b with
      | some bs => render (decodePSig bs) rP
      | none => "bad-op"
  | ["psigs", b] => match parseBytes b with
      | some bs => render (decodePSigs bs) rPs
      | none => "bad-op"
  | ["spsig", b] => match parseBytes b with
      | some bs => render (decodeSPSig bs) fun m => s!"sig={rb m.signature} signer={m.signer} {rPs m.message}"
      | none => "bad-op"
  | ["encqmsg", t, h, r, i, root, dr, rcj, pj] =>
      match t.toNat?, h.toNat?, r.toNat?, parseBytes i, parseBytes root, dr.toNat?, parseList rcj, parseList pj with
      | some tt, some hh, some rr, some ii, some ro, some d, some l6, some l7 =>
        rb (encodeQMsg { msgType := tt, height := hh, round := rr, identifier := ii, root := ro, dataRound := d, rcj := l6, pj := l7 })
      | _, _, _, _, _, _, _, _ => "bad-op"
  | ["encssv", t, i, d] => match t.toNat?, parseBytes i, parseBytes d with
      | some tt, some ii, some dd => rb (encodeSSV { msgType := tt, msgID := ii, data := dd })
      | _, _, _ => "bad-op"
  | "encspsig" :: sg :: sn :: t :: sl :: ps => match unhex sg, sn.toNat?, t.toNat?, sl.toNat?, ps.mapM parsePSig with
      | some sig, some signer, some tt, some slot, some msgs =>
        rb (encodeSPSig { message := { type := tt, slot, messages := msgs }, signature := sig, signer })
      | _, _, _, _, _ => "bad-op"
  | _ => "bad-op"

def main : IO Unit := do
  loopLines (← IO.getStdin) (← IO.getStdout) step
