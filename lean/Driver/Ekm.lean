/- Native model driver for engine `ekm` (C04). One op per line on stdin, one canonical observation per line on
   stdout. Several shares per case (each is one `Ssv.Slashing.State`; the clock is shared); `reset …` starts a case. -/
import Ssv.Common.Wire
import Ssv.Model.Slashing
open Ssv Ssv.Slashing Ssv.Wire

structure D where
  cfg : Cfg
  clock : Nat
  shares : List State

def kvNat (ws : List String) (k : String) : Option Nat := (kv ws k).bind String.toNat?

def refuseStr : Refuse → String
  | .noAccount => "noAccount" | .farFutureTarget => "farFutureTarget" | .farFutureSource => "farFutureSource"
  | .farFutureSlot => "farFutureSlot" | .slotZero => "slotZero" | .attMissing => "attMissing"
  | .propMissing => "propMissing" | .slashableAtt => "slashableAtt" | .slashableProp => "slashableProp"
  | .writeFailed => "writeFailed"

def outStr : Out → String
  | .ok => "ok" | .signed => "signed" | .refused r => "refused:" ++ refuseStr r | .pending => "pending"
  | .errPropSlotZero => "err" | .errFault => "fault" | .badOp => "badop" | .blocked => "blocked"

def chkStr : Option Refuse → String
  | none => "ok" | some r => refuseStr r

def readback (s : State) : String :=
  let a := match s.d.att with | none => "att=-" | some (x, y) => s!"att={x},{y}"
  let p := match s.d.prop with | none => "prop=-" | some x => s!"prop={x}"
  let c := if s.d.account then "acc=1" else "acc=0"
  s!"{a} {p} {c}"

def setAt (l : List State) (k : Nat) (s : State) : List State := l.set k s

/-- run `op` on share `k` at the shared clock -/
def onShare (d : D) (k : Nat) (op : Op) (pre : State → String) : D × String :=
  match d.shares[k]? with
  | none => (d, "bad-op")
  | some s0 =>
    let s := { s0 with clock := d.clock }
    let (s', o) := step d.cfg s op
    ({ d with shares := setAt d.shares k s' }, outStr o ++ pre s ++ " " ++ readback s')

def anyPending (d : D) : Bool := d.shares.any fun s => s.pend.isSome
def anyDelayed (d : D) : Bool := d.shares.any fun s => s.delayed.isSome || s.delayedOut.isSome

/-- the wallet lock is shared by all shares: when the in-flight bump (of any share) has finished, the request that
    was waiting (on any share) executes at the current clock -/
def drainAll (d : D) : D :=
  if anyPending d then d else
  { d with shares := d.shares.map fun s => if s.delayed.isSome then drain d.cfg { s with clock := d.clock } else s }

/-- a lock-taking request on share `k`: waits if a bump of ANY share is in flight (one waiting request at a time) -/
def lockOp (d : D) (k : Nat) (op : Op) (delayable : Bool) (pre : State → String) : D × String :=
  if anyPending d then
    match d.shares[k]? with
    | none => (d, "bad-op")
    | some s =>
      if anyDelayed d || !delayable then (d, "badop " ++ readback s)
      else ({ d with shares := setAt d.shares k { s with delayed := some op } }, "blocked " ++ readback s)
  else onShare d k op pre

def insertAll (x : Nat) : List Nat → List (List Nat)
  | [] => [[x]]
  | y :: ys => (x :: y :: ys) :: (insertAll x ys).map (y :: ·)

def perms : List Nat → List (List Nat)
  | [] => [[]]
  | x :: xs => (perms xs).flatMap (insertAll x)

/-- run the requests in the given order; `none` when an outcome differs from the observed one -/
def tryOrder (cfg : Cfg) (reqs : List (Nat × Nat)) (got : List Bool) : State → List Nat → Option State
  | s, [] => some s
  | s, i :: rest =>
    match reqs[i]?, got[i]? with
    | some (x, y), some g =>
      let (s', o) := step cfg s (.signAtt x y)
      if (o == .signed) == g then tryOrder cfg reqs got s' rest else none
    | _, _ => none

def parseReqs (str : String) : Option (List (Nat × Nat)) :=
  (str.splitOn ";").mapM fun p =>
    match p.splitOn ":" with
    | [a, b] => do let x ← a.toNat?; let y ← b.toNat?; pure (x, y)
    | _ => none

def parseNats (str : String) : Option (List Nat) :=
  if str == "-" then some [] else (str.splitOn ";").mapM String.toNat?

def stepLine (d : D) (line : String) : D × String :=
  let ws := words line
  match ws with
  | "reset" :: _ =>
    match kvNat ws "shares", kvNat ws "clock", kvNat ws "spe", kvNat ws "ffe", kvNat ws "ffs" with
    | some n, some c, some spe, some ffe, some ffs =>
      ({ cfg := ⟨spe, ffe, ffs⟩, clock := c, shares := List.replicate n (init c) }, "ok")
    | _, _, _, _, _ => (d, "bad-op")
  | "realclock" :: _ => (d, "done")   -- implementation-side probe on the real wall clock (nothing to model)
  | "tick" :: _ =>
    match kvNat ws "dt" with
    | some dt => ({ d with clock := d.clock + dt }, "ok")
    | none => (d, "bad-op")
  | "restart" :: _ =>
    ({ d with shares := d.shares.map fun s => (step d.cfg { s with clock := d.clock } .restart).1 }, "ok")
  | opn :: _ =>
    match kvNat ws "k" with
    | none => (d, "bad-op")
    | some k =>
      let plain := fun (_ : State) => ""
      match opn with
      | "add" => lockOp d k .addShare true plain
      | "addfail" => match kvNat ws "n" with
        | some n => lockOp d k (.addFail n) false plain
        | none => (d, "bad-op")
      | "remove" => lockOp d k .removeShare true plain
      | "removefail" => match kvNat ws "n" with
        | some n => lockOp d k (.removeFail n) false plain
        | none => (d, "bad-op")
      | "bump" => lockOp d k .bump true plain
      | "resume" => onShare d k .resume plain
      | "bbegin" =>
        if anyPending d then
          match d.shares[k]? with
          | some s => (d, "badop " ++ readback s)
          | none => (d, "bad-op")
        else onShare d k .bumpBegin plain
      | "bread" => let (d', o) := onShare d k .bumpRead plain; (drainAll d', o)
      | "bwrite" => let (d', o) := onShare d k .bumpWrite plain; (drainAll d', o)
      | "satt" => match kvNat ws "s", kvNat ws "t" with
        | some x, some y => lockOp d k (.signAtt x y) true fun s => " chk=" ++ chkStr (checkAtt s.d.att x y)
        | _, _ => (d, "bad-op")
      | "sblk" => match kvNat ws "slot" with
        | some sl => lockOp d k (.signBlock sl) true fun s => " chk=" ++ chkStr (checkProp s.d.prop sl)
        | none => (d, "bad-op")
      | "sattf" => match kvNat ws "s", kvNat ws "t" with
        | some x, some y =>
          if anyPending d then lockOp d k (.signAttFault x y) false plain else
          let (d', o) := onShare d k (.signAttFault x y) fun s => " chk=" ++ chkStr (checkAtt s.d.att x y)
          -- mode=close: the database was closed under the request; the harness reopens it (= restart) inside the op
          if kv ws "mode" == some "close" then
            ({ d' with shares := d'.shares.map fun s => (step d'.cfg s .restart).1 }, o)
          else (d', o)
        | _, _ => (d, "bad-op")
      | "sblkf" => match kvNat ws "slot" with
        | some sl =>
          if anyPending d then lockOp d k (.signBlockFault sl) false plain else
          let (d', o) := onShare d k (.signBlockFault sl) fun s => " chk=" ++ chkStr (checkProp s.d.prop sl)
          if kv ws "mode" == some "close" then
            ({ d' with shares := d'.shares.map fun s => (step d'.cfg s .restart).1 }, o)
          else (d', o)
        | none => (d, "bad-op")
      | "xconc" =>
        if anyPending d then lockOp d k .bump false plain else
        -- concurrent block across shares (oracle-only on the implementation side): every listed request for share k
        -- is run once, sequentially; the generator only lists requests the stored records refuse, so nothing changes
        match d.shares[k]?, (kv ws "reqs").bind parseReqs, (kv ws "slots").bind parseNats with
        | some s0, some reqs, some slots =>
          let s := { s0 with clock := d.clock }
          let s1 := reqs.foldl (fun st r => (step d.cfg st (.signAtt r.1 r.2)).1) s
          let s2 := slots.foldl (fun st sl => (step d.cfg st (.signBlock sl)).1) s1
          ({ d with shares := setAt d.shares k s2 }, "ok " ++ readback s2)
        | _, _, _ => (d, "bad-op")
      | "conc" =>
        if anyPending d then lockOp d k .bump false plain else
        match d.shares[k]?, (kv ws "reqs").bind parseReqs, kv ws "got" with
        | some s0, some reqs, some gotS =>
          let got := gotS.toList.map (· == '1')
          let s := { s0 with clock := d.clock }
          match (perms (List.range reqs.length)).findSome? (tryOrder d.cfg reqs got s) with
          | some s' => ({ d with shares := setAt d.shares k s' }, "lin " ++ readback s')
          | none => (d, "nolin " ++ readback s)
        | _, _, _ => (d, "bad-op")
      | _ => (d, "bad-op")
  | [] => (d, "bad-op")

def main : IO Unit := do
  loopState (← IO.getStdin) (← IO.getStdout) ({ cfg := ⟨32, 0, 0⟩, clock := 0, shares := [] } : D) stepLine
