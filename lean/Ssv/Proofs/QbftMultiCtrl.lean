/-
C01 all heights, part 1 — the controller's instance container over many heights: what `ProcessMsg` / `StartNewInstance` /
`OnTimeout` do to the instance of EVERY height (the acting height: an `NStep`; other heights: nothing, `forceStop`, or
eviction), that the container always holds the (at most) two highest heights ever added, and that an instance which is
re-created for a height with two higher stored heights is dropped at once (`Blocked`). Core Lean only.
-/
import Ssv.Model.Qbft.SystemM
import Ssv.Proofs.QbftNodeCtrl
set_option linter.unusedSimpArgs false
set_option linter.unusedVariables false

namespace Ssv.Qbft.M
open Ssv.Qbft Ssv.Qbft.B

/-- the heights stored in the container, in container order -/
def hts (c : Ctrl) : List Nat := c.insts.map (·.height)

/-- container invariant: strictly descending heights, at most two (the node's capacity), none above the controller height -/
structure CInv (c : Ctrl) : Prop where
  sorted : (hts c).Pairwise (· > ·)
  len : (hts c).length ≤ 2
  bound : ∀ x ∈ hts c, x ≤ c.height

/-- two stored heights above `h`: an instance for `h` can never (again) be stored -/
def Blocked (h : Nat) (c : Ctrl) : Prop := ∃ x y, hts c = [x, y] ∧ h < y

theorem findInstance_mem_hts {l : List State} {h : Nat} {s : State} (hf : findInstance l h = some s) :
    s.height = h ∧ h ∈ l.map (·.height) := by
  obtain ⟨hm, hh⟩ := findInstance_some hf
  exact ⟨hh, by rw [← hh]; exact List.mem_map_of_mem hm⟩

theorem findInstance_none_of_not_mem {l : List State} {h : Nat} (hn : h ∉ l.map (·.height)) : findInstance l h = none := by
  unfold findInstance
  rw [List.find?_eq_none]
  intro s hs hh
  exact hn (by have : s.height = h := by simpa using hh
               rw [← this]; exact List.mem_map_of_mem hs)

theorem blocked_none {h : Nat} {c : Ctrl} (hc : CInv c) (hb : Blocked h c) : instAt h c = none := by
  obtain ⟨x, y, hxy, hlt⟩ := hb
  apply findInstance_none_of_not_mem
  show h ∉ hts c
  rw [hxy]
  have hs := hc.sorted
  rw [hxy] at hs
  simp at hs ⊢
  omega

/-- replacing the stored instance of a height by another instance of the same height -/
theorem findInstance_update (l : List State) (h0 : Nat) (s s' : State) (hf : findInstance l h0 = some s)
    (hh : s'.height = h0) (h : Nat) :
    findInstance (updateInstance l s') h = if h = h0 then some s' else findInstance l h := by
  induction l with
  | nil => simp [findInstance] at hf
  | cons e rest ih =>
    unfold updateInstance
    by_cases he : e.height = h0
    · have e1 : (e.height == s'.height) = true := by rw [hh]; simpa using he
      simp only [e1, if_true]
      by_cases hh0 : h = h0
      · subst hh0; simp [findInstance, hh]
      · have a1 : (s'.height == h) = false := by rw [hh]; simpa using fun x : h0 = h => hh0 x.symm
        have a2 : (e.height == h) = false := by rw [he]; simpa using fun x : h0 = h => hh0 x.symm
        simp only [findInstance, List.find?_cons, a1, a2, if_neg hh0]
    · have e1 : (e.height == s'.height) = false := by rw [hh]; simpa using he
      simp only [e1, Bool.false_eq_true, if_false]
      have hf' : findInstance rest h0 = some s := by
        simp only [findInstance, List.find?_cons] at hf
        have : (e.height == h0) = false := by simpa using he
        rw [this] at hf
        exact hf
      have ih' := ih hf'
      by_cases heh : e.height = h
      · have hne : h ≠ h0 := by rw [← heh]; exact he
        simp [findInstance, heh, hne]
      · simp only [findInstance, List.find?_cons] at ih' ⊢
        have : (e.height == h) = false := by simpa using heh
        rw [this]
        exact ih'

theorem updateInstance_heights (l : List State) (h0 : Nat) (s s' : State) (hf : findInstance l h0 = some s)
    (hh : s'.height = h0) : (updateInstance l s').map (·.height) = l.map (·.height) := by
  induction l with
  | nil => rfl
  | cons e rest ih =>
    unfold updateInstance
    by_cases he : e.height = h0
    · have e1 : (e.height == s'.height) = true := by rw [hh]; simpa using he
      simp [e1, hh, he]
    · have e1 : (e.height == s'.height) = false := by rw [hh]; simpa using he
      have hf' : findInstance rest h0 = some s := by
        simp only [findInstance, List.find?_cons] at hf
        have : (e.height == h0) = false := by simpa using he
        rw [this] at hf
        exact hf
      simp [e1, ih hf']

/-- what happens to the instance of a height OTHER than the acting one -/
inductive OStep (h : Nat) (c c' : Ctrl) : Prop
  | same (h1 : instAt h c' = instAt h c)
  | stop (s : State) (h0 : instAt h c = some s) (h1 : instAt h c' = some (forceStop s))
  | evict (s : State) (h0 : instAt h c = some s) (h1 : instAt h c' = none) (hb : Blocked h c')

/-- what happens to the instance of the acting height -/
inductive HStep {N : Type} (cfg : Cfg) (h : Nat) (A : Msg → Prop) (i : N) (c c' : Ctrl) (bs : List Msg)
    (evs : List (Ev N)) : Prop
  | n (hn : NStep cfg h A i (instAt h c) (instAt h c') bs evs)
  | dropped (m : Msg) (ha : A m) (h0 : instAt h c = none) (h1 : instAt h c' = none) (hb : Blocked h c')
      (hv : validateDecided cfg m = .ok ()) (hh : m.height = h) (h2 : bs = [])
      (h3 : evs = [.G i m.round, .D i m.round m.fullData])

/-- a step that replaces the stored instance of one height (or changes nothing in the container) -/
structure Upd (c c' : Ctrl) (h0 : Nat) : Prop where
  hts_eq : hts c' = hts c
  height_ge : c.height ≤ c'.height
  other : ∀ h, h ≠ h0 → instAt h c' = instAt h c

theorem Upd.cinv {c c' : Ctrl} {h0 : Nat} (u : Upd c c' h0) (hc : CInv c) : CInv c' :=
  ⟨by rw [u.hts_eq]; exact hc.sorted, by rw [u.hts_eq]; exact hc.len,
   by rw [u.hts_eq]; exact fun x hx => Nat.le_trans (hc.bound x hx) u.height_ge⟩

theorem Upd.blocked {c c' : Ctrl} {h0 : Nat} (u : Upd c c' h0) (h : Nat) (hb : Blocked h c) : Blocked h c' := by
  obtain ⟨x, y, hxy, hlt⟩ := hb
  exact ⟨x, y, by rw [u.hts_eq]; exact hxy, hlt⟩

theorem Upd.refl (c : Ctrl) (h0 : Nat) : Upd c c h0 := ⟨rfl, Nat.le_refl _, fun _ _ => rfl⟩

theorem upd_of_update (c c' : Ctrl) (h0 : Nat) (s s' : State) (hf : findInstance c.insts h0 = some s)
    (hh : s'.height = h0) (hins : c'.insts = updateInstance c.insts s') (hge : c.height ≤ c'.height) :
    Upd c c' h0 ∧ instAt h0 c' = some s' := by
  refine ⟨⟨?_, hge, ?_⟩, ?_⟩
  · show c'.insts.map (·.height) = c.insts.map (·.height)
    rw [hins]; exact updateInstance_heights _ h0 s s' hf hh
  · intro h hne
    show findInstance c'.insts h = findInstance c.insts h
    rw [hins, findInstance_update _ h0 s s' hf hh, if_neg hne]
  · show findInstance c'.insts h0 = some s'
    rw [hins, findInstance_update _ h0 s s' hf hh, if_pos rfl]

theorem upd_of_same (c c' : Ctrl) (h0 : Nat) (hins : c'.insts = c.insts) (hge : c.height ≤ c'.height) : Upd c c' h0 :=
  ⟨by show c'.insts.map (·.height) = c.insts.map (·.height); rw [hins], hge,
   fun h _ => by show findInstance c'.insts h = findInstance c.insts h; rw [hins]⟩

/-! ### adding a new instance to the two-slot container -/

def BlockedL (h : Nat) (l : List State) : Prop := ∃ x y, l.map (·.height) = [x, y] ∧ h < y

/-- `addNewInstance` with capacity 2 on a sorted container that does not hold the new height: the new instance is stored
    unless two higher heights are stored; at most the lowest stored instance is ejected, and then two higher ones remain -/
theorem ins_cases (l : List State) (i0 : State) (hs : (l.map (·.height)).Pairwise (· > ·)) (hl : l.length ≤ 2)
    (hn : i0.height ∉ l.map (·.height)) :
    ((addNewInstance 2 l i0).map (·.height)).Pairwise (· > ·) ∧ (addNewInstance 2 l i0).length ≤ 2 ∧
    (findInstance (addNewInstance 2 l i0) i0.height = some i0 ∨
      (findInstance (addNewInstance 2 l i0) i0.height = none ∧ BlockedL i0.height (addNewInstance 2 l i0))) ∧
    (∀ h, h ≠ i0.height → findInstance (addNewInstance 2 l i0) h = findInstance l h ∨
      (∃ s, findInstance l h = some s ∧ findInstance (addNewInstance 2 l i0) h = none ∧
        BlockedL h (addNewInstance 2 l i0))) ∧
    (∀ h, BlockedL h l → BlockedL h (addNewInstance 2 l i0)) ∧
    (∀ x ∈ (addNewInstance 2 l i0).map (·.height), x ∈ l.map (·.height) ∨ x = i0.height) := by
  rcases l with _ | ⟨a, _ | ⟨b, _ | ⟨c, rest⟩⟩⟩
  · refine ⟨by simp [addNewInstance, insertByHeight], by simp [addNewInstance, insertByHeight], Or.inl ?_, ?_, ?_, ?_⟩
    · simp [addNewInstance, insertByHeight, findInstance]
    · intro h hne
      left
      have : (i0.height == h) = false := by simpa using fun x : i0.height = h => hne x.symm
      simp [addNewInstance, insertByHeight, findInstance, this]
    · rintro h ⟨x, y, hxy, _⟩; simp at hxy
    · intro x hx; simp [addNewInstance, insertByHeight] at hx; exact Or.inr hx
  · have hne : i0.height ≠ a.height := by simpa using hn
    by_cases hlt : a.height < i0.height
    · have e : addNewInstance 2 [a] i0 = [i0, a] := by simp [addNewInstance, insertByHeight, hlt]
      rw [e]
      refine ⟨by simpa using hlt, by simp, Or.inl (by simp [findInstance]), ?_, ?_, ?_⟩
      · intro h hne'
        left
        have : (i0.height == h) = false := by simpa using fun x : i0.height = h => hne' x.symm
        simp [findInstance, this]
      · rintro h ⟨x, y, hxy, _⟩; simp at hxy
      · intro x hx; simp at hx; rcases hx with rfl | rfl
        · exact Or.inr rfl
        · exact Or.inl (by simp)
    · have e : addNewInstance 2 [a] i0 = [a, i0] := by simp [addNewInstance, insertByHeight, hlt]
      rw [e]
      have hai : (a.height == i0.height) = false := by simpa using fun x : a.height = i0.height => hne x.symm
      refine ⟨by simp; omega, by simp, Or.inl (by simp [findInstance, hai]), ?_, ?_, ?_⟩
      · intro h hne'
        left
        have : (i0.height == h) = false := by simpa using fun x : i0.height = h => hne' x.symm
        by_cases hah : a.height = h
        · simp [findInstance, hah]
        · have : (a.height == h) = false := by simpa using hah
          simp [findInstance, *]
      · rintro h ⟨x, y, hxy, _⟩; simp at hxy
      · intro x hx; simp at hx; rcases hx with rfl | rfl
        · exact Or.inl (by simp)
        · exact Or.inr rfl
  · have hab : b.height < a.height := by simpa using hs
    have hna : i0.height ≠ a.height := by intro x; exact hn (by simp [x])
    have hnb : i0.height ≠ b.height := by intro x; exact hn (by simp [x])
    have eab : (a.height == b.height) = false := by simpa using (by omega : a.height ≠ b.height)
    by_cases h1 : a.height < i0.height
    · have e : addNewInstance 2 [a, b] i0 = [i0, a] := by simp [addNewInstance, insertByHeight, h1]
      rw [e]
      have eib : (i0.height == b.height) = false := by simpa using hnb
      refine ⟨by simpa using h1, by simp, Or.inl (by simp [findInstance]), ?_, ?_, ?_⟩
      · intro h hne'
        have ei : (i0.height == h) = false := by simpa using fun x : i0.height = h => hne' x.symm
        by_cases hah : a.height = h
        · left; simp [findInstance, hah, ei]
        · have ea : (a.height == h) = false := by simpa using hah
          by_cases hbh : b.height = h
          · right
            refine ⟨b, by simp [findInstance, ea, hbh], by simp [findInstance, ei, ea], i0.height, a.height, by simp, by omega⟩
          · have eb : (b.height == h) = false := by simpa using hbh
            left; simp [findInstance, ei, ea, eb]
      · rintro h ⟨x, y, hxy, hlt⟩
        simp at hxy
        exact ⟨i0.height, a.height, by simp, by omega⟩
      · intro x hx; simp at hx; rcases hx with rfl | rfl
        · exact Or.inr rfl
        · exact Or.inl (by simp)
    · by_cases h2 : b.height < i0.height
      · have e : addNewInstance 2 [a, b] i0 = [a, i0] := by simp [addNewInstance, insertByHeight, h1, h2]
        rw [e]
        have eai : (a.height == i0.height) = false := by simpa using fun x : a.height = i0.height => hna x.symm
        refine ⟨by simp; omega, by simp, Or.inl (by simp [findInstance, eai]), ?_, ?_, ?_⟩
        · intro h hne'
          have ei : (i0.height == h) = false := by simpa using fun x : i0.height = h => hne' x.symm
          by_cases hah : a.height = h
          · left; simp [findInstance, hah]
          · have ea : (a.height == h) = false := by simpa using hah
            by_cases hbh : b.height = h
            · right
              refine ⟨b, by simp [findInstance, ea, hbh], by simp [findInstance, ei, ea], a.height, i0.height, by simp, by omega⟩
            · have eb : (b.height == h) = false := by simpa using hbh
              left; simp [findInstance, ei, ea, eb]
        · rintro h ⟨x, y, hxy, hlt⟩
          simp at hxy
          exact ⟨a.height, i0.height, by simp, by omega⟩
        · intro x hx; simp at hx; rcases hx with rfl | rfl
          · exact Or.inl (by simp)
          · exact Or.inr rfl
      · have e : addNewInstance 2 [a, b] i0 = [a, b] := by simp [addNewInstance, insertByHeight, h1, h2]
        rw [e]
        have eai : (a.height == i0.height) = false := by simpa using fun x : a.height = i0.height => hna x.symm
        have ebi : (b.height == i0.height) = false := by simpa using fun x : b.height = i0.height => hnb x.symm
        refine ⟨by simpa using hab, by simp, Or.inr ⟨by simp [findInstance, eai, ebi], a.height, b.height, by simp, by omega⟩,
          fun h _ => Or.inl rfl, fun h hb => hb, fun x hx => Or.inl hx⟩
  · simp at hl

theorem not_mem_of_findInstance_none {l : List State} {h : Nat} (hf : findInstance l h = none) : h ∉ l.map (·.height) := by
  intro hm
  obtain ⟨s, hs, hh⟩ := List.mem_map.1 hm
  unfold findInstance at hf
  rw [List.find?_eq_none] at hf
  exact hf s hs (by simpa using hh)

/-- the container after adding a new instance `i0` of a height `h0` that was not stored -/
structure Ins (c c' : Ctrl) (h0 : Nat) (i0 : State) : Prop where
  cinv : CInv c'
  main : instAt h0 c' = some i0 ∨ (instAt h0 c' = none ∧ Blocked h0 c')
  other : ∀ h, h ≠ h0 → OStep h c c'
  blocked : ∀ h, Blocked h c → Blocked h c'
  sub : ∀ x ∈ hts c', x ∈ hts c ∨ x = h0

theorem ins_of_add (c c' : Ctrl) (i0 : State) (hc : CInv c) (hn : instAt i0.height c = none)
    (hins : c'.insts = addNewInstance 2 c.insts i0) (hge : c.height ≤ c'.height) (hle : i0.height ≤ c'.height) :
    Ins c c' i0.height i0 := by
  obtain ⟨h1, h2, h3, h4, h5, h6⟩ := ins_cases c.insts i0 hc.sorted (by simpa [hts] using hc.len)
    (not_mem_of_findInstance_none hn)
  rw [← hins] at h1 h2 h3 h4 h5 h6
  refine ⟨⟨h1, by simpa [hts] using h2, ?_⟩, h3, ?_, h5, h6⟩
  · intro x hx
    rcases h6 x hx with h | h
    · exact Nat.le_trans (hc.bound x h) hge
    · rw [h]; exact hle
  · intro h hne
    rcases h4 h hne with h | ⟨s, a, b, d⟩
    · exact .same h
    · exact .evict s a b d

/-! ### `UponDecided` on an arbitrary container -/

theorem uponDecided_height (cfg : Cfg) (c : Ctrl) (m : Msg) (hv : validateDecided cfg m = .ok ()) :
    c.height ≤ (uponDecided cfg c m).ct.height ∧ m.height ≤ (uponDecided cfg c m).ct.height ∨
    (uponDecided cfg c m).ct.height = c.height ∧ m.height ≤ c.height := by
  unfold uponDecided
  simp only [hv, wrap]
  split
  · rename_i h
    left
    have : c.height < m.height := by simpa using h
    exact ⟨Nat.le_of_lt this, Nat.le_refl _⟩
  · rename_i h
    right
    have : ¬ c.height < m.height := by simpa using h
    exact ⟨rfl, by omega⟩

theorem uponDecided_found_undecided (cfg : Cfg) (c : Ctrl) (m : Msg) (s : State)
    (hf : findInstance c.insts m.height = some s) (hd : s.decided = false) (hv : validateDecided cfg m = .ok ()) :
    (uponDecided cfg c m).ct.insts = updateInstance c.insts
      { s with decided := true, round := m.round, decidedValue := m.fullData, commit := s.commit ++ [m] } ∧
    (uponDecided cfg c m).res = .ok (some m) := by
  constructor
  · rw [uponDecided_insts cfg c m hv]
    unfold decidedUpdate
    simp only [hf, hd, Bool.not_false, if_true, addMsg]
  · unfold uponDecided
    simp only [hv, wrap, hf, hd]
    simp

theorem uponDecided_found_decided (cfg : Cfg) (c : Ctrl) (m : Msg) (s : State)
    (hf : findInstance c.insts m.height = some s) (hd : s.decided = true) (hv : validateDecided cfg m = .ok ()) :
    ((uponDecided cfg c m).ct.insts = c.insts ∨
     (uponDecided cfg c m).ct.insts = updateInstance c.insts { s with commit := s.commit ++ [m] }) ∧
    (uponDecided cfg c m).res = .ok none := by
  constructor
  · rw [uponDecided_insts cfg c m hv]
    unfold decidedUpdate
    simp only [hf, hd, Bool.not_true, Bool.false_eq_true, if_false, addMsg]
    split
    · right; rfl
    · left; rfl
  · unfold uponDecided
    simp only [hv, wrap, hf, hd, if_true]

theorem uponDecided_notfound (cfg : Cfg) (c : Ctrl) (m : Msg) (hf : findInstance c.insts m.height = none)
    (hv : validateDecided cfg m = .ok ()) :
    (uponDecided cfg c m).ct.insts = addNewInstance cfg.capacity c.insts
      { newInstance m.height with round := m.round, decided := true, decidedValue := m.fullData, commit := [m] } ∧
    (uponDecided cfg c m).res = .ok (some m) := by
  constructor
  · rw [uponDecided_insts cfg c m hv]
    unfold decidedUpdate
    simp only [hf, addMsg, List.nil_append]
  · unfold uponDecided
    simp only [hv, wrap, hf]
    simp

theorem uponDecided_multi {N : Type} (cfg : Cfg) (hcap : cfg.capacity = 2) (A : Msg → Prop) (i : N) (c : Ctrl) (m : Msg)
    (hc : CInv c) (hA : A m) (hv : validateDecided cfg m = .ok ()) (hdm : isDecidedMsg cfg m = true) :
    CInv (uponDecided cfg c m).ct ∧ (∀ h, Blocked h c → Blocked h (uponDecided cfg c m).ct) ∧
    HStep cfg m.height A i c (uponDecided cfg c m).ct (bcasts (uponDecided cfg c m).outs)
      (deliverEvents cfg m.height i c (uponDecided cfg c m) m) ∧
    ∀ h, h ≠ m.height → OStep h c (uponDecided cfg c m).ct := by
  obtain ⟨hb, he⟩ := uponDecided_quiet i cfg c m hv
  have hge : c.height ≤ (uponDecided cfg c m).ct.height ∧ m.height ≤ (uponDecided cfg c m).ct.height := by
    rcases uponDecided_height cfg c m hv with h | ⟨h1, h2⟩
    · exact h
    · rw [h1]; exact ⟨Nat.le_refl _, h2⟩
  have hevs : deliverEvents cfg m.height i c (uponDecided cfg c m) m =
      (if proposeLen m.height c < proposeLen m.height (uponDecided cfg c m).ct then [Ev.P i m.round m.root] else []) ++
      (match (uponDecided cfg c m).res with
       | .ok (some d) => [Ev.G i d.round, Ev.D i d.round d.fullData]
       | _ => []) := by
    unfold deliverEvents
    rw [he, hdm]
    simp only [if_true, List.append_nil]
    generalize (uponDecided cfg c m).res = r
    cases r with
    | ok d => cases d <;> rfl
    | err t => rfl
    | panic => rfl
  rw [hevs, hb]
  cases hf : findInstance c.insts m.height with
  | some s =>
    have hi0 : instAt m.height c = some s := hf
    have hsh := (findInstance_mem_hts hf).1
    cases hd : s.decided with
    | false =>
      obtain ⟨h1, h2⟩ := uponDecided_found_undecided cfg c m s hf hd hv
      obtain ⟨u, hi1⟩ := upd_of_update c _ m.height s
        { s with decided := true, round := m.round, decidedValue := m.fullData, commit := s.commit ++ [m] } hf hsh h1 hge.1
      refine ⟨u.cinv hc, u.blocked, .n ?_, fun h hne => .same (u.other h hne)⟩
      rw [proposeLen_of hi0, proposeLen_of hi1, hi0, hi1, h2]
      exact .adopt s m hA rfl hd hv rfl rfl rfl (by simp [plen])
    | true =>
      obtain ⟨h1, h2⟩ := uponDecided_found_decided cfg c m s hf hd hv
      rcases h1 with h1 | h1
      · have u := upd_of_same c _ m.height h1 hge.1
        have hi1 : instAt m.height (uponDecided cfg c m).ct = some s := by
          show findInstance (uponDecided cfg c m).ct.insts m.height = some s
          rw [h1]; exact hf
        refine ⟨u.cinv hc, u.blocked, .n ?_, fun h hne => .same (u.other h hne)⟩
        rw [proposeLen_of hi0, proposeLen_of hi1, hi0, hi1, h2]
        exact .idle rfl rfl (by simp [plen])
      · obtain ⟨u, hi1⟩ := upd_of_update c _ m.height s { s with commit := s.commit ++ [m] } hf hsh h1 hge.1
        refine ⟨u.cinv hc, u.blocked, .n ?_, fun h hne => .same (u.other h hne)⟩
        rw [proposeLen_of hi0, proposeLen_of hi1, hi0, hi1, h2]
        exact .more s m hA rfl hd hv rfl rfl rfl (by simp [plen])
  | none =>
    have hi0 : instAt m.height c = none := hf
    obtain ⟨h1, h2⟩ := uponDecided_notfound cfg c m hf hv
    rw [hcap] at h1
    have I := ins_of_add c (uponDecided cfg c m).ct
      { newInstance m.height with round := m.round, decided := true, decidedValue := m.fullData, commit := [m] }
      hc hf h1 hge.1 hge.2
    refine ⟨I.cinv, I.blocked, ?_, I.other⟩
    rcases I.main with hi1 | ⟨hi1, hbl⟩
    · refine .n ?_
      have hi1' : instAt m.height (uponDecided cfg c m).ct = some
          { newInstance m.height with round := m.round, decided := true, decidedValue := m.fullData, commit := [m] } := hi1
      rw [proposeLen_of hi0, proposeLen_of hi1', hi0, hi1', h2]
      exact .createDecided m hA rfl hv rfl rfl rfl (by simp [plen, newInstance])
    · have hi1' : instAt m.height (uponDecided cfg c m).ct = none := hi1
      refine .dropped m hA hi0 hi1' hbl hv rfl rfl ?_
      rw [proposeLen_of hi0, proposeLen_of hi1', h2]
      simp [plen]

end Ssv.Qbft.M
