/-
Crash / failure analysis of block processing (property C12): a run is (registry evolution) × (wallet folded over the
handler steps) × (decided history folded over the handler steps); a fault leaves a wallet that differs from the
one at the start of the block only on keys the block touches, and re-executing the block absorbs the difference.
Core Lean only.
-/
import Ssv.Proofs.RegistryWallet

namespace Ssv.Registry

/-! ## wallet and history of a run are folds over the executed handler steps -/

def walRun (w : Wal) (l : List Step) : Wal := l.foldl walStep w
def histRun (h : Hist) (l : List Step) : Hist := l.foldl stepHist h

theorem runMacro_append (n : Node) (a b : List Step) : runMacro n (a ++ b) = runMacro (runMacro n a) b := by
  induction a generalizing n with
  | nil => rfl
  | cons s a ih => simp only [List.cons_append, runMacro, ih]

theorem runMacro_wal (n : Node) (l : List Step) : (runMacro n l).wal = walRun n.wal l := by
  induction l generalizing n with
  | nil => rfl
  | cons s l ih =>
    simp only [runMacro, ih, walRun, List.foldl_cons, runSteps_wal]
    rfl

theorem walRun_append (w : Wal) (a b : List Step) : walRun w (a ++ b) = walRun (walRun w a) b := by
  simp [walRun, List.foldl_append]

theorem histRun_append (h : Hist) (a b : List Step) : histRun h (a ++ b) = histRun (histRun h a) b := by
  simp [histRun, List.foldl_append]

theorem walRun_sane {w : Wal} (l : List Step) (hl : ∀ s ∈ l, s.handler = true) (h : Sane w) : Sane (walRun w l) := by
  induction l generalizing w with
  | nil => exact h
  | cons s l ih =>
    exact ih (fun s hs => hl s (List.mem_cons_of_mem _ hs)) (walStep_sane h s (hl s List.mem_cons_self))

/-- handler steps executed by the events of a block, in order (a panic ends the block) -/
def eventsMacros (me blk : Nat) : RegMem → List Event → List Step
  | _, [] => []
  | r, e :: es =>
    (regSteps me blk (viewOf r) e).1 ++
      (if (regOutcome me blk r e).isPanic then [] else eventsMacros me blk (regEvent me blk r e) es)

theorem eventsMacros_handler (me blk : Nat) (r : RegMem) (es : List Event) :
    ∀ s ∈ eventsMacros me blk r es, s.handler = true := by
  induction es generalizing r with
  | nil => intro s hs; cases hs
  | cons e es ih =>
    intro s hs
    simp only [eventsMacros, List.mem_append] at hs
    rcases hs with hs | hs
    · exact regSteps_handler me blk _ e s hs
    · split at hs
      · cases hs
      · exact ih _ s hs

theorem runEvents_eq_runMacro (me blk : Nat) (n : Node) (es : List Event) :
    (runEvents me blk n es).1 = runMacro n (eventsMacros me blk n.reg es) := by
  induction es generalizing n with
  | nil => rfl
  | cons e es ih =>
    simp only [runEvents, eventsMacros, applyEvent_outcome]
    by_cases hp : (regOutcome me blk n.reg e).isPanic = true
    · simp [hp, applyEvent]
    · simp only [hp, Bool.false_eq_true, ↓reduceIte]
      rw [ih, runMacro_append, applyEvent_reg]
      rfl

/-- handler steps executed by a block (none for a refused block) -/
def blockMacros (me : Nat) (r : RegMem) (b : Block) : List Step :=
  if decide (r.db.marker.getD 0 ≥ b.number) then [] else eventsMacros me b.number (beginReg r) b.events

theorem blockMacros_handler (me : Nat) (r : RegMem) (b : Block) : ∀ s ∈ blockMacros me r b, s.handler = true := by
  unfold blockMacros
  split
  · intro s hs; cases hs
  · exact eventsMacros_handler me b.number _ b.events

theorem beginTxn_wal_hist (n : Node) : (beginTxn n).wal = n.wal ∧ (beginTxn n).hist = n.hist := ⟨rfl, rfl⟩

theorem commit_hist (n : Node) (m : Nat) : (runSteps n [.putMarker m, .commit]).hist = n.hist := by
  simp [runSteps, applyStep, stepHist]

theorem applyBlock_wal_hist (me : Nat) (n : Node) (b : Block) :
    (applyBlock me n b).1.wal = walRun n.wal (blockMacros me n.reg b) ∧
    (applyBlock me n b).1.hist = histRun n.hist (blockMacros me n.reg b) := by
  simp only [applyBlock, blockMacros, inferior]
  by_cases hi : decide (n.reg.db.marker.getD 0 ≥ b.number) = true
  · simp [hi, walRun, histRun]
  · simp only [hi, Bool.false_eq_true, ↓reduceIte]
    have h := runEvents_eq_runMacro me b.number (beginTxn n) b.events
    have hw : (runEvents me b.number (beginTxn n) b.events).1.wal = walRun n.wal (eventsMacros me b.number (beginReg n.reg) b.events) := by
      rw [h, runMacro_wal]; rfl
    have hh : (runEvents me b.number (beginTxn n) b.events).1.hist = histRun n.hist (eventsMacros me b.number (beginReg n.reg) b.events) := by
      rw [h, runMacro_hist]; rfl
    split
    · exact ⟨hw, hh⟩
    · exact ⟨by rw [commit_wal]; exact hw, by rw [commit_hist]; exact hh⟩

/-- handler steps executed by a run -/
def runMacrosL (me : Nat) : RegMem → List Block → List Step
  | _, [] => []
  | r, b :: bs =>
    blockMacros me r b ++
      (match (regBlock me r b).2 with
       | .ok => runMacrosL me (regBlock me r b).1 bs
       | _ => [])

theorem runMacrosL_handler (me : Nat) (r : RegMem) (bs : List Block) : ∀ s ∈ runMacrosL me r bs, s.handler = true := by
  induction bs generalizing r with
  | nil => intro s hs; cases hs
  | cons b bs ih =>
    intro s hs
    simp only [runMacrosL, List.mem_append] at hs
    rcases hs with hs | hs
    · exact blockMacros_handler me r b s hs
    · split at hs
      · exact ih _ s hs
      · cases hs

/-- a run = registry evolution × wallet folded over the handler steps × decided history folded over them -/
theorem run_wal_hist (me : Nat) (n : Node) (bs : List Block) :
    (run me n bs).1.wal = walRun n.wal (runMacrosL me n.reg bs) ∧
    (run me n bs).1.hist = histRun n.hist (runMacrosL me n.reg bs) := by
  induction bs generalizing n with
  | nil => exact ⟨rfl, rfl⟩
  | cons b bs ih =>
    simp only [run, runMacrosL]
    have hb := applyBlock_reg me n b
    have hwh := applyBlock_wal_hist me n b
    rw [hb.2]
    cases hs : (regBlock me n.reg b).2 with
    | ok =>
      simp only []
      have := ih (applyBlock me n b).1
      rw [hb.1, hwh.1, hwh.2] at this
      rw [walRun_append, histRun_append]
      exact this
    | refused => simp only [List.append_nil]; exact hwh
    | panicked => simp only [List.append_nil]; exact hwh

/-! ## the last key-manager call on a key decides -/

/-- is the key stored after the handler steps `l`, if `b` says whether it was stored before -/
def memAfter : List Step → Prop → Nat → Prop
  | [], b, _ => b
  | .kmAdd k0 :: l, b, k => memAfter l (k = k0 ∨ b) k
  | .kmRemove k0 :: l, b, k => memAfter l (k ≠ k0 ∧ b) k
  | _ :: l, b, k => memAfter l b k

theorem memAfter_congr (l : List Step) (k : Nat) {b b' : Prop} (h : b ↔ b') : memAfter l b k ↔ memAfter l b' k := by
  induction l generalizing b b' with
  | nil => exact h
  | cons s l ih =>
    cases s <;> simp only [memAfter]
    case kmAdd k0 => exact ih (or_congr_right h)
    case kmRemove k0 => exact ih (and_congr_right fun _ => h)
    all_goals exact ih h

theorem memAfter_append (a l : List Step) (b : Prop) (k : Nat) :
    memAfter (a ++ l) b k ↔ memAfter l (memAfter a b k) k := by
  induction a generalizing b with
  | nil => exact Iff.rfl
  | cons s a ih => cases s <;> simp only [List.cons_append, memAfter] <;> exact ih _

/-- a key touched by a key-manager call of `l`: its final status does not depend on the initial one -/
theorem memAfter_touched (l : List Step) (k : Nat) (ht : some k ∈ l.map Step.kmKey) (b b' : Prop) :
    memAfter l b k ↔ memAfter l b' k := by
  induction l generalizing b b' with
  | nil => cases ht
  | cons s l ih =>
    simp only [List.map_cons, List.mem_cons] at ht
    by_cases hl : some k ∈ l.map Step.kmKey
    · cases s <;> simp only [memAfter] <;> exact ih hl _ _
    · rcases ht with ht | ht
      · cases s <;> simp [Step.kmKey] at ht
        case kmAdd k0 =>
          subst ht
          simp only [memAfter]
          exact memAfter_congr l k (by simp)
        case kmRemove k0 =>
          subst ht
          simp only [memAfter]
          exact memAfter_congr l k (by simp)
      · exact absurd ht hl

/-- running the steps again does not change what they decided -/
theorem memAfter_idem (l : List Step) (b : Prop) (k : Nat) : memAfter l (memAfter l b k) k ↔ memAfter l b k := by
  by_cases ht : some k ∈ l.map Step.kmKey
  · exact memAfter_touched l k ht _ _
  · -- untouched: the steps do not change the status of this key
    have key : ∀ (l : List Step) (c : Prop), some k ∉ l.map Step.kmKey → (memAfter l c k ↔ c) := by
      intro l
      induction l with
      | nil => intro c _; exact Iff.rfl
      | cons s l ih =>
        intro c hn
        simp only [List.map_cons, List.mem_cons, not_or] at hn
        cases s <;> simp only [memAfter]
        case kmAdd k0 =>
          have : k ≠ k0 := fun e => hn.1 (by simp [Step.kmKey, e])
          rw [ih _ hn.2]; simp [this]
        case kmRemove k0 =>
          have : k ≠ k0 := fun e => hn.1 (by simp [Step.kmKey, e])
          rw [ih _ hn.2]; simp [this]
        all_goals exact ih _ hn.2
    rw [key l _ ht, key l _ ht]

theorem walRun_mem {w : Wal} (l : List Step) (hl : ∀ s ∈ l, s.handler = true) (h : Sane w) (k : Nat) :
    k ∈ keysOf (walRun w l) ↔ memAfter l (k ∈ keysOf w) k := by
  induction l generalizing w with
  | nil => exact Iff.rfl
  | cons s l ih =>
    have hs := hl s List.mem_cons_self
    have h1 := ih (fun s hs => hl s (List.mem_cons_of_mem _ hs)) (walStep_sane h s hs)
    show k ∈ keysOf (walRun (walStep w s) l) ↔ _
    rw [h1]
    have h2 := walStep_mem h s hs k
    cases s <;> simp only [memAfter] <;> exact memAfter_congr l k h2

/-- Re-executing a block absorbs what an interrupted execution of it left in the wallet: if `w'` agrees with the
    wallet after the first steps `l1` except on keys that the remaining steps `r` touch anyway, then executing all
    the steps from `w'` stores exactly the same keys as executing them from the original wallet. -/
theorem walRun_absorb {w w' : Wal} (l1 r : List Step) (hl : ∀ s ∈ l1 ++ r, s.handler = true) (h : Sane w) (h' : Sane w')
    (hag : ∀ k, (k ∈ keysOf w' ↔ k ∈ keysOf (walRun w l1)) ∨ some k ∈ r.map Step.kmKey) (k : Nat) :
    k ∈ keysOf (walRun w' (l1 ++ r)) ↔ k ∈ keysOf (walRun w (l1 ++ r)) := by
  rw [walRun_mem _ hl h', walRun_mem _ hl h, memAfter_append, memAfter_append]
  rcases hag k with hk | hk
  · have hl1 : ∀ s ∈ l1, s.handler = true := fun s hs => hl s (List.mem_append_left _ hs)
    rw [walRun_mem _ hl1 h] at hk
    exact memAfter_congr r k ((memAfter_congr l1 k hk).trans (memAfter_idem l1 _ k))
  · exact memAfter_touched r k hk _ _

/-- two sane wallets with the same keys keep the same keys under the same handler steps -/
theorem walRun_congr {w w' : Wal} (l : List Step) (hl : ∀ s ∈ l, s.handler = true) (h : Sane w) (h' : Sane w')
    (hk : ∀ k, k ∈ keysOf w' ↔ k ∈ keysOf w) (k : Nat) : k ∈ keysOf (walRun w' l) ↔ k ∈ keysOf (walRun w l) := by
  rw [walRun_mem _ hl h', walRun_mem _ hl h]
  exact memAfter_congr l k (hk k)

/-! ## decided history: cleaning is idempotent -/

def cleanedInst : List Step → List Nat
  | [] => []
  | .cleanInst pk :: l => pk :: cleanedInst l
  | _ :: l => cleanedInst l

def cleanedHigh : List Step → List Nat
  | [] => []
  | .cleanHigh pk :: l => pk :: cleanedHigh l
  | _ :: l => cleanedHigh l

theorem histRun_eq (h : Hist) (l : List Step) :
    histRun h l = { inst := h.inst.filter (fun x => !(cleanedInst l).contains x),
                    high := h.high.filter (fun x => !(cleanedHigh l).contains x) } := by
  induction l generalizing h with
  | nil =>
    cases h
    have ht : ∀ l : List Nat, l.filter (fun _ => true) = l := fun l => List.filter_eq_self.2 (by simp)
    simp [histRun, cleanedInst, cleanedHigh, ht]
  | cons s l ih =>
    show histRun (stepHist h s) l = _
    rw [ih]
    cases s <;> simp only [stepHist, cleanedInst, cleanedHigh]
    case cleanInst pk =>
      simp only [List.filter_filter, Hist.mk.injEq, and_true]
      apply List.filter_congr
      intro x _
      by_cases hx : x = pk
      · simp [hx]
      · have : (x == pk) = false := by simpa using hx
        simp [List.contains_cons, this, hx]
    case cleanHigh pk =>
      simp only [List.filter_filter, Hist.mk.injEq, true_and]
      apply List.filter_congr
      intro x _
      by_cases hx : x = pk
      · simp [hx]
      · have : (x == pk) = false := by simpa using hx
        simp [List.contains_cons, this, hx]

theorem cleanedInst_append (a b : List Step) : cleanedInst (a ++ b) = cleanedInst a ++ cleanedInst b := by
  induction a with
  | nil => rfl
  | cons s a ih => cases s <;> simp [cleanedInst, ih]

theorem cleanedHigh_append (a b : List Step) : cleanedHigh (a ++ b) = cleanedHigh a ++ cleanedHigh b := by
  induction a with
  | nil => rfl
  | cons s a ih => cases s <;> simp [cleanedHigh, ih]

/-- re-executing the steps of a block absorbs the cleaning an interrupted execution already did -/
theorem histRun_absorb (h : Hist) (l1 r : List Step) : histRun (histRun h l1) (l1 ++ r) = histRun h (l1 ++ r) := by
  rw [histRun_eq (histRun h l1), histRun_eq h l1, histRun_eq h (l1 ++ r)]
  simp only [List.filter_filter, cleanedInst_append, cleanedHigh_append, Hist.mk.injEq]
  constructor <;>
  · apply List.filter_congr
    intro x _
    simp only [List.contains_append, Bool.not_or]
    cases (List.contains _ x) <;> simp

end Ssv.Registry
