/- C16 helper lemmas: the duty store as a key-unique list, and slot/epoch arithmetic. -/
import Ssv.Proofs.DutiesSpec

namespace Ssv.Duties

/-! ### arithmetic on slots and epochs -/

theorem div_mono (spe : Nat) {a b : Nat} (h : a ≤ b) : a / spe ≤ b / spe := Nat.div_le_div_right h

theorem mod_le_of_same_div {spe r t : Nat} (h : r / spe = t / spe) (hle : r ≤ t) : r % spe ≤ t % spe := by
  have h1 := Nat.div_add_mod r spe
  have h2 := Nat.div_add_mod t spe
  rw [h] at h1
  omega

theorem div_lt_of_last {spe t0 t : Nat} (hs : 0 < spe) (h : t0 % spe = spe - 1) (hlt : t0 < t) :
    t0 / spe < t / spe := by
  have h1 := Nat.div_add_mod t0 spe
  rw [Nat.lt_div_iff_mul_lt hs, Nat.mul_comm]
  omega

theorem epoch_mono (n : Net) {a b : Nat} (h : a ≤ b) : n.epoch a ≤ n.epoch b := div_mono _ h
theorem period_mono (n : Net) {a b : Nat} (h : a ≤ b) : n.period a ≤ n.period b := div_mono _ h
theorem periodOfSlot_mono (n : Net) {a b : Nat} (h : a ≤ b) : n.periodOfSlot a ≤ n.periodOfSlot b :=
  period_mono n (epoch_mono n h)
theorem keyOf_mono (k : Kind) (n : Net) {a b : Nat} (h : a ≤ b) : keyOf k n a ≤ keyOf k n b := by
  cases k <;> simp only [keyOf]
  · exact epoch_mono n h
  · exact epoch_mono n h
  · exact periodOfSlot_mono n h

/-- inside one epoch `shouldFetchNexEpoch` stays true once it is true -/
theorem attShould_mono (n : Net) {r t : Nat} (he : n.epoch r = n.epoch t) (hle : r ≤ t)
    (h : attShouldFetchNext n r = true) : attShouldFetchNext n t = true := by
  have := mod_le_of_same_div he hle
  simp only [attShouldFetchNext, decide_eq_true_eq] at h ⊢
  omega

/-! ### store -/

theorem sameKey_iff {a b : Entry} : a.sameKey b = true ↔ a.ep = b.ep ∧ a.slot = b.slot ∧ a.vidx = b.vidx := by
  simp [Entry.sameKey, and_assoc]

theorem sameKey_false_iff {a b : Entry} : a.sameKey b = false ↔ ¬ (a.ep = b.ep ∧ a.slot = b.slot ∧ a.vidx = b.vidx) := by
  rw [← sameKey_iff]; simp

theorem sameKey_comm (a b : Entry) : a.sameKey b = b.sameKey a := by
  rw [Bool.eq_iff_iff, sameKey_iff, sameKey_iff]
  constructor <;> (intro h; exact ⟨h.1.symm, h.2.1.symm, h.2.2.symm⟩)

theorem mem_add {s : Store} {e x : Entry} : x ∈ s.add e ↔ (x ∈ s ∧ x.sameKey e = false) ∨ x = e := by
  simp [Store.add, List.mem_filter]

theorem mem_reset {s : Store} {ep : Nat} {x : Entry} : x ∈ s.reset ep ↔ x ∈ s ∧ x.ep ≠ ep := by
  simp [Store.reset, List.mem_filter]

theorem mem_slotDuties {s : Store} {ep slot : Nat} {x : Entry} :
    x ∈ s.slotDuties ep slot ↔ x ∈ s ∧ x.ep = ep ∧ x.slot = slot ∧ x.inC = true := by
  simp [Store.slotDuties, List.mem_filter, and_assoc]

theorem mem_periodDuties {s : Store} {p : Nat} {x : Entry} :
    x ∈ s.periodDuties p ↔ x ∈ s ∧ x.ep = p ∧ x.inC = true := by
  simp [Store.periodDuties, List.mem_filter]

/-- no two descriptors share a key (what a Go map guarantees) -/
def KeyNodup (s : Store) : Prop := s.Pairwise (fun a b => a.sameKey b = false)

theorem keyNodup_nil : KeyNodup [] := List.Pairwise.nil

theorem keyNodup_reset {s : Store} (ep : Nat) (h : KeyNodup s) : KeyNodup (s.reset ep) :=
  List.Pairwise.filter _ h

theorem keyNodup_add {s : Store} (e : Entry) (h : KeyNodup s) : KeyNodup (s.add e) := by
  unfold Store.add KeyNodup
  rw [List.pairwise_append]
  refine ⟨List.Pairwise.filter _ h, List.pairwise_singleton _ _, ?_⟩
  intro a ha b hb
  simp only [List.mem_singleton] at hb
  subst hb
  simpa [List.mem_filter] using (List.mem_filter.mp ha).2

theorem addAll_nil (s : Store) (mk : Duty → Entry) : s.addAll mk [] = s := rfl
theorem addAll_cons (s : Store) (mk : Duty → Entry) (d : Duty) (ds : List Duty) :
    s.addAll mk (d :: ds) = (s.add (mk d)).addAll mk ds := rfl

theorem keyNodup_addAll (mk : Duty → Entry) (ds : List Duty) : ∀ {s : Store}, KeyNodup s → KeyNodup (s.addAll mk ds) := by
  induction ds with
  | nil => intro s h; exact h
  | cons d ds ih => intro s h; rw [addAll_cons]; exact ih (keyNodup_add _ h)

/-- a descriptor survives `addAll` if none of the added descriptors has its key -/
theorem mem_addAll_of_mem (mk : Duty → Entry) (ds : List Duty) : ∀ {s : Store} {x : Entry}, x ∈ s →
    (∀ d ∈ ds, x.sameKey (mk d) = false) → x ∈ s.addAll mk ds := by
  induction ds with
  | nil => intro s x h _; exact h
  | cons d ds ih =>
    intro s x h hk
    rw [addAll_cons]
    apply ih
    · exact mem_add.mpr (Or.inl ⟨h, hk d (List.mem_cons_self ..)⟩)
    · intro d' hd'; exact hk d' (List.mem_cons_of_mem _ hd')

/-- every descriptor after `addAll` was there before or was added -/
theorem mem_addAll_inv (mk : Duty → Entry) (ds : List Duty) : ∀ {s : Store} {x : Entry}, x ∈ s.addAll mk ds →
    x ∈ s ∨ ∃ d ∈ ds, x = mk d := by
  induction ds with
  | nil => intro s x h; exact Or.inl h
  | cons d ds ih =>
    intro s x h
    rw [addAll_cons] at h
    rcases ih h with h1 | ⟨d', hd', rfl⟩
    · rcases mem_add.mp h1 with ⟨h2, _⟩ | rfl
      · exact Or.inl h2
      · exact Or.inr ⟨d, List.mem_cons_self .., rfl⟩
    · exact Or.inr ⟨d', List.mem_cons_of_mem _ hd', rfl⟩

/-- with pairwise distinct keys every added descriptor is present afterwards -/
theorem mem_addAll_self (mk : Duty → Entry) (key : Duty → Nat × Nat)
    (hinj : ∀ d d', (mk d).sameKey (mk d') = true → key d = key d') (ds : List Duty) :
    ∀ {s : Store}, (ds.map key).Nodup → ∀ d ∈ ds, mk d ∈ s.addAll mk ds := by
  induction ds with
  | nil => intro s _ d hd; cases hd
  | cons d0 ds ih =>
    intro s hnd d hd
    rw [addAll_cons]
    rw [List.map_cons, List.nodup_cons] at hnd
    rcases List.mem_cons.mp hd with rfl | hd'
    · apply mem_addAll_of_mem
      · exact mem_add.mpr (Or.inr rfl)
      · intro d' hd'
        cases hsk : (mk d).sameKey (mk d') with
        | false => rfl
        | true =>
          exfalso
          apply hnd.1
          rw [hinj d d' hsk]
          exact List.mem_map_of_mem hd'
    · exact ih hnd.2 d hd'

end Ssv.Duties
