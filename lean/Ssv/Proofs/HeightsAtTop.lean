/-
Helper lemmas for engine `heights` (C15), part 5: every height seen since the last restart that equals the controller
height has its instance in the container (so `StartNewInstance` refuses it) — on full and light nodes alike, now that
an instance reloaded from storage is kept in `StoredInstances`.
-/
import Ssv.Proofs.HeightsSeen

namespace Ssv.Heights

/-- seen heights at the controller height are in the container -/
def SeenTop (s : State) (seen : List Nat) : Prop := ∀ h ∈ seen, h = s.c.height → AtTop s.c

/-- after a valid decided message at or above the controller height the instance of the (new) height is in the
    container; below it, the instance at the controller height stays -/
theorem uponDecided_atTop {c : Ctrl} {st : Store} (top : TopOk c.height c.insts) (hok : HistOk st.hist) (h : Nat) (m : Msg)
    (hyp : c.height ≤ h ∨ AtTop c) : AtTop (uponDecided c st h m).1 := by
  have he := uponDecided_eq c st h m
  simp only at he
  rw [he]
  exact branch_atTop top hok h m hyp

/-- an invalid / sub-quorum message teaches nothing -/
theorem learns_of_err {s : State} {h r root : Nat} {sg : List Nat} {ok : Bool}
    (he : processMsg s.q s.c s.s h ⟨r, root, sg⟩ ok = (s.c, s.s, .err)) : (ok && decide (s.q ≤ sg.length)) = false := by
  unfold processMsg at he
  cases ok
  · rfl
  · by_cases hq : sg.length < s.q
    · simp; omega
    · simp [hq] at he
      have := congrArg (fun p => p.2.2) he
      simp only [uponDecided_out] at this
      split at this <;> cases this

/-- the controller after `ProcessMsg` of a (valid or invalid) decided message keeps `SeenTop` for seen ++ learned -/
theorem processMsg_seenTop {s : State} {seen : List Nat} (inv : CInv s.c s.s) (hle : SeenLe s seen) (htop : SeenTop s seen)
    (h r root : Nat) (sg : List Nat) (ok : Bool) (x : Nat)
    (hx : x ∈ seen ∨ x ∈ (if ok && decide (s.q ≤ sg.length) then [h] else []))
    (hxe : x = (processMsg s.q s.c s.s h ⟨r, root, sg⟩ ok).1.height) :
    AtTop (processMsg s.q s.c s.s h ⟨r, root, sg⟩ ok).1 := by
  rcases processMsg_cases s.q s.c s.s h ⟨r, root, sg⟩ ok with he | ⟨hok, hq, he⟩ | ⟨_, hlt, he⟩
  rotate_left 2
  · -- below quorum: nothing learned, height unchanged, the same heights are in the container
    rw [he] at hxe ⊢
    simp only at hxe ⊢
    have hnl : ¬ s.q ≤ sg.length := by have : sg.length < s.q := hlt; omega
    rcases hx with hx | hx
    · rw [(existingMsg_height _ _ _ _ _).1] at hxe
      have := htop x hx hxe
      unfold AtTop at this ⊢
      rw [(existingMsg_height _ _ _ _ _).1, existingMsg_find_isSome]
      exact this
    · simp [hnl] at hx
  · rw [he] at hxe ⊢
    rcases hx with hx | hx
    · exact htop x hx hxe
    · simp [learns_of_err he] at hx
  · rw [he] at hxe ⊢
    apply uponDecided_atTop inv.top inv.hist
    rcases hx with hx | hx
    · have h1 := hle x hx
      by_cases hch : s.c.height ≤ h
      · exact Or.inl hch
      · right
        have : (uponDecided s.c s.s h ⟨r, root, sg⟩).1.height = s.c.height := by
          have he2 := uponDecided_eq s.c s.s h ⟨r, root, sg⟩
          simp only at he2
          rw [he2]
          simp only
          split <;> omega
        exact htop x hx (by omega)
    · simp only [hok, hq, decide_true, Bool.and_self, if_true, List.mem_singleton] at hx
      subst hx
      left
      have := (uponDecided_height_ge s.c s.s x ⟨r, root, sg⟩).2
      omega

theorem SeenTop.step {s : State} {seen : List Nat} (inv : SInv s) (hle : SeenLe s seen) (htop : SeenTop s seen) (op : Op) :
    SeenTop (Heights.step s op).1 (seenStep s seen op) := by
  unfold SInv at inv
  -- ops that do not touch the controller or only start an instance
  have startish : ∀ op', ((∃ slot, op' = .start slot) ∨ (∃ slot, op' = .begin slot) ∨ op' = .decide) →
      (seenStep s seen op' = seen ++ learns s op') → SeenTop (Heights.step s op').1 (seenStep s seen op') := by
    intro op' hop' hss
    rcases startish_cases s op' hop' with ⟨hn, hc⟩ | ⟨sl, c', hcs, hst, hc⟩
    · intro x hx hxe
      rw [hc] at hxe ⊢
      rw [hss] at hx
      have hl : learns s op' = [] := by
        rcases hop' with ⟨slot, rfl⟩ | ⟨slot, rfl⟩ | rfl <;> simp [learns, hn]
      rw [hl, List.append_nil] at hx
      exact htop x hx hxe
    · intro x _ _
      rw [hc]
      exact start_atTop inv.top hst
  cases op with
  | restart f =>
    intro x hx _
    rw [step_restart_c]
    unfold seenStep at hx
    simp only at hx
    cases ha : s.s.highest with
    | none => rw [ha] at hx; simp at hx
    | some a => exact load_atTop ha f
  | compact h =>
    intro x hx hxe
    unfold seenStep learns consensusStart at hx
    simp only [Option.toList, List.append_nil] at hx
    show AtTop (compactAt s.c h)
    have hxe' : x = (compactAt s.c h).height := hxe
    rw [compactAt_height] at hxe'
    exact compact_atTop h (htop x hx hxe')
  | decided h r root sg ok via =>
    intro x hx hxe
    have hx' : x ∈ seen ∨ x ∈ (if ok && decide (s.q ≤ sg.length) then [h] else []) := by
      unfold seenStep learns at hx
      simpa [List.mem_append] using hx
    rcases step_decided_c s h r root sg ok via with hc | hc
    · rw [hc] at hxe ⊢; exact processMsg_seenTop inv hle htop h r root sg ok x hx' hxe
    · rw [hc] at hxe ⊢
      rw [compactAt_height] at hxe
      exact compact_atTop h (processMsg_seenTop inv hle htop h r root sg ok x hx' hxe)
  | decidedSF h r root sg ok via =>
    intro x hx hxe
    have hx' : x ∈ seen ∨ x ∈ (if ok && decide (s.q ≤ sg.length) then [h] else []) := by
      unfold seenStep learns at hx
      simpa [List.mem_append] using hx
    rcases step_decidedSF_c s h r root sg ok via with hc | hc
    · rw [hc] at hxe ⊢; exact processMsg_seenTop inv hle htop h r root sg ok x hx' hxe
    · rw [hc] at hxe ⊢
      rw [compactAt_height] at hxe
      exact compact_atTop h (processMsg_seenTop inv hle htop h r root sg ok x hx' hxe)
  | commits root vc =>
    intro x hx hxe
    unfold seenStep learns consensusStart at hx
    simp only [Option.toList, List.append_nil] at hx
    show AtTop (commitsStep s root vc).1.c
    have hxe' : x = (commitsStep s root vc).1.c.height := hxe
    rcases commitsStep_cases s root vc with ⟨h0, _⟩ | ⟨rh, i, _, _, _, _, _, hc, _⟩
    · rw [h0] at hxe' ⊢; exact htop x hx hxe'
    · rw [hc] at hxe' ⊢
      have hat := htop x hx hxe'
      unfold AtTop at hat ⊢
      show (find (replaceInst _ s.c.insts) s.c.height).isSome = true
      rw [find_replaceInst_isSome]
      exact hat
  | start slot => exact startish _ (Or.inl ⟨slot, rfl⟩) rfl
  | begin slot => exact startish _ (Or.inr (Or.inl ⟨slot, rfl⟩)) rfl
  | decide => exact startish _ (Or.inr (Or.inr rfl)) rfl

theorem SeenTop.runSeen {s : State} {seen : List Nat} (inv : SInv s) (hle : SeenLe s seen) (hs : SeenTop s seen)
    (ops : List Op) : SeenTop (Heights.runSeen s seen ops).1 (Heights.runSeen s seen ops).2 := by
  induction ops generalizing s seen with
  | nil => exact hs
  | cons op ops ih => exact ih (inv.step op) (hle.step op) (hs.step inv hle op)

end Ssv.Heights
