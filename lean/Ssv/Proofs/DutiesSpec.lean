/-
C16 — what the property says, as checks over the output atoms of a run of the handler model (core Lean only,
everything here is executable so that refutation witnesses are closed by `decide`).

The four clauses of the property:
* `AtMostOnce`       no (slot, validator) pair is handed to `executeDuties` twice in a run;
* `WindowOK`         a dispatched duty carries the slot of the tick that dispatched it, and that slot is inside
                     the handler's `shouldExecute` window of the clock;
* `onlyLatestOK`     a dispatched duty is in the assignment returned by the most recent successful fetch for the
                     tick's epoch (period);
* `exactlyOnceOK`    at a tick whose clock equals its slot: if the most recent fetch for the tick's epoch (period)
                     succeeded (with pairwise distinct (slot, validator) keys) and no fetch of any epoch failed or
                     was skipped for lack of active indices since, then every duty of that assignment for this
                     slot (sync committee: every duty) is dispatched at this tick.  Together with `AtMostOnce`:
                     exactly once.
Environment predicates over the event list: `ticksIncreasing` (slot ticker), `envOK` (tick slots strictly increase and
no tick is handled after an event that carries a later slot; notices may be handled arbitrarily late).
-/
import Ssv.Model.Duties

namespace Ssv.Duties

def keyOf (k : Kind) (n : Net) (slot : Nat) : Nat :=
  match k with
  | .sync => n.periodOfSlot slot
  | _ => n.epoch slot

/-- the handler's `shouldExecute` window -/
def inWindow (k : Kind) (n : Net) (clock slot : Nat) : Bool :=
  match k with
  | .att => attShouldExecute n clock slot
  | _ => propShouldExecute clock slot

/-- (slot, validator) of every duty handed to `executeDuties`, in order -/
def execPairs : List Atom → List (Nat × Nat)
  | [] => []
  | .execs _ _ ds :: r => ds.map (fun d => (d.slot, d.vidx)) ++ execPairs r
  | .fetch _ _ _ :: r => execPairs r

def AtMostOnce (as : List Atom) : Prop := (execPairs as).Nodup

def WindowOK (k : Kind) (n : Net) (as : List Atom) : Prop :=
  ∀ slot clock ds, Atom.execs slot clock ds ∈ as → ∀ d ∈ ds, d.slot = slot ∧ inWindow k n clock slot = true

/-- the part of a beacon answer that concerns this operator: attester duties are requested for the committee
    indices only; proposer / sync-committee duties are requested for all active indices and marked in-committee -/
def assigned (k : Kind) (c : List Nat) (ds : List Duty) : List Duty :=
  match k with
  | .att => ds
  | _ => ds.filter (fun d => c.contains d.vidx)

def isSync : Kind → Bool
  | .sync => true
  | _ => false

/-- dispatched duty `x` is assigned duty `d` (sync-committee duties carry no slot of their own) -/
def sameDuty (k : Kind) (x d : Duty) : Bool :=
  x.vidx == d.vidx && x.tag == d.tag && (isSync k || x.slot == d.slot)

/-- store key of a duty inside one epoch (period) -/
def dkey (k : Kind) (d : Duty) : Nat × Nat := (if isSync k then 0 else d.slot, d.vidx)

def wfAssign (k : Kind) (ds : List Duty) : Bool := decide ((ds.map (dkey k)).Nodup)

/-! ### only-latest monitor -/

structure LMon where
  latest : Nat → Option (List Duty)
  ok : Bool

def LMon.step (k : Kind) (n : Net) (m : LMon) : Atom → LMon
  | .fetch ep _ (.ok c ds) => { m with latest := fun e => if e = ep then some (assigned k c ds) else m.latest e }
  | .fetch _ _ _ => m
  | .execs slot _ xs =>
    { m with ok := m.ok && xs.all (fun x =>
        match m.latest (keyOf k n slot) with
        | none => false
        | some A => A.any (fun d => sameDuty k x d)) }

def LMon.init : LMon := ⟨fun _ => none, true⟩

def onlyLatestOK (k : Kind) (n : Net) (as : List Atom) : Bool := (as.foldl (LMon.step k n) LMon.init).ok

/-! ### exactly-once-if-fetched monitor -/

structure DMon where
  due : Nat → Option (List Duty)
  ok : Bool

def DMon.step (k : Kind) (n : Net) (m : DMon) : Atom → DMon
  | .fetch ep _ (.ok c ds) =>
    { m with due := fun e => if e = ep then (if wfAssign k ds then some (assigned k c ds) else none) else m.due e }
  | .fetch _ _ _ => { m with due := fun _ => none }
  | .execs slot clock xs =>
    if clock = slot then
      { m with ok := m.ok &&
          match m.due (keyOf k n slot) with
          | none => true
          | some A => A.all (fun d => (!isSync k && d.slot != slot) || xs.any (fun x => sameDuty k x d && x.slot == slot)) }
    else m

def DMon.init : DMon := ⟨fun _ => none, true⟩

def exactlyOnceOK (k : Kind) (n : Net) (as : List Atom) : Bool := (as.foldl (DMon.step k n) DMon.init).ok

/-! ### environment -/

def evSlot : Event → Nat
  | .tick s _ _ _ => s
  | .reorg s _ _ => s
  | .indices c => c

/-- the slot ticker: tick slots strictly increase (`lt` = last tick so far) -/
def ticksIncreasing : Option Nat → List Event → Bool
  | _, [] => true
  | lt, .tick s _ _ _ :: es => (match lt with | none => true | some t => decide (t < s)) && ticksIncreasing (some s) es
  | lt, _ :: es => ticksIncreasing lt es

/-- the order in which the handler's select loop takes events: tick slots strictly increase, and no tick is handled
    after an event that carries a later slot (`now` = largest slot carried by an event so far).  Notices may be
    handled arbitrarily LATE (a notice for slot 63 after the tick of slot 64, or of slot 70). -/
def envOK : Option Nat → Nat → List Event → Bool
  | _, _, [] => true
  | lt, now, .tick s _ _ _ :: es =>
    (match lt with | none => true | some t => decide (t < s)) && decide (now ≤ s) && envOK (some s) s es
  | lt, now, .reorg s _ _ :: es => envOK lt (max now s) es
  | lt, now, .indices c :: es => envOK lt (max now c) es

end Ssv.Duties
