/-
C01 all heights, part 5 — the invariant of the multi-height system: every controller's container is sorted and holds at most
the two highest heights ever added; for EVERY height the projected ghost trace satisfies Layer A's rules.
-/
import Ssv.Proofs.QbftMultiRules
set_option linter.unusedSimpArgs false
set_option linter.unusedVariables false

namespace Ssv.Qbft.M
open Ssv.Qbft Ssv.Qbft.B

structure Params.Valid (P : Params) : Prop where
  byz : P.byz.length ≤ P.f
  size : P.f < 2 ^ 61

theorem Params.Valid.at {P : Params} (hP : P.Valid) (h : Nat) : (P.at h).Valid := ⟨hP.byz, hP.size⟩

theorem cfg_at (P : Params) (h : Nat) (i : Op P) : (P.at h).cfg i = P.cfg i := rfl

theorem capacity_two (P : Params) (i : Op P) : (P.cfg i).capacity = 2 := rfl

/-! ### projections of the trace -/

theorem proj_append {N : Type} (h : Nat) (T T' : List (Nat × Ev N)) : proj h (T ++ T') = proj h T ++ proj h T' := by
  simp [proj, List.filter_append]

theorem proj_map_same {N : Type} (h : Nat) (evs : List (Ev N)) : proj h (evs.map (fun e => (h, e))) = evs := by
  induction evs with
  | nil => rfl
  | cons e rest ih => simp [proj] at ih ⊢; exact ih

theorem proj_map_other {N : Type} (h h0 : Nat) (hne : h ≠ h0) (evs : List (Ev N)) : proj h (evs.map (fun e => (h0, e))) = [] := by
  induction evs with
  | nil => rfl
  | cons e rest ih =>
    have : (h0 == h) = false := by simpa using fun x : h0 = h => hne x.symm
    simp [proj, this] at ih ⊢
    exact ih

theorem mem_proj {N : Type} {h : Nat} {T : List (Nat × Ev N)} {e : Ev N} : e ∈ proj h T ↔ (h, e) ∈ T := by
  simp only [proj, List.mem_map, List.mem_filter]
  constructor
  · rintro ⟨⟨a, b⟩, ⟨hm, ha⟩, rfl⟩
    have : a = h := by simpa using ha
    subst this; exact hm
  · intro hm
    exact ⟨(h, e), ⟨hm, by simp⟩, rfl⟩

/-- the ghost trace of height `h`, typed over the system's operator type -/
def trP (P : Params) (h : Nat) (T : List (Nat × Ev (Op P))) : List (Ev (Op P)) := proj h T

theorem trP_step (P : Params) (h : Nat) (T : List (Nat × Ev (Op P))) (h0 : Nat) (evs : List (Ev (Op P))) :
    trP P h (T ++ evs.map (fun e => (h0, e))) = trP P h T ++ (if h = h0 then evs else []) := by
  unfold trP
  rw [proj_append]
  by_cases hh : h = h0
  · subst hh; rw [proj_map_same, if_pos rfl]
  · rw [proj_map_other h h0 hh, if_neg hh]

theorem mem_trP {P : Params} {h : Nat} {T : List (Nat × Ev (Op P))} {e : Ev (Op P)} : e ∈ trP P h T ↔ (h, e) ∈ T := mem_proj

/-! ### authenticity of a delivered message, seen from one height -/

/-- log invariant: every logged broadcast is reflected in the trace of its height -/
def LogInv (P : Params) (log : List Msg) (T : List (Nat × Ev (Op P))) : Prop :=
  ∀ m ∈ log, ∀ h, m.height = h → LogOK (P.at h) (trP P h T) m

theorem backedT_of {P : Params} {log : List Msg} {T : List (Nat × Ev (Op P))} (hlog : LogInv P log T) {b : Base}
    (hb : B.backed (P.at 0) log b = true) (h : Nat) : BackedT (P.at h) (trP P h T) b := by
  intro hh hid hs j hj hmem
  unfold B.backed at hb
  simp only [hs, hid, bne_self_eq_false, Bool.not_true, Bool.false_or, List.all_eq_true, Bool.or_eq_true, Bool.not_eq_true',
    List.any_eq_true] at hb
  rcases hb (opId j) hmem with hx | ⟨m', hm', hsame⟩
  · have : (P.at 0).honestId (opId (P := P.at 0) j) = true := (honestId_iff (P.at 0) j).2 hj
    exact absurd (Eq.trans this.symm hx) (by simp)
  · unfold sameSigned at hsame
    simp only [Bool.and_eq_true, beq_iff_eq] at hsame
    obtain ⟨⟨⟨⟨⟨⟨e1, e2⟩, e3⟩, e4⟩, e5⟩, e6⟩, _⟩ := hsame
    have hmh : m'.height = h := by rw [e3]; exact hh
    obtain ⟨i, _, h2, _, h4, h5, h6⟩ := hlog m' hm' h hmh
    have hij : i = j := by
      rw [h2] at e1
      exact opId_inj (P := P.at h) (by simpa using e1)
    subst hij
    rw [← e2, ← e4, ← e5, ← e6]
    exact ⟨h4, h5, h6⟩

theorem authT_of {P : Params} {log : List Msg} {T : List (Nat × Ev (Op P))} (hlog : LogInv P log T) {m : Msg}
    (ha : authentic P log m = true) (h : Nat) (hid : m.ident = ownIdent) : AuthT (P.at h) (trP P h T) m := by
  have ha' : B.authentic (P.at 0) log m = true := ha
  exact ⟨hid, backedT_of hlog (authentic_base ha') h,
    fun rc hrc => ⟨backedT_of hlog ((authentic_rc ha') rc hrc).1 h,
      fun pm hpm => backedT_of hlog (((authentic_rc ha') rc hrc).2 pm hpm) h⟩⟩

/-! ### the invariant -/

/-- state of operator i at height h: a live instance with its invariant; or no instance — then either no events yet, or the
    height is blocked for good -/
def NodeSt (P : B.Params) (T : List (Ev (B.Op P))) (i : B.Op P) (c : Ctrl) (h : Nat) : Prop :=
  match instAt h c with
  | some s => NodeInv P T i s
  | none => (∀ e ∈ T, e.node ≠ i) ∨ Blocked h c

structure InvM (P : Params) (hP : P.Valid) (σ : Sys P) : Prop where
  shape : ∀ i, CInv (σ.ctrl i)
  log : LogInv P σ.log σ.trace
  node : ∀ i, P.honest i = true → ∀ h, NodeSt (P.at h) (trP P h σ.trace) i (σ.ctrl i) h
  rules : ∀ h, QAbs.Rules (ctxT (P.at h) (hP.at h) (trP P h σ.trace))

theorem nstep_none {N : Type} {cfg : Cfg} {h : Nat} {A : Msg → Prop} {i : N} {os os' : Option State} {bs : List Msg}
    {evs : List (Ev N)} (hst : NStep cfg h A i os os' bs evs) (hn : os' = none) : os = none ∧ bs = [] ∧ evs = [] := by
  cases hst with
  | idle h1 h2 h3 => exact ⟨by rw [← h1]; exact hn, h2, h3⟩
  | create v h0 h1 h2 h3 => rw [h1] at hn; simp at hn
  | createDecided m ha h0 hv hh h1 h2 h3 => rw [h1] at hn; simp at hn
  | adopt s m ha h0 hd hv hh h1 h2 h3 => rw [h1] at hn; simp at hn
  | more s m ha h0 hd hv hh h1 h2 h3 => rw [h1] at hn; simp at hn
  | prop s m ha h0 hv hnew h1 h2 h3 => rw [h1] at hn; simp at hn
  | prep s m p ha h0 hacc hv h1 h2 h3 => rw [h1] at hn; simp at hn
  | prepQ s m p ha h0 hacc hv hq h1 h2 => rw [h1] at hn; simp at hn
  | com s m p ha h0 hacc hv h1 h2 h3 => rw [h1] at hn; simp at hn
  | comQ s m p agg ha h0 hacc hv hq hagg h1 h2 h3 => rw [h1] at hn; simp at hn
  | rc s X h0 h1 h2 h3 => rw [h1] at hn; simp at hn
  | jump s X R h0 hR h1 h2 => rw [h1] at hn; simp at hn

/-- what one enabled action does: one correct operator's controller takes a step at one height -/
structure MStep (P : Params) (σ σ' : Sys P) (i : Op P) (h0 : Nat) (c' : Ctrl) (outs : List Out)
    (evs : List (Ev (Op P))) : Prop where
  hi : P.honest i = true
  eq : σ' = σ.update i c' outs h0 evs
  cinv : CInv c'
  blocked : ∀ h, Blocked h (σ.ctrl i) → Blocked h c'
  main : HStep (P.cfg i) h0 (AuthT (P.at h0) (trP P h0 σ.trace)) i (σ.ctrl i) c' (bcasts outs) evs
  other : ∀ h, h ≠ h0 → OStep h (σ.ctrl i) c'

theorem step_mstep {P : Params} (hP : P.Valid) (σ : Sys P) (hinv : InvM P hP σ) (a : Action P) (hen : enabled σ a = true) :
    ∃ i h0 c' outs evs, MStep P σ (step σ a) i h0 c' outs evs := by
  cases a with
  | start i h v =>
    have hi : P.honest i = true := hen
    obtain ⟨h1, h2, h3, h4⟩ := ctrl_start_multi (P.cfg i) (capacity_two P i) (AuthT (P.at h) (trP P h σ.trace)) i (σ.ctrl i) h v
      (hinv.shape i)
    exact ⟨i, h, _, _, _, hi, rfl, h1, h2, h3, h4⟩
  | deliver i m =>
    have hen' : P.honest i = true ∧ authentic P σ.log m = true := by
      simpa [enabled] using hen
    obtain ⟨h1, h2, h3, h4⟩ := ctrl_processMsg_multi (P.cfg i) (capacity_two P i) (AuthT (P.at m.height) (trP P m.height σ.trace)) i
      (σ.ctrl i) m (hinv.shape i) (fun hid => authT_of hinv.log hen'.2 m.height hid)
    exact ⟨i, m.height, _, _, _, hen'.1, rfl, h1, h2, h3, h4⟩
  | timeout i h r =>
    have hi : P.honest i = true := hen
    obtain ⟨h1, h2, h3, h4⟩ := ctrl_onTimeout_multi (P.cfg i) (AuthT (P.at h) (trP P h σ.trace)) i (σ.ctrl i) h r (hinv.shape i)
    exact ⟨i, h, _, _, _, hi, rfl, h1, h2, h3, h4⟩

end Ssv.Qbft.M
