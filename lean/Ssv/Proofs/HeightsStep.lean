/-
Helper lemmas for engine `heights` (C15), part 3: the state invariant along `step`, and how one step can change the
highest record.
-/
import Ssv.Proofs.HeightsInv

namespace Ssv.Heights

def SInv (s : State) : Prop := CInv s.c s.s

theorem SInv.init (full : Bool) (q : Nat) : SInv (init full q) := CInv.init full

/-! ## the (controller, store) part of each step -/

theorem beginStep_cs (s : State) (slot : Nat) : (beginStep s slot).1.c = s.c ∧ (beginStep s slot).1.s = s.s ∧
    (beginStep s slot).1.q = s.q := by
  unfold beginStep
  split <;> exact ⟨rfl, rfl, rfl⟩

theorem beginStep_ok {s : State} {slot : Nat} (h : (beginStep s slot).2 = .ok) :
    guardRefuses s.c slot = false ∧ (beginStep s slot).1.r.duty = some slot := by
  unfold beginStep at h ⊢
  split
  · rename_i hg; simp [hg] at h
  · rename_i hg; exact ⟨by simpa using hg, rfl⟩

theorem decideStep_cases (s : State) (slot : Nat) :
    ((decideStep s slot).1 = s ∧ (decideStep s slot).2 = .refused ∧ ∃ e, startNewInstance s.c slot = .error e) ∨
    (∃ c', startNewInstance s.c slot = .ok c' ∧ (decideStep s slot).1.c = c' ∧ (decideStep s slot).1.s = s.s ∧
      (decideStep s slot).1.q = s.q ∧ (decideStep s slot).2 = .ok) := by
  unfold decideStep
  cases hs : startNewInstance s.c slot with
  | error e => left; exact ⟨rfl, rfl, e, rfl⟩
  | ok c' => right; exact ⟨c', rfl, rfl, rfl, rfl, rfl⟩

theorem step_start_eq (s : State) (slot : Nat) :
    step s (.start slot) = if (beginStep s slot).2 = .ok then decideStep (beginStep s slot).1 slot else beginStep s slot := by
  show (match beginStep s slot with | (s1, .ok) => decideStep s1 slot | (s1, o) => (s1, o)) = _
  cases hb : beginStep s slot with
  | mk s1 o => cases o <;> simp

theorem step_decide_eq (s : State) :
    step s .decide = match s.r.duty with | none => (s, .noduty) | some slot => decideStep s slot := rfl

/-- every op either leaves controller+store alone, or is one of: a successful StartNewInstance, a decided message
    (ProcessMsg, optionally followed by compaction and the runner's save), a compaction, a restart -/
inductive CSStep (s : State) (op : Op) (s' : State) : Prop
  | same (hc : s'.c = s.c) (hs : s'.s = s.s)
  | started (slot : Nat) (c' : Ctrl) (h : startNewInstance s.c slot = .ok c') (hc : s'.c = c') (hs : s'.s = s.s)
  | viaCtrl (h : Nat) (m : Msg) (ok : Bool)
      (hc : s'.c = (processMsg s.q s.c s.s h m ok).1) (hs : s'.s = (processMsg s.q s.c s.s h m ok).2.1)
  | viaRunner (h : Nat) (m : Msg) (ok : Bool)
      (hc : s'.c = (decidedViaRunner s h m ok).1.c) (hs : s'.s = (decidedViaRunner s h m ok).1.s)
  | failCtrl (h : Nat) (m : Msg) (ok : Bool) (hop : op = .decidedSF h m.round m.root m.signers ok false)
      (hc : s'.c = (processMsg s.q s.c s.s h m ok).1) (hs : s'.s = s.s)
  | failRunner (h : Nat) (m : Msg) (ok : Bool) (hop : op = .decidedSF h m.round m.root m.signers ok true)
      (hc : s'.c = (decidedViaRunnerSF s h m ok).1.c) (hs : s'.s = (decidedViaRunnerSF s h m ok).1.s)
  | committed (root : Nat) (vc : Bool) (hc : s'.c = (commitsStep s root vc).1.c) (hs : s'.s = (commitsStep s root vc).1.s)
  | compacted (h : Nat) (hc : s'.c = compactAt s.c h) (hs : s'.s = s.s)
  | restarted (full : Bool) (hop : op = .restart full) (hc : s'.c = (loadHighest (newCtrl full) s.s).1) (hs : s'.s = s.s)

theorem restartStep_cs (s : State) (full : Bool) :
    (restartStep s full).1.c = (loadHighest (newCtrl full) s.s).1 ∧ (restartStep s full).1.s = s.s ∧
    (restartStep s full).1.q = s.q := by
  unfold restartStep
  dsimp only
  split <;> exact ⟨rfl, rfl, rfl⟩

/-- the decided version of the fresh running instance `i` that `commits` puts into the container -/
def commitsInst (s : State) (i : Inst) (root : Nat) : Inst :=
  { i with decided := true, commits := singles s.q root, accepted := some root }

theorem commitsInst_height (s : State) (i : Inst) (root : Nat) : (commitsInst s i root).height = i.height := rfl

def commitsCtrl (s : State) (i : Inst) (root : Nat) : Ctrl :=
  { s.c with insts := replaceInst (commitsInst s i root) s.c.insts }

/-- `commits` either does nothing (not applicable) or decides the fresh running instance `i` of height `rh`; the runner
    then saves it, unless the duty already holds a decided value -/
theorem commitsStep_cases (s : State) (root : Nat) (vc : Bool) :
    ((commitsStep s root vc).1 = s ∧ (commitsStep s root vc).2 = .na) ∨
    (∃ rh i, s.r.running = some rh ∧ find s.c.insts rh = some i ∧ i.decided = false ∧
      (commitsStep s root vc).1.q = s.q ∧ (commitsStep s root vc).2 ≠ .na ∧
      (commitsStep s root vc).1.c = commitsCtrl s i root ∧
      ((s.r.hasValue = true ∧ (commitsStep s root vc).1.s = s.s) ∨
       (s.r.hasValue = false ∧ (commitsStep s root vc).1.s =
          saveFound (commitsCtrl s i root) s.s rh ⟨Gen.heights_FirstRound, root, List.range' 1 s.q⟩))) := by
  unfold commitsStep
  cases hd : s.r.duty with
  | none => left; exact ⟨rfl, rfl⟩
  | some d =>
    cases hr : s.r.running with
    | none => left; exact ⟨rfl, rfl⟩
    | some rh =>
      simp only
      cases hf : find s.c.insts rh with
      | none => left; exact ⟨rfl, rfl⟩
      | some i =>
        simp only
        split
        · rename_i hg
          right
          have hnd : i.decided = false := by
            simp only [Bool.and_eq_true, Bool.not_eq_true'] at hg
            exact hg.1.1.1.1
          cases hv : s.r.hasValue
          · refine ⟨rh, i, rfl, hf, hnd, rfl, ?_, rfl, Or.inr ⟨rfl, rfl⟩⟩
            simp only [Bool.false_eq_true, if_false]
            cases vc <;> simp
          · refine ⟨rh, i, rfl, hf, hnd, rfl, ?_, rfl, Or.inl ⟨rfl, rfl⟩⟩
            simp
        · left; exact ⟨rfl, rfl⟩

theorem step_q (s : State) (op : Op) : (step s op).1.q = s.q := by
  cases op with
  | start slot =>
    rw [step_start_eq]
    split
    · rcases decideStep_cases (beginStep s slot).1 slot with ⟨h, _⟩ | ⟨_, _, _, _, h, _⟩
      · rw [h]; exact (beginStep_cs s slot).2.2
      · rw [h]; exact (beginStep_cs s slot).2.2
    · exact (beginStep_cs s slot).2.2
  | begin slot => exact (beginStep_cs s slot).2.2
  | decide =>
    rw [step_decide_eq]
    cases s.r.duty with
    | none => rfl
    | some slot =>
      rcases decideStep_cases s slot with ⟨h, _⟩ | ⟨_, _, _, _, h, _⟩
      · simp only; rw [h]
      · exact h
  | decided h round root signers ok via => cases via <;> rfl
  | decidedSF h round root signers ok via => cases via <;> rfl
  | commits root vc =>
    show (commitsStep s root vc).1.q = s.q
    rcases commitsStep_cases s root vc with ⟨h, _⟩ | ⟨_, _, _, _, _, h, _⟩
    · rw [h]
    · exact h
  | compact h => rfl
  | restart full => exact (restartStep_cs s full).2.2

theorem step_cs (s : State) (op : Op) : CSStep s op (step s op).1 := by
  cases op with
  | start slot =>
    rw [step_start_eq]
    obtain ⟨hbc, hbs, _⟩ := beginStep_cs s slot
    split
    · rcases decideStep_cases (beginStep s slot).1 slot with ⟨h, _⟩ | ⟨c', hst, hc, hs, _, _⟩
      · rw [h]; exact .same hbc hbs
      · rw [hbc] at hst
        exact .started slot c' hst hc (by rw [hs, hbs])
    · exact .same hbc hbs
  | begin slot =>
    obtain ⟨hbc, hbs, _⟩ := beginStep_cs s slot
    exact .same hbc hbs
  | decide =>
    rw [step_decide_eq]
    cases s.r.duty with
    | none => exact .same rfl rfl
    | some slot =>
      simp only
      rcases decideStep_cases s slot with ⟨h, _⟩ | ⟨c', hst, hc, hs, _, _⟩
      · rw [h]; exact .same rfl rfl
      · exact .started slot c' hst hc hs
  | decided h round root signers ok via =>
    cases via
    · exact .viaCtrl h ⟨round, root, signers⟩ ok rfl rfl
    · exact .viaRunner h ⟨round, root, signers⟩ ok rfl rfl
  | decidedSF h round root signers ok via =>
    cases via
    · exact .failCtrl h ⟨round, root, signers⟩ ok rfl rfl rfl
    · exact .failRunner h ⟨round, root, signers⟩ ok rfl rfl rfl
  | commits root vc => exact .committed root vc rfl rfl
  | compact h => exact .compacted h rfl rfl
  | restart full =>
    exact .restarted full rfl (restartStep_cs s full).1 (restartStep_cs s full).2.1

/-! ## the runner's own save -/

theorem uponDecided_out (c : Ctrl) (st : Store) (h : Nat) (m : Msg) :
    (uponDecided c st h m).2.2 = if prevDecidedOf c st h then .dup else .new := rfl

theorem uponDecided_insts (c : Ctrl) (st : Store) (h : Nat) (m : Msg) :
    (uponDecided c st h m).1.insts = (decidedBranch c st h m).1 := rfl

theorem runnerSaves_new {r : Runner} {h : Nat} {o : DOut} (hsv : runnerSaves r h o = true) : o = .new := by
  unfold runnerSaves at hsv
  simp only [Bool.and_eq_true] at hsv
  simpa using hsv.1.1.1

/-- a `.new` outcome: the message's height is at or below the controller height afterwards -/
theorem new_height {s : State} {h : Nat} {m : Msg} {ok : Bool} (hnew : (processMsg s.q s.c s.s h m ok).2.2 = .new) :
    h ≤ (processMsg s.q s.c s.s h m ok).1.height := by
  rcases processMsg_cases s.q s.c s.s h m ok with he | ⟨_, _, he⟩ | ⟨_, _, he⟩
  · rw [he] at hnew; cases hnew
  · rw [he]; exact (uponDecided_height_ge s.c s.s h m).1
  · rw [he] at hnew ⊢
    simp only at hnew ⊢
    rw [(existingMsg_height s.q s.c s.s h m).1]
    -- not a future message (else the outcome is an error)
    unfold existingMsg at hnew
    split at hnew
    · cases hnew
    · rename_i hcond
      simp only [Bool.or_eq_true, decide_eq_true_eq, not_or, Nat.not_lt] at hcond
      exact hcond.2

theorem commitsCtrl_height (s : State) (i : Inst) (root : Nat) : (commitsCtrl s i root).height = s.c.height := rfl

theorem CInv.commitsCtrl {s : State} (inv : CInv s.c s.s) (i : Inst) (root : Nat) : CInv (commitsCtrl s i root) s.s := by
  refine ⟨inv.top.replace' _, inv.le, ?_, inv.hist⟩
  intro a ha hah
  have := inv.live a ha hah
  unfold AtTop at this ⊢
  show (find (replaceInst _ s.c.insts) s.c.height).isSome = true
  rw [find_replaceInst_isSome]
  exact this

theorem CInv.commits {s : State} (inv : CInv s.c s.s) (root : Nat) (vc : Bool) :
    CInv (commitsStep s root vc).1.c (commitsStep s root vc).1.s := by
  rcases commitsStep_cases s root vc with ⟨h, _⟩ | ⟨rh, i, _, hf, _, _, _, hc, ⟨_, hs⟩ | ⟨_, hs⟩⟩
  · rw [h]; exact inv
  · rw [hc, hs]; exact inv.commitsCtrl i root
  · rw [hc, hs]
    apply (inv.commitsCtrl i root).saveFound
    rw [commitsCtrl_height]
    exact (find_some_height hf) ▸ inv.top.le i (find_some_mem hf)

theorem SInv.step {s : State} (inv : SInv s) (op : Op) : SInv (Heights.step s op).1 := by
  unfold SInv at inv ⊢
  rcases step_cs s op with ⟨hc, hs⟩ | ⟨slot, c', hst, hc, hs⟩ | ⟨h, m, ok, hc, hs⟩ | ⟨h, m, ok, hc, hs⟩ |
    ⟨h, m, ok, _, hc, hs⟩ | ⟨h, m, ok, _, hc, hs⟩ | ⟨root, vc, hc, hs⟩ | ⟨h, hc, hs⟩ | ⟨full, _, hc, hs⟩
  · rw [hc, hs]; exact inv
  · rw [hc, hs]; exact inv.start hst
  · rw [hc, hs]; exact inv.processMsg s.q h m ok
  · rw [hc, hs]
    unfold decidedViaRunner
    simp only
    have hp := inv.processMsg s.q h m ok
    have hc2 : CInv (if s.q ≤ m.signers.length then compactAt (processMsg s.q s.c s.s h m ok).1 h else (processMsg s.q s.c s.s h m ok).1)
        (processMsg s.q s.c s.s h m ok).2.1 := by
      split
      · exact hp.compact h
      · exact hp
    cases hsv : runnerSaves s.r h (processMsg s.q s.c s.s h m ok).2.2
    · simpa using hc2
    · simp only [if_true]
      have hle := new_height (runnerSaves_new hsv)
      apply hc2.saveFound
      split
      · rw [compactAt_height]; exact hle
      · exact hle
  · rw [hc, hs]; exact inv.processMsg_ctrl s.q h m ok
  · rw [hc, hs]
    unfold decidedViaRunnerSF
    simp only
    have hp := inv.processMsg_ctrl s.q h m ok
    have hc2 : CInv (if s.q ≤ m.signers.length then compactAt (processMsg s.q s.c s.s h m ok).1 h else (processMsg s.q s.c s.s h m ok).1)
        s.s := by
      split
      · exact hp.compact h
      · exact hp
    cases hsv : (runnerSaves s.r h (processMsg s.q s.c s.s h m ok).2.2 &&
        (ok && decide (s.q ≤ m.signers.length) && firstSaveCalled s.c s.s h m))
    · simpa using hc2
    · simp only [if_true]
      simp only [Bool.and_eq_true] at hsv
      have hle := new_height (runnerSaves_new hsv.1)
      apply hc2.saveFound
      split
      · rw [compactAt_height]; exact hle
      · exact hle
  · rw [hc, hs]; exact CInv.commits inv root vc
  · rw [hc, hs]; exact inv.compact h
  · rw [hc, hs]; exact inv.load full

theorem SInv.run {s : State} (inv : SInv s) (ops : List Op) : SInv (run s ops) := by
  induction ops generalizing s with
  | nil => exact inv
  | cons op ops ih => exact ih (inv.step op)

theorem run_cons (s : State) (op : Op) (ops : List Op) : run s (op :: ops) = run (step s op).1 ops := rfl

theorem run_append (s : State) (ops ops' : List Op) : run s (ops ++ ops') = run (run s ops) ops' := by
  unfold run; exact List.foldl_append

theorem SInv.reach (full : Bool) (q : Nat) (ops : List Op) : SInv (Heights.run (Heights.init full q) ops) :=
  (SInv.init full q).run ops

end Ssv.Heights
