/-
Helper lemmas for engine `heights` (C15), part 3: the state invariant along `step`, and how one step can change the
highest record.
-/
import Ssv.Proofs.HeightsInv

namespace Ssv.Heights

def SInv (s : State) : Prop := CInv s.c s.s

theorem SInv.init (full : Bool) (q : Nat) : SInv (init full q) := CInv.init full

/-! ## the (controller, store) part of each step -/

theorem beginStep_cs (s : State) (slot : Nat) : (beginStep s slot).1.c = s.c ∧ (beginStep s slot).1.s = s.s ∧
    (beginStep s slot).1.q = s.q := by
  unfold beginStep
  split <;> exact ⟨rfl, rfl, rfl⟩

theorem beginStep_ok {s : State} {slot : Nat} (h : (beginStep s slot).2 = .ok) :
    guardRefuses s.c slot = false ∧ (beginStep s slot).1.r.duty = some slot := by
  unfold beginStep at h ⊢
  split
  · rename_i hg; simp [hg] at h
  · rename_i hg; exact ⟨by simpa using hg, rfl⟩

theorem decideStep_cases (s : State) (slot : Nat) :
    ((decideStep s slot).1 = s ∧ (decideStep s slot).2 = .refused ∧ ∃ e, startNewInstance s.c slot = .error e) ∨
    (∃ c', startNewInstance s.c slot = .ok c' ∧ (decideStep s slot).1.c = c' ∧ (decideStep s slot).1.s = s.s ∧
      (decideStep s slot).1.q = s.q ∧ (decideStep s slot).2 = .ok) := by
  unfold decideStep
  cases hs : startNewInstance s.c slot with
  | error e => left; exact ⟨rfl, rfl, e, rfl⟩
  | ok c' => right; exact ⟨c', rfl, rfl, rfl, rfl, rfl⟩

theorem step_start_eq (s : State) (slot : Nat) :
    step s (.start slot) = if (beginStep s slot).2 = .ok then decideStep (beginStep s slot).1 slot else beginStep s slot := by
  show (match beginStep s slot with | (s1, .ok) => decideStep s1 slot | (s1, o) => (s1, o)) = _
  cases hb : beginStep s slot with
  | mk s1 o => cases o <;> simp

theorem step_decide_eq (s : State) :
    step s .decide = match s.r.duty with | none => (s, .noduty) | some slot => decideStep s slot := rfl

/-- every op either leaves controller+store alone, or is one of: a successful StartNewInstance, a decided message
    (ProcessMsg, optionally followed by compaction and the runner's save), a compaction, a restart -/
inductive CSStep (s : State) (op : Op) (s' : State) : Prop
  | same (hc : s'.c = s.c) (hs : s'.s = s.s)
  | started (slot : Nat) (c' : Ctrl) (h : startNewInstance s.c slot = .ok c') (hc : s'.c = c') (hs : s'.s = s.s)
  | viaCtrl (h : Nat) (m : Msg) (ok : Bool)
      (hc : s'.c = (processMsg s.q s.c s.s h m ok).1) (hs : s'.s = (processMsg s.q s.c s.s h m ok).2.1)
  | viaRunner (h : Nat) (m : Msg) (ok : Bool)
      (hc : s'.c = (decidedViaRunner s h m ok).1.c) (hs : s'.s = (decidedViaRunner s h m ok).1.s)
  | compacted (h : Nat) (hc : s'.c = compactAt s.c h) (hs : s'.s = s.s)
  | restarted (full : Bool) (hop : op = .restart full) (hc : s'.c = (loadHighest (newCtrl full) s.s).1) (hs : s'.s = s.s)

theorem restartStep_cs (s : State) (full : Bool) :
    (restartStep s full).1.c = (loadHighest (newCtrl full) s.s).1 ∧ (restartStep s full).1.s = s.s ∧
    (restartStep s full).1.q = s.q := by
  unfold restartStep
  dsimp only
  split <;> exact ⟨rfl, rfl, rfl⟩

theorem step_q (s : State) (op : Op) : (step s op).1.q = s.q := by
  cases op with
  | start slot =>
    rw [step_start_eq]
    split
    · rcases decideStep_cases (beginStep s slot).1 slot with ⟨h, _⟩ | ⟨_, _, _, _, h, _⟩
      · rw [h]; exact (beginStep_cs s slot).2.2
      · rw [h]; exact (beginStep_cs s slot).2.2
    · exact (beginStep_cs s slot).2.2
  | begin slot => exact (beginStep_cs s slot).2.2
  | decide =>
    rw [step_decide_eq]
    cases s.r.duty with
    | none => rfl
    | some slot =>
      rcases decideStep_cases s slot with ⟨h, _⟩ | ⟨_, _, _, _, h, _⟩
      · simp only; rw [h]
      · exact h
  | decided h round root signers ok via => cases via <;> rfl
  | compact h => rfl
  | restart full => exact (restartStep_cs s full).2.2

theorem step_cs (s : State) (op : Op) : CSStep s op (step s op).1 := by
  cases op with
  | start slot =>
    rw [step_start_eq]
    obtain ⟨hbc, hbs, _⟩ := beginStep_cs s slot
    split
    · rcases decideStep_cases (beginStep s slot).1 slot with ⟨h, _⟩ | ⟨c', hst, hc, hs, _, _⟩
      · rw [h]; exact .same hbc hbs
      · rw [hbc] at hst
        exact .started slot c' hst hc (by rw [hs, hbs])
    · exact .same hbc hbs
  | begin slot =>
    obtain ⟨hbc, hbs, _⟩ := beginStep_cs s slot
    exact .same hbc hbs
  | decide =>
    rw [step_decide_eq]
    cases s.r.duty with
    | none => exact .same rfl rfl
    | some slot =>
      simp only
      rcases decideStep_cases s slot with ⟨h, _⟩ | ⟨c', hst, hc, hs, _, _⟩
      · rw [h]; exact .same rfl rfl
      · exact .started slot c' hst hc hs
  | decided h round root signers ok via =>
    cases via
    · exact .viaCtrl h ⟨round, root, signers⟩ ok rfl rfl
    · exact .viaRunner h ⟨round, root, signers⟩ ok rfl rfl
  | compact h => exact .compacted h rfl rfl
  | restart full =>
    exact .restarted full rfl (restartStep_cs s full).1 (restartStep_cs s full).2.1

/-! ## the runner's own save -/

theorem processMsg_cases (q : Nat) (c : Ctrl) (st : Store) (h : Nat) (m : Msg) (ok : Bool) :
    (processMsg q c st h m ok = (c, st, .err)) ∨
    (ok = true ∧ q ≤ m.signers.length ∧ processMsg q c st h m ok = uponDecided c st h m) := by
  unfold processMsg
  cases ok
  · left; rfl
  · by_cases hq : m.signers.length < q
    · left; simp [hq]
    · right; exact ⟨rfl, by omega, by simp [hq]⟩

theorem uponDecided_out (c : Ctrl) (st : Store) (h : Nat) (m : Msg) :
    (uponDecided c st h m).2.2 = if prevDecidedOf c st h then .dup else .new := rfl

theorem branch_saves_of_not_prevDecided {c : Ctrl} {st : Store} {h : Nat} (m : Msg) (hp : prevDecidedOf c st h = false) :
    (decidedBranch c st h m).2 = true := by
  unfold prevDecidedOf at hp
  unfold decidedBranch
  cases hi : instanceForHeight c st h with
  | none => rfl
  | some p =>
    obtain ⟨i, inMem⟩ := p
    rw [hi] at hp
    simp only at hp ⊢
    simp [hp]

theorem Fresh.compact {c : Ctrl} {h : Nat} {m : Msg} (hf : Fresh c.insts h m) : Fresh (compactAt c h).insts h m := by
  unfold compactAt
  cases hfd : find c.insts h with
  | none => simpa [hfd] using hf
  | some i =>
    simp only
    intro x hx
    rw [find_replaceInst_same hfd (by rw [trim_height]; exact find_some_height hfd)] at hx
    cases hx
    obtain ⟨hd, hm⟩ := hf i hfd
    exact ⟨hd, fun hr => mem_trim_commits.mpr ⟨hm hr, hr⟩⟩

theorem compactAt_height (c : Ctrl) (h : Nat) : (compactAt c h).height = c.height := by
  unfold compactAt; split <;> rfl

theorem uponDecided_insts (c : Ctrl) (st : Store) (h : Nat) (m : Msg) :
    (uponDecided c st h m).1.insts = (decidedBranch c st h m).1 := rfl

theorem SInv.step {s : State} (inv : SInv s) (op : Op) : SInv (step s op).1 := by
  unfold SInv at inv ⊢
  rcases step_cs s op with ⟨hc, hs⟩ | ⟨slot, c', hst, hc, hs⟩ | ⟨h, m, ok, hc, hs⟩ | ⟨h, m, ok, hc, hs⟩ | ⟨h, hc, hs⟩ |
    ⟨full, _, hc, hs⟩
  · rw [hc, hs]; exact inv
  · rw [hc, hs]; exact inv.start hst
  · rw [hc, hs]; exact inv.processMsg s.q h m ok
  · rw [hc, hs]
    unfold decidedViaRunner
    simp only
    have hp := inv.processMsg s.q h m ok
    -- compaction
    have hc2 : CInv (if s.q ≤ m.signers.length then compactAt (processMsg s.q s.c s.s h m ok).1 h else (processMsg s.q s.c s.s h m ok).1)
        (processMsg s.q s.c s.s h m ok).2.1 := by
      split
      · exact hp.compact h
      · exact hp
    cases hsv : runnerSaves s.r h (processMsg s.q s.c s.s h m ok).2.2
    · simpa using hc2
    · simp only [if_true]
      -- the runner saves only after a `.new`: the message went through UponDecided, the instance was not decided before
      have hnew : (processMsg s.q s.c s.s h m ok).2.2 = .new := by
        unfold runnerSaves at hsv
        simp only [Bool.and_eq_true] at hsv
        have := hsv.1.1.1
        simpa using this
      rcases processMsg_cases s.q s.c s.s h m ok with he | ⟨_, hq, he⟩
      · rw [he] at hnew; cases hnew
      · rw [he] at hnew hc2 ⊢
        have hpd : prevDecidedOf s.c s.s h = false := by
          rw [uponDecided_out] at hnew
          cases hpd : prevDecidedOf s.c s.s h
          · rfl
          · simp [hpd] at hnew
        have hfr : Fresh (uponDecided s.c s.s h m).1.insts h m := by
          rw [uponDecided_insts]
          exact decidedBranch_fresh _ _ _ _ (branch_saves_of_not_prevDecided m hpd)
        simp only [hq, if_true] at hc2 ⊢
        apply hc2.saveFound
        · rw [compactAt_height]; exact (uponDecided_height_ge s.c s.s h m).1
        · exact hfr.compact
  · rw [hc, hs]; exact inv.compact h
  · rw [hc, hs]; exact inv.load full

theorem SInv.run {s : State} (inv : SInv s) (ops : List Op) : SInv (run s ops) := by
  induction ops generalizing s with
  | nil => exact inv
  | cons op ops ih => exact ih (inv.step op)

theorem run_cons (s : State) (op : Op) (ops : List Op) : run s (op :: ops) = run (step s op).1 ops := rfl

theorem run_append (s : State) (ops ops' : List Op) : run s (ops ++ ops') = run (run s ops) ops' := by
  unfold run; exact List.foldl_append

theorem SInv.reach (full : Bool) (q : Nat) (ops : List Op) : SInv (Heights.run (Heights.init full q) ops) :=
  (SInv.init full q).run ops

end Ssv.Heights
