/-
C16 — the repair sketched in notes/C16.md, modelled and proved (NOT applied to /repo).

Repaired attester / sync-committee handler: the handler remembers the epoch (period) of the last tick it handled;
at the FIRST tick of a new epoch (period), if `fetchNextEpoch` (`fetchNextPeriod`) is still set — the duties of the
epoch (period) that has just become current were reset by a notice, or never fetched — it sets
`fetchCurrentEpoch = true; fetchFirst = true`, i.e. that tick fetches before it executes.  Everything else is the
existing code (`step`).  For this model the FULL exactly-once-if-fetched statement holds (no `quietOK`).
-/
import Ssv.Proofs.DutiesLiveAtt

namespace Ssv.Duties

/-- repaired handler state: the handler state + key (epoch / period) of the last tick handled -/
structure RState where
  st : HState
  le : Option Nat

/-- the added lines at the top of the ticker branch -/
def repairPre (st : HState) (le : Option Nat) (K : Nat) : HState :=
  if (le != some K && st.fetchNext) = true then { st with fetchCur := true, fetchFirst := true } else st

def stepR (k : Kind) (n : Net) (rs : RState) : Event → RState × List Atom
  | .tick slot clock r1 r2 =>
    let K := keyOf k n slot
    (⟨(step k n (repairPre rs.st rs.le K) (.tick slot clock r1 r2)).1, some K⟩,
     (step k n (repairPre rs.st rs.le K) (.tick slot clock r1 r2)).2)
  | .reorg s p c => (⟨(step k n rs.st (.reorg s p c)).1, rs.le⟩, [])
  | .indices c => (⟨(step k n rs.st (.indices c)).1, rs.le⟩, [])

def runFromR (k : Kind) (n : Net) : RState → List Event → List Atom
  | _, [] => []
  | rs, e :: es => (stepR k n rs e).2 ++ runFromR k n (stepR k n rs e).1 es

def runR (k : Kind) (n : Net) (clock0 : Nat) (r0 : FetchRes) (evs : List Event) : List Atom :=
  (initH k n clock0 r0).2 ++ runFromR k n ⟨(initH k n clock0 r0).1, none⟩ evs

/-! ### attester -/

structure AInvR (n : Net) (st : HState) (m : DMon) (lt : Option Nat) (now : Nat) (le : Option Nat) : Prop where
  ok : m.ok = true
  ltnow : ∀ t, lt = some t → t ≤ now
  i1 : st.fetchFirst = true → st.fetchCur = true
  i2 : st.indicesChanged = true → st.fetchCur = true
  dueLe : ∀ K A, m.due K = some A → K ≤ n.epoch now + 1
  leLe : ∀ K, le = some K → K ≤ n.epoch now
  A : ∀ t, Cand lt now t → st.fetchFirst = true ∨ (st.fetchNext = true ∧ le ≠ some (n.epoch t)) ∨
        Cov .att st m (n.epoch t)
  B : ∀ t, Cand lt now t → Cov .att st m (n.epoch t + 1) ∨ (st.fetchNext = true ∧ attShouldFetchNext n t = true)

theorem AInvD.toR {n : Net} {st : HState} {m : DMon} {lt : Option Nat} {now : Nat} {ff : Bool} {le : Option Nat}
    (h : AInvD n st m lt now ff none) (hle : ∀ K, le = some K → K ≤ n.epoch now) : AInvR n st m lt now le :=
  ⟨h.ok, h.ltnow, h.i1, h.i2, h.dueLe, hle,
    fun t ht => by
      rcases h.A t ht with h1 | ⟨r, hr, _⟩ | h1
      · exact Or.inl h1
      · cases hr
      · exact Or.inr (Or.inr h1),
    h.B⟩

theorem attTick_R (n : Net) (hspe : 0 < n.spe) {st : HState} {m : DMon} {lt : Option Nat} {now : Nat} {le : Option Nat}
    (t0 clock : Nat) (r1 r2 : FetchRes) (h : AInvR n st m lt now le) (hc : Cand lt now t0) :
    AInvR n (attTick n (repairPre st le (n.epoch t0)) t0 clock r1 r2).1
      (drun .att n m (attTick n (repairPre st le (n.epoch t0)) t0 clock r1 r2).2) (some t0) t0 (some (n.epoch t0)) := by
  have hfin : ∀ K, some (n.epoch t0) = some K → K ≤ n.epoch t0 := fun K hK => by cases hK; exact Nat.le_refl _
  unfold repairPre
  split
  · rename_i hcond
    simp only [Bool.and_eq_true, bne_iff_ne, ne_eq] at hcond
    have hB : Cov .att { st with fetchCur := true, fetchFirst := true } m (n.epoch t0 + 1) ∨
        (st.fetchNext = true ∧ attShouldFetchNext n t0 = true) := by
      rcases h.B t0 hc with h1 | h1
      · exact Or.inl (h1.of_store_eq rfl)
      · exact Or.inr h1
    have hD := attTick_core n hspe (st := { st with fetchCur := true, fetchFirst := true }) t0 clock r1 r2 h.ok
      (fun _ => rfl) (fun _ => rfl) h.dueLe hc.2 (Or.inl rfl) hB
    exact hD.toR hfin
  · rename_i hcond
    simp only [Bool.and_eq_true, bne_iff_ne, ne_eq, not_and] at hcond
    have hA : st.fetchFirst = true ∨ Cov .att st m (n.epoch t0) := by
      rcases h.A t0 hc with h1 | ⟨h1, h2⟩ | h1
      · exact Or.inl h1
      · exact absurd h1 (hcond h2)
      · exact Or.inr h1
    have hD := attTick_core n hspe t0 clock r1 r2 h.ok h.i1 h.i2 h.dueLe hc.2 hA (h.B t0 hc)
    exact hD.toR hfin

theorem att_keepR (n : Net) {st st' : HState} {m : DMon} {lt : Option Nat} {now r : Nat} {le : Option Nat}
    (h : AInvR n st m lt now le) (hnow : now ≤ r) (hs : st'.store = st.store) (hff : st'.fetchFirst = st.fetchFirst)
    (hfn : st.fetchNext = true → st'.fetchNext = true)
    (hi1 : st'.fetchFirst = true → st'.fetchCur = true) (hi2 : st'.indicesChanged = true → st'.fetchCur = true) :
    AInvR n st' m lt r le := by
  have hem := epoch_mono n hnow
  refine ⟨h.ok, fun t ht => Nat.le_trans (h.ltnow t ht) hnow, hi1, hi2,
    fun K A hA => by have := h.dueLe K A hA; omega, fun K hK => by have := h.leLe K hK; omega, ?_, ?_⟩
  · intro t ht
    rcases h.A t (ht.mono hnow) with h1 | h1 | h1
    · exact Or.inl (by rw [hff]; exact h1)
    · exact Or.inr (Or.inl ⟨hfn h1.1, h1.2⟩)
    · exact Or.inr (Or.inr (h1.of_store_eq hs))
  · intro t ht
    rcases h.B t (ht.mono hnow) with h1 | h1
    · exact Or.inl (h1.of_store_eq hs)
    · exact Or.inr ⟨hfn h1.1, h1.2⟩

theorem att_resetNextR (n : Net) {st st' : HState} {m : DMon} {lt : Option Nat} {now r : Nat} {le : Option Nat}
    (h : AInvR n st m lt now le) (hnow : now ≤ r) (hsh : attShouldFetchNext n r = true)
    (hs : st'.store = st.store.reset (n.epoch r + 1)) (hff : st'.fetchFirst = st.fetchFirst)
    (hfn : st'.fetchNext = true)
    (hi1 : st'.fetchFirst = true → st'.fetchCur = true) (hi2 : st'.indicesChanged = true → st'.fetchCur = true) :
    AInvR n st' m lt r le := by
  have hem := epoch_mono n hnow
  refine ⟨h.ok, fun t ht => Nat.le_trans (h.ltnow t ht) hnow, hi1, hi2,
    fun K A hA => by have := h.dueLe K A hA; omega, fun K hK => by have := h.leLe K hK; omega, ?_, ?_⟩
  · intro t ht
    have hpt := epoch_mono n ht.2
    by_cases heq : n.epoch t = n.epoch r + 1
    · refine Or.inr (Or.inl ⟨hfn, ?_⟩)
      intro hle
      have := h.leLe _ hle
      omega
    · rcases h.A t (ht.mono hnow) with h1 | h1 | h1
      · exact Or.inl (by rw [hff]; exact h1)
      · exact Or.inr (Or.inl ⟨hfn, h1.2⟩)
      · exact Or.inr (Or.inr (h1.of_reset hs (by omega)))
  · intro t ht
    have hpt := epoch_mono n ht.2
    by_cases heq : n.epoch t = n.epoch r
    · exact Or.inr ⟨hfn, attShould_mono n heq.symm ht.2 hsh⟩
    · rcases h.B t (ht.mono hnow) with h1 | h1
      · exact Or.inl (h1.of_reset hs (by omega))
      · exact Or.inr ⟨hfn, h1.2⟩

theorem attReorg_R (n : Net) {st : HState} {m : DMon} {lt : Option Nat} {now : Nat} {le : Option Nat}
    (r : Nat) (prev cur : Bool) (h : AInvR n st m lt now le) (hnow : now ≤ r) :
    AInvR n (attReorg n st r prev cur) m lt r le := by
  have hem := epoch_mono n hnow
  cases prev
  · cases cur
    · simp only [attReorg, Bool.false_eq_true, if_false]
      exact att_keepR n h hnow rfl rfl (fun x => x) h.i1 h.i2
    · cases hsh : attShouldFetchNext n r
      · simp only [attReorg, Bool.false_eq_true, if_false, if_true, hsh]
        exact att_keepR n h hnow rfl rfl (fun x => x) h.i1 h.i2
      · simp only [attReorg, Bool.false_eq_true, if_false, if_true, hsh]
        exact att_resetNextR n h hnow hsh rfl rfl rfl h.i1 h.i2
  · have hB : ∀ (st' : HState), st'.fetchFirst = true →
        (∀ t, Cand lt r t → Cov .att st' m (n.epoch t + 1) ∨ (st'.fetchNext = true ∧ attShouldFetchNext n t = true)) →
        st'.fetchCur = true → AInvR n st' m lt r le := by
      intro st' hff hb hfc
      exact ⟨h.ok, fun t ht => Nat.le_trans (h.ltnow t ht) hnow, fun _ => hfc, fun _ => hfc,
        fun K A hA => by have := h.dueLe K A hA; omega, fun K hK => by have := h.leLe K hK; omega,
        fun t _ => Or.inl hff, hb⟩
    cases hsh : attShouldFetchNext n r
    · simp only [attReorg, if_true, hsh, Bool.false_eq_true, if_false]
      apply hB _ rfl _ rfl
      intro t ht
      have hpt := epoch_mono n ht.2
      rcases h.B t (ht.mono hnow) with h1 | h1
      · exact Or.inl (h1.of_reset rfl (by omega))
      · exact Or.inr h1
    · simp only [attReorg, if_true, hsh]
      apply hB _ rfl _ rfl
      intro t ht
      have hpt := epoch_mono n ht.2
      by_cases heq : n.epoch t = n.epoch r
      · exact Or.inr ⟨rfl, attShould_mono n heq.symm ht.2 hsh⟩
      · rcases h.B t (ht.mono hnow) with h1 | h1
        · exact Or.inl (h1.transfer (fun x hx hk => mem_reset.mpr ⟨mem_reset.mpr ⟨hx, by omega⟩, by omega⟩) rfl)
        · exact Or.inr ⟨rfl, h1.2⟩

theorem attIndices_R (n : Net) {st : HState} {m : DMon} {lt : Option Nat} {now : Nat} {le : Option Nat}
    (c : Nat) (h : AInvR n st m lt now le) (hnow : now ≤ c) : AInvR n (attIndices n st c) m lt c le := by
  cases hsh : attShouldFetchNext n c
  · simp only [attIndices, hsh, Bool.false_eq_true, if_false]
    exact att_keepR n h hnow rfl rfl (fun x => x) (fun _ => rfl) (fun _ => rfl)
  · simp only [attIndices, hsh, if_true]
    exact att_resetNextR n h hnow hsh rfl rfl rfl (fun _ => rfl) (fun _ => rfl)

theorem att_exactly_runFromR (n : Net) (hspe : 0 < n.spe) : ∀ (evs : List Event) (st : HState) (m : DMon)
    (lt : Option Nat) (now : Nat) (le : Option Nat),
    AInvR n st m lt now le → envOK lt now evs = true →
    (drun .att n m (runFromR .att n ⟨st, le⟩ evs)).ok = true := by
  intro evs
  induction evs with
  | nil => intro st m lt now le h _; exact h.ok
  | cons e es ih =>
    intro st m lt now le h henv
    obtain ⟨hnow, hlt, henv'⟩ := envOK_cons henv
    cases e with
    | tick s c r1 r2 =>
      have hc : Cand lt now s := ⟨fun t0 ht0 => hlt t0 ht0 s c r1 r2 rfl, hnow⟩
      simp only [runFromR, stepR, drun_append, step, attStep, keyOf]
      exact ih _ _ _ _ _ (attTick_R n hspe s c r1 r2 h hc) henv'
    | reorg r p c =>
      simp only [runFromR, stepR, step, attStep, List.nil_append]
      exact ih _ _ _ _ _ (attReorg_R n r p c h hnow) henv'
    | indices c =>
      simp only [runFromR, stepR, step, attStep, List.nil_append]
      exact ih _ _ _ _ _ (attIndices_R n c h hnow) henv'

theorem att_exactly_runR (n : Net) (hspe : 0 < n.spe) (clock0 : Nat) (r0 : FetchRes) (evs : List Event)
    (henv : envOK none clock0 evs = true) : exactlyOnceOK .att n (runR .att n clock0 r0 evs) = true := by
  unfold exactlyOnceOK runR
  have h0 : AInvR n attInit DMon.init none clock0 none :=
    ⟨rfl, fun t ht => (nomatch ht), fun _ => rfl, fun hh => (nomatch hh), fun K A hA => (nomatch hA),
      fun K hK => (nomatch hK), fun t _ => Or.inl rfl, fun t _ => Or.inl (Cov.of_none rfl)⟩
  have := att_exactly_runFromR n hspe evs _ _ none clock0 none h0 henv
  simpa [initH, drun, List.foldl_append] using this

/-! ### sync committee -/

structure SInvR (n : Net) (st : HState) (m : DMon) (lt : Option Nat) (now : Nat) (le : Option Nat) : Prop where
  ok : m.ok = true
  ltnow : ∀ t, lt = some t → t ≤ now
  s1 : st.fetchFirst = true → st.fetchCur = true ∧ st.fetchNext = true
  dueLe : ∀ K A, m.due K = some A → K ≤ n.periodOfSlot now + 1
  leLe : ∀ K, le = some K → K ≤ n.periodOfSlot now
  A : ∀ t, Cand lt now t → st.fetchFirst = true ∨ (st.fetchNext = true ∧ le ≠ some (n.periodOfSlot t)) ∨
        Cov .sync st m (n.periodOfSlot t)
  B : ∀ t, Cand lt now t → Cov .sync st m (n.periodOfSlot t + 1) ∨ st.fetchNext = true

theorem SInv.toR {n : Net} {st : HState} {m : DMon} {lt : Option Nat} {now : Nat} {le : Option Nat}
    (h : SInv n st m lt now none) (hle : ∀ K, le = some K → K ≤ n.periodOfSlot now) : SInvR n st m lt now le :=
  ⟨h.ok, h.ltnow, h.s1, h.dueLe, hle,
    fun t ht => by
      rcases h.A t ht with h1 | ⟨r, hr, _⟩ | h1
      · exact Or.inl h1
      · cases hr
      · exact Or.inr (Or.inr h1),
    h.B⟩

theorem syncTick_R (n : Net) {st : HState} {m : DMon} {lt : Option Nat} {now : Nat} {le : Option Nat}
    (t0 clock : Nat) (r1 r2 : FetchRes) (h : SInvR n st m lt now le) (hc : Cand lt now t0) :
    SInvR n (syncTick n (repairPre st le (n.periodOfSlot t0)) t0 clock r1 r2).1
      (drun .sync n m (syncTick n (repairPre st le (n.periodOfSlot t0)) t0 clock r1 r2).2) (some t0) t0
      (some (n.periodOfSlot t0)) := by
  have hfin : ∀ K, some (n.periodOfSlot t0) = some K → K ≤ n.periodOfSlot t0 := fun K hK => by cases hK; exact Nat.le_refl _
  unfold repairPre
  split
  · rename_i hcond
    simp only [Bool.and_eq_true, bne_iff_ne, ne_eq] at hcond
    have hD := syncTick_core n (st := { st with fetchCur := true, fetchFirst := true }) t0 clock r1 r2 h.ok
      (fun _ => ⟨rfl, hcond.2⟩) h.dueLe hc.2 (Or.inl rfl) (Or.inr hcond.2)
    exact hD.toR hfin
  · rename_i hcond
    simp only [Bool.and_eq_true, bne_iff_ne, ne_eq, not_and] at hcond
    have hA : st.fetchFirst = true ∨ Cov .sync st m (n.periodOfSlot t0) := by
      rcases h.A t0 hc with h1 | ⟨h1, h2⟩ | h1
      · exact Or.inl h1
      · exact absurd h1 (hcond h2)
      · exact Or.inr h1
    have hD := syncTick_core n t0 clock r1 r2 h.ok h.s1 h.dueLe hc.2 hA (h.B t0 hc)
    exact hD.toR hfin

theorem syncReorg_R (n : Net) {st : HState} {m : DMon} {lt : Option Nat} {now : Nat} {le : Option Nat}
    (r : Nat) (cur : Bool) (h : SInvR n st m lt now le) (hnow : now ≤ r) :
    SInvR n (syncReorg n st r cur) m lt r le := by
  have hpm := periodOfSlot_mono n hnow
  unfold syncReorg
  split
  · refine ⟨h.ok, fun t ht => Nat.le_trans (h.ltnow t ht) hnow, fun hf => ⟨(h.s1 hf).1, rfl⟩,
      fun K A hA => by have := h.dueLe K A hA; omega, fun K hK => by have := h.leLe K hK; omega, ?_,
      fun t _ => Or.inr rfl⟩
    intro t ht
    have hpt := periodOfSlot_mono n ht.2
    by_cases heq : n.periodOfSlot t = n.periodOfSlot r + 1
    · refine Or.inr (Or.inl ⟨rfl, ?_⟩)
      intro hle
      have := h.leLe _ hle
      omega
    · rcases h.A t (ht.mono hnow) with h1 | h1 | h1
      · exact Or.inl h1
      · exact Or.inr (Or.inl ⟨rfl, h1.2⟩)
      · exact Or.inr (Or.inr (h1.of_reset rfl (by omega)))
  · exact ⟨h.ok, fun t ht => Nat.le_trans (h.ltnow t ht) hnow, h.s1,
      fun K A hA => by have := h.dueLe K A hA; omega, fun K hK => by have := h.leLe K hK; omega,
      fun t ht => h.A t (ht.mono hnow), fun t ht => h.B t (ht.mono hnow)⟩

theorem syncIndices_R (n : Net) {st : HState} {m : DMon} {lt : Option Nat} {now : Nat} {le : Option Nat}
    (c : Nat) (h : SInvR n st m lt now le) (hnow : now ≤ c) : SInvR n (syncIndices n st c) m lt c le := by
  have hpm := periodOfSlot_mono n hnow
  have base : ∀ st' : HState, st'.store = st.store → st'.fetchFirst = st.fetchFirst → st'.fetchCur = true →
      (st.fetchNext = true → st'.fetchNext = true) → SInvR n st' m lt c le := by
    intro st' hs hff hfc hfn
    refine ⟨h.ok, fun t ht => Nat.le_trans (h.ltnow t ht) hnow, fun hf => ⟨hfc, hfn (h.s1 (by rw [← hff]; exact hf)).2⟩,
      fun K A hA => by have := h.dueLe K A hA; omega, fun K hK => by have := h.leLe K hK; omega, ?_, ?_⟩
    · intro t ht
      rcases h.A t (ht.mono hnow) with h1 | h1 | h1
      · exact Or.inl (by rw [hff]; exact h1)
      · exact Or.inr (Or.inl ⟨hfn h1.1, h1.2⟩)
      · exact Or.inr (Or.inr (h1.of_store_eq hs))
    · intro t ht
      rcases h.B t (ht.mono hnow) with h1 | h1
      · exact Or.inl (h1.of_store_eq hs)
      · exact Or.inr (hfn h1)
  unfold syncIndices
  split
  · exact base _ rfl rfl rfl (fun _ => rfl)
  · exact base _ rfl rfl rfl (fun hh => hh)

theorem sync_exactly_runFromR (n : Net) : ∀ (evs : List Event) (st : HState) (m : DMon)
    (lt : Option Nat) (now : Nat) (le : Option Nat),
    SInvR n st m lt now le → envOK lt now evs = true →
    (drun .sync n m (runFromR .sync n ⟨st, le⟩ evs)).ok = true := by
  intro evs
  induction evs with
  | nil => intro st m lt now le h _; exact h.ok
  | cons e es ih =>
    intro st m lt now le h henv
    obtain ⟨hnow, hlt, henv'⟩ := envOK_cons henv
    cases e with
    | tick s c r1 r2 =>
      have hc : Cand lt now s := ⟨fun t0 ht0 => hlt t0 ht0 s c r1 r2 rfl, hnow⟩
      simp only [runFromR, stepR, drun_append, step, syncStep, keyOf]
      exact ih _ _ _ _ _ (syncTick_R n s c r1 r2 h hc) henv'
    | reorg r p c =>
      simp only [runFromR, stepR, step, syncStep, List.nil_append]
      exact ih _ _ _ _ _ (syncReorg_R n r c h hnow) henv'
    | indices c =>
      simp only [runFromR, stepR, step, syncStep, List.nil_append]
      exact ih _ _ _ _ _ (syncIndices_R n c h hnow) henv'

theorem sync_exactly_runR (n : Net) (clock0 : Nat) (r0 : FetchRes) (evs : List Event)
    (henv : envOK none clock0 evs = true) : exactlyOnceOK .sync n (runR .sync n clock0 r0 evs) = true := by
  unfold exactlyOnceOK runR
  have fp := syncFetch_post n ⟨[], true, true, false, false⟩ DMon.init (n.periodOfSlot clock0) clock0 r0
  have h0 : SInvR n (syncInit n clock0 r0).1 (drun .sync n DMon.init (syncInit n clock0 r0).2) none clock0 none := by
    simp only [syncInit]
    refine ⟨by rw [fp.okeq]; rfl, fun t ht => (nomatch ht), fun _ => ⟨rfl, rfl⟩, ?_, fun K hK => (nomatch hK),
      fun t _ => Or.inl ?_, fun t _ => Or.inr rfl⟩
    · intro K A hA
      rcases fp.keys K A hA with h1 | h1
      · omega
      · cases h1
    · rw [(syncFetch_flags n _ _ clock0 r0).1]
  have := sync_exactly_runFromR n evs _ _ none clock0 none h0 henv
  simpa [initH, drun, List.foldl_append] using this

/-- the repaired handlers dispatch the duties that the unrepaired ones lose on the three refutation witnesses -/
def witnessReorg : List Event :=
  [.tick 47 47 (.ok [1] []) (.ok [1, 2] [⟨64, 1, 7⟩, ⟨66, 2, 8⟩]), .reorg 63 false true,
   .tick 64 64 (.ok [1, 2] [⟨64, 1, 7⟩, ⟨66, 2, 8⟩]) .fail, .tick 65 65 .fail .fail, .tick 66 66 .fail .fail]

theorem repaired_dispatches_witness :
    execPairs (runR .att ⟨32, 256⟩ 0 .noIdx witnessReorg) = [(64, 1), (66, 2)] ∧
    execPairs (run .att ⟨32, 256⟩ 0 .noIdx witnessReorg) = [] := by decide

end Ssv.Duties
