/- C16 helper lemmas: at-most-once and slot-window for the three handler models. -/
import Ssv.Proofs.DutiesStore

namespace Ssv.Duties

theorem execPairs_append (a b : List Atom) : execPairs (a ++ b) = execPairs a ++ execPairs b := by
  induction a with
  | nil => rfl
  | cons x xs ih => cases x <;> simp [execPairs, ih]

@[simp] theorem execPairs_nil : execPairs [] = [] := rfl
@[simp] theorem execPairs_fetch (ep arg : Nat) (r : FetchRes) (l : List Atom) :
    execPairs (.fetch ep arg r :: l) = execPairs l := rfl
@[simp] theorem execPairs_execs (s c : Nat) (ds : List Duty) (l : List Atom) :
    execPairs (.execs s c ds :: l) = ds.map (fun d => (d.slot, d.vidx)) ++ execPairs l := rfl

/-- atoms that are all fetches -/
def NoExec (l : List Atom) : Prop := ∀ s c ds, Atom.execs s c ds ∉ l

theorem NoExec.pairs {l : List Atom} (h : NoExec l) : execPairs l = [] := by
  induction l with
  | nil => rfl
  | cons x xs ih =>
    cases x with
    | fetch ep arg r =>
      simp only [execPairs_fetch]
      exact ih (fun s c ds hm => h s c ds (List.mem_cons_of_mem _ hm))
    | execs s c ds => exact absurd (List.mem_cons_self ..) (h s c ds)

theorem NoExec.nil : NoExec [] := fun _ _ _ h => by cases h
theorem NoExec.append {a b : List Atom} (ha : NoExec a) (hb : NoExec b) : NoExec (a ++ b) := by
  intro s c ds h
  rcases List.mem_append.mp h with h | h
  · exact ha s c ds h
  · exact hb s c ds h
theorem NoExec.fetch1 (ep arg : Nat) (r : FetchRes) : NoExec [.fetch ep arg r] := by
  intro s c ds h; simp at h

/-- store invariant used by the safety proofs: keys are unique; sync-committee descriptors use slot key 0 -/
def Good (k : Kind) (st : HState) : Prop :=
  KeyNodup st.store ∧ (k = .sync → ∀ x ∈ st.store, x.slot = 0)

/-! ### generic: pairs of a filtered store slice are distinct -/

theorem pairs_nodup {s : Store} (h : KeyNodup s) (p : Entry → Bool) (f : Entry → Nat × Nat)
    (hf : ∀ a b, a ∈ s → b ∈ s → p a = true → p b = true → f a = f b → a.sameKey b = true) :
    ((s.filter p).map f).Nodup := by
  rw [List.Nodup, List.pairwise_map]
  have h2 : (s.filter p).Pairwise (fun a b => a.sameKey b = false) := List.Pairwise.filter _ h
  refine List.Pairwise.imp_of_mem ?_ h2
  intro a b ha hb hab heq
  have ha' := List.mem_filter.mp ha
  have hb' := List.mem_filter.mp hb
  rw [hf a b ha'.1 hb'.1 ha'.2 hb'.2 heq] at hab
  cases hab

/-! ### attester -/

theorem attFetch_noExec (st : HState) (ep : Nat) (r : FetchRes) : NoExec (attFetch st ep r).2.2 := by
  cases r <;> exact NoExec.fetch1 _ _ _

theorem attFetch_good {st : HState} (ep : Nat) (r : FetchRes) (h : Good .att st) : Good .att (attFetch st ep r).1 := by
  cases r with
  | noIdx => exact h
  | fail => exact h
  | ok c ds => exact ⟨keyNodup_addAll _ _ (keyNodup_reset ep h.1), fun hk => by cases hk⟩

theorem attFetchNextPart_noExec (n : Net) (st : HState) (e s : Nat) (r : FetchRes) :
    NoExec (attFetchNextPart n st e s r).2 := by
  unfold attFetchNextPart
  split
  · have := attFetch_noExec st (e + 1) r
    split <;> simp_all
  · exact NoExec.nil

theorem attFetchNextPart_good {n : Net} {st : HState} (e s : Nat) (r : FetchRes) (h : Good .att st) :
    Good .att (attFetchNextPart n st e s r).1 := by
  unfold attFetchNextPart
  split
  · have := attFetch_good (e + 1) r h
    split <;> simp_all [Good]
  · exact h

theorem attProcessFetching_noExec (n : Net) (st : HState) (e s : Nat) (r1 r2 : FetchRes) :
    NoExec (attProcessFetching n st e s r1 r2).2 := by
  unfold attProcessFetching
  split
  · have h1 := attFetch_noExec st e r1
    split
    · simp_all
    · rename_i st1 o1 heq
      have h2 := attFetchNextPart_noExec n { st1 with fetchCur := false } e s r2
      simp only [heq] at h1
      exact NoExec.append h1 h2
  · exact attFetchNextPart_noExec _ _ _ _ _

theorem attProcessFetching_good {n : Net} {st : HState} (e s : Nat) (r1 r2 : FetchRes) (h : Good .att st) :
    Good .att (attProcessFetching n st e s r1 r2).1 := by
  unfold attProcessFetching
  split
  · have h1 := attFetch_good e r1 h
    split
    · simp_all
    · rename_i st1 o1 heq
      simp only [heq] at h1
      exact attFetchNextPart_good (st := { st1 with fetchCur := false }) e s r2 h1
  · exact attFetchNextPart_good e s r1 h

theorem good_reset {k : Kind} {st : HState} (ep : Nat) (h : Good k st) :
    Good k { st with store := st.store.reset ep } :=
  ⟨keyNodup_reset ep h.1, fun hk x hx => h.2 hk x (mem_reset.mp hx).1⟩

theorem good_of_store {k : Kind} {st st' : HState} (h : Good k st)
    (hs : st'.store = st.store ∨ ∃ ep, st'.store = st.store.reset ep) : Good k st' := by
  rcases hs with hs | ⟨ep, hs⟩
  · unfold Good; rw [hs]; exact h
  · unfold Good; rw [hs]; exact good_reset (st := st) ep h

theorem attPost_store_eq (n : Net) (st : HState) (slot : Nat) :
    (attPost n st slot).store = if (slot % n.spe == n.spe - 1) = true then st.store.reset (n.epoch slot) else st.store := by
  unfold attPost
  by_cases h1 : (slot % n.spe == n.spe / 2 - 2) = true <;> by_cases h2 : (slot % n.spe == n.spe - 1) = true <;> simp [h1, h2]

theorem propPost_store_eq (n : Net) (st : HState) (slot : Nat) :
    (propPost n st slot).store =
      if (slot % n.spe == n.spe - 1) = true ∧ n.epoch slot ≠ 0 then st.store.reset (n.epoch slot - 1) else st.store := by
  unfold propPost
  by_cases h2 : (slot % n.spe == n.spe - 1) = true <;> by_cases h3 : n.epoch slot = 0 <;> simp [h2, h3]

theorem syncPost_store_eq (n : Net) (st : HState) (slot : Nat) :
    (syncPost n st slot).store =
      if (slot == n.lastSlotOfPeriod (n.periodOfSlot slot)) = true ∧ n.periodOfSlot slot ≠ 0 then
        st.store.reset (n.periodOfSlot slot - 1) else st.store := by
  unfold syncPost Net.periodOfSlot
  by_cases h1 : (slot % n.spe == n.spe / 2 - 2 && n.epoch slot % n.epp == n.epp - syncPrep) = true <;>
  by_cases h2 : (slot == n.lastSlotOfPeriod (n.period (n.epoch slot))) = true <;>
  by_cases h3 : n.period (n.epoch slot) = 0 <;> simp [h1, h2, h3]
theorem attPost_store (n : Net) (st : HState) (slot : Nat) :
    (attPost n st slot).store = st.store ∨ ∃ ep, (attPost n st slot).store = st.store.reset ep := by
  rw [attPost_store_eq]; split
  · exact Or.inr ⟨_, rfl⟩
  · exact Or.inl rfl

theorem propPost_store (n : Net) (st : HState) (slot : Nat) :
    (propPost n st slot).store = st.store ∨ ∃ ep, (propPost n st slot).store = st.store.reset ep := by
  rw [propPost_store_eq]; split
  · exact Or.inr ⟨_, rfl⟩
  · exact Or.inl rfl

theorem syncPost_store (n : Net) (st : HState) (slot : Nat) :
    (syncPost n st slot).store = st.store ∨ ∃ ep, (syncPost n st slot).store = st.store.reset ep := by
  rw [syncPost_store_eq]; split
  · exact Or.inr ⟨_, rfl⟩
  · exact Or.inl rfl

/-- shape of a tick's output: fetch atoms, one `execs` atom computed on a good store, fetch atoms -/
def TickShape (k : Kind) (exec : HState → List Atom) (out : List Atom) : Prop :=
  ∃ o1 o2 st', Good k st' ∧ out = o1 ++ exec st' ++ o2 ∧ NoExec o1 ∧ NoExec o2

theorem good_ic {k : Kind} {st : HState} (b : Bool) (h : Good k st) : Good k { st with indicesChanged := b } := h
theorem good_ff {k : Kind} {st : HState} (b : Bool) (h : Good k st) : Good k { st with fetchFirst := b } := h
theorem good_fn {k : Kind} {st : HState} (b : Bool) (h : Good k st) : Good k { st with fetchNext := b } := h
theorem good_fc {k : Kind} {st : HState} (b : Bool) (h : Good k st) : Good k { st with fetchCur := b } := h

theorem attTick_spec {n : Net} {st : HState} (slot clock : Nat) (r1 r2 : FetchRes) (h : Good .att st) :
    Good .att (attTick n st slot clock r1 r2).1 ∧
    TickShape .att (fun s => attProcessExecution n s (n.epoch slot) slot clock) (attTick n st slot clock r1 r2).2 := by
  obtain ⟨store, ff, fc, fn, ic⟩ := st
  cases ff
  · -- regular tick: execute, then (reset on indices change and) fetch
    have h0 : Good .att (if ic = true then
        (⟨store.reset (n.epoch slot), false, fc, fn, false⟩ : HState) else ⟨store, false, fc, fn, ic⟩) := by
      split
      · exact good_reset (st := ⟨store, false, fc, fn, false⟩) _ h
      · exact h
    have hg := attProcessFetching_good (n := n) (n.epoch slot) slot r1 r2 h0
    constructor
    · simp only [attTick]
      exact good_of_store hg (attPost_store _ _ _)
    · refine ⟨[], (attProcessFetching n (if ic = true then
        (⟨store.reset (n.epoch slot), false, fc, fn, false⟩ : HState) else ⟨store, false, fc, fn, ic⟩)
        (n.epoch slot) slot r1 r2).2, _, h, ?_, NoExec.nil, attProcessFetching_noExec _ _ _ _ _ _⟩
      simp [attTick]
  · -- fetch-first tick
    have hg := attProcessFetching_good (n := n) (st := ⟨store, false, fc, fn, false⟩) (n.epoch slot) slot r1 r2 h
    constructor
    · simp only [attTick]
      exact good_of_store hg (attPost_store _ _ _)
    · refine ⟨(attProcessFetching n ⟨store, false, fc, fn, false⟩ (n.epoch slot) slot r1 r2).2, [], _, hg, ?_,
        attProcessFetching_noExec _ _ _ _ _ _, NoExec.nil⟩
      simp [attTick]

theorem attReorg_store (n : Net) (st : HState) (slot : Nat) (prev cur : Bool) :
    ∀ x ∈ (attReorg n st slot prev cur).store, x ∈ st.store := by
  intro x hx
  unfold attReorg at hx
  split at hx
  · split at hx
    · exact (mem_reset.mp (mem_reset.mp hx).1).1
    · exact (mem_reset.mp hx).1
  · split at hx
    · split at hx
      · exact (mem_reset.mp hx).1
      · exact hx
    · exact hx

theorem attIndices_store (n : Net) (st : HState) (c : Nat) : ∀ x ∈ (attIndices n st c).store, x ∈ st.store := by
  intro x hx
  unfold attIndices at hx
  split at hx
  · exact (mem_reset.mp hx).1
  · exact hx

theorem attReorg_good {n : Net} {st : HState} (slot : Nat) (prev cur : Bool) (h : Good .att st) :
    Good .att (attReorg n st slot prev cur) := by
  unfold attReorg
  split
  · split
    · exact good_reset (st := { st with store := st.store.reset (n.epoch slot), fetchFirst := true, fetchCur := true, fetchNext := true }) _
        (good_reset (n.epoch slot) h)
    · exact good_reset (n.epoch slot) h
  · split
    · split
      · exact good_reset (st := { st with fetchNext := true }) _ h
      · exact h
    · exact h

theorem attIndices_good {n : Net} {st : HState} (clock : Nat) (h : Good .att st) : Good .att (attIndices n st clock) := by
  unfold attIndices
  split
  · exact good_reset (st := { st with indicesChanged := true, fetchCur := true, fetchNext := true }) _ h
  · exact h

theorem repairPre_store (st : HState) (le : Option Nat) (K : Nat) : (repairPre st le K).store = st.store := by
  unfold repairPre; split <;> rfl

theorem lateFix_store (st : HState) (le : Option Nat) (K : Nat) : (lateFix st le K).store = st.store := by
  unfold lateFix; split <;> rfl

theorem good_repairPre {k : Kind} {st : HState} (le : Option Nat) (K : Nat) (h : Good k st) : Good k (repairPre st le K) :=
  good_of_store h (Or.inl (repairPre_store st le K))

theorem good_lateFix {k : Kind} {st : HState} (le : Option Nat) (K : Nat) (h : Good k st) : Good k (lateFix st le K) :=
  good_of_store h (Or.inl (lateFix_store st le K))

/-! ### proposer -/

theorem propFetch_noExec (st : HState) (ep : Nat) (r : FetchRes) : NoExec (propFetch st ep r).2 := by
  cases r <;> exact NoExec.fetch1 _ _ _

theorem propFetch_good {st : HState} (ep : Nat) (r : FetchRes) (h : Good .prop st) : Good .prop (propFetch st ep r).1 := by
  cases r with
  | noIdx => exact h
  | fail => exact h
  | ok c ds => exact ⟨keyNodup_addAll _ _ (keyNodup_reset ep h.1), fun hk => by cases hk⟩

theorem propTick_spec {n : Net} {st : HState} (slot clock : Nat) (r1 : FetchRes) (h : Good .prop st) :
    Good .prop (propTick n st slot clock r1).1 ∧
    TickShape .prop (fun s => propProcessExecution s (n.epoch slot) slot clock) (propTick n st slot clock r1).2 := by
  obtain ⟨store, ff, fc, fn, ic⟩ := st
  have hlast : ∀ {s : HState}, Good .prop s → Good .prop (propPost n s slot) :=
    fun hs => good_of_store hs (propPost_store _ _ _)
  cases ff
  · cases ic
    · constructor
      · simp only [propTick]; exact hlast h
      · refine ⟨[], [], _, h, ?_, NoExec.nil, NoExec.nil⟩
        simp [propTick]
    · have hg := propFetch_good (st := ⟨store, false, fc, fn, false⟩) (n.epoch slot) r1 h
      constructor
      · simp only [propTick]; exact hlast hg
      · refine ⟨[], (propFetch ⟨store, false, fc, fn, false⟩ (n.epoch slot) r1).2, _, h, ?_, NoExec.nil, propFetch_noExec _ _ _⟩
        simp [propTick]
  · have hg := propFetch_good (st := ⟨store, r1.failed, fc, fn, false⟩) (n.epoch slot) r1 h
    constructor
    · simp only [propTick]; exact hlast hg
    · refine ⟨(propFetch ⟨store, r1.failed, fc, fn, false⟩ (n.epoch slot) r1).2, [], _, hg, ?_, propFetch_noExec _ _ _, NoExec.nil⟩
      simp [propTick]

theorem propStep_good {n : Net} {st : HState} (e : Event) (h : Good .prop st) : Good .prop (propStep n st e).1 := by
  cases e with
  | tick slot clock r1 r2 => exact (propTick_spec slot clock r1 h).1
  | reorg slot prev cur =>
    simp only [propStep, propReorg]
    split
    · exact good_reset (st := { st with fetchFirst := true }) _ h
    · exact h
  | indices clock => exact h

/-! ### sync committee -/

theorem syncFetch_noExec (n : Net) (st : HState) (p clock : Nat) (r : FetchRes) : NoExec (syncFetch n st p clock r).2.2 := by
  cases r <;> exact NoExec.fetch1 _ _ _

theorem syncFetch_good {n : Net} {st : HState} (p clock : Nat) (r : FetchRes) (h : Good .sync st) :
    Good .sync (syncFetch n st p clock r).1 := by
  cases r with
  | noIdx => exact h
  | fail => exact h
  | ok c ds =>
    refine ⟨keyNodup_addAll _ _ (keyNodup_reset p h.1), fun hk x hx => ?_⟩
    rcases mem_addAll_inv _ _ hx with h1 | ⟨d, _, rfl⟩
    · exact h.2 hk x (mem_reset.mp h1).1
    · rfl

theorem syncFetchNextPart_noExec (n : Net) (st : HState) (p clock : Nat) (r : FetchRes) :
    NoExec (syncFetchNextPart n st p clock r).2 := by
  unfold syncFetchNextPart
  split
  · have := syncFetch_noExec n st (p + 1) clock r
    split <;> simp_all
  · exact NoExec.nil

theorem syncFetchNextPart_good {n : Net} {st : HState} (p clock : Nat) (r : FetchRes) (h : Good .sync st) :
    Good .sync (syncFetchNextPart n st p clock r).1 := by
  unfold syncFetchNextPart
  split
  · have := syncFetch_good (n := n) (p + 1) clock r h
    split <;> simp_all [Good]
  · exact h

theorem syncProcessFetching_noExec (n : Net) (st : HState) (p clock : Nat) (r1 r2 : FetchRes) :
    NoExec (syncProcessFetching n st p clock r1 r2).2 := by
  unfold syncProcessFetching
  split
  · have h1 := syncFetch_noExec n st p clock r1
    split
    · simp_all
    · rename_i st1 o1 heq
      have h2 := syncFetchNextPart_noExec n { st1 with fetchCur := false } p clock r2
      simp only [heq] at h1
      exact NoExec.append h1 h2
  · exact syncFetchNextPart_noExec _ _ _ _ _

theorem syncProcessFetching_good {n : Net} {st : HState} (p clock : Nat) (r1 r2 : FetchRes) (h : Good .sync st) :
    Good .sync (syncProcessFetching n st p clock r1 r2).1 := by
  unfold syncProcessFetching
  split
  · have h1 := syncFetch_good (n := n) p clock r1 h
    split
    · simp_all
    · rename_i st1 o1 heq
      simp only [heq] at h1
      exact syncFetchNextPart_good (st := { st1 with fetchCur := false }) p clock r2 h1
  · exact syncFetchNextPart_good p clock r1 h

theorem syncTick_spec {n : Net} {st : HState} (slot clock : Nat) (r1 r2 : FetchRes) (h : Good .sync st) :
    Good .sync (syncTick n st slot clock r1 r2).1 ∧
    TickShape .sync (fun s => syncProcessExecution s (n.period (n.epoch slot)) slot clock) (syncTick n st slot clock r1 r2).2 := by
  obtain ⟨store, ff, fc, fn, ic⟩ := st
  have hpost : ∀ {s : HState}, Good .sync s → Good .sync (syncPost n s slot) :=
    fun hs => good_of_store hs (syncPost_store _ _ _)
  cases ff
  · have hg := syncProcessFetching_good (n := n) (st := ⟨store, false, fc, fn, ic⟩) (n.period (n.epoch slot)) clock r1 r2 h
    constructor
    · simp only [syncTick]; exact hpost hg
    · refine ⟨[], (syncProcessFetching n ⟨store, false, fc, fn, ic⟩ (n.period (n.epoch slot)) clock r1 r2).2, _, h, ?_,
        NoExec.nil, syncProcessFetching_noExec _ _ _ _ _ _⟩
      simp [syncTick]
  · have hg := syncProcessFetching_good (n := n) (st := ⟨store, false, fc, fn, ic⟩) (n.period (n.epoch slot)) clock r1 r2 h
    constructor
    · simp only [syncTick]; exact hpost hg
    · refine ⟨(syncProcessFetching n ⟨store, false, fc, fn, ic⟩ (n.period (n.epoch slot)) clock r1 r2).2, [], _, hg, ?_,
        syncProcessFetching_noExec _ _ _ _ _ _, NoExec.nil⟩
      simp [syncTick]

theorem syncStep_good {n : Net} {st : HState} (e : Event) (h : Good .sync st) : Good .sync (syncStep n st e).1 := by
  cases e with
  | tick slot clock r1 r2 => exact (syncTick_spec slot clock r1 r2 h).1
  | reorg slot prev cur =>
    simp only [syncStep, syncReorg]
    split
    · exact good_reset (st := { st with fetchNext := true }) _ h
    · exact h
  | indices clock =>
    simp only [syncStep, syncIndices]
    split <;> exact h

theorem syncReorg_good {n : Net} {st : HState} (slot : Nat) (cur : Bool) (h : Good .sync st) :
    Good .sync (syncReorg n st slot cur) := by
  unfold syncReorg
  split
  · exact good_reset (st := { st with fetchNext := true }) _ h
  · exact h

theorem syncIndices_good {n : Net} {st : HState} (clock : Nat) (h : Good .sync st) : Good .sync (syncIndices n st clock) := by
  unfold syncIndices
  split <;> exact h

/-! ### the `execs` atom of a tick -/

def execOf (k : Kind) (n : Net) (slot clock : Nat) (s : HState) : List Atom :=
  match k with
  | .att => attProcessExecution n s (n.epoch slot) slot clock
  | .prop => propProcessExecution s (n.epoch slot) slot clock
  | .sync => syncProcessExecution s (n.periodOfSlot slot) slot clock

theorem exec_pairs (k : Kind) (n : Net) (slot clock : Nat) {s : HState} (h : Good k s) :
    (execPairs (execOf k n slot clock s)).Nodup ∧ ∀ p ∈ execPairs (execOf k n slot clock s), p.1 = slot := by
  cases k with
  | att =>
    simp only [execOf, attProcessExecution, execPairs_execs, execPairs_nil, List.append_nil, List.map_map,
      Store.slotDuties, List.filter_filter]
    constructor
    · apply pairs_nodup h.1
      intro a b _ _ ha hb hab
      simp only [Bool.and_eq_true, beq_iff_eq] at ha hb
      simp only [Function.comp, entryDuty, Prod.mk.injEq] at hab
      exact sameKey_iff.mpr ⟨by omega, hab.1, hab.2⟩
    · intro p hp
      simp only [List.mem_map, List.mem_filter, Function.comp, entryDuty, Bool.and_eq_true, beq_iff_eq] at hp
      obtain ⟨e, ⟨_, _, ⟨_, h2⟩, _⟩, rfl⟩ := hp
      exact h2
  | prop =>
    simp only [execOf, propProcessExecution, execPairs_execs, execPairs_nil, List.append_nil, List.map_map,
      Store.slotDuties, List.filter_filter]
    constructor
    · apply pairs_nodup h.1
      intro a b _ _ ha hb hab
      simp only [Bool.and_eq_true, beq_iff_eq] at ha hb
      simp only [Function.comp, entryDuty, Prod.mk.injEq] at hab
      exact sameKey_iff.mpr ⟨by omega, hab.1, hab.2⟩
    · intro p hp
      simp only [List.mem_map, List.mem_filter, Function.comp, entryDuty, Bool.and_eq_true, beq_iff_eq] at hp
      obtain ⟨e, ⟨_, _, ⟨_, h2⟩, _⟩, rfl⟩ := hp
      exact h2
  | sync =>
    simp only [execOf, syncProcessExecution, execPairs_execs, execPairs_nil, List.append_nil, List.map_map,
      Store.periodDuties, List.filter_filter]
    constructor
    · apply pairs_nodup h.1
      intro a b ha' hb' ha hb hab
      simp only [Bool.and_eq_true, beq_iff_eq] at ha hb
      simp only [Function.comp, Prod.mk.injEq] at hab
      have := h.2 rfl a ha'
      have := h.2 rfl b hb'
      exact sameKey_iff.mpr ⟨by omega, by omega, hab.2⟩
    · intro p hp
      simp only [List.mem_map, Function.comp] at hp
      obtain ⟨e, _, rfl⟩ := hp
      rfl

theorem exec_window (k : Kind) (n : Net) (slot clock : Nat) (s : HState) :
    ∀ s' c' ds, Atom.execs s' c' ds ∈ execOf k n slot clock s →
      s' = slot ∧ c' = clock ∧ ∀ d ∈ ds, d.slot = slot ∧ inWindow k n clock slot = true := by
  intro s' c' ds hm
  cases k with
  | att =>
    simp only [execOf, attProcessExecution, List.mem_singleton, Atom.execs.injEq] at hm
    obtain ⟨rfl, rfl, rfl⟩ := hm
    refine ⟨rfl, rfl, fun d hd => ?_⟩
    simp only [List.mem_map, List.mem_filter, mem_slotDuties] at hd
    obtain ⟨e, ⟨⟨_, _, h2, _⟩, h3⟩, rfl⟩ := hd
    simp only [entryDuty, inWindow]
    exact ⟨h2, by rw [← h2]; exact h3⟩
  | prop =>
    simp only [execOf, propProcessExecution, List.mem_singleton, Atom.execs.injEq] at hm
    obtain ⟨rfl, rfl, rfl⟩ := hm
    refine ⟨rfl, rfl, fun d hd => ?_⟩
    simp only [List.mem_map, List.mem_filter, mem_slotDuties] at hd
    obtain ⟨e, ⟨⟨_, _, h2, _⟩, h3⟩, rfl⟩ := hd
    simp only [entryDuty, inWindow]
    exact ⟨h2, by rw [← h2]; exact h3⟩
  | sync =>
    simp only [execOf, syncProcessExecution, List.mem_singleton, Atom.execs.injEq] at hm
    obtain ⟨rfl, rfl, rfl⟩ := hm
    refine ⟨rfl, rfl, fun d hd => ?_⟩
    simp only [List.mem_map, List.mem_filter] at hd
    obtain ⟨e, ⟨_, h3⟩, rfl⟩ := hd
    exact ⟨rfl, h3⟩

/-! ### one step, any handler -/

/-- the state in which the ticker branch of handler `k` starts its work -/
def tickStart (k : Kind) (n : Net) (rs : RState) (slot : Nat) : HState :=
  match k with
  | .att => repairPre rs.st rs.le (n.epoch slot)
  | .prop => rs.st
  | .sync => repairPre rs.st rs.le (n.periodOfSlot slot)

theorem step_good (k : Kind) (n : Net) {rs : RState} (e : Event) (h : Good k rs.st) : Good k (step k n rs e).1.st := by
  cases k with
  | att =>
    cases e with
    | tick slot clock r1 r2 => exact (attTick_spec slot clock r1 r2 (good_repairPre rs.le _ h)).1
    | reorg slot prev cur =>
      simp only [step, attReorgN]
      split
      · exact good_lateFix _ _ (attReorg_good slot prev cur h)
      · exact attReorg_good slot prev cur h
    | indices clock =>
      simp only [step, attIndicesN]
      split
      · exact good_lateFix _ _ (attIndices_good clock h)
      · exact attIndices_good clock h
  | prop => exact propStep_good e h
  | sync =>
    cases e with
    | tick slot clock r1 r2 => exact (syncTick_spec slot clock r1 r2 (good_repairPre rs.le _ h)).1
    | reorg slot prev cur =>
      simp only [step, syncReorgN]
      split
      · exact good_lateFix _ _ (syncReorg_good slot cur h)
      · exact syncReorg_good slot cur h
    | indices clock => exact syncIndices_good clock h

theorem step_tick_shape (k : Kind) (n : Net) {rs : RState} (slot clock : Nat) (r1 r2 : FetchRes) (h : Good k rs.st) :
    TickShape k (execOf k n slot clock) (step k n rs (.tick slot clock r1 r2)).2 := by
  cases k
  · exact (attTick_spec slot clock r1 r2 (good_repairPre rs.le _ h)).2
  · exact (propTick_spec slot clock r1 h).2
  · exact (syncTick_spec slot clock r1 r2 (good_repairPre rs.le _ h)).2

theorem step_reorg_out (k : Kind) (n : Net) (rs : RState) (s : Nat) (p c : Bool) : (step k n rs (.reorg s p c)).2 = [] := by
  cases k <;> rfl
theorem step_indices_out (k : Kind) (n : Net) (rs : RState) (c : Nat) : (step k n rs (.indices c)).2 = [] := by
  cases k <;> rfl

theorem init_good (k : Kind) (n : Net) (clock : Nat) (r : FetchRes) : Good k (initH k n clock r).1.st := by
  have h0 : ∀ k b1 b2 b3 b4, Good k ⟨[], b1, b2, b3, b4⟩ := fun k _ _ _ _ => ⟨keyNodup_nil, fun _ x hx => by cases hx⟩
  cases k with
  | att => exact h0 _ _ _ _ _
  | prop => exact propFetch_good _ r (h0 _ _ _ _ _)
  | sync => exact syncFetch_good (n := n) (st := ⟨[], true, true, false, false⟩) _ clock r (h0 _ _ _ _ _)

theorem init_noExec (k : Kind) (n : Net) (clock : Nat) (r : FetchRes) : NoExec (initH k n clock r).2 := by
  cases k with
  | att => exact NoExec.nil
  | prop => exact propFetch_noExec _ _ r
  | sync => exact syncFetch_noExec n _ _ clock r

/-! ### at most once, over whole runs -/

theorem atMostOnce_runFrom (k : Kind) (n : Net) : ∀ (evs : List Event) (rs : RState) (lt : Option Nat),
    Good k rs.st → ticksIncreasing lt evs = true →
    (execPairs (runFrom k n rs evs)).Nodup ∧
      ∀ p ∈ execPairs (runFrom k n rs evs), ∀ t, lt = some t → t < p.1 := by
  intro evs
  induction evs with
  | nil => intro rs lt _ _; exact ⟨List.nodup_nil, fun p hp => by cases hp⟩
  | cons e es ih =>
    intro rs lt hg ht
    have hg' := step_good k n e hg
    cases e with
    | tick slot clock r1 r2 =>
      simp only [ticksIncreasing, Bool.and_eq_true] at ht
      obtain ⟨o1, o2, st', hgs, hout, hn1, hn2⟩ := step_tick_shape k n slot clock r1 r2 hg
      obtain ⟨ihn, ihb⟩ := ih _ (some slot) hg' ht.2
      obtain ⟨hxn, hxs⟩ := exec_pairs k n slot clock hgs
      simp only [runFrom, hout, execPairs_append, hn1.pairs, hn2.pairs, List.nil_append, List.append_nil]
      refine ⟨List.nodup_append.mpr ⟨hxn, ihn, ?_⟩, ?_⟩
      · intro a ha b hb hab
        have h1 := hxs a ha
        have h2 := ihb b hb slot rfl
        rw [hab] at h1; omega
      · intro p hp t hlt
        have hts : t < slot := by
          subst hlt
          simpa using ht.1
        rcases List.mem_append.mp hp with h | h
        · rw [hxs p h]; exact hts
        · have := ihb p h slot rfl; omega
    | reorg s p c =>
      simp only [runFrom, step_reorg_out, List.nil_append]
      exact ih _ lt hg' ht
    | indices c =>
      simp only [runFrom, step_indices_out, List.nil_append]
      exact ih _ lt hg' ht

theorem atMostOnce_run (k : Kind) (n : Net) (clock0 : Nat) (r0 : FetchRes) (evs : List Event)
    (ht : ticksIncreasing none evs = true) : AtMostOnce (run k n clock0 r0 evs) := by
  unfold AtMostOnce run
  rw [execPairs_append, (init_noExec k n clock0 r0).pairs, List.nil_append]
  exact (atMostOnce_runFrom k n evs _ none (init_good k n clock0 r0) ht).1

/-! ### slot window, over whole runs -/

theorem window_runFrom (k : Kind) (n : Net) : ∀ (evs : List Event) (rs : RState), Good k rs.st →
    WindowOK k n (runFrom k n rs evs) := by
  intro evs
  induction evs with
  | nil => intro rs _ s c ds h; cases h
  | cons e es ih =>
    intro rs hg s c ds hm
    have hg' := step_good k n e hg
    simp only [runFrom] at hm
    rcases List.mem_append.mp hm with h | h
    · cases e with
      | tick slot clock r1 r2 =>
        obtain ⟨o1, o2, st', _, hout, hn1, hn2⟩ := step_tick_shape k n slot clock r1 r2 hg
        rw [hout] at h
        rcases List.mem_append.mp h with h | h
        · rcases List.mem_append.mp h with h | h
          · exact absurd h (hn1 s c ds)
          · obtain ⟨rfl, rfl, hd⟩ := exec_window k n slot clock st' s c ds h
            exact hd
        · exact absurd h (hn2 s c ds)
      | reorg s' p c' => rw [step_reorg_out] at h; cases h
      | indices c' => rw [step_indices_out] at h; cases h
    · exact ih _ hg' s c ds h

theorem window_run (k : Kind) (n : Net) (clock0 : Nat) (r0 : FetchRes) (evs : List Event) :
    WindowOK k n (run k n clock0 r0 evs) := by
  intro s c ds hm
  unfold run at hm
  rcases List.mem_append.mp hm with h | h
  · exact absurd h (init_noExec k n clock0 r0 s c ds)
  · exact window_runFrom k n evs _ (init_good k n clock0 r0) s c ds h

end Ssv.Duties
