/- C16 helper lemmas: exactly-once-if-fetched for the proposer handler (no side condition beyond `envOK`). -/
import Ssv.Proofs.DutiesLive

namespace Ssv.Duties

structure PInv (n : Net) (st : HState) (m : DMon) (lt : Option Nat) (now : Nat) : Prop where
  ok : m.ok = true
  ltnow : ∀ t, lt = some t → t ≤ now
  dueLe : ∀ K A, m.due K = some A → K ≤ n.epoch now
  cov : st.fetchFirst = false → Cov .prop st m (n.epoch now)

theorem propPost_cov (n : Net) {st : HState} {m : DMon} (slot : Nat) (h : Cov .prop st m (n.epoch slot)) :
    Cov .prop (propPost n st slot) m (n.epoch slot) := by
  have := propPost_store_eq n st slot
  split at this
  · rename_i hc
    exact h.of_reset this (by omega)
  · exact h.of_store_eq this

theorem propTick_pinv (n : Net) {st : HState} {m : DMon} {lt : Option Nat} {now : Nat} (t0 clock : Nat) (r1 : FetchRes)
    (h : PInv n st m lt now) (hnow : now ≤ t0) :
    PInv n (propTick n st t0 clock r1).1 (drun .prop n m (propTick n st t0 clock r1).2) (some t0) t0 := by
  have hem := epoch_mono n hnow
  have hcov0 : st.fetchFirst = false → Cov .prop st m (n.epoch t0) := by
    intro hff
    by_cases heq : n.epoch t0 = n.epoch now
    · rw [heq]; exact h.cov hff
    · apply Cov.of_none
      cases hd : m.due (n.epoch t0) with
      | none => rfl
      | some A => have := h.dueLe _ A hd; omega
  obtain ⟨store, ff, fc, fn, ic⟩ := st
  have fin : ∀ (s : HState) (m2 : DMon), m2.ok = true → Cov .prop s m2 (n.epoch t0) →
      (∀ K A, m2.due K = some A → K = n.epoch t0 ∨ m.due K = some A) →
      PInv n (propPost n s t0) m2 (some t0) t0 := by
    intro s m2 hok hc hk
    refine ⟨hok, fun t ht => by cases ht; exact Nat.le_refl _, ?_, fun _ => propPost_cov n t0 hc⟩
    intro K A hA
    rcases hk K A hA with h1 | h1
    · omega
    · have := h.dueLe K A h1; omega
  cases ff
  · have hx := dstep_exec .prop n t0 clock (st := ⟨store, false, fc, fn, ic⟩) h.ok (fun _ => hcov0 rfl)
    simp only [execOf] at hx
    cases ic
    · simp only [propTick, Bool.false_eq_true, if_false]
      exact fin _ _ hx.1 ((hcov0 rfl).of_due_eq hx.2) (fun K A hA => Or.inr (by rw [hx.2] at hA; exact hA))
    · simp only [propTick, Bool.false_eq_true, if_false, if_true, drun_append]
      obtain ⟨okb, fp⟩ := propFetch_post n ⟨store, false, fc, fn, false⟩
        (drun .prop n m (propProcessExecution ⟨store, false, fc, fn, true⟩ (n.epoch t0) t0 clock)) (n.epoch t0) r1
      exact fin _ _ (by rw [fp.okeq]; exact hx.1) fp.covp
        (fun K A hA => by
          rcases fp.keys K A hA with h1 | h1
          · exact Or.inl h1
          · exact Or.inr (by rw [hx.2] at h1; exact h1))
  · simp only [propTick, if_true, drun_append]
    obtain ⟨okb, fp⟩ := propFetch_post n ⟨store, r1.failed, fc, fn, false⟩ m (n.epoch t0) r1
    have hx := dstep_exec .prop n t0 clock (st := (propFetch ⟨store, r1.failed, fc, fn, false⟩ (n.epoch t0) r1).1)
      (m := drun .prop n m (propFetch ⟨store, r1.failed, fc, fn, false⟩ (n.epoch t0) r1).2)
      (by rw [fp.okeq]; exact h.ok) (fun _ => fp.covp)
    simp only [execOf] at hx
    exact fin _ _ hx.1 (fp.covp.of_due_eq hx.2) (fun K A hA => by rw [hx.2] at hA; exact fp.keys K A hA)

theorem propStep_pinv (n : Net) {st : HState} {m : DMon} {lt : Option Nat} {now : Nat} (e : Event)
    (h : PInv n st m lt now) (hnow : ∀ s c r1 r2, e = .tick s c r1 r2 → now ≤ s) :
    PInv n (propStep n st e).1 (drun .prop n m (propStep n st e).2) (ltAfter lt e) (nowAfter now e) := by
  have keep : ∀ (st' : HState) (now' : Nat), now ≤ now' →
      (st'.fetchFirst = false → st'.store = st.store ∧ st.fetchFirst = false) → PInv n st' m lt now' := by
    intro st' now' hle hst
    have hem := epoch_mono n hle
    refine ⟨h.ok, fun t ht => Nat.le_trans (h.ltnow t ht) hle, fun K A hA => by have := h.dueLe K A hA; omega, ?_⟩
    intro hff
    obtain ⟨hs, hf⟩ := hst hff
    by_cases heq : n.epoch now' = n.epoch now
    · rw [heq]; exact (h.cov hf).of_store_eq hs
    · apply Cov.of_none
      cases hd : m.due (n.epoch now') with
      | none => rfl
      | some A => have := h.dueLe _ A hd; omega
  cases e with
  | tick slot clock r1 r2 => exact propTick_pinv n slot clock r1 h (hnow slot clock r1 r2 rfl)
  | reorg slot prev cur =>
    simp only [propStep, propReorg, drun_nil, ltAfter, nowAfter]
    split
    · exact keep _ _ (Nat.le_max_left _ _) (fun hh => by cases hh)
    · exact keep _ _ (Nat.le_max_left _ _) (fun hh => ⟨rfl, hh⟩)
  | indices clock =>
    simp only [propStep, propIndices, drun_nil, ltAfter, nowAfter]
    exact keep _ _ (Nat.le_max_left _ _) (fun hh => ⟨rfl, hh⟩)

theorem prop_exactly_runFrom (n : Net) : ∀ (evs : List Event) (rs : RState) (m : DMon) (lt : Option Nat) (now : Nat),
    PInv n rs.st m lt now → envOK lt now evs = true → (drun .prop n m (runFrom .prop n rs evs)).ok = true := by
  intro evs
  induction evs with
  | nil => intro rs m lt now h _; exact h.ok
  | cons e es ih =>
    intro rs m lt now h henv
    have hnow := envOK_cons henv
    simp only [runFrom, drun_append, step]
    exact ih _ _ _ _ (propStep_pinv n e h (fun s c r1 r2 he => (hnow.1 s c r1 r2 he).1)) hnow.2

theorem prop_exactly_run (n : Net) (clock0 : Nat) (r0 : FetchRes) (evs : List Event)
    (henv : envOK none clock0 evs = true) : exactlyOnceOK .prop n (run .prop n clock0 r0 evs) = true := by
  unfold exactlyOnceOK run
  obtain ⟨okb, fp⟩ := propFetch_post n ⟨[], true, false, false, false⟩ DMon.init (n.epoch clock0) r0
  have h0 : PInv n (initH .prop n clock0 r0).1.st (drun .prop n DMon.init (initH .prop n clock0 r0).2) none clock0 := by
    simp only [initH, propInit]
    refine ⟨by rw [fp.okeq]; rfl, fun t ht => (nomatch ht), ?_, ?_⟩
    · intro K A hA
      rcases fp.keys K A hA with h1 | h1
      · exact Nat.le_of_eq h1
      · cases h1
    · intro hff
      rw [(propFetch_flags _ _ r0).1] at hff
      cases hff
  have := prop_exactly_runFrom n evs _ _ none clock0 h0 henv
  simpa [drun, List.foldl_append] using this

end Ssv.Duties
