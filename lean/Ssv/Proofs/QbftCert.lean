/-
Helper lemmas for C02: what the validation functions establish, and what an aggregate of the commit container carries.
Core Lean only.
-/
import Ssv.Model.Qbft.Run
set_option linter.unusedSimpArgs false

namespace Ssv.Qbft

/-! ### the validation monad -/

@[simp] theorem wrap_eq_ok {α : Type} (a : Atom) (x : V α) (u : α) : wrap a x = .ok u ↔ x = .ok u := by
  cases x with
  | ok v => simp [wrap]
  | error e => cases e <;> simp [wrap]

@[simp] theorem rejectIf_eq_ok (c : Bool) (a : Atom) (u : Unit) : rejectIf c a = .ok u ↔ c = false := by
  cases c <;> simp [rejectIf, fail, pure, Except.pure]

@[simp] theorem bind_eq_ok {α β : Type} (x : V α) (f : α → V β) (u : β) :
    (x >>= f) = .ok u ↔ ∃ v, x = .ok v ∧ f v = .ok u := by
  cases x with
  | ok v => simp [bind, Except.bind]
  | error e => simp [bind, Except.bind]

@[simp] theorem pure_eq_ok {α : Type} (a u : α) : (pure a : V α) = .ok u ↔ a = u := by
  simp [pure, Except.pure]

@[simp] theorem fail_ne_ok {α : Type} (a : Atom) (u : α) : (fail a : V α) ≠ .ok u := by
  simp [fail]

theorem validateSignersLoop_ok (seen l : List Nat) (u : Unit) (h : validateSignersLoop seen l = .ok u) :
    l.Nodup ∧ 0 ∉ l ∧ ∀ x ∈ l, x ∉ seen := by
  induction l generalizing seen with
  | nil => simp
  | cons s rest ih =>
    unfold validateSignersLoop at h
    split at h
    · simp at h
    · split at h
      · simp at h
      · rename_i h1 h2
        obtain ⟨hn, h0, hs⟩ := ih (s :: seen) h
        simp at h1 h2
        refine ⟨?_, ?_, ?_⟩
        · refine List.nodup_cons.2 ⟨?_, hn⟩
          intro hmem
          exact (hs s hmem) (List.mem_cons_self)
        · simp only [List.mem_cons, not_or]
          exact ⟨fun e => h2 e.symm, h0⟩
        · intro x hx
          rcases List.mem_cons.1 hx with rfl | hx
          · exact h1
          · intro hxs
            exact hs x hx (List.mem_cons_of_mem _ hxs)

theorem signedValidate_ok (b : Base) (u : Unit) (h : signedValidate b = .ok u) :
    b.signers ≠ [] ∧ b.signers.Nodup ∧ 0 ∉ b.signers ∧ b.ident ≠ 0 ∧ b.malformed = false ∧ b.type ≤ tRoundChange := by
  unfold signedValidate messageValidate at h
  simp at h
  obtain ⟨h1, ⟨x, h2⟩, h3, h4, h5⟩ := h
  obtain ⟨hn, h0, _⟩ := validateSignersLoop_ok [] b.signers x h2
  refine ⟨?_, hn, h0, h3, h4, by omega⟩
  intro e; simp [e] at h1

theorem verifySig_true (cfg : Cfg) (b : Base) (h : cfg.verifySig b = true) :
    b.sigOk = true ∧ ∀ s ∈ b.signers, s ∈ cfg.committee := by
  unfold Cfg.verifySig at h
  simp at h
  exact ⟨h.2, h.1⟩

/-- what `ValidateDecided` establishes -/
theorem validateDecided_ok (cfg : Cfg) (m : Msg) (u : Unit) (h : validateDecided cfg m = .ok u) :
    m.type = tCommit ∧ cfg.quorum ≤ m.signers.length ∧ m.signers.Nodup ∧ 0 ∉ m.signers ∧ m.sigOk = true ∧
    (∀ s ∈ m.signers, s ∈ cfg.committee) ∧ hashData m.fullData = m.root := by
  unfold validateDecided baseCommitValidation isDecidedMsg at h
  simp at h
  obtain ⟨⟨hq, ht⟩, ⟨x, hv⟩, ⟨_, _, hs⟩, _, hh⟩ := h
  obtain ⟨_, hn, h0, _⟩ := signedValidate_ok m.toBase x hv
  obtain ⟨hso, hc⟩ := verifySig_true cfg m.toBase hs
  exact ⟨ht, hq, hn, h0, hso, hc, hh⟩

/-! ### sorting keeps the signer set -/

theorem insertSorted_perm (a : Nat) (l : List Nat) : (insertSorted a l).Perm (a :: l) := by
  induction l with
  | nil => exact List.Perm.refl _
  | cons b l ih =>
    unfold insertSorted
    split
    · exact List.Perm.refl _
    · exact (List.Perm.cons b ih).trans (List.Perm.swap a b l)

theorem sortNat_perm (l : List Nat) : (sortNat l).Perm l := by
  induction l with
  | nil => exact List.Perm.refl _
  | cons a l ih =>
    unfold sortNat
    exact (insertSorted_perm a (sortNat l)).trans (List.Perm.cons a ih)

/-! ### `LongestUniqueSignersForRoundAndRoot` -/

theorem commonSigners_false {a b : List Nat} (h : commonSigners a b = false) : ∀ x ∈ a, x ∉ b := by
  unfold commonSigners at h
  simp at h
  intro x hx hb
  exact h x hx hb

/-- invariant of the greedy extension: the signer list is the concatenation of the chosen messages' signers, stays
    duplicate-free, and every chosen message comes from the input -/
theorem greedyDisjoint_spec (P : Msg → Prop) (acc : List Msg) (sg : List Nat) (l : List Msg)
    (hsg : sg = signersOf acc) (hnd : sg.Nodup) (hacc : ∀ m ∈ acc, P m) (hl : ∀ m ∈ l, P m ∧ m.signers.Nodup) :
    let r := greedyDisjoint acc sg l
    r.2 = signersOf r.1 ∧ r.2.Nodup ∧ ∀ m ∈ r.1, P m := by
  induction l generalizing acc sg with
  | nil => exact ⟨hsg, hnd, hacc⟩
  | cons m rest ih =>
    unfold greedyDisjoint
    have hrest : ∀ x ∈ rest, P x ∧ x.signers.Nodup := fun x hx => hl x (List.mem_cons_of_mem _ hx)
    split
    · exact ih acc sg hsg hnd hacc hrest
    · rename_i hc
      have hc' : commonSigners m.signers sg = false := by simpa using hc
      have hm := hl m (List.mem_cons_self)
      apply ih (acc ++ [m]) (sg ++ m.signers)
      · simp [signersOf, hsg]
      · refine List.nodup_append.2 ⟨hnd, hm.2, ?_⟩
        intro a ha b hb hab
        subst hab
        exact commonSigners_false hc' a hb ha
      · intro x hx
        rcases List.mem_append.1 hx with hx | hx
        · exact hacc x hx
        · simp at hx; subst hx; exact hm.1
      · exact hrest

theorem longestFrom_spec (P : Msg → Prop) (l : List Msg) (hl : ∀ m ∈ l, P m ∧ m.signers.Nodup) :
    let r := longestFrom l
    r.1 = signersOf r.2 ∧ r.1.Nodup ∧ ∀ m ∈ r.2, P m := by
  induction l with
  | nil => simp [longestFrom, signersOf]
  | cons m rest ih =>
    have hrest : ∀ x ∈ rest, P x ∧ x.signers.Nodup := fun x hx => hl x (List.mem_cons_of_mem _ hx)
    have hm := hl m (List.mem_cons_self)
    unfold longestFrom
    simp only
    split
    · exact ih hrest
    · have := greedyDisjoint_spec P [m] m.signers rest (by simp [signersOf]) hm.2
        (by intro x hx; simp at hx; subst hx; exact hm.1) hrest
      exact this

theorem longestUniqueSigners_spec (P : Msg → Prop) (c : Container) (round root : Nat) (hc : ∀ m ∈ c, P m ∧ m.signers.Nodup) :
    let r := longestUniqueSigners c round root
    r.1 = signersOf r.2 ∧ r.1.Nodup ∧ ∀ m ∈ r.2, P m ∧ m.round = round ∧ m.root = root := by
  unfold longestUniqueSigners
  apply longestFrom_spec (fun m => P m ∧ m.round = round ∧ m.root = root)
  intro m hm
  have hm1 := List.mem_filter.1 hm
  have hm2 := List.mem_filter.1 hm1.1
  have hr : m.round = round := by simpa using hm2.2
  have hroot : m.root = root := by simpa using hm1.2
  exact ⟨⟨(hc m hm2.1).1, hr, hroot⟩, (hc m hm2.1).2⟩

/-! ### `aggregateCommitMsgs` -/

theorem aggregateLoop_spec (ret : Msg) (rest : List Msg) (r : Msg) (h : aggregateLoop ret rest = .ok r) :
    r.signers = ret.signers ++ signersOf rest ∧ r.type = ret.type ∧ r.height = ret.height ∧ r.round = ret.round ∧
    r.root = ret.root ∧ r.ident = ret.ident ∧ (r.sigOk = true ↔ ret.sigOk = true ∧ ∀ m ∈ rest, m.sigOk = true) := by
  induction rest generalizing ret with
  | nil =>
    simp [aggregateLoop] at h
    subst h
    simp [signersOf]
  | cons m rest ih =>
    unfold aggregateLoop at h
    split at h
    · simp [fail] at h
    · split at h
      · simp [fail] at h
      · have := ih _ h
        simp only at this
        obtain ⟨h1, h2, h3, h4, h5, h6, h7⟩ := this
        refine ⟨?_, h2, h3, h4, h5, h6, ?_⟩
        · simp [h1, signersOf]
        · rw [h7]
          simp
          constructor
          · rintro ⟨⟨a, b⟩, c⟩; exact ⟨a, b, c⟩
          · rintro ⟨a, b, c⟩; exact ⟨⟨a, b⟩, c⟩

theorem aggregateCommitMsgs_spec (msgs : List Msg) (fd : Nat) (agg : Msg) (h : aggregateCommitMsgs msgs fd = .ok agg) :
    ∃ m rest, msgs = m :: rest ∧ agg.signers = sortNat (signersOf msgs) ∧ agg.type = m.type ∧ agg.height = m.height ∧
      agg.round = m.round ∧ agg.root = m.root ∧ agg.ident = m.ident ∧ agg.fullData = fd ∧
      (agg.sigOk = true ↔ ∀ x ∈ msgs, x.sigOk = true) := by
  cases msgs with
  | nil => simp [aggregateCommitMsgs] at h
  | cons m rest =>
    refine ⟨m, rest, rfl, ?_⟩
    unfold aggregateCommitMsgs at h
    simp only [bind_eq_ok, pure_eq_ok] at h
    obtain ⟨r, hr, hagg⟩ := h
    obtain ⟨h1, h2, h3, h4, h5, h6, h7⟩ := aggregateLoop_spec _ rest r hr
    subst hagg
    simp only at h1 h2 h3 h4 h5 h6 h7 ⊢
    refine ⟨?_, h2, h3, h4, h5, h6, trivial, ?_⟩
    · rw [h1]; simp [signersOf]
    · rw [h7]; simp

/-! ### certificates -/

/-- a verifiable quorum certificate for the controller's identifier -/
structure ValidCert (cfg : Cfg) (m : Msg) : Prop where
  isCommit : m.type = tCommit
  sigOk : m.sigOk = true
  nodup : m.signers.Nodup
  nozero : 0 ∉ m.signers
  committee : ∀ s ∈ m.signers, s ∈ cfg.committee
  quorum : cfg.quorum ≤ m.signers.length
  hash : hashData m.fullData = m.root
  ident : m.ident = cfg.ident

theorem validCert_of_validateDecided (cfg : Cfg) (m : Msg) (h : validateDecided cfg m = .ok ()) (hi : m.ident = cfg.ident) :
    ValidCert cfg m := by
  obtain ⟨h1, h2, h3, h4, h5, h6, h7⟩ := validateDecided_ok cfg m () h
  exact ⟨h1, h5, h3, h4, h6, h2, h7, hi⟩

/-- a rejected decided message changes nothing and emits nothing -/
theorem uponDecided_rejected (cfg : Cfg) (c : Ctrl) (m : Msg) (h : validateDecided cfg m ≠ .ok ()) :
    (uponDecided cfg c m).ct = c ∧ (uponDecided cfg c m).outs = [] ∧ ∀ d, (uponDecided cfg c m).res ≠ .ok d := by
  unfold uponDecided
  cases hv : validateDecided cfg m with
  | ok u => exact absurd hv h
  | error e => cases e <;> simp [wrap]

theorem decidedSaveOuts_mem (c1 : Ctrl) (save : Bool) (m : Msg) (o : Out) (h : o ∈ decidedSaveOuts c1 save m) : o = .save m := by
  unfold decidedSaveOuts saveOuts at h
  split at h
  · split at h <;> simp at h
    exact h
  · simp at h

/-- an accepted decided message: every output and the returned message are the (validated) message itself -/
theorem uponDecided_accepted (cfg : Cfg) (c : Ctrl) (m : Msg) (h : validateDecided cfg m = .ok ()) :
    (∀ d, (uponDecided cfg c m).res = .ok (some d) → d = m) ∧
    (∀ o ∈ (uponDecided cfg c m).outs, o = .save m ∨ o = .notify m) := by
  unfold uponDecided
  simp only [h, wrap]
  constructor
  · intro d hd
    split at hd <;> simp at hd
    · exact hd.2.symm
    · exact hd.symm
  · intro o ho
    rcases List.mem_append.1 ho with ho | ho
    · left; exact decidedSaveOuts_mem _ _ _ _ ho
    · right; simpa using ho

/-! ### frames of the `upon…` functions -/

/-- the step reports no aggregate (only a commit quorum does) -/
def NoAgg (st : Step) : Prop := ∀ d v a, st.res ≠ .ok d v (some a)

theorem okStep_noAgg (s : State) (o : List Out) : NoAgg (okStep s o) := by intro d v a; simp [okStep]
theorem failStep_noAgg (s : State) (o : List Out) (f : Fail) : NoAgg (failStep s o f) := by
  intro d v a; cases f <;> simp [failStep]
theorem sendOr_st (cfg : Cfg) (s : State) (a : Atom) (m : Msg) (pre : List Out) : (sendOr cfg s a m pre).st = s := by
  unfold sendOr; split <;> (try rfl)
  rename_i f _; cases f <;> rfl
theorem sendOr_noAgg (cfg : Cfg) (s : State) (a : Atom) (m : Msg) (pre : List Out) : NoAgg (sendOr cfg s a m pre) := by
  unfold sendOr; split
  · exact okStep_noAgg _ _
  · exact failStep_noAgg _ _ _
theorem okStep_st (s : State) (o : List Out) : (okStep s o).st = s := rfl
theorem failStep_st (s : State) (o : List Out) (f : Fail) : (failStep s o f).st = s := by cases f <;> rfl

theorem uponPrepare_frame (cfg : Cfg) (s : State) (m : Msg) :
    (uponPrepare cfg s m).st.commit = s.commit ∧ (uponPrepare cfg s m).st.accepted = s.accepted ∧
    (uponPrepare cfg s m).st.decided = s.decided ∧ (uponPrepare cfg s m).st.height = s.height ∧
    (uponPrepare cfg s m).st.round = s.round ∧ NoAgg (uponPrepare cfg s m) := by
  unfold uponPrepare
  simp only
  split
  · exact ⟨rfl, rfl, rfl, rfl, rfl, okStep_noAgg _ _⟩
  · split
    · exact ⟨rfl, rfl, rfl, rfl, rfl, okStep_noAgg _ _⟩
    · split
      · exact ⟨rfl, rfl, rfl, rfl, rfl, okStep_noAgg _ _⟩
      · split
        · refine ⟨rfl, rfl, rfl, rfl, rfl, ?_⟩
          intro d v a; simp
        · simp [sendOr_st, failStep_st, okStep_st, sendOr_noAgg, failStep_noAgg, okStep_noAgg]

theorem uponProposal_frame (cfg : Cfg) (s : State) (m : Msg) :
    (uponProposal cfg s m).st.commit = s.commit ∧ (uponProposal cfg s m).st.decided = s.decided ∧
    (uponProposal cfg s m).st.height = s.height ∧ NoAgg (uponProposal cfg s m) ∧
    (((uponProposal cfg s m).st.accepted = s.accepted ∧ (uponProposal cfg s m).st.round = s.round) ∨
     ((uponProposal cfg s m).st.accepted = some m ∧ (uponProposal cfg s m).st.round = m.round)) := by
  unfold uponProposal
  simp only
  split
  · exact ⟨rfl, rfl, rfl, okStep_noAgg _ _, Or.inl ⟨rfl, rfl⟩⟩
  · simp [sendOr_st, failStep_st, okStep_st, sendOr_noAgg, failStep_noAgg, okStep_noAgg]

theorem uponChangeRoundPartialQuorum_frame (cfg : Cfg) (s : State) (r : Nat) :
    (uponChangeRoundPartialQuorum cfg s r).st.commit = s.commit ∧ (uponChangeRoundPartialQuorum cfg s r).st.decided = s.decided ∧
    (uponChangeRoundPartialQuorum cfg s r).st.height = s.height ∧ NoAgg (uponChangeRoundPartialQuorum cfg s r) ∧
    (uponChangeRoundPartialQuorum cfg s r).st.accepted = none := by
  unfold uponChangeRoundPartialQuorum
  simp [sendOr_st, failStep_st, okStep_st, sendOr_noAgg, failStep_noAgg, okStep_noAgg]

theorem uponRoundChange_frame (cfg : Cfg) (s : State) (m : Msg) :
    (uponRoundChange cfg s m).st.commit = s.commit ∧ (uponRoundChange cfg s m).st.decided = s.decided ∧
    (uponRoundChange cfg s m).st.height = s.height ∧ NoAgg (uponRoundChange cfg s m) ∧
    (((uponRoundChange cfg s m).st.accepted = s.accepted ∧ (uponRoundChange cfg s m).st.round = s.round) ∨
     (uponRoundChange cfg s m).st.accepted = none) := by
  unfold uponRoundChange
  simp only
  split
  · exact ⟨rfl, rfl, rfl, okStep_noAgg _ _, Or.inl ⟨rfl, rfl⟩⟩
  · split
    · exact ⟨rfl, rfl, rfl, okStep_noAgg _ _, Or.inl ⟨rfl, rfl⟩⟩
    · split
      · simp [sendOr_st, failStep_st, okStep_st, sendOr_noAgg, failStep_noAgg, okStep_noAgg]
      · simp [sendOr_st, failStep_st, okStep_st, sendOr_noAgg, failStep_noAgg, okStep_noAgg]
      · split
        · split
          · exact ⟨rfl, rfl, rfl, okStep_noAgg _ _, Or.inl ⟨rfl, rfl⟩⟩
          · obtain ⟨h1, h2, h3, h4, h5⟩ := uponChangeRoundPartialQuorum_frame cfg { s with roundChange := (addFirst s.roundChange m).1 } (minRound (List.filter (fun x => Nat.blt s.round x.round) (addFirst s.roundChange m).1))
            exact ⟨h1, h2, h3, h4, Or.inr h5⟩
        · exact ⟨rfl, rfl, rfl, okStep_noAgg _ _, Or.inl ⟨rfl, rfl⟩⟩

/-! ### instance invariants -/

/-- what the instance / controller has checked of every message in a commit container -/
structure GoodCommit (cfg : Cfg) (m : Msg) : Prop where
  isCommit : m.type = tCommit
  sigOk : m.sigOk = true
  committee : ∀ s ∈ m.signers, s ∈ cfg.committee
  nodup : m.signers.Nodup
  nozero : 0 ∉ m.signers
  ident : m.ident = cfg.ident

/-- what `isValidProposal` has checked of the accepted proposal -/
structure GoodProposal (cfg : Cfg) (height : Nat) (p : Msg) : Prop where
  hash : hashData p.fullData = p.root
  value : cfg.valOk p.fullData = true
  leader : ∃ l, cfg.proposer height p.round = some l ∧ p.signers = [l]

structure InstInv (cfg : Cfg) (s : State) : Prop where
  commits : ∀ m ∈ s.commit, GoodCommit cfg m ∧ m.height = s.height
  accepted : ∀ p, s.accepted = some p → GoodProposal cfg s.height p ∧ (s.decided = false → p.round = s.round)

theorem isProposalJustification_value (cfg : Cfg) (sh : Nat) (rcs : List Lvl1) (ps : List Base) (h r fd : Nat) (u : Unit)
    (hj : isProposalJustification cfg sh rcs ps h r fd = .ok u) : cfg.valOk fd = true := by
  unfold isProposalJustification at hj
  simp only [bind_eq_ok, rejectIf_eq_ok] at hj
  obtain ⟨_, h1, _⟩ := hj
  simpa using h1

theorem matchedSigners_singleton (l : List Nat) (x : Nat) (h : matchedSigners l [x] = true) : l = [x] := by
  unfold matchedSigners at h
  simp at h
  obtain ⟨hl, hall⟩ := h
  match l, hl, hall with
  | [a], _, hall => simp at hall; rw [hall]

theorem isValidProposal_ok (cfg : Cfg) (s : State) (m : Msg) (u : Unit) (h : isValidProposal cfg s m = .ok u) :
    GoodProposal cfg s.height m := by
  unfold isValidProposal at h
  simp only [bind_eq_ok, rejectIf_eq_ok] at h
  obtain ⟨_, _, _, _, _, _, _, _, h5⟩ := h
  split at h5
  · simp at h5
  · rename_i leader hl
    simp only [bind_eq_ok, rejectIf_eq_ok, wrap_eq_ok] at h5
    obtain ⟨_, h6, _, _, _, h8, _, h9, _⟩ := h5
    refine ⟨by simpa using h8, isProposalJustification_value _ _ _ _ _ _ _ _ h9, leader, hl, ?_⟩
    exact matchedSigners_singleton _ _ (by simpa using h6)

/-- what `validateCommit` establishes of a single commit against the accepted proposal -/
theorem validateCommit_ok (cfg : Cfg) (m : Base) (height round : Nat) (p : Msg) (u : Unit)
    (h : validateCommit cfg m height round p = .ok u) :
    m.type = tCommit ∧ m.sigOk = true ∧ (∀ s ∈ m.signers, s ∈ cfg.committee) ∧ m.signers.Nodup ∧ 0 ∉ m.signers ∧
    m.round = round ∧ p.root = m.root ∧ m.height = height ∧ m.signers.length = 1 := by
  unfold validateCommit baseCommitValidation at h
  simp at h
  obtain ⟨ht, hh, ⟨x, hv⟩, hs, hone, hr, hroot⟩ := h
  obtain ⟨_, hn, h0, _⟩ := signedValidate_ok m x hv
  obtain ⟨hso, hc⟩ := verifySig_true cfg m hs
  exact ⟨ht, hso, hc, hn, h0, hr, hroot, hh, hone⟩

/-- the validation result of `ProcessMsg`, by message type -/
theorem baseMsgValidation_commit (cfg : Cfg) (s : State) (m : Msg) (u : Unit) (ht : m.type = tCommit)
    (h : baseMsgValidation cfg s m = .ok u) :
    ∃ p, s.accepted = some p ∧ validateCommit cfg m.toBase s.height s.round p = .ok () := by
  unfold baseMsgValidation at h
  simp only [bind_eq_ok, rejectIf_eq_ok, wrap_eq_ok] at h
  obtain ⟨_, _, _, _, h3⟩ := h
  have e0 : (m.type == tProposal) = false := by rw [ht]; decide
  have e1 : (m.type == tPrepare) = false := by rw [ht]; decide
  have e2 : (m.type == tCommit) = true := by rw [ht]; decide
  simp only [e0, e1, e2, if_true, Bool.false_eq_true, if_false] at h3
  split at h3
  · simp at h3
  · rename_i p hp; exact ⟨p, hp, h3⟩

theorem baseMsgValidation_proposal (cfg : Cfg) (s : State) (m : Msg) (u : Unit) (ht : m.type = tProposal)
    (h : baseMsgValidation cfg s m = .ok u) : isValidProposal cfg s m = .ok () := by
  unfold baseMsgValidation at h
  simp only [bind_eq_ok, rejectIf_eq_ok, wrap_eq_ok] at h
  obtain ⟨_, _, _, _, h3⟩ := h
  have e0 : (m.type == tProposal) = true := by rw [ht]; decide
  simp only [e0, if_true] at h3
  exact h3


theorem addFirst_mem (c : Container) (m x : Msg) (h : x ∈ (addFirst c m).1) : x ∈ c ∨ x = m := by
  unfold addFirst at h
  split at h
  · exact Or.inl h
  · simp at h; exact h

/-- what a local decision (aggregate returned by `ProcessMsg`) carries -/
structure LocalDecision (cfg : Cfg) (s : State) (agg : Msg) : Prop where
  cert : ValidCert cfg agg
  height : agg.height = s.height
  proposal : ∃ p, s.accepted = some p ∧ agg.fullData = p.fullData ∧ agg.root = p.root ∧ GoodProposal cfg s.height p ∧
    (s.decided = false → p.round = agg.round)

theorem uponCommit_inv (cfg : Cfg) (s : State) (m : Msg) (p : Msg) (hinv : InstInv cfg s) (hacc : s.accepted = some p)
    (hv : validateCommit cfg m.toBase s.height s.round p = .ok ()) (hid : m.ident = cfg.ident) :
    InstInv cfg (uponCommit cfg s m).st ∧ (uponCommit cfg s m).st.height = s.height ∧
    ∀ d v agg, (uponCommit cfg s m).res = .ok d v (some agg) → LocalDecision cfg s agg := by
  obtain ⟨ht, hso, hc, hn, h0, hr, hroot, hh, _⟩ := validateCommit_ok cfg m.toBase s.height s.round p () hv
  have hgm : GoodCommit cfg m := ⟨ht, hso, hc, hn, h0, hid⟩
  have hcont : ∀ x ∈ (addFirst s.commit m).1, GoodCommit cfg x ∧ x.height = s.height := by
    intro x hx
    rcases addFirst_mem _ _ _ hx with hx | hx
    · exact hinv.commits x hx
    · subst hx; exact ⟨hgm, hh⟩
  unfold uponCommit
  simp only [hacc]
  split
  · exact ⟨hinv, rfl, by intro d v agg h; simp [okStep] at h⟩
  · have hS1 : InstInv cfg { s with commit := (addFirst s.commit m).1, accepted := some p } :=
      ⟨hcont, by intro q hq; simp at hq; subst hq; exact hinv.accepted p hacc⟩
    have hspec := longestUniqueSigners_spec (fun x => GoodCommit cfg x ∧ x.height = s.height) (addFirst s.commit m).1 m.round m.root
      (fun x hx => ⟨hcont x hx, (hcont x hx).1.nodup⟩)
    rcases hl : longestUniqueSigners (addFirst s.commit m).1 m.round m.root with ⟨signers, msgs⟩
    rw [hl] at hspec
    simp only at hspec ⊢
    obtain ⟨hsg, hnd, hms⟩ := hspec
    split
    · exact ⟨hS1, rfl, by intro d v agg h; simp [okStep] at h⟩
    · rename_i hq
      cases hagg : wrap Atom.aggregateFailed (aggregateCommitMsgs msgs p.fullData) with
      | error f =>
        simp only
        refine ⟨by rw [failStep_st]; exact hS1, by rw [failStep_st], ?_⟩
        intro d v agg h
        exact absurd h (failStep_noAgg _ _ _ d v agg)
      | ok agg =>
        simp only
        refine ⟨⟨hcont, ?_⟩, trivial, ?_⟩
        · intro q hq'
          simp at hq'
          subst hq'
          exact ⟨(hinv.accepted p hacc).1, by intro hd; simp at hd⟩
        · intro d v a h
          simp at h
          obtain ⟨_, _, rfl⟩ := h
          have hagg' : aggregateCommitMsgs msgs p.fullData = .ok agg := by simpa using hagg
          obtain ⟨m0, rest, hmsgs, hs, hty, hhe, hro, hroo, hidn, hfd, hsig⟩ := aggregateCommitMsgs_spec msgs p.fullData agg hagg'
          have hm0 : m0 ∈ msgs := by rw [hmsgs]; exact List.mem_cons_self
          have hperm : agg.signers.Perm signers := by rw [hs, ← hsg]; exact sortNat_perm _
          have hgp := (hinv.accepted p hacc)
          refine ⟨⟨?_, ?_, ?_, ?_, ?_, ?_, ?_, ?_⟩, ?_, p, hacc, hfd, ?_, hgp.1, ?_⟩
          · rw [hty]; exact (hms m0 hm0).1.1.isCommit
          · exact hsig.2 (fun x hx => (hms x hx).1.1.sigOk)
          · exact hperm.nodup_iff.2 hnd
          · intro h0'
            have : 0 ∈ signers := hperm.mem_iff.1 h0'
            rw [hsg] at this
            simp [signersOf] at this
            obtain ⟨x, hx, hx0⟩ := this
            exact (hms x hx).1.1.nozero hx0
          · intro x hx
            have : x ∈ signers := hperm.mem_iff.1 hx
            rw [hsg] at this
            simp [signersOf] at this
            obtain ⟨y, hy, hxy⟩ := this
            exact (hms y hy).1.1.committee x hxy
          · rw [hperm.length_eq]; simpa using hq
          · rw [hfd, hroo, (hms m0 hm0).2.2, ← hroot]; exact hgp.1.hash
          · rw [hidn]; exact (hms m0 hm0).1.1.ident
          · rw [hhe]; exact (hms m0 hm0).1.2
          · rw [hroo, (hms m0 hm0).2.2, hroot]
          · intro hd
            rw [hro, (hms m0 hm0).2.1, hr]
            exact hgp.2 hd

theorem type_cases (m : Msg) (h : m.type ≤ tRoundChange) :
    m.type = tProposal ∨ m.type = tPrepare ∨ m.type = tCommit ∨ m.type = tRoundChange := by
  have : m.type ≤ 3 := h
  have e0 : tProposal = 0 := rfl
  have e1 : tPrepare = 1 := rfl
  have e2 : tCommit = 2 := rfl
  have e3 : tRoundChange = 3 := rfl
  omega

/-- `ProcessMsg` keeps the instance invariant, and an aggregate it returns is a valid certificate for the accepted proposal -/
theorem processMsg_inv (cfg : Cfg) (s : State) (m : Msg) (hinv : InstInv cfg s) (hid : m.ident = cfg.ident) :
    InstInv cfg (processMsg cfg s m).st ∧ (processMsg cfg s m).st.height = s.height ∧
    ∀ d v agg, (processMsg cfg s m).res = .ok d v (some agg) → LocalDecision cfg s agg := by
  unfold processMsg
  split
  · exact ⟨hinv, rfl, by intro d v a h; simp at h⟩
  · cases hval : wrap Atom.invalidSigned (baseMsgValidation cfg s m) with
    | error f =>
      simp only
      exact ⟨by rw [failStep_st]; exact hinv, by rw [failStep_st], fun d v a h => absurd h (failStep_noAgg _ _ _ d v a)⟩
    | ok u =>
      have hbv : baseMsgValidation cfg s m = .ok u := by simpa using hval
      simp only
      by_cases h0 : m.type = tProposal
      · have e0 : (m.type == tProposal) = true := by rw [h0]; decide
        simp only [e0, if_true]
        have hgp := isValidProposal_ok cfg s m () (baseMsgValidation_proposal cfg s m u h0 hbv)
        obtain ⟨f1, f2, f3, f4, f5⟩ := uponProposal_frame cfg s m
        refine ⟨⟨?_, ?_⟩, f3, fun d v a h => absurd h (f4 d v a)⟩
        · rw [f1, f3]; exact hinv.commits
        · intro q hq
          rw [f3, f2]
          rcases f5 with ⟨fa, fr⟩ | ⟨fa, fr⟩
          · rw [fa] at hq; rw [fr]; exact hinv.accepted q hq
          · rw [fa] at hq; simp at hq; subst hq
            exact ⟨hgp, fun _ => fr.symm⟩
      · have e0 : (m.type == tProposal) = false := by simpa using h0
        simp only [e0, Bool.false_eq_true, if_false]
        by_cases h1 : m.type = tPrepare
        · have e1 : (m.type == tPrepare) = true := by rw [h1]; decide
          simp only [e1, if_true]
          obtain ⟨f1, f2, f3, f4, f5, f6⟩ := uponPrepare_frame cfg s m
          refine ⟨⟨?_, ?_⟩, f4, fun d v a h => absurd h (f6 d v a)⟩
          · rw [f1, f4]; exact hinv.commits
          · intro q hq; rw [f2] at hq; rw [f4, f3, f5]; exact hinv.accepted q hq
        · have e1 : (m.type == tPrepare) = false := by simpa using h1
          simp only [e1, Bool.false_eq_true, if_false]
          by_cases h2 : m.type = tCommit
          · have e2 : (m.type == tCommit) = true := by rw [h2]; decide
            simp only [e2, if_true]
            obtain ⟨p, hacc, hvc⟩ := baseMsgValidation_commit cfg s m u h2 hbv
            exact uponCommit_inv cfg s m p hinv hacc hvc hid
          · have e2 : (m.type == tCommit) = false := by simpa using h2
            simp only [e2, Bool.false_eq_true, if_false]
            split
            · obtain ⟨f1, f2, f3, f4, f5⟩ := uponRoundChange_frame cfg s m
              refine ⟨⟨?_, ?_⟩, f3, fun d v a h => absurd h (f4 d v a)⟩
              · rw [f1, f3]; exact hinv.commits
              · intro q hq
                rcases f5 with ⟨fa, fr⟩ | fa
                · rw [fa] at hq; rw [f3, f2, fr]; exact hinv.accepted q hq
                · rw [fa] at hq; simp at hq
            · exact ⟨hinv, rfl, by intro d v a h; simp at h⟩

/-- a timeout keeps the invariant (it only clears the accepted proposal and bumps the round) -/
theorem uponRoundTimeout_inv (cfg : Cfg) (s : State) (hinv : InstInv cfg s) :
    InstInv cfg (uponRoundTimeout cfg s).st ∧ (uponRoundTimeout cfg s).st.height = s.height := by
  unfold uponRoundTimeout
  split
  · exact ⟨hinv, rfl⟩
  · simp only
    have hS : InstInv cfg { s with round := s.round + 1, accepted := none } := ⟨hinv.commits, by intro q hq; simp at hq⟩
    split
    · exact ⟨hS, rfl⟩
    · rw [failStep_st]; exact ⟨hS, rfl⟩

/-- compaction keeps the invariant (it only removes messages) -/
theorem compact_inv (cfg : Cfg) (s : State) (hinv : InstInv cfg s) : InstInv cfg (compact s) ∧ (compact s).height = s.height := by
  refine ⟨⟨?_, hinv.accepted⟩, rfl⟩
  intro m hm
  have : m ∈ s.commit := by
    simp only [compact, compactWith, compactContainerEdit] at hm
    split at hm
    · exact hm
    · simp at hm; exact hm.1
  exact hinv.commits m this

/-! ### controller level -/

def CtrlInv (cfg : Cfg) (c : Ctrl) : Prop := ∀ i ∈ c.insts, InstInv cfg i

/-- every decision a controller step reports — returned decided message, decided broadcast, stored instance, decided
    notification — is a valid certificate -/
def StepCerts (cfg : Cfg) (st : CStep) : Prop :=
  (∀ d, st.res = .ok (some d) → ValidCert cfg d) ∧
  ∀ o ∈ st.outs, ∀ d, (o = .bcastDecided d ∨ o = .save d ∨ o = .notify d) → ValidCert cfg d

theorem findInstance_some {l : List State} {h : Nat} {i : State} (hf : findInstance l h = some i) : i ∈ l ∧ i.height = h := by
  unfold findInstance at hf
  have := List.find?_some hf
  exact ⟨List.mem_of_find?_eq_some hf, by simpa using this⟩

theorem updateInstance_mem (l : List State) (i x : State) (h : x ∈ updateInstance l i) : x ∈ l ∨ x = i := by
  induction l with
  | nil => simp [updateInstance] at h
  | cons e rest ih =>
    unfold updateInstance at h
    split at h
    · rcases List.mem_cons.1 h with h | h
      · exact Or.inr h
      · exact Or.inl (List.mem_cons_of_mem _ h)
    · rcases List.mem_cons.1 h with h | h
      · exact Or.inl (h ▸ List.mem_cons_self)
      · rcases ih h with h | h
        · exact Or.inl (List.mem_cons_of_mem _ h)
        · exact Or.inr h

theorem insertByHeight_mem (i : State) (l : List State) (x : State) (h : x ∈ insertByHeight i l) : x ∈ l ∨ x = i := by
  induction l with
  | nil => simp [insertByHeight] at h; exact Or.inr h
  | cons e rest ih =>
    unfold insertByHeight at h
    split at h
    · rcases List.mem_cons.1 h with h | h
      · exact Or.inr h
      · exact Or.inl h
    · rcases List.mem_cons.1 h with h | h
      · exact Or.inl (h ▸ List.mem_cons_self)
      · rcases ih h with h | h
        · exact Or.inl (List.mem_cons_of_mem _ h)
        · exact Or.inr h

theorem addNewInstance_mem (cap : Nat) (l : List State) (i x : State) (h : x ∈ addNewInstance cap l i) : x ∈ l ∨ x = i :=
  insertByHeight_mem i l x (List.mem_of_mem_take h)

theorem ctrlInv_update (cfg : Cfg) (c : Ctrl) (i : State) (hc : CtrlInv cfg c) (hi : InstInv cfg i) :
    CtrlInv cfg { c with insts := updateInstance c.insts i } := by
  intro x hx
  rcases updateInstance_mem _ _ _ hx with hx | hx
  · exact hc x hx
  · subst hx; exact hi

theorem goodCommit_of_decided (cfg : Cfg) (m : Msg) (hv : validateDecided cfg m = .ok ()) (hid : m.ident = cfg.ident) :
    GoodCommit cfg m := by
  obtain ⟨h1, _, h3, h4, h5, h6, _⟩ := validateDecided_ok cfg m () hv
  exact ⟨h1, h5, h6, h3, h4, hid⟩

theorem decidedUpdate_inv (cfg : Cfg) (c : Ctrl) (m : Msg) (hc : CtrlInv cfg c) (hv : validateDecided cfg m = .ok ())
    (hid : m.ident = cfg.ident) : ∀ i ∈ (decidedUpdate cfg c m).1, InstInv cfg i := by
  have hg := goodCommit_of_decided cfg m hv hid
  unfold decidedUpdate
  split
  · intro x hx
    rcases addNewInstance_mem _ _ _ _ hx with hx | hx
    · exact hc x hx
    · subst hx
      refine ⟨?_, by intro q hq; simp [newInstance] at hq⟩
      intro y hy
      simp [addMsg, newInstance] at hy
      subst hy
      exact ⟨hg, rfl⟩
  · rename_i i hf
    obtain ⟨hmem, hh⟩ := findInstance_some hf
    have hi := hc i hmem
    have hcm : ∀ y ∈ addMsg i.commit m, GoodCommit cfg y ∧ y.height = i.height := by
      intro y hy
      simp [addMsg] at hy
      rcases hy with hy | hy
      · exact hi.commits y hy
      · subst hy; exact ⟨hg, hh.symm⟩
    split
    · intro x hx
      rcases updateInstance_mem _ _ _ hx with hx | hx
      · exact hc x hx
      · subst hx
        exact ⟨hcm, fun q hq => ⟨(hi.accepted q hq).1, by intro hd; simp at hd⟩⟩
    · simp only
      split
      · intro x hx
        rcases updateInstance_mem _ _ _ hx with hx | hx
        · exact hc x hx
        · subst hx
          exact ⟨hcm, hi.accepted⟩
      · exact hc

theorem uponDecided_inv (cfg : Cfg) (c : Ctrl) (m : Msg) (hc : CtrlInv cfg c) (hid : m.ident = cfg.ident) :
    CtrlInv cfg (uponDecided cfg c m).ct ∧ StepCerts cfg (uponDecided cfg c m) := by
  by_cases hv : validateDecided cfg m = .ok ()
  · have hcert := validCert_of_validateDecided cfg m hv hid
    obtain ⟨hres, houts⟩ := uponDecided_accepted cfg c m hv
    refine ⟨?_, ⟨fun d hd => (hres d hd) ▸ hcert, ?_⟩⟩
    · have hu := decidedUpdate_inv cfg c m hc hv hid
      unfold uponDecided
      simp only [hv, wrap]
      split <;> exact hu
    · intro o ho d hd
      rcases houts o ho with h | h <;> subst h <;> rcases hd with hd | hd | hd <;> simp at hd <;> exact hd ▸ hcert
  · obtain ⟨h1, h2, h3⟩ := uponDecided_rejected cfg c m hv
    refine ⟨by rw [h1]; exact hc, ⟨fun d hd => absurd hd (h3 _), ?_⟩⟩
    rw [h2]; intro o ho; simp at ho

/-- outputs an instance can produce: its own broadcasts and timer calls -/
def InstOut (o : Out) : Prop := (∃ m, o = .bcast m) ∨ (∃ h r, o = .timer h r)
def OutsInst (l : List Out) : Prop := ∀ o ∈ l, InstOut o

theorem outsInst_nil : OutsInst [] := by intro o ho; simp at ho
theorem outsInst_append {a b : List Out} (ha : OutsInst a) (hb : OutsInst b) : OutsInst (a ++ b) := by
  intro o ho; rcases List.mem_append.1 ho with h | h
  · exact ha o h
  · exact hb o h
theorem outsInst_timer (h r : Nat) : OutsInst [.timer h r] := by
  intro o ho; simp at ho; exact Or.inr ⟨h, r, ho⟩
theorem outsInst_okStep (s : State) (o : List Out) (h : OutsInst o) : OutsInst (okStep s o).outs := h
theorem outsInst_failStep (s : State) (o : List Out) (f : Fail) (h : OutsInst o) : OutsInst (failStep s o f).outs := by
  cases f <;> exact h

theorem broadcast_outs (cfg : Cfg) (s : State) (m : Msg) (o : List Out) (h : broadcast cfg s m = .ok o) : OutsInst o := by
  unfold broadcast at h
  split at h
  · simp at h; subst h; intro x hx; simp at hx; exact Or.inl ⟨m, hx⟩
  · simp at h

theorem outsInst_sendOr (cfg : Cfg) (s : State) (a : Atom) (m : Msg) (pre : List Out) (h : OutsInst pre) :
    OutsInst (sendOr cfg s a m pre).outs := by
  unfold sendOr
  split
  · rename_i o ho
    exact outsInst_append h (broadcast_outs cfg s m o (by simpa using ho))
  · exact outsInst_failStep _ _ _ h

theorem outsInst_uponProposal (cfg : Cfg) (s : State) (m : Msg) : OutsInst (uponProposal cfg s m).outs := by
  unfold uponProposal
  simp only
  split
  · exact outsInst_nil
  · apply outsInst_sendOr
    split
    · exact outsInst_timer _ _
    · exact outsInst_nil

theorem outsInst_uponPrepare (cfg : Cfg) (s : State) (m : Msg) : OutsInst (uponPrepare cfg s m).outs := by
  unfold uponPrepare
  simp only
  repeat' split
  all_goals first | exact outsInst_nil | exact outsInst_sendOr _ _ _ _ _ outsInst_nil

theorem outsInst_uponCommit (cfg : Cfg) (s : State) (m : Msg) : OutsInst (uponCommit cfg s m).outs := by
  unfold uponCommit
  simp only
  repeat' split
  all_goals first | exact outsInst_nil | exact outsInst_failStep _ _ _ outsInst_nil

theorem outsInst_partialQuorum (cfg : Cfg) (s : State) (r : Nat) : OutsInst (uponChangeRoundPartialQuorum cfg s r).outs := by
  unfold uponChangeRoundPartialQuorum
  exact outsInst_sendOr _ _ _ _ _ (outsInst_timer _ _)

theorem outsInst_uponRoundChange (cfg : Cfg) (s : State) (m : Msg) : OutsInst (uponRoundChange cfg s m).outs := by
  unfold uponRoundChange
  simp only
  repeat' split
  all_goals first | exact outsInst_nil | exact outsInst_failStep _ _ _ outsInst_nil | exact outsInst_sendOr _ _ _ _ _ outsInst_nil | exact outsInst_partialQuorum _ _ _

theorem outsInst_processMsg (cfg : Cfg) (s : State) (m : Msg) : OutsInst (processMsg cfg s m).outs := by
  unfold processMsg
  split
  · exact outsInst_nil
  · split
    · exact outsInst_failStep _ _ _ outsInst_nil
    · repeat' split
      all_goals first | exact outsInst_nil | exact outsInst_uponProposal _ _ _ | exact outsInst_uponPrepare _ _ _ | exact outsInst_uponCommit _ _ _ | exact outsInst_uponRoundChange _ _ _

theorem outsInst_uponRoundTimeout (cfg : Cfg) (s : State) : OutsInst (uponRoundTimeout cfg s).outs := by
  unfold uponRoundTimeout
  split
  · exact outsInst_nil
  · simp only
    split
    · rename_i o ho
      exact outsInst_append (broadcast_outs cfg s _ o (by simpa using ho)) (outsInst_timer _ _)
    · exact outsInst_failStep _ _ _ (outsInst_timer _ _)

theorem outsInst_start (cfg : Cfg) (s : State) (v h : Nat) : OutsInst (start cfg s v h).outs := by
  unfold start
  split
  · exact outsInst_nil
  · simp only
    split
    · exact outsInst_timer _ _
    · split
      · split
        · rename_i o ho
          exact outsInst_append (outsInst_timer _ _) (broadcast_outs cfg _ _ o ho)
        · exact outsInst_timer _ _
      · exact outsInst_timer _ _

theorem instOut_not_decision (o : Out) (h : InstOut o) (d : Msg) : ¬ (o = .bcastDecided d ∨ o = .save d ∨ o = .notify d) := by
  rcases h with ⟨m, rfl⟩ | ⟨a, b, rfl⟩ <;> simp

theorem uponExistingInstanceMsg_inv (cfg : Cfg) (c : Ctrl) (m : Msg) (hc : CtrlInv cfg c) (hid : m.ident = cfg.ident) :
    CtrlInv cfg (uponExistingInstanceMsg cfg c m).ct ∧ StepCerts cfg (uponExistingInstanceMsg cfg c m) := by
  unfold uponExistingInstanceMsg
  split
  · exact ⟨hc, by intro d h; simp at h, by intro o ho; simp at ho⟩
  · rename_i inst hf
    obtain ⟨hmem, _⟩ := findInstance_some hf
    obtain ⟨hinv, _, hdec⟩ := processMsg_inv cfg inst m (hc inst hmem) hid
    have hc1 := ctrlInv_update cfg c (processMsg cfg inst m).st hc hinv
    -- outputs of the instance never are controller-level decision outputs
    have houts : ∀ o ∈ (processMsg cfg inst m).outs, ∀ d, ¬ (o = .bcastDecided d ∨ o = .save d ∨ o = .notify d) := by
      intro o ho d
      exact instOut_not_decision o (outsInst_processMsg cfg inst m o ho) d
    simp only
    split
    · exact ⟨hc1, by intro d h; simp at h, fun o ho d hd => absurd hd (houts o ho d)⟩
    · exact ⟨hc1, by intro d h; simp at h, fun o ho d hd => absurd hd (houts o ho d)⟩
    · rename_i decided v agg hres
      split
      · exact ⟨hc1, by intro d h; simp at h, fun o ho d hd => absurd hd (houts o ho d)⟩
      · split
        · exact ⟨hc1, by intro d h; simp at h, fun o ho d hd => absurd hd (houts o ho d)⟩
        · rename_i d0
          have hcert := (hdec decided v d0 hres).cert
          have ho : ∀ o ∈ (processMsg cfg inst m).outs ++ [Out.bcastDecided d0], ∀ d,
              (o = .bcastDecided d ∨ o = .save d ∨ o = .notify d) → ValidCert cfg d := by
            intro o ho d hd
            rcases List.mem_append.1 ho with ho | ho
            · exact absurd hd (houts o ho d)
            · simp at ho; subst ho
              rcases hd with hd | hd | hd <;> simp at hd
              exact hd ▸ hcert
          split
          · exact ⟨hc1, by intro d h; simp at h, ho⟩
          · exact ⟨hc1, by intro d h; simp at h; exact h ▸ hcert, ho⟩

theorem ctrl_processMsg_inv (cfg : Cfg) (c : Ctrl) (m : Msg) (hc : CtrlInv cfg c) :
    CtrlInv cfg (c.processMsg cfg m).ct ∧ StepCerts cfg (c.processMsg cfg m) := by
  unfold Ctrl.processMsg
  split
  · exact ⟨hc, by intro d h; simp at h, by intro o ho; simp at ho⟩
  · rename_i hid
    have hid' : m.ident = cfg.ident := by simpa using hid
    split
    · exact uponDecided_inv cfg c m hc hid'
    · split
      · exact ⟨hc, by intro d h; simp at h, by intro o ho; simp at ho⟩
      · exact uponExistingInstanceMsg_inv cfg c m hc hid'

theorem instInv_start (cfg : Cfg) (v h : Nat) : InstInv cfg (start cfg (newInstance h) v h).st := by
  have hnew : InstInv cfg (newInstance h) := ⟨by intro m hm; simp [newInstance] at hm, by intro p hp; simp [newInstance] at hp⟩
  unfold start
  simp only [newInstance, Bool.false_eq_true, if_false]
  have hS : InstInv cfg { newInstance h with started := true, startValue := v, round := firstRound, height := h } :=
    ⟨by intro m hm; simp [newInstance] at hm, by intro p hp; simp [newInstance] at hp⟩
  repeat' split
  all_goals exact hS

theorem ctrl_start_inv (cfg : Cfg) (c : Ctrl) (h v : Nat) (hc : CtrlInv cfg c) :
    CtrlInv cfg (c.startNewInstance cfg h v).ct ∧ StepCerts cfg (c.startNewInstance cfg h v) := by
  have houts : ∀ o ∈ (start cfg (newInstance h) v h).outs, ∀ d, (o = .bcastDecided d ∨ o = .save d ∨ o = .notify d) → ValidCert cfg d :=
    fun o ho d hd => absurd hd (instOut_not_decision o (outsInst_start cfg _ v h o ho) d)
  have hadd : CtrlInv cfg { height := h, insts := addNewInstance cfg.capacity c.insts (start cfg (newInstance h) v h).st } := by
    intro x hx
    rcases addNewInstance_mem _ _ _ _ hx with hx | hx
    · exact hc x hx
    · subst hx; exact instInv_start cfg v h
  have hforce : CtrlInv cfg (forceStopOthers { height := h, insts := addNewInstance cfg.capacity c.insts (start cfg (newInstance h) v h).st }) := by
    intro x hx
    simp only [forceStopOthers, List.mem_map] at hx
    obtain ⟨y, hy, hxy⟩ := hx
    have hyi := hadd y hy
    split at hxy <;> subst hxy
    · exact ⟨hyi.commits, hyi.accepted⟩
    · exact hyi
  unfold Ctrl.startNewInstance
  split
  · exact ⟨hc, by intro d hd; simp at hd, by intro o ho; simp at ho⟩
  · split
    · exact ⟨hc, by intro d hd; simp at hd, by intro o ho; simp at ho⟩
    · split
      · exact ⟨hc, by intro d hd; simp at hd, by intro o ho; simp at ho⟩
      · simp only
        split
        · exact ⟨hadd, by intro d hd; simp at hd, houts⟩
        · exact ⟨hforce, by intro d hd; simp at hd, houts⟩

theorem ctrl_onTimeout_inv (cfg : Cfg) (c : Ctrl) (h r : Nat) (hc : CtrlInv cfg c) :
    CtrlInv cfg (c.onTimeout cfg h r).ct ∧ StepCerts cfg (c.onTimeout cfg h r) := by
  unfold Ctrl.onTimeout
  split
  · exact ⟨hc, by intro d hd; simp at hd, by intro o ho; simp at ho⟩
  · rename_i inst hf
    obtain ⟨hmem, _⟩ := findInstance_some hf
    have hi := (uponRoundTimeout_inv cfg inst (hc inst hmem)).1
    have hc1 := ctrlInv_update cfg c (uponRoundTimeout cfg inst).st hc hi
    have houts : ∀ o ∈ (uponRoundTimeout cfg inst).outs, ∀ d, (o = .bcastDecided d ∨ o = .save d ∨ o = .notify d) → ValidCert cfg d :=
      fun o ho d hd => absurd hd (instOut_not_decision o (outsInst_uponRoundTimeout cfg inst o ho) d)
    split
    · exact ⟨hc, by intro d hd; simp at hd, by intro o ho; simp at ho⟩
    · split
      · exact ⟨hc, by intro d hd; simp at hd, by intro o ho; simp at ho⟩
      · simp only
        split
        · exact ⟨hc1, by intro d hd; simp at hd, houts⟩
        · exact ⟨hc1, by intro d hd; simp at hd, houts⟩
        · exact ⟨hc1, by intro d hd; simp at hd, houts⟩

theorem ctrl_compactAt_inv (cfg : Cfg) (c : Ctrl) (h : Nat) (hc : CtrlInv cfg c) : CtrlInv cfg (c.compactAt h) := by
  unfold Ctrl.compactAt
  split
  · exact hc
  · rename_i inst hf
    obtain ⟨hmem, _⟩ := findInstance_some hf
    exact ctrlInv_update cfg c (compact inst) hc (compact_inv cfg inst (hc inst hmem)).1

/-- every controller op keeps the invariant and only ever reports valid certificates -/
theorem stepC_inv (cfg : Cfg) (c : Ctrl) (op : COp) (hc : CtrlInv cfg c) :
    CtrlInv cfg (stepC cfg c op).1 ∧
    ∀ o, (stepC cfg c op).2 = some o → StepCerts cfg ⟨(stepC cfg c op).1, o.outs, o.res⟩ := by
  cases op with
  | start h v =>
    obtain ⟨h1, h2⟩ := ctrl_start_inv cfg c h v hc
    exact ⟨h1, by intro o ho; simp [stepC] at ho; subst ho; exact h2⟩
  | deliver m =>
    obtain ⟨h1, h2⟩ := ctrl_processMsg_inv cfg c m hc
    exact ⟨h1, by intro o ho; simp [stepC] at ho; subst ho; exact h2⟩
  | timeout h r =>
    obtain ⟨h1, h2⟩ := ctrl_onTimeout_inv cfg c h r hc
    exact ⟨h1, by intro o ho; simp [stepC] at ho; subst ho; exact h2⟩
  | compactAt h => exact ⟨ctrl_compactAt_inv cfg c h hc, by intro o ho; simp [stepC] at ho⟩
  | runnerCompact m =>
    refine ⟨?_, by intro o ho; simp [stepC] at ho⟩
    simp only [stepC, Ctrl.compactIfNeeded]
    split
    · exact ctrl_compactAt_inv cfg c _ hc
    · exact hc

theorem runC_inv (cfg : Cfg) (ops : List COp) : ∀ c, CtrlInv cfg c →
    CtrlInv cfg (runC cfg c ops).1 ∧ ∀ o ∈ (runC cfg c ops).2, StepCerts cfg ⟨c, o.outs, o.res⟩ := by
  induction ops with
  | nil => intro c hc; exact ⟨hc, by intro o ho; simp [runC] at ho⟩
  | cons op rest ih =>
    intro c hc
    obtain ⟨h1, h2⟩ := stepC_inv cfg c op hc
    obtain ⟨h3, h4⟩ := ih _ h1
    refine ⟨by simpa [runC] using h3, ?_⟩
    intro o ho
    simp only [runC] at ho
    cases hs : (stepC cfg c op).2 with
    | none =>
      rw [hs] at ho
      exact h4 o ho
    | some x =>
      rw [hs] at ho
      rcases List.mem_cons.1 ho with ho | ho
      · subst ho; exact h2 _ hs
      · exact h4 o ho

/-- the stored pointer semantics: writing back the instance that was found changes nothing -/
theorem updateInstance_self {l : List State} {h : Nat} {i : State} (hf : findInstance l h = some i) : updateInstance l i = l := by
  induction l with
  | nil => simp [findInstance] at hf
  | cons e rest ih =>
    unfold findInstance at hf
    simp only [List.find?] at hf
    by_cases he : (e.height == h) = true
    · simp only [he] at hf
      simp at hf
      subst hf
      unfold updateInstance
      simp
    · simp only [he] at hf
      have hi : i.height = h := (findInstance_some (l := rest) hf).2
      unfold updateInstance
      have : (e.height == i.height) = false := by rw [hi]; simpa using he
      simp only [this, Bool.false_eq_true, if_false]
      rw [ih hf]

/-- a message that fails the instance's validation leaves the instance untouched and produces nothing -/
theorem processMsg_rejected (cfg : Cfg) (s : State) (m : Msg) (h : ∀ u, baseMsgValidation cfg s m ≠ .ok u) :
    (processMsg cfg s m).st = s ∧ (processMsg cfg s m).outs = [] ∧ ∀ d v a, (processMsg cfg s m).res ≠ .ok d v a := by
  unfold processMsg
  split
  · exact ⟨rfl, rfl, by intro d v a; simp⟩
  · cases hv : wrap Atom.invalidSigned (baseMsgValidation cfg s m) with
    | ok u => exact absurd (by simpa using hv) (h u)
    | error f => cases f <;> exact ⟨rfl, rfl, by intro d v a; simp [failStep]⟩

/-- a commit that lists several signers but fewer than a quorum is rejected by every instance -/
theorem multiSigner_commit_invalid (cfg : Cfg) (s : State) (m : Msg) (ht : m.type = tCommit) (hl : m.signers.length ≠ 1) :
    ∀ u, baseMsgValidation cfg s m ≠ .ok u := by
  intro u hu
  obtain ⟨p, _, hv⟩ := baseMsgValidation_commit cfg s m u ht hu
  have := (validateCommit_ok cfg m.toBase s.height s.round p () hv).2.2.2.2.2.2.2.2
  exact hl this

/-- a controller step that neither changes the controller, nor emits anything, nor reports a decision -/
def Ignored (c : Ctrl) (st : CStep) : Prop := st.ct = c ∧ st.outs = [] ∧ ∀ d, st.res ≠ .ok d

theorem uponExisting_rejected (cfg : Cfg) (c : Ctrl) (m : Msg) (h : ∀ s u, baseMsgValidation cfg s m ≠ .ok u) :
    Ignored c (uponExistingInstanceMsg cfg c m) := by
  unfold uponExistingInstanceMsg
  split
  · exact ⟨rfl, rfl, by intro d; simp⟩
  · rename_i inst hf
    obtain ⟨h1, h2, h3⟩ := processMsg_rejected cfg inst m (h inst)
    have hu : updateInstance c.insts (processMsg cfg inst m).st = c.insts := by rw [h1]; exact updateInstance_self hf
    simp only [h2, hu]
    split
    · exact ⟨rfl, rfl, by intro d; simp⟩
    · exact ⟨rfl, rfl, by intro d; simp⟩
    · rename_i d v a hres
      exact absurd hres (h3 d v a)

theorem ctrl_subquorum_commit_ignored (cfg : Cfg) (c : Ctrl) (m : Msg) (ht : m.type = tCommit)
    (h2 : 2 ≤ m.signers.length) (hq : m.signers.length < cfg.quorum) : Ignored c (c.processMsg cfg m) := by
  unfold Ctrl.processMsg
  have hnd : isDecidedMsg cfg m = false := by
    unfold isDecidedMsg
    have : ¬ cfg.quorum ≤ m.signers.length := by omega
    simp [this]
  split
  · exact ⟨rfl, rfl, by intro d; simp⟩
  · simp only [hnd, Bool.false_eq_true, if_false]
    split
    · exact ⟨rfl, rfl, by intro d; simp⟩
    · exact uponExisting_rejected cfg c m (fun s => multiSigner_commit_invalid cfg s m ht (by omega))

/-- a decided-looking message (commit type, at least quorum listed signers, right identifier) that fails `ValidateDecided` -/
theorem ctrl_invalid_decided_ignored (cfg : Cfg) (c : Ctrl) (m : Msg) (hd : isDecidedMsg cfg m = true)
    (hv : validateDecided cfg m ≠ .ok ()) : Ignored c (c.processMsg cfg m) := by
  unfold Ctrl.processMsg
  split
  · exact ⟨rfl, rfl, by intro d; simp⟩
  · exact uponDecided_rejected cfg c m hv

theorem ctrl_wrong_ident_ignored (cfg : Cfg) (c : Ctrl) (m : Msg) (hi : m.ident ≠ cfg.ident) : Ignored c (c.processMsg cfg m) := by
  unfold Ctrl.processMsg
  have : (m.ident != cfg.ident) = true := by simpa using hi
  simp only [this, if_true]
  exact ⟨rfl, rfl, by intro d; simp⟩

/-- first local report: the aggregate is a certificate for the proposal the instance had accepted from the round leader -/
theorem uponExisting_local (cfg : Cfg) (c : Ctrl) (m : Msg) (hc : CtrlInv cfg c) (hid : m.ident = cfg.ident) (d : Msg)
    (h : (uponExistingInstanceMsg cfg c m).res = .ok (some d)) :
    ∃ inst, findInstance c.insts m.height = some inst ∧ inst.decided = false ∧ LocalDecision cfg inst d := by
  unfold uponExistingInstanceMsg at h
  split at h
  · simp at h
  · rename_i inst hf
    obtain ⟨hmem, _⟩ := findInstance_some hf
    obtain ⟨_, _, hdec⟩ := processMsg_inv cfg inst m (hc inst hmem) hid
    simp only at h
    split at h
    · simp at h
    · simp at h
    · rename_i decided v agg hres
      split at h
      · simp at h
      · split at h
        · simp at h
        · rename_i d0
          split at h
          · simp at h
          · rename_i hprev
            simp at h
            subst h
            exact ⟨inst, hf, by simpa using hprev, hdec decided v d0 hres⟩

end Ssv.Qbft
