/-
Helper lemmas for engine `heights` (C15), part 4:
* how one step can change the highest record (`HiRel`),
* the vocabulary of clause 1: which op starts consensus for which slot, which heights a node has "seen"
  (started or learned decided since the last restart, plus the stored highest at restart), and the invariants
  that relate the seen heights to the controller height and the instance container.
-/
import Ssv.Proofs.HeightsStep

namespace Ssv.Heights

/-! ## one step and the highest record -/

/-- how the highest record may change in one step from state `s`: not at all, to a higher height, or — at the same
    height — to a certificate with strictly more signers than `LongestUniqueSignersForRoundAndRoot` finds in the
    bucket of its own (round, root) of the live instance `i` (which carries the old record `a`) -/
def HiRel (s : State) (a b : Stored) : Prop :=
  b = a ∨ a.inst.height < b.inst.height ∨
  (a.inst.height = b.inst.height ∧ ∃ i, find s.c.insts a.inst.height = some i ∧ Carries i a ∧
      longest i.commits b.cert.round b.cert.root < b.cert.signers.length)

theorem prevDecided_of_live {c : Ctrl} {st : Store} {a : Stored} (inv : CInv c st) (ha : st.highest = some a)
    (hh : a.inst.height = c.height) : prevDecidedOf c st c.height = true := by
  obtain ⟨i, rest, hl, hi, hc⟩ := inv.live a ha hh
  have hf : find c.insts c.height = some i := by rw [hl, find_cons]; simp [hi]
  unfold prevDecidedOf
  rw [instanceForHeight_mem hf]
  exact hc.1

theorem uponDecided_highest {c : Ctrl} {st : Store} {a : Stored} (inv : CInv c st) (ha : st.highest = some a)
    (h : Nat) (m : Msg) :
    ∃ b, (uponDecided c st h m).2.1.highest = some b ∧
      (b = a ∨ (b.inst.height = h ∧ b.cert = m ∧ c.height ≤ h ∧
        (a.inst.height < h ∨ (a.inst.height = h ∧ ∃ i, find c.insts h = some i ∧ Carries i a ∧
            longest i.commits m.round m.root < m.signers.length)))) := by
  have he := uponDecided_eq c st h m
  simp only at he
  rw [he]
  simp only
  cases hs : (decidedBranch c st h m).2
  · exact ⟨a, by simpa using ha, Or.inl rfl⟩
  · simp only [if_true]
    rcases saveFound_highest { c with insts := (decidedBranch c st h m).1, height := if c.height < h then h else c.height }
        st h m with hu | ⟨hle, i', hf', hw⟩
    · exact ⟨a, by rw [hu]; exact ha, Or.inl rfl⟩
    · refine ⟨_, hw, Or.inr ⟨(find_some_height hf' : i'.height = h), rfl, ?_, ?_⟩⟩
      · simp only at hle; split at hle <;> omega
      · have hch : c.height ≤ h := by simp only at hle; split at hle <;> omega
        have hale := inv.le a ha
        by_cases hlt : a.inst.height < h
        · exact Or.inl hlt
        · right
          have hah : a.inst.height = h := by omega
          have hac : a.inst.height = c.height := by omega
          obtain ⟨i0, rest, hl, hi0, hc⟩ := inv.live a ha hac
          have hf : find c.insts h = some i0 := by rw [hl, find_cons]; simp [hi0]; omega
          refine ⟨hah, i0, hf, hc, ?_⟩
          rcases decidedBranch_mem (st := st) (m := m) hf with ⟨_, h2, _⟩ | ⟨_, _, _, _, _, _, hcase⟩
          · rw [h2] at hs; cases hs
          · rcases hcase with ⟨hnd, _⟩ | ⟨_, _, _, hlong⟩
            · rw [hc.1] at hnd; cases hnd
            · exact hlong

theorem processMsg_highest {c : Ctrl} {st : Store} {a : Stored} (inv : CInv c st) (ha : st.highest = some a)
    (q h : Nat) (m : Msg) (ok : Bool) :
    ∃ b, (processMsg q c st h m ok).2.1.highest = some b ∧
      (b = a ∨ (b.inst.height = h ∧ b.cert = m ∧ c.height ≤ h ∧
        (a.inst.height < h ∨ (a.inst.height = h ∧ ∃ i, find c.insts h = some i ∧ Carries i a ∧
            longest i.commits m.round m.root < m.signers.length)))) := by
  rcases processMsg_cases q c st h m ok with he | ⟨_, _, he⟩
  · rw [he]; exact ⟨a, ha, Or.inl rfl⟩
  · rw [he]; exact uponDecided_highest inv ha h m

theorem step_highest {s : State} (inv : SInv s) {a : Stored} (ha : s.s.highest = some a) (op : Op) :
    ∃ b, (step s op).1.s.highest = some b ∧ HiRel s a b := by
  unfold SInv at inv
  -- repackaging of the `processMsg_highest` alternatives as `HiRel`
  have pack : ∀ (h : Nat) (m : Msg) (b : Stored),
      (b = a ∨ (b.inst.height = h ∧ b.cert = m ∧ s.c.height ≤ h ∧
        (a.inst.height < h ∨ (a.inst.height = h ∧ ∃ i, find s.c.insts h = some i ∧ Carries i a ∧
            longest i.commits m.round m.root < m.signers.length)))) → HiRel s a b := by
    intro h m b hb
    rcases hb with rfl | ⟨hbh, hbm, _, hlt | ⟨hah, i, hf, hc, hl⟩⟩
    · exact Or.inl rfl
    · exact Or.inr (Or.inl (by omega))
    · exact Or.inr (Or.inr ⟨by omega, i, by rw [hah]; exact hf, hc, by rw [hbm]; exact hl⟩)
  rcases step_cs s op with ⟨_, hs⟩ | ⟨_, _, _, _, hs⟩ | ⟨h, m, ok, _, hs⟩ | ⟨h, m, ok, _, hs⟩ | ⟨_, _, _, _, _, hs⟩ |
    ⟨h, m, ok, _, _, hs⟩ | ⟨root, vc, _, hs⟩ | ⟨_, _, hs⟩ | ⟨_, _, _, hs⟩
  · exact ⟨a, by rw [hs]; exact ha, Or.inl rfl⟩
  · exact ⟨a, by rw [hs]; exact ha, Or.inl rfl⟩
  · obtain ⟨b, hb, hrel⟩ := processMsg_highest inv ha s.q h m ok
    exact ⟨b, by rw [hs]; exact hb, pack h m b hrel⟩
  · rw [hs]
    unfold decidedViaRunner
    simp only
    obtain ⟨b1, hb1, hrel1⟩ := processMsg_highest inv ha s.q h m ok
    cases hsv : runnerSaves s.r h (processMsg s.q s.c s.s h m ok).2.2
    · exact ⟨b1, by simpa using hb1, pack h m b1 hrel1⟩
    · simp only [if_true]
      have hnew : (processMsg s.q s.c s.s h m ok).2.2 = .new := by
        unfold runnerSaves at hsv
        simp only [Bool.and_eq_true] at hsv
        simpa using hsv.1.1.1
      rcases processMsg_cases s.q s.c s.s h m ok with he | ⟨_, hq, he⟩
      · rw [he] at hnew; cases hnew
      · have hpd : prevDecidedOf s.c s.s h = false := by
          rw [he, uponDecided_out] at hnew
          cases hpd : prevDecidedOf s.c s.s h
          · rfl
          · simp [hpd] at hnew
        -- a `.new` never touches the height of the stored highest: that instance is live and decided
        have hne : a.inst.height = h → s.c.height ≤ h → False := by
          intro hah hch
          have hale := inv.le a ha
          have hac : a.inst.height = s.c.height := by omega
          have := prevDecided_of_live inv ha hac
          rw [← hac, hah, hpd] at this
          cases this
        rcases saveFound_highest
            (if s.q ≤ m.signers.length then compactAt (processMsg s.q s.c s.s h m ok).1 h else (processMsg s.q s.c s.s h m ok).1)
            (processMsg s.q s.c s.s h m ok).2.1 h m with hu | ⟨hle, i', hf', hw⟩
        · refine ⟨b1, by rw [hu]; exact hb1, pack h m b1 hrel1⟩
        · refine ⟨_, hw, Or.inr (Or.inl ?_)⟩
          show a.inst.height < i'.height
          rw [find_some_height hf']
          have hch : s.c.height ≤ h := by
            simp only [hq, if_true, compactAt_height] at hle
            rw [he] at hle
            exact Nat.le_trans (uponDecided_height_ge s.c s.s h m).2 hle
          have hale := inv.le a ha
          by_cases hah : a.inst.height = h
          · exact absurd hch (fun hc => hne hah hc)
          · omega
  · exact ⟨a, by rw [hs]; exact ha, Or.inl rfl⟩
  · -- the runner path while the first write fails: only the runner's own save can write, and only after a `.new`
    rw [hs]
    unfold decidedViaRunnerSF
    simp only
    cases hsv : (runnerSaves s.r h (processMsg s.q s.c s.s h m ok).2.2 &&
        (ok && decide (s.q ≤ m.signers.length) && firstSaveCalled s.c s.s h m))
    · exact ⟨a, by simpa using ha, Or.inl rfl⟩
    · simp only [if_true]
      simp only [Bool.and_eq_true] at hsv
      obtain ⟨hq, hpd, he, _, _⟩ := fresh_of_new (runnerSaves_new hsv.1)
      rcases saveFound_highest
          (if s.q ≤ m.signers.length then compactAt (processMsg s.q s.c s.s h m ok).1 h else (processMsg s.q s.c s.s h m ok).1)
          s.s h m with hu | ⟨hle, i', hf', hw⟩
      · exact ⟨a, by rw [hu]; exact ha, Or.inl rfl⟩
      · refine ⟨_, hw, Or.inr (Or.inl ?_)⟩
        show a.inst.height < i'.height
        rw [find_some_height hf']
        have hch : s.c.height ≤ h := by
          simp only [hq, if_true, compactAt_height] at hle
          exact Nat.le_trans (processMsg_height_ge _ _ _ _ _ _) hle
        have hale := inv.le a ha
        by_cases hah : a.inst.height = h
        · have hac : a.inst.height = s.c.height := by omega
          have := prevDecided_of_live inv ha hac
          rw [← hac, hah, hpd] at this
          cases this
        · omega
  · -- commits: the fresh running instance decides and is saved
    rw [hs]
    rcases commitsStep_cases s root vc with ⟨h0, _⟩ | ⟨rh, i, _, hf, hnd, _, _, hs'⟩
    · rw [h0]; exact ⟨a, ha, Or.inl rfl⟩
    · rw [hs']
      rcases saveFound_highest
          { s.c with insts := replaceInst { i with decided := true, commits := singles s.q root } s.c.insts } s.s rh
          ⟨Gen.heights_FirstRound, root, List.range' 1 s.q⟩ with hu | ⟨hle, i', hf', hw⟩
      · exact ⟨a, by rw [hu]; exact ha, Or.inl rfl⟩
      · refine ⟨_, hw, Or.inr (Or.inl ?_)⟩
        show a.inst.height < i'.height
        rw [find_some_height hf']
        have hale := inv.le a ha
        have hle' : s.c.height ≤ rh := hle
        by_cases hah : a.inst.height = rh
        · -- the stored highest would be live and decided at rh, but the instance there is not decided
          obtain ⟨i0, rest, hl, hi0, hcar⟩ := inv.live a ha (by omega)
          have : i = i0 := by
            rw [hl, find_cons] at hf
            have : i0.height = rh := by omega
            simp [this] at hf
            exact hf.symm
          subst this
          rw [hcar.1] at hnd; cases hnd
        · omega
  · exact ⟨a, by rw [hs]; exact ha, Or.inl rfl⟩
  · exact ⟨a, by rw [hs]; exact ha, Or.inl rfl⟩

theorem HiRel.height_le {s : State} {a b : Stored} (h : HiRel s a b) : a.inst.height ≤ b.inst.height := by
  rcases h with rfl | h | ⟨h, _⟩ <;> omega

/-- the stored highest height never goes down along any history (restarts included), and is never lost -/
theorem run_highest_mono {s : State} (inv : SInv s) {a : Stored} (ha : s.s.highest = some a) (ops : List Op) :
    ∃ b, (run s ops).s.highest = some b ∧ a.inst.height ≤ b.inst.height := by
  induction ops generalizing s a with
  | nil => exact ⟨a, ha, Nat.le_refl _⟩
  | cons op ops ih =>
    obtain ⟨b, hb, hrel⟩ := step_highest inv ha op
    obtain ⟨b', hb', hle⟩ := ih (inv.step op) hb
    exact ⟨b', hb', Nat.le_trans hrel.height_le hle⟩

/-! ## clause 1 vocabulary -/

/-- the slot for which this op starts consensus (a QBFT instance), if it does -/
def consensusStart (s : State) (op : Op) : Option Nat :=
  match op with
  | .start slot => if (step s op).2 = .ok then some slot else none
  | .decide => if (step s op).2 = .ok then s.r.duty else none
  | _ => none

/-- heights the node starts or learns as decided by this op (a decided message counts when it is valid) -/
def learns (s : State) (op : Op) : List Nat :=
  match op with
  | .decided h _ _ signers ok _ => if ok && decide (s.q ≤ signers.length) then [h] else []
  -- a valid decided message is LEARNED when it is delivered, whether or not the store write succeeds
  | .decidedSF h _ _ signers ok _ => if ok && decide (s.q ≤ signers.length) then [h] else []
  -- (`commits` teaches nothing new: the height of the running instance was started in this process, so it is seen already)
  | _ => (consensusStart s op).toList

/-- heights seen since the last restart; a restart resets them to the stored highest height (if any) -/
def seenStep (s : State) (seen : List Nat) (op : Op) : List Nat :=
  match op with
  | .restart _ => match s.s.highest with | some a => [a.inst.height] | none => []
  | _ => seen ++ learns s op

def runSeen (s : State) (seen : List Nat) : List Op → State × List Nat
  | [] => (s, seen)
  | op :: ops => runSeen (step s op).1 (seenStep s seen op) ops

theorem runSeen_fst (s : State) (seen : List Nat) (ops : List Op) : (runSeen s seen ops).1 = run s ops := by
  induction ops generalizing s seen with
  | nil => rfl
  | cons op ops ih => exact ih _ _

/-- a consensus start is a successful `StartNewInstance` on the current controller -/
theorem consensusStart_ok {s : State} {op : Op} {slot : Nat} (h : consensusStart s op = some slot) :
    ∃ c', startNewInstance s.c slot = .ok c' ∧ (step s op).1.c = c' ∧
      (op = .start slot → guardRefuses s.c slot = false) := by
  cases op with
  | start sl =>
    unfold consensusStart at h
    simp only at h
    split at h
    · rename_i hok
      cases h
      rw [step_start_eq] at hok ⊢
      by_cases hb : (beginStep s slot).2 = .ok
      · simp only [hb, if_true] at hok ⊢
        obtain ⟨hbc, _, _⟩ := beginStep_cs s slot
        rcases decideStep_cases (beginStep s slot).1 slot with ⟨_, h2, _⟩ | ⟨c', hst, hc, _, _, _⟩
        · rw [h2] at hok; cases hok
        · rw [hbc] at hst
          exact ⟨c', hst, hc, fun _ => (beginStep_ok hb).1⟩
      · simp only [hb, if_false] at hok
    · cases h
  | decide =>
    unfold consensusStart at h
    simp only at h
    split at h
    · rename_i hok
      rw [step_decide_eq] at hok ⊢
      rw [h] at hok ⊢
      simp only at hok ⊢
      rcases decideStep_cases s slot with ⟨_, h2, _⟩ | ⟨c', hst, hc, _, _, _⟩
      · rw [h2] at hok; cases hok
      · exact ⟨c', hst, hc, fun hh => by cases hh⟩
    · cases h
  | begin _ => simp [consensusStart] at h
  | decided _ _ _ _ _ _ => simp [consensusStart] at h
  | decidedSF _ _ _ _ _ _ => simp [consensusStart] at h
  | commits _ _ => simp [consensusStart] at h
  | compact _ => simp [consensusStart] at h
  | restart _ => simp [consensusStart] at h

/-- within a process the controller height never goes down -/
theorem step_height_mono (s : State) (op : Op) (hop : ∀ f, op ≠ .restart f) : s.c.height ≤ (step s op).1.c.height := by
  rcases step_cs s op with ⟨hc, _⟩ | ⟨slot, c', hst, hc, _⟩ | ⟨h, m, ok, hc, _⟩ | ⟨h, m, ok, hc, _⟩ |
    ⟨h, m, ok, _, hc, _⟩ | ⟨h, m, ok, _, hc, _⟩ | ⟨root, vc, hc, _⟩ | ⟨h, hc, _⟩ | ⟨f, hf, _, _⟩
  · rw [hc]; exact Nat.le_refl _
  · rw [hc]; obtain ⟨h1, _, h2, _⟩ := startNewInstance_ok hst; omega
  · rw [hc]
    rcases processMsg_cases s.q s.c s.s h m ok with he | ⟨_, _, he⟩
    · rw [he]; exact Nat.le_refl _
    · rw [he]; exact (uponDecided_height_ge _ _ _ _).2
  · rw [hc]
    unfold decidedViaRunner
    simp only
    have : s.c.height ≤ (processMsg s.q s.c s.s h m ok).1.height := by
      rcases processMsg_cases s.q s.c s.s h m ok with he | ⟨_, _, he⟩
      · rw [he]; exact Nat.le_refl _
      · rw [he]; exact (uponDecided_height_ge _ _ _ _).2
    split
    · rw [compactAt_height]; exact this
    · exact this
  · rw [hc]; exact processMsg_height_ge _ _ _ _ _ _
  · rw [hc]
    unfold decidedViaRunnerSF
    simp only
    split
    · rw [compactAt_height]; exact processMsg_height_ge _ _ _ _ _ _
    · exact processMsg_height_ge _ _ _ _ _ _
  · rw [hc]
    rcases commitsStep_cases s root vc with ⟨h0, _⟩ | ⟨_, _, _, _, _, _, hc', _⟩
    · rw [h0]; exact Nat.le_refl _
    · rw [hc']; exact Nat.le_refl _
  · rw [hc, compactAt_height]; exact Nat.le_refl _
  · exact absurd hf (hop f)

/-! ## seen heights vs controller height (all nodes) -/

def SeenLe (s : State) (seen : List Nat) : Prop := ∀ h ∈ seen, h ≤ s.c.height

theorem loadHighest_some {c : Ctrl} {st : Store} {a : Stored} (ha : st.highest = some a) :
    (loadHighest c st).1.height = a.inst.height ∧ (loadHighest c st).1.insts = [trim a.inst] ∧
    (loadHighest c st).1.full = c.full ∧ (loadHighest c st).2 = some a := by
  unfold loadHighest
  rw [ha]
  exact ⟨rfl, rfl, rfl, rfl⟩

theorem loadHighest_none {c : Ctrl} {st : Store} (ha : st.highest = none) :
    (loadHighest c st).1 = c ∧ (loadHighest c st).2 = none := by
  unfold loadHighest
  rw [ha]
  exact ⟨rfl, rfl⟩

theorem step_restart_c (s : State) (f : Bool) : (step s (.restart f)).1.c = (loadHighest (newCtrl f) s.s).1 :=
  (restartStep_cs s f).1

/-- controller after a `decided` op -/
theorem step_decided_c (s : State) (h r root : Nat) (sg : List Nat) (ok via : Bool) :
    (step s (.decided h r root sg ok via)).1.c = (processMsg s.q s.c s.s h ⟨r, root, sg⟩ ok).1 ∨
    (step s (.decided h r root sg ok via)).1.c = compactAt (processMsg s.q s.c s.s h ⟨r, root, sg⟩ ok).1 h := by
  cases via
  · left; rfl
  · show (decidedViaRunner s h ⟨r, root, sg⟩ ok).1.c = _ ∨ (decidedViaRunner s h ⟨r, root, sg⟩ ok).1.c = _
    unfold decidedViaRunner
    simp only
    split
    · right; rfl
    · left; rfl

theorem step_decidedSF_c (s : State) (h r root : Nat) (sg : List Nat) (ok via : Bool) :
    (step s (.decidedSF h r root sg ok via)).1.c = (processMsg s.q s.c s.s h ⟨r, root, sg⟩ ok).1 ∨
    (step s (.decidedSF h r root sg ok via)).1.c = compactAt (processMsg s.q s.c s.s h ⟨r, root, sg⟩ ok).1 h := by
  cases via
  · left; rfl
  · show (decidedViaRunnerSF s h ⟨r, root, sg⟩ ok).1.c = _ ∨ (decidedViaRunnerSF s h ⟨r, root, sg⟩ ok).1.c = _
    unfold decidedViaRunnerSF
    simp only
    split
    · right; rfl
    · left; rfl

/-- start / begin / decide: either the controller is untouched and no consensus starts, or `StartNewInstance` succeeded -/
theorem startish_cases (s : State) (op : Op) (hop : (∃ slot, op = .start slot) ∨ (∃ slot, op = .begin slot) ∨ op = .decide) :
    (consensusStart s op = none ∧ (step s op).1.c = s.c) ∨
    (∃ slot c', consensusStart s op = some slot ∧ startNewInstance s.c slot = .ok c' ∧ (step s op).1.c = c') := by
  cases hcs : consensusStart s op with
  | some slot =>
    right
    obtain ⟨c', h1, h2, _⟩ := consensusStart_ok hcs
    exact ⟨slot, c', rfl, h1, h2⟩
  | none =>
    left
    refine ⟨rfl, ?_⟩
    rcases hop with ⟨slot, rfl⟩ | ⟨slot, rfl⟩ | rfl
    · unfold consensusStart at hcs
      simp only at hcs
      split at hcs
      · cases hcs
      · rename_i hne
        rw [step_start_eq] at hne ⊢
        obtain ⟨hbc, _, _⟩ := beginStep_cs s slot
        split
        · rename_i hb
          simp only [hb, if_true] at hne
          rcases decideStep_cases (beginStep s slot).1 slot with ⟨h1, _⟩ | ⟨_, _, _, _, _, h2⟩
          · rw [h1]; exact hbc
          · exact absurd h2 hne
        · exact hbc
    · exact (beginStep_cs s slot).1
    · unfold consensusStart at hcs
      simp only at hcs
      rw [step_decide_eq] at hcs ⊢
      cases hd : s.r.duty with
      | none => rfl
      | some slot =>
        rw [hd] at hcs
        simp only at hcs ⊢
        rcases decideStep_cases s slot with ⟨h1, _⟩ | ⟨_, _, _, _, _, h2⟩
        · rw [h1]
        · simp [h2] at hcs

theorem SeenLe.step {s : State} {seen : List Nat} (hs : SeenLe s seen) (op : Op) :
    SeenLe (step s op).1 (seenStep s seen op) := by
  intro x hx
  cases op with
  | restart f =>
    rw [step_restart_c]
    unfold seenStep at hx
    simp only at hx
    cases ha : s.s.highest with
    | none => simp [ha] at hx
    | some a =>
      rw [ha] at hx
      simp only [List.mem_singleton] at hx
      rw [(loadHighest_some ha).1, hx]
      exact Nat.le_refl _
  | decided h r root sg ok via =>
    have hmono := step_height_mono s (.decided h r root sg ok via) (fun f hf => by cases hf)
    unfold seenStep at hx
    simp only [List.mem_append] at hx
    rcases hx with hx | hx
    · exact Nat.le_trans (hs x hx) hmono
    · unfold learns at hx
      simp only at hx
      split at hx
      · rename_i hv
        simp only [List.mem_singleton] at hx
        subst hx
        simp only [Bool.and_eq_true, decide_eq_true_eq] at hv
        have hp : x ≤ (processMsg s.q s.c s.s x ⟨r, root, sg⟩ ok).1.height := by
          have he : processMsg s.q s.c s.s x ⟨r, root, sg⟩ ok = uponDecided s.c s.s x ⟨r, root, sg⟩ := by
            unfold processMsg
            have : ¬ sg.length < s.q := by omega
            simp [hv.1, this]
          rw [he]; exact (uponDecided_height_ge _ _ _ _).1
        rcases step_decided_c s x r root sg ok via with hc | hc
        · rw [hc]; exact hp
        · rw [hc, compactAt_height]; exact hp
      · simp at hx
  | decidedSF h r root sg ok via =>
    have hmono := step_height_mono s (.decidedSF h r root sg ok via) (fun f hf => by cases hf)
    unfold seenStep at hx
    simp only [List.mem_append] at hx
    rcases hx with hx | hx
    · exact Nat.le_trans (hs x hx) hmono
    · unfold learns at hx
      simp only at hx
      split at hx
      · rename_i hv
        simp only [List.mem_singleton] at hx
        subst hx
        simp only [Bool.and_eq_true, decide_eq_true_eq] at hv
        have hp : x ≤ (processMsg s.q s.c s.s x ⟨r, root, sg⟩ ok).1.height := by
          have he : processMsg s.q s.c s.s x ⟨r, root, sg⟩ ok = uponDecided s.c s.s x ⟨r, root, sg⟩ := by
            unfold processMsg
            have : ¬ sg.length < s.q := by omega
            simp [hv.1, this]
          rw [he]; exact (uponDecided_height_ge _ _ _ _).1
        rcases step_decidedSF_c s x r root sg ok via with hc | hc
        · rw [hc]; exact hp
        · rw [hc, compactAt_height]; exact hp
      · simp at hx
  | commits root vc =>
    have hmono := step_height_mono s (.commits root vc) (fun f hf => by cases hf)
    unfold seenStep learns consensusStart at hx
    simp only [Option.toList, List.append_nil] at hx
    exact Nat.le_trans (hs x hx) hmono
  | compact h =>
    have hmono := step_height_mono s (.compact h) (fun f hf => by cases hf)
    unfold seenStep learns consensusStart at hx
    simp only [Option.toList, List.append_nil] at hx
    exact Nat.le_trans (hs x hx) hmono
  | start slot =>
    have hmono := step_height_mono s (.start slot) (fun f hf => by cases hf)
    unfold seenStep learns at hx
    simp only [List.mem_append] at hx
    rcases hx with hx | hx
    · exact Nat.le_trans (hs x hx) hmono
    · rcases startish_cases s (.start slot) (Or.inl ⟨slot, rfl⟩) with ⟨hn, _⟩ | ⟨sl, c', hcs, hst, hc⟩
      · rw [hn] at hx; simp at hx
      · rw [hcs] at hx
        simp only [Option.toList, List.mem_singleton] at hx
        rw [hc, (startNewInstance_ok hst).2.2.1, hx]
        exact Nat.le_refl _
  | begin slot =>
    have hmono := step_height_mono s (.begin slot) (fun f hf => by cases hf)
    unfold seenStep learns consensusStart at hx
    simp only [Option.toList, List.append_nil] at hx
    exact Nat.le_trans (hs x hx) hmono
  | decide =>
    have hmono := step_height_mono s .decide (fun f hf => by cases hf)
    unfold seenStep learns at hx
    simp only [List.mem_append] at hx
    rcases hx with hx | hx
    · exact Nat.le_trans (hs x hx) hmono
    · rcases startish_cases s .decide (Or.inr (Or.inr rfl)) with ⟨hn, _⟩ | ⟨sl, c', hcs, hst, hc⟩
      · rw [hn] at hx; simp at hx
      · rw [hcs] at hx
        simp only [Option.toList, List.mem_singleton] at hx
        rw [hc, (startNewInstance_ok hst).2.2.1, hx]
        exact Nat.le_refl _

theorem SeenLe.runSeen {s : State} {seen : List Nat} (hs : SeenLe s seen) (ops : List Op) :
    SeenLe (runSeen s seen ops).1 (runSeen s seen ops).2 := by
  induction ops generalizing s seen with
  | nil => exact hs
  | cons op ops ih => exact ih (hs.step op)

end Ssv.Heights
