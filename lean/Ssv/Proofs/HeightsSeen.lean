/-
Helper lemmas for engine `heights` (C15), part 4:
* how one step can change the stored records (`Mono`, `StoreMono`: the full clause 3),
* the vocabulary of clause 1: which op starts consensus for which slot, which heights a node has "seen"
  (started or learned decided since the last restart, plus the stored highest at restart), and the invariants
  that relate the seen heights to the controller height and the instance container.
-/
import Ssv.Proofs.HeightsStep

namespace Ssv.Heights

/-! ## one step and the stored records: FULL clause 3, from any state -/

/-- the record is unchanged in (height, certificate), or replaced by one of a higher height, or — at the same
    height — by a certificate with more signers -/
def Mono (a b : Stored) : Prop :=
  (b.inst.height = a.inst.height ∧ b.cert = a.cert) ∨ a.inst.height < b.inst.height ∨
  (a.inst.height = b.inst.height ∧ a.cert.signers.length < b.cert.signers.length)

theorem Mono.refl (a : Stored) : Mono a a := Or.inl ⟨rfl, rfl⟩

theorem Mono.trans {a b c : Stored} (h1 : Mono a b) (h2 : Mono b c) : Mono a c := by
  unfold Mono at *
  rcases h1 with ⟨e1, c1⟩ | l1 | ⟨e1, s1⟩ <;> rcases h2 with ⟨e2, c2⟩ | l2 | ⟨e2, s2⟩
  · exact Or.inl ⟨by omega, by rw [c2, c1]⟩
  · exact Or.inr (Or.inl (by omega))
  · exact Or.inr (Or.inr ⟨by omega, by rw [← c1]; exact s2⟩)
  · exact Or.inr (Or.inl (by omega))
  · exact Or.inr (Or.inl (by omega))
  · exact Or.inr (Or.inl (by omega))
  · exact Or.inr (Or.inr ⟨by omega, by rw [c2]; exact s1⟩)
  · exact Or.inr (Or.inl (by omega))
  · exact Or.inr (Or.inr ⟨by omega, by omega⟩)

theorem Mono.height_le {a b : Stored} (h : Mono a b) : a.inst.height ≤ b.inst.height := by
  rcases h with ⟨h, _⟩ | h | ⟨h, _⟩ <;> omega

theorem Mono.of_replaces {a b : Stored} (h : replaces (some a) b = true) : Mono a b := by
  rcases replaces_some h with h | h
  · exact Or.inr (Or.inl h)
  · exact Or.inr (Or.inr h)

/-- both keys at once: what the store holds as highest and under every height -/
def StoreMono (st st' : Store) : Prop :=
  (∀ a, st.highest = some a → ∃ b, st'.highest = some b ∧ Mono a b) ∧
  (∀ h a, histGet st.hist h = some a → ∃ b, histGet st'.hist h = some b ∧ Mono a b)

theorem StoreMono.refl (st : Store) : StoreMono st st :=
  ⟨fun a ha => ⟨a, ha, Mono.refl a⟩, fun _ a ha => ⟨a, ha, Mono.refl a⟩⟩

theorem StoreMono.trans {a b c : Store} (h1 : StoreMono a b) (h2 : StoreMono b c) : StoreMono a c := by
  refine ⟨?_, ?_⟩
  · intro x hx
    obtain ⟨y, hy, m1⟩ := h1.1 x hx
    obtain ⟨z, hz, m2⟩ := h2.1 y hy
    exact ⟨z, hz, m1.trans m2⟩
  · intro h x hx
    obtain ⟨y, hy, m1⟩ := h1.2 h x hx
    obtain ⟨z, hz, m2⟩ := h2.2 h y hy
    exact ⟨z, hz, m1.trans m2⟩

theorem storeSave_mono (st : Store) (rec : Stored) (th ah : Bool) : StoreMono st (storeSave st rec th ah) := by
  unfold storeSave
  simp only
  refine ⟨?_, ?_⟩
  · intro a ha
    cases hc : (ah && replaces st.highest { rec with inst := { trim rec.inst with stopped := false } })
    · exact ⟨a, by simpa using ha, Mono.refl a⟩
    · simp only [Bool.and_eq_true] at hc
      rw [ha] at hc
      exact ⟨_, by simp, Mono.of_replaces hc.2⟩
  · intro h a ha
    cases hc : (th && replaces (histGet st.hist rec.inst.height) { rec with inst := { trim rec.inst with stopped := false } })
    · have : (th && replaces (histGet st.hist (trim rec.inst).height) { rec with inst := { trim rec.inst with stopped := false } }) = false := hc
      simp only [this]
      exact ⟨a, by simpa using ha, Mono.refl a⟩
    · have hc' : (th && replaces (histGet st.hist (trim rec.inst).height) { rec with inst := { trim rec.inst with stopped := false } }) = true := hc
      simp only [hc', if_true]
      rw [histGet_histPut]
      by_cases hh : h = rec.inst.height
      · subst hh
        simp only [Bool.and_eq_true] at hc
        rw [ha] at hc
        exact ⟨_, by simp [trim_height], Mono.of_replaces hc.2⟩
      · exact ⟨a, by simp [trim_height, hh]; exact ha, Mono.refl a⟩

theorem saveFound_mono (c : Ctrl) (st : Store) (h : Nat) (m : Msg) : StoreMono st (saveFound c st h m) := by
  unfold saveFound
  cases find c.insts h with
  | none => exact StoreMono.refl st
  | some i =>
    simp only
    unfold saveInstance
    simp only
    cases c.full <;> cases decide (c.height ≤ i.height)
    · exact StoreMono.refl st
    · exact storeSave_mono st ⟨i, m⟩ false true
    · exact storeSave_mono st ⟨i, m⟩ true false
    · exact storeSave_mono st ⟨i, m⟩ true true

theorem ite_saveFound_mono (cnd : Bool) (c : Ctrl) (st : Store) (h : Nat) (m : Msg) :
    StoreMono st (if cnd = true then saveFound c st h m else st) := by
  cases cnd
  · exact StoreMono.refl st
  · exact saveFound_mono c st h m

theorem processMsg_mono (q : Nat) (c : Ctrl) (st : Store) (h : Nat) (m : Msg) (ok : Bool) :
    StoreMono st (processMsg q c st h m ok).2.1 := by
  unfold processMsg
  split
  · exact StoreMono.refl st
  · split
    · exact StoreMono.refl st
    · unfold uponDecided
      simp only
      split
      · exact saveFound_mono _ st h m
      · exact StoreMono.refl st

/-- FULL clause 3 for one step, from ANY state: every stored record (highest, and historical per height) is kept, or
    replaced by a record of a higher height, or — at the same height — by a certificate with more signers -/
theorem step_store_mono (s : State) (op : Op) : StoreMono s.s (step s op).1.s := by
  rcases step_cs s op with ⟨_, hs⟩ | ⟨_, _, _, _, hs⟩ | ⟨h, m, ok, _, hs⟩ | ⟨h, m, ok, _, hs⟩ | ⟨_, _, _, _, _, hs⟩ |
    ⟨h, m, ok, _, _, hs⟩ | ⟨root, vc, _, hs⟩ | ⟨_, _, hs⟩ | ⟨_, _, _, hs⟩
  · rw [hs]; exact StoreMono.refl _
  · rw [hs]; exact StoreMono.refl _
  · rw [hs]; exact processMsg_mono _ _ _ _ _ _
  · rw [hs]
    unfold decidedViaRunner
    simp only
    exact (processMsg_mono s.q s.c s.s h m ok).trans (ite_saveFound_mono _ _ _ _ _)
  · rw [hs]; exact StoreMono.refl _
  · rw [hs]
    unfold decidedViaRunnerSF
    simp only
    exact ite_saveFound_mono _ _ _ _ _
  · rw [hs]
    rcases commitsStep_cases s root vc with ⟨h0, _⟩ | ⟨rh, i, _, _, _, _, _, _, ⟨_, hs'⟩ | ⟨_, hs'⟩⟩
    · rw [h0]; exact StoreMono.refl _
    · rw [hs']; exact StoreMono.refl _
    · rw [hs']; exact saveFound_mono _ _ _ _
  · rw [hs]; exact StoreMono.refl _
  · rw [hs]; exact StoreMono.refl _

theorem run_store_mono (s : State) (ops : List Op) : StoreMono s.s (run s ops).s := by
  induction ops generalizing s with
  | nil => exact StoreMono.refl _
  | cons op ops ih => exact (step_store_mono s op).trans (ih _)

/-- the stored highest height never goes down along any history (restarts included), and is never lost -/
theorem run_highest_mono {s : State} {a : Stored} (ha : s.s.highest = some a) (ops : List Op) :
    ∃ b, (run s ops).s.highest = some b ∧ a.inst.height ≤ b.inst.height := by
  obtain ⟨b, hb, hm⟩ := (run_store_mono s ops).1 a ha
  exact ⟨b, hb, hm.height_le⟩

/-! ## clause 1 vocabulary -/

/-- the slot for which this op starts consensus (a QBFT instance), if it does -/
def consensusStart (s : State) (op : Op) : Option Nat :=
  match op with
  | .start slot => if (step s op).2 = .ok then some slot else none
  | .decide => if (step s op).2 = .ok then s.r.duty else none
  | _ => none

/-- heights the node starts or learns as decided by this op (a decided message counts when it is valid) -/
def learns (s : State) (op : Op) : List Nat :=
  match op with
  | .decided h _ _ signers ok _ => if ok && decide (s.q ≤ signers.length) then [h] else []
  -- a valid decided message is LEARNED when it is delivered, whether or not the store write succeeds
  | .decidedSF h _ _ signers ok _ => if ok && decide (s.q ≤ signers.length) then [h] else []
  -- (`commits` teaches nothing new: the height of the running instance was started in this process, so it is seen already)
  | _ => (consensusStart s op).toList

/-- heights seen since the last restart; a restart resets them to the stored highest height (if any) -/
def seenStep (s : State) (seen : List Nat) (op : Op) : List Nat :=
  match op with
  | .restart _ => match s.s.highest with | some a => [a.inst.height] | none => []
  | _ => seen ++ learns s op

def runSeen (s : State) (seen : List Nat) : List Op → State × List Nat
  | [] => (s, seen)
  | op :: ops => runSeen (step s op).1 (seenStep s seen op) ops

theorem runSeen_fst (s : State) (seen : List Nat) (ops : List Op) : (runSeen s seen ops).1 = run s ops := by
  induction ops generalizing s seen with
  | nil => rfl
  | cons op ops ih => exact ih _ _

/-- a consensus start is a successful `StartNewInstance` on the current controller -/
theorem consensusStart_ok {s : State} {op : Op} {slot : Nat} (h : consensusStart s op = some slot) :
    ∃ c', startNewInstance s.c slot = .ok c' ∧ (step s op).1.c = c' ∧
      (op = .start slot → guardRefuses s.c slot = false) := by
  cases op with
  | start sl =>
    unfold consensusStart at h
    simp only at h
    split at h
    · rename_i hok
      cases h
      rw [step_start_eq] at hok ⊢
      by_cases hb : (beginStep s slot).2 = .ok
      · simp only [hb, if_true] at hok ⊢
        obtain ⟨hbc, _, _⟩ := beginStep_cs s slot
        rcases decideStep_cases (beginStep s slot).1 slot with ⟨_, h2, _⟩ | ⟨c', hst, hc, _, _, _⟩
        · rw [h2] at hok; cases hok
        · rw [hbc] at hst
          exact ⟨c', hst, hc, fun _ => (beginStep_ok hb).1⟩
      · simp only [hb, if_false] at hok
    · cases h
  | decide =>
    unfold consensusStart at h
    simp only at h
    split at h
    · rename_i hok
      rw [step_decide_eq] at hok ⊢
      rw [h] at hok ⊢
      simp only at hok ⊢
      rcases decideStep_cases s slot with ⟨_, h2, _⟩ | ⟨c', hst, hc, _, _, _⟩
      · rw [h2] at hok; cases hok
      · exact ⟨c', hst, hc, fun hh => by cases hh⟩
    · cases h
  | begin _ => simp [consensusStart] at h
  | decided _ _ _ _ _ _ => simp [consensusStart] at h
  | decidedSF _ _ _ _ _ _ => simp [consensusStart] at h
  | commits _ _ => simp [consensusStart] at h
  | compact _ => simp [consensusStart] at h
  | restart _ => simp [consensusStart] at h

/-- within a process the controller height never goes down -/
theorem step_height_mono (s : State) (op : Op) (hop : ∀ f, op ≠ .restart f) : s.c.height ≤ (step s op).1.c.height := by
  rcases step_cs s op with ⟨hc, _⟩ | ⟨slot, c', hst, hc, _⟩ | ⟨h, m, ok, hc, _⟩ | ⟨h, m, ok, hc, _⟩ |
    ⟨h, m, ok, _, hc, _⟩ | ⟨h, m, ok, _, hc, _⟩ | ⟨root, vc, hc, _⟩ | ⟨h, hc, _⟩ | ⟨f, hf, _, _⟩
  · rw [hc]; exact Nat.le_refl _
  · rw [hc]; obtain ⟨h1, _, h2, _⟩ := startNewInstance_ok hst; omega
  · rw [hc]
    exact processMsg_height_ge _ _ _ _ _ _
  · rw [hc]
    unfold decidedViaRunner
    simp only
    have : s.c.height ≤ (processMsg s.q s.c s.s h m ok).1.height := processMsg_height_ge _ _ _ _ _ _
    split
    · rw [compactAt_height]; exact this
    · exact this
  · rw [hc]; exact processMsg_height_ge _ _ _ _ _ _
  · rw [hc]
    unfold decidedViaRunnerSF
    simp only
    split
    · rw [compactAt_height]; exact processMsg_height_ge _ _ _ _ _ _
    · exact processMsg_height_ge _ _ _ _ _ _
  · rw [hc]
    rcases commitsStep_cases s root vc with ⟨h0, _⟩ | ⟨_, _, _, _, _, _, _, hc', _⟩
    · rw [h0]; exact Nat.le_refl _
    · rw [hc']; exact Nat.le_refl _
  · rw [hc, compactAt_height]; exact Nat.le_refl _
  · exact absurd hf (hop f)

/-! ## seen heights vs controller height (all nodes) -/

def SeenLe (s : State) (seen : List Nat) : Prop := ∀ h ∈ seen, h ≤ s.c.height

theorem step_restart_c (s : State) (f : Bool) : (step s (.restart f)).1.c = (loadHighest (newCtrl f) s.s).1 :=
  (restartStep_cs s f).1

/-- controller after a `decided` op -/
theorem step_decided_c (s : State) (h r root : Nat) (sg : List Nat) (ok via : Bool) :
    (step s (.decided h r root sg ok via)).1.c = (processMsg s.q s.c s.s h ⟨r, root, sg⟩ ok).1 ∨
    (step s (.decided h r root sg ok via)).1.c = compactAt (processMsg s.q s.c s.s h ⟨r, root, sg⟩ ok).1 h := by
  cases via
  · left; rfl
  · show (decidedViaRunner s h ⟨r, root, sg⟩ ok).1.c = _ ∨ (decidedViaRunner s h ⟨r, root, sg⟩ ok).1.c = _
    unfold decidedViaRunner
    simp only
    split
    · right; rfl
    · left; rfl

theorem step_decidedSF_c (s : State) (h r root : Nat) (sg : List Nat) (ok via : Bool) :
    (step s (.decidedSF h r root sg ok via)).1.c = (processMsg s.q s.c s.s h ⟨r, root, sg⟩ ok).1 ∨
    (step s (.decidedSF h r root sg ok via)).1.c = compactAt (processMsg s.q s.c s.s h ⟨r, root, sg⟩ ok).1 h := by
  cases via
  · left; rfl
  · show (decidedViaRunnerSF s h ⟨r, root, sg⟩ ok).1.c = _ ∨ (decidedViaRunnerSF s h ⟨r, root, sg⟩ ok).1.c = _
    unfold decidedViaRunnerSF
    simp only
    split
    · right; rfl
    · left; rfl

/-- start / begin / decide: either the controller is untouched and no consensus starts, or `StartNewInstance` succeeded -/
theorem startish_cases (s : State) (op : Op) (hop : (∃ slot, op = .start slot) ∨ (∃ slot, op = .begin slot) ∨ op = .decide) :
    (consensusStart s op = none ∧ (step s op).1.c = s.c) ∨
    (∃ slot c', consensusStart s op = some slot ∧ startNewInstance s.c slot = .ok c' ∧ (step s op).1.c = c') := by
  cases hcs : consensusStart s op with
  | some slot =>
    right
    obtain ⟨c', h1, h2, _⟩ := consensusStart_ok hcs
    exact ⟨slot, c', rfl, h1, h2⟩
  | none =>
    left
    refine ⟨rfl, ?_⟩
    rcases hop with ⟨slot, rfl⟩ | ⟨slot, rfl⟩ | rfl
    · unfold consensusStart at hcs
      simp only at hcs
      split at hcs
      · cases hcs
      · rename_i hne
        rw [step_start_eq] at hne ⊢
        obtain ⟨hbc, _, _⟩ := beginStep_cs s slot
        split
        · rename_i hb
          simp only [hb, if_true] at hne
          rcases decideStep_cases (beginStep s slot).1 slot with ⟨h1, _⟩ | ⟨_, _, _, _, _, h2⟩
          · rw [h1]; exact hbc
          · exact absurd h2 hne
        · exact hbc
    · exact (beginStep_cs s slot).1
    · unfold consensusStart at hcs
      simp only at hcs
      rw [step_decide_eq] at hcs ⊢
      cases hd : s.r.duty with
      | none => rfl
      | some slot =>
        rw [hd] at hcs
        simp only at hcs ⊢
        rcases decideStep_cases s slot with ⟨h1, _⟩ | ⟨_, _, _, _, _, h2⟩
        · rw [h1]
        · simp [h2] at hcs

theorem SeenLe.step {s : State} {seen : List Nat} (hs : SeenLe s seen) (op : Op) :
    SeenLe (step s op).1 (seenStep s seen op) := by
  intro x hx
  cases op with
  | restart f =>
    rw [step_restart_c]
    unfold seenStep at hx
    simp only at hx
    cases ha : s.s.highest with
    | none => simp [ha] at hx
    | some a =>
      rw [ha] at hx
      simp only [List.mem_singleton] at hx
      rw [(loadHighest_some ha).1, hx]
      exact Nat.le_refl _
  | decided h r root sg ok via =>
    have hmono := step_height_mono s (.decided h r root sg ok via) (fun f hf => by cases hf)
    unfold seenStep at hx
    simp only [List.mem_append] at hx
    rcases hx with hx | hx
    · exact Nat.le_trans (hs x hx) hmono
    · unfold learns at hx
      simp only at hx
      split at hx
      · rename_i hv
        simp only [List.mem_singleton] at hx
        subst hx
        simp only [Bool.and_eq_true, decide_eq_true_eq] at hv
        have hp : x ≤ (processMsg s.q s.c s.s x ⟨r, root, sg⟩ ok).1.height := by
          have he : processMsg s.q s.c s.s x ⟨r, root, sg⟩ ok = uponDecided s.c s.s x ⟨r, root, sg⟩ := by
            unfold processMsg
            have : ¬ sg.length < s.q := by omega
            simp [hv.1, this]
          rw [he]; exact (uponDecided_height_ge _ _ _ _).1
        rcases step_decided_c s x r root sg ok via with hc | hc
        · rw [hc]; exact hp
        · rw [hc, compactAt_height]; exact hp
      · simp at hx
  | decidedSF h r root sg ok via =>
    have hmono := step_height_mono s (.decidedSF h r root sg ok via) (fun f hf => by cases hf)
    unfold seenStep at hx
    simp only [List.mem_append] at hx
    rcases hx with hx | hx
    · exact Nat.le_trans (hs x hx) hmono
    · unfold learns at hx
      simp only at hx
      split at hx
      · rename_i hv
        simp only [List.mem_singleton] at hx
        subst hx
        simp only [Bool.and_eq_true, decide_eq_true_eq] at hv
        have hp : x ≤ (processMsg s.q s.c s.s x ⟨r, root, sg⟩ ok).1.height := by
          have he : processMsg s.q s.c s.s x ⟨r, root, sg⟩ ok = uponDecided s.c s.s x ⟨r, root, sg⟩ := by
            unfold processMsg
            have : ¬ sg.length < s.q := by omega
            simp [hv.1, this]
          rw [he]; exact (uponDecided_height_ge _ _ _ _).1
        rcases step_decidedSF_c s x r root sg ok via with hc | hc
        · rw [hc]; exact hp
        · rw [hc, compactAt_height]; exact hp
      · simp at hx
  | commits root vc =>
    have hmono := step_height_mono s (.commits root vc) (fun f hf => by cases hf)
    unfold seenStep learns consensusStart at hx
    simp only [Option.toList, List.append_nil] at hx
    exact Nat.le_trans (hs x hx) hmono
  | compact h =>
    have hmono := step_height_mono s (.compact h) (fun f hf => by cases hf)
    unfold seenStep learns consensusStart at hx
    simp only [Option.toList, List.append_nil] at hx
    exact Nat.le_trans (hs x hx) hmono
  | start slot =>
    have hmono := step_height_mono s (.start slot) (fun f hf => by cases hf)
    unfold seenStep learns at hx
    simp only [List.mem_append] at hx
    rcases hx with hx | hx
    · exact Nat.le_trans (hs x hx) hmono
    · rcases startish_cases s (.start slot) (Or.inl ⟨slot, rfl⟩) with ⟨hn, _⟩ | ⟨sl, c', hcs, hst, hc⟩
      · rw [hn] at hx; simp at hx
      · rw [hcs] at hx
        simp only [Option.toList, List.mem_singleton] at hx
        rw [hc, (startNewInstance_ok hst).2.2.1, hx]
        exact Nat.le_refl _
  | begin slot =>
    have hmono := step_height_mono s (.begin slot) (fun f hf => by cases hf)
    unfold seenStep learns consensusStart at hx
    simp only [Option.toList, List.append_nil] at hx
    exact Nat.le_trans (hs x hx) hmono
  | decide =>
    have hmono := step_height_mono s .decide (fun f hf => by cases hf)
    unfold seenStep learns at hx
    simp only [List.mem_append] at hx
    rcases hx with hx | hx
    · exact Nat.le_trans (hs x hx) hmono
    · rcases startish_cases s .decide (Or.inr (Or.inr rfl)) with ⟨hn, _⟩ | ⟨sl, c', hcs, hst, hc⟩
      · rw [hn] at hx; simp at hx
      · rw [hcs] at hx
        simp only [Option.toList, List.mem_singleton] at hx
        rw [hc, (startNewInstance_ok hst).2.2.1, hx]
        exact Nat.le_refl _

theorem SeenLe.runSeen {s : State} {seen : List Nat} (hs : SeenLe s seen) (ops : List Op) :
    SeenLe (runSeen s seen ops).1 (runSeen s seen ops).2 := by
  induction ops generalizing s seen with
  | nil => exact hs
  | cons op ops ih => exact ih (hs.step op)

end Ssv.Heights
