/-
C10 emission bridge, part 1 — the translation from the QBFT node model's messages to the validation model's decoded
consensus message, and the proof that the STRUCTURAL facts the node establishes about its own broadcasts
(`HonestInst` for instance messages, `HonestDecided` for aggregated decided messages) imply the abstract emission
predicate `Validation.HonestConsensus` that `C10_emitted_not_rejected` consumes.

What stays outside both models and is therefore an explicit hypothesis (`EnvelopeOk`): the encoded size of the SSV
message, the role / public key of the message id, the operator-signature envelope, and the BLS signature BYTES
(96 bytes, not all zero) — the QBFT model only carries the verification result `sigOk`.

The validation model treats `instance.IsProposalJustification(...) == nil` as an abstract Boolean (`QMsg.justOk`).
`toValidationMsg` DEFINES it, for a message of the node model, as the node model's own `isProposalJustification`
evaluated the way the validator calls it (`IsProposalJustification`: state height := message height, state identifier :=
message identifier, value check := always nil): `justBridge`. This is the bridge hypothesis  `justOk msg = (Qbft.isProposalJustification …).isOk`.
(For the empty value id 0 the node model's `valOk` is false by a modelling convention while the validator's check
is nil; emitted proposals never carry the empty value, so the two coincide on every emitted message.)
-/
import Ssv.Proofs.ValidationHonest
import Ssv.Proofs.QbftCert
set_option linter.unusedSimpArgs false
set_option linter.unusedVariables false

namespace Ssv.Emission
open Ssv

/-! ## the translation -/

/-- the signature bytes of the encoded message (outside the QBFT model) -/
structure Wire where
  sigLen : Nat
  sigZero : Bool

/-- the configuration / state `validateJustifications` builds for `IsProposalJustification`: same committee / quorum,
    value check `func(data []byte) error { return nil }`, `state.ID` := the identifier of the MESSAGE under validation
    (repo fix e1612ceed: embedded justifications must carry that identifier) -/
def validatorCfg (cfg : Qbft.Cfg) (ident : Nat) : Qbft.Cfg := { cfg with valCheck := fun _ => true, ident := ident }

/-- BRIDGE: the abstract Boolean `justOk` of the validation model, for a message of the node model, is the node
    model's `isProposalJustification` as `IsProposalJustification(config, share, rcj, pj, height, round, fullData)`
    evaluates it (`state.Height := height`, `state.ID := identifier of the message`) -/
def justBridge (cfg : Qbft.Cfg) (m : Qbft.Msg) : Bool :=
  (Qbft.isProposalJustification (validatorCfg cfg m.ident) m.height m.rcJust m.prepJust m.height m.round m.fullData).isOk

/-- a broadcast of the node (`.bcast m` / `.bcastDecided m`) as the peer's validator decodes it:
    type, height (= slot), round, signers, root, full data (absent iff empty; present = id of its hash, `hashData`),
    justification shape (lengths; decodability = the model's `malformed` flag), `justOk` = `justBridge` -/
def toValidationMsg (cfg : Qbft.Cfg) (w : Wire) (m : Qbft.Msg) : Validation.QMsg :=
  { mtype := m.type, height := m.height, round := m.round, root := m.root,
    fullData := if m.fullData = 0 then none else some (Qbft.hashData m.fullData),
    signers := m.signers, sigLen := w.sigLen, sigZero := w.sigZero,
    pjMalformed := m.malformed, pjLen := m.prepJust.length,
    rcjMalformed := m.malformed, rcjLen := m.rcJust.length,
    justOk := justBridge cfg m }

/-! ## the two round-robin proposer models agree -/

theorem toInt64_eq (x : Nat) : Qbft.toInt64 x = Validation.wrapI64 (x : Int) := by
  unfold Qbft.toInt64
  simp only
  by_cases h : x % Qbft.two64 < Qbft.two63
  · rw [if_pos h]
    simp only [Validation.wrapI64, Validation.two63, Validation.two64, Qbft.two64, Qbft.two63] at h ⊢
    omega
  · rw [if_neg h]
    simp only [Validation.wrapI64, Validation.two63, Validation.two64, Qbft.two64, Qbft.two63] at h ⊢
    omega

theorem wrap64_eq (i : Int) : Qbft.wrap64 i = Validation.wrapI64 i := by
  unfold Qbft.wrap64
  rw [toInt64_eq]
  simp only [Validation.wrapI64, Validation.two63, Validation.two64, Qbft.two64]
  omega

theorem proposerIndex_eq (n h r : Nat) : Qbft.proposerIndex n h r = Validation.leaderIndex n h r := by
  unfold Qbft.proposerIndex Validation.leaderIndex Validation.toInt64 Validation.goMod
  simp only [wrap64_eq, toInt64_eq]
  have e1 : Validation.wrapI64 ((Qbft.firstRound : Nat) : Int) = (Gen.val_FirstRound : Int) := by decide
  have e2 : Qbft.firstHeight = Gen.val_FirstHeight := rfl
  rw [e1, e2]

/-- the node's `ProposerF` (`Qbft.roundRobinProposer`) and the validator's leader computation return the same operator -/
theorem proposer_agree (c : List Nat) (h r l : Nat) (hq : Qbft.roundRobinProposer c h r = some l) :
    Validation.roundRobinProposer c h r = .ok l := by
  unfold Qbft.roundRobinProposer at hq
  unfold Validation.roundRobinProposer
  split at hq
  · cases hq
  · rename_i hne
    have hlen : ¬ (c.length = 0) := by
      intro h0
      apply hne
      simp [List.length_eq_zero_iff.mp h0]
    simp only [hlen, if_false]
    rw [proposerIndex_eq] at hq
    simp only at hq
    split at hq
    · cases hq
    · rename_i hneg
      simp only [hneg, if_false]
      rw [hq]

/-! ## what the node establishes about its own broadcasts (structural form, over the node model's messages) -/

/-- side conditions on the node's configuration: it is a committee member, operator ids are non-zero, the proposer
    function is the round-robin one (the node's `ProposerF`), quorum ≥ 1 -/
structure CfgWF (cfg : Qbft.Cfg) : Prop where
  own : cfg.own ∈ cfg.committee
  nozero : 0 ∉ cfg.committee
  proposer : cfg.proposer = Qbft.roundRobinProposer cfg.committee
  quorum : 1 ≤ cfg.quorum

/-- an instance message (`Instance.Broadcast`) of a correct operator -/
structure HonestInst (cfg : Qbft.Cfg) (x : Qbft.Msg) : Prop where
  signer : x.signers = [cfg.own]
  ident : x.ident = cfg.ident
  type : x.type ≤ Qbft.tRoundChange
  round : 1 ≤ x.round
  wellFormed : x.malformed = false
  root : x.fullData ≠ 0 → Qbft.hashData x.fullData = x.root
  prepJustOnlyProposal : x.prepJust ≠ [] → x.type = Qbft.tProposal
  rcJustOnlyProposalRC : x.rcJust ≠ [] → x.type = Qbft.tProposal ∨ x.type = Qbft.tRoundChange
  leader : x.type = Qbft.tProposal → cfg.proposer x.height x.round = some cfg.own
  justified : x.type = Qbft.tProposal →
    Qbft.isProposalJustification cfg x.height x.rcJust x.prepJust x.height x.round x.fullData = .ok ()

/-- an aggregated decided message (`Controller.broadcastDecided`) of a correct operator: a valid certificate (commit type,
    distinct non-zero committee signers, at least a quorum, root = hash(full data)) whose signers are SORTED, of a
    round ≥ 1, without justification fields -/
structure HonestDecided (cfg : Qbft.Cfg) (d : Qbft.Msg) : Prop where
  cert : Qbft.ValidCert cfg d
  sorted : d.signers.Pairwise (· < ·)
  round : 1 ≤ d.round
  wellFormed : d.malformed = false
  noJust : d.rcJust = [] ∧ d.prepJust = []

/-- the peer's share describes the same committee -/
structure ShareMatches (cfg : Qbft.Cfg) (sh : Validation.Share) : Prop where
  committee : sh.committee = cfg.committee
  quorum : sh.quorum = cfg.quorum

/-- everything about the transported message that neither model describes (runner / network layer) -/
structure EnvelopeOk (i : Validation.Input) (w : Wire) : Prop where
  size : i.dataLen ≤ Gen.val_maxConsensusMsgSize
  role : Validation.validRole i.role = true
  consensusRole : (i.role == Gen.val_BNRoleValidatorRegistration || i.role == Gen.val_BNRoleVoluntaryExit) = false
  key : i.pkOk = true
  sig : w.sigLen = Gen.val_signatureSize ∧ w.sigZero = false
  env : i.envSig = .none ∨ i.envSig = .valid

/-! ## the validator's call of the justification predicate agrees with the node's on non-empty values -/

theorem validatorCfg_valOk (cfg : Qbft.Cfg) (id v : Nat) (h : cfg.valOk v = true) : (validatorCfg cfg id).valOk v = true := by
  unfold Qbft.Cfg.valOk at h ⊢
  simp only [Bool.and_eq_true] at h
  simp [validatorCfg, h.1]

theorem isProposalJustification_validator (cfg : Qbft.Cfg) (sh : Nat) (rcs : List Qbft.Lvl1) (ps : List Qbft.Base)
    (h r fd : Nat) (hv : cfg.valOk fd = true) :
    Qbft.isProposalJustification (validatorCfg cfg cfg.ident) sh rcs ps h r fd =
      Qbft.isProposalJustification cfg sh rcs ps h r fd := by
  have h1 := validatorCfg_valOk cfg cfg.ident fd hv
  unfold Qbft.isProposalJustification
  rw [h1, hv]
  rfl

theorem justBridge_of_justified (cfg : Qbft.Cfg) (x : Qbft.Msg) (hi : x.ident = cfg.ident)
    (h : Qbft.isProposalJustification cfg x.height x.rcJust x.prepJust x.height x.round x.fullData = .ok ()) :
    justBridge cfg x = true := by
  unfold justBridge
  rw [hi, isProposalJustification_validator cfg _ _ _ _ _ _ (Qbft.isProposalJustification_value _ _ _ _ _ _ _ _ h), h]
  rfl

/-! ## structural facts ⇒ the abstract emission predicate -/

theorem validateJustifications_of (cfg : Qbft.Cfg) (w : Wire) (x : Qbft.Msg) (hm : x.malformed = false)
    (hpj : x.prepJust ≠ [] → x.type = Qbft.tProposal)
    (hrcj : x.rcJust ≠ [] → x.type = Qbft.tProposal ∨ x.type = Qbft.tRoundChange)
    (hj : x.type = Qbft.tProposal → justBridge cfg x = true) :
    Validation.validateJustifications (toValidationMsg cfg w x) = .ok () := by
  unfold Validation.validateJustifications
  apply (Validation.firstFail_ok_iff _).mpr
  intro c hc
  simp only [List.mem_cons, List.mem_nil_iff, or_false] at hc
  rcases hc with h | h | h | h | h <;> subst h <;> apply (Validation.rejectIf_ok_iff _ _).mpr
  · exact hm
  · show (decide (x.prepJust.length ≠ 0) && (x.type != Gen.val_ProposalMsgType)) = false
    by_cases hp : x.prepJust = []
    · simp [hp]
    · have := hpj hp
      rw [this]
      have e : (Qbft.tProposal != Gen.val_ProposalMsgType) = false := by decide
      rw [e]; simp
  · exact hm
  · show (decide (x.rcJust.length ≠ 0) && (x.type != Gen.val_ProposalMsgType) && (x.type != Gen.val_RoundChangeMsgType)) = false
    by_cases hp : x.rcJust = []
    · simp [hp]
    · rcases hrcj hp with h | h <;> rw [h]
      · have e : (Qbft.tProposal != Gen.val_ProposalMsgType) = false := by decide
        rw [e]; simp
      · have e : (Qbft.tRoundChange != Gen.val_RoundChangeMsgType) = false := by decide
        rw [e]; simp
  · show (decide (x.type == Gen.val_ProposalMsgType) && !justBridge cfg x) = false
    by_cases hp : x.type = Qbft.tProposal
    · rw [hj hp]; simp
    · have : (x.type == Gen.val_ProposalMsgType) = false := by
        have e : Gen.val_ProposalMsgType = Qbft.tProposal := rfl
        rw [e]; simpa using hp
      rw [this]; rfl

theorem own_ne_zero (cfg : Qbft.Cfg) (hc : CfgWF cfg) : cfg.own ≠ 0 := by
  intro h
  exact hc.nozero (h ▸ hc.own)

/-- instance messages -/
theorem honestConsensus_of_inst (cfg : Qbft.Cfg) (hc : CfgWF cfg) (x : Qbft.Msg) (hx : HonestInst cfg x)
    (sh : Validation.Share) (hsh : ShareMatches cfg sh) (i : Validation.Input) (w : Wire) (he : EnvelopeOk i w) :
    Validation.HonestConsensus i sh (toValidationMsg cfg w x) where
  size := he.size
  role := he.role
  consensusRole := he.consensusRole
  key := he.key
  sig := he.sig
  mtype := (Validation.validQBFT_iff _).mpr hx.type
  round := hx.round
  signers := by
    left
    refine ⟨cfg.own, hx.signer, own_ne_zero cfg hc, by rw [hsh.committee]; exact hc.own, ?_⟩
    intro hp
    have hp' : x.type = Qbft.tProposal := hp
    have hl := hx.leader hp'
    rw [hc.proposer] at hl
    show Validation.roundRobinProposer sh.committee x.height x.round = .ok cfg.own
    rw [hsh.committee]
    exact proposer_agree _ _ _ _ hl
  root := by
    intro h hh
    show h = x.root
    have hh' : (if x.fullData = 0 then none else some (Qbft.hashData x.fullData)) = some h := hh
    split at hh'
    · cases hh'
    · rename_i hne
      injection hh' with hh'
      rw [← hh']
      exact hx.root hne
  just := validateJustifications_of cfg w x hx.wellFormed hx.prepJustOnlyProposal hx.rcJustOnlyProposalRC
    (fun hp => justBridge_of_justified cfg x hx.ident (hx.justified hp))
  env := he.env

theorem pairwise_lt_pos_length_one {l : List Nat} (h : l.length = 1) : ∃ a, l = [a] := by
  match l, h with
  | [a], _ => exact ⟨a, rfl⟩

/-- aggregated decided messages -/
theorem honestConsensus_of_decided (cfg : Qbft.Cfg) (hc : CfgWF cfg) (d : Qbft.Msg) (hd : HonestDecided cfg d)
    (sh : Validation.Share) (hsh : ShareMatches cfg sh) (i : Validation.Input) (w : Wire) (he : EnvelopeOk i w) :
    Validation.HonestConsensus i sh (toValidationMsg cfg w d) where
  size := he.size
  role := he.role
  consensusRole := he.consensusRole
  key := he.key
  sig := he.sig
  mtype := (Validation.validQBFT_iff _).mpr (by show d.type ≤ 3; rw [hd.cert.isCommit]; decide)
  round := hd.round
  signers := by
    have hmem : ∀ s ∈ d.signers, s ≠ 0 ∧ s ∈ sh.committee := by
      intro s hs
      refine ⟨fun h0 => hd.cert.nozero (h0 ▸ hs), ?_⟩
      rw [hsh.committee]; exact hd.cert.committee s hs
    have hq : cfg.quorum ≤ d.signers.length := hd.cert.quorum
    have hq1 := hc.quorum
    by_cases h1 : d.signers.length = 1
    · obtain ⟨a, ha⟩ := pairwise_lt_pos_length_one h1
      left
      refine ⟨a, ha, (hmem a (by rw [ha]; simp)).1, (hmem a (by rw [ha]; simp)).2, ?_⟩
      intro hp
      have hp' : d.type = Gen.val_ProposalMsgType := hp
      rw [hd.cert.isCommit] at hp'
      exact absurd hp' (by decide)
    · right
      refine ⟨hd.cert.isCommit, by show 2 ≤ d.signers.length; omega, by rw [hsh.quorum]; exact hq, ?_, hd.sorted, hmem⟩
      show d.signers.length ≤ sh.committee.length
      rw [hsh.committee]
      exact List.Nodup.length_le_of_subset hd.cert.nodup (fun s hs => hd.cert.committee s hs)
  root := by
    intro h hh
    show h = d.root
    have hh' : (if d.fullData = 0 then none else some (Qbft.hashData d.fullData)) = some h := hh
    split at hh'
    · cases hh'
    · injection hh' with hh'
      rw [← hh']
      exact hd.cert.hash
  just := validateJustifications_of cfg w d hd.wellFormed (by intro h; exact absurd hd.noJust.2 h)
    (by intro h; exact absurd hd.noJust.1 h)
    (by intro hp; rw [hd.cert.isCommit] at hp; exact absurd hp (by decide))
  env := he.env

end Ssv.Emission
