/-
C10 emission bridge, part 7 — the container invariant `SkewInv` in the multi-node system: in every state of `SystemB`
reached through IN-ROUND deliveries (`ReachableT`: a delivered round-change is for a round ≤ State.Round + 1, a delivered
decided message is not for a round below State.Round, the step does not panic; starts and timeouts — also stale ones —
are unconstrained), every correct operator's instance satisfies `SkewInv`, hence every in-round delivery satisfies the
timing hypothesis `TimelyAction` of the headline theorem.
-/
import Ssv.Proofs.EmissionBridgeSkew
set_option linter.unusedSimpArgs false
set_option linter.unusedVariables false

namespace Ssv.Emission
open Ssv Ssv.Qbft Ssv.Qbft.B

/-! ## the instance of the height after a controller step (one-height container) -/

/-- `StartNewInstance`: nothing changes, or a fresh instance (empty containers) appears -/
theorem start_inst (cfg : Cfg) (h : Nat) (c : Ctrl) (v : Nat) (hs : Shape h c) (hcap : 1 ≤ cfg.capacity) :
    instAt h (c.startNewInstance cfg h v).ct = instAt h c ∨
    ∃ s', instAt h (c.startNewInstance cfg h v).ct = some s' ∧ s'.roundChange = [] := by
  unfold Ctrl.startNewInstance
  split
  · left; rfl
  · split
    · left; rfl
    · split
      · left; rfl
      · rename_i hnone
        rcases hs with hc | ⟨s, hc, hsh⟩
        · right
          obtain ⟨e1, _, _⟩ := start_spec cfg h v
          have hins : addNewInstance cfg.capacity c.insts (start cfg (newInstance h) v h).st =
              [{ newInstance h with started := true, startValue := v }] := by
            rw [hc, e1]
            simp only [addNewInstance, insertByHeight]
            exact take_single _ _ hcap
          dsimp only
          split
          · exact ⟨_, instAt_of_single hins rfl, rfl⟩
          · have hfs : (forceStopOthers { height := h, insts := addNewInstance cfg.capacity c.insts (start cfg (newInstance h) v h).st }).insts =
                [{ newInstance h with started := true, startValue := v }] := by
              unfold forceStopOthers
              rw [hins]
              simp [newInstance]
            exact ⟨_, instAt_of_single hfs rfl, rfl⟩
        · exfalso
          have : (findInstance c.insts h).isSome = true := by simp [findInstance, hc, hsh]
          exact hnone this

theorem uponRoundTimeout_height (cfg : Cfg) (s : State) : (uponRoundTimeout cfg s).st.height = s.height := by
  by_cases hcp : canProcess cfg s = true
  · rw [uponRoundTimeout_progress cfg s hcp]
  · have hc' : canProcess cfg s = false := by simpa using hcp
    unfold uponRoundTimeout
    simp only [hc', Bool.not_false, if_true]

/-- `OnTimeout`: nothing changes, or the stored instance runs `UponRoundTimeout` -/
theorem timeout_inst (cfg : Cfg) (h : Nat) (c : Ctrl) (r : Nat) (hs : Shape h c) :
    instAt h (c.onTimeout cfg h r).ct = instAt h c ∨
    ∃ s, instAt h c = some s ∧ instAt h (c.onTimeout cfg h r).ct = some (uponRoundTimeout cfg s).st := by
  rcases hs with hc | ⟨s, hc, hsh⟩
  · left
    unfold Ctrl.onTimeout
    simp only [hc, findInstance, List.find?_nil]
  · have hf : findInstance c.insts h = some s := by simp [findInstance, hc, hsh]
    have hi0 : instAt h c = some s := instAt_of_single hc hsh
    unfold Ctrl.onTimeout
    simp only [hf]
    split
    · left; rfl
    · split
      · left; rfl
      · right
        refine ⟨s, hi0, ?_⟩
        have hht : (uponRoundTimeout cfg s).st.height = s.height := uponRoundTimeout_height cfg s
        have hins : updateInstance c.insts (uponRoundTimeout cfg s).st = [(uponRoundTimeout cfg s).st] := by
          rw [hc]; exact updateInstance_single hht
        have key : ∀ (res : COutcome),
            instAt h (⟨{ c with insts := updateInstance c.insts (uponRoundTimeout cfg s).st }, (uponRoundTimeout cfg s).outs, res⟩ : CStep).ct =
              some (uponRoundTimeout cfg s).st := by
          intro res
          exact instAt_of_single hins (by rw [hht, hsh])
        split <;> exact key _

/-- `Controller.ProcessMsg`: nothing changes; or `UponDecided` creates a fresh instance / moves the round of the stored one
    to the decided message's round / only extends its commit container; or the stored instance runs `ProcessMsg` -/
theorem deliver_inst (cfg : Cfg) (h : Nat) (c : Ctrl) (m : Msg) (hs : Shape h c) (hcap : 1 ≤ cfg.capacity)
    (hdec : validateDecided cfg m = .ok () → m.ident = cfg.ident → m.height = h) :
    instAt h (c.processMsg cfg m).ct = instAt h c ∨
    (∃ s', instAt h (c.processMsg cfg m).ct = some s' ∧ s'.roundChange = []) ∨
    (∃ s s', instAt h c = some s ∧ instAt h (c.processMsg cfg m).ct = some s' ∧ s'.roundChange = s.roundChange ∧
      (s'.round = s.round ∨ (isDecidedMsg cfg m = true ∧ s'.round = m.round))) ∨
    (∃ s, instAt h c = some s ∧ instAt h (c.processMsg cfg m).ct = some (processMsg cfg s m).st ∧
      ((processMsg cfg s m).res = .panic → (c.processMsg cfg m).res = .panic)) := by
  unfold Ctrl.processMsg
  split
  · left; rfl
  · rename_i hid
    have hid' : m.ident = cfg.ident := by simpa using hid
    split
    · rename_i hdm
      by_cases hv : validateDecided cfg m = .ok ()
      · have hh := hdec hv hid'
        rcases hs with hc | ⟨s, hc, hsh⟩
        · obtain ⟨h1, _⟩ := uponDecided_empty cfg c m hc hcap hv
          right; left
          exact ⟨_, instAt_of_single h1 hh, rfl⟩
        · have hsm : s.height = m.height := by rw [hsh, hh]
          have hi0 : instAt h c = some s := instAt_of_single hc hsh
          cases hd : s.decided with
          | false =>
            obtain ⟨h1, _⟩ := uponDecided_undecided cfg c m s hc hsm hd hv
            right; right; left
            exact ⟨s, _, hi0, instAt_of_single h1 hsh, rfl, Or.inr ⟨hdm, rfl⟩⟩
          | true =>
            obtain ⟨h1, _⟩ := uponDecided_decided cfg c m s hc hsm hd hv
            rcases h1 with h1 | h1
            · left; rw [hi0]; exact instAt_of_single h1 hsh
            · right; right; left
              exact ⟨s, _, hi0, instAt_of_single h1 hsh, rfl, Or.inl rfl⟩
      · left; rw [(uponDecided_rejected cfg c m hv).1]
    · split
      · left; rfl
      · rcases hs with hc | ⟨s, hc, hsh⟩
        · left
          unfold uponExistingInstanceMsg
          simp only [hc, findInstance, List.find?_nil]
        · by_cases hmh : m.height = h
          · have hf : findInstance c.insts m.height = some s := by simp [findInstance, hc, hsh, hmh]
            have hi0 : instAt h c = some s := instAt_of_single hc hsh
            right; right; right
            refine ⟨s, hi0, ?_, ?_⟩
            · obtain ⟨h1, _, _⟩ := uponExisting_outs (N := Unit) () cfg c m s hf
              have hht := (processMsg_spec cfg s m).height
              rw [hc, updateInstance_single hht] at h1
              exact instAt_of_single h1 (by rw [hht, hsh])
            · intro hp
              unfold uponExistingInstanceMsg
              simp only [hf, hp]
          · left
            unfold uponExistingInstanceMsg
            rw [hc, findInstance_single_ne hsh hmh]

/-! ## in-round reachability -/

def SkewO (cfg : Cfg) : Option State → Prop
  | none => True
  | some s => SkewInv cfg s

/-- IN-ROUND delivery (the property's "messages arrive within the round", with one round of skew): a round-change is for a
    round ≤ State.Round + 1; a decided message is not for a round below State.Round; the receiving operator does not crash -/
def InRoundAction {P : Params} (σ : Sys P) : Action P → Prop
  | .deliver i m =>
    (∀ s, instAt P.height (σ.ctrl i) = some s →
      (m.type = tRoundChange → m.round ≤ s.round + 1) ∧ (isDecidedMsg (P.cfg i) m = true → s.round ≤ m.round)) ∧
    ((σ.ctrl i).processMsg (P.cfg i) m).res ≠ .panic
  | _ => True

/-- reachability through in-round deliveries (starts and timeouts unconstrained) -/
inductive ReachableT {P : Params} : Sys P → Prop
  | init : ReachableT (Sys.init P)
  | step {σ : Sys P} (a : Action P) : ReachableT σ → enabled σ a = true → InRoundAction σ a → ReachableT (step σ a)

theorem ReachableT.reachable {P : Params} {σ : Sys P} (h : ReachableT σ) : Reachable σ := by
  induction h with
  | init => exact Reachable.init
  | step a _ hen _ ih => exact Reachable.step a ih hen

theorem kernel_partialQuorum (P : Params) (hP : P.Valid) : P.partialQuorum = P.f + 1 := by
  have hf := hP.size
  unfold Params.partialQuorum Params.n Gen.k_ComputeQuorumAndPartialQuorum
  simp only
  have e1 : Int.tdiv (((3 * P.f + 1 : Nat) : Int) - 1) 3 = (P.f : Int) := by
    have : ((3 * P.f + 1 : Nat) : Int) - 1 = 3 * (P.f : Int) := by omega
    rw [this, Int.tdiv_eq_ediv_of_nonneg (by omega)]
    omega
  rw [e1]
  unfold Gen.toUint64
  have : ((P.f : Int) + 1) % 18446744073709551616 = (P.f : Int) + 1 := by
    apply Int.emod_eq_of_lt <;> omega
  rw [this]
  omega

theorem quorumWF_of_params (P : Params) (hP : P.Valid) (hf : 1 ≤ P.f) (i : Op P) : QuorumWF (P.cfg i) where
  pqPos := by show 1 ≤ P.partialQuorum; rw [kernel_partialQuorum P hP]; omega
  pqLt := by show P.partialQuorum < P.quorum; rw [kernel_partialQuorum P hP, kernel_quorum P hP]; omega

theorem step_ctrl_actor {P : Params} (σ : Sys P) (a : Action P) : (step σ a).ctrl (actor a) = stepCtrl σ a := by
  cases a <;> simp [step, Sys.update, actor, stepCtrl]

theorem step_ctrl_other {P : Params} (σ : Sys P) (a : Action P) (j : Op P) (hj : j ≠ actor a) :
    (step σ a).ctrl j = σ.ctrl j := by
  cases a <;> simp [step, Sys.update, actor] at hj ⊢ <;> simp [hj]

/-- the container invariant holds at every correct operator in every state reached through in-round deliveries -/
theorem skew_of_reachableT {P : Params} (hP : P.Valid) (hf : 1 ≤ P.f) {σ : Sys P} (h : ReachableT σ) :
    ∀ i, SkewO (P.cfg i) (instAt P.height (σ.ctrl i)) := by
  induction h with
  | init =>
    intro i
    have : instAt P.height ((Sys.init P).ctrl i) = none := instAt_of_nil rfl
    rw [this]; trivial
  | step a hr hen hin ih =>
    rename_i σ0
    have hinv := inv_of_reachable hP hr.reachable
    intro j
    by_cases hji : j = actor a
    · subst hji
      rw [step_ctrl_actor]
      have hq := quorumWF_of_params P hP hf (actor a)
      have ih0 := ih (actor a)
      cases a with
      | start i v =>
        rcases start_inst (P.cfg i) P.height (σ0.ctrl i) v (hinv.shape i) (capacity_pos P i) with h1 | ⟨s', h1, h2⟩
        · show SkewO _ (instAt P.height ((σ0.ctrl i).startNewInstance (P.cfg i) P.height v).ct)
          rw [h1]; exact ih0
        · show SkewO _ (instAt P.height ((σ0.ctrl i).startNewInstance (P.cfg i) P.height v).ct)
          rw [h1]; exact skewInv_fresh _ hq s' h2
      | timeout i r =>
        rcases timeout_inst (P.cfg i) P.height (σ0.ctrl i) r (hinv.shape i) with h1 | ⟨s, h0, h1⟩
        · show SkewO _ (instAt P.height ((σ0.ctrl i).onTimeout (P.cfg i) P.height r).ct)
          rw [h1]; exact ih0
        · show SkewO _ (instAt P.height ((σ0.ctrl i).onTimeout (P.cfg i) P.height r).ct)
          rw [h1]
          have ih1 : SkewO (P.cfg i) (instAt P.height (σ0.ctrl i)) := ih0
          rw [h0] at ih1
          exact uponRoundTimeout_skew _ s ih1
      | deliver i m =>
        have hen' : P.honest i = true ∧ authentic P σ0.log m = true := by simpa [enabled] using hen
        obtain ⟨hin1, hin2⟩ := hin
        have ih1 : SkewO (P.cfg i) (instAt P.height (σ0.ctrl i)) := ih0
        show SkewO _ (instAt P.height ((σ0.ctrl i).processMsg (P.cfg i) m).ct)
        rcases deliver_inst (P.cfg i) P.height (σ0.ctrl i) m (hinv.shape i) (capacity_pos P i)
            (fun hv hid => (cert_facts hP hinv.log i m hv hen'.2 hid).height) with
          h1 | ⟨s', h1, h2⟩ | ⟨s, s', h0, h1, h2, h3⟩ | ⟨s, h0, h1, h2⟩
        · rw [h1]; exact ih1
        · rw [h1]; exact skewInv_fresh _ hq s' h2
        · rw [h1]
          rw [h0] at ih1
          refine skewInv_mono _ s s' ih1 h2 ?_
          rcases h3 with h3 | ⟨hd, h3⟩
          · omega
          · rw [h3]; exact (hin1 s h0).2 hd
        · rw [h1]
          rw [h0] at ih1
          exact processMsg_skew _ hq s m ih1 (hin1 s h0).1 (fun hp => hin2 (h2 hp))
    · rw [step_ctrl_other σ0 a j hji]
      exact ih j

/-- TIMING DISCHARGED: in a state reached through in-round deliveries, every in-round delivery satisfies the timing
    hypothesis of the headline theorem -/
theorem timely_of_inRound {P : Params} (hP : P.Valid) (hf : 1 ≤ P.f) {σ : Sys P} (hr : ReachableT σ) (a : Action P)
    (hin : InRoundAction σ a) : TimelyAction σ a := by
  cases a with
  | start i v => trivial
  | timeout i r => trivial
  | deliver i m =>
    intro s hs
    have hsk := skew_of_reachableT hP hf hr i
    rw [hs] at hsk
    exact rcQuorumInRound_of_skew _ (quorumWF_of_params P hP hf i) s m hsk (hin.1 s hs).1

/-! ## both environment assumptions together -/

/-- reachability in a correct environment: every delivery is gated (passed the operator's message validation) and
    in-round -/
inductive ReachableC {P : Params} : Sys P → Prop
  | init : ReachableC (Sys.init P)
  | step {σ : Sys P} (a : Action P) : ReachableC σ → enabled σ a = true → GatedAction a → InRoundAction σ a →
      ReachableC (step σ a)

theorem ReachableC.gated {P : Params} {σ : Sys P} (h : ReachableC σ) : ReachableG σ := by
  induction h with
  | init => exact ReachableG.init
  | step a _ hen hg _ ih => exact ReachableG.step a ih hen hg

theorem ReachableC.inRound {P : Params} {σ : Sys P} (h : ReachableC σ) : ReachableT σ := by
  induction h with
  | init => exact ReachableT.init
  | step a _ hen _ hin ih => exact ReachableT.step a ih hen hin

end Ssv.Emission
