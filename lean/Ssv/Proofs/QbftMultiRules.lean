/-
C01 all heights, part 4 — the step lemmas of the rules H0, H2–H7 for one height's trace, over `AuthT`
(adapted from QbftNodeRules/QbftNodeRules2, where authenticity came from the single-height log).
-/
import Ssv.Proofs.QbftMultiAuth
set_option linter.unusedSimpArgs false
set_option linter.unusedVariables false

namespace Ssv.Qbft.M
open Ssv.Qbft Ssv.Qbft.B

theorem validRC_height (cfg : Cfg) (sh : Nat) (rc : Lvl1) (h r fd : Nat) (u : Unit)
    (hv : validRoundChangeForData cfg sh rc h r fd = .ok u) : rc.height = h := by
  unfold validRoundChangeForData at hv
  simp only [bind_eq_ok, rejectIf_eq_ok, wrap_eq_ok] at hv
  obtain ⟨_, _, _, h2, _⟩ := hv
  simpa using h2

structure StepCtx' (P : B.Params) (hP : P.Valid) (T : List (Ev (B.Op P))) (i : B.Op P)
    (os os' : Option State) (bs : List Msg) (evs : List (Ev (B.Op P))) : Prop where
  hi : P.honest i = true
  hst : NStep (P.cfg i) P.height (AuthT P T) i os os' bs evs
  hpre : ∀ s, os = some s → NodeInv P T i s
  R : QAbs.Rules (ctxT P hP T)

section
variable {P : B.Params} {hP : P.Valid} {T : List (Ev (B.Op P))} {i : B.Op P}
  {os os' : Option State} {bs : List Msg} {evs : List (Ev (B.Op P))}

theorem kq_of_local' (hP : P.Valid) {T evs : List (Ev (B.Op P))} (i : B.Op P) (s : State) (hinv : NodeInv P T i s)
    (m p agg : Msg) (ha : AuthT P T m) (hacc : s.accepted = some p)
    (hv : validateCommit (P.cfg i) m.toBase s.height s.round p = .ok ())
    (hq : (P.cfg i).quorum ≤ (longestUniqueSigners (s.commit ++ [m]) m.round m.root).1.length)
    (hagg : aggregateCommitMsgs (longestUniqueSigners (s.commit ++ [m]) m.round m.root).2 p.fullData = .ok agg)
    {k : Nat} (hk : T.length ≤ k) : QAbs.KQ (ctxT P hP (T ++ evs)) k agg.round agg.fullData := by
  obtain ⟨hmok, hmr, hroot⟩ := commitOK_of_validateCommit' i m _ _ p hinv.height hv ha.1 ha.2.1
  have hcc : ∀ x ∈ s.commit ++ [m], CommitOK P T x ∧ x.signers.Nodup := by
    intro x hx
    rcases List.mem_append.1 hx with hx | hx
    · exact ⟨hinv.commits x hx, (hinv.commits x hx).1⟩
    · simp at hx; subst hx; exact ⟨hmok, hmok.1⟩
  have hspec := longestUniqueSigners_spec (CommitOK P T) (s.commit ++ [m]) m.round m.root hcc
  obtain ⟨hsg, hnd, hms⟩ := hspec
  obtain ⟨m0, rest, hmsgs, _, _, _, hro, _, _, hfd, _⟩ := aggregateCommitMsgs_spec _ _ _ hagg
  have hm0 : m0 ∈ (longestUniqueSigners (s.commit ++ [m]) m.round m.root).2 := by rw [hmsgs]; exact List.mem_cons_self
  have hround : agg.round = m.round := by rw [hro]; exact (hms m0 hm0).2.1
  have hp := hinv.propGood p (hinv.acc p hacc).1
  have hval : agg.fullData = m.root := by
    rw [hfd, ← hroot]; exact hp.hash
  rw [hround, hval]
  have hcomm : ∀ sg ∈ (longestUniqueSigners (s.commit ++ [m]) m.round m.root).1, sg ∈ P.committee := by
    intro sg hsgm
    rw [hsg, mem_signersOf] at hsgm
    obtain ⟨x, hx, hxs⟩ := hsgm
    exact (hms x hx).1.2.1 sg hxs
  have hq' : P.quorum ≤ uniqueCount (longestUniqueSigners (s.commit ++ [m]) m.round m.root).1 := by
    rw [uniqueCount_of_nodup _ hnd]; exact hq
  obtain ⟨S, hS, hm⟩ := quorum_set P _ P.quorum hcomm hq'
  rw [kernel_quorum P hP] at hS
  refine kq_of_mem hk S hS ?_
  intro j hj hh
  have := hm j hj
  rw [hsg, mem_signersOf] at this
  obtain ⟨x, hx, hxs⟩ := this
  have hK := (hms x hx).1.2.2 j hh hxs
  rw [(hms x hx).2.1, (hms x hx).2.2] at hK
  exact hK

theorem step_H0' (X : StepCtx' P hP T i os os' bs evs) :
    ∀ (i' : B.Op P) (r v k : Nat), i' ∉ (ctxT P hP (T ++ evs)).byz → QAbs.At (ctxT P hP (T ++ evs)) k (.K i' r v) → 1 ≤ r := by
  intro i' r v k hb h
  rcases at_cases (e := .K i' r v) h with ⟨_, hold⟩ | ⟨_, hnew⟩
  · exact X.R.H0 i' r v k hb hold
  · obtain ⟨rfl, _, s, m, p, h0, _, _, _, _, hr, _⟩ := origin_K X.hst (getElem?_mem' hnew)
    rw [hr]
    exact (X.hpre s h0).round

theorem step_H6' (X : StepCtx' P hP T i os os' bs evs) :
    ∀ (i' : B.Op P) (rc k : Nat), i' ∉ (ctxT P hP (T ++ evs)).byz → QAbs.At (ctxT P hP (T ++ evs)) k (.G i' rc) →
      ∃ v, QAbs.KQ (ctxT P hP (T ++ evs)) k rc v := by
  intro i' rc k hb h
  rcases at_cases (e := .G i' rc) h with ⟨_, hold⟩ | ⟨hk, hnew⟩
  · obtain ⟨v, hkq⟩ := X.R.H6 i' rc k hb hold
    exact ⟨v, kq_ext hkq⟩
  · have hst := X.hst
    have hm := getElem?_mem' hnew
    -- the decided message and its height
    have : ∃ m, AuthT P T m ∧ validateDecided (P.cfg i) m = .ok () ∧ m.height = P.height ∧ rc = m.round := by
      cases hst with
      | idle h1 h2 h3 => rw [h3] at hm; simp at hm
      | create v h0 h1 h2 h3 => rw [h3] at hm; simp at hm
      | createDecided m ha h0 hv hh h1 h2 h3 => rw [h3] at hm; simp at hm; exact ⟨m, ha, hv, hh, hm.2⟩
      | adopt s m ha h0 hd hv hh h1 h2 h3 => rw [h3] at hm; simp at hm; exact ⟨m, ha, hv, hh, hm.2⟩
      | more s m ha h0 hd hv hh h1 h2 h3 => rw [h3] at hm; simp at hm
      | prop s m ha h0 hv hnew h1 h2 h3 => rw [h3] at hm; simp at hm
      | prep s m p ha h0 hacc hv h1 h2 h3 => rw [h3] at hm; simp at hm
      | prepQ s m p ha h0 hacc hv hq h1 h2 => rcases h2 with ⟨_, h3⟩ | ⟨_, h3⟩ <;> rw [h3] at hm <;> simp at hm
      | com s m p ha h0 hacc hv h1 h2 h3 => rw [h3] at hm; simp at hm
      | comQ s m p agg ha h0 hacc hv hq hagg h1 h2 h3 => rw [h3] at hm; simp at hm
      | rc s X h0 h1 h2 h3 => rw [h3] at hm; simp at hm
      | jump s X R h0 hR h1 h2 => rcases h2 with ⟨_, h3⟩ | ⟨_, h3⟩ <;> rw [h3] at hm <;> simp at hm
    obtain ⟨m, ha, hv, hh, hr⟩ := this
    have cf := cert_facts' hP i m hv hh ha.1 ha.2.1
    rw [hr]
    exact ⟨m.root, kq_of_cert hP cf hk⟩

/-- where a decision event of a step comes from, with the height of the decided message -/
theorem origin_D' (hst : NStep (P.cfg i) P.height (AuthT P T) i os os' bs evs) {j : B.Op P} {r v : Nat}
    (he : Ev.D j r v ∈ evs) :
    j = i ∧
    ((∃ m, AuthT P T m ∧ validateDecided (P.cfg i) m = .ok () ∧ m.height = P.height ∧ r = m.round ∧ v = m.fullData) ∨
     (∃ s m p agg, os = some s ∧ AuthT P T m ∧ s.accepted = some p ∧
        validateCommit (P.cfg i) m.toBase s.height s.round p = .ok () ∧
        (P.cfg i).quorum ≤ (longestUniqueSigners (s.commit ++ [m]) m.round m.root).1.length ∧
        aggregateCommitMsgs (longestUniqueSigners (s.commit ++ [m]) m.round m.root).2 p.fullData = .ok agg ∧
        r = agg.round ∧ v = agg.fullData)) := by
  cases hst with
  | idle h1 h2 h3 => rw [h3] at he; simp at he
  | create v h0 h1 h2 h3 => rw [h3] at he; simp at he
  | createDecided m ha h0 hv hh h1 h2 h3 =>
    rw [h3] at he; simp at he
    obtain ⟨rfl, rfl, rfl⟩ := he
    exact ⟨rfl, Or.inl ⟨m, ha, hv, hh, rfl, rfl⟩⟩
  | adopt s m ha h0 hd hv hh h1 h2 h3 =>
    rw [h3] at he; simp at he
    obtain ⟨rfl, rfl, rfl⟩ := he
    exact ⟨rfl, Or.inl ⟨m, ha, hv, hh, rfl, rfl⟩⟩
  | more s m ha h0 hd hv hh h1 h2 h3 => rw [h3] at he; simp at he
  | prop s m ha h0 hv hnew h1 h2 h3 => rw [h3] at he; simp at he
  | prep s m p ha h0 hacc hv h1 h2 h3 => rw [h3] at he; simp at he
  | prepQ s m p ha h0 hacc hv hq h1 h2 => rcases h2 with ⟨_, h3⟩ | ⟨_, h3⟩ <;> rw [h3] at he <;> simp at he
  | com s m p ha h0 hacc hv h1 h2 h3 => rw [h3] at he; simp at he
  | comQ s m p agg ha h0 hacc hv hq hagg h1 h2 h3 =>
    rw [h3] at he; simp at he
    obtain ⟨rfl, rfl, rfl⟩ := he
    exact ⟨rfl, Or.inr ⟨s, m, p, agg, h0, ha, hacc, hv, hq, hagg, rfl, rfl⟩⟩
  | rc s X h0 h1 h2 h3 => rw [h3] at he; simp at he
  | jump s X R h0 hR h1 h2 => rcases h2 with ⟨_, h3⟩ | ⟨_, h3⟩ <;> rw [h3] at he <;> simp at he

theorem step_H7' (X : StepCtx' P hP T i os os' bs evs) :
    ∀ (i' : B.Op P) (r v k : Nat), i' ∉ (ctxT P hP (T ++ evs)).byz → QAbs.At (ctxT P hP (T ++ evs)) k (.D i' r v) →
      QAbs.KQ (ctxT P hP (T ++ evs)) (k + 1) r v := by
  intro i' r v k hb h
  rcases at_cases (e := .D i' r v) h with ⟨_, hold⟩ | ⟨hk, hnew⟩
  · exact kq_ext (X.R.H7 i' r v k hb hold)
  · obtain ⟨rfl, hcase⟩ := origin_D' X.hst (getElem?_mem' hnew)
    rcases hcase with ⟨m, ha, hv, hh, hr, hvv⟩ | ⟨s, m, p, agg, h0, ha, hacc, hv, hq, hagg, hr, hvv⟩
    · have cf := cert_facts' hP i' m hv hh ha.1 ha.2.1
      rw [hr, hvv, cf.hash]
      exact kq_of_cert hP cf (by omega)
    · rw [hr, hvv]
      exact kq_of_local' hP i' s (X.hpre s h0) m p agg ha hacc hv hq hagg (by omega)

theorem step_H5' (X : StepCtx' P hP T i os os' bs evs) :
    ∀ (i' : B.Op P) (r v r' pr pv k1 k2 : Nat), i' ∉ (ctxT P hP (T ++ evs)).byz →
      QAbs.At (ctxT P hP (T ++ evs)) k1 (.RC i' r' pr pv) → QAbs.At (ctxT P hP (T ++ evs)) k2 (.K i' r v) →
      k1 < k2 → r < r' →
      ∃ g rc, k1 < g ∧ g < k2 ∧ QAbs.At (ctxT P hP (T ++ evs)) g (.G i' rc) ∧ rc ≤ r := by
  intro i' r v r' pr pv k1 k2 hb hRC hK hlt hrr
  rcases at_cases (e := .K i' r v) hK with ⟨hk2, hold⟩ | ⟨hk2, hnew⟩
  · have hRC' := at_old hRC (by omega)
    obtain ⟨g, rc, h1, h2, h3, h4⟩ := X.R.H5 i' r v r' pr pv k1 k2 hb hRC' hold hlt hrr
    exact ⟨g, rc, h1, h2, at_ext h3, h4⟩
  · obtain ⟨rfl, hevs, s, m, p, h0, _, _, _, _, hr, _⟩ := origin_K X.hst (getElem?_mem' hnew)
    have hpre := X.hpre s h0
    have hRCold : T[k1]? = some (Ev.RC i' r' pr pv) := by
      rcases at_cases (e := .RC i' r' pr pv) hRC with ⟨_, hold⟩ | ⟨_, hn⟩
      · exact at_iff.1 hold
      · have := getElem?_mem' hn
        rw [hevs] at this; simp at this
    rcases NodeInv.rcRound hpre k1 r' pr pv hRCold with hle | ⟨g, rc, h1, h2, h3⟩
    · omega
    · exact ⟨g, rc, h1, by have := getElem?_lt h2; omega, at_iff.2 (getElem?_append_old h2), by omega⟩

theorem step_H4' (X : StepCtx' P hP T i os os' bs evs) :
    ∀ (i' : B.Op P) (r v r' pr pv k1 k2 : Nat), i' ∉ (ctxT P hP (T ++ evs)).byz →
      QAbs.At (ctxT P hP (T ++ evs)) k1 (.K i' r v) → QAbs.At (ctxT P hP (T ++ evs)) k2 (.RC i' r' pr pv) →
      k1 < k2 → r < r' →
      (∀ g rc, k1 < g → g < k2 → QAbs.At (ctxT P hP (T ++ evs)) g (.G i' rc) → r ≤ rc) → r ≤ pr := by
  intro i' r v r' pr pv k1 k2 hb hK hRC hlt hrr hyp
  rcases at_cases (e := .RC i' r' pr pv) hRC with ⟨hk2, hold⟩ | ⟨hk2, hnew⟩
  · have hK' := at_old hK (by omega)
    exact X.R.H4 i' r v r' pr pv k1 k2 hb hK' hold hlt hrr (fun g rc h1 h2 hG => hyp g rc h1 h2 (at_ext hG))
  · obtain ⟨rfl, hevs, s, h0, _, hpr⟩ := origin_RC X.hst (getElem?_mem' hnew)
    have hpre := X.hpre s h0
    have hk2' : k2 = T.length := by
      rw [hevs] at hnew
      have := (single_index hnew).1
      omega
    have hKold : T[k1]? = some (Ev.K i' r v) := by
      rcases at_cases (e := .K i' r v) hK with ⟨_, hold⟩ | ⟨_, hn⟩
      · exact at_iff.1 hold
      · have := getElem?_mem' hn
        rw [hevs] at this; simp at this
    have hr1 : 1 ≤ r := X.R.H0 i' r v k1 hb (at_iff.2 hKold)
    have hl := (NodeInv.kLock hpre k1 r v hKold (fun g rc h1 hG =>
      hyp g rc h1 (by have := getElem?_lt hG; omega) (at_iff.2 (getElem?_append_old hG)))).2
    have hne : s.lastPreparedRound ≠ 0 := by omega
    rw [hpr, createRoundChange_dataRound, if_pos ⟨hne, NodeInv.lock hpre hne⟩]
    exact hl

theorem step_H2' (X : StepCtx' P hP T i os os' bs evs) :
    ∀ (i' : B.Op P) (r v k : Nat), i' ∉ (ctxT P hP (T ++ evs)).byz → QAbs.At (ctxT P hP (T ++ evs)) k (.K i' r v) →
      QAbs.PQ (ctxT P hP (T ++ evs)) k r v ∨
      ((∃ g rc, g < k ∧ QAbs.At (ctxT P hP (T ++ evs)) g (.G i' rc) ∧ rc ≤ r) ∧
        ∃ r2, r < r2 ∧ QAbs.Before (ctxT P hP (T ++ evs)) k (.P i' r2 v)) := by
  intro i' r v k hb h
  rcases at_cases (e := .K i' r v) h with ⟨_, hold⟩ | ⟨hk, hnew⟩
  · rcases X.R.H2 i' r v k hb hold with hpq | ⟨⟨g, rc, h1, h2, h3⟩, r2, h4, hbf⟩
    · exact Or.inl (pq_ext hpq)
    · exact Or.inr ⟨⟨g, rc, h1, at_ext h2, h3⟩, r2, h4, before_ext hbf⟩
  · obtain ⟨rfl, _, s, m, p, h0, ha, hacc, hv, hq, hr, hvv⟩ := origin_K X.hst (getElem?_mem' hnew)
    have hpre' : NodeInv P T i' s := X.hpre s h0
    obtain ⟨hpin, hgh⟩ := hpre'.acc p hacc
    rw [hr, hvv]
    by_cases hstale : s.round < p.round
    · right
      obtain ⟨rc, hG⟩ := hgh (by omega)
      obtain ⟨g, hg⟩ := List.getElem?_of_mem hG
      refine ⟨⟨g, rc, by have := getElem?_lt hg; omega, at_iff.2 (getElem?_append_old hg), (hpre'.gRound rc hG).1⟩,
        p.round, hstale, ?_⟩
      exact before_of_mem (e := .P i' p.round p.root) (hpre'.propEv p hpin) hk
    · left
      obtain ⟨hmok, hmr, hmroot⟩ := prepOK_of_valid' i' m _ _ _ hpre'.height hv ha.1 ha.2.1
      have hbucket : ∀ x ∈ forRound (s.prepare ++ [m]) s.round, PrepOK P T x ∧ x.round = s.round ∧ x.root = p.root := by
        intro x hx
        unfold forRound at hx
        obtain ⟨hx1, hx2⟩ := List.mem_filter.1 hx
        have hxr : x.round = s.round := by simpa using hx2
        rcases List.mem_append.1 hx1 with hx1 | hx1
        · refine ⟨(hpre'.prep x hx1).1, hxr, ?_⟩
          rcases (hpre'.prep x hx1).2 with ⟨q, hq', hqr, hqroot⟩ | ⟨_, hS⟩
          · by_cases hpr : p.round = s.round
            · rw [← hqroot]
              exact hpre'.propUniq q hq' p hpin (by rw [hqr, hxr, hpr])
            · have := hpre'.low p hacc (by omega) q hq'
              omega
          · rcases hS with hS | ⟨_, q', hacc', _, hroot⟩
            · omega
            · rw [hacc] at hacc'
              simp only [Option.some.injEq] at hacc'
              rw [hroot, ← hacc']
        · simp at hx1; subst hx1
          exact ⟨hmok, hmr, hmroot⟩
      have hcomm : ∀ sg ∈ signersOf (forRound (s.prepare ++ [m]) s.round), sg ∈ P.committee := by
        intro sg hsg
        obtain ⟨x, hx, hxs⟩ := (mem_signersOf _ _).1 hsg
        obtain ⟨sg', h1, h2, _⟩ := (hbucket x hx).1
        rw [h1] at hxs; simp at hxs; rw [hxs]; exact h2
      have hq' : P.quorum ≤ uniqueCount (signersOf (forRound (s.prepare ++ [m]) s.round)) := (hasQuorum_iff _ _).1 hq
      obtain ⟨S, hS, hm⟩ := quorum_set P _ P.quorum hcomm hq'
      rw [kernel_quorum P hP] at hS
      refine pq_of_mem hk S hS ?_
      intro j hj hh
      obtain ⟨x, hx, hxs⟩ := (mem_signersOf _ _).1 (hm j hj)
      obtain ⟨⟨sg', h1, _, h3⟩, hxr, hxroot⟩ := hbucket x hx
      rw [h1] at hxs; simp at hxs
      have := h3 j hh hxs
      rw [hxr, hxroot] at this
      exact this

open Classical in
theorem step_H3' (X : StepCtx' P hP T i os os' bs evs) :
    ∀ (i' : B.Op P) (r v k : Nat), i' ∉ (ctxT P hP (T ++ evs)).byz → QAbs.At (ctxT P hP (T ++ evs)) k (.P i' r v) → 1 < r →
      ∃ S d, QAbs.RCQ (ctxT P hP (T ++ evs)) k r S d ∧
        ((∀ j ∈ S, (d j).1 = 0) ∨ ∃ js ∈ S, (∀ j ∈ S, (d j).1 ≤ (d js).1) ∧ 0 < (d js).1 ∧ (d js).2 = v) := by
  intro i' r v k hb h hr1
  rcases at_cases (e := .P i' r v) h with ⟨_, hold⟩ | ⟨hk, hnew⟩
  · obtain ⟨S, d, ⟨hS, hm⟩, hcase⟩ := X.R.H3 i' r v k hb hold hr1
    exact ⟨S, d, ⟨hS, fun j hj => ⟨(hm j hj).1, fun hp => pq_ext ((hm j hj).2.1 hp), fun hbb => before_ext ((hm j hj).2.2 hbb)⟩⟩, hcase⟩
  · obtain ⟨rfl, _, s, m, h0, ha, hv, hr, hvv⟩ := origin_P X.hst (getElem?_mem' hnew)
    have hsh : s.height = P.height := (X.hpre s h0).height
    obtain ⟨hroot, hjust⟩ := isValidProposal_just _ s m () hv
    have hfr : firstRound = 1 := rfl
    have hrne : m.round ≠ firstRound := by rw [hfr, ← hr]; omega
    obtain ⟨hrcs, hqrc⟩ := just_facts _ _ _ _ _ _ _ () hjust hrne
    have hauth := ha.2.2
    have hrc : ∀ rc ∈ m.rcJust, (∃ sg, rc.signers = [sg] ∧ sg ∈ P.committee) ∧ rc.dataRound ≤ m.round ∧
        (0 < rc.dataRound → QAbs.PQ (ctxT P hP (T ++ evs)) k rc.dataRound rc.root ∧ rc.root = m.root) ∧
        (∀ j, P.honest j = true → opId j ∈ rc.signers → Ev.RC j m.round rc.dataRound rc.root ∈ T) := by
      intro rc hin
      have V := validRC_facts _ _ rc _ _ _ () (hrcs rc hin)
      have hrch : rc.height = P.height := by rw [validRC_height _ _ rc _ _ _ () (hrcs rc hin), hsh]
      obtain ⟨hb1, hb2⟩ := hauth rc hin
      refine ⟨V.signer, ?_, ?_, ?_⟩
      · by_cases h0' : rc.dataRound = 0
        · omega
        · exact (V.prepared h0').2.2.2
      · intro hpos
        obtain ⟨hpms, hfd, hqp, _⟩ := V.prepared (by omega)
        refine ⟨?_, by rw [← hfd, hroot]⟩
        have hpm : ∀ pm ∈ rc.just, pm.type = tPrepare ∧ pm.height = P.height ∧ pm.round = rc.dataRound ∧ pm.root = rc.root ∧
            pm.sigOk = true ∧ ∃ sg, pm.signers = [sg] ∧ sg ∈ P.committee := by
          intro pm hpmin
          obtain ⟨a1, a2, a3, a4, a5, a6⟩ := validSignedPrepare_ok _ _ _ _ _ _ (hpms pm hpmin).2
          exact ⟨a1, by rw [a2, hsh], a3, a4, a5, a6⟩
        have hcomm : ∀ sg ∈ signersOfB rc.just, sg ∈ P.committee := by
          intro sg hsg
          obtain ⟨pm, hpmin, hs⟩ := (mem_signersOfB _ _).1 hsg
          obtain ⟨_, _, _, _, _, sg', e1, e2⟩ := hpm pm hpmin
          rw [e1] at hs; simp at hs; rw [hs]; exact e2
        obtain ⟨S', hS', hm'⟩ := quorum_set P _ P.quorum hcomm ((hasQuorum_iff _ _).1 hqp)
        rw [kernel_quorum P hP] at hS'
        refine pq_of_mem hk S' hS' ?_
        intro j hj hh
        obtain ⟨pm, hpmin, hs⟩ := (mem_signersOfB _ _).1 (hm' j hj)
        obtain ⟨a1, a2, a3, a4, a5, _⟩ := hpm pm hpmin
        have := (hb2 pm hpmin a2 (hpms pm hpmin).1 a5 j hh hs).1 a1
        rw [a3, a4] at this
        exact this
      · intro j hh hmem
        have := (hb1 hrch V.ident V.sigOk j hh hmem).2.2 V.type
        have e : rc.toBase.round = m.round := V.round
        rw [e] at this
        exact this
    have hcommL : ∀ sg ∈ signersOfL m.rcJust, sg ∈ P.committee := by
      intro sg hsg
      obtain ⟨rc, hin, hs⟩ := (mem_signersOfL _ _).1 hsg
      obtain ⟨sg', e1, e2⟩ := (hrc rc hin).1
      rw [e1] at hs; simp at hs; rw [hs]; exact e2
    obtain ⟨S, hS, hm⟩ := quorum_set P _ P.quorum hcommL ((hasQuorum_iff _ _).1 hqrc)
    rw [kernel_quorum P hP] at hS
    let d : B.Op P → Nat × Nat := fun j =>
      if hx : ∃ rc, rc ∈ m.rcJust ∧ opId j ∈ rc.signers then ((Classical.choose hx).dataRound, (Classical.choose hx).root)
      else (0, 0)
    have hd : ∀ j ∈ S, ∃ rc, rc ∈ m.rcJust ∧ opId j ∈ rc.signers ∧ d j = (rc.dataRound, rc.root) := by
      intro j hj
      have hx : ∃ rc, rc ∈ m.rcJust ∧ opId j ∈ rc.signers := (mem_signersOfL _ _).1 (hm j hj)
      refine ⟨Classical.choose hx, (Classical.choose_spec hx).1, (Classical.choose_spec hx).2, ?_⟩
      simp only [d, dif_pos hx]
    refine ⟨S, d, ⟨hS, ?_⟩, ?_⟩
    · intro j hj
      obtain ⟨rc, hin, hmem, hdj⟩ := hd j hj
      obtain ⟨_, hB, hC, hD⟩ := hrc rc hin
      rw [hdj, hr]
      refine ⟨hB, fun hpos => (hC hpos).1, fun hbb => ?_⟩
      exact before_of_mem (e := .RC j m.round rc.dataRound rc.root) (hD j ((honest_iff P hP _ j).1 hbb) hmem) hk
    · have hne : S.Nonempty := by
        rw [← Finset.card_pos]; omega
      obtain ⟨js, hjs, hmax⟩ := Finset.exists_max_image S (fun j => (d j).1) hne
      by_cases hz : (d js).1 = 0
      · left
        intro j hj
        have := hmax j hj
        omega
      · right
        refine ⟨js, hjs, hmax, by omega, ?_⟩
        obtain ⟨rc, hin, _, hdj⟩ := hd js hjs
        rw [hdj] at hz ⊢
        rw [hvv]
        exact ((hrc rc hin).2.2.1 (by simp only at hz; omega)).2

/-- H1: a new proposal event is checked against the post-state invariant; other cases by induction -/
theorem step_H1' (X : StepCtx' P hP T i os os' bs evs)
    (hpost : (∃ r v, Ev.P i r v ∈ evs) → ∀ s', os' = some s' → NodeInv P (T ++ evs) i s') :
    ∀ (i' : B.Op P) (r v v' k k' : Nat), i' ∉ (ctxT P hP (T ++ evs)).byz → QAbs.At (ctxT P hP (T ++ evs)) k (.P i' r v) →
      QAbs.At (ctxT P hP (T ++ evs)) k' (.P i' r v') → v = v' := by
  intro i' r v v' k k' hb h h'
  have key : ∀ {kk vv}, QAbs.At (ctxT P hP (T ++ evs)) kk (.P i' r vv) →
      QAbs.At (ctxT P hP T) kk (.P i' r vv) ∨ (i' = i ∧ Ev.P i' r vv ∈ evs ∧ ∃ s', os' = some s') := by
    intro kk vv hh
    rcases at_cases (e := .P i' r vv) hh with ⟨_, hold⟩ | ⟨_, hnew⟩
    · exact Or.inl hold
    · right
      have hm := getElem?_mem' hnew
      have hst := X.hst
      refine ⟨?_, hm, ?_⟩
      · exact (origin_P hst hm).1
      · obtain ⟨_, _, s, m, h0, _, _, _, _⟩ := origin_P hst hm
        cases hst with
        | idle h1 h2 h3 => rw [h3] at hm; simp at hm
        | create v h0 h1 h2 h3 => rw [h3] at hm; simp at hm
        | createDecided m ha h0 hv hh h1 h2 h3 => rw [h3] at hm; simp at hm
        | adopt s m ha h0 hd hv hh h1 h2 h3 => rw [h3] at hm; simp at hm
        | more s m ha h0 hd hv hh h1 h2 h3 => rw [h3] at hm; simp at hm
        | prop s m ha h0 hv hnew h1 h2 h3 => exact ⟨_, h1⟩
        | prep s m p ha h0 hacc hv h1 h2 h3 => rw [h3] at hm; simp at hm
        | prepQ s m p ha h0 hacc hv hq h1 h2 => rcases h2 with ⟨_, h3⟩ | ⟨_, h3⟩ <;> rw [h3] at hm <;> simp at hm
        | com s m p ha h0 hacc hv h1 h2 h3 => rw [h3] at hm; simp at hm
        | comQ s m p agg ha h0 hacc hv hq hagg h1 h2 h3 => rw [h3] at hm; simp at hm
        | rc s X h0 h1 h2 h3 => rw [h3] at hm; simp at hm
        | jump s X R h0 hR h1 h2 => rcases h2 with ⟨_, h3⟩ | ⟨_, h3⟩ <;> rw [h3] at hm <;> simp at hm
  have viaPost : ∀ {vv}, (i' = i ∧ Ev.P i' r vv ∈ evs ∧ ∃ s', os' = some s') → v = v' := by
    rintro vv ⟨rfl, hin, s', hs'⟩
    have hs := hpost ⟨r, vv, hin⟩ s' hs'
    obtain ⟨q, hq, hqr, hqv⟩ := hs.evProp r v (getElem?_mem' (at_P.1 h))
    obtain ⟨q', hq', hqr', hqv'⟩ := hs.evProp r v' (getElem?_mem' (at_P.1 h'))
    rw [← hqv, ← hqv']
    exact hs.propUniq q hq q' hq' (by rw [hqr, hqr'])
  rcases key h with h1 | h1
  · rcases key h' with h2 | h2
    · exact X.R.H1 i' r v v' k k' hb h1 h2
    · exact viaPost h2
  · exact viaPost h1

/-- all rules after one node transition at the height -/
theorem rules_step' (X : StepCtx' P hP T i os os' bs evs)
    (hpost : (∃ r v, Ev.P i r v ∈ evs) → ∀ s', os' = some s' → NodeInv P (T ++ evs) i s') :
    QAbs.Rules (ctxT P hP (T ++ evs)) :=
  ⟨step_H1' X hpost, step_H0' X, step_H2' X, step_H3' X, step_H4' X, step_H5' X, step_H6' X, step_H7' X⟩

end

end Ssv.Qbft.M
