/-
Helper lemmas for C07 (b): the fault-free synchronous first round, generically in the committee. Core Lean only.
-/
import Ssv.Proofs.QbftCert
set_option linter.unusedSimpArgs false

namespace Ssv.Qbft

/-! ### the fault-free synchronous first round -/

/-- what the correct operators share in a fault-free run of height `h`: committee, quorum, identifier, cut-off, the
    round-1 leader `L` and its (valid) start value `v` -/
structure FF (cfg : Cfg) (h L v : Nat) : Prop where
  nodup : cfg.committee.Nodup
  nozero : 0 ∉ cfg.committee
  own : cfg.own ∈ cfg.committee
  identNZ : cfg.ident ≠ 0
  q1 : 1 ≤ cfg.quorum
  qn : cfg.quorum ≤ cfg.committee.length
  cutoff : 1 < cfg.cutoff
  leader : cfg.proposer h firstRound = some L
  leaderIn : L ∈ cfg.committee
  value : cfg.valOk v = true

/-- the message an honest operator `j` signs -/
def hMsg (cfg : Cfg) (j type h root full : Nat) : Msg :=
  { type := type, height := h, round := firstRound, ident := cfg.ident, root := root, dataRound := noRound,
    signers := [j], sigOk := true, malformed := false, mid := 0, rcJust := [], prepJust := [], fullData := full }

def ffProposal (cfg : Cfg) (h L v : Nat) : Msg := hMsg cfg L tProposal h (hashData v) v
def ffPrepare (cfg : Cfg) (h v j : Nat) : Msg := hMsg cfg j tPrepare h (hashData v) 0
def ffCommit (cfg : Cfg) (h v j : Nat) : Msg := hMsg cfg j tCommit h (hashData v) 0

/-- these are exactly the messages the model's operators create -/
theorem ffProposal_is_own (cfg : Cfg) (h v : Nat) (s : State) (hs : s.height = h) (hr : s.round = firstRound) :
    createProposal cfg s v [] [] = ffProposal cfg h cfg.own v := by
  simp [createProposal, ownMsg, ffProposal, hMsg, hs, hr]

theorem ffPrepare_is_own (cfg : Cfg) (h v : Nat) (s : State) (hs : s.height = h) :
    createPrepare cfg s firstRound (hashData v) = ffPrepare cfg h v cfg.own := by
  simp [createPrepare, ownMsg, ffPrepare, hMsg, hs]

theorem ffCommit_is_own (cfg : Cfg) (h v : Nat) (s : State) (hs : s.height = h) (hr : s.round = firstRound) :
    createCommit cfg s (hashData v) = ffCommit cfg h v cfg.own := by
  simp [createCommit, ownMsg, ffCommit, hMsg, hs, hr]

/-- the state of an operator right after `Start` -/
def ffStarted (h vi : Nat) : State :=
  { newInstance h with started := true, startValue := vi, round := firstRound, height := h }

theorem canProcess_round1 (cfg : Cfg) (s : State) (hc : 1 < cfg.cutoff) (hr : s.round = firstRound) (hf : s.forceStop = false) :
    canProcess cfg s = true := by
  unfold canProcess
  rw [hr, hf]
  have : toInt64 firstRound = 1 := by decide
  rw [this]
  simp
  try omega

theorem signedValidate_single (b : Base) (j : Nat) (hs : b.signers = [j]) (hj : j ≠ 0) (hi : b.ident ≠ 0) (hm : b.malformed = false)
    (ht : b.type ≤ tRoundChange) : signedValidate b = .ok () := by
  unfold signedValidate messageValidate
  have h1 : (j == 0) = false := by simpa using hj
  have h2 : (b.ident == 0) = false := by simpa using hi
  have h3 : decide (b.type > tRoundChange) = false := by simp; exact ht
  simp [hs, validateSignersLoop, rejectIf, h1, h2, hm, h3]

theorem verifySig_single (cfg : Cfg) (b : Base) (j : Nat) (hs : b.signers = [j]) (hj : j ∈ cfg.committee) (ho : b.sigOk = true) :
    cfg.verifySig b = true := by
  unfold Cfg.verifySig
  simp [hs, ho, hj]

/-- the state after the leader's proposal was accepted -/
def ffProposed (cfg : Cfg) (h L v vi : Nat) : State :=
  { ffStarted h vi with propose := [ffProposal cfg h L v], accepted := some (ffProposal cfg h L v) }

theorem ff_ne_zero {cfg : Cfg} {h L v j : Nat} (ff : FF cfg h L v) (hj : j ∈ cfg.committee) : j ≠ 0 := by
  intro e; subst e; exact ff.nozero hj

/-- step 1: a started operator accepts the leader's proposal and answers with its prepare -/
theorem ff_accept_proposal (cfg : Cfg) (h L v vi : Nat) (ff : FF cfg h L v) :
    processMsg cfg (ffStarted h vi) (ffProposal cfg h L v) =
      ⟨ffProposed cfg h L v vi, [.bcast (ffPrepare cfg h v cfg.own)], .ok false 0 none⟩ := by
  have hcp : canProcess cfg (ffStarted h vi) = true := canProcess_round1 cfg _ ff.cutoff rfl rfl
  have hL0 : L ≠ 0 := ff_ne_zero ff ff.leaderIn
  have hsv : signedValidate (ffProposal cfg h L v).toBase = .ok () :=
    signedValidate_single _ L rfl hL0 ff.identNZ rfl (by show tProposal ≤ tRoundChange; decide)
  have hvs : cfg.verifySig (ffProposal cfg h L v).toBase = true := verifySig_single cfg _ L rfl ff.leaderIn rfl
  have hms : matchedSigners [L] [L] = true := by simp [matchedSigners]
  have hval : isValidProposal cfg (ffStarted h vi) (ffProposal cfg h L v) = .ok () := by
    unfold isValidProposal
    have e1 : (ffProposal cfg h L v).type = tProposal := rfl
    have e2 : (ffProposal cfg h L v).height = (ffStarted h vi).height := rfl
    have e3 : (ffProposal cfg h L v).signers = [L] := rfl
    have e4 : (ffProposal cfg h L v).round = firstRound := rfl
    have e5 : (ffStarted h vi).height = h := rfl
    have e6 : (ffProposal cfg h L v).fullData = v := rfl
    have e7 : (ffProposal cfg h L v).root = hashData v := rfl
    have hj : isProposalJustification cfg h (ffProposal cfg h L v).rcJust (ffProposal cfg h L v).prepJust h firstRound v = .ok () := by
      unfold isProposalJustification
      simp [rejectIf, ff.value]
    simp only [e1, e2, e3, e4, e5, e6, e7, hvs, ff.leader, hms, hsv, hj, rejectIf, wrap, bne_self_eq_false, Bool.not_true,
      Bool.false_eq_true, if_false, List.length_singleton, bind, Except.bind, pure, Except.pure]
    simp [ffStarted, newInstance]
  have hbv : baseMsgValidation cfg (ffStarted h vi) (ffProposal cfg h L v) = .ok () := by
    unfold baseMsgValidation
    have e1 : ((ffProposal cfg h L v).type == tProposal) = true := rfl
    have e2 : decide ((ffProposal cfg h L v).round < (ffStarted h vi).round) = false := by show decide (firstRound < firstRound) = false; decide
    simp only [hsv, wrap, e1, e2, hval, rejectIf, bind, Except.bind, pure, Except.pure, if_true, Bool.false_eq_true, if_false]
  unfold processMsg
  have e1 : ((ffProposal cfg h L v).type == tProposal) = true := rfl
  simp only [hcp, Bool.not_true, Bool.false_eq_true, if_false, hbv, wrap, e1, if_true]
  unfold uponProposal
  have hadd : addFirst (ffStarted h vi).propose (ffProposal cfg h L v) = ([ffProposal cfg h L v], true) := by
    simp [addFirst, ffStarted, newInstance, forRound]
  simp only [hadd, Bool.not_true, Bool.false_eq_true, if_false]
  have hr : ¬ ((ffProposal cfg h L v).round > (ffStarted h vi).round) := by show ¬ (firstRound > firstRound); decide
  simp only [hr, if_false]
  unfold sendOr
  have hcp2 : canProcess cfg { ffStarted h vi with propose := [ffProposal cfg h L v], accepted := some (ffProposal cfg h L v), round := (ffProposal cfg h L v).round } = true :=
    canProcess_round1 cfg _ ff.cutoff rfl rfl
  simp only [broadcast, hcp2, if_true, wrap]
  rfl

theorem uniq_of_nodup (l : List Nat) (h : l.Nodup) : uniq l = l := by
  induction l with
  | nil => rfl
  | cons a l ih =>
    have ⟨ha, hl⟩ := List.nodup_cons.1 h
    simp [uniq, ha, ih hl]

theorem uniqueCount_of_nodup (l : List Nat) (h : l.Nodup) : uniqueCount l = l.length := by
  unfold uniqueCount; rw [uniq_of_nodup l h]

theorem signersOf_map_single (f : Nat → Msg) (hf : ∀ j, (f j).signers = [j]) (l : List Nat) : signersOf (l.map f) = l := by
  induction l with
  | nil => rfl
  | cons a l ih =>
    simp only [signersOf, List.map_cons, List.flatMap_cons, hf] at ih ⊢
    simp [ih]

theorem forRound_map_all (f : Nat → Msg) (r : Nat) (hf : ∀ j, (f j).round = r) (l : List Nat) : forRound (l.map f) r = l.map f := by
  unfold forRound
  apply List.filter_eq_self.2
  intro m hm
  obtain ⟨j, _, rfl⟩ := List.mem_map.1 hm
  simp [hf]

theorem addFirst_map_single (f : Nat → Msg) (r : Nat) (hf : ∀ j, (f j).signers = [j]) (hr : ∀ j, (f j).round = r)
    (l : List Nat) (j : Nat) (hj : j ∉ l) : addFirst (l.map f) (f j) = (l.map f ++ [f j], true) := by
  unfold addFirst
  rw [hr j, forRound_map_all f r hr l]
  have : (l.map f).any (fun e => matchedSigners e.signers (f j).signers) = false := by
    rw [List.any_eq_false]
    intro m hm
    obtain ⟨x, hx, rfl⟩ := List.mem_map.1 hm
    simp only [hf, matchedSigners, List.length_singleton, beq_self_eq_true, List.all_cons, List.all_nil, Bool.and_true, Bool.true_and]
    intro hc
    simp at hc
    exact hj (hc ▸ hx)
  simp [this]

/-- the state of an operator that has received the prepares of the operators `done` (in that order) -/
def ffPrepared (cfg : Cfg) (h L v vi : Nat) (done : List Nat) : State :=
  { ffProposed cfg h L v vi with
    prepare := done.map (ffPrepare cfg h v),
    lastPreparedRound := if cfg.quorum ≤ done.length then firstRound else noRound,
    lastPreparedValue := if cfg.quorum ≤ done.length then v else 0 }

/-- step 2: the k-th prepare of a new committee member is recorded; exactly the one that completes the quorum makes the
    operator lock (1, v) and broadcast its commit -/
theorem ff_prepare_step (cfg : Cfg) (h L v vi : Nat) (ff : FF cfg h L v) (done : List Nat) (j : Nat)
    (hnd : (done ++ [j]).Nodup) (hin : ∀ x ∈ done ++ [j], x ∈ cfg.committee) :
    processMsg cfg (ffPrepared cfg h L v vi done) (ffPrepare cfg h v j) =
      ⟨ffPrepared cfg h L v vi (done ++ [j]),
       if done.length + 1 = cfg.quorum then [.bcast (ffCommit cfg h v cfg.own)] else [], .ok false 0 none⟩ := by
  have hjin : j ∈ cfg.committee := hin j (by simp)
  have hj0 : j ≠ 0 := ff_ne_zero ff hjin
  have hjnot : j ∉ done := by
    have := List.nodup_append.1 hnd
    intro hmem
    exact this.2.2 j hmem j (by simp) rfl
  have hdnd : done.Nodup := (List.nodup_append.1 hnd).1
  have hcp : canProcess cfg (ffPrepared cfg h L v vi done) = true := canProcess_round1 cfg _ ff.cutoff rfl rfl
  have hsv : signedValidate (ffPrepare cfg h v j).toBase = .ok () :=
    signedValidate_single _ j rfl hj0 ff.identNZ rfl (by show tPrepare ≤ tRoundChange; decide)
  have hvs : cfg.verifySig (ffPrepare cfg h v j).toBase = true := verifySig_single cfg _ j rfl hjin rfl
  have hvp : validSignedPrepare cfg (ffPrepare cfg h v j).toBase h firstRound (hashData v) = .ok () := by
    unfold validSignedPrepare
    have e1 : (ffPrepare cfg h v j).type = tPrepare := rfl
    have e2 : (ffPrepare cfg h v j).height = h := rfl
    have e3 : (ffPrepare cfg h v j).round = firstRound := rfl
    have e4 : (ffPrepare cfg h v j).root = hashData v := rfl
    have e5 : (ffPrepare cfg h v j).signers = [j] := rfl
    simp only [e1, e2, e3, e4, e5, hsv, hvs, rejectIf, wrap, bne_self_eq_false, Bool.not_true, Bool.false_eq_true, if_false,
      List.length_singleton, bind, Except.bind, pure, Except.pure]
  have hbv : baseMsgValidation cfg (ffPrepared cfg h L v vi done) (ffPrepare cfg h v j) = .ok () := by
    unfold baseMsgValidation
    have e0 : ((ffPrepare cfg h v j).type == tProposal) = false := by show (tPrepare == tProposal) = false; decide
    have e1 : ((ffPrepare cfg h v j).type == tPrepare) = true := rfl
    have e2 : decide ((ffPrepare cfg h v j).round < firstRound) = false := by
      show decide (firstRound < firstRound) = false; decide
    have e3 : (ffPrepared cfg h L v vi done).accepted = some (ffProposal cfg h L v) := rfl
    have e4 : (ffPrepared cfg h L v vi done).height = h := rfl
    have e5 : (ffPrepared cfg h L v vi done).round = firstRound := rfl
    have e6 : (ffProposal cfg h L v).root = hashData v := rfl
    simp only [hsv, wrap, e0, e1, e2, e3, e4, e5, e6, hvp, rejectIf, bind, Except.bind, pure, Except.pure, if_true, Bool.false_eq_true, if_false]
  unfold processMsg
  have e0 : ((ffPrepare cfg h v j).type == tProposal) = false := by show (tPrepare == tProposal) = false; decide
  have e1 : ((ffPrepare cfg h v j).type == tPrepare) = true := rfl
  simp only [hcp, Bool.not_true, Bool.false_eq_true, if_false, hbv, wrap, e0, e1, if_true]
  unfold uponPrepare
  have hsig : ∀ x, (ffPrepare cfg h v x).signers = [x] := fun _ => rfl
  have hrnd : ∀ x, (ffPrepare cfg h v x).round = firstRound := fun _ => rfl
  have hadd : addFirst (ffPrepared cfg h L v vi done).prepare (ffPrepare cfg h v j) =
      (done.map (ffPrepare cfg h v) ++ [ffPrepare cfg h v j], true) := addFirst_map_single _ firstRound hsig hrnd done j hjnot
  have hfr0 : forRound (ffPrepared cfg h L v vi done).prepare (ffPrepared cfg h L v vi done).round = done.map (ffPrepare cfg h v) :=
    forRound_map_all _ firstRound hrnd done
  have hfr1 : forRound (done.map (ffPrepare cfg h v) ++ [ffPrepare cfg h v j]) (ffPrepared cfg h L v vi done).round =
      (done ++ [j]).map (ffPrepare cfg h v) := by
    have := forRound_map_all (ffPrepare cfg h v) firstRound hrnd (done ++ [j])
    simp only [List.map_append, List.map_cons, List.map_nil] at this ⊢
    exact this
  have hq0 : cfg.hasQuorum (signersOf (done.map (ffPrepare cfg h v))) = decide (cfg.quorum ≤ done.length) := by
    unfold Cfg.hasQuorum; rw [signersOf_map_single _ hsig, uniqueCount_of_nodup _ hdnd]
  have hq1 : cfg.hasQuorum (signersOf ((done ++ [j]).map (ffPrepare cfg h v))) = decide (cfg.quorum ≤ done.length + 1) := by
    unfold Cfg.hasQuorum; rw [signersOf_map_single _ hsig, uniqueCount_of_nodup _ hnd]; simp
  simp only [hadd, hfr0, hfr1, hq0, hq1, Bool.not_true, Bool.false_eq_true, if_false]
  have hlen : (done ++ [j]).length = done.length + 1 := by simp
  rcases Nat.lt_trichotomy (done.length + 1) cfg.quorum with hlt | heq | hgt
  · -- no quorum yet
    have a1 : ¬ cfg.quorum ≤ done.length := by omega
    have a2 : ¬ cfg.quorum ≤ done.length + 1 := by omega
    have a3 : ¬ done.length + 1 = cfg.quorum := by omega
    simp only [a1, a2, a3, decide_false, Bool.false_eq_true, if_false, Bool.not_false, if_true]
    simp only [okStep, ffPrepared, hlen, a1, a2, if_false, List.map_append, List.map_cons, List.map_nil]
    rfl
  · -- this prepare completes the quorum
    have a1 : ¬ cfg.quorum ≤ done.length := by omega
    have a2 : cfg.quorum ≤ done.length + 1 := by omega
    have a3 : done.length + 1 = cfg.quorum := heq
    simp only [a1, a2, a3, decide_false, decide_true, Bool.false_eq_true, if_false, Bool.not_true, if_true, Nat.le_refl]
    have hacc : (ffPrepared cfg h L v vi done).accepted = some (ffProposal cfg h L v) := rfl
    simp only [hacc]
    unfold sendOr
    have hcp2 : ∀ s : State, s.round = firstRound → s.forceStop = false → canProcess cfg s = true :=
      fun s hr hf => canProcess_round1 cfg s ff.cutoff hr hf
    simp only [broadcast]
    rw [hcp2 _ rfl rfl]
    simp only [if_true, wrap, okStep, List.nil_append]
    simp only [ffPrepared, hlen, a1, a2, if_false, if_true, List.map_append, List.map_cons, List.map_nil]
    rfl
  · -- the quorum was reached earlier
    have a1 : cfg.quorum ≤ done.length := by omega
    have a2 : cfg.quorum ≤ done.length + 1 := by omega
    have a3 : ¬ done.length + 1 = cfg.quorum := by omega
    simp only [a1, a3, decide_true, if_true, if_false]
    simp only [okStep, ffPrepared, hlen, a1, a2, if_true, List.map_append, List.map_cons, List.map_nil]
    rfl

theorem commonSigners_single_false (sg : List Nat) (x : Nat) (h : x ∉ sg) : commonSigners [x] sg = false := by
  simp [commonSigners, h]

theorem greedyDisjoint_all (f : Nat → Msg) (hf : ∀ j, (f j).signers = [j]) (acc : List Msg) (sg : List Nat) (l : List Nat)
    (hd : ∀ x ∈ l, x ∉ sg) (hn : l.Nodup) :
    greedyDisjoint acc sg (l.map f) = (acc ++ l.map f, sg ++ l) := by
  induction l generalizing acc sg with
  | nil => simp [greedyDisjoint]
  | cons a l ih =>
    have ⟨ha, hl⟩ := List.nodup_cons.1 hn
    simp only [List.map_cons, greedyDisjoint, hf]
    rw [commonSigners_single_false sg a (hd a (by simp))]
    simp only [Bool.false_eq_true, if_false]
    rw [ih (acc ++ [f a]) (sg ++ [a]) _ hl]
    · simp
    · intro x hx hxs
      rcases List.mem_append.1 hxs with h | h
      · exact hd x (List.mem_cons_of_mem _ hx) h
      · simp at h; subst h; exact ha hx

theorem longestFrom_all (f : Nat → Msg) (hf : ∀ j, (f j).signers = [j]) (l : List Nat) (hn : l.Nodup) :
    longestFrom (l.map f) = (l, l.map f) := by
  induction l with
  | nil => rfl
  | cons a l ih =>
    have ⟨ha, hl⟩ := List.nodup_cons.1 hn
    simp only [List.map_cons, longestFrom, hf]
    rw [greedyDisjoint_all f hf [f a] [a] l (by intro x hx hxa; simp at hxa; subst hxa; exact ha hx) hl, ih hl]
    simp

theorem aggregateLoop_all (cfg : Cfg) (h v : Nat) (ret : Msg) (l : List Nat)
    (hret : ∀ x, ret.sameSignedMessage (ffCommit cfg h v x) = true) (hd : ∀ x ∈ l, x ∉ ret.signers) (hn : l.Nodup) :
    aggregateLoop ret (l.map (ffCommit cfg h v)) =
      .ok { ret with signers := ret.signers ++ l, sigOk := ret.sigOk, mid := if l.isEmpty then ret.mid else 0 } := by
  induction l generalizing ret with
  | nil => simp [aggregateLoop, pure, Except.pure]
  | cons a l ih =>
    have ⟨ha, hl⟩ := List.nodup_cons.1 hn
    simp only [List.map_cons, aggregateLoop]
    have hc : commonSigners ret.signers (ffCommit cfg h v a).signers = false := by
      simp only [commonSigners, ffCommit, hMsg]
      rw [List.any_eq_false]
      intro s hs
      simp
      intro e; subst e; exact hd s (by simp) hs
    simp only [hc, Bool.false_eq_true, if_false, hret a, Bool.not_true]
    rw [ih]
    · simp [ffCommit, hMsg]
    · intro x; exact hret x
    · intro x hx hxs
      simp only [ffCommit, hMsg] at hxs
      rcases List.mem_append.1 hxs with h' | h'
      · exact hd x (List.mem_cons_of_mem _ hx) h'
      · simp at h'; subst h'; exact ha hx
    · exact hl

/-- the state of an operator that has received all prepares and the commits of the operators `done` (in that order) -/
def ffCommitted (cfg : Cfg) (h L v vi : Nat) (done : List Nat) : State :=
  { ffPrepared cfg h L v vi cfg.committee with
    commit := done.map (ffCommit cfg h v),
    decided := decide (cfg.quorum ≤ done.length),
    decidedValue := if cfg.quorum ≤ done.length then v else 0 }

/-- the certificate aggregated from the commits of `l` -/
def ffAggregate (cfg : Cfg) (h v : Nat) (l : List Nat) : Msg :=
  { ffCommit cfg h v 0 with signers := sortNat l, fullData := v }

theorem aggregate_ff (cfg : Cfg) (h v : Nat) (a : Nat) (l : List Nat) (hn : (a :: l).Nodup) :
    aggregateCommitMsgs ((a :: l).map (ffCommit cfg h v)) v = .ok (ffAggregate cfg h v (a :: l)) := by
  have ⟨ha, hl⟩ := List.nodup_cons.1 hn
  simp only [List.map_cons, aggregateCommitMsgs]
  rw [aggregateLoop_all cfg h v _ l (by intro x; simp [Msg.sameSignedMessage, ffCommit, hMsg]) (by intro x hx hxs; simp [ffCommit, hMsg] at hxs; subst hxs; exact ha hx) hl]
  simp [bind, Except.bind, pure, Except.pure, ffAggregate, ffCommit, hMsg]

/-- step 3: the k-th commit of a new committee member is recorded; from the one that completes the quorum on, `ProcessMsg`
    reports the decision with the aggregated certificate -/
theorem ff_commit_step (cfg : Cfg) (h L v vi : Nat) (ff : FF cfg h L v) (done : List Nat) (j : Nat)
    (hnd : (done ++ [j]).Nodup) (hin : ∀ x ∈ done ++ [j], x ∈ cfg.committee) :
    processMsg cfg (ffCommitted cfg h L v vi done) (ffCommit cfg h v j) =
      ⟨ffCommitted cfg h L v vi (done ++ [j]), [],
       if cfg.quorum ≤ done.length + 1 then .ok true v (some (ffAggregate cfg h v (done ++ [j])))
       else .ok false 0 none⟩ := by
  have hjin : j ∈ cfg.committee := hin j (by simp)
  have hj0 : j ≠ 0 := ff_ne_zero ff hjin
  have hjnot : j ∉ done := by
    have := List.nodup_append.1 hnd
    intro hmem
    exact this.2.2 j hmem j (by simp) rfl
  have hcp : canProcess cfg (ffCommitted cfg h L v vi done) = true := canProcess_round1 cfg _ ff.cutoff rfl rfl
  have hsv : signedValidate (ffCommit cfg h v j).toBase = .ok () :=
    signedValidate_single _ j rfl hj0 ff.identNZ rfl (by show tCommit ≤ tRoundChange; decide)
  have hvs : cfg.verifySig (ffCommit cfg h v j).toBase = true := verifySig_single cfg _ j rfl hjin rfl
  have hvc : validateCommit cfg (ffCommit cfg h v j).toBase h firstRound (ffProposal cfg h L v) = .ok () := by
    unfold validateCommit baseCommitValidation
    have e1 : (ffCommit cfg h v j).type = tCommit := rfl
    have e2 : (ffCommit cfg h v j).height = h := rfl
    have e3 : (ffCommit cfg h v j).round = firstRound := rfl
    have e4 : (ffCommit cfg h v j).root = hashData v := rfl
    have e5 : (ffCommit cfg h v j).signers = [j] := rfl
    have e6 : (ffProposal cfg h L v).root = hashData v := rfl
    simp only [e1, e2, e3, e4, e5, e6, hsv, hvs, rejectIf, wrap, bne_self_eq_false, Bool.not_true, Bool.false_eq_true, if_false,
      List.length_singleton, bind, Except.bind, pure, Except.pure]
  have hbv : baseMsgValidation cfg (ffCommitted cfg h L v vi done) (ffCommit cfg h v j) = .ok () := by
    unfold baseMsgValidation
    have e0 : ((ffCommit cfg h v j).type == tProposal) = false := by show (tCommit == tProposal) = false; decide
    have e1 : ((ffCommit cfg h v j).type == tPrepare) = false := by show (tCommit == tPrepare) = false; decide
    have e1' : ((ffCommit cfg h v j).type == tCommit) = true := rfl
    have e2 : decide ((ffCommit cfg h v j).round < firstRound) = false := by
      show decide (firstRound < firstRound) = false; decide
    have e3 : (ffCommitted cfg h L v vi done).accepted = some (ffProposal cfg h L v) := rfl
    have e4 : (ffCommitted cfg h L v vi done).height = h := rfl
    have e5 : (ffCommitted cfg h L v vi done).round = firstRound := rfl
    simp only [hsv, wrap, e0, e1, e1', e2, e3, e4, e5, hvc, rejectIf, bind, Except.bind, pure, Except.pure, if_true, Bool.false_eq_true, if_false]
  unfold processMsg
  have e0 : ((ffCommit cfg h v j).type == tProposal) = false := by show (tCommit == tProposal) = false; decide
  have e1 : ((ffCommit cfg h v j).type == tPrepare) = false := by show (tCommit == tPrepare) = false; decide
  have e1' : ((ffCommit cfg h v j).type == tCommit) = true := rfl
  simp only [hcp, Bool.not_true, Bool.false_eq_true, if_false, hbv, wrap, e0, e1, e1', if_true]
  unfold uponCommit
  have hsig : ∀ x, (ffCommit cfg h v x).signers = [x] := fun _ => rfl
  have hrnd : ∀ x, (ffCommit cfg h v x).round = firstRound := fun _ => rfl
  have hadd : addFirst (ffCommitted cfg h L v vi done).commit (ffCommit cfg h v j) =
      (done.map (ffCommit cfg h v) ++ [ffCommit cfg h v j], true) := addFirst_map_single _ firstRound hsig hrnd done j hjnot
  have hlong : longestUniqueSigners (done.map (ffCommit cfg h v) ++ [ffCommit cfg h v j]) (ffCommit cfg h v j).round (ffCommit cfg h v j).root =
      (done ++ [j], (done ++ [j]).map (ffCommit cfg h v)) := by
    unfold longestUniqueSigners
    have e : done.map (ffCommit cfg h v) ++ [ffCommit cfg h v j] = (done ++ [j]).map (ffCommit cfg h v) := by simp
    rw [e, hrnd j, forRound_map_all _ firstRound hrnd]
    have hfil : ((done ++ [j]).map (ffCommit cfg h v)).filter (fun m => m.root == (ffCommit cfg h v j).root) = (done ++ [j]).map (ffCommit cfg h v) := by
      apply List.filter_eq_self.2
      intro m hm
      obtain ⟨x, _, rfl⟩ := List.mem_map.1 hm
      simp [ffCommit, hMsg]
    rw [hfil, longestFrom_all _ hsig _ hnd]
  have hacc : (ffCommitted cfg h L v vi done).accepted = some (ffProposal cfg h L v) := rfl
  have hlen : (done ++ [j]).length = done.length + 1 := by simp
  simp only [hadd, hlong, hacc, Bool.not_true, Bool.false_eq_true, if_false, hlen]
  by_cases hq : cfg.quorum ≤ done.length + 1
  · have hfd : (ffProposal cfg h L v).fullData = v := rfl
    have hne : ∃ a l, done ++ [j] = a :: l := by
      cases done with
      | nil => exact ⟨j, [], rfl⟩
      | cons a l => exact ⟨a, l ++ [j], rfl⟩
    obtain ⟨a, l, hal⟩ := hne
    have hagg : aggregateCommitMsgs ((done ++ [j]).map (ffCommit cfg h v)) v = .ok (ffAggregate cfg h v (done ++ [j])) := by
      rw [hal]; exact aggregate_ff cfg h v a l (hal ▸ hnd)
    simp only [hq, decide_true, Bool.not_true, Bool.false_eq_true, if_false, hfd, hagg, wrap, if_true]
    simp only [ffCommitted, hlen, hq, decide_true, if_true, List.map_append, List.map_cons, List.map_nil]
    rfl
  · simp only [hq, decide_false, Bool.not_false, if_true, if_false]
    have hq' : ¬ cfg.quorum ≤ done.length := by omega
    simp only [okStep, ffCommitted, hlen, hq, hq', decide_false, if_false, List.map_append, List.map_cons, List.map_nil]
    rfl

/-- `Start`: the timer is armed for round 1 and the leader (only) broadcasts its proposal -/
theorem ff_start (cfg : Cfg) (h L v vi : Nat) (ff : FF cfg h L v) :
    start cfg (newInstance h) vi h =
      ⟨ffStarted h vi, [.timer h firstRound] ++ (if L = cfg.own then [.bcast (ffProposal cfg h cfg.own vi)] else []), .ok false 0 none⟩ := by
  unfold start
  have hcp : canProcess cfg (ffStarted h vi) = true := canProcess_round1 cfg _ ff.cutoff rfl rfl
  have e : ({ newInstance h with started := true, startValue := vi, round := firstRound, height := h } : State) = ffStarted h vi := rfl
  simp only [newInstance, Bool.false_eq_true, if_false]
  have hl : cfg.proposer h firstRound = some L := ff.leader
  simp only [hl]
  by_cases hown : L = cfg.own
  · have : (L == cfg.own) = true := by simpa using hown
    simp only [this, if_true, hown, broadcast]
    have hcp' := hcp
    simp only [ffStarted, newInstance] at hcp'
    simp only [hcp', if_true, beq_self_eq_true, pure, Except.pure, okStep]
    rfl
  · have : (L == cfg.own) = false := by simpa using hown
    simp only [this, Bool.false_eq_true, if_false, hown]
    rfl

/-- observations of delivering the prepares of `l` one after the other, starting after those of `done` -/
def ffPrepareObs (cfg : Cfg) (h v : Nat) : Nat → List Nat → List IObs
  | _, [] => []
  | k, _ :: rest =>
    ⟨if k + 1 = cfg.quorum then [.bcast (ffCommit cfg h v cfg.own)] else [], .ok false 0 none⟩ :: ffPrepareObs cfg h v (k + 1) rest

theorem ff_prepares_run (cfg : Cfg) (h L v vi : Nat) (ff : FF cfg h L v) (l : List Nat) :
    ∀ done : List Nat, (done ++ l).Nodup → (∀ x ∈ done ++ l, x ∈ cfg.committee) →
      runI cfg (ffPrepared cfg h L v vi done) (l.map (fun j => IOp.deliver (ffPrepare cfg h v j))) =
        (ffPrepared cfg h L v vi (done ++ l), ffPrepareObs cfg h v done.length l) := by
  induction l with
  | nil => intro done _ _; simp [runI, ffPrepareObs]
  | cons j rest ih =>
    intro done hnd hin
    have hnd1 : (done ++ [j]).Nodup := by
      have : (done ++ [j] ++ rest).Nodup := by simpa using hnd
      exact (List.nodup_append.1 this).1
    have hin1 : ∀ x ∈ done ++ [j], x ∈ cfg.committee := by
      intro x hx; apply hin; simp at hx ⊢; rcases hx with hx | hx
      · exact Or.inl hx
      · exact Or.inr (Or.inl hx)
    have hstep := ff_prepare_step cfg h L v vi ff done j hnd1 hin1
    have hrest := ih (done ++ [j]) (by simpa using hnd) (by intro x hx; apply hin; simpa using hx)
    simp only [List.map_cons, runI, stepI, hstep, hrest]
    simp [ffPrepareObs]

def ffCommitObs (cfg : Cfg) (h v : Nat) : List Nat → List Nat → List IObs
  | _, [] => []
  | done, j :: rest =>
    ⟨[], if cfg.quorum ≤ done.length + 1 then .ok true v (some (ffAggregate cfg h v (done ++ [j]))) else .ok false 0 none⟩ ::
      ffCommitObs cfg h v (done ++ [j]) rest

theorem ff_commits_run (cfg : Cfg) (h L v vi : Nat) (ff : FF cfg h L v) (l : List Nat) :
    ∀ done : List Nat, (done ++ l).Nodup → (∀ x ∈ done ++ l, x ∈ cfg.committee) →
      runI cfg (ffCommitted cfg h L v vi done) (l.map (fun j => IOp.deliver (ffCommit cfg h v j))) =
        (ffCommitted cfg h L v vi (done ++ l), ffCommitObs cfg h v done l) := by
  induction l with
  | nil => intro done _ _; simp [runI, ffCommitObs]
  | cons j rest ih =>
    intro done hnd hin
    have hnd1 : (done ++ [j]).Nodup := by
      have : (done ++ [j] ++ rest).Nodup := by simpa using hnd
      exact (List.nodup_append.1 this).1
    have hin1 : ∀ x ∈ done ++ [j], x ∈ cfg.committee := by
      intro x hx; apply hin; simp at hx ⊢; rcases hx with hx | hx
      · exact Or.inl hx
      · exact Or.inr (Or.inl hx)
    have hstep := ff_commit_step cfg h L v vi ff done j hnd1 hin1
    have hrest := ih (done ++ [j]) (by simpa using hnd) (by intro x hx; apply hin; simpa using hx)
    simp only [List.map_cons, runI, stepI, hstep, hrest]
    simp [ffCommitObs]

theorem runI_append (cfg : Cfg) (s : State) (a b : List IOp) :
    runI cfg s (a ++ b) = ((runI cfg (runI cfg s a).1 b).1, (runI cfg s a).2 ++ (runI cfg (runI cfg s a).1 b).2) := by
  induction a generalizing s with
  | nil => simp [runI]
  | cons op rest ih =>
    simp only [List.cons_append, runI, ih]
    cases (stepI cfg s op).2 <;> simp

/-- the synchronous fault-free schedule of round 1 as seen by one operator: Start, the leader's proposal, everybody's
    prepare, everybody's commit (committee order) -/
def ffOps (cfg : Cfg) (h L v vi : Nat) : List IOp :=
  [IOp.start vi h, .deliver (ffProposal cfg h L v)] ++
  cfg.committee.map (fun j => IOp.deliver (ffPrepare cfg h v j)) ++
  cfg.committee.map (fun j => IOp.deliver (ffCommit cfg h v j))

/-- what the operator emits and returns, op by op, in the fault-free first round -/
def ffObs (cfg : Cfg) (h L v vi : Nat) : List IObs :=
  [⟨[.timer h firstRound] ++ (if L = cfg.own then [.bcast (ffProposal cfg h cfg.own vi)] else []), .ok false 0 none⟩,
   ⟨[.bcast (ffPrepare cfg h v cfg.own)], .ok false 0 none⟩] ++
  ffPrepareObs cfg h v 0 cfg.committee ++ ffCommitObs cfg h v [] cfg.committee

theorem ff_round1_run (cfg : Cfg) (h L v vi : Nat) (ff : FF cfg h L v) :
    runI cfg (newInstance h) (ffOps cfg h L v vi) = (ffCommitted cfg h L v vi cfg.committee, ffObs cfg h L v vi) := by
  have hq0 : ¬ cfg.quorum ≤ 0 := by have := ff.q1; omega
  have h1 : runI cfg (newInstance h) [IOp.start vi h, .deliver (ffProposal cfg h L v)] =
      (ffPrepared cfg h L v vi [],
        [⟨[.timer h firstRound] ++ (if L = cfg.own then [.bcast (ffProposal cfg h cfg.own vi)] else []), .ok false 0 none⟩,
         ⟨[.bcast (ffPrepare cfg h v cfg.own)], .ok false 0 none⟩]) := by
    have e0 : ffProposed cfg h L v vi = ffPrepared cfg h L v vi [] := by
      simp [ffPrepared, hq0]
      rfl
    simp only [runI, stepI, ff_start cfg h L v vi ff, ff_accept_proposal cfg h L v vi ff, e0]
  have h2 := ff_prepares_run cfg h L v vi ff cfg.committee [] (by simpa using ff.nodup) (by intro x hx; simpa using hx)
  have e1 : ffPrepared cfg h L v vi ([] ++ cfg.committee) = ffCommitted cfg h L v vi [] := by
    simp [ffCommitted, hq0]
    rfl
  have h3 := ff_commits_run cfg h L v vi ff cfg.committee [] (by simpa using ff.nodup) (by intro x hx; simpa using hx)
  unfold ffOps ffObs
  rw [runI_append, runI_append, h1]
  have e2 : ffPrepared cfg h L v vi cfg.committee = ffCommitted cfg h L v vi [] := by simpa using e1
  simp only [h2, List.nil_append, List.length_nil, e2]
  simp only [h3, List.nil_append]


/-! ### timeouts and justification -/

theorem firstFail_ok {α : Type} (f : α → V Unit) (l : List α) (u : Unit) (h : firstFail f l = .ok u) : ∀ a ∈ l, f a = .ok () := by
  induction l with
  | nil => intro a ha; simp at ha
  | cons x rest ih =>
    unfold firstFail at h
    simp only [bind_eq_ok] at h
    obtain ⟨v, h1, h2⟩ := h
    intro a ha
    rcases List.mem_cons.1 ha with rfl | ha
    · exact h1
    · exact ih h2 a ha

/-- a prepared round-change is valid for a proposed value only if the value hashes to its root -/
theorem validRoundChangeForData_prepared_root (cfg : Cfg) (sh : Nat) (rc : Lvl1) (h r fd : Nat) (u : Unit)
    (hv : validRoundChangeForData cfg sh rc h r fd = .ok u) (hp : rc.toBase.rcPrepared = true) : hashData fd = rc.root := by
  unfold validRoundChangeForData at hv
  simp only [bind_eq_ok, rejectIf_eq_ok, wrap_eq_ok, hp, if_true] at hv
  obtain ⟨_, _, _, _, _, _, _, _, _, _, _, _, _, _, _, _, _, h8, _⟩ := hv
  simpa using h8

/-- the timeout step -/
theorem uponRoundTimeout_progress (cfg : Cfg) (s : State) (hcp : canProcess cfg s = true) :
    uponRoundTimeout cfg s =
      ⟨{ s with round := s.round + 1, accepted := none },
       [.bcast (createRoundChange cfg s (s.round + 1)), .timer s.height (s.round + 1)],
       .ok s.decided s.decidedValue none⟩ := by
  unfold uponRoundTimeout
  simp only [hcp, Bool.not_true, Bool.false_eq_true, if_false, broadcast, if_true, wrap, okStep]
  rfl


end Ssv.Qbft
