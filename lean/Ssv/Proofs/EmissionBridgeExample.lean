/-
C10 emission bridge, part 4 — concrete reachable states used by Props/C10Emission.lean (evaluated by the kernel):
* gated schedules (`runItemsG`) and the prefixes of `exSched` (the run behind `exSys`) at which operator 1 (index 0) emits its
  justified round-2 proposal and at which operator 2 (index 1) broadcasts its decided aggregate;
* `fSys` — the FINDING state: a 4-operator system with NO Byzantine member in which operator 2, still in round 2, completes
  a round-change quorum for round 3 (which it leads) and broadcasts a proposal with `Round = 2` justified by the single
  round-2 round-change it holds. Reachable only because operator 1 ran two timeouts ahead of operator 2, i.e. outside the
  timing assumption.
-/
import Ssv.Proofs.EmissionBridgeSkewSys
import Ssv.Proofs.QbftNodeExample
set_option linter.unusedSimpArgs false
set_option linter.unusedVariables false

namespace Ssv.Emission
open Ssv Ssv.Qbft Ssv.Qbft.B

instance (m : Msg) : Decidable (Gated m) := by unfold Gated; infer_instance

instance {P : Params} (a : Action P) : Decidable (GatedAction a) := by
  cases a <;> unfold GatedAction <;> infer_instance

/-- `∀ s, o = some s → p s` is decidable -/
def decForallSome {α : Type} (o : Option α) (p : α → Prop) [∀ a, Decidable (p a)] : Decidable (∀ s, o = some s → p s) :=
  match o with
  | none => isTrue (by intro s h; cases h)
  | some a => if h : p a then isTrue (by intro s hs; cases hs; exact h) else isFalse (fun hh => h (hh a rfl))

instance {P : Params} (σ : Sys P) (a : Action P) : Decidable (InRoundAction σ a) := by
  cases a with
  | start i v => exact isTrue trivial
  | timeout i r => exact isTrue trivial
  | deliver i m =>
    unfold InRoundAction
    have : Decidable (∀ s, instAt P.height (σ.ctrl i) = some s →
        (m.type = tRoundChange → m.round ≤ s.round + 1) ∧ (isDecidedMsg (P.cfg i) m = true → s.round ≤ m.round)) :=
      decForallSome _ _
    infer_instance

/-- `runItems` that checks the gate AND the in-round condition on every delivery -/
def runItemsC {P : Params} (σ : Sys P) : List (Item P) → Option (Sys P)
  | [] => some σ
  | .act a :: rest => if enabled σ a ∧ GatedAction a ∧ InRoundAction σ a then runItemsC (step σ a) rest else none
  | .fwd i k :: rest =>
    match σ.log[k]? with
    | some m =>
      if enabled σ (.deliver i m) ∧ Gated m ∧ InRoundAction σ (.deliver i m) then runItemsC (step σ (.deliver i m)) rest
      else none
    | none => none

theorem reachableC_runItemsC {P : Params} {σ σ' : Sys P} (l : List (Item P)) (h : ReachableC σ)
    (hr : runItemsC σ l = some σ') : ReachableC σ' := by
  induction l generalizing σ with
  | nil => simp only [runItemsC, Option.some.injEq] at hr; exact hr ▸ h
  | cons it rest ih =>
    cases it with
    | act a =>
      simp only [runItemsC] at hr
      split at hr
      · rename_i hc; exact ih (ReachableC.step a h hc.1 hc.2.1 hc.2.2) hr
      · cases hr
    | fwd i k =>
      simp only [runItemsC] at hr
      cases hm : σ.log[k]? with
      | none => simp [hm] at hr
      | some m =>
        simp only [hm] at hr
        split at hr
        · rename_i hc; exact ih (ReachableC.step (.deliver i m) h hc.1 hc.2.1 hc.2.2) hr
        · cases hr

/-- `runItems` that additionally checks the gate on every delivery -/
def runItemsG {P : Params} (σ : Sys P) : List (Item P) → Option (Sys P)
  | [] => some σ
  | .act a :: rest => if enabled σ a ∧ GatedAction a then runItemsG (step σ a) rest else none
  | .fwd i k :: rest =>
    match σ.log[k]? with
    | some m => if enabled σ (.deliver i m) ∧ Gated m then runItemsG (step σ (.deliver i m)) rest else none
    | none => none

theorem reachableG_runItemsG {P : Params} {σ σ' : Sys P} (l : List (Item P)) (h : ReachableG σ)
    (hr : runItemsG σ l = some σ') : ReachableG σ' := by
  induction l generalizing σ with
  | nil => simp only [runItemsG, Option.some.injEq] at hr; exact hr ▸ h
  | cons it rest ih =>
    cases it with
    | act a =>
      simp only [runItemsG] at hr
      split at hr
      · rename_i hc; exact ih (ReachableG.step a h hc.1 hc.2) hr
      · cases hr
    | fwd i k =>
      simp only [runItemsG] at hr
      cases hm : σ.log[k]? with
      | none => simp [hm] at hr
      | some m =>
        simp only [hm] at hr
        split at hr
        · rename_i hc; exact ih (ReachableG.step (.deliver i m) h hc.1 hc.2) hr
        · cases hr

/-! ### prefixes of the run behind `exSys` -/

/-- after the three starts, the three timeouts and two of the three round-changes delivered to operator 1 (index 0) -/
def exSchedA : List (Item exP) := exSched.take 8

theorem exA_isSome : (runItemsC (Sys.init exP) exSchedA).isSome = true := by decide +kernel

def exSysA : Sys exP := (runItemsC (Sys.init exP) exSchedA).get exA_isSome

/-- reached through gated, in-round deliveries -/
theorem exA_reachableC : ReachableC exSysA :=
  reachableC_runItemsC exSchedA ReachableC.init (by simp [exSysA])

theorem exA_reachableG : ReachableG exSysA := exA_reachableC.gated

/-- the third round-change of round 2 (operator 3's), which completes the quorum at the round-2 leader -/
def exRc3 : Msg := ownMsg (exP.cfg 2) tRoundChange 3 2 zeroRoot noRound [] [] 0

/-- everything but the last delivery of `exSched`: operator 2 (index 1) holds two of the three commits -/
def exSchedB : List (Item exP) := exSched.take 26

theorem exB_isSome : (runItemsC (Sys.init exP) exSchedB).isSome = true := by decide +kernel

def exSysB : Sys exP := (runItemsC (Sys.init exP) exSchedB).get exB_isSome

theorem exB_reachableC : ReachableC exSysB :=
  reachableC_runItemsC exSchedB ReachableC.init (by simp [exSysB])

theorem exB_reachableG : ReachableG exSysB := exB_reachableC.gated

/-- the commit of operator 3 (index 2) for (round 2, root 5) -/
def exCommit3 : Msg := ownMsg (exP.cfg 2) tCommit 3 2 5 noRound [] [] 0

/-- the whole run is gated as well -/
theorem ex_isSomeG : (runItemsG (Sys.init exP) exSched).isSome = true := by decide +kernel

theorem runItemsG_runItems {P : Params} {σ σ' : Sys P} (l : List (Item P)) (hr : runItemsG σ l = some σ') :
    runItems σ l = some σ' := by
  induction l generalizing σ with
  | nil => simpa [runItemsG, runItems] using hr
  | cons it rest ih =>
    cases it with
    | act a =>
      simp only [runItemsG] at hr
      simp only [runItems]
      split at hr
      · rename_i hc; rw [if_pos hc.1]; exact ih hr
      · cases hr
    | fwd i k =>
      simp only [runItemsG] at hr
      simp only [runItems]
      cases hm : σ.log[k]? with
      | none => simp [hm] at hr
      | some m =>
        simp only [hm] at hr ⊢
        split at hr
        · rename_i hc; rw [if_pos hc.1]; exact ih hr
        · cases hr

/-- `exSys` itself is reachable through gated deliveries -/
theorem ex_reachableG : ReachableG exSys := by
  have h1 : runItemsG (Sys.init exP) exSched = some ((runItemsG (Sys.init exP) exSched).get ex_isSomeG) := by simp
  have h2 := runItemsG_runItems exSched h1
  have h3 : exSys = (runItemsG (Sys.init exP) exSched).get ex_isSomeG := by
    simp [exSys, h2]
  rw [h3]
  exact reachableG_runItemsG exSched ReachableG.init h1

/-! ### the finding state -/

def fP : Params := { f := 1, height := 3, cutoff := 15, valCheck := fun _ => true, byz := [] }

theorem fP_valid : fP.Valid := ⟨by decide, by decide⟩

/-- all four operators start; operators 1, 3, 4 (indices 0, 2, 3) run the round-1 AND the round-2 timeout; operator 2
    (index 1, the round-3 leader) has not timed out and receives: operator 1's round-change for round 2, operator 1's
    round-change for round 3, operator 3's round-change for round 3 (partial quorum: jump to the MINIMUM round, 2) -/
def fSched : List (Item fP) :=
  [.act (.start 0 5), .act (.start 1 6), .act (.start 2 7), .act (.start 3 8),
   .act (.timeout 0 1), .act (.timeout 0 2), .act (.timeout 2 1), .act (.timeout 2 2), .act (.timeout 3 1), .act (.timeout 3 2),
   .fwd 1 1, .fwd 1 2, .fwd 1 4]

theorem f_isSome : (runItemsG (Sys.init fP) fSched).isSome = true := by decide +kernel

def fSys : Sys fP := (runItemsG (Sys.init fP) fSched).get f_isSome

theorem f_reachableG : ReachableG fSys :=
  reachableG_runItemsG fSched ReachableG.init (by simp [fSys])

/-- operator 4's round-change for round 3: the third one, completing the round-3 quorum at operator 2 -/
def fTrigger : Msg := ownMsg (fP.cfg 3) tRoundChange 3 3 zeroRoot noRound [] [] 0

/-- what operator 2 then broadcasts: a proposal for round 2 (its CURRENT round; the round-2 leader is operator 1) carrying
    the only round-2 round-change it holds -/
def fProposal : Msg :=
  { type := tProposal, height := 3, round := 2, ident := 1, root := 6, dataRound := 0, signers := [2], sigOk := true,
    malformed := false, mid := 0,
    rcJust := [{ type := tRoundChange, height := 3, round := 2, ident := 1, root := 1, dataRound := 0, signers := [1],
                 sigOk := true, malformed := false, mid := 0, just := [] }],
    prepJust := [], fullData := 6 }

theorem f_facts :
    enabled fSys (.deliver 1 fTrigger) = true ∧ GatedAction (Action.deliver (P := fP) 1 fTrigger) ∧
    fTrigger ∈ fSys.log ∧
    (instAt fP.height (fSys.ctrl 1)).map (fun s => (s.round, s.accepted)) = some (2, none) ∧
    Out.bcast fProposal ∈ stepOuts fSys (.deliver 1 fTrigger) ∧
    (List.range 4).map (fun r => roundRobinProposer fP.committee 3 r) = [some 3, some 4, some 1, some 2] := by
  decide +kernel

end Ssv.Emission
