/-
C01 Layer B, part 8 — the system invariant (controller shape, log, node invariants, the eight rules) holds in every
reachable state of the executable multi-node system.
-/
import Ssv.Proofs.QbftNodeRules2
set_option linter.unusedSimpArgs false
set_option linter.unusedVariables false

namespace Ssv.Qbft.B
open Ssv.Qbft

structure Inv (P : Params) (hP : P.Valid) (σ : Sys P) : Prop where
  shape : ∀ i, Shape P.height (σ.ctrl i)
  log : ∀ m ∈ σ.log, LogOK P σ.trace m
  node : ∀ i, P.honest i = true → NodeInvO P σ.trace i (instAt P.height (σ.ctrl i))
  rules : QAbs.Rules (ctxT P hP σ.trace)

/-- H1 (one accepted proposal per round) is a consequence of the node invariants -/
theorem h1_of_nodes {P : Params} {hP : P.Valid} {T : List (Ev (Op P))}
    (hnode : ∀ i, P.honest i = true → ∃ os, NodeInvO P T i os) :
    ∀ (i : Op P) (r v v' k k' : Nat), i ∉ (ctxT P hP T).byz → QAbs.At (ctxT P hP T) k (.P i r v) →
      QAbs.At (ctxT P hP T) k' (.P i r v') → v = v' := by
  intro i r v v' k k' hb h h'
  have hm : Ev.P i r v ∈ T := getElem?_mem' (at_P.1 h)
  have hm' : Ev.P i r v' ∈ T := getElem?_mem' (at_P.1 h')
  obtain ⟨os, hos⟩ := hnode i ((honest_iff P hP T i).1 hb)
  cases os with
  | none => exact absurd rfl (hos _ hm)
  | some s =>
    have hs : NodeInv P T i s := hos
    obtain ⟨q, hq, hqr, hqv⟩ := hs.evProp r v hm
    obtain ⟨q', hq', hqr', hqv'⟩ := hs.evProp r v' hm'
    rw [← hqv, ← hqv']
    exact hs.propUniq q hq q' hq' (by rw [hqr, hqr'])

theorem rules_nil (P : Params) (hP : P.Valid) : QAbs.Rules (ctxT P hP []) := by
  have hno : ∀ {k : Nat} {q : QAbs.Ev (Op P)}, ¬ QAbs.At (ctxT P hP []) k q := by
    intro k q h
    have := at_lt h
    simp at this
  constructor
  · intro i r v v' k k' _ h; exact absurd h hno
  · intro i r v k _ h; exact absurd h hno
  · intro i r v k _ h; exact absurd h hno
  · intro i r v k _ h; exact absurd h hno
  · intro i r v r' pr pv k1 k2 _ h; exact absurd h hno
  · intro i r v r' pr pv k1 k2 _ h; exact absurd h hno
  · intro i rc k _ h; exact absurd h hno
  · intro i r v k _ h; exact absurd h hno

theorem inv_init (P : Params) (hP : P.Valid) : Inv P hP (Sys.init P) where
  shape := fun _ => Or.inl rfl
  log := by intro m hm; simp [Sys.init] at hm
  node := by
    intro i _
    show NodeInvO P [] i (instAt P.height newController)
    have : instAt P.height newController = none := instAt_of_nil rfl
    rw [this]
    intro e he; simp at he
  rules := rules_nil P hP

theorem capacity_pos (P : Params) (i : Op P) : 1 ≤ (P.cfg i).capacity := by
  show 1 ≤ Gen.qbft_InstanceContainerDefaultCapacity
  decide

/-- every enabled action is a node transition of one correct operator -/
theorem step_nstep {P : Params} (hP : P.Valid) (σ : Sys P) (hinv : Inv P hP σ) (a : Action P)
    (hen : enabled σ a = true) :
    ∃ (i : Op P) (c' : Ctrl) (outs : List Out) (evs : List (Ev (Op P))), P.honest i = true ∧
      step σ a = σ.update i c' outs evs ∧ Shape P.height c' ∧
      NStep (P.cfg i) P.height (fun m => authentic P σ.log m = true ∧ m.ident = ownIdent) i (instAt P.height (σ.ctrl i))
        (instAt P.height c') (bcasts outs) evs := by
  cases a with
  | start i v =>
    have hi : P.honest i = true := hen
    obtain ⟨h1, h2⟩ := ctrl_start_node (P.cfg i) P.height (fun m => authentic P σ.log m = true ∧ m.ident = ownIdent) i (σ.ctrl i) v
      (hinv.shape i) (capacity_pos P i)
    exact ⟨i, _, _, _, hi, rfl, h1, h2⟩
  | deliver i m =>
    have hen' : P.honest i = true ∧ authentic P σ.log m = true := by
      simpa [enabled] using hen
    obtain ⟨h1, h2⟩ := ctrl_processMsg_node (P.cfg i) P.height (fun m => authentic P σ.log m = true ∧ m.ident = ownIdent) i (σ.ctrl i) m
      (hinv.shape i) (capacity_pos P i) (fun hid => ⟨hen'.2, hid⟩)
      (fun hv hid => (cert_facts hP hinv.log i m hv hen'.2 hid).height)
    exact ⟨i, _, _, _, hen'.1, rfl, h1, h2⟩
  | timeout i r =>
    have hi : P.honest i = true := hen
    obtain ⟨h1, h2⟩ := ctrl_onTimeout_node (P.cfg i) P.height (fun m => authentic P σ.log m = true ∧ m.ident = ownIdent) i (σ.ctrl i) r
      (hinv.shape i)
    exact ⟨i, _, _, _, hi, rfl, h1, h2⟩

theorem inv_update {P : Params} (hP : P.Valid) (σ : Sys P) (hinv : Inv P hP σ) (i : Op P) (hi : P.honest i = true)
    (c' : Ctrl) (outs : List Out) (evs : List (Ev (Op P))) (hsh : Shape P.height c')
    (hst : NStep (P.cfg i) P.height (fun m => authentic P σ.log m = true ∧ m.ident = ownIdent) i (instAt P.height (σ.ctrl i))
        (instAt P.height c') (bcasts outs) evs) :
    Inv P hP (σ.update i c' outs evs) := by
  have X : StepCtx P hP σ.trace σ.log i (instAt P.height (σ.ctrl i)) (instAt P.height c') (bcasts outs) evs :=
    ⟨hi, hinv.log, hst, hinv.node i hi, hinv.rules⟩
  have H0 : ∀ (j : Op P) (r v : Nat), P.honest j = true → Ev.K j r v ∈ σ.trace → 1 ≤ r := by
    intro j r v hj hm
    obtain ⟨k, hk⟩ := List.getElem?_of_mem hm
    exact hinv.rules.H0 j r v k ((honest_iff P hP _ j).2 hj) (at_K.2 hk)
  have hnode : ∀ j, P.honest j = true →
      NodeInvO P (σ.trace ++ evs) j (instAt P.height ((σ.update i c' outs evs).ctrl j)) := by
    intro j hj
    by_cases hji : j = i
    · subst hji
      have : (σ.update j c' outs evs).ctrl j = c' := by simp [Sys.update]
      rw [this]
      exact nodeInvO_step hP hinv.log H0 j hst (hinv.node j hj)
    · have : (σ.update i c' outs evs).ctrl j = σ.ctrl j := by simp [Sys.update, hji]
      rw [this]
      exact nodeInvO_other (hinv.node j hj) evs (fun e he => by rw [nstep_evs_node hst e he]; exact fun h => hji h.symm)
  refine ⟨?_, ?_, hnode, ?_⟩
  · intro j
    by_cases hji : j = i
    · subst hji
      have : (σ.update j c' outs evs).ctrl j = c' := by simp [Sys.update]
      rw [this]; exact hsh
    · have : (σ.update i c' outs evs).ctrl j = σ.ctrl j := by simp [Sys.update, hji]
      rw [this]; exact hinv.shape j
  · intro m hm
    show LogOK P (σ.trace ++ evs) m
    have hm' : m ∈ σ.log ++ bcasts outs := hm
    rcases List.mem_append.1 hm' with h | h
    · exact (hinv.log m h).ext evs
    · exact log_step i hi hst (hinv.node i hi) m h
  · show QAbs.Rules (ctxT P hP (σ.trace ++ evs))
    exact ⟨h1_of_nodes (fun j hj => ⟨_, hnode j hj⟩), step_H0 X, step_H2 X, step_H3 X, step_H4 X, step_H5 X,
      step_H6 X, step_H7 X⟩

theorem inv_step {P : Params} (hP : P.Valid) (σ : Sys P) (hinv : Inv P hP σ) (a : Action P)
    (hen : enabled σ a = true) : Inv P hP (step σ a) := by
  obtain ⟨i, c', outs, evs, hi, he, hsh, hst⟩ := step_nstep hP σ hinv a hen
  rw [he]
  exact inv_update hP σ hinv i hi c' outs evs hsh hst

theorem inv_of_reachable {P : Params} (hP : P.Valid) {σ : Sys P} (h : Reachable σ) : Inv P hP σ := by
  induction h with
  | init => exact inv_init P hP
  | step a _ hen ih => exact inv_step hP _ ih a hen

/-- the Layer-A context of a system state: f, the Byzantine set, the ghost trace -/
def ctxOf {P : Params} (hP : P.Valid) (σ : Sys P) : QAbs.Ctx (Op P) := ctxT P hP σ.trace

/-! ### the returned decided message is a reported decision -/

theorem outEvents_decided {N : Type} (i : N) (l : List Out) (d : Msg) (h : Out.bcastDecided d ∈ l) :
    Ev.D i d.round d.fullData ∈ outEvents i l := by
  induction l with
  | nil => simp at h
  | cons o rest ih =>
    rcases List.mem_cons.1 h with h | h
    · subst h; simp [outEvents]
    · have := ih h
      cases o <;> simp [outEvents, this]

/-- `Controller.ProcessMsg` returns a decided message only through `UponDecided`, or together with a decided broadcast -/
theorem processMsg_returns (cfg : Cfg) (c : Ctrl) (m d : Msg) (h : (c.processMsg cfg m).res = .ok (some d)) :
    isDecidedMsg cfg m = true ∨ Out.bcastDecided d ∈ (c.processMsg cfg m).outs := by
  unfold Ctrl.processMsg at h ⊢
  split at h
  · simp at h
  · rename_i hid
    rw [if_neg hid]
    split at h
    · rename_i hd; exact Or.inl hd
    · rename_i hnd
      rw [if_neg hnd]
      split at h
      · simp at h
      · rename_i hf
        rw [if_neg hf]
        right
        unfold uponExistingInstanceMsg at h ⊢
        split at h
        · simp at h
        · rename_i inst hfi
          simp only [hfi]
          cases hr : (processMsg cfg inst m).res with
          | panic => simp [hr] at h
          | err t => simp [hr] at h
          | ok dec v agg =>
            simp only [hr] at h ⊢
            cases dec with
            | false => simp at h
            | true =>
              cases agg with
              | none => simp at h
              | some a =>
                simp only [Bool.not_true, Bool.false_eq_true, if_false] at h ⊢
                split at h
                · simp at h
                · simp only [COutcome.ok.injEq, Option.some.injEq] at h
                  subst h
                  split <;> simp

/-- observation point 1: whenever `Controller.ProcessMsg(m)` of operator i returns a decided message d, the decision
    (d.round, d.fullData) is reported in the resulting state -/
theorem returned_reported {P : Params} (σ : Sys P) (i : Op P) (m d : Msg)
    (h : ((σ.ctrl i).processMsg (P.cfg i) m).res = .ok (some d)) : reported (step σ (.deliver i m)) i d.fullData := by
  refine ⟨d.round, ?_⟩
  show Ev.D i d.round d.fullData ∈ σ.trace ++ deliverEvents (P.cfg i) P.height i (σ.ctrl i) ((σ.ctrl i).processMsg (P.cfg i) m) m
  apply List.mem_append_right
  unfold deliverEvents
  rcases processMsg_returns _ _ _ _ h with hd | ho
  · apply List.mem_append_right
    rw [hd, h]
    simp
  · apply List.mem_append_left
    apply List.mem_append_right
    exact outEvents_decided i _ d ho

end Ssv.Qbft.B
