/- Helper lemmas for C14 (core Lean only). -/
import Ssv.Model.Queue

namespace Ssv.Queue

variable {α : Type}

/-- what `selectFrom` maintains about its accumulator, relative to the whole list `full` -/
structure BestOk (prior : α → α → Bool) (adm : α → Bool) (full : List α) (seen : List α) (best : Option (Nat × α)) : Prop where
  some_ok : ∀ j h, best = some (j, h) → full[j]? = some h ∧ adm h = true ∧ ∀ y ∈ seen, adm y = true → prior h y = true
  none_ok : best = none → ∀ y ∈ seen, adm y = false

theorem selectFrom_spec (prior : α → α → Bool) (adm : α → Bool)
    (hrefl : ∀ a, prior a a = true)
    (htot : ∀ a b, prior a b = true ∨ prior b a = true)
    (htr : ∀ a b c, prior a b = true → prior b c = true → prior a c = true)
    (full : List α) :
    ∀ (rest seen : List α) (best : Option (Nat × α)), full = seen ++ rest →
      BestOk prior adm full seen best →
      BestOk prior adm full full (selectFrom prior adm rest seen.length best) := by
  intro rest
  induction rest with
  | nil =>
    intro seen best hfull hok
    simp only [List.append_nil] at hfull
    subst hfull
    simpa [selectFrom] using hok
  | cons x xs ih =>
    intro seen best hfull hok
    have hfull' : full = (seen ++ [x]) ++ xs := by simp [hfull]
    have hx : full[seen.length]? = some x := by simp [hfull]
    have hlen : (seen ++ [x]).length = seen.length + 1 := by simp
    simp only [selectFrom]
    rw [← hlen]
    apply ih (seen ++ [x]) _ hfull'
    by_cases hadm : adm x = true
    · simp only [hadm, if_true]
      cases hb : best with
      | none =>
        refine ⟨?_, by simp⟩
        intro j h hjh
        simp only [Option.some.injEq, Prod.mk.injEq] at hjh
        obtain ⟨rfl, rfl⟩ := hjh
        refine ⟨hx, hadm, ?_⟩
        intro y hy hay
        rcases List.mem_append.1 hy with hy | hy
        · have := hok.none_ok hb y hy; simp [this] at hay
        · simp at hy; subst hy; exact hrefl _
      | some jh =>
        obtain ⟨j, h⟩ := jh
        obtain ⟨hj, hah, hmax⟩ := hok.some_ok j h hb
        by_cases hp : prior x h = true
        · simp only [hp, if_true]
          refine ⟨?_, by simp⟩
          intro j' h' hjh
          simp only [Option.some.injEq, Prod.mk.injEq] at hjh
          obtain ⟨rfl, rfl⟩ := hjh
          refine ⟨hx, hadm, ?_⟩
          intro y hy hay
          rcases List.mem_append.1 hy with hy | hy
          · exact htr _ _ _ hp (hmax y hy hay)
          · simp at hy; subst hy; exact hrefl _
        · simp only [hp]
          refine ⟨?_, by simp⟩
          intro j' h' hjh
          simp only [Bool.false_eq_true, if_false, Option.some.injEq, Prod.mk.injEq] at hjh
          obtain ⟨hj', hh'⟩ := hjh
          subst hj'; subst hh'
          refine ⟨hj, hah, ?_⟩
          intro y hy hay
          rcases List.mem_append.1 hy with hy | hy
          · exact hmax y hy hay
          · simp at hy; subst hy
            rcases htot h y with h1 | h1
            · exact h1
            · exact absurd h1 hp
    · have hadm' : adm x = false := by simpa using hadm
      simp only [hadm', Bool.false_eq_true, if_false]
      refine ⟨?_, ?_⟩
      · intro j h hb
        obtain ⟨hj, hah, hmax⟩ := hok.some_ok j h hb
        refine ⟨hj, hah, ?_⟩
        intro y hy hay
        rcases List.mem_append.1 hy with hy | hy
        · exact hmax y hy hay
        · simp at hy; subst hy; simp [hadm'] at hay
      · intro hb y hy
        rcases List.mem_append.1 hy with hy | hy
        · exact hok.none_ok hb y hy
        · simp at hy; subst hy; exact hadm'

theorem selectFrom_top (prior : α → α → Bool) (adm : α → Bool)
    (hrefl : ∀ a, prior a a = true)
    (htot : ∀ a b, prior a b = true ∨ prior b a = true)
    (htr : ∀ a b c, prior a b = true → prior b c = true → prior a c = true)
    (l : List α) : BestOk prior adm l l (selectFrom prior adm l 0 none) := by
  have := selectFrom_spec prior adm hrefl htot htr l l [] none (by simp)
    ⟨(by intro j h hh; cases hh), (by intro _ y hy; cases hy)⟩
  simpa using this

/-- an index lookup splits the list into a permutation with that element in front -/
theorem perm_eraseIdx (l : List α) (i : Nat) (x : α) (h : l[i]? = some x) : l.Perm (x :: l.eraseIdx i) := by
  induction l generalizing i with
  | nil => simp at h
  | cons y ys ih =>
    cases i with
    | zero => simp at h; subst h; simp
    | succ k =>
      simp at h
      have := ih k h
      simp only [List.eraseIdx_cons_succ]
      exact (List.Perm.cons y this).trans (List.Perm.swap x y _)

/-! ### the standard prioritizer is a total preorder -/

/-- the five-level key compared by `prior` -/
def key (s : PState) (m : Msg) : Nat × Nat × Nat × Nat × Nat :=
  (scoreMessageType m, scoreHeight (compareHeightOrSlot s m),
   scoreMessageSubtype s m (compareHeightOrSlot s m), scoreRound s m, scoreConsensusType m)

/-- one level of a lexicographic "greater or equal": compare the first components, else defer -/
def lexStep {β : Type} (R : β → β → Bool) (a b : Nat × β) : Bool :=
  if a.1 ≠ b.1 then decide (a.1 > b.1) else R a.2 b.2

def lexLast (a b : Nat) : Bool := if a ≠ b then decide (a > b) else true

def lexGe : (a b : Nat × Nat × Nat × Nat × Nat) → Bool :=
  lexStep (lexStep (lexStep (lexStep lexLast)))

theorem rel_le_two (s : PState) (m : Msg) : compareHeightOrSlot s m ≤ 2 := by
  unfold compareHeightOrSlot
  cases m.body <;> simp <;> (repeat' split) <;> omega

theorem scoreHeight_inj (a b : Nat) (ha : a ≤ 2) (hb : b ≤ 2) : scoreHeight a = scoreHeight b ↔ a = b := by
  have : a = 0 ∨ a = 1 ∨ a = 2 := by omega
  have : b = 0 ∨ b = 1 ∨ b = 2 := by omega
  rcases ‹a = 0 ∨ a = 1 ∨ a = 2› with h | h | h <;> rcases ‹b = 0 ∨ b = 1 ∨ b = 2› with h' | h' | h' <;>
    subst h <;> subst h' <;> decide

theorem prior_eq_lexGe (s : PState) (a b : Msg) : prior s a b = lexGe (key s a) (key s b) := by
  have ha := rel_le_two s a
  have hb := rel_le_two s b
  have hinj := scoreHeight_inj _ _ ha hb
  unfold prior lexGe lexStep lexLast key
  simp only []
  by_cases h1 : scoreMessageType a = scoreMessageType b
  · simp only [h1, ne_eq, not_true_eq_false, if_false]
    by_cases h2 : compareHeightOrSlot s a = compareHeightOrSlot s b
    · simp [h2]
    · have : scoreHeight (compareHeightOrSlot s a) ≠ scoreHeight (compareHeightOrSlot s b) := fun e => h2 (hinj.1 e)
      simp [h2, this]
  · simp [h1]

theorem lexStep_refl {β : Type} (R : β → β → Bool) (h : ∀ a, R a a = true) (a : Nat × β) :
    lexStep R a a = true := by simp [lexStep, h]

theorem lexStep_total {β : Type} (R : β → β → Bool) (h : ∀ a b, R a b = true ∨ R b a = true)
    (a b : Nat × β) : lexStep R a b = true ∨ lexStep R b a = true := by
  unfold lexStep
  by_cases e : a.1 = b.1
  · simp [e, h]
  · have e' : ¬ b.1 = a.1 := fun x => e x.symm
    simp [e, e']; omega

theorem lexStep_trans {β : Type} (R : β → β → Bool)
    (h : ∀ a b c, R a b = true → R b c = true → R a c = true)
    (a b c : Nat × β) (h1 : lexStep R a b = true) (h2 : lexStep R b c = true) : lexStep R a c = true := by
  unfold lexStep at *
  by_cases e1 : a.1 = b.1 <;> by_cases e2 : b.1 = c.1
  · have e3 : a.1 = c.1 := e1.trans e2
    simp [e1, e2, e3] at *
    exact h _ _ _ h1 h2
  · have e3 : ¬ a.1 = c.1 := fun x => e2 (e1 ▸ x)
    simp [e1, e2, e3] at *
    omega
  · have e3 : ¬ a.1 = c.1 := fun x => e1 (e2 ▸ x)
    simp [e1, e2, e3] at *
    omega
  · simp [e1, e2] at h1 h2
    have e3 : ¬ a.1 = c.1 := by omega
    simp [e3]; omega

theorem lexLast_refl (a : Nat) : lexLast a a = true := by simp [lexLast]
theorem lexLast_total (a b : Nat) : lexLast a b = true ∨ lexLast b a = true := by
  unfold lexLast; by_cases e : a = b
  · simp [e]
  · have e' : ¬ b = a := fun x => e x.symm
    simp [e, e']; omega
theorem lexLast_trans (a b c : Nat) (h1 : lexLast a b = true) (h2 : lexLast b c = true) : lexLast a c = true := by
  unfold lexLast at *
  by_cases e1 : a = b <;> by_cases e2 : b = c <;> by_cases e3 : a = c <;> simp_all <;> omega

theorem lexGe_refl (a) : lexGe a a = true :=
  lexStep_refl _ (lexStep_refl _ (lexStep_refl _ (lexStep_refl _ lexLast_refl))) a

theorem lexGe_total (a b) : lexGe a b = true ∨ lexGe b a = true :=
  lexStep_total _ (lexStep_total _ (lexStep_total _ (lexStep_total _ lexLast_total))) a b

theorem lexGe_trans (a b c) (h1 : lexGe a b = true) (h2 : lexGe b c = true) : lexGe a c = true :=
  lexStep_trans _ (lexStep_trans _ (lexStep_trans _ (lexStep_trans _ lexLast_trans))) a b c h1 h2

theorem prior_refl (s : PState) (a : Msg) : prior s a a = true := by
  rw [prior_eq_lexGe]; exact lexGe_refl _

theorem prior_total (s : PState) (a b : Msg) : prior s a b = true ∨ prior s b a = true := by
  rw [prior_eq_lexGe, prior_eq_lexGe]; exact lexGe_total _ _

theorem prior_trans (s : PState) (a b c : Msg) (h1 : prior s a b = true) (h2 : prior s b c = true) :
    prior s a c = true := by
  rw [prior_eq_lexGe] at *; exact lexGe_trans _ _ _ h1 h2

end Ssv.Queue
