/-
Helper lemmas for the registry model (properties C11, C12). Core Lean only (no Mathlib needed).
-/
import Ssv.Model.Registry
import Ssv.Model.RegistryCrash

namespace Ssv.Registry

/-! ## steps act component-wise -/

theorem runSteps_nil (n : Node) : runSteps n [] = n := rfl
theorem runSteps_cons (n : Node) (s : Step) (l : List Step) : runSteps n (s :: l) = runSteps (applyStep n s) l := rfl
theorem runSteps_append (n : Node) (a b : List Step) : runSteps n (a ++ b) = runSteps (runSteps n a) b := by
  simp [runSteps, List.foldl_append]

theorem runSteps_reg (n : Node) (l : List Step) : (runSteps n l).reg = l.foldl stepReg n.reg := by
  induction l generalizing n with
  | nil => rfl
  | cons s l ih => rw [runSteps_cons, ih]; rfl

theorem runSteps_wal (n : Node) (l : List Step) : (runSteps n l).wal = l.foldl stepWal n.wal := by
  induction l generalizing n with
  | nil => rfl
  | cons s l ih => rw [runSteps_cons, ih]; rfl

theorem runSteps_hist (n : Node) (l : List Step) : (runSteps n l).hist = l.foldl stepHist n.hist := by
  induction l generalizing n with
  | nil => rfl
  | cons s l ih => rw [runSteps_cons, ih]; rfl

/-- the registry component ignores how key-manager calls expand -/
theorem foldl_stepReg_expand (w : Wal) (r : RegMem) (s : Step) : (expand w s).foldl stepReg r = stepReg r s := by
  cases s <;> simp [expand, stepReg] <;> split <;> simp [stepReg]

theorem foldl_stepReg_flatMap_expand (w : Wal) (r : RegMem) (l : List Step) :
    (l.flatMap (expand w)).foldl stepReg r = l.foldl stepReg r := by
  induction l generalizing r with
  | nil => rfl
  | cons s l ih => simp [List.flatMap_cons, List.foldl_append, foldl_stepReg_expand, ih]

/-- the decided-history component ignores how key-manager calls expand -/
theorem foldl_stepHist_expand (w : Wal) (h : Hist) (s : Step) : (expand w s).foldl stepHist h = stepHist h s := by
  cases s <;> simp [expand, stepHist] <;> split <;> simp [stepHist]

theorem foldl_stepHist_flatMap_expand (w : Wal) (h : Hist) (l : List Step) :
    (l.flatMap (expand w)).foldl stepHist h = l.foldl stepHist h := by
  induction l generalizing h with
  | nil => rfl
  | cons s l ih => simp [List.flatMap_cons, List.foldl_append, foldl_stepHist_expand, ih]

/-! ## the registry projection of the interpreter -/

/-- registry effect of one event -/
def regEvent (me blk : Nat) (r : RegMem) (e : Event) : RegMem :=
  (regSteps me blk (viewOf r) e).1.foldl stepReg r

def regOutcome (me blk : Nat) (r : RegMem) (e : Event) : Outcome := (regSteps me blk (viewOf r) e).2

theorem applyEvent_reg (me blk : Nat) (n : Node) (e : Event) :
    (applyEvent me blk n e).1.reg = regEvent me blk n.reg e := by
  simp [applyEvent, eventSteps, runSteps_reg, foldl_stepReg_flatMap_expand, regEvent]

theorem applyEvent_outcome (me blk : Nat) (n : Node) (e : Event) :
    (applyEvent me blk n e).2 = regOutcome me blk n.reg e := rfl

theorem applyEvent_hist (me blk : Nat) (n : Node) (e : Event) :
    (applyEvent me blk n e).1.hist = (regSteps me blk (viewOf n.reg) e).1.foldl stepHist n.hist := by
  simp [applyEvent, eventSteps, runSteps_hist, foldl_stepHist_flatMap_expand]

end Ssv.Registry
