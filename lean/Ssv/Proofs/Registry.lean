/-
Helper lemmas for the registry model (properties C11, C12). Core Lean only (no Mathlib needed).
-/
import Ssv.Model.Registry
import Ssv.Model.RegistryCrash

namespace Ssv.Registry

/-! ## steps act component-wise -/

theorem runSteps_nil (n : Node) : runSteps n [] = n := rfl
theorem runSteps_cons (n : Node) (s : Step) (l : List Step) : runSteps n (s :: l) = runSteps (applyStep n s) l := rfl
theorem runSteps_append (n : Node) (a b : List Step) : runSteps n (a ++ b) = runSteps (runSteps n a) b := by
  simp [runSteps, List.foldl_append]

theorem runSteps_reg (n : Node) (l : List Step) : (runSteps n l).reg = l.foldl stepReg n.reg := by
  induction l generalizing n with
  | nil => rfl
  | cons s l ih => rw [runSteps_cons, ih]; rfl

theorem runSteps_wal (n : Node) (l : List Step) : (runSteps n l).wal = l.foldl stepWal n.wal := by
  induction l generalizing n with
  | nil => rfl
  | cons s l ih => rw [runSteps_cons, ih]; rfl

theorem runSteps_hist (n : Node) (l : List Step) : (runSteps n l).hist = l.foldl stepHist n.hist := by
  induction l generalizing n with
  | nil => rfl
  | cons s l ih => rw [runSteps_cons, ih]; rfl

/-- the registry component ignores how key-manager calls expand -/
theorem foldl_stepReg_expand (w : Wal) (r : RegMem) (s : Step) : (expand w s).foldl stepReg r = stepReg r s := by
  cases s <;> simp [expand, stepReg] <;> split <;> simp [stepReg]

theorem foldl_stepReg_flatMap_expand (w : Wal) (r : RegMem) (l : List Step) :
    (l.flatMap (expand w)).foldl stepReg r = l.foldl stepReg r := by
  induction l generalizing r with
  | nil => rfl
  | cons s l ih => simp [List.flatMap_cons, List.foldl_append, foldl_stepReg_expand, ih]

/-- the decided-history component ignores how key-manager calls expand -/
theorem foldl_stepHist_expand (w : Wal) (h : Hist) (s : Step) : (expand w s).foldl stepHist h = stepHist h s := by
  cases s <;> simp [expand, stepHist] <;> split <;> simp [stepHist]

theorem foldl_stepHist_flatMap_expand (w : Wal) (h : Hist) (l : List Step) :
    (l.flatMap (expand w)).foldl stepHist h = l.foldl stepHist h := by
  induction l generalizing h with
  | nil => rfl
  | cons s l ih => simp [List.flatMap_cons, List.foldl_append, foldl_stepHist_expand, ih]

/-! ## the registry projection of the interpreter -/

/-- registry effect of one event -/
def regEvent (me blk : Nat) (r : RegMem) (e : Event) : RegMem :=
  (regSteps me blk (viewOf r) e).1.foldl stepReg r

def regOutcome (me blk : Nat) (r : RegMem) (e : Event) : Outcome := (regSteps me blk (viewOf r) e).2

theorem runMacro_eq_runSteps (n : Node) (l : List Step) : runMacro n l = runSteps n (macroTrace n l) := by
  induction l generalizing n with
  | nil => rfl
  | cons s l ih => simp only [runMacro, macroTrace, runSteps_append, ih]

theorem runMacro_reg (n : Node) (l : List Step) : (runMacro n l).reg = l.foldl stepReg n.reg := by
  induction l generalizing n with
  | nil => rfl
  | cons s l ih => simp only [runMacro, ih, runSteps_reg, foldl_stepReg_expand, List.foldl_cons]

theorem runMacro_hist (n : Node) (l : List Step) : (runMacro n l).hist = l.foldl stepHist n.hist := by
  induction l generalizing n with
  | nil => rfl
  | cons s l ih => simp only [runMacro, ih, runSteps_hist, foldl_stepHist_expand, List.foldl_cons]

theorem applyEvent_reg (me blk : Nat) (n : Node) (e : Event) :
    (applyEvent me blk n e).1.reg = regEvent me blk n.reg e := by
  simp [applyEvent, runMacro_reg, regEvent]

theorem applyEvent_outcome (me blk : Nat) (n : Node) (e : Event) :
    (applyEvent me blk n e).2 = regOutcome me blk n.reg e := rfl

theorem applyEvent_hist (me blk : Nat) (n : Node) (e : Event) :
    (applyEvent me blk n e).1.hist = (regSteps me blk (viewOf n.reg) e).1.foldl stepHist n.hist := by
  simp [applyEvent, runMacro_hist]

/-! ## closed forms of the registry effect of the handlers' step lists -/

theorem foldl_kmAddSteps (self : Nat) (sh : Share) (r : RegMem) : (kmAddSteps self sh).foldl stepReg r = r := by
  unfold kmAddSteps; split
  · split <;> simp [stepReg]
  · rfl

theorem foldl_kmRemoveSteps (self : Nat) (sh : Share) (r : RegMem) : (kmRemoveSteps self sh).foldl stepReg r = r := by
  unfold kmRemoveSteps; split
  · split <;> simp [stepReg]
  · rfl

theorem foldl_createSteps (self : Nat) (sh : Share) (r : RegMem) :
    (createSteps self sh).foldl stepReg r =
      { r with txn := { r.txn with shares := upsertShare sh r.txn.shares }, shares := upsertShare sh r.shares } := by
  simp [createSteps, List.foldl_append, foldl_kmAddSteps, stepReg]

theorem foldl_removeSteps (self : Nat) (sh : Share) (r : RegMem) :
    (removeSteps self sh).foldl stepReg r =
      { r with txn := { r.txn with shares := eraseShare sh.pk r.txn.shares }, shares := eraseShare sh.pk r.shares } := by
  simp [removeSteps, foldl_kmRemoveSteps, stepReg]

def upsertShares (l : List Share) (acc : List Share) : List Share := l.foldl (fun acc s => upsertShare s acc) acc

theorem foldl_txnShares (l : List Share) (r : RegMem) :
    (l.map Step.txnShare).foldl stepReg r = { r with txn := { r.txn with shares := upsertShares l r.txn.shares } } := by
  induction l generalizing r with
  | nil => rfl
  | cons s l ih => simp [List.foldl_cons, ih, stepReg, upsertShares]

theorem foldl_clusterSteps (v : View) (owner : Nat) (ops : List Nat) (b : Bool) (r : RegMem) :
    (clusterSteps v owner ops b).1.foldl stepReg r =
      if (clusterShares v owner ops).isEmpty then r
      else
        let upd := (clusterShares v owner ops).map (fun s => { s with liquidated := b })
        { r with txn := { r.txn with shares := upsertShares upd r.txn.shares },
                 shares := upsertShares upd (setLiquidated ((clusterShares v owner ops).map (·.pk)) b r.shares) } := by
  simp only [clusterSteps]
  split
  · rfl
  · simp only [List.foldl_append, List.foldl_cons, List.foldl_nil, foldl_txnShares, stepReg, upsertShares]

/-- the share a ValidatorAdded event creates, if it passes every guard -/
def vaCreates (r : RegMem) (owner pk : Nat) (sn : Option Nat) (len : Nat) (ms : List Member) : Option Share :=
  if validateOperators r.txn.ops (ms.map (·.op)) = none ∧ len = expectedSharesLen ms.length ∧
     sn = some (nextNonce r.txn.recips owner) ∧ findShare r.shares pk = none then
    match scanCommittee r.self ms with
    | .ok own => some (newShare r.self owner pk ms own)
    | .error _ => none
  else none

def bumpReg (r : RegMem) (owner : Nat) : RegMem :=
  { r with txn := { r.txn with recips := upsertRecip (bumped r.txn.recips owner) r.txn.recips } }

theorem regEvent_validatorAdded (me blk : Nat) (r : RegMem) (owner pk : Nat) (sn : Option Nat) (len : Nat) (ms : List Member) :
    regEvent me blk r (.validatorAdded owner pk sn len ms) =
      match vaCreates r owner pk sn len ms with
      | some sh => { bumpReg r owner with
                      txn := { (bumpReg r owner).txn with shares := upsertShare sh r.txn.shares },
                      shares := upsertShare sh r.shares }
      | none => bumpReg r owner := by
  simp only [regEvent, regSteps, addSteps, viewOf, vaCreates]
  cases hv : validateOperators r.txn.ops (ms.map (·.op)) with
  | some t => simp [stepReg, bumpReg]
  | none =>
    by_cases hl : len = expectedSharesLen ms.length
    · by_cases hs : sn = some (nextNonce r.txn.recips owner)
      · cases hf : findShare r.shares pk with
        | none =>
          cases hc : scanCommittee r.self ms with
          | error t => simp [hl, hs, stepReg, bumpReg]
          | ok own => simp [hl, hs, foldl_createSteps, stepReg, bumpReg]
        | some sh => by_cases ho : owner = sh.owner <;> simp [hl, hs, ho, stepReg, bumpReg]
      · simp [hl, hs, stepReg, bumpReg]
    · simp [hl, stepReg, bumpReg]

theorem regEvent_operatorAdded (me blk : Nat) (r : RegMem) (id owner pk : Nat) :
    regEvent me blk r (.operatorAdded id owner pk) =
      if (r.self != 0 && pk == me && r.self != id) = true then r
      else if hasOp r.db.ops id = true then r
      else if (pk == me) = true then
        { r with txn := { r.txn with ops := upsertOp ⟨id, pk, owner⟩ r.txn.ops }, self := id }
      else { r with txn := { r.txn with ops := upsertOp ⟨id, pk, owner⟩ r.txn.ops } } := by
  dsimp only [regEvent, regSteps, viewOf]
  cases h1 : (r.self != 0 && pk == me && r.self != id)
  · simp only [Bool.false_eq_true, ↓reduceIte]
    cases h2 : hasOp r.db.ops id
    · simp only [Bool.false_eq_true, ↓reduceIte]
      cases h3 : (pk == me) <;> simp [stepReg]
    · simp
  · simp

theorem regEvent_operatorRemoved (me blk : Nat) (r : RegMem) (id : Nat) :
    regEvent me blk r (.operatorRemoved id) = r := by
  by_cases h : hasOp r.txn.ops id = true <;> simp [regEvent, regSteps, viewOf, h]

theorem regEvent_validatorRemoved (me blk : Nat) (r : RegMem) (owner pk : Nat) (ops : List Nat) :
    regEvent me blk r (.validatorRemoved owner pk ops) =
      match findShare r.shares pk with
      | none => r
      | some sh =>
        if (owner != sh.owner) = true then r
        else { r with txn := { r.txn with shares := eraseShare sh.pk r.txn.shares }, shares := eraseShare sh.pk r.shares } := by
  cases hf : findShare r.shares pk with
  | none => simp [regEvent, regSteps, viewOf, hf]
  | some sh => by_cases ho : (owner != sh.owner) = true <;> simp [regEvent, regSteps, viewOf, hf, ho, foldl_removeSteps]

theorem regEvent_validatorExited (me blk : Nat) (r : RegMem) (owner pk : Nat) (ops : List Nat) :
    regEvent me blk r (.validatorExited owner pk ops) = r := by
  cases hf : findShare r.shares pk with
  | none => simp [regEvent, regSteps, viewOf, hf]
  | some sh =>
    by_cases ho : (owner != sh.owner) = true
    · simp [regEvent, regSteps, viewOf, hf, ho]
    · by_cases hb : belongs r.self sh = true
      · cases hm : sh.bmeta <;> simp [regEvent, regSteps, viewOf, hf, ho, hb, hm]
      · simp [regEvent, regSteps, viewOf, hf, ho, hb]

/-- registry effect of ClusterLiquidated (b = true) / ClusterReactivated (b = false) -/
def clusterEffect (r : RegMem) (owner : Nat) (ops : List Nat) (b : Bool) : RegMem :=
  if (clusterShares (viewOf r) owner ops).isEmpty then r
  else
    let upd := (clusterShares (viewOf r) owner ops).map (fun s => { s with liquidated := b })
    { r with txn := { r.txn with shares := upsertShares upd r.txn.shares },
             shares := upsertShares upd (setLiquidated ((clusterShares (viewOf r) owner ops).map (·.pk)) b r.shares) }

theorem regEvent_clusterLiquidated (me blk : Nat) (r : RegMem) (owner : Nat) (ops : List Nat) :
    regEvent me blk r (.clusterLiquidated owner ops) = clusterEffect r owner ops true := by
  simp only [regEvent, regSteps, foldl_clusterSteps, clusterEffect]

theorem regEvent_clusterReactivated (me blk : Nat) (r : RegMem) (owner : Nat) (ops : List Nat) :
    regEvent me blk r (.clusterReactivated owner ops) = clusterEffect r owner ops false := by
  simp only [regEvent, regSteps, foldl_clusterSteps, clusterEffect]

theorem regEvent_feeRecipientUpdated (me blk : Nat) (r : RegMem) (owner fee : Nat) :
    regEvent me blk r (.feeRecipientUpdated owner fee) =
      match findRecip r.txn.recips owner with
      | some x =>
        if (x.fee == fee) = true then r
        else { r with txn := { r.txn with recips := upsertRecip { x with fee := fee } r.txn.recips } }
      | none => { r with txn := { r.txn with recips := upsertRecip ⟨owner, fee, none⟩ r.txn.recips } } := by
  cases hf : findRecip r.txn.recips owner with
  | none => simp [regEvent, regSteps, viewOf, hf, stepReg]
  | some x => by_cases hq : (x.fee == fee) = true <;> simp [regEvent, regSteps, viewOf, hf, hq, stepReg]

theorem regEvent_unparsable (me blk : Nat) (r : RegMem) : regEvent me blk r .unparsable = r := rfl
theorem regEvent_unknownTopic (me blk : Nat) (r : RegMem) : regEvent me blk r .unknownTopic = r := rfl
theorem regEvent_noTopics (me blk : Nat) (r : RegMem) : regEvent me blk r .noTopics = r := rfl


/-! ## the registry projection of blocks and runs -/

def regEvents (me blk : Nat) : RegMem → List Event → RegMem × Bool
  | r, [] => (r, false)
  | r, e :: es =>
    if (regOutcome me blk r e).isPanic then (regEvent me blk r e, true)
    else regEvents me blk (regEvent me blk r e) es

def beginReg (r : RegMem) : RegMem := { r with txn := r.db }

def commitReg (r : RegMem) (m : Nat) : RegMem :=
  { r with txn := { r.txn with marker := some m }, db := { r.txn with marker := some m } }

def regBlock (me : Nat) (r : RegMem) (b : Block) : RegMem × BlockStatus :=
  if decide (r.db.marker.getD 0 ≥ b.number) then (r, .refused)
  else
    let q := regEvents me b.number (beginReg r) b.events
    if q.2 then (beginReg q.1, .panicked) else (commitReg q.1 b.number, .ok)

def regRun (me : Nat) : RegMem → List Block → RegMem × Bool
  | r, [] => (r, true)
  | r, b :: bs =>
    match (regBlock me r b).2 with
    | .ok => regRun me (regBlock me r b).1 bs
    | _ => ((regBlock me r b).1, false)

theorem runEvents_reg (me blk : Nat) (n : Node) (es : List Event) :
    (runEvents me blk n es).1.reg = (regEvents me blk n.reg es).1 ∧
    (runEvents me blk n es).2.2 = (regEvents me blk n.reg es).2 := by
  induction es generalizing n with
  | nil => exact ⟨rfl, rfl⟩
  | cons e es ih =>
    simp only [runEvents, regEvents, applyEvent_outcome]
    by_cases hp : (regOutcome me blk n.reg e).isPanic = true
    · simp [hp, applyEvent_reg]
    · simp only [hp, Bool.false_eq_true, ↓reduceIte]
      have := ih (applyEvent me blk n e).1
      rw [applyEvent_reg] at this
      exact this

theorem beginTxn_reg (n : Node) : (beginTxn n).reg = beginReg n.reg := rfl

theorem commit_reg (n : Node) (m : Nat) : (runSteps n [.putMarker m, .commit]).reg = commitReg n.reg m := by
  simp [runSteps, applyStep, stepReg, commitReg]

theorem applyBlock_reg (me : Nat) (n : Node) (b : Block) :
    (applyBlock me n b).1.reg = (regBlock me n.reg b).1 ∧ (applyBlock me n b).2.1 = (regBlock me n.reg b).2 := by
  simp only [applyBlock, regBlock, inferior]
  by_cases hi : decide (n.reg.db.marker.getD 0 ≥ b.number) = true
  · simp [hi]
  · simp only [hi, Bool.false_eq_true, ↓reduceIte]
    have h := runEvents_reg me b.number (beginTxn n) b.events
    rw [beginTxn_reg] at h
    by_cases hp : (regEvents me b.number (beginReg n.reg) b.events).2 = true
    · simp [h.2, hp, beginTxn_reg, h.1]
    · simp [h.2, hp, commit_reg, h.1]

theorem run_reg (me : Nat) (n : Node) (bs : List Block) :
    (run me n bs).1.reg = (regRun me n.reg bs).1 ∧ (run me n bs).2 = (regRun me n.reg bs).2 := by
  induction bs generalizing n with
  | nil => exact ⟨rfl, rfl⟩
  | cons b bs ih =>
    simp only [run, regRun]
    have h := applyBlock_reg me n b
    rw [h.2]
    cases hs : (regBlock me n.reg b).2 with
    | ok => simp only []; rw [← h.1]; exact ih _
    | refused => simp [h.1]
    | panicked => simp [h.1]

/-- Induction over successful runs: `B` holds between blocks, `P` inside a block; both may refer to the list of
    events processed so far. -/
theorem regRun_induction (me : Nat) (B P : List Event → RegMem → Prop)
    (hBP : ∀ evs r, B evs r → P evs (beginReg r))
    (hP : ∀ evs r blk e, P evs r → (regOutcome me blk r e).isPanic = false → P (evs ++ [e]) (regEvent me blk r e))
    (hPB : ∀ evs r m, P evs r → B evs (commitReg r m)) :
    ∀ (bs : List Block) (pre : List Event) (r : RegMem), B pre r → (regRun me r bs).2 = true →
      B (pre ++ flatten bs) (regRun me r bs).1 := by
  have hev : ∀ (blk : Nat) (es : List Event) (pre : List Event) (r : RegMem), P pre r →
      (regEvents me blk r es).2 = false → P (pre ++ es) (regEvents me blk r es).1 := by
    intro blk es
    induction es with
    | nil => intro pre r h _; simpa [regEvents] using h
    | cons e es ih =>
      intro pre r h hnp
      simp only [regEvents] at hnp ⊢
      by_cases hp : (regOutcome me blk r e).isPanic = true
      · simp [hp] at hnp
      · simp only [hp, Bool.false_eq_true, ↓reduceIte] at hnp ⊢
        have := ih (pre ++ [e]) _ (hP pre r blk e h (by simpa using hp)) hnp
        simpa [List.append_assoc] using this
  intro bs
  induction bs with
  | nil => intro pre r h _; simpa [regRun, flatten] using h
  | cons b bs ih =>
    intro pre r h hok
    simp only [regRun] at hok ⊢
    cases hs : (regBlock me r b).2 with
    | refused => simp [hs] at hok
    | panicked => simp [hs] at hok
    | ok =>
      simp only [hs] at hok ⊢
      -- the block was processed: not inferior, no panic
      have hb : (regBlock me r b).1 = commitReg (regEvents me b.number (beginReg r) b.events).1 b.number ∧
                (regEvents me b.number (beginReg r) b.events).2 = false := by
        simp only [regBlock] at hs ⊢
        by_cases hi : decide (r.db.marker.getD 0 ≥ b.number) = true
        · simp [hi] at hs
        · simp only [hi, Bool.false_eq_true, ↓reduceIte] at hs ⊢
          by_cases hp : (regEvents me b.number (beginReg r) b.events).2 = true
          · simp [hp] at hs
          · simp [hp]
      have h1 := hev b.number b.events pre (beginReg r) (hBP pre r h) hb.2
      have h2 := hPB _ _ b.number h1
      rw [← hb.1] at h2
      have := ih (pre ++ b.events) _ h2 hok
      simpa [flatten, List.append_assoc] using this


/-! ## the shares map: memory and transaction stay in step -/

def NodupPk (l : List Share) : Prop := (l.map (·.pk)).Nodup

theorem upsertShare_of_not_mem (s : Share) (l : List Share) (h : s.pk ∉ l.map (·.pk)) : upsertShare s l = l ++ [s] := by
  induction l with
  | nil => rfl
  | cons x xs ih =>
    simp only [List.map_cons, List.mem_cons, not_or] at h
    have hx : (x.pk == s.pk) = false := by simpa using fun e => h.1 e.symm
    simp [upsertShare, hx, ih h.2]

theorem upsertShare_eq_map (s : Share) (l : List Share) (hn : NodupPk l) (h : s.pk ∈ l.map (·.pk)) :
    upsertShare s l = l.map (fun x => if x.pk = s.pk then s else x) := by
  induction l with
  | nil => simp at h
  | cons x xs ih =>
    have hn' : x.pk ∉ xs.map (·.pk) ∧ NodupPk xs := by simpa [NodupPk, List.nodup_cons] using hn
    by_cases hx : x.pk = s.pk
    · have hxs : xs.map (fun y => if y.pk = s.pk then s else y) = xs := by
        have : ∀ y ∈ xs, (if y.pk = s.pk then s else y) = y := by
          intro y hy
          have : y.pk ≠ s.pk := fun e => hn'.1 (by rw [hx, ← e]; exact List.mem_map_of_mem hy)
          simp [this]
        calc xs.map (fun y => if y.pk = s.pk then s else y) = xs.map id := List.map_congr_left (by simpa using this)
          _ = xs := by simp
      simp only [upsertShare, hx, beq_self_eq_true, ↓reduceIte, List.map_cons, hxs]
    · have hmem : s.pk ∈ xs.map (·.pk) := by
        simp only [List.map_cons, List.mem_cons] at h
        rcases h with h | h
        · exact absurd h.symm hx
        · exact h
      have hx' : (x.pk == s.pk) = false := by simpa using hx
      simp only [upsertShare, hx', Bool.false_eq_true, ↓reduceIte, List.map_cons, hx, ih hn'.2 hmem]

theorem upsertShare_pks_of_mem (s : Share) (l : List Share) (hn : NodupPk l) (h : s.pk ∈ l.map (·.pk)) :
    (upsertShare s l).map (·.pk) = l.map (·.pk) := by
  rw [upsertShare_eq_map s l hn h, List.map_map]
  apply List.map_congr_left
  intro x _
  simp only [Function.comp]
  by_cases hx : x.pk = s.pk
  · simp only [hx, ↓reduceIte]
  · simp only [hx, ↓reduceIte]

theorem nodupPk_upsert (s : Share) (l : List Share) (hn : NodupPk l) : NodupPk (upsertShare s l) := by
  by_cases h : s.pk ∈ l.map (·.pk)
  · unfold NodupPk; rw [upsertShare_pks_of_mem s l hn h]; exact hn
  · rw [upsertShare_of_not_mem s l h]
    unfold NodupPk at *
    rw [List.map_append, List.nodup_append]
    refine ⟨hn, by simp, ?_⟩
    intro a ha b hb
    simp at hb
    subst hb
    exact fun e => h (e ▸ ha)

theorem nodupPk_erase (pk : Nat) (l : List Share) (hn : NodupPk l) : NodupPk (eraseShare pk l) := by
  unfold NodupPk eraseShare at *
  exact List.Pairwise.sublist ((List.filter_sublist).map _) hn

/-- the element of `u` that replaces `x` (same validator key), if any -/
def repl (u : List Share) (x : Share) : Share :=
  match u.find? (fun y => y.pk == x.pk) with
  | some y => y
  | none => x

theorem repl_pk (u : List Share) (x : Share) : (repl u x).pk = x.pk := by
  unfold repl
  cases h : u.find? (fun y => y.pk == x.pk) with
  | none => rfl
  | some y => simpa using List.find?_some h

theorem upsertShares_eq_map (u l : List Share) (hl : NodupPk l) (hu : NodupPk u)
    (hsub : ∀ y ∈ u, y.pk ∈ l.map (·.pk)) : upsertShares u l = l.map (repl u) := by
  induction u generalizing l with
  | nil =>
    have : repl [] = id := by funext x; rfl
    simp [upsertShares, this]
  | cons y ys ih =>
    have hu' : y.pk ∉ ys.map (·.pk) ∧ NodupPk ys := by simpa [NodupPk, List.nodup_cons] using hu
    have hy : y.pk ∈ l.map (·.pk) := hsub y (by simp)
    have hl1 : NodupPk (upsertShare y l) := nodupPk_upsert y l hl
    have hsub1 : ∀ z ∈ ys, z.pk ∈ (upsertShare y l).map (·.pk) := by
      intro z hz; rw [upsertShare_pks_of_mem y l hl hy]; exact hsub z (by simp [hz])
    have := ih (upsertShare y l) hl1 hu'.2 hsub1
    show upsertShares ys (upsertShare y l) = _
    rw [this, upsertShare_eq_map y l hl hy, List.map_map]
    apply List.map_congr_left
    intro x _
    simp only [Function.comp]
    by_cases hxe : x.pk = y.pk
    · have hnone : ys.find? (fun z => z.pk == y.pk) = none := by
        rw [List.find?_eq_none]
        intro z hz
        have : z.pk ≠ y.pk := fun e => hu'.1 (e ▸ List.mem_map_of_mem hz)
        simpa using this
      simp only [hxe, ↓reduceIte, repl, hnone, List.find?_cons, beq_self_eq_true]
    · have hyx : (y.pk == x.pk) = false := by simpa using fun e => hxe e.symm
      simp only [hxe, ↓reduceIte, repl, List.find?_cons, hyx]

theorem nodupPk_map_repl (u l : List Share) (hl : NodupPk l) : NodupPk (l.map (repl u)) := by
  unfold NodupPk at *
  rw [List.map_map]
  have : (fun x => x.pk) ∘ repl u = fun x => x.pk := by funext x; simp [repl_pk]
  rw [this]; exact hl

/-- the in-memory mutation of processClusterEvent followed by Save is the same update as the one written
    through the transaction -/
theorem cluster_sync (l own : List Share) (b : Bool) (hl : NodupPk l) (hown : ∃ p, own = l.filter p) :
    upsertShares (own.map (fun s => { s with liquidated := b })) (setLiquidated (own.map (·.pk)) b l) =
      upsertShares (own.map (fun s => { s with liquidated := b })) l ∧
    NodupPk (upsertShares (own.map (fun s => { s with liquidated := b })) l) := by
  obtain ⟨p, rfl⟩ := hown
  have hupk : ((l.filter p).map (fun s : Share => { s with liquidated := b })).map (·.pk) = (l.filter p).map (·.pk) := by
    rw [List.map_map]; rfl
  have hu : NodupPk ((l.filter p).map (fun s : Share => { s with liquidated := b })) := by
    unfold NodupPk; rw [hupk]
    exact List.Pairwise.sublist ((List.filter_sublist).map _) hl
  have hsub : ∀ y ∈ (l.filter p).map (fun s : Share => { s with liquidated := b }), y.pk ∈ l.map (·.pk) := by
    intro y hy
    have : y.pk ∈ ((l.filter p).map (fun s : Share => { s with liquidated := b })).map (·.pk) := List.mem_map_of_mem hy
    rw [hupk] at this
    exact (List.filter_sublist.map _).subset this
  have hl2pk : (setLiquidated ((l.filter p).map (·.pk)) b l).map (·.pk) = l.map (·.pk) := by
    unfold setLiquidated; rw [List.map_map]; apply List.map_congr_left; intro x _
    simp only [Function.comp]; split <;> rfl
  have hl2 : NodupPk (setLiquidated ((l.filter p).map (·.pk)) b l) := by unfold NodupPk; rw [hl2pk]; exact hl
  have hsub2 : ∀ y ∈ (l.filter p).map (fun s : Share => { s with liquidated := b }),
      y.pk ∈ (setLiquidated ((l.filter p).map (·.pk)) b l).map (·.pk) := by rw [hl2pk]; exact hsub
  refine ⟨?_, ?_⟩
  · rw [upsertShares_eq_map _ _ hl2 hu hsub2, upsertShares_eq_map _ _ hl hu hsub]
    unfold setLiquidated
    rw [List.map_map]
    apply List.map_congr_left
    intro x _
    simp only [Function.comp]
    by_cases hc : ((l.filter p).map (·.pk)).contains x.pk = true
    · simp only [hc, ↓reduceIte]
      -- some element of the update has this key, so the replacement does not look at the flag
      unfold repl
      have : ∃ y ∈ (l.filter p).map (fun s : Share => { s with liquidated := b }), (y.pk == x.pk) = true := by
        have : x.pk ∈ ((l.filter p).map (fun s : Share => { s with liquidated := b })).map (·.pk) := by
          rw [hupk]; simpa using hc
        obtain ⟨y, hy, hye⟩ := List.mem_map.1 this
        exact ⟨y, hy, by simp [hye]⟩
      obtain ⟨y, hy, hye⟩ := this
      cases hf : ((l.filter p).map (fun s : Share => { s with liquidated := b })).find? (fun y => y.pk == x.pk) with
      | none => exact absurd hye (by simpa using (List.find?_eq_none.1 hf) y hy)
      | some z => rfl
    · rw [if_neg hc]
  · rw [upsertShares_eq_map _ _ hl hu hsub]; exact nodupPk_map_repl _ _ hl


theorem clusterEffect_sync (r : RegMem) (owner : Nat) (ops : List Nat) (b : Bool)
    (h1 : r.shares = r.txn.shares) (h2 : NodupPk r.shares) :
    (clusterEffect r owner ops b).shares = (clusterEffect r owner ops b).txn.shares ∧
    NodupPk (clusterEffect r owner ops b).shares := by
  unfold clusterEffect
  split
  · exact ⟨h1, h2⟩
  · have hown : ∃ p, clusterShares (viewOf r) owner ops = r.shares.filter p := ⟨_, rfl⟩
    have := cluster_sync r.shares (clusterShares (viewOf r) owner ops) b h2 hown
    simp only []
    rw [this.1, ← h1]
    exact ⟨rfl, this.2⟩

theorem regEvent_sync (me blk : Nat) (r : RegMem) (e : Event)
    (h1 : r.shares = r.txn.shares) (h2 : NodupPk r.shares) :
    (regEvent me blk r e).shares = (regEvent me blk r e).txn.shares ∧ NodupPk (regEvent me blk r e).shares := by
  cases e with
  | operatorAdded id owner pk =>
    rw [regEvent_operatorAdded]; split
    · exact ⟨h1, h2⟩
    · split
      · exact ⟨h1, h2⟩
      · split <;> exact ⟨h1, h2⟩
  | operatorRemoved id => rw [regEvent_operatorRemoved]; exact ⟨h1, h2⟩
  | validatorAdded owner pk sn len ms =>
    rw [regEvent_validatorAdded]; split
    · exact ⟨by simp only [h1], nodupPk_upsert _ _ h2⟩
    · exact ⟨h1, h2⟩
  | validatorRemoved owner pk ops =>
    rw [regEvent_validatorRemoved]; split
    · exact ⟨h1, h2⟩
    · split
      · exact ⟨h1, h2⟩
      · exact ⟨by simp only [h1], nodupPk_erase _ _ h2⟩
  | validatorExited owner pk ops => rw [regEvent_validatorExited]; exact ⟨h1, h2⟩
  | clusterLiquidated owner ops => rw [regEvent_clusterLiquidated]; exact clusterEffect_sync r owner ops true h1 h2
  | clusterReactivated owner ops => rw [regEvent_clusterReactivated]; exact clusterEffect_sync r owner ops false h1 h2
  | feeRecipientUpdated owner fee =>
    rw [regEvent_feeRecipientUpdated]; split
    · split <;> exact ⟨h1, h2⟩
    · exact ⟨h1, h2⟩
  | unparsable => exact ⟨h1, h2⟩
  | unknownTopic => exact ⟨h1, h2⟩
  | noTopics => exact ⟨h1, h2⟩

/-- registry state between blocks: nothing pending, memory equals the database -/
def RegBoundary (r : RegMem) : Prop := r.txn = r.db ∧ r.shares = r.db.shares ∧ NodupPk r.shares

theorem regRun_boundary (me : Nat) (r : RegMem) (bs : List Block) (h : RegBoundary r) (hok : (regRun me r bs).2 = true) :
    RegBoundary (regRun me r bs).1 := by
  have := regRun_induction me (fun _ r => RegBoundary r) (fun _ r => r.shares = r.txn.shares ∧ NodupPk r.shares)
    (by intro _ r h; exact ⟨h.2.1, h.2.2⟩)
    (by intro _ r blk e h _; exact regEvent_sync me blk r e h.1 h.2)
    (by intro _ r m h; exact ⟨rfl, by simpa [commitReg] using h.1, h.2⟩)
    bs [] r h hok
  exact this


/-! ## nonces -/

/-- number of (parsed) ValidatorAdded events of the owner -/
def countAdds (owner : Nat) : List Event → Nat
  | [] => 0
  | .validatorAdded o _ _ _ _ :: es => (if o = owner then 1 else 0) + countAdds owner es
  | _ :: es => countAdds owner es

theorem countAdds_append (owner : Nat) (a b : List Event) : countAdds owner (a ++ b) = countAdds owner a + countAdds owner b := by
  induction a with
  | nil => simp [countAdds]
  | cons e es ih => cases e <;> simp [countAdds, ih, Nat.add_assoc]

theorem findRecip_upsert (x : Recipient) (rs : List Recipient) (o : Nat) :
    findRecip (upsertRecip x rs) o = if o = x.owner then some x else findRecip rs o := by
  induction rs with
  | nil =>
    by_cases h : o = x.owner
    · simp [upsertRecip, findRecip, h]
    · have : (x.owner == o) = false := by simpa using fun e => h e.symm
      simp [upsertRecip, findRecip, h, this]
  | cons y ys ih =>
    unfold findRecip at ih ⊢
    by_cases hy : y.owner = x.owner
    · simp only [upsertRecip, hy, beq_self_eq_true, ↓reduceIte, List.find?_cons]
      by_cases h : o = x.owner
      · simp [h]
      · have : (x.owner == o) = false := by simpa using fun e => h e.symm
        simp [h, this]
    · have hy' : (y.owner == x.owner) = false := by simpa using hy
      simp only [upsertRecip, hy', Bool.false_eq_true, ↓reduceIte, List.find?_cons]
      by_cases hyo : y.owner = o
      · have : o ≠ x.owner := fun e => hy (hyo.trans e)
        simp [hyo, this]
      · have : (y.owner == o) = false := by simpa using hyo
        simp only [this, ih]

theorem findRecip_owner {rs : List Recipient} {o : Nat} {r : Recipient} (h : findRecip rs o = some r) : r.owner = o := by
  simpa using List.find?_some h

theorem bumped_owner (rs : List Recipient) (o : Nat) : (bumped rs o).owner = o := by
  unfold bumped
  cases h : findRecip rs o with
  | none => rfl
  | some r =>
    have := findRecip_owner h
    cases hn : r.nonce <;> simp only [hn, this]

theorem nextNonce_lt (rs : List Recipient) (o : Nat) : nextNonce rs o < nonceMod := by
  have hpos : 0 < nonceMod := by decide
  unfold nextNonce
  cases findRecip rs o with
  | none => exact hpos
  | some r =>
    cases hn : r.nonce with
    | none => simp only [hn]; exact hpos
    | some k => simp only [hn]; exact Nat.mod_lt _ hpos

theorem nextNonce_bump (rs : List Recipient) (o o' : Nat) :
    nextNonce (upsertRecip (bumped rs o) rs) o' =
      if o' = o then (nextNonce rs o + 1) % nonceMod else nextNonce rs o' := by
  unfold nextNonce
  rw [findRecip_upsert, bumped_owner]
  by_cases h : o' = o
  · subst h
    simp only [↓reduceIte]
    unfold bumped
    cases hf : findRecip rs o' with
    | none => simp [nonceMod]
    | some r =>
      cases hn : r.nonce with
      | none => simp [hn, nonceMod]
      | some k => simp [hn]
  · simp [h]

/-- the nonce an owner is expected to sign next moves exactly with the owner's ValidatorAdded events -/
theorem regEvent_nextNonce (me blk : Nat) (r : RegMem) (e : Event) (o : Nat) :
    nextNonce (regEvent me blk r e).txn.recips o = (nextNonce r.txn.recips o + countAdds o [e]) % nonceMod := by
  have hid : nextNonce r.txn.recips o = (nextNonce r.txn.recips o + 0) % nonceMod := by
    simp [Nat.mod_eq_of_lt (nextNonce_lt _ _)]
  cases e with
  | validatorAdded owner pk sn len ms =>
    rw [regEvent_validatorAdded]
    have hb : nextNonce (bumpReg r owner).txn.recips o = (nextNonce r.txn.recips o + countAdds o [.validatorAdded owner pk sn len ms]) % nonceMod := by
      simp only [bumpReg, nextNonce_bump, countAdds]
      by_cases h : o = owner
      · subst h; simp
      · have h' : ¬ owner = o := fun e => h e.symm
        simp [h, h', Nat.mod_eq_of_lt (nextNonce_lt _ _)]
    split
    · exact hb
    · exact hb
  | operatorAdded id owner pk =>
    rw [regEvent_operatorAdded]; simp only [countAdds]
    split
    · exact hid
    · split
      · exact hid
      · split <;> exact hid
  | operatorRemoved id => rw [regEvent_operatorRemoved]; exact hid
  | validatorRemoved owner pk ops =>
    rw [regEvent_validatorRemoved]; simp only [countAdds]
    split
    · exact hid
    · split <;> exact hid
  | validatorExited owner pk ops => rw [regEvent_validatorExited]; exact hid
  | clusterLiquidated owner ops =>
    rw [regEvent_clusterLiquidated]; simp only [countAdds, clusterEffect]; split <;> exact hid
  | clusterReactivated owner ops =>
    rw [regEvent_clusterReactivated]; simp only [countAdds, clusterEffect]; split <;> exact hid
  | feeRecipientUpdated owner fee =>
    rw [regEvent_feeRecipientUpdated]; simp only [countAdds]
    cases hf : findRecip r.txn.recips owner with
    | none =>
      simp only []
      unfold nextNonce
      rw [findRecip_upsert]
      by_cases h : o = owner
      · subst h; simp [hf]
      · simp only [h, ↓reduceIte, Nat.add_zero]
        have := nextNonce_lt r.txn.recips o
        unfold nextNonce at this
        exact (Nat.mod_eq_of_lt this).symm
    | some x =>
      simp only []
      split
      · exact hid
      · have hxo := findRecip_owner hf
        unfold nextNonce
        rw [findRecip_upsert]
        by_cases h : o = owner
        · subst h
          simp only [hxo, ↓reduceIte, hf, Nat.add_zero]
          cases x.nonce with
          | none => rfl
          | some k => simp [Nat.mod_mod]
        · have : ¬ o = x.owner := by rw [hxo]; exact h
          simp only [this, ↓reduceIte, Nat.add_zero]
          exact (by simpa [nextNonce] using hid)
  | unparsable => exact hid
  | unknownTopic => exact hid
  | noTopics => exact hid

theorem regRun_nextNonce (me : Nat) (r : RegMem) (bs : List Block) (o : Nat) (hok : (regRun me r bs).2 = true) :
    nextNonce (regRun me r bs).1.db.recips o = (nextNonce r.db.recips o + countAdds o (flatten bs)) % nonceMod := by
  have := regRun_induction me
    (fun evs x => nextNonce x.db.recips o = (nextNonce r.db.recips o + countAdds o evs) % nonceMod)
    (fun evs x => nextNonce x.txn.recips o = (nextNonce r.db.recips o + countAdds o evs) % nonceMod)
    (by intro _ x h; exact h)
    (by
      intro evs x blk e h _
      rw [regEvent_nextNonce, h, countAdds_append, Nat.mod_add_mod, Nat.add_assoc])
    (by intro _ x m h; simpa [commitReg] using h)
    bs [] r (by simp [countAdds, Nat.mod_eq_of_lt (nextNonce_lt _ _)]) hok
  simpa using this


/-! ## looking shares up after an update -/

theorem findShare_pk {l : List Share} {pk : Nat} {s : Share} (h : findShare l pk = some s) : s.pk = pk := by
  simpa using List.find?_some h

theorem findShare_mem {l : List Share} {pk : Nat} {s : Share} (h : findShare l pk = some s) : s ∈ l :=
  List.mem_of_find?_eq_some h

theorem findShare_upsert (s : Share) (l : List Share) (pk : Nat) :
    findShare (upsertShare s l) pk = if pk = s.pk then some s else findShare l pk := by
  induction l with
  | nil =>
    by_cases h : pk = s.pk
    · simp [upsertShare, findShare, h]
    · have : (s.pk == pk) = false := by simpa using fun e => h e.symm
      simp [upsertShare, findShare, h, this]
  | cons y ys ih =>
    unfold findShare at ih ⊢
    by_cases hy : y.pk = s.pk
    · simp only [upsertShare, hy, beq_self_eq_true, ↓reduceIte, List.find?_cons]
      by_cases h : pk = s.pk
      · simp [h]
      · have : (s.pk == pk) = false := by simpa using fun e => h e.symm
        simp [h, this]
    · have hy' : (y.pk == s.pk) = false := by simpa using hy
      simp only [upsertShare, hy', Bool.false_eq_true, ↓reduceIte, List.find?_cons]
      by_cases hyo : y.pk = pk
      · have : pk ≠ s.pk := fun e => hy (hyo.trans e)
        simp [hyo, this]
      · have : (y.pk == pk) = false := by simpa using hyo
        simp only [this, ih]

theorem findShare_erase (k : Nat) (l : List Share) (pk : Nat) :
    findShare (eraseShare k l) pk = if pk = k then none else findShare l pk := by
  induction l with
  | nil => simp [eraseShare, findShare]
  | cons y ys ih =>
    unfold findShare eraseShare at ih ⊢
    by_cases hy : y.pk = k
    · have : (y.pk != k) = false := by simp [hy]
      simp only [List.filter_cons, this, Bool.false_eq_true, ↓reduceIte, ih, List.find?_cons]
      by_cases h : pk = k
      · simp [h]
      · have : (y.pk == pk) = false := by simpa [hy] using fun e => h e.symm
        simp [h, this]
    · have : (y.pk != k) = true := by simpa using hy
      simp only [List.filter_cons, this, ↓reduceIte, List.find?_cons, ih]
      by_cases hyp : y.pk = pk
      · have : pk ≠ k := fun e => hy (hyp.trans e)
        simp [hyp, this]
      · have : (y.pk == pk) = false := by simpa using hyp
        simp only [this]

theorem findShare_map (f : Share → Share) (hf : ∀ x, (f x).pk = x.pk) (l : List Share) (pk : Nat) :
    findShare (l.map f) pk = (findShare l pk).map f := by
  induction l with
  | nil => rfl
  | cons y ys ih =>
    unfold findShare at ih ⊢
    simp only [List.map_cons, List.find?_cons, hf]
    cases (y.pk == pk) <;> simp [ih]

/-- fields of a share that the add-soundness statement talks about (everything except the liquidation flag and
    the beacon metadata) -/
def Share.core (s : Share) : Nat × Nat × List (Nat × Nat) × Nat × Option Nat :=
  (s.pk, s.owner, s.committee, s.operatorId, s.sharePk)

theorem repl_core (l : List Share) (p : Share → Bool) (b : Bool) (hl : NodupPk l) (x : Share) (hx : x ∈ l) :
    (repl ((l.filter p).map (fun s => { s with liquidated := b })) x).core = x.core := by
  unfold repl
  cases hf : ((l.filter p).map (fun s : Share => { s with liquidated := b })).find? (fun y => y.pk == x.pk) with
  | none => rfl
  | some y =>
    have hy := List.mem_of_find?_eq_some hf
    have hypk : y.pk = x.pk := by simpa using List.find?_some hf
    obtain ⟨x0, hx0, rfl⟩ := List.mem_map.1 hy
    have hx0l : x0 ∈ l := (List.mem_filter.1 hx0).1
    -- same key in a list without duplicate keys: same element
    have : x0 = x := by
      have hpk : x0.pk = x.pk := hypk
      clear hf hy hx0 hypk
      induction l with
      | nil => cases hx
      | cons z zs ih =>
        have hn' : z.pk ∉ zs.map (·.pk) ∧ NodupPk zs := by simpa [NodupPk, List.nodup_cons] using hl
        rcases List.mem_cons.1 hx with rfl | hxz
        · rcases List.mem_cons.1 hx0l with h | h
          · exact h
          · exact absurd (hpk ▸ List.mem_map_of_mem (f := (·.pk)) h) hn'.1
        · rcases List.mem_cons.1 hx0l with rfl | h
          · exact absurd (hpk ▸ List.mem_map_of_mem (f := (·.pk)) hxz) hn'.1
          · exact ih hn'.2 hxz h
    subst this
    rfl

/-- after a cluster event every stored share is still there, with the same core fields -/
theorem clusterEffect_find (r : RegMem) (owner : Nat) (ops : List Nat) (b : Bool)
    (h1 : r.shares = r.txn.shares) (h2 : NodupPk r.shares) (pk : Nat) :
    (∀ s', findShare (clusterEffect r owner ops b).shares pk = some s' →
        ∃ s, findShare r.shares pk = some s ∧ s'.core = s.core) ∧
    (∀ s, findShare r.shares pk = some s → ∃ s', findShare (clusterEffect r owner ops b).shares pk = some s') := by
  unfold clusterEffect
  split
  · exact ⟨fun s' h => ⟨s', h, rfl⟩, fun s h => ⟨s, h⟩⟩
  · have hown : ∃ p, clusterShares (viewOf r) owner ops = r.shares.filter p := ⟨_, rfl⟩
    obtain ⟨p, hp⟩ := hown
    have hs := cluster_sync r.shares (clusterShares (viewOf r) owner ops) b h2 ⟨p, hp⟩
    simp only []
    rw [hs.1]
    have hupk : ((r.shares.filter p).map (fun s : Share => { s with liquidated := b })).map (·.pk) = (r.shares.filter p).map (·.pk) := by
      rw [List.map_map]; rfl
    have hu : NodupPk ((r.shares.filter p).map (fun s : Share => { s with liquidated := b })) := by
      unfold NodupPk; rw [hupk]
      exact List.Pairwise.sublist ((List.filter_sublist).map _) h2
    have hsub : ∀ y ∈ (r.shares.filter p).map (fun s : Share => { s with liquidated := b }), y.pk ∈ r.shares.map (·.pk) := by
      intro y hy
      have : y.pk ∈ ((r.shares.filter p).map (fun s : Share => { s with liquidated := b })).map (·.pk) := List.mem_map_of_mem hy
      rw [hupk] at this
      exact (List.filter_sublist.map _).subset this
    rw [hp, upsertShares_eq_map _ _ h2 hu hsub, findShare_map _ (repl_pk _)]
    constructor
    · intro s' h
      cases hf : findShare r.shares pk with
      | none => simp [hf] at h
      | some s =>
        simp only [hf, Option.map_some, Option.some.injEq] at h
        exact ⟨s, rfl, h ▸ repl_core r.shares p b h2 s (findShare_mem hf)⟩
    · intro s h; simp [h]


/-! ## add-soundness: where a stored share comes from -/

theorem nodupB_iff (l : List Nat) : nodupB l = true ↔ l.Nodup := by
  induction l with
  | nil => simp [nodupB]
  | cons x xs ih => simp [nodupB, List.nodup_cons, ih]

theorem hasOp_iff (l : List OperatorRec) (id : Nat) : hasOp l id = true ↔ ∃ o ∈ l, o.id = id := by
  simp [hasOp]

theorem mem_upsertOp (o : OperatorRec) (l : List OperatorRec) (x : OperatorRec) :
    x ∈ upsertOp o l → x = o ∨ x ∈ l := by
  induction l with
  | nil => intro h; simp [upsertOp] at h; exact Or.inl h
  | cons y ys ih =>
    intro h
    by_cases hy : y.id = o.id
    · simp only [upsertOp, hy, beq_self_eq_true, ↓reduceIte, List.mem_cons] at h
      rcases h with h | h
      · exact Or.inl h
      · exact Or.inr (List.mem_cons_of_mem _ h)
    · have hy' : (y.id == o.id) = false := by simpa using hy
      simp only [upsertOp, hy', Bool.false_eq_true, ↓reduceIte, List.mem_cons] at h
      rcases h with h | h
      · exact Or.inr (h ▸ List.mem_cons_self)
      · rcases ih h with h | h
        · exact Or.inl h
        · exact Or.inr (List.mem_cons_of_mem _ h)

theorem hasOp_upsert (o : OperatorRec) (l : List OperatorRec) (id : Nat) (h : hasOp (upsertOp o l) id = true) :
    id = o.id ∨ hasOp l id = true := by
  obtain ⟨x, hx, hid⟩ := (hasOp_iff _ _).1 h
  rcases mem_upsertOp o l x hx with rfl | hx
  · exact Or.inl hid.symm
  · exact Or.inr ((hasOp_iff _ _).2 ⟨x, hx, hid⟩)

/-- what the member loop guarantees about the node's own member -/
theorem scanCommittee_some (self : Nat) (ms : List Member) (k : Nat) (h : scanCommittee self ms = .ok (some k)) :
    ∃ m ∈ ms, m.op = self ∧ m.decryptOk = true ∧ m.keyMatches = true ∧ m.key = k := by
  induction ms generalizing k with
  | nil => simp [scanCommittee] at h
  | cons m rest ih =>
    simp only [scanCommittee] at h
    by_cases hop : m.op = self
    · have : (m.op != self) = false := by simp [hop]
      simp only [this, Bool.false_eq_true, ↓reduceIte] at h
      cases hd : m.decryptOk <;> simp only [hd, Bool.not_false, Bool.not_true, Bool.false_eq_true, ↓reduceIte] at h
      · cases h
      · cases hk : m.keyMatches <;> simp only [hk, Bool.not_false, Bool.not_true, Bool.false_eq_true, ↓reduceIte] at h
        · cases h
        · cases hr : scanCommittee self rest with
          | error t => simp [hr] at h
          | ok own =>
            cases own with
            | some k' =>
              simp only [hr, Except.ok.injEq, Option.some.injEq] at h
              obtain ⟨m', hm', hrest⟩ := ih k' hr
              exact ⟨m', List.mem_cons_of_mem _ hm', by rw [← h]; exact hrest⟩
            | none =>
              simp only [hr, Except.ok.injEq, Option.some.injEq] at h
              exact ⟨m, List.mem_cons_self, hop, hd, hk, h⟩
    · have : (m.op != self) = true := by simpa using hop
      simp only [this, ↓reduceIte] at h
      obtain ⟨m', hm', hrest⟩ := ih k h
      exact ⟨m', List.mem_cons_of_mem _ hm', hrest⟩

/-- The registration rules, for one ValidatorAdded event `(owner, pk, sn, len, ms)` that follows the events `pre`
    (`n0` = nonce each owner was expected to sign at the start, `ops0` = operators stored at the start). -/
structure AddOk (n0 : Nat → Nat) (ops0 : List OperatorRec) (pre : List Event)
    (owner : Nat) (sn : Option Nat) (len : Nat) (ms : List Member) : Prop where
  /-- valid owner signature over the nonce expected THEN: every earlier ValidatorAdded of the owner counted once -/
  nonce : sn = some ((n0 owner + countAdds owner pre) % nonceMod)
  /-- committee of valid size -/
  size : validCommitteeSize ms.length = true ∧ ms.length ≤ Gen.eventhandler_maxOperators
  /-- distinct operators -/
  distinct : (ms.map (·.op)).Nodup
  /-- that exist (were added before) -/
  exist : ∀ m ∈ ms, hasOp ops0 m.op = true ∨ ∃ o p, Event.operatorAdded m.op o p ∈ pre
  /-- correctly sized share data -/
  length : len = expectedSharesLen ms.length

/-- A stored share (its key, owner, committee, own operator id and own share key) is explained by the events
    `evs`: some ValidatorAdded event of the same owner and key passed every check, the share is what that event
    says, the node's own share (if any) was decryptable and matched its public key, and no ValidatorRemoved of that
    owner and key came later. -/
def AddWitness (n0 : Nat → Nat) (ops0 : List OperatorRec) (evs : List Event)
    (pk owner : Nat) (committee : List (Nat × Nat)) (operatorId : Nat) (sharePk : Option Nat) : Prop :=
  ∃ pre post sn len ms,
    evs = pre ++ Event.validatorAdded owner pk sn len ms :: post ∧
    AddOk n0 ops0 pre owner sn len ms ∧
    committee = ms.map (fun m => (m.op, m.key)) ∧
    (operatorId ≠ 0 → ∃ m ∈ ms, m.op = operatorId ∧ m.decryptOk = true ∧ m.keyMatches = true ∧ sharePk = some m.key) ∧
    (∀ e ∈ post, ∀ ops, e ≠ Event.validatorRemoved owner pk ops)

theorem AddWitness.extend {n0 ops0 evs pk owner committee operatorId sharePk} (e : Event)
    (h : AddWitness n0 ops0 evs pk owner committee operatorId sharePk)
    (hne : ∀ ops, e ≠ Event.validatorRemoved owner pk ops) :
    AddWitness n0 ops0 (evs ++ [e]) pk owner committee operatorId sharePk := by
  obtain ⟨pre, post, sn, len, ms, he, hok, hc, hown, hpost⟩ := h
  refine ⟨pre, post ++ [e], sn, len, ms, by simp [he], hok, hc, hown, ?_⟩
  intro e' he' ops
  rcases List.mem_append.1 he' with h | h
  · exact hpost e' h ops
  · simp at h; subst h; exact hne ops

/-- where stored operators come from -/
def OpsProv (ops0 : List OperatorRec) (evs : List Event) (ops : List OperatorRec) : Prop :=
  ∀ id, hasOp ops id = true → hasOp ops0 id = true ∨ ∃ o p, Event.operatorAdded id o p ∈ evs

theorem OpsProv.mono {ops0 evs ops} (h : OpsProv ops0 evs ops) (e : Event) : OpsProv ops0 (evs ++ [e]) ops := by
  intro id hid
  rcases h id hid with h | ⟨o, p, h⟩
  · exact Or.inl h
  · exact Or.inr ⟨o, p, List.mem_append_left _ h⟩

theorem regEvent_opsProv (me blk : Nat) (r : RegMem) (e : Event) (ops0 : List OperatorRec) (evs : List Event)
    (h : OpsProv ops0 evs r.txn.ops) : OpsProv ops0 (evs ++ [e]) (regEvent me blk r e).txn.ops := by
  cases e with
  | operatorAdded id owner pk =>
    rw [regEvent_operatorAdded]
    have hnew : OpsProv ops0 (evs ++ [.operatorAdded id owner pk]) (upsertOp ⟨id, pk, owner⟩ r.txn.ops) := by
      intro i hi
      rcases hasOp_upsert _ _ _ hi with hii | hi
      · subst hii; exact Or.inr ⟨owner, pk, by simp⟩
      · exact (h.mono _) i hi
    split
    · exact h.mono _
    · split
      · exact h.mono _
      · split <;> exact hnew
  | operatorRemoved id => rw [regEvent_operatorRemoved]; exact h.mono _
  | validatorAdded owner pk sn len ms =>
    rw [regEvent_validatorAdded]; split <;> exact h.mono _
  | validatorRemoved owner pk ops =>
    rw [regEvent_validatorRemoved]; split
    · exact h.mono _
    · split <;> exact h.mono _
  | validatorExited owner pk ops => rw [regEvent_validatorExited]; exact h.mono _
  | clusterLiquidated owner ops => rw [regEvent_clusterLiquidated]; unfold clusterEffect; split <;> exact h.mono _
  | clusterReactivated owner ops => rw [regEvent_clusterReactivated]; unfold clusterEffect; split <;> exact h.mono _
  | feeRecipientUpdated owner fee =>
    rw [regEvent_feeRecipientUpdated]; split
    · split <;> exact h.mono _
    · exact h.mono _
  | unparsable => exact h.mono _
  | unknownTopic => exact h.mono _
  | noTopics => exact h.mono _


theorem validateOperators_none (ops : List OperatorRec) (ids : List Nat) (h : validateOperators ops ids = none) :
    ids.length ≤ Gen.eventhandler_maxOperators ∧ validCommitteeSize ids.length = true ∧ nodupB ids = true ∧
    ids.all (hasOp ops) = true := by
  unfold validateOperators at h
  split at h
  · cases h
  · split at h
    · cases h
    · split at h
      · cases h
      · split at h
        · cases h
        · split at h
          · cases h
          · rename_i h1 _ h3 h4 h5
            refine ⟨by omega, by simpa using h3, by simpa using h4, by simpa using h5⟩

def SharesProv (n0 : Nat → Nat) (ops0 : List OperatorRec) (evs : List Event) (shares : List Share) : Prop :=
  ∀ pk sh, findShare shares pk = some sh → AddWitness n0 ops0 evs sh.pk sh.owner sh.committee sh.operatorId sh.sharePk

theorem vaCreates_witness (r : RegMem) (owner pk : Nat) (sn : Option Nat) (len : Nat) (ms : List Member) (sh : Share)
    (n0 : Nat → Nat) (ops0 : List OperatorRec) (evs : List Event)
    (hc : vaCreates r owner pk sn len ms = some sh)
    (hnonce : ∀ o, nextNonce r.txn.recips o = (n0 o + countAdds o evs) % nonceMod)
    (hops : OpsProv ops0 evs r.txn.ops) :
    sh.pk = pk ∧
    AddWitness n0 ops0 (evs ++ [.validatorAdded owner pk sn len ms]) sh.pk sh.owner sh.committee sh.operatorId sh.sharePk := by
  unfold vaCreates at hc
  split at hc
  · rename_i hcond
    obtain ⟨hv, hl, hs, _⟩ := hcond
    cases hsc : scanCommittee r.self ms with
    | error t => simp [hsc] at hc
    | ok own =>
      simp only [hsc, Option.some.injEq] at hc
      subst hc
      have hvo := validateOperators_none _ _ hv
      simp only [List.length_map] at hvo
      refine ⟨rfl, evs, [], sn, len, ms, by simp [newShare], ?_, rfl, ?_, by simp⟩
      · refine ⟨by rw [hs, hnonce]; rfl, ⟨hvo.2.1, hvo.1⟩, (nodupB_iff _).1 hvo.2.2.1, ?_, hl⟩
        intro m hm
        have : hasOp r.txn.ops m.op = true := by
          have := List.all_eq_true.1 hvo.2.2.2 m.op (List.mem_map_of_mem hm)
          exact this
        exact hops m.op this
      · intro hne
        cases own with
        | none => simp [newShare] at hne
        | some k =>
          obtain ⟨m, hm, hop, hd, hk, hkey⟩ := scanCommittee_some _ _ _ hsc
          exact ⟨m, hm, by simp [newShare, hop], hd, hk, by simp [newShare, hkey]⟩
  · cases hc

theorem regEvent_sharesProv (me blk : Nat) (r : RegMem) (e : Event) (n0 : Nat → Nat) (ops0 : List OperatorRec)
    (evs : List Event)
    (h1 : r.shares = r.txn.shares) (h2 : NodupPk r.shares)
    (hnonce : ∀ o, nextNonce r.txn.recips o = (n0 o + countAdds o evs) % nonceMod)
    (hops : OpsProv ops0 evs r.txn.ops)
    (hsh : SharesProv n0 ops0 evs r.shares) :
    SharesProv n0 ops0 (evs ++ [e]) (regEvent me blk r e).shares := by
  -- unchanged shares + an event that is not a removal of a stored share by its owner
  have keep : (∀ pk sh, findShare r.shares pk = some sh → ∀ ops, e ≠ Event.validatorRemoved sh.owner sh.pk ops) →
      SharesProv n0 ops0 (evs ++ [e]) r.shares := by
    intro hne pk sh hf
    exact (hsh pk sh hf).extend e (hne pk sh hf)
  cases e with
  | validatorAdded owner pk sn len ms =>
    rw [regEvent_validatorAdded]
    cases hc : vaCreates r owner pk sn len ms with
    | none => exact keep (by intro _ _ _ _ h; cases h)
    | some shn =>
      simp only []
      obtain ⟨hpk, hw⟩ := vaCreates_witness r owner pk sn len ms shn n0 ops0 evs hc hnonce hops
      intro pk' sh hf
      rw [findShare_upsert] at hf
      by_cases hp : pk' = shn.pk
      · simp only [hp, ↓reduceIte, Option.some.injEq] at hf
        subst hf; exact hw
      · simp only [hp, ↓reduceIte] at hf
        exact (hsh pk' sh hf).extend _ (by intro _ h; cases h)
  | validatorRemoved owner pk ops =>
    rw [regEvent_validatorRemoved]
    cases hf0 : findShare r.shares pk with
    | none =>
      simp only []
      apply keep
      intro pk' sh hf ops' he
      cases he
      have := findShare_pk hf
      subst this
      rw [hf0] at hf; cases hf
    | some sh0 =>
      simp only []
      by_cases ho : (owner != sh0.owner) = true
      · simp only [ho, ↓reduceIte]
        apply keep
        intro pk' sh hf ops' he
        cases he
        have := findShare_pk hf
        subst this
        rw [hf0] at hf; cases hf
        simp at ho
      · simp only [ho, Bool.false_eq_true, ↓reduceIte]
        intro pk' sh hf
        rw [findShare_erase] at hf
        by_cases hp : pk' = sh0.pk
        · simp [hp] at hf
        · simp only [hp, ↓reduceIte] at hf
          refine (hsh pk' sh hf).extend _ ?_
          intro ops' he
          cases he
          -- the removed key is the key of sh, which was found under pk'
          have h3 : sh0.pk = sh.pk := findShare_pk hf0
          have h4 : sh.pk = pk' := findShare_pk hf
          exact hp (h4.symm.trans h3.symm)
  | clusterLiquidated owner ops =>
    rw [regEvent_clusterLiquidated]
    intro pk' sh' hf
    obtain ⟨sh, hfs, hcore⟩ := (clusterEffect_find r owner ops true h1 h2 pk').1 sh' hf
    simp only [Share.core, Prod.mk.injEq] at hcore
    obtain ⟨e1, e2, e3, e4, e5⟩ := hcore
    rw [e1, e2, e3, e4, e5]
    exact (hsh pk' sh hfs).extend _ (by intro _ h; cases h)
  | clusterReactivated owner ops =>
    rw [regEvent_clusterReactivated]
    intro pk' sh' hf
    obtain ⟨sh, hfs, hcore⟩ := (clusterEffect_find r owner ops false h1 h2 pk').1 sh' hf
    simp only [Share.core, Prod.mk.injEq] at hcore
    obtain ⟨e1, e2, e3, e4, e5⟩ := hcore
    rw [e1, e2, e3, e4, e5]
    exact (hsh pk' sh hfs).extend _ (by intro _ h; cases h)
  | operatorAdded id owner pk =>
    have hk := keep (by intro _ _ _ _ h; cases h)
    rw [regEvent_operatorAdded]; split
    · exact hk
    · split
      · exact hk
      · split <;> exact hk
  | operatorRemoved id => rw [regEvent_operatorRemoved]; exact keep (by intro _ _ _ _ h; cases h)
  | validatorExited owner pk ops => rw [regEvent_validatorExited]; exact keep (by intro _ _ _ _ h; cases h)
  | feeRecipientUpdated owner fee =>
    have hk := keep (by intro _ _ _ _ h; cases h)
    rw [regEvent_feeRecipientUpdated]; split
    · split <;> exact hk
    · exact hk
  | unparsable => exact keep (by intro _ _ _ _ h; cases h)
  | unknownTopic => exact keep (by intro _ _ _ _ h; cases h)
  | noTopics => exact keep (by intro _ _ _ _ h; cases h)


theorem regRun_addSound (me : Nat) (r : RegMem) (bs : List Block) (hb : RegBoundary r) (hempty : r.db.shares = [])
    (hok : (regRun me r bs).2 = true) :
    SharesProv (fun o => nextNonce r.db.recips o) r.db.ops (flatten bs) (regRun me r bs).1.shares := by
  have := regRun_induction me
    (fun evs x => RegBoundary x ∧
      (∀ o, nextNonce x.db.recips o = (nextNonce r.db.recips o + countAdds o evs) % nonceMod) ∧
      OpsProv r.db.ops evs x.db.ops ∧ SharesProv (fun o => nextNonce r.db.recips o) r.db.ops evs x.shares)
    (fun evs x => (x.shares = x.txn.shares ∧ NodupPk x.shares) ∧
      (∀ o, nextNonce x.txn.recips o = (nextNonce r.db.recips o + countAdds o evs) % nonceMod) ∧
      OpsProv r.db.ops evs x.txn.ops ∧ SharesProv (fun o => nextNonce r.db.recips o) r.db.ops evs x.shares)
    (by intro _ x h; exact ⟨⟨h.1.2.1, h.1.2.2⟩, h.2.1, h.2.2.1, h.2.2.2⟩)
    (by
      intro evs x blk e h _
      refine ⟨regEvent_sync me blk x e h.1.1 h.1.2, ?_, regEvent_opsProv me blk x e _ evs h.2.2.1,
        regEvent_sharesProv me blk x e _ _ evs h.1.1 h.1.2 h.2.1 h.2.2.1 h.2.2.2⟩
      intro o
      rw [regEvent_nextNonce, h.2.1 o, countAdds_append, Nat.mod_add_mod, Nat.add_assoc])
    (by
      intro _ x m h
      exact ⟨⟨rfl, by simpa [commitReg] using h.1.1, h.1.2⟩, by simpa [commitReg] using h.2.1,
        by simpa [commitReg] using h.2.2.1, h.2.2.2⟩)
    bs [] r
    ⟨hb, by intro o; simp [countAdds, Nat.mod_eq_of_lt (nextNonce_lt _ _)], fun id h => Or.inl h,
      by intro pk sh hf; rw [hb.2.1, hempty] at hf; simp [findShare] at hf⟩
    hok
  simpa using this.2.2.2


/-! ## the steps a handler emits -/

/-- steps an event handler can emit (never the marker write, the commit, or a bare wallet write) -/
def Step.handler : Step → Bool
  | .putRecipient _ | .putOperator _ | .txnShare _ | .txnDelShare _ => true
  | .setSelf _ | .memLiquidate _ _ | .memShares _ | .memDelShare _ => true
  | .kmAdd _ | .kmRemove _ | .cleanInst _ | .cleanHigh _ => true
  | _ => false

theorem kmAddSteps_handler (self : Nat) (sh : Share) : ∀ s ∈ kmAddSteps self sh, s.handler = true := by
  intro s hs; unfold kmAddSteps at hs
  split at hs
  · split at hs
    · simp at hs; subst hs; rfl
    · simp at hs
  · simp at hs

theorem kmRemoveSteps_handler (self : Nat) (sh : Share) : ∀ s ∈ kmRemoveSteps self sh, s.handler = true := by
  intro s hs; unfold kmRemoveSteps at hs
  split at hs
  · split at hs
    · simp at hs; subst hs; rfl
    · simp at hs
  · simp at hs

theorem createSteps_handler (self : Nat) (sh : Share) : ∀ s ∈ createSteps self sh, s.handler = true := by
  intro s hs
  simp only [createSteps, List.mem_append, List.mem_cons, List.not_mem_nil, or_false] at hs
  rcases hs with hs | rfl | rfl
  · exact kmAddSteps_handler self sh s hs
  · rfl
  · rfl

theorem removeSteps_handler (self : Nat) (sh : Share) : ∀ s ∈ removeSteps self sh, s.handler = true := by
  intro s hs
  simp only [removeSteps, List.mem_append, List.mem_cons, List.not_mem_nil, or_false] at hs
  rcases hs with (rfl | rfl | rfl | rfl) | hs
  · rfl
  · rfl
  · rfl
  · rfl
  · exact kmRemoveSteps_handler self sh s hs

theorem clusterSteps_handler (v : View) (owner : Nat) (ops : List Nat) (b : Bool) :
    ∀ s ∈ (clusterSteps v owner ops b).1, s.handler = true := by
  intro s hs
  simp only [clusterSteps] at hs
  split at hs
  · simp at hs
  · simp only [List.mem_append, List.mem_cons, List.mem_map, List.not_mem_nil, or_false] at hs
    rcases hs with (rfl | ⟨a, _, rfl⟩) | rfl <;> rfl

theorem addSteps_handler (v : View) (owner pk : Nat) (sn : Option Nat) (len : Nat) (ms : List Member) :
    ∀ s ∈ (addSteps v owner pk sn len ms).1, s.handler = true := by
  intro s hs
  have hb : ∀ s ∈ [Step.putRecipient (bumped v.recips owner)], s.handler = true := by
    intro s hs; simp at hs; subst hs; rfl
  unfold addSteps at hs
  simp only [] at hs
  split at hs
  · exact hb s hs
  · split at hs
    · exact hb s hs
    · split at hs
      · exact hb s hs
      · split at hs
        · split at hs
          · exact hb s hs
          · rcases List.mem_append.1 hs with h | h
            · exact hb s h
            · exact createSteps_handler _ _ s h
        · split at hs <;> exact hb s hs

theorem regSteps_handler (me blk : Nat) (v : View) (e : Event) : ∀ s ∈ (regSteps me blk v e).1, s.handler = true := by
  intro s hs
  cases e with
  | validatorAdded owner pk sn len ms => exact addSteps_handler v owner pk sn len ms s hs
  | clusterLiquidated owner ops => exact clusterSteps_handler v owner ops true s hs
  | clusterReactivated owner ops => exact clusterSteps_handler v owner ops false s hs
  | operatorAdded id owner pk =>
    simp only [regSteps] at hs
    split at hs
    · simp at hs
    · split at hs
      · simp at hs
      · split at hs
        · simp at hs; rcases hs with rfl | rfl <;> rfl
        · simp at hs; subst hs; rfl
  | operatorRemoved id => simp only [regSteps] at hs; split at hs <;> simp at hs
  | validatorRemoved owner pk ops =>
    simp only [regSteps] at hs
    split at hs
    · simp at hs
    · split at hs
      · simp at hs
      · exact removeSteps_handler _ _ s hs
  | validatorExited owner pk ops =>
    simp only [regSteps] at hs
    split at hs
    · simp at hs
    · split at hs
      · simp at hs
      · split at hs
        · simp at hs
        · split at hs <;> simp at hs
  | feeRecipientUpdated owner fee =>
    simp only [regSteps] at hs
    split at hs
    · split at hs
      · simp at hs
      · simp at hs; subst hs; rfl
    · simp at hs; subst hs; rfl
  | unparsable => simp [regSteps] at hs
  | unknownTopic => simp [regSteps] at hs
  | noTopics => simp [regSteps] at hs

/-! ## the wallet index in memory and on disk agree between key-manager calls -/

theorem foldl_stepWal_expand_sync (w0 w : Wal) (s : Step) (hs : s.handler = true) (h : w.midx = w.pidx) :
    ((expand w0 s).foldl stepWal w).midx = ((expand w0 s).foldl stepWal w).pidx := by
  cases s <;> simp [Step.handler] at hs <;> simp only [expand]
  all_goals (try (simpa [stepWal] using h))
  · split
    · simpa using h
    · simp only [List.foldl_cons, List.foldl_nil, stepWal]
  · split
    · simp only [List.foldl_cons, List.foldl_nil, stepWal]
    · simpa using h

theorem runMacro_wal_sync (n : Node) (l : List Step) (hl : ∀ s ∈ l, s.handler = true) (h : n.wal.midx = n.wal.pidx) :
    (runMacro n l).wal.midx = (runMacro n l).wal.pidx := by
  induction l generalizing n with
  | nil => exact h
  | cons s l ih =>
    simp only [runMacro]
    refine ih _ (fun s hs => hl s (List.mem_cons_of_mem _ hs)) ?_
    rw [runSteps_wal]
    exact foldl_stepWal_expand_sync n.wal n.wal s (hl s List.mem_cons_self) h

theorem applyEvent_wal_sync (me blk : Nat) (n : Node) (e : Event) (h : n.wal.midx = n.wal.pidx) :
    (applyEvent me blk n e).1.wal.midx = (applyEvent me blk n e).1.wal.pidx := by
  simp only [applyEvent]
  exact runMacro_wal_sync _ _ (regSteps_handler me blk _ e) h

end Ssv.Registry
