/-
Helper lemmas for the registry model (properties C11, C12). Core Lean only (no Mathlib needed).
-/
import Ssv.Model.Registry
import Ssv.Model.RegistryCrash

namespace Ssv.Registry

/-! ## steps act component-wise -/

theorem runSteps_nil (n : Node) : runSteps n [] = n := rfl
theorem runSteps_cons (n : Node) (s : Step) (l : List Step) : runSteps n (s :: l) = runSteps (applyStep n s) l := rfl
theorem runSteps_append (n : Node) (a b : List Step) : runSteps n (a ++ b) = runSteps (runSteps n a) b := by
  simp [runSteps, List.foldl_append]

theorem runSteps_reg (n : Node) (l : List Step) : (runSteps n l).reg = l.foldl stepReg n.reg := by
  induction l generalizing n with
  | nil => rfl
  | cons s l ih => rw [runSteps_cons, ih]; rfl

theorem runSteps_wal (n : Node) (l : List Step) : (runSteps n l).wal = l.foldl stepWal n.wal := by
  induction l generalizing n with
  | nil => rfl
  | cons s l ih => rw [runSteps_cons, ih]; rfl

theorem runSteps_hist (n : Node) (l : List Step) : (runSteps n l).hist = l.foldl stepHist n.hist := by
  induction l generalizing n with
  | nil => rfl
  | cons s l ih => rw [runSteps_cons, ih]; rfl

/-- the registry component ignores how key-manager calls expand -/
theorem foldl_stepReg_expand (w : Wal) (r : RegMem) (s : Step) : (expand w s).foldl stepReg r = stepReg r s := by
  cases s <;> simp [expand, stepReg] <;> split <;> simp [stepReg]

theorem foldl_stepReg_flatMap_expand (w : Wal) (r : RegMem) (l : List Step) :
    (l.flatMap (expand w)).foldl stepReg r = l.foldl stepReg r := by
  induction l generalizing r with
  | nil => rfl
  | cons s l ih => simp [List.flatMap_cons, List.foldl_append, foldl_stepReg_expand, ih]

/-- the decided-history component ignores how key-manager calls expand -/
theorem foldl_stepHist_expand (w : Wal) (h : Hist) (s : Step) : (expand w s).foldl stepHist h = stepHist h s := by
  cases s <;> simp [expand, stepHist] <;> split <;> simp [stepHist]

theorem foldl_stepHist_flatMap_expand (w : Wal) (h : Hist) (l : List Step) :
    (l.flatMap (expand w)).foldl stepHist h = l.foldl stepHist h := by
  induction l generalizing h with
  | nil => rfl
  | cons s l ih => simp [List.flatMap_cons, List.foldl_append, foldl_stepHist_expand, ih]

/-! ## the registry projection of the interpreter -/

/-- registry effect of one event -/
def regEvent (me blk : Nat) (r : RegMem) (e : Event) : RegMem :=
  (regSteps me blk (viewOf r) e).1.foldl stepReg r

def regOutcome (me blk : Nat) (r : RegMem) (e : Event) : Outcome := (regSteps me blk (viewOf r) e).2

theorem applyEvent_reg (me blk : Nat) (n : Node) (e : Event) :
    (applyEvent me blk n e).1.reg = regEvent me blk n.reg e := by
  simp [applyEvent, eventSteps, runSteps_reg, foldl_stepReg_flatMap_expand, regEvent]

theorem applyEvent_outcome (me blk : Nat) (n : Node) (e : Event) :
    (applyEvent me blk n e).2 = regOutcome me blk n.reg e := rfl

theorem applyEvent_hist (me blk : Nat) (n : Node) (e : Event) :
    (applyEvent me blk n e).1.hist = (regSteps me blk (viewOf n.reg) e).1.foldl stepHist n.hist := by
  simp [applyEvent, eventSteps, runSteps_hist, foldl_stepHist_flatMap_expand]


/-! ## closed forms of the registry effect of the handlers' step lists -/

theorem foldl_kmAddSteps (self : Nat) (sh : Share) (r : RegMem) : (kmAddSteps self sh).foldl stepReg r = r := by
  unfold kmAddSteps; split
  · split <;> simp [stepReg]
  · rfl

theorem foldl_kmRemoveSteps (self : Nat) (sh : Share) (r : RegMem) : (kmRemoveSteps self sh).foldl stepReg r = r := by
  unfold kmRemoveSteps; split
  · split <;> simp [stepReg]
  · rfl

theorem foldl_createSteps (self : Nat) (sh : Share) (r : RegMem) :
    (createSteps self sh).foldl stepReg r =
      { r with txn := { r.txn with shares := upsertShare sh r.txn.shares }, shares := upsertShare sh r.shares } := by
  simp [createSteps, List.foldl_append, foldl_kmAddSteps, stepReg]

theorem foldl_removeSteps (self : Nat) (sh : Share) (r : RegMem) :
    (removeSteps self sh).foldl stepReg r =
      { r with txn := { r.txn with shares := eraseShare sh.pk r.txn.shares }, shares := eraseShare sh.pk r.shares } := by
  simp [removeSteps, foldl_kmRemoveSteps, stepReg]

def upsertShares (l : List Share) (acc : List Share) : List Share := l.foldl (fun acc s => upsertShare s acc) acc

theorem foldl_txnShares (l : List Share) (r : RegMem) :
    (l.map Step.txnShare).foldl stepReg r = { r with txn := { r.txn with shares := upsertShares l r.txn.shares } } := by
  induction l generalizing r with
  | nil => rfl
  | cons s l ih => simp [List.foldl_cons, ih, stepReg, upsertShares]

theorem foldl_clusterSteps (v : View) (owner : Nat) (ops : List Nat) (b : Bool) (r : RegMem) :
    (clusterSteps v owner ops b).1.foldl stepReg r =
      if (clusterShares v owner ops).isEmpty then r
      else
        let upd := (clusterShares v owner ops).map (fun s => { s with liquidated := b })
        { r with txn := { r.txn with shares := upsertShares upd r.txn.shares },
                 shares := upsertShares upd (setLiquidated ((clusterShares v owner ops).map (·.pk)) b r.shares) } := by
  simp only [clusterSteps]
  split
  · rfl
  · simp only [List.foldl_append, List.foldl_cons, List.foldl_nil, foldl_txnShares, stepReg, upsertShares]

/-- the share a ValidatorAdded event creates, if it passes every guard -/
def vaCreates (r : RegMem) (owner pk : Nat) (sn : Option Nat) (len : Nat) (ms : List Member) : Option Share :=
  if validateOperators r.txn.ops (ms.map (·.op)) = none ∧ len = expectedSharesLen ms.length ∧
     sn = some (nextNonce r.txn.recips owner) ∧ findShare r.shares pk = none then
    match scanCommittee r.self ms with
    | .ok own => some (newShare r.self owner pk ms own)
    | .error _ => none
  else none

def bumpReg (r : RegMem) (owner : Nat) : RegMem :=
  { r with txn := { r.txn with recips := upsertRecip (bumped r.txn.recips owner) r.txn.recips } }

theorem regEvent_validatorAdded (me blk : Nat) (r : RegMem) (owner pk : Nat) (sn : Option Nat) (len : Nat) (ms : List Member) :
    regEvent me blk r (.validatorAdded owner pk sn len ms) =
      match vaCreates r owner pk sn len ms with
      | some sh => { bumpReg r owner with
                      txn := { (bumpReg r owner).txn with shares := upsertShare sh r.txn.shares },
                      shares := upsertShare sh r.shares }
      | none => bumpReg r owner := by
  simp only [regEvent, regSteps, addSteps, viewOf, vaCreates]
  cases hv : validateOperators r.txn.ops (ms.map (·.op)) with
  | some t => simp [stepReg, bumpReg]
  | none =>
    by_cases hl : len = expectedSharesLen ms.length
    · by_cases hs : sn = some (nextNonce r.txn.recips owner)
      · cases hf : findShare r.shares pk with
        | none =>
          cases hc : scanCommittee r.self ms with
          | error t => simp [hl, hs, stepReg, bumpReg]
          | ok own => simp [hl, hs, foldl_createSteps, stepReg, bumpReg]
        | some sh => by_cases ho : owner = sh.owner <;> simp [hl, hs, ho, stepReg, bumpReg]
      · simp [hl, hs, stepReg, bumpReg]
    · simp [hl, stepReg, bumpReg]

theorem regEvent_operatorAdded (me blk : Nat) (r : RegMem) (id owner pk : Nat) :
    regEvent me blk r (.operatorAdded id owner pk) =
      if (r.self != 0 && pk == me && r.self != id) = true then r
      else if hasOp r.db.ops id = true then r
      else if (pk == me) = true then
        { r with txn := { r.txn with ops := upsertOp ⟨id, pk, owner⟩ r.txn.ops }, self := id }
      else { r with txn := { r.txn with ops := upsertOp ⟨id, pk, owner⟩ r.txn.ops } } := by
  dsimp only [regEvent, regSteps, viewOf]
  cases h1 : (r.self != 0 && pk == me && r.self != id)
  · simp only [Bool.false_eq_true, ↓reduceIte]
    cases h2 : hasOp r.db.ops id
    · simp only [Bool.false_eq_true, ↓reduceIte]
      cases h3 : (pk == me) <;> simp [stepReg]
    · simp
  · simp

theorem regEvent_operatorRemoved (me blk : Nat) (r : RegMem) (id : Nat) :
    regEvent me blk r (.operatorRemoved id) = r := by
  by_cases h : hasOp r.txn.ops id = true <;> simp [regEvent, regSteps, viewOf, h]

theorem regEvent_validatorRemoved (me blk : Nat) (r : RegMem) (owner pk : Nat) (ops : List Nat) :
    regEvent me blk r (.validatorRemoved owner pk ops) =
      match findShare r.shares pk with
      | none => r
      | some sh =>
        if (owner != sh.owner) = true then r
        else { r with txn := { r.txn with shares := eraseShare sh.pk r.txn.shares }, shares := eraseShare sh.pk r.shares } := by
  cases hf : findShare r.shares pk with
  | none => simp [regEvent, regSteps, viewOf, hf]
  | some sh => by_cases ho : (owner != sh.owner) = true <;> simp [regEvent, regSteps, viewOf, hf, ho, foldl_removeSteps]

theorem regEvent_validatorExited (me blk : Nat) (r : RegMem) (owner pk : Nat) (ops : List Nat) :
    regEvent me blk r (.validatorExited owner pk ops) = r := by
  cases hf : findShare r.shares pk with
  | none => simp [regEvent, regSteps, viewOf, hf]
  | some sh =>
    by_cases ho : (owner != sh.owner) = true
    · simp [regEvent, regSteps, viewOf, hf, ho]
    · by_cases hb : belongs r.self sh = true
      · cases hm : sh.bmeta <;> simp [regEvent, regSteps, viewOf, hf, ho, hb, hm]
      · simp [regEvent, regSteps, viewOf, hf, ho, hb]

/-- registry effect of ClusterLiquidated (b = true) / ClusterReactivated (b = false) -/
def clusterEffect (r : RegMem) (owner : Nat) (ops : List Nat) (b : Bool) : RegMem :=
  if (clusterShares (viewOf r) owner ops).isEmpty then r
  else
    let upd := (clusterShares (viewOf r) owner ops).map (fun s => { s with liquidated := b })
    { r with txn := { r.txn with shares := upsertShares upd r.txn.shares },
             shares := upsertShares upd (setLiquidated ((clusterShares (viewOf r) owner ops).map (·.pk)) b r.shares) }

theorem regEvent_clusterLiquidated (me blk : Nat) (r : RegMem) (owner : Nat) (ops : List Nat) :
    regEvent me blk r (.clusterLiquidated owner ops) = clusterEffect r owner ops true := by
  simp only [regEvent, regSteps, foldl_clusterSteps, clusterEffect]

theorem regEvent_clusterReactivated (me blk : Nat) (r : RegMem) (owner : Nat) (ops : List Nat) :
    regEvent me blk r (.clusterReactivated owner ops) = clusterEffect r owner ops false := by
  simp only [regEvent, regSteps, foldl_clusterSteps, clusterEffect]

theorem regEvent_feeRecipientUpdated (me blk : Nat) (r : RegMem) (owner fee : Nat) :
    regEvent me blk r (.feeRecipientUpdated owner fee) =
      match findRecip r.txn.recips owner with
      | some x =>
        if (x.fee == fee) = true then r
        else { r with txn := { r.txn with recips := upsertRecip { x with fee := fee } r.txn.recips } }
      | none => { r with txn := { r.txn with recips := upsertRecip ⟨owner, fee, none⟩ r.txn.recips } } := by
  cases hf : findRecip r.txn.recips owner with
  | none => simp [regEvent, regSteps, viewOf, hf, stepReg]
  | some x => by_cases hq : (x.fee == fee) = true <;> simp [regEvent, regSteps, viewOf, hf, hq, stepReg]

theorem regEvent_unparsable (me blk : Nat) (r : RegMem) : regEvent me blk r .unparsable = r := rfl
theorem regEvent_unknownTopic (me blk : Nat) (r : RegMem) : regEvent me blk r .unknownTopic = r := rfl
theorem regEvent_noTopics (me blk : Nat) (r : RegMem) : regEvent me blk r .noTopics = r := rfl


/-! ## the registry projection of blocks and runs -/

def regEvents (me blk : Nat) : RegMem → List Event → RegMem × Bool
  | r, [] => (r, false)
  | r, e :: es =>
    if (regOutcome me blk r e).isPanic then (regEvent me blk r e, true)
    else regEvents me blk (regEvent me blk r e) es

def beginReg (r : RegMem) : RegMem := { r with txn := r.db }

def commitReg (r : RegMem) (m : Nat) : RegMem :=
  { r with txn := { r.txn with marker := some m }, db := { r.txn with marker := some m } }

def regBlock (me : Nat) (r : RegMem) (b : Block) : RegMem × BlockStatus :=
  if decide (r.db.marker.getD 0 ≥ b.number) then (r, .refused)
  else
    let q := regEvents me b.number (beginReg r) b.events
    if q.2 then (beginReg q.1, .panicked) else (commitReg q.1 b.number, .ok)

def regRun (me : Nat) : RegMem → List Block → RegMem × Bool
  | r, [] => (r, true)
  | r, b :: bs =>
    match (regBlock me r b).2 with
    | .ok => regRun me (regBlock me r b).1 bs
    | _ => ((regBlock me r b).1, false)

theorem runEvents_reg (me blk : Nat) (n : Node) (es : List Event) :
    (runEvents me blk n es).1.reg = (regEvents me blk n.reg es).1 ∧
    (runEvents me blk n es).2.2 = (regEvents me blk n.reg es).2 := by
  induction es generalizing n with
  | nil => exact ⟨rfl, rfl⟩
  | cons e es ih =>
    simp only [runEvents, regEvents, applyEvent_outcome]
    by_cases hp : (regOutcome me blk n.reg e).isPanic = true
    · simp [hp, applyEvent_reg]
    · simp only [hp, Bool.false_eq_true, ↓reduceIte]
      have := ih (applyEvent me blk n e).1
      rw [applyEvent_reg] at this
      exact this

theorem beginTxn_reg (n : Node) : (beginTxn n).reg = beginReg n.reg := rfl

theorem commit_reg (n : Node) (m : Nat) : (runSteps n [.putMarker m, .commit]).reg = commitReg n.reg m := by
  simp [runSteps, applyStep, stepReg, commitReg]

theorem applyBlock_reg (me : Nat) (n : Node) (b : Block) :
    (applyBlock me n b).1.reg = (regBlock me n.reg b).1 ∧ (applyBlock me n b).2.1 = (regBlock me n.reg b).2 := by
  simp only [applyBlock, regBlock, inferior]
  by_cases hi : decide (n.reg.db.marker.getD 0 ≥ b.number) = true
  · simp [hi]
  · simp only [hi, Bool.false_eq_true, ↓reduceIte]
    have h := runEvents_reg me b.number (beginTxn n) b.events
    rw [beginTxn_reg] at h
    by_cases hp : (regEvents me b.number (beginReg n.reg) b.events).2 = true
    · simp [h.2, hp, beginTxn_reg, h.1]
    · simp [h.2, hp, commit_reg, h.1]

theorem run_reg (me : Nat) (n : Node) (bs : List Block) :
    (run me n bs).1.reg = (regRun me n.reg bs).1 ∧ (run me n bs).2 = (regRun me n.reg bs).2 := by
  induction bs generalizing n with
  | nil => exact ⟨rfl, rfl⟩
  | cons b bs ih =>
    simp only [run, regRun]
    have h := applyBlock_reg me n b
    rw [h.2]
    cases hs : (regBlock me n.reg b).2 with
    | ok => simp only []; rw [← h.1]; exact ih _
    | refused => simp [h.1]
    | panicked => simp [h.1]

/-- Induction over successful runs: `B` holds between blocks, `P` inside a block; both may refer to the list of
    events processed so far. -/
theorem regRun_induction (me : Nat) (B P : List Event → RegMem → Prop)
    (hBP : ∀ evs r, B evs r → P evs (beginReg r))
    (hP : ∀ evs r blk e, P evs r → (regOutcome me blk r e).isPanic = false → P (evs ++ [e]) (regEvent me blk r e))
    (hPB : ∀ evs r m, P evs r → B evs (commitReg r m)) :
    ∀ (bs : List Block) (pre : List Event) (r : RegMem), B pre r → (regRun me r bs).2 = true →
      B (pre ++ flatten bs) (regRun me r bs).1 := by
  have hev : ∀ (blk : Nat) (es : List Event) (pre : List Event) (r : RegMem), P pre r →
      (regEvents me blk r es).2 = false → P (pre ++ es) (regEvents me blk r es).1 := by
    intro blk es
    induction es with
    | nil => intro pre r h _; simpa [regEvents] using h
    | cons e es ih =>
      intro pre r h hnp
      simp only [regEvents] at hnp ⊢
      by_cases hp : (regOutcome me blk r e).isPanic = true
      · simp [hp] at hnp
      · simp only [hp, Bool.false_eq_true, ↓reduceIte] at hnp ⊢
        have := ih (pre ++ [e]) _ (hP pre r blk e h (by simpa using hp)) hnp
        simpa [List.append_assoc] using this
  intro bs
  induction bs with
  | nil => intro pre r h _; simpa [regRun, flatten] using h
  | cons b bs ih =>
    intro pre r h hok
    simp only [regRun] at hok ⊢
    cases hs : (regBlock me r b).2 with
    | refused => simp [hs] at hok
    | panicked => simp [hs] at hok
    | ok =>
      simp only [hs] at hok ⊢
      -- the block was processed: not inferior, no panic
      have hb : (regBlock me r b).1 = commitReg (regEvents me b.number (beginReg r) b.events).1 b.number ∧
                (regEvents me b.number (beginReg r) b.events).2 = false := by
        simp only [regBlock] at hs ⊢
        by_cases hi : decide (r.db.marker.getD 0 ≥ b.number) = true
        · simp [hi] at hs
        · simp only [hi, Bool.false_eq_true, ↓reduceIte] at hs ⊢
          by_cases hp : (regEvents me b.number (beginReg r) b.events).2 = true
          · simp [hp] at hs
          · simp [hp]
      have h1 := hev b.number b.events pre (beginReg r) (hBP pre r h) hb.2
      have h2 := hPB _ _ b.number h1
      rw [← hb.1] at h2
      have := ih (pre ++ b.events) _ h2 hok
      simpa [flatten, List.append_assoc] using this


/-! ## the shares map: memory and transaction stay in step -/

def NodupPk (l : List Share) : Prop := (l.map (·.pk)).Nodup

theorem upsertShare_of_not_mem (s : Share) (l : List Share) (h : s.pk ∉ l.map (·.pk)) : upsertShare s l = l ++ [s] := by
  induction l with
  | nil => rfl
  | cons x xs ih =>
    simp only [List.map_cons, List.mem_cons, not_or] at h
    have hx : (x.pk == s.pk) = false := by simpa using fun e => h.1 e.symm
    simp [upsertShare, hx, ih h.2]

theorem upsertShare_eq_map (s : Share) (l : List Share) (hn : NodupPk l) (h : s.pk ∈ l.map (·.pk)) :
    upsertShare s l = l.map (fun x => if x.pk = s.pk then s else x) := by
  induction l with
  | nil => simp at h
  | cons x xs ih =>
    have hn' : x.pk ∉ xs.map (·.pk) ∧ NodupPk xs := by simpa [NodupPk, List.nodup_cons] using hn
    by_cases hx : x.pk = s.pk
    · have hxs : xs.map (fun y => if y.pk = s.pk then s else y) = xs := by
        have : ∀ y ∈ xs, (if y.pk = s.pk then s else y) = y := by
          intro y hy
          have : y.pk ≠ s.pk := fun e => hn'.1 (by rw [hx, ← e]; exact List.mem_map_of_mem hy)
          simp [this]
        calc xs.map (fun y => if y.pk = s.pk then s else y) = xs.map id := List.map_congr_left (by simpa using this)
          _ = xs := by simp
      simp only [upsertShare, hx, beq_self_eq_true, ↓reduceIte, List.map_cons, hxs]
    · have hmem : s.pk ∈ xs.map (·.pk) := by
        simp only [List.map_cons, List.mem_cons] at h
        rcases h with h | h
        · exact absurd h.symm hx
        · exact h
      have hx' : (x.pk == s.pk) = false := by simpa using hx
      simp only [upsertShare, hx', Bool.false_eq_true, ↓reduceIte, List.map_cons, hx, ih hn'.2 hmem]

theorem upsertShare_pks_of_mem (s : Share) (l : List Share) (hn : NodupPk l) (h : s.pk ∈ l.map (·.pk)) :
    (upsertShare s l).map (·.pk) = l.map (·.pk) := by
  rw [upsertShare_eq_map s l hn h, List.map_map]
  apply List.map_congr_left
  intro x _
  simp only [Function.comp]
  by_cases hx : x.pk = s.pk
  · simp only [hx, ↓reduceIte]
  · simp only [hx, ↓reduceIte]

theorem nodupPk_upsert (s : Share) (l : List Share) (hn : NodupPk l) : NodupPk (upsertShare s l) := by
  by_cases h : s.pk ∈ l.map (·.pk)
  · unfold NodupPk; rw [upsertShare_pks_of_mem s l hn h]; exact hn
  · rw [upsertShare_of_not_mem s l h]
    unfold NodupPk at *
    rw [List.map_append, List.nodup_append]
    refine ⟨hn, by simp, ?_⟩
    intro a ha b hb
    simp at hb
    subst hb
    exact fun e => h (e ▸ ha)

theorem nodupPk_erase (pk : Nat) (l : List Share) (hn : NodupPk l) : NodupPk (eraseShare pk l) := by
  unfold NodupPk eraseShare at *
  exact List.Pairwise.sublist ((List.filter_sublist).map _) hn

/-- the element of `u` that replaces `x` (same validator key), if any -/
def repl (u : List Share) (x : Share) : Share :=
  match u.find? (fun y => y.pk == x.pk) with
  | some y => y
  | none => x

theorem repl_pk (u : List Share) (x : Share) : (repl u x).pk = x.pk := by
  unfold repl
  cases h : u.find? (fun y => y.pk == x.pk) with
  | none => rfl
  | some y => simpa using List.find?_some h

theorem upsertShares_eq_map (u l : List Share) (hl : NodupPk l) (hu : NodupPk u)
    (hsub : ∀ y ∈ u, y.pk ∈ l.map (·.pk)) : upsertShares u l = l.map (repl u) := by
  induction u generalizing l with
  | nil =>
    have : repl [] = id := by funext x; rfl
    simp [upsertShares, this]
  | cons y ys ih =>
    have hu' : y.pk ∉ ys.map (·.pk) ∧ NodupPk ys := by simpa [NodupPk, List.nodup_cons] using hu
    have hy : y.pk ∈ l.map (·.pk) := hsub y (by simp)
    have hl1 : NodupPk (upsertShare y l) := nodupPk_upsert y l hl
    have hsub1 : ∀ z ∈ ys, z.pk ∈ (upsertShare y l).map (·.pk) := by
      intro z hz; rw [upsertShare_pks_of_mem y l hl hy]; exact hsub z (by simp [hz])
    have := ih (upsertShare y l) hl1 hu'.2 hsub1
    show upsertShares ys (upsertShare y l) = _
    rw [this, upsertShare_eq_map y l hl hy, List.map_map]
    apply List.map_congr_left
    intro x _
    simp only [Function.comp]
    by_cases hxe : x.pk = y.pk
    · have hnone : ys.find? (fun z => z.pk == y.pk) = none := by
        rw [List.find?_eq_none]
        intro z hz
        have : z.pk ≠ y.pk := fun e => hu'.1 (e ▸ List.mem_map_of_mem hz)
        simpa using this
      simp only [hxe, ↓reduceIte, repl, hnone, List.find?_cons, beq_self_eq_true]
    · have hyx : (y.pk == x.pk) = false := by simpa using fun e => hxe e.symm
      simp only [hxe, ↓reduceIte, repl, List.find?_cons, hyx]

theorem nodupPk_map_repl (u l : List Share) (hl : NodupPk l) : NodupPk (l.map (repl u)) := by
  unfold NodupPk at *
  rw [List.map_map]
  have : (fun x => x.pk) ∘ repl u = fun x => x.pk := by funext x; simp [repl_pk]
  rw [this]; exact hl

/-- the in-memory mutation of processClusterEvent followed by Save is the same update as the one written
    through the transaction -/
theorem cluster_sync (l own : List Share) (b : Bool) (hl : NodupPk l) (hown : ∃ p, own = l.filter p) :
    upsertShares (own.map (fun s => { s with liquidated := b })) (setLiquidated (own.map (·.pk)) b l) =
      upsertShares (own.map (fun s => { s with liquidated := b })) l ∧
    NodupPk (upsertShares (own.map (fun s => { s with liquidated := b })) l) := by
  obtain ⟨p, rfl⟩ := hown
  have hupk : ((l.filter p).map (fun s : Share => { s with liquidated := b })).map (·.pk) = (l.filter p).map (·.pk) := by
    rw [List.map_map]; rfl
  have hu : NodupPk ((l.filter p).map (fun s : Share => { s with liquidated := b })) := by
    unfold NodupPk; rw [hupk]
    exact List.Pairwise.sublist ((List.filter_sublist).map _) hl
  have hsub : ∀ y ∈ (l.filter p).map (fun s : Share => { s with liquidated := b }), y.pk ∈ l.map (·.pk) := by
    intro y hy
    have : y.pk ∈ ((l.filter p).map (fun s : Share => { s with liquidated := b })).map (·.pk) := List.mem_map_of_mem hy
    rw [hupk] at this
    exact (List.filter_sublist.map _).subset this
  have hl2pk : (setLiquidated ((l.filter p).map (·.pk)) b l).map (·.pk) = l.map (·.pk) := by
    unfold setLiquidated; rw [List.map_map]; apply List.map_congr_left; intro x _
    simp only [Function.comp]; split <;> rfl
  have hl2 : NodupPk (setLiquidated ((l.filter p).map (·.pk)) b l) := by unfold NodupPk; rw [hl2pk]; exact hl
  have hsub2 : ∀ y ∈ (l.filter p).map (fun s : Share => { s with liquidated := b }),
      y.pk ∈ (setLiquidated ((l.filter p).map (·.pk)) b l).map (·.pk) := by rw [hl2pk]; exact hsub
  refine ⟨?_, ?_⟩
  · rw [upsertShares_eq_map _ _ hl2 hu hsub2, upsertShares_eq_map _ _ hl hu hsub]
    unfold setLiquidated
    rw [List.map_map]
    apply List.map_congr_left
    intro x _
    simp only [Function.comp]
    by_cases hc : ((l.filter p).map (·.pk)).contains x.pk = true
    · simp only [hc, ↓reduceIte]
      -- some element of the update has this key, so the replacement does not look at the flag
      unfold repl
      have : ∃ y ∈ (l.filter p).map (fun s : Share => { s with liquidated := b }), (y.pk == x.pk) = true := by
        have : x.pk ∈ ((l.filter p).map (fun s : Share => { s with liquidated := b })).map (·.pk) := by
          rw [hupk]; simpa using hc
        obtain ⟨y, hy, hye⟩ := List.mem_map.1 this
        exact ⟨y, hy, by simp [hye]⟩
      obtain ⟨y, hy, hye⟩ := this
      cases hf : ((l.filter p).map (fun s : Share => { s with liquidated := b })).find? (fun y => y.pk == x.pk) with
      | none => exact absurd hye (by simpa using (List.find?_eq_none.1 hf) y hy)
      | some z => rfl
    · rw [if_neg hc]
  · rw [upsertShares_eq_map _ _ hl hu hsub]; exact nodupPk_map_repl _ _ hl

end Ssv.Registry
