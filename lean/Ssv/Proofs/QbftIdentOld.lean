/-
Regression witness for the identifier-confusion defect (fixed in /repo e1612ceed): the validators AS THEY WERE BEFORE THE FIX
(`…Old`: embedded round-change and prepare justifications are not checked for the instance's identifier), wired into the
unchanged instance / controller functions and run under the adversary of `SystemB` (signed parts with a foreign identifier
are adversary-controlled). A concrete 4-operator schedule, kernel-evaluated, ends with two correct operators reporting
different values. With the current validators the same proposal is rejected (`wrongMsgIdentifier`) and agreement is proved
(`C01_agreement`). Core Lean only.
-/
import Ssv.Model.Qbft.SystemB

namespace Ssv.Qbft.Old
open Ssv.Qbft Ssv.Qbft.B

/-- `validRoundChangeForData` before the fix: no identifier check on the round-change nor on its inner prepares -/
def validRoundChangeForDataOld (cfg : Cfg) (stateHeight : Nat) (rc : Lvl1) (height round fullData : Nat) : V Unit := do
  rejectIf (rc.type != tRoundChange) .notRoundChange
  rejectIf (rc.height != height) .wrongHeight
  rejectIf (rc.round != round) .wrongRound
  rejectIf (rc.signers.length != 1) .oneSigner
  rejectIf (!cfg.verifySig rc.toBase) .sigInvalid
  wrap .roundChangeInvalid (messageValidate rc.toBase)
  if rc.toBase.rcPrepared then
    wrap .rcJustInvalid (firstFail (fun pm => validSignedPrepare cfg pm stateHeight rc.dataRound rc.root) rc.just)
    rejectIf (hashData fullData != rc.root) .hashMismatch
    rejectIf (!cfg.hasQuorum (signersOfB rc.just)) .noJustQuorum
    rejectIf (decide (rc.dataRound > round)) .preparedGtRound
  else pure ()

/-- `isProposalJustification` before the fix -/
def isProposalJustificationOld (cfg : Cfg) (stateHeight : Nat) (rcs : List Lvl1) (prepares : List Base)
    (height round fullData : Nat) : V Unit := do
  rejectIf (!cfg.valOk fullData) .valueInvalid
  if round == firstRound then pure ()
  else
    wrap .rcNotValid (firstFail (fun rc => validRoundChangeForDataOld cfg stateHeight rc height round fullData) rcs)
    rejectIf (!cfg.hasQuorum (signersOfL rcs)) .rcNoQuorum
    if !rcs.any (·.toBase.rcPrepared) then pure ()
    else
      rejectIf (!cfg.hasQuorum (signersOfB prepares)) .prepNoQuorum
      match highestPrepared rcs with
      | none => fail .noHighestPrepared
      | some rcm =>
        rejectIf (hashData fullData != rcm.root) .notHighestPrepared
        match firstFail (fun pm => validSignedPrepare cfg pm height rcm.dataRound rcm.root) prepares with
        | .ok _ => pure ()
        | .error .panic => .error .panic
        | .error (.tag _) => fail .prepareNotValid

def isValidProposalOld (cfg : Cfg) (s : State) (m : Msg) : V Unit := do
  rejectIf (m.type != tProposal) .notProposal
  rejectIf (m.height != s.height) .wrongHeight
  rejectIf (m.signers.length != 1) .oneSigner
  rejectIf (!cfg.verifySig m.toBase) .sigInvalid
  match cfg.proposer s.height m.round with
  | none => .error .panic
  | some leader =>
    rejectIf (!matchedSigners m.signers [leader]) .leaderInvalid
    wrap .proposalInvalid (signedValidate m.toBase)
    rejectIf (hashData m.fullData != m.root) .hashMismatch
    wrap .notJustified (isProposalJustificationOld cfg s.height m.rcJust m.prepJust s.height m.round m.fullData)
    if (s.accepted.isNone && m.round == s.round) || decide (m.round > s.round) then pure ()
    else fail .notValidWithState

def baseMsgValidationOld (cfg : Cfg) (s : State) (m : Msg) : V Unit := do
  wrap .invalidSigned (signedValidate m.toBase)
  rejectIf (decide (m.round < s.round)) .pastRound
  if m.type == tProposal then isValidProposalOld cfg s m
  else if m.type == tPrepare then
    match s.accepted with
    | none => fail .noProposal
    | some p => validSignedPrepare cfg m.toBase s.height s.round p.root
  else if m.type == tCommit then
    match s.accepted with
    | none => fail .noProposal
    | some p => validateCommit cfg m.toBase s.height s.round p
  else if m.type == tRoundChange then
    validRoundChangeForDataOld cfg s.height m.toLvl1 s.height m.round m.fullData
  else fail .typeNotSupported

def isProposalJustificationForLeadingRoundOld (cfg : Cfg) (s : State) (rcMsg : Msg) (roundChanges : List Msg)
    (value newRound : Nat) : V Unit := do
  wrap .notJustified (isProposalJustificationOld cfg s.height (roundChanges.map Msg.toLvl1)
    (rcMsg.rcJust.map (·.toBase)) s.height rcMsg.round value)
  match cfg.proposer s.height rcMsg.round with
  | none => .error .panic
  | some leader =>
    rejectIf (leader != cfg.own) .notProposer
    let current := s.accepted.isNone && s.round == newRound
    let future := decide (newRound > s.round)
    rejectIf (!current && !future) .roundMismatch

def findJustifiedOld (cfg : Cfg) (s : State) (trigger : Msg) (roundChanges : List Msg) : List Msg → V (Option (Msg × Nat))
  | [] => pure none
  | m :: rest =>
    let value := if m.toBase.rcPrepared then trigger.fullData else s.startValue
    match isProposalJustificationForLeadingRoundOld cfg s m roundChanges value trigger.round with
    | .ok _ => pure (some (m, value))
    | .error .panic => .error .panic
    | .error (.tag _) => findJustifiedOld cfg s trigger roundChanges rest

def hasReceivedProposalJustificationOld (cfg : Cfg) (s : State) (trigger : Msg) : V (Option (Msg × Nat)) :=
  let roundChanges := forRound s.roundChange trigger.round
  if !cfg.hasQuorum (signersOf roundChanges) then pure none
  else findJustifiedOld cfg s trigger roundChanges roundChanges

def uponRoundChangeOld (cfg : Cfg) (s : State) (m : Msg) : Step :=
  let before := cfg.hasQuorum (signersOf (forRound s.roundChange m.round))
  let (rc, added) := addFirst s.roundChange m
  if !added then okStep s [] else
  let s1 := { s with roundChange := rc }
  if before then okStep s1 [] else
  match hasReceivedProposalJustificationOld cfg s1 m with
  | .error f => failStep s1 [] f
  | .ok (some (justified, value)) =>
    sendOr cfg s1 .bcastProposalFailed (createProposal cfg s1 value (forRound rc s1.round) justified.rcJust) []
  | .ok none =>
    let higher := rc.filter (fun x => Nat.blt s1.round x.round)
    if cfg.hasPartialQuorum (signersOf higher) then
      let newRound := minRound higher
      if newRound ≤ s1.round then okStep s1 [] else uponChangeRoundPartialQuorum cfg s1 newRound
    else okStep s1 []

def processMsgOld (cfg : Cfg) (s : State) (m : Msg) : Step :=
  if !canProcess cfg s then ⟨s, [], .err [.stopped]⟩ else
  match wrap .invalidSigned (baseMsgValidationOld cfg s m) with
  | .error f => failStep s [] f
  | .ok _ =>
    if m.type == tProposal then uponProposal cfg s m
    else if m.type == tPrepare then uponPrepare cfg s m
    else if m.type == tCommit then uponCommit cfg s m
    else if m.type == tRoundChange then uponRoundChangeOld cfg s m
    else ⟨s, [], .err [.typeNotSupported]⟩

def uponExistingInstanceMsgOld (cfg : Cfg) (c : Ctrl) (m : Msg) : CStep :=
  match findInstance c.insts m.height with
  | none => ⟨c, [], .err [.instanceNotFound]⟩
  | some inst =>
    let prevDecided := inst.decided
    let st := processMsgOld cfg inst m
    let c1 : Ctrl := { c with insts := updateInstance c.insts st.st }
    match st.res with
    | .panic => ⟨c1, st.outs, .panic⟩
    | .err t => ⟨c1, st.outs, .err (.couldNotProcess :: t)⟩
    | .ok decided _ agg =>
      if !decided then ⟨c1, st.outs, .ok none⟩ else
      match agg with
      | none => ⟨c1, st.outs, .ok none⟩
      | some d =>
        let outs := st.outs ++ [.bcastDecided d]
        if prevDecided then ⟨c1, outs, .ok none⟩ else ⟨c1, outs, .ok (some d)⟩

def ctrlProcessMsgOld (cfg : Cfg) (c : Ctrl) (m : Msg) : CStep :=
  if m.ident != cfg.ident then ⟨c, [], .err [.invalidMsg, .wrongIdentifier]⟩
  else if isDecidedMsg cfg m then uponDecided cfg c m
  else if isFutureMessage c m then ⟨c, [], .err [.futureMsg]⟩
  else uponExistingInstanceMsgOld cfg c m

/-- `SystemB.step` with the old validators -/
def stepOld {P : Params} (σ : Sys P) : Action P → Sys P
  | .start i v =>
    let st := (σ.ctrl i).startNewInstance (P.cfg i) P.height v
    σ.update i st.ct st.outs (outEvents i st.outs)
  | .deliver i m =>
    let st := ctrlProcessMsgOld (P.cfg i) (σ.ctrl i) m
    σ.update i st.ct st.outs (deliverEvents (P.cfg i) P.height i (σ.ctrl i) st m)
  | .timeout i r =>
    let st := (σ.ctrl i).onTimeout (P.cfg i) P.height r
    σ.update i st.ct st.outs (outEvents i st.outs)

/-- reachability with the old validators, same adversary (`B.enabled`) -/
inductive ReachableOld {P : Params} : Sys P → Prop
  | init : ReachableOld (Sys.init P)
  | step {σ : Sys P} (a : Action P) : ReachableOld σ → enabled σ a = true → ReachableOld (stepOld σ a)

inductive Item (P : Params) where
  | act (a : Action P)
  | fwd (i : Op P) (k : Nat)

def runOld {P : Params} (σ : Sys P) : List (Item P) → Option (Sys P)
  | [] => some σ
  | .act a :: rest => if enabled σ a then runOld (stepOld σ a) rest else none
  | .fwd i k :: rest =>
    match σ.log[k]? with
    | some m => if enabled σ (.deliver i m) then runOld (stepOld σ (.deliver i m)) rest else none
    | none => none

theorem reachable_runOld {P : Params} {σ σ' : Sys P} (l : List (Item P)) (h : ReachableOld σ)
    (hr : runOld σ l = some σ') : ReachableOld σ' := by
  induction l generalizing σ with
  | nil => simp only [runOld, Option.some.injEq] at hr; exact hr ▸ h
  | cons it rest ih =>
    cases it with
    | act a =>
      simp only [runOld] at hr
      cases he : enabled σ a with
      | false => simp [he] at hr
      | true => rw [he] at hr; exact ih (ReachableOld.step a h he) hr
    | fwd i k =>
      simp only [runOld] at hr
      cases hm : σ.log[k]? with
      | none => simp [hm] at hr
      | some m =>
        simp only [hm] at hr
        cases he : enabled σ (.deliver i m) with
        | false => simp [he] at hr
        | true => rw [he] at hr; exact ih (ReachableOld.step _ h he) hr

/-! ### the schedule -/

/-- height 0: leaders of rounds 1, 2, 3 are operators 1, 2, 3; operator 3 is Byzantine -/
def regP : Params := { f := 1, height := 0, cutoff := 15, valCheck := fun _ => true, byz := [2] }

/-- an unprepared round-3 round-change that operator `s` genuinely signed — for ANOTHER duty role (identifier 2) -/
def foreignRC (s : Nat) : Lvl1 :=
  { type := tRoundChange, height := 0, round := 3, ident := 2, root := 1, dataRound := 0, signers := [s], sigOk := true,
    malformed := false, mid := 0, just := [] }

/-- the Byzantine round-3 leader's proposal of the fresh value 8, "justified" by the foreign round-changes of 1, 2, 4 -/
def byzProposal : Msg :=
  { type := tProposal, height := 0, round := 3, ident := ownIdent, root := 8, dataRound := 0, signers := [3], sigOk := true,
    malformed := false, mid := 0, rcJust := [foreignRC 1, foreignRC 2, foreignRC 4], prepJust := [], fullData := 8 }

def byzMsg (t r root : Nat) : Msg :=
  { type := t, height := 0, round := r, ident := ownIdent, root := root, dataRound := 0, signers := [3], sigOk := true,
    malformed := false, mid := 0, rcJust := [], prepJust := [], fullData := 0 }

/-- round-1 proposal lost; 1, 2, 4 send unprepared round-changes for round 2; the correct round-2 leader (operator 2) proposes 7,
    all three prepare and commit, only operator 1 sees the commits and decides 7; 2 and 4 time out; the Byzantine round-3
    leader proposes 8 justified by foreign-identifier round-changes; 2 and 4 (with 3's prepare and commit) decide 8 -/
def regSched : List (Item regP) :=
  [.act (.start 0 5), .act (.start 1 7), .act (.start 3 6),
   .act (.timeout 0 1), .act (.timeout 1 1), .act (.timeout 3 1),
   .fwd 1 1, .fwd 1 2, .fwd 1 3,
   .fwd 0 4, .fwd 1 4, .fwd 3 4,
   .fwd 0 5, .fwd 0 6, .fwd 0 7, .fwd 1 5, .fwd 1 6, .fwd 1 7, .fwd 3 5, .fwd 3 6, .fwd 3 7,
   .fwd 0 8, .fwd 0 9, .fwd 0 10,
   .act (.timeout 1 2), .act (.timeout 3 2),
   .act (.deliver 1 byzProposal), .act (.deliver 3 byzProposal),
   .act (.deliver 1 (byzMsg tPrepare 3 8)), .act (.deliver 3 (byzMsg tPrepare 3 8)),
   .fwd 1 13, .fwd 1 14, .fwd 3 13, .fwd 3 14,
   .act (.deliver 1 (byzMsg tCommit 3 8)), .act (.deliver 3 (byzMsg tCommit 3 8)),
   .fwd 1 15, .fwd 1 16, .fwd 3 15, .fwd 3 16]

theorem reg_isSome : (runOld (Sys.init regP) regSched).isSome = true := by decide +kernel

def regSys : Sys regP := (runOld (Sys.init regP) regSched).get reg_isSome

theorem reg_reachable : ReachableOld regSys := reachable_runOld regSched ReachableOld.init (by simp [regSys])

/-- the decisions reported in the final state: operator 1 decided 7 in round 2, operators 2 and 4 decided 8 in round 3 -/
theorem reg_decisions :
    regSys.trace.filter (fun e => match e with | .D _ _ _ => true | _ => false) = [.D 0 2 7, .D 1 3 8, .D 3 3 8] := by
  decide +kernel

theorem reg_members : Ev.D 0 2 7 ∈ regSys.trace ∧ Ev.D 1 3 8 ∈ regSys.trace ∧ Ev.D 3 3 8 ∈ regSys.trace := by
  decide +kernel

/-- with the CURRENT validators the Byzantine proposal is rejected by the identifier guard -/
theorem reg_fixed_rejects :
    (runOld (Sys.init regP) (regSched.take 26)).map (fun σ => ((σ.ctrl 1).processMsg (regP.cfg 1) byzProposal).res) =
      some (.err [.couldNotProcess, .invalidSigned, .notJustified, .rcNotValid, .wrongMsgIdentifier]) := by
  decide +kernel

end Ssv.Qbft.Old
