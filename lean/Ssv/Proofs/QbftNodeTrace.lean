/-
C01 Layer B, part 3 — the bridge between the system's ghost trace and the Layer-A context (`QAbs.Ctx`), trace-extension
lemmas, and the counting lemmas that turn signer lists into committee subsets.
-/
import Ssv.Proofs.QbftNodeCtrl
import Ssv.Proofs.QbftAbstract
import Mathlib.Data.Finset.Card
import Mathlib.Data.Fintype.Card
import Mathlib.Data.List.Nodup
set_option linter.unusedSimpArgs false
set_option linter.unusedVariables false

namespace Ssv.Qbft.B
open Ssv.Qbft

def toQ {N : Type} : Ev N → QAbs.Ev N
  | .P i r v => .P i r v
  | .K i r v => .K i r v
  | .RC i r pr pv => .RC i r pr pv
  | .G i rc => .G i rc
  | .D i r v => .D i r v

theorem toQ_inj {N : Type} {e e' : Ev N} (h : toQ e = toQ e') : e = e' := by
  cases e <;> cases e' <;> simp [toQ] at h <;> simp [h]

theorem toQ_surj {N : Type} (q : QAbs.Ev N) : ∃ e, toQ e = q := by
  cases q with
  | P i r v => exact ⟨.P i r v, rfl⟩
  | K i r v => exact ⟨.K i r v, rfl⟩
  | RC i r pr pv => exact ⟨.RC i r pr pv, rfl⟩
  | G i rc => exact ⟨.G i rc, rfl⟩
  | D i r v => exact ⟨.D i r v, rfl⟩

/-- the operator an event belongs to -/
def Ev.node {N : Type} : Ev N → N
  | .P i _ _ => i
  | .K i _ _ => i
  | .RC i _ _ _ => i
  | .G i _ => i
  | .D i _ _ => i

/-- side conditions on the parameters: at most f Byzantine members; the committee size fits a Go `int` (so that the
    translated quorum kernel does not wrap) -/
structure Params.Valid (P : Params) : Prop where
  byz : P.byz.length ≤ P.f
  size : P.f < 2 ^ 61

def byzSet (P : Params) : Finset (Op P) := P.byz.toFinset

/-- the Layer-A context of a trace -/
def ctxT (P : Params) (hP : P.Valid) (T : List (Ev (Op P))) : QAbs.Ctx (Op P) :=
  { f := P.f, byz := byzSet P, T := T.map toQ,
    hn := by simp,
    hb := le_trans (List.toFinset_card_le _) hP.byz }

theorem honest_iff (P : Params) (hP : P.Valid) (T : List (Ev (Op P))) (i : Op P) :
    i ∉ (ctxT P hP T).byz ↔ P.honest i = true := by
  simp [ctxT, byzSet, Params.honest]

theorem at_iff {P : Params} {hP : P.Valid} {T : List (Ev (Op P))} {k : Nat} {e : Ev (Op P)} :
    QAbs.At (ctxT P hP T) k (toQ e) ↔ T[k]? = some e := by
  unfold QAbs.At ctxT
  simp only [List.getElem?_map]
  constructor
  · intro h
    cases hk : T[k]? with
    | none => simp [hk] at h
    | some e0 => simp [hk] at h; rw [toQ_inj h]
  · intro h; simp [h]

theorem at_P {P : Params} {hP : P.Valid} {T : List (Ev (Op P))} {k : Nat} {i : Op P} {r v : Nat} :
    QAbs.At (ctxT P hP T) k (.P i r v) ↔ T[k]? = some (.P i r v) := at_iff (e := .P i r v)
theorem at_K {P : Params} {hP : P.Valid} {T : List (Ev (Op P))} {k : Nat} {i : Op P} {r v : Nat} :
    QAbs.At (ctxT P hP T) k (.K i r v) ↔ T[k]? = some (.K i r v) := at_iff (e := .K i r v)
theorem at_RC {P : Params} {hP : P.Valid} {T : List (Ev (Op P))} {k : Nat} {i : Op P} {r pr pv : Nat} :
    QAbs.At (ctxT P hP T) k (.RC i r pr pv) ↔ T[k]? = some (.RC i r pr pv) := at_iff (e := .RC i r pr pv)
theorem at_G {P : Params} {hP : P.Valid} {T : List (Ev (Op P))} {k : Nat} {i : Op P} {rc : Nat} :
    QAbs.At (ctxT P hP T) k (.G i rc) ↔ T[k]? = some (.G i rc) := at_iff (e := .G i rc)
theorem at_D {P : Params} {hP : P.Valid} {T : List (Ev (Op P))} {k : Nat} {i : Op P} {r v : Nat} :
    QAbs.At (ctxT P hP T) k (.D i r v) ↔ T[k]? = some (.D i r v) := at_iff (e := .D i r v)

/-! ### trace extension -/

theorem getElem?_append_cases {α : Type} {T evs : List α} {k : Nat} {e : α} (h : (T ++ evs)[k]? = some e) :
    (k < T.length ∧ T[k]? = some e) ∨ (T.length ≤ k ∧ evs[k - T.length]? = some e) := by
  by_cases hk : k < T.length
  · left; rw [List.getElem?_append_left hk] at h; exact ⟨hk, h⟩
  · right
    have hk' : T.length ≤ k := Nat.le_of_not_lt hk
    rw [List.getElem?_append_right hk'] at h
    exact ⟨hk', h⟩

theorem getElem?_lt {α : Type} {T : List α} {k : Nat} {e : α} (h : T[k]? = some e) : k < T.length := by
  by_contra hk
  rw [List.getElem?_eq_none (Nat.le_of_not_lt hk)] at h
  exact absurd h (by simp)

theorem getElem?_mem' {α : Type} {T : List α} {k : Nat} {e : α} (h : T[k]? = some e) : e ∈ T :=
  List.mem_of_getElem? h

theorem getElem?_append_old {α : Type} {T evs : List α} {k : Nat} {e : α} (h : T[k]? = some e) :
    (T ++ evs)[k]? = some e := by
  rw [List.getElem?_append_left (getElem?_lt h)]; exact h

/-- an event already in the trace lies strictly before every index at or beyond the old length -/
theorem before_of_mem {P : Params} {hP : P.Valid} {T evs : List (Ev (Op P))} {k : Nat} {e : Ev (Op P)}
    (h : e ∈ T) (hk : T.length ≤ k) : QAbs.Before (ctxT P hP (T ++ evs)) k (toQ e) := by
  obtain ⟨j, hj⟩ := List.getElem?_of_mem h
  exact ⟨j, lt_of_lt_of_le (getElem?_lt hj) hk, at_iff.2 (getElem?_append_old hj)⟩

theorem before_mem {P : Params} {hP : P.Valid} {T : List (Ev (Op P))} {k : Nat} {e : Ev (Op P)}
    (h : QAbs.Before (ctxT P hP T) k (toQ e)) : e ∈ T := by
  obtain ⟨j, _, hj⟩ := h
  exact getElem?_mem' (at_iff.1 hj)

theorem before_ext {P : Params} {hP : P.Valid} {T evs : List (Ev (Op P))} {k : Nat} {q : QAbs.Ev (Op P)}
    (h : QAbs.Before (ctxT P hP T) k q) : QAbs.Before (ctxT P hP (T ++ evs)) k q := by
  obtain ⟨j, hj, ha⟩ := h
  obtain ⟨e, rfl⟩ := toQ_surj q
  exact ⟨j, hj, at_iff.2 (getElem?_append_old (at_iff.1 ha))⟩

theorem pq_ext {P : Params} {hP : P.Valid} {T evs : List (Ev (Op P))} {k r v : Nat}
    (h : QAbs.PQ (ctxT P hP T) k r v) : QAbs.PQ (ctxT P hP (T ++ evs)) k r v := by
  obtain ⟨S, hS, hm⟩ := h
  exact ⟨S, hS, fun j hj hb => before_ext (hm j hj hb)⟩

theorem kq_ext {P : Params} {hP : P.Valid} {T evs : List (Ev (Op P))} {k r v : Nat}
    (h : QAbs.KQ (ctxT P hP T) k r v) : QAbs.KQ (ctxT P hP (T ++ evs)) k r v := by
  obtain ⟨S, hS, hm⟩ := h
  exact ⟨S, hS, fun j hj hb => before_ext (hm j hj hb)⟩

/-- a prepare quorum given by membership in the old trace -/
theorem pq_of_mem {P : Params} {hP : P.Valid} {T evs : List (Ev (Op P))} {k r v : Nat} (hk : T.length ≤ k)
    (S : Finset (Op P)) (hS : 2 * P.f + 1 ≤ S.card) (hm : ∀ j ∈ S, P.honest j = true → Ev.P j r v ∈ T) :
    QAbs.PQ (ctxT P hP (T ++ evs)) k r v :=
  ⟨S, hS, fun j hj hb => before_of_mem (e := .P j r v) (hm j hj ((honest_iff P hP _ j).1 hb)) hk⟩

theorem kq_of_mem {P : Params} {hP : P.Valid} {T evs : List (Ev (Op P))} {k r v : Nat} (hk : T.length ≤ k)
    (S : Finset (Op P)) (hS : 2 * P.f + 1 ≤ S.card) (hm : ∀ j ∈ S, P.honest j = true → Ev.K j r v ∈ T) :
    QAbs.KQ (ctxT P hP (T ++ evs)) k r v :=
  ⟨S, hS, fun j hj hb => before_of_mem (e := .K j r v) (hm j hj ((honest_iff P hP _ j).1 hb)) hk⟩

/-! ### committee, quorum, signer sets -/

theorem mem_committee (P : Params) (s : Nat) : s ∈ P.committee ↔ 1 ≤ s ∧ s ≤ P.n := by
  unfold Params.committee
  simp only [List.mem_map, List.mem_range]
  constructor
  · rintro ⟨a, ha, rfl⟩; omega
  · intro h; exact ⟨s - 1, by omega, by omega⟩

/-- the member with operator id `s` -/
def toOp (P : Params) (s : Nat) : Op P := ⟨(s - 1) % (3 * P.f + 1), Nat.mod_lt _ (by omega)⟩

theorem opId_toOp (P : Params) (s : Nat) (h : s ∈ P.committee) : opId (toOp P s) = s := by
  obtain ⟨h1, h2⟩ := (mem_committee P s).1 h
  unfold Params.n at h2
  simp only [opId, toOp]
  rw [Nat.mod_eq_of_lt (by omega)]
  omega

theorem toOp_opId (P : Params) (i : Op P) : toOp P (opId i) = i := by
  apply Fin.ext
  simp only [opId, toOp]
  have := i.isLt
  rw [Nat.add_sub_cancel, Nat.mod_eq_of_lt this]

theorem opId_mem_committee (P : Params) (i : Op P) : opId i ∈ P.committee := by
  rw [mem_committee]
  have := i.isLt
  unfold opId Params.n
  omega

theorem opId_inj {P : Params} {i j : Op P} (h : opId i = opId j) : i = j := by
  apply Fin.ext
  unfold opId at h
  omega

theorem honestId_iff (P : Params) (i : Op P) : P.honestId (opId i) = true ↔ P.honest i = true := by
  unfold Params.honestId Params.honest
  have h1 := (mem_committee P (opId i)).1 (opId_mem_committee P i)
  simp only [Bool.and_eq_true, decide_eq_true_eq, Bool.not_eq_true', List.any_eq_false, beq_iff_eq,
    List.contains_eq_mem, decide_eq_false_iff_not]
  constructor
  · rintro ⟨_, h3⟩ hmem
    exact h3 i hmem rfl
  · intro h
    refine ⟨h1, ?_⟩
    intro b hb hbi
    have : b = i := opId_inj hbi
    subst this
    exact h hb

theorem kernel_quorum (P : Params) (hP : P.Valid) : P.quorum = 2 * P.f + 1 := by
  have hf := hP.size
  unfold Params.quorum Params.n Gen.k_ComputeQuorumAndPartialQuorum
  simp only
  have e1 : Int.tdiv (((3 * P.f + 1 : Nat) : Int) - 1) 3 = (P.f : Int) := by
    have : ((3 * P.f + 1 : Nat) : Int) - 1 = 3 * (P.f : Int) := by omega
    rw [this, Int.tdiv_eq_ediv_of_nonneg (by omega)]
    omega
  rw [e1]
  unfold Gen.toUint64
  have : ((P.f : Int) * 2 + 1) % 18446744073709551616 = (P.f : Int) * 2 + 1 := by
    apply Int.emod_eq_of_lt <;> omega
  rw [this]
  omega

theorem uniq_mem (l : List Nat) (x : Nat) : x ∈ uniq l ↔ x ∈ l := by
  induction l with
  | nil => simp [uniq]
  | cons a l ih =>
    unfold uniq
    split
    · rename_i h
      rw [ih]
      constructor
      · exact fun hx => List.mem_cons_of_mem _ hx
      · intro hx
        rcases List.mem_cons.1 hx with rfl | hx
        · exact h
        · exact hx
    · simp [ih]

theorem uniq_nodup (l : List Nat) : (uniq l).Nodup := by
  induction l with
  | nil => simp [uniq]
  | cons a l ih =>
    unfold uniq
    split
    · exact ih
    · rename_i h
      exact List.nodup_cons.2 ⟨fun hx => h ((uniq_mem l a).1 hx), ih⟩

/-- a signer list with at least q distinct committee members yields a committee subset of at least q members, all listed -/
theorem quorum_set (P : Params) (l : List Nat) (q : Nat) (hc : ∀ s ∈ l, s ∈ P.committee) (hq : q ≤ uniqueCount l) :
    ∃ S : Finset (Op P), q ≤ S.card ∧ ∀ j ∈ S, opId j ∈ l := by
  refine ⟨((uniq l).map (toOp P)).toFinset, ?_, ?_⟩
  · have hnd : ((uniq l).map (toOp P)).Nodup := by
      apply List.Nodup.map_on _ (uniq_nodup l)
      intro a ha b hb hab
      have ha' := hc a ((uniq_mem l a).1 ha)
      have hb' := hc b ((uniq_mem l b).1 hb)
      rw [← opId_toOp P a ha', ← opId_toOp P b hb', hab]
    rw [List.toFinset_card_of_nodup hnd, List.length_map]
    exact hq
  · intro j hj
    simp only [List.mem_toFinset, List.mem_map] at hj
    obtain ⟨a, ha, rfl⟩ := hj
    have ha' := (uniq_mem l a).1 ha
    rw [opId_toOp P a (hc a ha')]
    exact ha'

end Ssv.Qbft.B
