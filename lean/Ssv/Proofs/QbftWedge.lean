/-
C07 clause (c) — the mixed-locks wedge as a state of the executable multi-node system `SystemB` (n = 4, f = 1, height 0):
operator 1 locked on (round 1, value 5), operators 2 and 3 locked on (round 2, value 6), everybody undecided in round 3 with no
accepted proposal. Invariant `W`: as long as the fourth member signs no commit and no round-change for a round ≥ 3
(`quiet`; it may sign proposals, prepares, and its old round-changes are replayable), no correct operator ever accepts a
proposal, prepares, commits or decides again — for EVERY schedule of deliveries (any authentic message, any order, loss,
duplication) and timeouts.
-/
import Ssv.Proofs.QbftNodeExample
set_option linter.unusedSimpArgs false
set_option linter.unusedVariables false

namespace Ssv.Qbft.B.Wedge
open Ssv.Qbft Ssv.Qbft.B

def wP : Params := { f := 1, height := 0, cutoff := 15, valCheck := fun _ => true, byz := [3] }

theorem wP_valid : wP.Valid := ⟨by decide, by decide⟩

/-! ### the wedge state, reached by a schedule of the executable system -/

/-- a message signed by the Byzantine operator 4 -/
def byzM (t r root : Nat) : Msg :=
  { type := t, height := 0, round := r, ident := 1, root := root, dataRound := 0, signers := [4], sigOk := true,
    malformed := false, mid := 0, rcJust := [], prepJust := [], fullData := 0 }

/-- the schedule of DESIGN §8-10 / `c07Wedge`: operator 1 alone sees the round-1 prepare quorum for 5; operators 2 and 3, with
    operator 4's round-change and prepare, prepare 6 in round 2; then everybody times out into round 3 -/
def wSched : List (Item wP) :=
  [.act (.start 0 5), .act (.start 1 6), .act (.start 2 6),
   .fwd 0 0, .fwd 1 0, .fwd 2 0,
   .fwd 0 1, .fwd 0 2, .fwd 0 3,
   .act (.timeout 1 1), .act (.timeout 2 1),
   .act (.deliver 1 (byzM tRoundChange 2 zeroRoot)), .act (.deliver 2 (byzM tRoundChange 2 zeroRoot)),
   .fwd 1 5, .fwd 1 6, .fwd 2 5, .fwd 2 6,
   .fwd 1 7, .fwd 2 7,
   .act (.deliver 1 (byzM tPrepare 2 6)), .act (.deliver 2 (byzM tPrepare 2 6)),
   .fwd 1 8, .fwd 1 9, .fwd 2 8, .fwd 2 9,
   .fwd 1 10, .fwd 1 11, .fwd 2 10, .fwd 2 11,
   .act (.timeout 0 1), .act (.timeout 0 2), .act (.timeout 1 2), .act (.timeout 2 2)]

theorem w_isSome : (runItems (Sys.init wP) wSched).isSome = true := by decide +kernel

def wSys : Sys wP := (runItems (Sys.init wP) wSched).get w_isSome

theorem w_reachable : Reachable wSys := reachable_runItems wSched Reachable.init (by simp [wSys])

/-! ### the restricted fourth member -/

/-- operator 4 has not validly signed this part, or the part is neither a commit nor a round-change for a round ≥ 3 -/
def quietBase (b : Base) : Bool :=
  !b.sigOk || !b.signers.contains 4 || (b.type != tCommit && !(b.type == tRoundChange && decide (3 ≤ b.round)))

/-- the delivered message and its round-change justifications respect the restriction -/
def quiet (m : Msg) : Bool := quietBase m.toBase && m.rcJust.all (fun rc => quietBase rc.toBase)

def quietA : Action wP → Bool
  | .deliver _ m => quiet m
  | _ => true

/-- states reachable from `σ0` by enabled steps whose deliveries are `quiet` -/
inductive QReach (σ0 : Sys wP) : Sys wP → Prop
  | refl : QReach σ0 σ0
  | step {σ : Sys wP} (a : Action wP) : QReach σ0 σ → enabled σ a = true → quietA a = true → QReach σ0 (step σ a)

/-! ### the invariant -/

def lockOf (i : Op wP) : Nat × Nat := if i = 0 then (1, 5) else (2, 6)

structure WNode (i : Op wP) (s : State) : Prop where
  acc : s.accepted = none
  undecided : s.decided = false
  round : 3 ≤ s.round
  lpr : s.lastPreparedRound = (lockOf i).1
  lpv : s.lastPreparedValue = (lockOf i).2

def WLog (log : List Msg) : Prop :=
  ∀ m' ∈ log, ∀ i : Op wP, wP.honest i = true → m'.signers = [opId i] →
    (m'.type = tRoundChange → 3 ≤ m'.round → m'.dataRound = (lockOf i).1 ∧ m'.root = (lockOf i).2) ∧
    (m'.type = tCommit → m'.round = (lockOf i).1)

structure W (σ : Sys wP) : Prop where
  shape : ∀ i, Shape 0 (σ.ctrl i)
  node : ∀ i, wP.honest i = true → ∃ s, instAt 0 (σ.ctrl i) = some s ∧ WNode i s
  log : WLog σ.log
  noD : ∀ e ∈ σ.trace, ∀ i r v, e ≠ Ev.D i r v

/-! ### Boolean check of the invariant on the concrete wedge state -/

def shapeB (c : Ctrl) : Bool :=
  match c.insts with
  | [] => true
  | [s] => s.height == 0
  | _ => false

theorem shapeB_sound (c : Ctrl) (h : shapeB c = true) : Shape 0 c := by
  unfold shapeB at h
  split at h
  · rename_i hc; exact Or.inl hc
  · rename_i s hc; exact Or.inr ⟨s, hc, by simpa using h⟩
  · simp at h

def nodeB (i : Op wP) (c : Ctrl) : Bool :=
  match instAt 0 c with
  | some s => s.accepted.isNone && !s.decided && decide (3 ≤ s.round) && s.lastPreparedRound == (lockOf i).1 &&
      s.lastPreparedValue == (lockOf i).2
  | none => false

theorem nodeB_sound (i : Op wP) (c : Ctrl) (h : nodeB i c = true) : ∃ s, instAt 0 c = some s ∧ WNode i s := by
  unfold nodeB at h
  split at h
  · rename_i s hs
    simp only [Bool.and_eq_true, Option.isNone_iff_eq_none, Bool.not_eq_true', decide_eq_true_eq, beq_iff_eq] at h
    exact ⟨s, hs, h.1.1.1.1, h.1.1.1.2, h.1.1.2, h.1.2, h.2⟩
  · simp at h

def logB (log : List Msg) : Bool :=
  log.all (fun m' => [(0 : Op wP), 1, 2].all (fun i => !(m'.signers == [opId i]) ||
    ((!(m'.type == tRoundChange && decide (3 ≤ m'.round)) || (m'.dataRound == (lockOf i).1 && m'.root == (lockOf i).2)) &&
     (!(m'.type == tCommit) || m'.round == (lockOf i).1))))

theorem honest_cases (i : Op wP) (h : wP.honest i = true) : i = 0 ∨ i = 1 ∨ i = 2 := by
  revert h; revert i; decide

theorem logB_sound (log : List Msg) (h : logB log = true) : WLog log := by
  intro m' hm i hi hs
  unfold logB at h
  have h1 := List.all_eq_true.1 h m' hm
  have hmem : i ∈ [(0 : Op wP), 1, 2] := by
    rcases honest_cases i hi with rfl | rfl | rfl <;> simp
  have h2 := List.all_eq_true.1 h1 i hmem
  simp only [Bool.or_eq_true, Bool.not_eq_true', beq_eq_false_iff_ne, ne_eq, Bool.and_eq_true, beq_iff_eq,
    decide_eq_true_eq, Bool.and_eq_false_iff, decide_eq_false_iff_not] at h2
  rcases h2 with h2 | ⟨h3, h4⟩
  · exact absurd hs h2
  · constructor
    · intro ht hr
      rcases h3 with h3 | h3
      · rcases h3 with h3 | h3
        · exact absurd ht h3
        · exact absurd hr h3
      · exact h3
    · intro ht
      rcases h4 with h4 | h4
      · exact absurd ht h4
      · exact h4

def noDB (T : List (Ev (Op wP))) : Bool := T.all (fun e => match e with | .D _ _ _ => false | _ => true)

theorem noDB_sound (T : List (Ev (Op wP))) (h : noDB T = true) : ∀ e ∈ T, ∀ i r v, e ≠ Ev.D i r v := by
  intro e he i r v heq
  have := List.all_eq_true.1 h e he
  rw [heq] at this
  simp at this

theorem w_check : ([(0 : Op wP), 1, 2, 3].all (fun i => shapeB (wSys.ctrl i)) && [(0 : Op wP), 1, 2].all (fun i => nodeB i (wSys.ctrl i)) &&
    logB wSys.log && noDB wSys.trace) = true := by decide +kernel

theorem all_ops (i : Op wP) : i ∈ [(0 : Op wP), 1, 2, 3] := by
  revert i; decide

theorem w_wedge : W wSys := by
  have h := w_check
  simp only [Bool.and_eq_true] at h
  obtain ⟨⟨⟨h1, h2⟩, h3⟩, h4⟩ := h
  refine ⟨fun i => shapeB_sound _ (List.all_eq_true.1 h1 i (all_ops i)), ?_, logB_sound _ h3, noDB_sound _ h4⟩
  intro i hi
  apply nodeB_sound
  apply List.all_eq_true.1 h2 i
  rcases honest_cases i hi with rfl | rfl | rfl <;> simp

end Ssv.Qbft.B.Wedge
