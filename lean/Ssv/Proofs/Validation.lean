/-
Helper lemmas for the message-validation model (C08, C09, C10). Core Lean only.
-/
import Ssv.Model.Validation
import Ssv.Proofs.Kernels

namespace Ssv.Validation
open Ssv

/-! ## generated constants as rewrite rules -/

@[simp] theorem g_roleAtt : Gen.val_BNRoleAttester = 0 := rfl
@[simp] theorem g_roleAgg : Gen.val_BNRoleAggregator = 1 := rfl
@[simp] theorem g_roleProp : Gen.val_BNRoleProposer = 2 := rfl
@[simp] theorem g_roleSC : Gen.val_BNRoleSyncCommittee = 3 := rfl
@[simp] theorem g_roleSCC : Gen.val_BNRoleSyncCommitteeContribution = 4 := rfl
@[simp] theorem g_roleVR : Gen.val_BNRoleValidatorRegistration = 5 := rfl
@[simp] theorem g_roleVE : Gen.val_BNRoleVoluntaryExit = 6 := rfl
@[simp] theorem g_tProposal : Gen.val_ProposalMsgType = 0 := rfl
@[simp] theorem g_tPrepare : Gen.val_PrepareMsgType = 1 := rfl
@[simp] theorem g_tCommit : Gen.val_CommitMsgType = 2 := rfl
@[simp] theorem g_tRC : Gen.val_RoundChangeMsgType = 3 := rfl
@[simp] theorem g_noRound : Gen.val_NoRound = 0 := rfl
@[simp] theorem g_firstRound : Gen.val_FirstRound = 1 := rfl
@[simp] theorem g_firstHeight : Gen.val_FirstHeight = 0 := rfl
@[simp] theorem g_pPost : Gen.val_PostConsensusPartialSig = 0 := rfl
@[simp] theorem g_pRandao : Gen.val_RandaoPartialSig = 1 := rfl
@[simp] theorem g_pSel : Gen.val_SelectionProofPartialSig = 2 := rfl
@[simp] theorem g_pContrib : Gen.val_ContributionProofs = 3 := rfl
@[simp] theorem g_pVR : Gen.val_ValidatorRegistrationPartialSig = 4 := rfl
@[simp] theorem g_pVE : Gen.val_VoluntaryExitPartialSig = 5 := rfl
@[simp] theorem g_sigSize : Gen.val_signatureSize = 96 := rfl
@[simp] theorem g_maxDuties : Gen.val_maxDutiesPerEpoch = 2 := rfl
@[simp] theorem g_lateAllow : Gen.val_lateSlotAllowance = 2 := rfl
@[simp] theorem g_future : Gen.val_allowedRoundsInFuture = 1 := rfl
@[simp] theorem g_quickThr : Gen.val_QuickTimeoutThreshold = 8 := rfl
@[simp] theorem g_quick : Gen.val_QuickTimeout = 2000000000 := rfl
@[simp] theorem g_slow : Gen.val_SlowTimeout = 120000000000 := rfl
@[simp] theorem g_margin : Gen.val_lateMessageMargin = 3000000000 := rfl
@[simp] theorem g_tol : Gen.val_clockErrorTolerance = 50000000 := rfl
@[simp] theorem g_maxMsg : Gen.val_maxMessageSize = 8388608 := rfl
@[simp] theorem g_maxCons : Gen.val_maxConsensusMsgSize = 8388608 := rfl
@[simp] theorem g_maxPart : Gen.val_maxPartialSignatureMsgSize = 1952 := rfl

/-! ## sequential checks -/

theorem firstFail_nil : firstFail [] = ok := rfl
theorem firstFail_cons_ok (cs : List Chk) : firstFail (.ok () :: cs) = firstFail cs := rfl
theorem firstFail_cons_err (e : Fail) (cs : List Chk) : firstFail (.error e :: cs) = .error e := rfl

theorem firstFail_cons (c : Chk) (cs : List Chk) :
    firstFail (c :: cs) = match c with | .ok _ => firstFail cs | .error e => .error e := by
  cases c <;> rfl

/-- all checks passed iff every single one passed -/
theorem firstFail_ok_iff (cs : List Chk) : firstFail cs = .ok () ↔ ∀ c ∈ cs, c = .ok () := by
  induction cs with
  | nil => simp [firstFail, ok]
  | cons c cs ih =>
    cases c with
    | ok u => cases u; simp [firstFail, ih]
    | error e => simp [firstFail]

theorem firstFail_append (as bs : List Chk) :
    firstFail (as ++ bs) = match firstFail as with | .ok _ => firstFail bs | .error e => .error e := by
  induction as with
  | nil => simp [firstFail, ok]
  | cons c cs ih =>
    cases c with
    | ok u => cases u; simpa [firstFail] using ih
    | error e => simp [firstFail]

/-- a failing sequence fails with the error of one of its members -/
theorem firstFail_error_mem (cs : List Chk) (e : Fail) (h : firstFail cs = .error e) : Except.error e ∈ cs := by
  induction cs with
  | nil => simp [firstFail, ok] at h
  | cons c cs ih =>
    cases c with
    | ok u => simp [firstFail] at h; exact List.mem_cons_of_mem _ (ih h)
    | error e' => simp [firstFail] at h; subst h; exact List.mem_cons_self

theorem rejectIf_ok_iff (c : Bool) (t : Tag) : rejectIf c t = .ok () ↔ c = false := by
  cases c <;> simp [rejectIf, ok, failT]

theorem rejectIf_error (c : Bool) (t : Tag) (e : Fail) (h : rejectIf c t = .error e) : e = .tag t ∧ c = true := by
  cases c <;> simp [rejectIf, ok, failT] at h ⊢; exact h.symm

/-! ## no-panic bookkeeping -/

def NoPanic (c : Chk) : Prop := ∀ s, c ≠ .error (.panic s)

def NoPanicSeq : List Chk → Prop
  | [] => True
  | c :: cs => NoPanic c ∧ (c = .ok () → NoPanicSeq cs)

theorem noPanic_ok : NoPanic ok := by intro s h; cases h
theorem noPanic_okv : NoPanic (.ok ()) := by intro s h; cases h
theorem noPanic_failT (t : Tag) : NoPanic (failT t) := by intro s h; cases h
theorem noPanic_tag (t : Tag) : NoPanic (.error (.tag t)) := by intro s h; cases h
theorem noPanic_rejectIf (c : Bool) (t : Tag) : NoPanic (rejectIf c t) := by
  cases c <;> simp [rejectIf, noPanic_ok, noPanic_failT]

theorem firstFail_noPanic (cs : List Chk) (h : NoPanicSeq cs) : NoPanic (firstFail cs) := by
  induction cs with
  | nil => exact noPanic_ok
  | cons c cs ih =>
    cases c with
    | ok u => cases u; exact ih (h.2 rfl)
    | error e => intro s hs; simp [firstFail] at hs; exact h.1 s (by rw [hs])

theorem noPanicSeq_of_all (cs : List Chk) (h : ∀ c ∈ cs, NoPanic c) : NoPanicSeq cs := by
  induction cs with
  | nil => trivial
  | cons c cs ih => exact ⟨h c List.mem_cons_self, fun _ => ih (fun c' hc' => h c' (List.mem_cons_of_mem _ hc'))⟩

theorem noPanicSeq_append (as bs : List Chk) (ha : NoPanicSeq as) (hb : (∀ c ∈ as, c = .ok ()) → NoPanicSeq bs) :
    NoPanicSeq (as ++ bs) := by
  induction as with
  | nil => exact hb (by simp)
  | cons c cs ih =>
    refine ⟨ha.1, fun hc => ih (ha.2 hc) (fun hall => hb ?_)⟩
    intro c' hc'
    rcases List.mem_cons.mp hc' with h | h
    · rw [h]; exact hc
    · exact hall c' h

/-! ## enums dominate the panicking switches -/

theorem validRole_iff (r : Nat) : validRole r = true ↔ r ≤ 6 := by
  simp only [validRole, g_roleAtt, g_roleAgg, g_roleProp, g_roleSC, g_roleSCC, g_roleVR, g_roleVE, Bool.or_eq_true, beq_iff_eq]
  constructor <;> intro h <;> omega

theorem validQBFT_iff (t : Nat) : validQBFTMsgType t = true ↔ t ≤ 3 := by
  simp only [validQBFTMsgType, g_tProposal, g_tPrepare, g_tCommit, g_tRC, Bool.or_eq_true, beq_iff_eq]
  constructor <;> intro h <;> omega

theorem validPartial_iff (t : Nat) : validPartialSigMsgType t = true ↔ t ≤ 5 := by
  simp only [validPartialSigMsgType, g_pPost, g_pRandao, g_pSel, g_pContrib, g_pVR, g_pVE, Bool.or_eq_true, beq_iff_eq]
  constructor <;> intro h <;> omega

theorem le6_cases (r : Nat) (h : r ≤ 6) : r = 0 ∨ r = 1 ∨ r = 2 ∨ r = 3 ∨ r = 4 ∨ r = 5 ∨ r = 6 := by omega

theorem maxRound_of_validRole (r : Nat) (h : validRole r = true) : ∃ mx, maxRound r = .ok mx ∧ mx ≤ 12 := by
  rcases le6_cases r ((validRole_iff r).mp h) with h | h | h | h | h | h | h <;> subst h <;> simp [maxRound]

theorem maxRound_panics_only_unknown (r : Nat) (s : PanicSite) (h : maxRound r = .error (.panic s)) : validRole r = false := by
  cases hv : validRole r with
  | false => rfl
  | true =>
    obtain ⟨mx, hmx, _⟩ := maxRound_of_validRole r hv
    rw [hmx] at h; cases h

theorem partialTypeMatchesRole_of_validRole (t r : Nat) (h : validRole r = true) : ∃ b, partialTypeMatchesRole t r = .ok b := by
  rcases le6_cases r ((validRole_iff r).mp h) with h | h | h | h | h | h | h <;> subst h <;> simp [partialTypeMatchesRole]

theorem partialTypeMatchesRole_panics_only_unknown (t r : Nat) (s : PanicSite)
    (h : partialTypeMatchesRole t r = .error (.panic s)) : validRole r = false := by
  cases hv : validRole r with
  | false => rfl
  | true =>
    obtain ⟨b, hb⟩ := partialTypeMatchesRole_of_validRole t r hv
    rw [hb] at h; cases h

theorem le3_cases (r : Nat) (h : r ≤ 3) : r = 0 ∨ r = 1 ∨ r = 2 ∨ r = 3 := by omega

theorem countsValidate_noPanic (c : Counts) (m : QMsg) (n : Nat) (h : validQBFTMsgType m.mtype = true) :
    NoPanic (countsValidate c m n) := by
  unfold countsValidate
  rcases le3_cases _ ((validQBFT_iff _).mp h) with h | h | h | h <;> simp [h]
  · exact noPanic_rejectIf _ _
  · exact noPanic_rejectIf _ _
  · exact firstFail_noPanic _ (noPanicSeq_of_all _ (by
      intro c' hc'; simp at hc'; rcases hc' with h' | h' <;> subst h' <;> exact noPanic_rejectIf _ _))
  · exact noPanic_rejectIf _ _

theorem countsRecord_ok (c : Counts) (m : QMsg) (h : validQBFTMsgType m.mtype = true) (hs : m.signers ≠ []) :
    ∃ c', countsRecord c m = .ok c' := by
  unfold countsRecord
  rcases le3_cases _ ((validQBFT_iff _).mp h) with h | h | h | h <;> simp [h]
  have : 0 < m.signers.length := List.length_pos_iff.mpr hs
  by_cases h1 : m.signers.length = 1
  · simp [h1]
  · have : 1 < m.signers.length := by omega
    simp [h1, this]

theorem isPre_or_post_of_valid (t : Nat) (h : validPartialSigMsgType t = true) :
    isPreConsensusType t = true ∨ t = 0 := by
  have := (validPartial_iff t).mp h
  simp only [isPreConsensusType, g_pRandao, g_pSel, g_pContrib, g_pVR, g_pVE, Bool.or_eq_true, beq_iff_eq]
  omega

theorem countsValidatePartial_noPanic (c : Counts) (t : Nat) (h : validPartialSigMsgType t = true) :
    NoPanic (countsValidatePartial c t) := by
  unfold countsValidatePartial
  by_cases hp : isPreConsensusType t = true
  · simp [hp]; exact noPanic_rejectIf _ _
  · rcases isPre_or_post_of_valid t h with h | h
    · exact absurd h hp
    · subst h; simp [isPreConsensusType]; exact noPanic_rejectIf _ _

theorem countsRecordPartial_ok (c : Counts) (t : Nat) (h : validPartialSigMsgType t = true) :
    ∃ c', countsRecordPartial c t = .ok c' := by
  unfold countsRecordPartial
  by_cases hp : isPreConsensusType t = true
  · simp [hp]
  · rcases isPre_or_post_of_valid t h with h | h
    · exact absurd h hp
    · subst h; simp [isPreConsensusType]

/-! ## Go integer conversions -/

theorem wrapI64_range (x : Int) : -two63 ≤ wrapI64 x ∧ wrapI64 x < two63 := by
  unfold wrapI64 two63 two64; omega

theorem wrapI64_id (x : Int) (h0 : -two63 ≤ x) (h1 : x < two63) : wrapI64 x = x := by
  unfold wrapI64 two63 two64 at *; omega

theorem wrapU64_id (x : Int) (h0 : 0 ≤ x) (h1 : x < two64) : wrapU64 x = x := by
  unfold wrapU64 two64 at *; omega

theorem wrapU64_range (x : Int) : 0 ≤ wrapU64 x ∧ wrapU64 x < two64 := by
  unfold wrapU64 two64; omega

theorem toInt64_eq_gen (x : Nat) (h : (x : Int) < two64) : toInt64 x = Gen.toInt64 x := by
  unfold toInt64 wrapI64 Gen.toInt64 two63 two64 at *
  split <;> omega

/-! ## the leader index -/

/-- the wrap-exact index expression of the model equals the kernel translated from the Go source
    wherever no intermediate sum leaves the int64 range -/
theorem leaderIndex_eq_kernel (n h r : Nat) (hn : 0 < n) (hn' : (n : Int) < 4611686018427387904)
    (hh : (h : Int) < two64) (hr : (r : Int) < 4611686018427387904) :
    leaderIndex n h r = Gen.k_RoundRobinProposerIndex r h n := by
  have e1 : toInt64 h = Gen.toInt64 h := toInt64_eq_gen h hh
  have e2 : toInt64 r = (r : Int) := by
    rw [toInt64_eq_gen r (by unfold two64; omega)]
    exact Gen.toInt64_of_lt _ (by omega) (by omega)
  have e3 : Gen.toInt64 (r : Int) = r := Gen.toInt64_of_lt _ (by omega) (by omega)
  have hnI : (0 : Int) < n := by omega
  have b1 : -(n : Int) < Int.tmod (Gen.toInt64 h) n := by
    have := Int.tmod_lt_of_pos (-(Gen.toInt64 (h : Int))) hnI
    have h2 : Int.tmod (-(Gen.toInt64 (h : Int))) n = -(Int.tmod (Gen.toInt64 h) n) := Int.neg_tmod _ _
    omega
  have b2 : Int.tmod (Gen.toInt64 h) n < n := Int.tmod_lt_of_pos _ hnI
  have w : ∀ F : Int, -(n : Int) < F → F < n →
      wrapI64 (wrapI64 (F + (r : Int)) - 1) = F + (r : Int) - 1 := by
    intro F f1 f2
    rw [wrapI64_id (F + r) (by unfold two63; omega) (by unfold two63; omega)]
    exact wrapI64_id _ (by unfold two63; omega) (by unfold two63; omega)
  unfold leaderIndex Gen.k_RoundRobinProposerIndex goMod
  rw [e1, e2, e3]
  simp only [g_firstHeight, g_firstRound]
  by_cases h0 : h = 0
  · subst h0
    have : wrapI64 (wrapI64 ((0 : Int) + (r : Int)) - 1) = 0 + (r : Int) - 1 := w 0 (by omega) (by omega)
    simp only [Int.zero_add] at this
    simp [this]
  · have hb : (h != 0) = true := by simp [h0]
    have hd : decide ((h : Int) ≠ 0) = true := by simp; omega
    have := w (Int.tmod (Gen.toInt64 h) n) b1 b2
    simp only [hb, hd, if_true, Int.zero_add]
    rw [show (((1 : Nat) : Int)) = 1 from rfl, this]

/-- whenever validation computes it (round 1..12, slot inside the window: below 2^63) the index is a valid committee index -/
theorem leaderIndex_in_range (n h r : Nat) (hn : 0 < n) (hn' : n < 2147483648) (hh : (h : Int) < two63)
    (hr1 : 1 ≤ r) (hr2 : r ≤ 12) : 0 ≤ leaderIndex n h r ∧ leaderIndex n h r < n := by
  rw [leaderIndex_eq_kernel n h r hn (by omega) (by unfold two63 two64 at *; omega) (by omega)]
  exact Ssv.Kernels.leader_index_in_range r h n (by omega) (by omega) (by omega) (by omega) (by unfold two63 at hh; omega)

theorem roundRobinProposer_ok (com : List Nat) (h r : Nat) (hn : 0 < com.length) (hn' : com.length < 2147483648)
    (hh : (h : Int) < two63) (hr1 : 1 ≤ r) (hr2 : r ≤ 12) :
    ∃ op, roundRobinProposer com h r = .ok op ∧ op ∈ com := by
  obtain ⟨i0, i1⟩ := leaderIndex_in_range com.length h r hn hn' hh hr1 hr2
  unfold roundRobinProposer
  have hl : ¬ (com.length = 0) := by omega
  simp only [hl, if_false]
  have : ¬ (leaderIndex com.length h r < 0) := by omega
  simp only [this, if_false]
  have hlt : (leaderIndex com.length h r).toNat < com.length := by omega
  rw [List.getElem?_eq_getElem hlt]
  exact ⟨_, rfl, List.getElem_mem _⟩

/-! ## concrete objects shared by the examples / witnesses of the property files -/

/-- an active validator with a committee of four -/
def share4 : Share :=
  { committee := [1, 2, 3, 4], quorum := 3, liquidated := false, hasMeta := true, statusAttesting := true,
    pendingQueued := false, activationEpoch := 0, index := 123 }
/-- the Prater / test network constants -/
def praterCfg : NetCfg := { genesis := 1616508000, slotDur := 12, slotsPerEpoch := 32, epochsPerPeriod := 256, permissionlessEpoch := 0 }
def ctx0 : Ctx := { cfg := praterCfg, duties := { proposer := [], sync := [] } }
/-- a consensus message `m` for the attester role of validator 1, received at unix time `unixNow`, before the fork -/
def inputAt (m : QMsg) (unixNow : Int) : Input :=
  { vid := 1, role := 0, dataLen := 300, domainOk := true, pkOk := true, share := some share4, body := .consensus m,
    envSig := .none, now := GoTime.unix unixNow, wallEpoch := 1000 }

end Ssv.Validation
