/-
C10 emission bridge, part 2 — what the instance functions of the node model (`processMsg`, `uponRoundTimeout`, `start`)
hand to `Instance.Broadcast`, and what `Controller.broadcastDecided` sends: an exact case list (`Emit`), the structural
clauses per case, and `HonestInst` / `HonestDecided` for every output, from a pre-state that satisfies the instance
invariant (`InstInv`, round ≥ 1, commit container without justification fields).

The one place where a hypothesis about TIMING enters is the justified proposal of `uponRoundChange`: the node checks the
justification (and its own leadership) for the round of the TRIGGERING round-change, but creates the proposal with
`Round = State.Round` and the round-changes of `State.Round`. `RcQuorumInRound` — "a round-change quorum for round r
never completes while `State.Round < r`" — is exactly what makes the two coincide.
-/
import Ssv.Proofs.EmissionBridge
import Ssv.Proofs.QbftNodeStep
set_option linter.unusedSimpArgs false
set_option linter.unusedVariables false

namespace Ssv.Emission
open Ssv Ssv.Qbft Ssv.Qbft.B

/-! ## outputs -/

theorem mem_bcasts (l : List Out) (x : Msg) : x ∈ bcasts l ↔ Out.bcast x ∈ l := by
  induction l with
  | nil => simp [bcasts]
  | cons o rest ih => cases o <;> simp [bcasts, ih]

/-! ## own messages -/

theorem honestInst_plain (cfg : Cfg) (t h r root : Nat) (ht : t = tPrepare ∨ t = tCommit) (hr : 1 ≤ r) :
    HonestInst cfg (ownMsg cfg t h r root noRound [] [] 0) where
  signer := rfl
  ident := rfl
  type := by
    rcases ht with h | h <;> subst h
    · show tPrepare ≤ tRoundChange; decide
    · show tCommit ≤ tRoundChange; decide
  round := hr
  wellFormed := rfl
  root := by intro h; exact absurd rfl h
  prepJustOnlyProposal := by intro h; exact absurd rfl h
  rcJustOnlyProposalRC := by intro h; exact absurd rfl h
  leader := by
    intro hp
    have hp' : t = tProposal := hp
    rcases ht with h | h <;> rw [h] at hp' <;> exact absurd hp' (by decide)
  justified := by
    intro hp
    have hp' : t = tProposal := hp
    rcases ht with h | h <;> rw [h] at hp' <;> exact absurd hp' (by decide)

theorem honestInst_createPrepare (cfg : Cfg) (s : State) (r root : Nat) (hr : 1 ≤ r) :
    HonestInst cfg (createPrepare cfg s r root) := honestInst_plain cfg _ _ _ _ (Or.inl rfl) hr

theorem honestInst_createCommit (cfg : Cfg) (s : State) (root : Nat) (hr : 1 ≤ s.round) :
    HonestInst cfg (createCommit cfg s root) := honestInst_plain cfg _ _ _ _ (Or.inr rfl) hr

theorem honestInst_createRoundChange (cfg : Cfg) (s : State) (R : Nat) (hR : 1 ≤ R) :
    HonestInst cfg (createRoundChange cfg s R) := by
  have hne : tRoundChange ≠ tProposal := by decide
  unfold createRoundChange
  split
  · exact
      { signer := rfl, ident := rfl, type := Nat.le_refl _, round := hR, wellFormed := rfl, root := fun _ => rfl,
        prepJustOnlyProposal := by intro h; exact absurd rfl h,
        rcJustOnlyProposalRC := fun _ => Or.inr rfl,
        leader := by intro hp; exact absurd hp hne,
        justified := by intro hp; exact absurd hp hne }
  · exact
      { signer := rfl, ident := rfl, type := Nat.le_refl _, round := hR, wellFormed := rfl, root := by intro h; exact absurd rfl h,
        prepJustOnlyProposal := by intro h; exact absurd rfl h,
        rcJustOnlyProposalRC := fun _ => Or.inr rfl,
        leader := by intro hp; exact absurd hp hne,
        justified := by intro hp; exact absurd hp hne }

theorem honestInst_createProposal (cfg : Cfg) (s : State) (v : Nat) (rcs : List Msg) (preps : List Lvl1)
    (hr : 1 ≤ s.round) (hl : cfg.proposer s.height s.round = some cfg.own)
    (hj : isProposalJustification cfg s.height (rcs.map Msg.toLvl1) (preps.map (·.toBase)) s.height s.round v = .ok ()) :
    HonestInst cfg (createProposal cfg s v rcs preps) where
  signer := rfl
  ident := rfl
  type := by show tProposal ≤ tRoundChange; decide
  round := hr
  wellFormed := rfl
  root := fun _ => rfl
  prepJustOnlyProposal := fun _ => rfl
  rcJustOnlyProposalRC := fun _ => Or.inl rfl
  leader := fun _ => hl
  justified := fun _ => hj

/-! ## the round-change clause: prepared data iff the instance is locked, with a consistent justification -/

theorem signersOfL_map_toLvl1 (l : List Msg) : signersOfL (l.map Msg.toLvl1) = signersOf l := by
  induction l with
  | nil => rfl
  | cons a rest ih =>
    simp only [signersOfL, signersOf, List.map_cons, List.flatMap_cons] at ih ⊢
    rw [ih]
    rfl

/-- `getRoundChangeJustification` returns nothing, or a quorum of stored prepares that are valid for
    (height, LastPreparedRound, hash(LastPreparedValue)) -/
theorem getRoundChangeJustification_spec (cfg : Cfg) (s : State) :
    getRoundChangeJustification cfg s = [] ∨
    (cfg.hasQuorum (signersOf (getRoundChangeJustification cfg s)) = true ∧
     ∀ pm ∈ getRoundChangeJustification cfg s, pm ∈ s.prepare ∧ pm.round = s.lastPreparedRound ∧
       validSignedPrepare cfg pm.toBase s.height s.lastPreparedRound (hashData s.lastPreparedValue) = .ok ()) := by
  unfold getRoundChangeJustification
  split
  · left; rfl
  · simp only
    split
    · left; rfl
    · rename_i hq
      right
      refine ⟨by simpa using hq, ?_⟩
      intro pm hpm
      have h1 := List.mem_filter.1 hpm
      have h2 := List.mem_filter.1 h1.1
      refine ⟨h2.1, by simpa using h2.2, ?_⟩
      have h3 := h1.2
      cases hv : validSignedPrepare cfg pm.toBase s.height s.lastPreparedRound (hashData s.lastPreparedValue) with
      | ok u => rfl
      | error e => rw [hv] at h3; simp [V.isOk] at h3

/-- CLAUSE (round change): type, round, height, single own signer, no prepare-justification field; it carries prepared
    data (prepared round, full data, root = hash(full data)) exactly when the instance is locked
    (`LastPreparedRound ≠ NoRound` and a prepared value), and then its justification is empty or a quorum of prepares for
    (LastPreparedRound, LastPreparedValue); otherwise: no prepared round, no full data, the zero root, no justification -/
theorem createRoundChange_clause (cfg : Cfg) (s : State) (R : Nat) :
    (createRoundChange cfg s R).type = tRoundChange ∧ (createRoundChange cfg s R).round = R ∧
    (createRoundChange cfg s R).height = s.height ∧ (createRoundChange cfg s R).signers = [cfg.own] ∧
    (createRoundChange cfg s R).prepJust = [] ∧
    (((s.lastPreparedRound ≠ noRound ∧ s.lastPreparedValue ≠ 0) ∧
        (createRoundChange cfg s R).dataRound = s.lastPreparedRound ∧
        (createRoundChange cfg s R).fullData = s.lastPreparedValue ∧
        (createRoundChange cfg s R).root = hashData s.lastPreparedValue ∧
        ((createRoundChange cfg s R).rcJust = [] ∨
         (cfg.hasQuorum (signersOfL (createRoundChange cfg s R).rcJust) = true ∧
          ∀ pm ∈ (createRoundChange cfg s R).rcJust,
            validSignedPrepare cfg pm.toBase s.height s.lastPreparedRound (hashData s.lastPreparedValue) = .ok ()))) ∨
     (¬ (s.lastPreparedRound ≠ noRound ∧ s.lastPreparedValue ≠ 0) ∧
        (createRoundChange cfg s R).dataRound = noRound ∧ (createRoundChange cfg s R).fullData = 0 ∧
        (createRoundChange cfg s R).root = zeroRoot ∧ (createRoundChange cfg s R).rcJust = [])) := by
  unfold createRoundChange
  split
  · rename_i hc
    simp only [Bool.and_eq_true, bne_iff_ne, ne_eq] at hc
    refine ⟨rfl, rfl, rfl, rfl, rfl, Or.inl ⟨hc, rfl, rfl, rfl, ?_⟩⟩
    show (getRoundChangeJustification cfg s).map Msg.toLvl1 = [] ∨ _
    rcases getRoundChangeJustification_spec cfg s with h | ⟨hq, hall⟩
    · left; rw [h]; rfl
    · right
      refine ⟨?_, ?_⟩
      · show cfg.hasQuorum (signersOfL ((getRoundChangeJustification cfg s).map Msg.toLvl1)) = true
        rw [signersOfL_map_toLvl1]; exact hq
      · intro pm hpm
        have hpm' : pm ∈ (getRoundChangeJustification cfg s).map Msg.toLvl1 := hpm
        obtain ⟨y, hy, rfl⟩ := List.mem_map.1 hpm'
        exact (hall y hy).2.2
  · rename_i hc
    simp only [Bool.and_eq_true, bne_iff_ne, ne_eq] at hc
    exact ⟨rfl, rfl, rfl, rfl, rfl, Or.inr ⟨hc, rfl, rfl, rfl, rfl⟩⟩

/-! ## `uponRoundChange`: the justified proposal -/

theorem isPJFLR_ok (cfg : Cfg) (s : State) (j : Msg) (rcs : List Msg) (v newRound : Nat)
    (h : isProposalJustificationForLeadingRound cfg s j rcs v newRound = .ok ()) :
    isProposalJustification cfg s.height (rcs.map Msg.toLvl1) (j.rcJust.map (·.toBase)) s.height j.round v = .ok () ∧
    cfg.proposer s.height j.round = some cfg.own ∧
    ((s.accepted = none ∧ s.round = newRound) ∨ s.round < newRound) := by
  unfold isProposalJustificationForLeadingRound at h
  simp only [bind_eq_ok, wrap_eq_ok] at h
  obtain ⟨_, h1, h2⟩ := h
  refine ⟨h1, ?_⟩
  split at h2
  · cases h2
  · rename_i leader hl
    simp only [bind_eq_ok, rejectIf_eq_ok] at h2
    obtain ⟨_, h3, h4⟩ := h2
    have hle : leader = cfg.own := by simpa using h3
    refine ⟨by rw [hl, hle], ?_⟩
    simp only [Bool.and_eq_false_iff, Bool.not_eq_false', Bool.and_eq_true, Option.isNone_iff_eq_none,
      beq_iff_eq, decide_eq_true_eq] at h4
    rcases h4 with ⟨a, b⟩ | c
    · exact Or.inl ⟨a, b⟩
    · exact Or.inr c

theorem findJustified_some (cfg : Cfg) (s : State) (trigger : Msg) (rcs : List Msg) :
    ∀ (l : List Msg) (j : Msg) (v : Nat), findJustified cfg s trigger rcs l = .ok (some (j, v)) →
      j ∈ l ∧ isProposalJustificationForLeadingRound cfg s j rcs v trigger.round = .ok () := by
  intro l
  induction l with
  | nil => intro j v h; simp [findJustified, pure, Except.pure] at h
  | cons a rest ih =>
    intro j v h
    unfold findJustified at h
    simp only at h
    split at h
    · rename_i hok
      simp only [pure, Except.pure, Except.ok.injEq, Option.some.injEq, Prod.mk.injEq] at h
      obtain ⟨rfl, rfl⟩ := h
      exact ⟨List.mem_cons_self, hok⟩
    · cases h
    · obtain ⟨h1, h2⟩ := ih j v h
      exact ⟨List.mem_cons_of_mem _ h1, h2⟩

/-- every message `uponRoundChange` hands to `Broadcast`: a proposal for `State.Round` whose justification was checked
    for the TRIGGER's round, or a round change for a higher round (partial quorum) -/
theorem uponRoundChange_bcast (cfg : Cfg) (s : State) (m x : Msg) (hx : x ∈ bcasts (uponRoundChange cfg s m).outs) :
    (∃ (j : Msg) (v : Nat),
        x = createProposal cfg { s with roundChange := (addFirst s.roundChange m).1 } v
              (forRound (addFirst s.roundChange m).1 s.round) j.rcJust ∧
        j ∈ forRound (addFirst s.roundChange m).1 m.round ∧
        cfg.hasQuorum (signersOf (forRound (addFirst s.roundChange m).1 m.round)) = true ∧
        isProposalJustificationForLeadingRound cfg { s with roundChange := (addFirst s.roundChange m).1 } j
          (forRound (addFirst s.roundChange m).1 m.round) v m.round = .ok ()) ∨
    (∃ R, s.round < R ∧ x = createRoundChange cfg s R) := by
  unfold uponRoundChange at hx
  simp only at hx
  split at hx
  · simp [okStep] at hx
  · split at hx
    · simp [okStep] at hx
    · split at hx
      · rename_i f _
        cases f <;> simp [failStep] at hx
      · rename_i justified value heq
        left
        rcases sendOr_bcasts cfg { s with roundChange := (addFirst s.roundChange m).1 } .bcastProposalFailed
          (createProposal cfg { s with roundChange := (addFirst s.roundChange m).1 } value
            (forRound (addFirst s.roundChange m).1 ({ s with roundChange := (addFirst s.roundChange m).1 } : State).round)
            justified.rcJust) [] with h | h
        · rw [h] at hx; simp at hx
        · rw [h] at hx
          simp at hx
          unfold hasReceivedProposalJustification at heq
          simp only at heq
          split at heq
          · simp [pure, Except.pure] at heq
          · rename_i hq
            obtain ⟨h1, h2⟩ := findJustified_some cfg _ m _ _ justified value heq
            exact ⟨justified, value, hx, h1, by simpa using hq, h2⟩
      · split at hx
        · split at hx
          · simp [okStep] at hx
          · rename_i hlt
            right
            obtain ⟨_, h2, _⟩ := partialQuorum_spec cfg { s with roundChange := (addFirst s.roundChange m).1 }
              (minRound (List.filter (fun x => Nat.blt s.round x.round) (addFirst s.roundChange m).1))
            have e := createRoundChange_congr cfg s { s with roundChange := (addFirst s.roundChange m).1 }
              (minRound (List.filter (fun x => Nat.blt s.round x.round) (addFirst s.roundChange m).1)) rfl rfl rfl rfl
            rw [e] at h2
            rcases h2 with h2 | h2
            · rw [h2] at hx; simp at hx
            · rw [h2] at hx
              simp at hx
              exact ⟨_, by simpa using hlt, hx⟩
        · simp [okStep] at hx

/-- `uponPrepare` broadcasts (a commit) only when the round had no prepare quorum before this message -/
theorem uponPrepare_bcast_before (cfg : Cfg) (s : State) (m x : Msg) (hx : x ∈ bcasts (uponPrepare cfg s m).outs) :
    cfg.hasQuorum (signersOf (forRound s.prepare s.round)) = false := by
  unfold uponPrepare at hx
  simp only at hx
  split at hx
  · simp [okStep] at hx
  · split at hx
    · simp [okStep] at hx
    · rename_i hb
      simpa using hb

/-! ## `ProcessMsg`: the exact list of what can be broadcast -/

/-- what `Instance.ProcessMsg(m)` from state `s` may hand to `Broadcast` -/
inductive Emit (cfg : Cfg) (s : State) (m : Msg) (x : Msg) : Prop
  /-- a prepare for the proposal `m` that has just been accepted -/
  | prepare (hv : isValidProposal cfg s m = .ok ()) (hx : x = createPrepare cfg s m.round (hashData m.fullData))
  /-- a commit for the accepted proposal `p`, on the step where the prepare quorum of the current round is FIRST reached -/
  | commit (p : Msg) (hacc : s.accepted = some p)
      (hb : cfg.hasQuorum (signersOf (forRound s.prepare s.round)) = false) (hx : x = createCommit cfg s p.root)
  /-- a round change for a higher round (f+1 round changes) -/
  | roundChange (R : Nat) (hR : s.round < R) (hx : x = createRoundChange cfg s R)
  /-- a proposal on a justified round-change quorum -/
  | proposal (j : Msg) (v : Nat) (ht : m.type = tRoundChange) (hbv : baseMsgValidation cfg s m = .ok ())
      (hx : x = createProposal cfg { s with roundChange := (addFirst s.roundChange m).1 } v
              (forRound (addFirst s.roundChange m).1 s.round) j.rcJust)
      (hj : j ∈ forRound (addFirst s.roundChange m).1 m.round)
      (hq : cfg.hasQuorum (signersOf (forRound (addFirst s.roundChange m).1 m.round)) = true)
      (hjust : isProposalJustificationForLeadingRound cfg { s with roundChange := (addFirst s.roundChange m).1 } j
          (forRound (addFirst s.roundChange m).1 m.round) v m.round = .ok ())

theorem processMsg_emit (cfg : Cfg) (s : State) (m x : Msg) (hx : x ∈ bcasts (processMsg cfg s m).outs) :
    Emit cfg s m x := by
  unfold processMsg at hx
  split at hx
  · simp at hx
  · cases hval : wrap Atom.invalidSigned (baseMsgValidation cfg s m) with
    | error f =>
      rw [hval] at hx
      cases f <;> simp [failStep] at hx
    | ok u =>
      have hbv : baseMsgValidation cfg s m = .ok u := by simpa using hval
      rw [hval] at hx
      simp only at hx
      by_cases h0 : m.type = tProposal
      · have e0 : (m.type == tProposal) = true := by rw [h0]; decide
        simp only [e0, if_true] at hx
        have hv := baseMsgValidation_proposal cfg s m u h0 hbv
        rcases uponProposal_spec cfg s m with ⟨_, b, _⟩ | ⟨_, _, c, _⟩
        · rw [b] at hx; simp at hx
        · rcases c with c | c
          · rw [c] at hx; simp at hx
          · rw [c] at hx; simp at hx; exact .prepare hv hx
      · have e0 : (m.type == tProposal) = false := by simpa using h0
        simp only [e0, Bool.false_eq_true, if_false] at hx
        by_cases h1 : m.type = tPrepare
        · have e1 : (m.type == tPrepare) = true := by rw [h1]; decide
          simp only [e1, if_true] at hx
          obtain ⟨p, hacc, hv⟩ := baseMsgValidation_prepare cfg s m u h1 hbv
          rcases uponPrepare_spec cfg s m p hacc with ⟨_, b, _⟩ | ⟨_, b, _⟩ | ⟨_, _, c, _⟩
          · rw [b] at hx; simp at hx
          · rw [b] at hx; simp at hx
          · rcases c with c | c
            · rw [c] at hx; simp at hx
            · have hbf := uponPrepare_bcast_before cfg s m x hx
              rw [c] at hx; simp at hx; exact .commit p hacc hbf hx
        · have e1 : (m.type == tPrepare) = false := by simpa using h1
          simp only [e1, Bool.false_eq_true, if_false] at hx
          by_cases h2 : m.type = tCommit
          · have e2 : (m.type == tCommit) = true := by rw [h2]; decide
            simp only [e2, if_true] at hx
            obtain ⟨p, hacc, hv⟩ := baseMsgValidation_commit cfg s m u h2 hbv
            rcases uponCommit_spec cfg s m p hacc with ⟨_, b, _⟩ | ⟨_, b, _⟩ | ⟨agg, _, _, _, b, _⟩
            · rw [b] at hx; simp at hx
            · rw [b] at hx; simp at hx
            · rw [b] at hx; simp at hx
          · have e2 : (m.type == tCommit) = false := by simpa using h2
            simp only [e2, Bool.false_eq_true, if_false] at hx
            split at hx
            · rename_i h3
              have h3' : m.type = tRoundChange := by simpa using h3
              rcases uponRoundChange_bcast cfg s m x hx with ⟨j, v, a, b, c, d⟩ | ⟨R, a, b⟩
              · exact .proposal j v h3' hbv a b c d
              · exact .roundChange R a b
            · simp at hx

/-! ## the timing hypothesis -/

/-- TIMING (DESIGN §7.10): when a (valid) round-change `m` completes a round-change quorum for its round, that round is
    not a FUTURE round of the instance — "messages arrive within the round". Stated on the step (pre-state `s`,
    delivered `m`); past-round and invalid round-changes are dropped by `BaseMsgValidation` and are not constrained. -/
def RcQuorumInRound (cfg : Cfg) (s : State) (m : Msg) : Prop :=
  m.type = tRoundChange → baseMsgValidation cfg s m = .ok () →
    cfg.hasQuorum (signersOf (forRound (addFirst s.roundChange m).1 m.round)) = true → m.round ≤ s.round

theorem forRound_round {c : Container} {r : Nat} {j : Msg} (h : j ∈ forRound c r) : j.round = r := by
  have := (List.mem_filter.1 h).2
  simpa using this

/-- every instance message of `ProcessMsg` is honest (structural form), under the timing hypothesis -/
theorem honestInst_of_emit (cfg : Cfg) (s : State) (m x : Msg) (hr : 1 ≤ s.round) (ht : RcQuorumInRound cfg s m)
    (he : Emit cfg s m x) : HonestInst cfg x := by
  cases he with
  | prepare hv hx =>
    rw [hx]
    apply honestInst_createPrepare
    rcases isValidProposal_state cfg s m () hv with ⟨_, h⟩ | h <;> omega
  | commit p hacc hb hx => rw [hx]; exact honestInst_createCommit cfg s p.root hr
  | roundChange R hR hx => rw [hx]; exact honestInst_createRoundChange cfg s R (by omega)
  | proposal j v htype hbv hx hj hq hjust =>
    obtain ⟨h1, h2, h3⟩ := isPJFLR_ok cfg _ j _ v m.round hjust
    have hle := ht htype hbv hq
    have hround : m.round = s.round := by
      rcases h3 with ⟨_, h⟩ | h
      · exact h.symm
      · have h' : s.round < m.round := h
        omega
    have hjr : j.round = s.round := by rw [forRound_round hj, hround]
    rw [hx]
    apply honestInst_createProposal
    · exact hr
    · show cfg.proposer s.height s.round = some cfg.own
      rw [← hjr]; exact h2
    · show isProposalJustification cfg s.height ((forRound (addFirst s.roundChange m).1 s.round).map Msg.toLvl1)
        (j.rcJust.map (·.toBase)) s.height s.round v = .ok ()
      rw [← hround]
      rw [forRound_round hj] at h1
      exact h1

/-- CLAUSE (prepare): the root of an emitted prepare is the root of the proposal that was accepted in this step -/
theorem emit_prepare_root (cfg : Cfg) (s : State) (m x : Msg) (he : Emit cfg s m x) (hp : x.type = tPrepare) :
    isValidProposal cfg s m = .ok () ∧ x.root = m.root ∧ x.round = m.round ∧ x.height = s.height ∧
    x.fullData = 0 ∧ x.rcJust = [] ∧ x.prepJust = [] := by
  cases he with
  | prepare hv hx =>
    subst hx
    exact ⟨hv, (isValidProposal_ok cfg s m () hv).hash, rfl, rfl, rfl, rfl, rfl⟩
  | commit p hacc hb hx => subst hx; exact absurd hp (by show tCommit ≠ tPrepare; decide)
  | roundChange R hR hx => subst hx; rw [createRoundChange_type] at hp; exact absurd hp (by decide)
  | proposal j v htype hbv hx hj hq hjust => subst hx; exact absurd hp (by show tProposal ≠ tPrepare; decide)

/-- CLAUSE (commit): the root of an emitted commit is the root of the accepted proposal; round = current round -/
theorem emit_commit_root (cfg : Cfg) (s : State) (m x : Msg) (he : Emit cfg s m x) (hp : x.type = tCommit) :
    ∃ p, s.accepted = some p ∧ x.root = p.root ∧ x.round = s.round ∧ x.height = s.height ∧
      x.fullData = 0 ∧ x.rcJust = [] ∧ x.prepJust = [] := by
  cases he with
  | prepare hv hx => subst hx; exact absurd hp (by show tPrepare ≠ tCommit; decide)
  | commit p hacc hb hx => subst hx; exact ⟨p, hacc, rfl, rfl, rfl, rfl, rfl, rfl⟩
  | roundChange R hR hx => subst hx; rw [createRoundChange_type] at hp; exact absurd hp (by decide)
  | proposal j v htype hbv hx hj hq hjust => subst hx; exact absurd hp (by show tProposal ≠ tCommit; decide)

/-! ## `UponRoundTimeout` and `Start` -/

theorem uponRoundTimeout_bcast (cfg : Cfg) (s : State) (x : Msg) (hx : x ∈ bcasts (uponRoundTimeout cfg s).outs) :
    x = createRoundChange cfg s (s.round + 1) := by
  by_cases hcp : canProcess cfg s = true
  · rw [uponRoundTimeout_progress cfg s hcp] at hx
    simpa [bcasts] using hx
  · have hc' : canProcess cfg s = false := by simpa using hcp
    unfold uponRoundTimeout at hx
    simp [hc', bcasts] at hx

theorem honestInst_timeout (cfg : Cfg) (s : State) (x : Msg) (hx : x ∈ bcasts (uponRoundTimeout cfg s).outs) :
    HonestInst cfg x := by
  rw [uponRoundTimeout_bcast cfg s x hx]
  exact honestInst_createRoundChange cfg s _ (by omega)

/-- `Start` broadcasts at most the round-1 proposal of the start value, and only when the node leads round 1 -/
theorem start_bcast (cfg : Cfg) (s : State) (v h : Nat) (x : Msg) (hx : x ∈ bcasts (start cfg s v h).outs) :
    x = createProposal cfg { s with started := true, startValue := v, round := firstRound, height := h } v [] [] ∧
    cfg.proposer h firstRound = some cfg.own := by
  unfold start at hx
  split at hx
  · simp [okStep] at hx
  · simp only at hx
    split at hx
    · simp [bcasts] at hx
    · rename_i leader hl
      split at hx
      · rename_i hown
        have hown' : leader = cfg.own := by simpa using hown
        split at hx
        · rename_i o ho
          have hb := broadcast_bcasts _ _ _ _ ho
          simp [okStep, bcasts_append, hb, bcasts] at hx
          exact ⟨hx, by rw [hl, hown']⟩
        · simp [okStep, bcasts] at hx
      · simp [okStep, bcasts] at hx

theorem honestInst_start (cfg : Cfg) (s : State) (v h : Nat) (hv : cfg.valOk v = true) (x : Msg)
    (hx : x ∈ bcasts (start cfg s v h).outs) : HonestInst cfg x := by
  obtain ⟨h1, h2⟩ := start_bcast cfg s v h x hx
  rw [h1]
  apply honestInst_createProposal
  · show 1 ≤ firstRound; decide
  · exact h2
  · show isProposalJustification cfg h [] [] h firstRound v = .ok ()
    unfold isProposalJustification
    simp [hv, rejectIf, pure, Except.pure, bind, Except.bind]

/-! ## the decided aggregate -/

/-- the commit container carries no justification fields and only decodable messages (what the peer's own validator
    lets through: `ErrUnexpected…Justifications`, `ErrMalformed…Justifications` are reject rules) -/
def CommitsPlain (s : State) : Prop := ∀ x ∈ s.commit, x.malformed = false ∧ x.rcJust = [] ∧ x.prepJust = []

/-- GATE: the delivered message passed the node's own message validation as far as the rule that matters for what the
    node copies into its own broadcasts: a commit / decided message carries no justification fields
    (`ErrUnexpectedRoundChangeJustifications`, `ErrUnexpectedPrepareJustifications` are reject rules of the validator) -/
def Gated (m : Msg) : Prop := m.type = tCommit → m.rcJust = [] ∧ m.prepJust = []

theorem aggregateLoop_frame (ret : Msg) (rest : List Msg) (r : Msg) (h : aggregateLoop ret rest = .ok r) :
    r.rcJust = ret.rcJust ∧ r.prepJust = ret.prepJust ∧ r.malformed = ret.malformed := by
  induction rest generalizing ret with
  | nil =>
    simp [aggregateLoop, pure, Except.pure] at h
    subst h
    exact ⟨rfl, rfl, rfl⟩
  | cons m rest ih =>
    unfold aggregateLoop at h
    split at h
    · simp [fail, wrap] at h
    · split at h
      · simp [fail, wrap] at h
      · have h' := ih _ h
        simpa using h'

theorem aggregateCommitMsgs_frame (msgs : List Msg) (fd : Nat) (agg : Msg) (h : aggregateCommitMsgs msgs fd = .ok agg) :
    ∃ m rest, msgs = m :: rest ∧ agg.rcJust = m.rcJust ∧ agg.prepJust = m.prepJust ∧ agg.malformed = m.malformed := by
  cases msgs with
  | nil => simp [aggregateCommitMsgs] at h
  | cons m rest =>
    refine ⟨m, rest, rfl, ?_⟩
    unfold aggregateCommitMsgs at h
    simp only [bind_eq_ok, pure_eq_ok] at h
    obtain ⟨r, hr, hagg⟩ := h
    obtain ⟨h1, h2, h3⟩ := aggregateLoop_frame _ rest r hr
    subst hagg
    exact ⟨h1, h2, h3⟩

theorem insertSorted_sorted (a : Nat) (l : List Nat) (h : l.Pairwise (· ≤ ·)) : (insertSorted a l).Pairwise (· ≤ ·) := by
  induction l with
  | nil => simp [insertSorted]
  | cons b rest ih =>
    unfold insertSorted
    rw [List.pairwise_cons] at h
    split
    · rename_i hab
      refine List.pairwise_cons.2 ⟨?_, List.pairwise_cons.2 h⟩
      intro y hy
      rcases List.mem_cons.1 hy with rfl | hy
      · exact hab
      · exact Nat.le_trans hab (h.1 y hy)
    · rename_i hab
      refine List.pairwise_cons.2 ⟨?_, ih h.2⟩
      intro y hy
      have := (insertSorted_perm a rest).mem_iff.1 hy
      rcases List.mem_cons.1 this with rfl | hy'
      · omega
      · exact h.1 y hy'

theorem sortNat_sorted (l : List Nat) : (sortNat l).Pairwise (· ≤ ·) := by
  induction l with
  | nil => simp [sortNat]
  | cons a rest ih => exact insertSorted_sorted a _ ih

/-- `sort.Slice(ret.Signers, <)` on distinct signers: strictly increasing -/
theorem sortNat_strict (l : List Nat) (h : l.Nodup) : (sortNat l).Pairwise (· < ·) := by
  have h1 := sortNat_sorted l
  have h2 : (sortNat l).Nodup := (sortNat_perm l).nodup_iff.2 h
  have h3 : (sortNat l).Pairwise (fun a b => a ≤ b ∧ a ≠ b) := h1.and h2
  exact h3.imp (fun hab => by omega)

/-- the aggregate `ProcessMsg` returns (which `Controller.ProcessMsg` hands to `broadcastDecided`) is an honest decided
    message: valid certificate, SORTED signers, round = current round ≥ 1, no justification fields -/
theorem honestDecided_of_processMsg (cfg : Cfg) (s : State) (m d : Msg) (b : Bool) (v : Nat)
    (hinv : InstInv cfg s) (hid : m.ident = cfg.ident) (hr : 1 ≤ s.round) (hpl : CommitsPlain s) (hg : Gated m)
    (h : (processMsg cfg s m).res = .ok b v (some d)) : HonestDecided cfg d ∧ d.round = s.round ∧ d.height = s.height := by
  have hcert := ((processMsg_inv cfg s m hinv hid).2.2 b v d h)
  have hspec := processMsg_spec cfg s m
  cases hspec with
  | noop _ _ h3 => exact absurd h (h3 _ _ _)
  | prop _ _ _ _ h3 => exact absurd h (h3 _ _ _)
  | prep _ _ _ _ _ h3 => exact absurd h (h3 _ _ _)
  | prepQ _ _ _ _ _ _ h3 => exact absurd h (h3 _ _ _)
  | com _ _ _ _ _ h3 => exact absurd h (h3 _ _ _)
  | rc _ _ _ h3 => exact absurd h (h3 _ _ _)
  | jump _ _ _ _ _ h3 => exact absurd h (h3 _ _ _)
  | comQ p agg hacc hv hq hagg h1 h2 h3 =>
    rw [h3] at h
    simp only [Outcome.ok.injEq, Option.some.injEq] at h
    obtain ⟨_, _, rfl⟩ := h
    obtain ⟨ht, hso, hc, hn, h0, hrd, hroot, hh, _⟩ := validateCommit_ok cfg m.toBase s.height s.round p () hv
    have hmal : m.malformed = false := by
      unfold validateCommit baseCommitValidation at hv
      simp at hv
      obtain ⟨_, _, ⟨x, hsv⟩, _⟩ := hv
      exact (signedValidate_ok m.toBase x hsv).2.2.2.2.1
    -- every message of the extended container is plain and has distinct signers
    have hcont : ∀ x ∈ s.commit ++ [m], (x.malformed = false ∧ x.rcJust = [] ∧ x.prepJust = []) ∧ x.signers.Nodup := by
      intro x hx
      rcases List.mem_append.1 hx with hx | hx
      · exact ⟨hpl x hx, (hinv.commits x hx).1.nodup⟩
      · simp at hx; subst hx
        exact ⟨⟨hmal, hg ht⟩, hn⟩
    have hlus := longestUniqueSigners_spec (fun x => x.malformed = false ∧ x.rcJust = [] ∧ x.prepJust = [])
      (s.commit ++ [m]) m.round m.root hcont
    simp only at hlus
    obtain ⟨hsg, hnd, hms⟩ := hlus
    obtain ⟨m0, rest, hmsgs, hs, _, _, hro, _, _, _, _⟩ := aggregateCommitMsgs_spec _ _ _ hagg
    obtain ⟨m0', rest', hmsgs', f1, f2, f3⟩ := aggregateCommitMsgs_frame _ _ _ hagg
    have hm0 : m0 ∈ (longestUniqueSigners (s.commit ++ [m]) m.round m.root).2 := by rw [hmsgs]; exact List.mem_cons_self
    have hm0' : m0' = m0 := by
      rw [hmsgs] at hmsgs'
      injection hmsgs' with a _
      exact a.symm
    subst hm0'
    have hp := hms m0' hm0
    have hround : agg.round = s.round := by rw [hro, hp.2.1]; exact hrd
    refine ⟨⟨hcert.cert, ?_, by omega, by rw [f3]; exact hp.1.1, by rw [f1, f2]; exact hp.1.2⟩, hround, hcert.height⟩
    rw [hs, ← hsg]
    exact sortNat_strict _ hnd

/-! ## what an accepted justification of a later round contains -/

/-- a justification that passes `isProposalJustification` for a round other than the first consists of a QUORUM of
    round-changes, each valid for (height, round, value) -/
theorem isProposalJustification_quorum (cfg : Cfg) (sh : Nat) (rcs : List Lvl1) (ps : List Base) (h r fd : Nat)
    (hj : isProposalJustification cfg sh rcs ps h r fd = .ok ()) (hr : r ≠ firstRound) :
    cfg.hasQuorum (signersOfL rcs) = true ∧ firstFail (fun rc => validRoundChangeForData cfg sh rc h r fd) rcs = .ok () := by
  unfold isProposalJustification at hj
  simp only [bind_eq_ok, rejectIf_eq_ok] at hj
  obtain ⟨_, _, h2⟩ := hj
  have e : (r == firstRound) = false := by simpa using hr
  simp only [e, Bool.false_eq_true, if_false, bind_eq_ok, rejectIf_eq_ok, wrap_eq_ok] at h2
  obtain ⟨_, h3, _, h4, _⟩ := h2
  exact ⟨by simpa using h4, h3⟩

/-- CLAUSE (proposal of `ProcessMsg`, under the timing hypothesis): sent by the round's leader for the CURRENT round,
    root = hash(full data), and the attached justification passes the very `isProposalJustification` the validator
    calls; beyond round 1 it therefore contains a round-change quorum -/
theorem emit_proposal_clause (cfg : Cfg) (s : State) (m x : Msg) (hr : 1 ≤ s.round) (ht : RcQuorumInRound cfg s m)
    (he : Emit cfg s m x) (hp : x.type = tProposal) :
    x.signers = [cfg.own] ∧ x.height = s.height ∧ x.round = s.round ∧ x.root = hashData x.fullData ∧
    cfg.proposer s.height s.round = some cfg.own ∧
    isProposalJustification cfg s.height x.rcJust x.prepJust s.height s.round x.fullData = .ok () ∧
    (s.round ≠ firstRound → cfg.hasQuorum (signersOfL x.rcJust) = true) := by
  have hh := honestInst_of_emit cfg s m x hr ht he
  cases he with
  | prepare hv hx => subst hx; exact absurd hp (by show tPrepare ≠ tProposal; decide)
  | commit p hacc hb hx => subst hx; exact absurd hp (by show tCommit ≠ tProposal; decide)
  | roundChange R hR hx => subst hx; rw [createRoundChange_type] at hp; exact absurd hp (by decide)
  | proposal j v htype hbv hx hj hq hjust =>
    subst hx
    have h1 := hh.leader rfl
    have h2 := hh.justified rfl
    exact ⟨rfl, rfl, rfl, rfl, h1, h2, fun hne => (isProposalJustification_quorum _ _ _ _ _ _ _ h2 hne).1⟩

end Ssv.Emission
