/- Helper lemmas for the SSZ decoder model (C08): compositional "never panics" reasoning and inversion of successful runs. -/
import Ssv.Model.Ssz
namespace Ssv.Ssz

@[simp] theorem bind_eq {α β} (x : Res α) (f : α → Res β) : (x >>= f) = x.bind f := rfl
@[simp] theorem pure_eq {α} (a : α) : (pure a : Res α) = .ok a := rfl

theorem bind_np {α β} {x : Res α} {f : α → Res β} (hx : x ≠ .panic) (hf : ∀ a, x = .ok a → f a ≠ .panic) :
    x.bind f ≠ .panic := by
  cases x with
  | ok a => exact hf a rfl
  | err => simp [Res.bind]
  | panic => exact absurd rfl hx

theorem slice_np {b : List Nat} {lo hi} (h1 : lo ≤ hi) (h2 : hi ≤ b.length) : slice b lo hi ≠ .panic := by
  simp [slice, h1, h2]

theorem slice_ok_len {b s : List Nat} {lo hi} (h : slice b lo hi = .ok s) : s.length = hi - lo ∧ lo ≤ hi ∧ hi ≤ b.length := by
  unfold slice at h
  split at h
  · injection h with h; subst h; simp; omega
  · cases h

theorem sliceFrom_np {b : List Nat} {lo} (h : lo ≤ b.length) : sliceFrom b lo ≠ .panic := by
  simp [sliceFrom, h]

theorem sliceFrom_ok_len {b s : List Nat} {lo} (h : sliceFrom b lo = .ok s) : s.length = b.length - lo ∧ lo ≤ b.length := by
  unfold sliceFrom at h
  split at h
  · injection h with h; subst h; simp; omega
  · cases h

theorem readU64_np {s : List Nat} (h : 8 ≤ s.length) : readU64 s ≠ .panic := by
  simp [readU64]; omega
theorem readOffset_np {s : List Nat} (h : 4 ≤ s.length) : readOffset s ≠ .panic := by
  simp [readOffset]; omega

theorem sliceU64_np {b : List Nat} {lo hi} (h1 : lo + 8 = hi) (h2 : hi ≤ b.length) : (slice b lo hi).bind readU64 ≠ .panic :=
  bind_np (slice_np (by omega) h2) fun s hs => readU64_np (by have := slice_ok_len hs; omega)
theorem sliceOff_np {b : List Nat} {lo hi} (h1 : lo + 4 = hi) (h2 : hi ≤ b.length) : (slice b lo hi).bind readOffset ≠ .panic :=
  bind_np (slice_np (by omega) h2) fun s hs => readOffset_np (by have := slice_ok_len hs; omega)

theorem ok_np {α} (a : α) : (Res.ok a) ≠ .panic := by simp
theorem err_np {α} : (Res.err : Res α) ≠ .panic := by simp

theorem ite_np {α} {c : Prop} [Decidable c] {a b : Res α} (ha : c → a ≠ .panic) (hb : ¬c → b ≠ .panic) :
    (if c then a else b) ≠ .panic := by
  split
  · exact ha ‹_›
  · exact hb ‹_›

theorem decodeSSV_np (buf : List Nat) : decodeSSV buf ≠ .panic := by
  unfold decodeSSV
  simp only [bind_eq, ssvFixed]
  refine ite_np (fun _ => err_np) fun hs => ?_
  refine bind_np (slice_np (by omega) (by omega)) fun b0 h0 => ?_
  refine bind_np (readU64_np (by have := slice_ok_len h0; omega)) fun _ _ => ?_
  refine bind_np (slice_np (by omega) (by omega)) fun _ _ => ?_
  refine bind_np (slice_np (by omega) (by omega)) fun ob hob => ?_
  refine bind_np (readOffset_np (by have := slice_ok_len hob; omega)) fun o2 _ => ?_
  refine ite_np (fun _ => err_np) fun h1 => ?_
  refine ite_np (fun _ => err_np) fun h2 => ?_
  refine bind_np (sliceFrom_np (by omega)) fun _ _ => ?_
  exact ite_np (fun _ => err_np) fun _ => ok_np _

theorem bind_ok {α β} {x : Res α} {f : α → Res β} {b : β} (h : x.bind f = .ok b) : ∃ a, x = .ok a ∧ f a = .ok b := by
  cases x with
  | ok a => exact ⟨a, rfl, h⟩
  | err => simp [Res.bind] at h
  | panic => simp [Res.bind] at h

theorem ite_ok {α} {c : Prop} [Decidable c] {a b : Res α} {v : α} (h : (if c then a else b) = .ok v) :
    (c ∧ a = .ok v) ∨ (¬c ∧ b = .ok v) := by
  split at h
  · exact .inl ⟨‹_›, h⟩
  · exact .inr ⟨‹_›, h⟩

theorem ite_err_ok {α} {c : Prop} [Decidable c] {b : Res α} {v : α} (h : (if c then Res.err else b) = .ok v) :
    ¬c ∧ b = .ok v := by
  split at h
  · cases h
  · exact ⟨‹_›, h⟩

/-! ### the dynamic-list helpers -/

theorem decodeDynamicLength_np (buf : List Nat) (m : Nat) : decodeDynamicLength buf m ≠ .panic := by
  unfold decodeDynamicLength
  simp only [bind_eq]
  refine ite_np (fun _ => ok_np _) fun h0 => ?_
  refine ite_np (fun _ => err_np) fun h4 => ?_
  refine bind_np (slice_np (by omega) (by omega)) fun s hs => ?_
  refine bind_np (readOffset_np (by have := slice_ok_len hs; omega)) fun o _ => ?_
  refine ite_np (fun _ => err_np) fun _ => ?_
  exact ite_np (fun _ => err_np) fun _ => ok_np _

theorem decodeDynamicLength_ok {buf : List Nat} {m n : Nat} (h : decodeDynamicLength buf m = .ok n) :
    n ≤ m ∧ (n ≠ 0 → 4 ≤ buf.length) := by
  unfold decodeDynamicLength at h
  simp only [bind_eq] at h
  split at h
  · injection h with h; subst h; simp
  · split at h
    · cases h
    · obtain ⟨s, _, h⟩ := bind_ok h
      obtain ⟨o, _, h⟩ := bind_ok h
      obtain ⟨_, h⟩ := ite_err_ok h
      obtain ⟨hm, h⟩ := ite_err_ok h
      injection h with h; subst h
      exact ⟨by omega, fun _ => by omega⟩

theorem dynLoop_np {α} (src : List Nat) (f : List Nat → Res α) (hf : ∀ b, f b ≠ .panic) :
    ∀ n offset dst, dynLoop src f n offset dst ≠ .panic := by
  intro n
  induction n with
  | zero => intro _ _; simp [dynLoop]
  | succ n ih =>
    intro offset dst
    unfold dynLoop
    simp only [bind_eq]
    refine bind_np ?_ fun p _ => ?_
    · refine ite_np (fun _ => ?_) fun _ => ok_np _
      refine ite_np (fun _ => err_np) fun hl => ?_
      refine bind_np (readOffset_np (by omega)) fun _ _ => ?_
      exact bind_np (sliceFrom_np (by omega)) fun _ _ => ok_np _
    · obtain ⟨e, d⟩ := p
      simp only []
      refine ite_np (fun _ => err_np) fun h1 => ?_
      refine ite_np (fun _ => err_np) fun h2 => ?_
      refine bind_np (slice_np (by omega) (by omega)) fun item _ => ?_
      refine bind_np (hf item) fun a _ => ?_
      refine ite_np (fun _ => ok_np _) fun _ => ?_
      exact bind_np (ih e d) fun _ _ => ok_np _

theorem unmarshalDynamic_np {α} (src : List Nat) (n : Nat) (f : List Nat → Res α) (hf : ∀ b, f b ≠ .panic)
    (hn : n ≠ 0 → 4 ≤ src.length) : unmarshalDynamic src n f ≠ .panic := by
  unfold unmarshalDynamic
  simp only [bind_eq]
  refine ite_np (fun _ => ok_np _) fun h0 => ?_
  refine bind_np (readOffset_np (hn h0)) fun _ _ => ?_
  refine bind_np (sliceFrom_np (hn h0)) fun _ _ => ?_
  exact dynLoop_np src f hf _ _ _

theorem justItem_np (m : Nat) (b : List Nat) : justItem m b ≠ .panic := by
  unfold justItem; exact ite_np (fun _ => err_np) fun _ => ok_np _

theorem justItem_ok {m : Nat} {b x : List Nat} (h : justItem m b = .ok x) : x.length ≤ m := by
  unfold justItem at h
  obtain ⟨hc, h⟩ := ite_err_ok h
  injection h with h; subst h; omega

/-- a successful run of the loop yields exactly `n` items, each an output of the element decoder -/
theorem dynLoop_ok {α} (src : List Nat) (f : List Nat → Res α) :
    ∀ n offset dst l, dynLoop src f n offset dst = .ok l → l.length = n ∧ ∀ x ∈ l, ∃ b, f b = .ok x := by
  intro n
  induction n with
  | zero => intro _ _ l h; simp [dynLoop] at h; subst h; simp
  | succ n ih =>
    intro offset dst l h
    unfold dynLoop at h
    simp only [bind_eq] at h
    obtain ⟨p, _, h⟩ := bind_ok h
    obtain ⟨e, d⟩ := p
    simp only [] at h
    obtain ⟨_, h⟩ := ite_err_ok h
    obtain ⟨_, h⟩ := ite_err_ok h
    obtain ⟨item, _, h⟩ := bind_ok h
    obtain ⟨a, ha, h⟩ := bind_ok h
    rcases ite_ok h with ⟨hn, h⟩ | ⟨hn, h⟩
    · injection h with h; subst h
      refine ⟨by simp; omega, ?_⟩
      intro x hx; simp at hx; subst hx; exact ⟨item, ha⟩
    · obtain ⟨rest, hr, h⟩ := bind_ok h
      injection h with h; subst h
      obtain ⟨hl, hall⟩ := ih e d rest hr
      refine ⟨by simp [hl], ?_⟩
      intro x hx
      simp at hx
      rcases hx with hx | hx
      · subst hx; exact ⟨item, ha⟩
      · exact hall x hx

theorem unmarshalDynamic_ok {α} {src : List Nat} {n : Nat} {f : List Nat → Res α} {l : List α}
    (h : unmarshalDynamic src n f = .ok l) : l.length = n ∧ ∀ x ∈ l, ∃ b, f b = .ok x := by
  unfold unmarshalDynamic at h
  simp only [bind_eq] at h
  rcases ite_ok h with ⟨hn, h⟩ | ⟨hn, h⟩
  · injection h with h; subst h; simp [hn]
  · obtain ⟨_, _, h⟩ := bind_ok h
    obtain ⟨_, _, h⟩ := bind_ok h
    exact dynLoop_ok src f _ _ _ _ h

/-! ### fixed-stride loops -/

theorem readU64s_np (buf : List Nat) : ∀ k i, (i + k) * 8 ≤ buf.length → readU64s buf i k ≠ .panic := by
  intro k
  induction k with
  | zero => intro _ _; simp [readU64s]
  | succ k ih =>
    intro i h
    unfold readU64s
    simp only [bind_eq]
    refine bind_np (sliceU64_np (by omega) (by omega)) fun _ _ => ?_
    exact bind_np (ih (i + 1) (by omega)) fun _ _ => ok_np _

theorem readU64s_ok (buf : List Nat) : ∀ k i l, readU64s buf i k = .ok l → l.length = k := by
  intro k
  induction k with
  | zero => intro _ l h; simp [readU64s] at h; subst h; rfl
  | succ k ih =>
    intro i l h
    unfold readU64s at h
    simp only [bind_eq] at h
    obtain ⟨_, _, h⟩ := bind_ok h
    obtain ⟨r, hr, h⟩ := bind_ok h
    injection h with h; subst h
    simp [ih _ _ hr]

theorem decodePSig_np (buf : List Nat) : decodePSig buf ≠ .panic := by
  unfold decodePSig
  simp only [bind_eq, psigSize]
  refine ite_np (fun _ => err_np) fun hs => ?_
  have : buf.length = 136 := by omega
  refine bind_np (slice_np (by omega) (by omega)) fun _ _ => ?_
  refine bind_np (slice_np (by omega) (by omega)) fun _ _ => ?_
  exact bind_np (sliceU64_np (by omega) (by omega)) fun _ _ => ok_np _

theorem readPSigs_np (buf : List Nat) : ∀ k i, (i + k) * psigSize ≤ buf.length → readPSigs buf i k ≠ .panic := by
  intro k
  induction k with
  | zero => intro _ _; simp [readPSigs]
  | succ k ih =>
    intro i h
    unfold readPSigs
    simp only [bind_eq]
    simp only [psigSize] at h ⊢
    refine bind_np (bind_np (slice_np (by omega) (by omega)) fun _ _ => decodePSig_np _) fun _ _ => ?_
    exact bind_np (ih (i + 1) (by simp only [psigSize]; omega)) fun _ _ => ok_np _

theorem readPSigs_ok (buf : List Nat) : ∀ k i l, readPSigs buf i k = .ok l → l.length = k := by
  intro k
  induction k with
  | zero => intro _ l h; simp [readPSigs] at h; subst h; rfl
  | succ k ih =>
    intro i l h
    unfold readPSigs at h
    simp only [bind_eq] at h
    obtain ⟨_, _, h⟩ := bind_ok h
    obtain ⟨r, hr, h⟩ := bind_ok h
    injection h with h; subst h
    simp [ih _ _ hr]

/-! ### the message decoders -/

theorem decodeQMsg_np (buf : List Nat) : decodeQMsg buf ≠ .panic := by
  unfold decodeQMsg
  simp only [bind_eq, qmsgFixed]
  refine ite_np (fun _ => err_np) fun hs => ?_
  refine bind_np (sliceU64_np (by omega) (by omega)) fun _ _ => ?_
  refine bind_np (sliceU64_np (by omega) (by omega)) fun _ _ => ?_
  refine bind_np (sliceU64_np (by omega) (by omega)) fun _ _ => ?_
  refine bind_np (sliceOff_np (by omega) (by omega)) fun o3 _ => ?_
  refine ite_np (fun _ => err_np) fun h3 => ?_
  refine ite_np (fun _ => err_np) fun h3' => ?_
  refine bind_np (slice_np (by omega) (by omega)) fun _ _ => ?_
  refine bind_np (sliceU64_np (by omega) (by omega)) fun _ _ => ?_
  refine bind_np (sliceOff_np (by omega) (by omega)) fun o6 _ => ?_
  refine ite_np (fun _ => err_np) fun h6 => ?_
  refine bind_np (sliceOff_np (by omega) (by omega)) fun o7 _ => ?_
  refine ite_np (fun _ => err_np) fun h7 => ?_
  refine bind_np (slice_np (by omega) (by omega)) fun _ _ => ?_
  refine ite_np (fun _ => err_np) fun _ => ?_
  refine bind_np (slice_np (by omega) (by omega)) fun b6 _ => ?_
  refine bind_np (decodeDynamicLength_np _ _) fun n6 hn6 => ?_
  refine bind_np (unmarshalDynamic_np _ _ _ (justItem_np _) (decodeDynamicLength_ok hn6).2) fun _ _ => ?_
  refine bind_np (sliceFrom_np (by omega)) fun b7 _ => ?_
  refine bind_np (decodeDynamicLength_np _ _) fun n7 hn7 => ?_
  refine bind_np (unmarshalDynamic_np _ _ _ (justItem_np _) (decodeDynamicLength_ok hn7).2) fun _ _ => ?_
  exact ok_np _

theorem decodeSigned_np (buf : List Nat) : decodeSigned buf ≠ .panic := by
  unfold decodeSigned
  simp only [bind_eq, signedFixed]
  refine ite_np (fun _ => err_np) fun hs => ?_
  refine bind_np (slice_np (by omega) (by omega)) fun _ _ => ?_
  refine bind_np (sliceOff_np (by omega) (by omega)) fun o1 _ => ?_
  refine ite_np (fun _ => err_np) fun h1 => ?_
  refine ite_np (fun _ => err_np) fun h1' => ?_
  refine bind_np (sliceOff_np (by omega) (by omega)) fun o2 _ => ?_
  refine ite_np (fun _ => err_np) fun h2 => ?_
  refine bind_np (sliceOff_np (by omega) (by omega)) fun o3 _ => ?_
  refine ite_np (fun _ => err_np) fun h3 => ?_
  refine bind_np (slice_np (by omega) (by omega)) fun b1 _ => ?_
  refine ite_np (fun _ => err_np) fun hm => ?_
  refine ite_np (fun _ => err_np) fun _ => ?_
  refine bind_np (readU64s_np _ _ _ (by omega)) fun _ _ => ?_
  refine bind_np (slice_np (by omega) (by omega)) fun _ _ => ?_
  refine bind_np (decodeQMsg_np _) fun _ _ => ?_
  refine bind_np (sliceFrom_np (by omega)) fun _ _ => ?_
  exact ite_np (fun _ => err_np) fun _ => ok_np _

theorem decodePSigs_np (buf : List Nat) : decodePSigs buf ≠ .panic := by
  unfold decodePSigs
  simp only [bind_eq, psigsFixed]
  refine ite_np (fun _ => err_np) fun hs => ?_
  refine bind_np (sliceU64_np (by omega) (by omega)) fun _ _ => ?_
  refine bind_np (sliceU64_np (by omega) (by omega)) fun _ _ => ?_
  refine bind_np (sliceOff_np (by omega) (by omega)) fun o2 _ => ?_
  refine ite_np (fun _ => err_np) fun h2 => ?_
  refine ite_np (fun _ => err_np) fun h2' => ?_
  refine bind_np (sliceFrom_np (by omega)) fun b _ => ?_
  refine ite_np (fun _ => err_np) fun hm => ?_
  refine ite_np (fun _ => err_np) fun _ => ?_
  refine bind_np (readPSigs_np _ _ _ ?_) fun _ _ => ok_np _
  have := Nat.div_mul_le_self b.length psigSize
  simp only [Nat.zero_add]
  omega

theorem decodeSPSig_np (buf : List Nat) : decodeSPSig buf ≠ .panic := by
  unfold decodeSPSig
  simp only [bind_eq, spsigFixed]
  refine ite_np (fun _ => err_np) fun hs => ?_
  refine bind_np (sliceOff_np (by omega) (by omega)) fun o0 _ => ?_
  refine ite_np (fun _ => err_np) fun h0 => ?_
  refine ite_np (fun _ => err_np) fun h0' => ?_
  refine bind_np (slice_np (by omega) (by omega)) fun _ _ => ?_
  refine bind_np (sliceU64_np (by omega) (by omega)) fun _ _ => ?_
  refine bind_np (sliceFrom_np (by omega)) fun _ _ => ?_
  exact bind_np (decodePSigs_np _) fun _ _ => ok_np _

/-! ### what a successful decode guarantees (the size limits the validation pipeline relies on) -/

theorem decodeSSV_ok {buf : List Nat} {m : SSVMessage} (h : decodeSSV buf = .ok m) :
    ssvFixed ≤ buf.length ∧ m.msgID.length = 56 ∧ m.data.length ≤ ssvMaxData := by
  unfold decodeSSV at h
  simp only [bind_eq] at h
  obtain ⟨hs, h⟩ := ite_err_ok h
  obtain ⟨_, _, h⟩ := bind_ok h
  obtain ⟨_, _, h⟩ := bind_ok h
  obtain ⟨id, hid, h⟩ := bind_ok h
  obtain ⟨_, _, h⟩ := bind_ok h
  obtain ⟨_, _, h⟩ := bind_ok h
  obtain ⟨_, h⟩ := ite_err_ok h
  obtain ⟨_, h⟩ := ite_err_ok h
  obtain ⟨d, _, h⟩ := bind_ok h
  obtain ⟨hd, h⟩ := ite_err_ok h
  injection h with h; subst h
  have := slice_ok_len hid
  exact ⟨by omega, by simp; omega, by simp; omega⟩

structure QMsg.Bounded (m : QMsg) : Prop where
  identifier : m.identifier.length ≤ maxIdentifier
  root : m.root.length = 32
  rcjCount : m.rcj.length ≤ maxJustifications
  rcjSize : ∀ j ∈ m.rcj, j.length ≤ maxJustificationSize
  pjCount : m.pj.length ≤ maxJustifications
  pjSize : ∀ j ∈ m.pj, j.length ≤ maxJustificationSize

theorem decodeQMsg_ok {buf : List Nat} {m : QMsg} (h : decodeQMsg buf = .ok m) : m.Bounded := by
  unfold decodeQMsg at h
  simp only [bind_eq] at h
  obtain ⟨hs, h⟩ := ite_err_ok h
  obtain ⟨_, _, h⟩ := bind_ok h
  obtain ⟨_, _, h⟩ := bind_ok h
  obtain ⟨_, _, h⟩ := bind_ok h
  obtain ⟨o3, _, h⟩ := bind_ok h
  obtain ⟨_, h⟩ := ite_err_ok h
  obtain ⟨_, h⟩ := ite_err_ok h
  obtain ⟨root, hroot, h⟩ := bind_ok h
  obtain ⟨_, _, h⟩ := bind_ok h
  obtain ⟨o6, _, h⟩ := bind_ok h
  obtain ⟨_, h⟩ := ite_err_ok h
  obtain ⟨o7, _, h⟩ := bind_ok h
  obtain ⟨_, h⟩ := ite_err_ok h
  obtain ⟨ident, _, h⟩ := bind_ok h
  obtain ⟨hid, h⟩ := ite_err_ok h
  obtain ⟨b6, _, h⟩ := bind_ok h
  obtain ⟨n6, hn6, h⟩ := bind_ok h
  obtain ⟨rcj, hrcj, h⟩ := bind_ok h
  obtain ⟨b7, _, h⟩ := bind_ok h
  obtain ⟨n7, hn7, h⟩ := bind_ok h
  obtain ⟨pj, hpj, h⟩ := bind_ok h
  injection h with h; subst h
  have hr := slice_ok_len hroot
  have h6 := unmarshalDynamic_ok hrcj
  have h7 := unmarshalDynamic_ok hpj
  refine ⟨by simp; omega, by simp; omega, ?_, ?_, ?_, ?_⟩
  · simp only; rw [h6.1]; exact (decodeDynamicLength_ok hn6).1
  · intro j hj; obtain ⟨b, hb⟩ := h6.2 j hj; exact justItem_ok hb
  · simp only; rw [h7.1]; exact (decodeDynamicLength_ok hn7).1
  · intro j hj; obtain ⟨b, hb⟩ := h7.2 j hj; exact justItem_ok hb

theorem decodeSigned_ok {buf : List Nat} {m : SignedMsg} (h : decodeSigned buf = .ok m) :
    m.signature.length = 96 ∧ m.signers.length ≤ maxSigners ∧ m.fullData.length ≤ maxFullData ∧ m.message.Bounded := by
  unfold decodeSigned at h
  simp only [bind_eq] at h
  obtain ⟨hs, h⟩ := ite_err_ok h
  obtain ⟨sig, hsig, h⟩ := bind_ok h
  obtain ⟨o1, _, h⟩ := bind_ok h
  obtain ⟨_, h⟩ := ite_err_ok h
  obtain ⟨_, h⟩ := ite_err_ok h
  obtain ⟨o2, _, h⟩ := bind_ok h
  obtain ⟨_, h⟩ := ite_err_ok h
  obtain ⟨o3, _, h⟩ := bind_ok h
  obtain ⟨_, h⟩ := ite_err_ok h
  obtain ⟨b1, _, h⟩ := bind_ok h
  obtain ⟨_, h⟩ := ite_err_ok h
  obtain ⟨hcount, h⟩ := ite_err_ok h
  obtain ⟨signers, hsigners, h⟩ := bind_ok h
  obtain ⟨b2, _, h⟩ := bind_ok h
  obtain ⟨msg, hmsg, h⟩ := bind_ok h
  obtain ⟨fd, _, h⟩ := bind_ok h
  obtain ⟨hfd, h⟩ := ite_err_ok h
  injection h with h; subst h
  have := slice_ok_len hsig
  have := readU64s_ok _ _ _ _ hsigners
  exact ⟨by simp; omega, by simp; omega, by simp; omega, decodeQMsg_ok hmsg⟩

theorem decodePSig_ok {buf : List Nat} {m : PSig} (h : decodePSig buf = .ok m) :
    m.partialSignature.length = 96 ∧ m.signingRoot.length = 32 := by
  unfold decodePSig at h
  simp only [bind_eq] at h
  obtain ⟨hs, h⟩ := ite_err_ok h
  obtain ⟨ps, hps, h⟩ := bind_ok h
  obtain ⟨sr, hsr, h⟩ := bind_ok h
  obtain ⟨_, _, h⟩ := bind_ok h
  injection h with h; subst h
  have := slice_ok_len hps
  have := slice_ok_len hsr
  exact ⟨by simp; omega, by simp; omega⟩

theorem decodePSigs_ok {buf : List Nat} {m : PSigs} (h : decodePSigs buf = .ok m) : m.messages.length ≤ maxPSigs := by
  unfold decodePSigs at h
  simp only [bind_eq] at h
  obtain ⟨hs, h⟩ := ite_err_ok h
  obtain ⟨_, _, h⟩ := bind_ok h
  obtain ⟨_, _, h⟩ := bind_ok h
  obtain ⟨_, _, h⟩ := bind_ok h
  obtain ⟨_, h⟩ := ite_err_ok h
  obtain ⟨_, h⟩ := ite_err_ok h
  obtain ⟨b, _, h⟩ := bind_ok h
  obtain ⟨_, h⟩ := ite_err_ok h
  obtain ⟨hc, h⟩ := ite_err_ok h
  obtain ⟨ms, hms, h⟩ := bind_ok h
  injection h with h; subst h
  have := readPSigs_ok _ _ _ _ hms
  simp only; omega

theorem decodeSPSig_ok {buf : List Nat} {m : SPSig} (h : decodeSPSig buf = .ok m) :
    m.signature.length = 96 ∧ m.message.messages.length ≤ maxPSigs := by
  unfold decodeSPSig at h
  simp only [bind_eq] at h
  obtain ⟨hs, h⟩ := ite_err_ok h
  obtain ⟨_, _, h⟩ := bind_ok h
  obtain ⟨_, h⟩ := ite_err_ok h
  obtain ⟨_, h⟩ := ite_err_ok h
  obtain ⟨sig, hsig, h⟩ := bind_ok h
  obtain ⟨_, _, h⟩ := bind_ok h
  obtain ⟨_, _, h⟩ := bind_ok h
  obtain ⟨msg, hmsg, h⟩ := bind_ok h
  injection h with h; subst h
  have := slice_ok_len hsig
  exact ⟨by simp; omega, decodePSigs_ok hmsg⟩

end Ssv.Ssz
