/-
Helper definitions and lemmas for C17 (engine `timer`). Core Lean only.
-/
import Ssv.Model.Timer

namespace Ssv.Timer

/-! ## a model-independent reading of an op list -/

/-- the armings an op list contains, oldest first, named 0,1,2,… in call order -/
def armingsFrom (c : Cfg) : Nat → List Op → List Pend
  | _, [] => []
  | k, .arm h r now :: ops => { id := k, round := r, deadline := deadline c h r now } :: armingsFrom c (k + 1) ops
  | k, .expire _ _ :: ops => armingsFrom c k ops
  | k, .cancel :: ops => armingsFrom c k ops
  | k, .reap _ :: ops => armingsFrom c k ops
  | k, .register _ :: ops => armingsFrom c k ops

def armings (c : Cfg) (ops : List Op) : List Pend := armingsFrom c 0 ops

/-- rounds passed to `TimeoutForRound`, in call order -/
def armRounds : List Op → List Nat
  | [] => []
  | .arm _ r _ :: ops => r :: armRounds ops
  | .expire _ _ :: ops => armRounds ops
  | .cancel :: ops => armRounds ops
  | .reap _ :: ops => armRounds ops
  | .register _ :: ops => armRounds ops

/-- the callback in force after an op list: the argument of the last `OnTimeout` call, else the one it started with -/
def handlerAfter : Option Nat → List Op → Option Nat
  | k, [] => k
  | _, .register k' :: ops => handlerAfter k' ops
  | k, .arm _ _ _ :: ops => handlerAfter k ops
  | k, .expire _ _ :: ops => handlerAfter k ops
  | k, .cancel :: ops => handlerAfter k ops
  | k, .reap _ :: ops => handlerAfter k ops

/-- the property's quantifier: the timer is armed for strictly increasing rounds -/
def IncreasingArms (ops : List Op) : Prop := (armRounds ops).Pairwise (· < ·)

instance (ops : List Op) : Decidable (IncreasingArms ops) := by unfold IncreasingArms; infer_instance

theorem armRounds_append (a b : List Op) : armRounds (a ++ b) = armRounds a ++ armRounds b := by
  induction a with
  | nil => rfl
  | cons x xs ih => cases x <;> simp [armRounds, ih]

theorem armingsFrom_rounds (c : Cfg) (k : Nat) (ops : List Op) :
    (armingsFrom c k ops).map (·.round) = armRounds ops := by
  induction ops generalizing k with
  | nil => rfl
  | cons x xs ih => cases x <;> simp [armingsFrom, armRounds, ih]

theorem armingsFrom_append (c : Cfg) (k : Nat) (a b : List Op) :
    armingsFrom c k (a ++ b) = armingsFrom c k a ++ armingsFrom c (k + (armingsFrom c k a).length) b := by
  induction a generalizing k with
  | nil => simp [armingsFrom]
  | cons x xs ih =>
    cases x <;> simp [armingsFrom, ih]
    · rw [Nat.add_right_comm k 1, Nat.add_assoc]

theorem armingsFrom_ids (c : Cfg) (k : Nat) (ops : List Op) :
    ∀ p ∈ armingsFrom c k ops, k ≤ p.id := by
  induction ops generalizing k with
  | nil => intro p hp; simp [armingsFrom] at hp
  | cons x xs ih =>
    intro p hp
    cases x with
    | arm h r now =>
      simp only [armingsFrom, List.mem_cons] at hp
      rcases hp with rfl | hp
      · exact Nat.le_refl _
      · have := ih (k + 1) p hp; omega
    | expire _ _ => exact ih k p hp
    | cancel => exact ih k p hp
    | reap _ => exact ih k p hp
    | register _ => exact ih k p hp

theorem IncreasingArms.left {a b : List Op} (h : IncreasingArms (a ++ b)) : IncreasingArms a := by
  unfold IncreasingArms at *
  rw [armRounds_append] at h
  exact (List.pairwise_append.mp h).1

/-- with strictly increasing rounds, a round names at most one arming -/
theorem round_inj_of_pairwise : ∀ (l : List Pend), (l.map (·.round)).Pairwise (· < ·) →
    ∀ p ∈ l, ∀ q ∈ l, p.round = q.round → p = q := by
  intro l
  induction l with
  | nil => intro _ p hp; cases hp
  | cons a l ih =>
    intro hpw p hp q hq hr
    simp only [List.map_cons, List.pairwise_cons, List.mem_map, forall_exists_index, and_imp,
      forall_apply_eq_imp_iff₂] at hpw
    obtain ⟨hlt, hpw'⟩ := hpw
    simp only [List.mem_cons] at hp hq
    rcases hp with rfl | hp <;> rcases hq with rfl | hq
    · rfl
    · have := hlt q hq; omega
    · have := hlt p hp; omega
    · exact ih hpw' p hp q hq hr

/-! ## run: structure lemmas -/

theorem run_append (c : Cfg) (s : State) (a b : List Op) :
    run c s (a ++ b) = ((run c (run c s a).1 b).1, (run c s a).2 ++ (run c (run c s a).1 b).2) := by
  induction a generalizing s with
  | nil => simp [run]
  | cons x xs ih => simp [run, ih, List.append_assoc]

theorem step_log (c : Cfg) (s : State) (op : Op) :
    (step c s op).1.log = s.log ++ armingsFrom c s.nextId [op] ∧
    (step c s op).1.nextId = s.nextId + (armingsFrom c s.nextId [op]).length := by
  cases op with
  | arm h r now => simp [step, armingsFrom]
  | expire id now =>
    simp only [step, armingsFrom]
    split
    · simp
    · split <;> simp
  | cancel => simp [step, armingsFrom]
  | reap id =>
    simp only [step, armingsFrom]
    split <;> simp
  | register k => simp [step, armingsFrom]

/-- the ghost log of the model is exactly the model-independent list of armings -/
theorem run_log (c : Cfg) (s : State) (ops : List Op) :
    (run c s ops).1.log = s.log ++ armingsFrom c s.nextId ops ∧
    (run c s ops).1.nextId = s.nextId + (armingsFrom c s.nextId ops).length := by
  induction ops generalizing s with
  | nil => simp [run, armingsFrom]
  | cons x xs ih =>
    have hs := step_log c s x
    have hi := ih (step c s x).1
    have happ := armingsFrom_append c s.nextId [x] xs
    simp only [List.singleton_append] at happ
    simp only [run]
    rw [hi.1, hi.2, hs.1, hs.2, happ]
    constructor
    · simp [List.append_assoc]
    · simp; omega

theorem run_init_log (c : Cfg) (ops : List Op) : (run c init ops).1.log = armings c ops := by
  have := (run_log c init ops).1
  simpa [init, armings] using this

/-- `t.done` after a run is the argument of the last `OnTimeout` call -/
theorem run_handler (c : Cfg) (s : State) (ops : List Op) :
    (run c s ops).1.handler = handlerAfter s.handler ops := by
  induction ops generalizing s with
  | nil => rfl
  | cons x xs ih =>
    simp only [run]
    rw [ih]
    cases x with
    | arm h r now => simp [step, handlerAfter]
    | expire id now =>
      simp only [step, handlerAfter]
      split
      · rfl
      · split <;> rfl
    | cancel => simp [step, handlerAfter]
    | reap id =>
      simp only [step, handlerAfter]
      split <;> rfl
    | register k => simp [step, handlerAfter]

/-! ## invariants -/

/-- pending expiries are armings of the log; the armed round is the round of the latest arming -/
structure Inv (s : State) : Prop where
  pend_log : ∀ p ∈ s.pending, p ∈ s.log
  armed_last : ∀ q, s.log.getLast? = some q → s.armed = q.round
  pend_ids : (s.pending.map (·.id)).Nodup
  pend_lt : ∀ p ∈ s.pending, p.id < s.nextId

theorem inv_init : Inv init := by
  constructor <;> simp [init]

theorem filter_ids_nodup (l : List Pend) (id : Nat) (h : (l.map (·.id)).Nodup) :
    ((l.filter (fun q => q.id != id)).map (·.id)).Nodup := by
  induction l with
  | nil => simp
  | cons a l ih =>
    simp only [List.map_cons, List.nodup_cons, List.mem_map, not_exists, not_and] at h
    simp only [List.filter_cons]
    split
    · simp only [List.map_cons, List.nodup_cons, List.mem_map, List.mem_filter, not_exists, not_and]
      exact ⟨fun x hx => h.1 x hx.1, ih h.2⟩
    · exact ih h.2

theorem inv_step (c : Cfg) (s : State) (op : Op) (hi : Inv s) : Inv (step c s op).1 := by
  cases op with
  | arm h r now =>
    simp only [step]
    constructor
    · intro p hp
      simp only [List.mem_append, List.mem_singleton] at hp ⊢
      rcases hp with hp | hp
      · exact Or.inl (hi.pend_log p hp)
      · exact Or.inr hp
    · intro q hq
      simp at hq
      simp [← hq]
    · simp only [List.map_append, List.map_cons, List.map_nil]
      rw [List.nodup_append]
      refine ⟨hi.pend_ids, by simp, ?_⟩
      intro a ha b hb
      simp only [List.mem_map] at ha
      obtain ⟨p, hp, rfl⟩ := ha
      simp only [List.mem_singleton] at hb
      have := hi.pend_lt p hp
      omega
    · intro p hp
      simp only [List.mem_append, List.mem_singleton] at hp
      rcases hp with hp | rfl
      · have := hi.pend_lt p hp; simp; omega
      · simp
  | expire id now =>
    simp only [step]
    split
    · exact hi
    · split
      · exact hi
      · constructor
        · intro p hp
          exact hi.pend_log p (List.mem_filter.mp hp).1
        · exact hi.armed_last
        · exact filter_ids_nodup _ _ hi.pend_ids
        · intro p hp
          exact hi.pend_lt p (List.mem_filter.mp hp).1
  | cancel =>
    simp only [step]
    exact ⟨hi.pend_log, hi.armed_last, hi.pend_ids, hi.pend_lt⟩
  | reap id =>
    simp only [step]
    split
    · constructor
      · intro p hp
        exact hi.pend_log p (List.mem_filter.mp hp).1
      · exact hi.armed_last
      · exact filter_ids_nodup _ _ hi.pend_ids
      · intro p hp
        exact hi.pend_lt p (List.mem_filter.mp hp).1
    · exact hi
  | register k =>
    simp only [step]
    exact ⟨hi.pend_log, hi.armed_last, hi.pend_ids, hi.pend_lt⟩

theorem inv_run (c : Cfg) (s : State) (ops : List Op) (hi : Inv s) : Inv (run c s ops).1 := by
  induction ops generalizing s with
  | nil => exact hi
  | cons x xs ih => exact ih _ (inv_step c s x hi)

/-! ## what a callback invocation tells about the state it came from -/

/-- anatomy of one firing step -/
theorem step_fire (c : Cfg) (s : State) (op : Op) (f : Fire) (hf : (step c s op).2 = some f) :
    ∃ id now p k, op = .expire id now ∧ p ∈ s.pending ∧ p.id = id ∧ p.deadline ≤ now ∧ s.armed = p.round ∧
      s.handler = some k ∧ f = { id := p.id, round := p.round, time := now, handler := k } ∧
      (step c s op).1.pending = s.pending.filter (fun q => q.id != id) := by
  cases op with
  | arm h r now => simp [step] at hf
  | cancel => simp [step] at hf
  | register k => simp [step] at hf
  | reap id => simp only [step] at hf; split at hf <;> simp at hf
  | expire id now =>
    simp only [step] at hf ⊢
    split at hf
    · simp at hf
    · rename_i p hfind
      split at hf
      · simp at hf
      · rename_i hnl
        split at hf
        · rename_i harm
          split at hf
          · rename_i k hk
            refine ⟨id, now, p, k, rfl, List.mem_of_find?_eq_some hfind, ?_, by omega, harm, hk, ?_, ?_⟩
            · have := List.find?_some hfind; simpa using this
            · simpa using hf.symm
            · simp [hnl]
          · simp at hf
        · simp at hf

/-- every callback of a run comes from one `expire` step at some position of the op list -/
theorem fire_of_run (c : Cfg) (s : State) (ops : List Op) (f : Fire) (hf : f ∈ (run c s ops).2) :
    ∃ pre op post, ops = pre ++ op :: post ∧ (step c (run c s pre).1 op).2 = some f := by
  induction ops generalizing s with
  | nil => simp [run] at hf
  | cons x xs ih =>
    simp only [run, List.mem_append, Option.mem_toList] at hf
    rcases hf with hf | hf
    · exact ⟨[], x, xs, rfl, by simpa [run] using hf⟩
    · obtain ⟨pre, op, post, rfl, h⟩ := ih _ hf
      exact ⟨x :: pre, op, post, rfl, by simpa [run] using h⟩

/-- ids of the callbacks of a run: pairwise distinct, each a pending arming of the start state or a later arming -/
theorem run_fires_ids (c : Cfg) (s : State) (ops : List Op)
    (hnd : (s.pending.map (·.id)).Nodup) (hlt : ∀ p ∈ s.pending, p.id < s.nextId) :
    ((run c s ops).2.map (·.id)).Nodup ∧
    ∀ f ∈ (run c s ops).2, (f.id ∈ s.pending.map (·.id)) ∨ s.nextId ≤ f.id := by
  induction ops generalizing s with
  | nil => simp [run]
  | cons x xs ih =>
    cases x with
    | arm h r now =>
      have hnd' : (((step c s (.arm h r now)).1).pending.map (·.id)).Nodup := by
        simp only [step, List.map_append, List.map_cons, List.map_nil]
        rw [List.nodup_append]
        refine ⟨hnd, by simp, ?_⟩
        intro a ha b hb
        simp only [List.mem_map] at ha
        obtain ⟨p, hp, rfl⟩ := ha
        simp only [List.mem_singleton] at hb
        have := hlt p hp
        omega
      have hlt' : ∀ p ∈ ((step c s (.arm h r now)).1).pending, p.id < ((step c s (.arm h r now)).1).nextId := by
        intro p hp
        simp only [step, List.mem_append, List.mem_singleton] at hp ⊢
        rcases hp with hp | rfl
        · have := hlt p hp; omega
        · simp
      obtain ⟨h1, h2⟩ := ih _ hnd' hlt'
      simp only [run]
      refine ⟨by simpa [step] using h1, ?_⟩
      intro f hf
      have hf' : f ∈ (run c (step c s (.arm h r now)).1 xs).2 := by simpa [step] using hf
      rcases h2 f hf' with h3 | h3
      · simp only [step, List.map_append, List.map_cons, List.map_nil, List.mem_append,
          List.mem_singleton] at h3
        rcases h3 with h3 | h3
        · exact Or.inl h3
        · exact Or.inr (by omega)
      · simp only [step] at h3
        exact Or.inr (by omega)
    | cancel =>
      obtain ⟨h1, h2⟩ := ih (step c s .cancel).1 (by simpa [step] using hnd) (by simpa [step] using hlt)
      simp only [run]
      exact ⟨by simpa [step] using h1, fun f hf => by simpa [step] using h2 f (by simpa [step] using hf)⟩
    | register k =>
      obtain ⟨h1, h2⟩ := ih (step c s (.register k)).1 (by simpa [step] using hnd) (by simpa [step] using hlt)
      simp only [run]
      exact ⟨by simpa [step] using h1, fun f hf => by simpa [step] using h2 f (by simpa [step] using hf)⟩
    | reap id =>
      have hsub : ∀ p ∈ (step c s (.reap id)).1.pending, p ∈ s.pending := by
        intro p hp
        simp only [step] at hp
        split at hp
        · exact (List.mem_filter.mp hp).1
        · exact hp
      have hnd' : (((step c s (.reap id)).1).pending.map (·.id)).Nodup := by
        simp only [step]
        split
        · exact filter_ids_nodup _ _ hnd
        · exact hnd
      have hn : (step c s (.reap id)).1.nextId = s.nextId := by
        simp only [step]; split <;> rfl
      have ho : (step c s (.reap id)).2 = none := by
        simp only [step]; split <;> rfl
      obtain ⟨h1, h2⟩ := ih _ hnd' (fun p hp => by rw [hn]; exact hlt p (hsub p hp))
      simp only [run, ho, Option.toList_none, List.nil_append]
      refine ⟨h1, fun f hf => ?_⟩
      rcases h2 f hf with h3 | h3
      · simp only [List.mem_map] at h3 ⊢
        obtain ⟨p, hp, hpe⟩ := h3
        exact Or.inl ⟨p, hsub p hp, hpe⟩
      · exact Or.inr (by omega)
    | expire id now =>
      have hsub : ∀ p ∈ (step c s (.expire id now)).1.pending, p ∈ s.pending := by
        intro p hp
        simp only [step] at hp
        split at hp
        · exact hp
        · split at hp
          · exact hp
          · exact (List.mem_filter.mp hp).1
      have hnd' : (((step c s (.expire id now)).1).pending.map (·.id)).Nodup := by
        simp only [step]
        split
        · exact hnd
        · split
          · exact hnd
          · exact filter_ids_nodup _ _ hnd
      have hn : (step c s (.expire id now)).1.nextId = s.nextId := by
        simp only [step]
        split
        · rfl
        · split <;> rfl
      obtain ⟨h1, h2⟩ := ih _ hnd' (fun p hp => by rw [hn]; exact hlt p (hsub p hp))
      have h2' : ∀ f ∈ (run c (step c s (.expire id now)).1 xs).2, (f.id ∈ s.pending.map (·.id)) ∨ s.nextId ≤ f.id := by
        intro f hf
        rcases h2 f hf with h3 | h3
        · simp only [List.mem_map] at h3 ⊢
          obtain ⟨p, hp, hpe⟩ := h3
          exact Or.inl ⟨p, hsub p hp, hpe⟩
        · exact Or.inr (by omega)
      simp only [run]
      cases hfo : (step c s (.expire id now)).2 with
      | none =>
        simp only [Option.toList_none, List.nil_append]
        exact ⟨h1, h2'⟩
      | some f0 =>
        obtain ⟨id', now', p, k0, hop, hp, hpid, _, _, _, hf0, hpend⟩ := step_fire c s _ f0 hfo
        cases hop
        simp only [Option.toList_some, List.singleton_append, List.map_cons, List.nodup_cons, List.mem_cons]
        refine ⟨⟨?_, h1⟩, ?_⟩
        · -- the arming that just fired is no longer pending and is older than every later arming
          intro hmem
          simp only [List.mem_map] at hmem
          obtain ⟨g, hg, hge⟩ := hmem
          rcases h2 g hg with h3 | h3
          · rw [hpend] at h3
            simp only [List.mem_map, List.mem_filter] at h3
            obtain ⟨q, ⟨_, hq⟩, hqe⟩ := h3
            rw [hf0] at hge
            simp at hq hge
            omega
          · rw [hn] at h3
            have := hlt p hp
            rw [hf0] at hge
            simp at hge
            omega
        · intro f hf
          rcases hf with rfl | hf
          · left
            simp only [List.mem_map]
            exact ⟨p, hp, by rw [hf0]⟩
          · exact h2' f hf

/-! ## liveness side: an arming that is neither superseded nor reaped stays enabled -/

/-- ops that leave arming `id` waiting: other goroutines expiring or leaving, cancellation of the context -/
def quietFor (id : Nat) : Op → Bool
  | .expire j _ => j != id
  | .reap j => j != id
  | .cancel => true
  | .arm _ _ _ => false
  | .register _ => false

/-- arming `p` is still waiting on its timer, it is the armed round, and handler `k` is in force -/
structure Waiting (s : State) (p : Pend) (k : Nat) : Prop where
  mem : p ∈ s.pending
  armed : s.armed = p.round
  handler : s.handler = some k

theorem waiting_step (c : Cfg) (s : State) (p : Pend) (k : Nat) (op : Op)
    (hw : Waiting s p k) (hq : quietFor p.id op = true) : Waiting (step c s op).1 p k := by
  cases op with
  | arm h r now => simp [quietFor] at hq
  | register k' => simp [quietFor] at hq
  | cancel => exact ⟨hw.mem, hw.armed, hw.handler⟩
  | reap j =>
    have hj : (p.id != j) = true := by
      simp [quietFor] at hq
      simp
      exact fun h => hq h.symm
    simp only [step]
    split
    · exact ⟨List.mem_filter.mpr ⟨hw.mem, hj⟩, hw.armed, hw.handler⟩
    · exact hw
  | expire j now =>
    have hj : (p.id != j) = true := by
      simp [quietFor] at hq
      simp
      exact fun h => hq h.symm
    simp only [step]
    split
    · exact hw
    · split
      · exact hw
      · exact ⟨List.mem_filter.mpr ⟨hw.mem, hj⟩, hw.armed, hw.handler⟩

theorem waiting_run (c : Cfg) (s : State) (p : Pend) (k : Nat) (ops : List Op)
    (hw : Waiting s p k) (hq : ∀ op ∈ ops, quietFor p.id op = true) : Waiting (run c s ops).1 p k := by
  induction ops generalizing s with
  | nil => exact hw
  | cons x xs ih =>
    exact ih _ (waiting_step c s p k x hw (hq x List.mem_cons_self)) (fun op h => hq op (List.mem_cons_of_mem _ h))

theorem find_of_nodup_ids (l : List Pend) (p : Pend) (hp : p ∈ l) (hnd : (l.map (·.id)).Nodup) :
    l.find? (fun q => q.id == p.id) = some p := by
  induction l with
  | nil => cases hp
  | cons a l ih =>
    simp only [List.map_cons, List.nodup_cons, List.mem_map, not_exists, not_and] at hnd
    simp only [List.find?_cons]
    rcases List.mem_cons.mp hp with rfl | hp'
    · simp
    · have hne : (a.id == p.id) = false := by
        have := hnd.1 p hp'
        simp
        exact fun h => this h.symm
      simp only [hne]
      exact ih hp' hnd.2

/-! ## controller half -/

namespace Ctl

theorem find_setInst (l : List Inst) (h : Nat) (f : Inst → Inst) (i : Inst)
    (hf : ∀ j, (f j).height = j.height) (hfind : find l h = some i) :
    find (setInst l h f) h = some (f i) := by
  induction l with
  | nil => simp [find] at hfind
  | cons a l ih =>
    unfold find at hfind ih ⊢
    rw [List.find?_cons] at hfind
    unfold setInst
    cases hah : (a.height == h) with
    | true =>
      simp only [hah] at hfind
      cases hfind
      have h2 : ((f i).height == h) = true := by rw [hf i]; exact hah
      simp [h2]
    | false =>
      simp only [hah] at hfind
      have := ih hfind
      simp [hah, this]


/-! ### every stored instance other than the running one is stopped or decided -/

theorem mem_insertAt (l : List Inst) (k : Nat) (x y : Inst) (h : y ∈ insertAt l k x) : y ∈ l ∨ y = x := by
  simp only [insertAt, List.mem_append, List.mem_cons] at h
  rcases h with h | h | h
  · exact Or.inl (List.mem_of_mem_take h)
  · exact Or.inr h
  · exact Or.inl (List.mem_of_mem_drop h)

theorem mem_addNew (cap : Nat) (l : List Inst) (x y : Inst) (h : y ∈ addNew cap l x) : y ∈ l ∨ y = x := by
  unfold addNew at h
  simp only at h
  split at h
  · split at h
    · simp only [List.mem_append, List.mem_singleton] at h
      exact h
    · exact Or.inl h
  · split at h
    · exact mem_insertAt l _ x y (List.mem_of_mem_take h)
    · exact mem_insertAt l _ x y h

theorem mem_setInst (l : List Inst) (h : Nat) (f : Inst → Inst) (y : Inst) (hy : y ∈ setInst l h f) :
    y ∈ l ∨ ∃ j ∈ l, y = f j := by
  induction l with
  | nil => simp [setInst] at hy
  | cons a l ih =>
    simp only [setInst] at hy
    split at hy
    · simp only [List.mem_cons] at hy
      rcases hy with rfl | hy
      · exact Or.inr ⟨a, List.mem_cons_self, rfl⟩
      · exact Or.inl (List.mem_cons_of_mem _ hy)
    · simp only [List.mem_cons] at hy
      rcases hy with rfl | hy
      · exact Or.inl List.mem_cons_self
      · rcases ih hy with h1 | ⟨j, hj, rfl⟩
        · exact Or.inl (List.mem_cons_of_mem _ h1)
        · exact Or.inr ⟨j, List.mem_cons_of_mem _ hj, rfl⟩

/-- the lemma `Controller.OnTimeout` silently relies on (it has no height check of its own):
    `StartNewInstance` force-stops every other stored instance, `UponDecided` only ever creates or marks
    DECIDED instances, so an instance that is not the one most recently started cannot act on a timeout -/
def OthersQuiet (s : State) : Prop :=
  ∀ i ∈ s.insts, s.running ≠ some i.height → i.stopped = true ∨ i.decided = true

theorem othersQuiet_init (cap cutoff : Nat) : OthersQuiet (init cap cutoff) := by
  intro i hi; simp [init] at hi

theorem othersQuiet_step (s : State) (op : Op) (hq : OthersQuiet s) : OthersQuiet (step s op).1 := by
  cases op with
  | badTimeout => exact hq
  | start h =>
    simp only [step]
    split
    · exact hq
    · split
      · exact hq
      · intro i hi hne
        simp only [List.mem_map] at hi
        obtain ⟨j, _, rfl⟩ := hi
        by_cases hj : (j.height != h) = true
        · simp [hj]
        · simp only [hj] at hne ⊢
          simp at hj
          simp [hj] at hne
  | decide h r =>
    simp only [step]
    intro i hi hne
    simp only at hi hne
    split at hi
    · rcases mem_addNew _ _ _ _ hi with h1 | rfl
      · exact hq i h1 hne
      · exact Or.inr rfl
    · split at hi
      · exact hq i hi hne
      · rcases mem_setInst _ _ _ _ hi with h1 | ⟨j, _, rfl⟩
        · exact hq i h1 hne
        · exact Or.inr rfl
  | timeout h r =>
    simp only [step]
    split
    · exact hq
    · split
      · exact hq
      · split
        · exact hq
        · split
          · exact hq
          · intro i hi hne
            simp only at hi hne
            rcases mem_setInst _ _ _ _ hi with h1 | ⟨j, hj, rfl⟩
            · exact hq i h1 hne
            · exact hq j hj hne

theorem othersQuiet_run (s : State) (ops : List Op) (hq : OthersQuiet s) : OthersQuiet (run s ops).1 := by
  induction ops generalizing s with
  | nil => exact hq
  | cons x xs ih => exact ih _ (othersQuiet_step s x hq)

theorem find_mem (l : List Inst) (h : Nat) (i : Inst) (hf : find l h = some i) : i ∈ l ∧ i.height = h := by
  unfold find at hf
  refine ⟨List.mem_of_find?_eq_some hf, ?_⟩
  have := List.find?_some hf
  simpa using this

end Ctl

end Ssv.Timer
