/-
C01 Layer B, part 7 — the step lemmas of the rules H2 (commit needs an authentic prepare quorum, or a stale accepted
proposal after a regress) and H3 (justified proposals).
-/
import Ssv.Proofs.QbftNodeRules
set_option linter.unusedSimpArgs false
set_option linter.unusedVariables false

namespace Ssv.Qbft.B
open Ssv.Qbft

/-! ### what proposal validation establishes about the justification -/

theorem isValidProposal_just (cfg : Cfg) (s : State) (m : Msg) (u : Unit) (h : isValidProposal cfg s m = .ok u) :
    m.fullData = m.root ∧
    isProposalJustification cfg s.height m.rcJust m.prepJust s.height m.round m.fullData = .ok () := by
  unfold isValidProposal at h
  simp only [bind_eq_ok, rejectIf_eq_ok] at h
  obtain ⟨_, _, _, _, _, _, _, _, h5⟩ := h
  split at h5
  · simp at h5
  · simp only [bind_eq_ok, rejectIf_eq_ok, wrap_eq_ok] at h5
    obtain ⟨_, _, _, _, _, h8, _, h9, _⟩ := h5
    exact ⟨by simpa [hashData] using h8, h9⟩

theorem just_facts (cfg : Cfg) (sh : Nat) (rcs : List Lvl1) (ps : List Base) (h r fd : Nat) (u : Unit)
    (hj : isProposalJustification cfg sh rcs ps h r fd = .ok u) (hr : r ≠ firstRound) :
    (∀ rc ∈ rcs, validRoundChangeForData cfg sh rc h r fd = .ok ()) ∧ cfg.hasQuorum (signersOfL rcs) = true := by
  unfold isProposalJustification at hj
  simp only [bind_eq_ok, rejectIf_eq_ok] at hj
  obtain ⟨_, _, h2⟩ := hj
  have e : (r == firstRound) = false := by simpa using hr
  simp only [e, Bool.false_eq_true, if_false, bind_eq_ok, rejectIf_eq_ok, wrap_eq_ok] at h2
  obtain ⟨_, h3, _, h4, _⟩ := h2
  exact ⟨firstFail_ok _ _ _ h3, by simpa using h4⟩

structure RcValid (cfg : Cfg) (sh : Nat) (rc : Lvl1) (r fd : Nat) : Prop where
  type : rc.type = tRoundChange
  round : rc.round = r
  ident : rc.ident = cfg.ident
  sigOk : rc.sigOk = true
  signer : ∃ sg, rc.signers = [sg] ∧ sg ∈ cfg.committee
  prepared : rc.dataRound ≠ 0 →
    (∀ pm ∈ rc.just, pm.ident = cfg.ident ∧ validSignedPrepare cfg pm sh rc.dataRound rc.root = .ok ()) ∧ fd = rc.root ∧
    cfg.hasQuorum (signersOfB rc.just) = true ∧ rc.dataRound ≤ r

theorem validRC_facts (cfg : Cfg) (sh : Nat) (rc : Lvl1) (h r fd : Nat) (u : Unit)
    (hv : validRoundChangeForData cfg sh rc h r fd = .ok u) : RcValid cfg sh rc r fd := by
  unfold validRoundChangeForData at hv
  simp only [bind_eq_ok, rejectIf_eq_ok, wrap_eq_ok] at hv
  obtain ⟨_, h1, _, _, _, h3, _, hi, _, h4, _, h5, _, _, h7⟩ := hv
  have ht : rc.type = tRoundChange := by simpa using h1
  have h5' : cfg.verifySig rc.toBase = true := by simpa using h5
  obtain ⟨hso, hc⟩ := verifySig_true cfg rc.toBase h5'
  obtain ⟨sg, hsg⟩ := length_one rc.signers (by simpa using h4)
  refine ⟨ht, by simpa using h3, by simpa using hi, hso, ⟨sg, hsg, hc sg (by rw [hsg]; simp)⟩, ?_⟩
  intro hne
  have hp : rc.toBase.rcPrepared = true := by
    unfold Base.rcPrepared
    have e : noRound = 0 := rfl
    simp [ht, e, hne]
  simp only [hp, if_true, bind_eq_ok, rejectIf_eq_ok, wrap_eq_ok] at h7
  obtain ⟨_, h8, _, h9, _, h10, h11⟩ := h7
  refine ⟨?_, by simpa [hashData] using h9, by simpa using h10, by simpa using h11⟩
  intro pm hpm
  have := firstFail_ok _ _ _ h8 pm hpm
  simp only [bind_eq_ok, rejectIf_eq_ok] at this
  obtain ⟨_, a, b⟩ := this
  exact ⟨by simpa using a, b⟩

theorem hasQuorum_iff (cfg : Cfg) (l : List Nat) : cfg.hasQuorum l = true ↔ cfg.quorum ≤ uniqueCount l := by
  unfold Cfg.hasQuorum; simp

section
variable {P : Params} {hP : P.Valid} {T : List (Ev (Op P))} {log : List Msg} {i : Op P}
  {os os' : Option State} {bs : List Msg} {evs : List (Ev (Op P))}

theorem step_H2 (X : StepCtx P hP T log i os os' bs evs) :
    ∀ (i' : Op P) (r v k : Nat), i' ∉ (ctxT P hP (T ++ evs)).byz → QAbs.At (ctxT P hP (T ++ evs)) k (.K i' r v) →
      QAbs.PQ (ctxT P hP (T ++ evs)) k r v ∨
      ((∃ g rc, g < k ∧ QAbs.At (ctxT P hP (T ++ evs)) g (.G i' rc) ∧ rc ≤ r) ∧
        ∃ r2, r < r2 ∧ QAbs.Before (ctxT P hP (T ++ evs)) k (.P i' r2 v)) := by
  intro i' r v k hb h
  rcases at_cases (e := .K i' r v) h with ⟨_, hold⟩ | ⟨hk, hnew⟩
  · rcases X.R.H2 i' r v k hb hold with hpq | ⟨⟨g, rc, h1, h2, h3⟩, r2, h4, hbf⟩
    · exact Or.inl (pq_ext hpq)
    · exact Or.inr ⟨⟨g, rc, h1, at_ext h2, h3⟩, r2, h4, before_ext hbf⟩
  · obtain ⟨rfl, _, s, m, p, h0, ha, hacc, hv, hq, hr, hvv⟩ := origin_K X.hst (getElem?_mem' hnew)
    have hpre := X.hpre
    rw [h0] at hpre
    have hpre' : NodeInv P T i' s := hpre
    obtain ⟨hpin, hgh⟩ := hpre'.acc p hacc
    rw [hr, hvv]
    by_cases hstale : s.round < p.round
    · right
      obtain ⟨rc, hG⟩ := hgh (by omega)
      obtain ⟨g, hg⟩ := List.getElem?_of_mem hG
      refine ⟨⟨g, rc, by have := getElem?_lt hg; omega, at_iff.2 (getElem?_append_old hg), (hpre'.gRound rc hG).1⟩,
        p.round, hstale, ?_⟩
      exact before_of_mem (e := .P i' p.round p.root) (hpre'.propEv p hpin) hk
    · left
      obtain ⟨hmok, hmr, hmroot⟩ := prepOK_of_valid X.hlog i' m _ _ _ hv ha.1 ha.2
      have hbucket : ∀ x ∈ forRound (s.prepare ++ [m]) s.round, PrepOK P T x ∧ x.round = s.round ∧ x.root = p.root := by
        intro x hx
        unfold forRound at hx
        obtain ⟨hx1, hx2⟩ := List.mem_filter.1 hx
        have hxr : x.round = s.round := by simpa using hx2
        rcases List.mem_append.1 hx1 with hx1 | hx1
        · refine ⟨(hpre'.prep x hx1).1, hxr, ?_⟩
          rcases (hpre'.prep x hx1).2 with ⟨q, hq', hqr, hqroot⟩ | ⟨_, hS⟩
          · by_cases hpr : p.round = s.round
            · rw [← hqroot]
              exact hpre'.propUniq q hq' p hpin (by rw [hqr, hxr, hpr])
            · have := hpre'.low p hacc (by omega) q hq'
              omega
          · rcases hS with hS | ⟨_, q', hacc', _, hroot⟩
            · omega
            · rw [hacc] at hacc'
              simp only [Option.some.injEq] at hacc'
              rw [hroot, ← hacc']
        · simp at hx1; subst hx1
          exact ⟨hmok, hmr, hmroot⟩
      have hcomm : ∀ sg ∈ signersOf (forRound (s.prepare ++ [m]) s.round), sg ∈ P.committee := by
        intro sg hsg
        obtain ⟨x, hx, hxs⟩ := (mem_signersOf _ _).1 hsg
        obtain ⟨sg', h1, h2, _⟩ := (hbucket x hx).1
        rw [h1] at hxs; simp at hxs; rw [hxs]; exact h2
      have hq' : P.quorum ≤ uniqueCount (signersOf (forRound (s.prepare ++ [m]) s.round)) := (hasQuorum_iff _ _).1 hq
      obtain ⟨S, hS, hm⟩ := quorum_set P _ P.quorum hcomm hq'
      rw [kernel_quorum P hP] at hS
      refine pq_of_mem hk S hS ?_
      intro j hj hh
      obtain ⟨x, hx, hxs⟩ := (mem_signersOf _ _).1 (hm j hj)
      obtain ⟨⟨sg', h1, _, h3⟩, hxr, hxroot⟩ := hbucket x hx
      rw [h1] at hxs; simp at hxs
      have := h3 j hh hxs
      rw [hxr, hxroot] at this
      exact this

open Classical in
theorem step_H3 (X : StepCtx P hP T log i os os' bs evs) :
    ∀ (i' : Op P) (r v k : Nat), i' ∉ (ctxT P hP (T ++ evs)).byz → QAbs.At (ctxT P hP (T ++ evs)) k (.P i' r v) → 1 < r →
      ∃ S d, QAbs.RCQ (ctxT P hP (T ++ evs)) k r S d ∧
        ((∀ j ∈ S, (d j).1 = 0) ∨ ∃ js ∈ S, (∀ j ∈ S, (d j).1 ≤ (d js).1) ∧ 0 < (d js).1 ∧ (d js).2 = v) := by
  intro i' r v k hb h hr1
  rcases at_cases (e := .P i' r v) h with ⟨_, hold⟩ | ⟨hk, hnew⟩
  · obtain ⟨S, d, ⟨hS, hm⟩, hcase⟩ := X.R.H3 i' r v k hb hold hr1
    exact ⟨S, d, ⟨hS, fun j hj => ⟨(hm j hj).1, fun hp => pq_ext ((hm j hj).2.1 hp), fun hbb => before_ext ((hm j hj).2.2 hbb)⟩⟩, hcase⟩
  · obtain ⟨rfl, _, s, m, h0, ha, hv, hr, hvv⟩ := origin_P X.hst (getElem?_mem' hnew)
    obtain ⟨hroot, hjust⟩ := isValidProposal_just _ s m () hv
    have hfr : firstRound = 1 := rfl
    have hrne : m.round ≠ firstRound := by rw [hfr, ← hr]; omega
    obtain ⟨hrcs, hqrc⟩ := just_facts _ _ _ _ _ _ _ () hjust hrne
    have hauth := authentic_rc ha.1
    have hrc : ∀ rc ∈ m.rcJust, (∃ sg, rc.signers = [sg] ∧ sg ∈ P.committee) ∧ rc.dataRound ≤ m.round ∧
        (0 < rc.dataRound → QAbs.PQ (ctxT P hP (T ++ evs)) k rc.dataRound rc.root ∧ rc.root = m.root) ∧
        (∀ j, P.honest j = true → opId j ∈ rc.signers → Ev.RC j m.round rc.dataRound rc.root ∈ T) := by
      intro rc hin
      have V := validRC_facts _ _ rc _ _ _ () (hrcs rc hin)
      obtain ⟨hb1, hb2⟩ := hauth rc hin
      refine ⟨V.signer, ?_, ?_, ?_⟩
      · by_cases h0' : rc.dataRound = 0
        · omega
        · exact (V.prepared h0').2.2.2
      · intro hpos
        obtain ⟨hpms, hfd, hqp, _⟩ := V.prepared (by omega)
        refine ⟨?_, by rw [← hfd, hroot]⟩
        have hpm : ∀ pm ∈ rc.just, pm.type = tPrepare ∧ pm.round = rc.dataRound ∧ pm.root = rc.root ∧ pm.sigOk = true ∧
            ∃ sg, pm.signers = [sg] ∧ sg ∈ P.committee := by
          intro pm hpmin
          obtain ⟨a1, _, a3, a4, a5, a6⟩ := validSignedPrepare_ok _ _ _ _ _ _ (hpms pm hpmin).2
          exact ⟨a1, a3, a4, a5, a6⟩
        have hcomm : ∀ sg ∈ signersOfB rc.just, sg ∈ P.committee := by
          intro sg hsg
          obtain ⟨pm, hpmin, hs⟩ := (mem_signersOfB _ _).1 hsg
          obtain ⟨_, _, _, _, sg', e1, e2⟩ := hpm pm hpmin
          rw [e1] at hs; simp at hs; rw [hs]; exact e2
        obtain ⟨S', hS', hm'⟩ := quorum_set P _ P.quorum hcomm ((hasQuorum_iff _ _).1 hqp)
        rw [kernel_quorum P hP] at hS'
        refine pq_of_mem hk S' hS' ?_
        intro j hj hh
        obtain ⟨pm, hpmin, hs⟩ := (mem_signersOfB _ _).1 (hm' j hj)
        obtain ⟨a1, a3, a4, a5, _⟩ := hpm pm hpmin
        have := (backed_event X.hlog (hb2 pm hpmin) a5 (hpms pm hpmin).1 j hh hs).2.1 a1
        rw [a3, a4] at this
        exact this
      · intro j hh hmem
        have := (backed_event X.hlog hb1 V.sigOk V.ident j hh hmem).2.2.2 V.type
        have e : rc.toBase.round = m.round := V.round
        rw [e] at this
        exact this
    have hcommL : ∀ sg ∈ signersOfL m.rcJust, sg ∈ P.committee := by
      intro sg hsg
      obtain ⟨rc, hin, hs⟩ := (mem_signersOfL _ _).1 hsg
      obtain ⟨sg', e1, e2⟩ := (hrc rc hin).1
      rw [e1] at hs; simp at hs; rw [hs]; exact e2
    obtain ⟨S, hS, hm⟩ := quorum_set P _ P.quorum hcommL ((hasQuorum_iff _ _).1 hqrc)
    rw [kernel_quorum P hP] at hS
    let d : Op P → Nat × Nat := fun j =>
      if hx : ∃ rc, rc ∈ m.rcJust ∧ opId j ∈ rc.signers then ((Classical.choose hx).dataRound, (Classical.choose hx).root)
      else (0, 0)
    have hd : ∀ j ∈ S, ∃ rc, rc ∈ m.rcJust ∧ opId j ∈ rc.signers ∧ d j = (rc.dataRound, rc.root) := by
      intro j hj
      have hx : ∃ rc, rc ∈ m.rcJust ∧ opId j ∈ rc.signers := (mem_signersOfL _ _).1 (hm j hj)
      refine ⟨Classical.choose hx, (Classical.choose_spec hx).1, (Classical.choose_spec hx).2, ?_⟩
      simp only [d, dif_pos hx]
    refine ⟨S, d, ⟨hS, ?_⟩, ?_⟩
    · intro j hj
      obtain ⟨rc, hin, hmem, hdj⟩ := hd j hj
      obtain ⟨_, hB, hC, hD⟩ := hrc rc hin
      rw [hdj, hr]
      refine ⟨hB, fun hpos => (hC hpos).1, fun hbb => ?_⟩
      exact before_of_mem (e := .RC j m.round rc.dataRound rc.root) (hD j ((honest_iff P hP _ j).1 hbb) hmem) hk
    · have hne : S.Nonempty := by
        rw [← Finset.card_pos]; omega
      obtain ⟨js, hjs, hmax⟩ := Finset.exists_max_image S (fun j => (d j).1) hne
      by_cases hz : (d js).1 = 0
      · left
        intro j hj
        have := hmax j hj
        omega
      · right
        refine ⟨js, hjs, hmax, by omega, ?_⟩
        obtain ⟨rc, hin, _, hdj⟩ := hd js hjs
        rw [hdj] at hz ⊢
        rw [hvv]
        exact ((hrc rc hin).2.2.1 (by simp only at hz; omega)).2

end

end Ssv.Qbft.B
