/-
Registry model: frame facts, the node's own operator id versus the stored operators, what a restarted process finds.
(properties C11, C12). Core Lean only.
-/
import Ssv.Proofs.Registry

namespace Ssv.Registry

/-! ## frame facts -/

theorem stepReg_handler_db (r : RegMem) (s : Step) (hs : s.handler = true) :
    (stepReg r s).db = r.db ∧ (stepReg r s).txn.marker = r.txn.marker := by
  cases s <;> simp [Step.handler] at hs <;> simp [stepReg]

theorem foldl_stepReg_handler_db (r : RegMem) (l : List Step) (hl : ∀ s ∈ l, s.handler = true) :
    (l.foldl stepReg r).db = r.db ∧ (l.foldl stepReg r).txn.marker = r.txn.marker := by
  induction l generalizing r with
  | nil => exact ⟨rfl, rfl⟩
  | cons s l ih =>
    have h1 := stepReg_handler_db r s (hl s List.mem_cons_self)
    have h2 := ih (stepReg r s) (fun s hs => hl s (List.mem_cons_of_mem _ hs))
    exact ⟨h2.1.trans h1.1, h2.2.trans h1.2⟩

theorem regEvent_db (me blk : Nat) (r : RegMem) (e : Event) :
    (regEvent me blk r e).db = r.db ∧ (regEvent me blk r e).txn.marker = r.txn.marker :=
  foldl_stepReg_handler_db r _ (regSteps_handler me blk _ e)

/-- only OperatorAdded touches the operators and the node's own operator id -/
theorem regEvent_ops_self (me blk : Nat) (r : RegMem) (e : Event) (h : ∀ id o p, e ≠ Event.operatorAdded id o p) :
    (regEvent me blk r e).txn.ops = r.txn.ops ∧ (regEvent me blk r e).self = r.self := by
  cases e with
  | operatorAdded id owner pk => exact absurd rfl (h id owner pk)
  | operatorRemoved id => rw [regEvent_operatorRemoved]; exact ⟨rfl, rfl⟩
  | validatorAdded owner pk sn len ms => rw [regEvent_validatorAdded]; split <;> exact ⟨rfl, rfl⟩
  | validatorRemoved owner pk ops =>
    rw [regEvent_validatorRemoved]; split
    · exact ⟨rfl, rfl⟩
    · split <;> exact ⟨rfl, rfl⟩
  | validatorExited owner pk ops => rw [regEvent_validatorExited]; exact ⟨rfl, rfl⟩
  | clusterLiquidated owner ops => rw [regEvent_clusterLiquidated]; unfold clusterEffect; split <;> exact ⟨rfl, rfl⟩
  | clusterReactivated owner ops => rw [regEvent_clusterReactivated]; unfold clusterEffect; split <;> exact ⟨rfl, rfl⟩
  | feeRecipientUpdated owner fee =>
    rw [regEvent_feeRecipientUpdated]; split
    · split <;> exact ⟨rfl, rfl⟩
    · exact ⟨rfl, rfl⟩
  | unparsable => exact ⟨rfl, rfl⟩
  | unknownTopic => exact ⟨rfl, rfl⟩
  | noTopics => exact ⟨rfl, rfl⟩

/-! ## the node's own operator id and the stored operators -/

/-- ids of the OperatorAdded events -/
def addIds : List Event → List Nat
  | [] => []
  | .operatorAdded id _ _ :: es => id :: addIds es
  | _ :: es => addIds es

theorem addIds_append (a b : List Event) : addIds (a ++ b) = addIds a ++ addIds b := by
  induction a with
  | nil => rfl
  | cons e es ih => cases e <;> simp [addIds, ih]

/-- Operator ids come from the contract's counter: every OperatorAdded event carries a fresh id, and ids start at 1. -/
def OpAddsWF (evs : List Event) : Prop := (addIds evs).Nodup ∧ 0 ∉ addIds evs

theorem OpAddsWF.prefix {a b : List Event} (h : OpAddsWF (a ++ b)) : OpAddsWF a := by
  unfold OpAddsWF at *
  rw [addIds_append] at h
  exact ⟨(List.nodup_append.1 h.1).1, fun h0 => h.2 (List.mem_append_left _ h0)⟩

theorem upsertOp_of_not_has (o : OperatorRec) (l : List OperatorRec) (h : hasOp l o.id = false) : upsertOp o l = l ++ [o] := by
  induction l with
  | nil => rfl
  | cons y ys ih =>
    simp only [hasOp, List.any_cons, Bool.or_eq_false_iff] at h
    have : (y.id == o.id) = false := h.1
    simp only [upsertOp, this, Bool.false_eq_true, ↓reduceIte, List.cons_append, List.cons.injEq, true_and]
    exact ih (by simpa [hasOp] using h.2)

/-- the node's own operator id is the id of the (only) stored operator with the node's key; the operators written in
    the open transaction are the committed ones plus those added by the events seen so far -/
structure SelfInv (me : Nat) (evs : List Event) (r : RegMem) : Prop where
  nz : ∀ o ∈ r.txn.ops, o.id ≠ 0
  own : ∀ o ∈ r.txn.ops, o.pk = me → o.id = r.self
  has : r.self ≠ 0 → ∃ o ∈ r.txn.ops, o.id = r.self ∧ o.pk = me
  pend : ∀ id, hasOp r.txn.ops id = true → hasOp r.db.ops id = true ∨ id ∈ addIds evs
  mono : ∀ id, hasOp r.db.ops id = true → hasOp r.txn.ops id = true

theorem regEvent_selfInv (me blk : Nat) (r : RegMem) (e : Event) (evs : List Event)
    (h : SelfInv me evs r) (hwf : OpAddsWF (evs ++ [e])) : SelfInv me (evs ++ [e]) (regEvent me blk r e) := by
  have hdb := (regEvent_db me blk r e).1
  by_cases hoa : ∀ id o p, e ≠ Event.operatorAdded id o p
  · obtain ⟨hops, hself⟩ := regEvent_ops_self me blk r e hoa
    refine ⟨?_, ?_, ?_, ?_, ?_⟩
    · rw [hops]; exact h.nz
    · rw [hops, hself]; exact h.own
    · rw [hops, hself]; exact h.has
    · rw [hops, hdb]; intro id hid
      rcases h.pend id hid with h1 | h1
      · exact Or.inl h1
      · exact Or.inr (by rw [addIds_append]; exact List.mem_append_left _ h1)
    · rw [hops, hdb]; exact h.mono
  · -- OperatorAdded
    have : ∃ id o p, e = Event.operatorAdded id o p := by
      cases e with
      | operatorAdded id o p => exact ⟨id, o, p, rfl⟩
      | _ => exact absurd (by intro _ _ _ h; cases h) hoa
    obtain ⟨id, owner, pk, rfl⟩ := this
    have hfresh : id ∉ addIds evs ∧ id ≠ 0 := by
      unfold OpAddsWF at hwf
      rw [addIds_append] at hwf
      simp only [addIds] at hwf
      refine ⟨fun hin => ?_, fun h0 => hwf.2 (by simp [h0])⟩
      have := (List.nodup_append.1 hwf.1).2.2 id hin id (by simp)
      exact this rfl
    have hpend' : ∀ i, hasOp r.txn.ops i = true → hasOp r.db.ops i = true ∨ i ∈ addIds (evs ++ [Event.operatorAdded id owner pk]) := by
      intro i hi
      rcases h.pend i hi with h1 | h1
      · exact Or.inl h1
      · exact Or.inr (by rw [addIds_append]; exact List.mem_append_left _ h1)
    have same : SelfInv me (evs ++ [Event.operatorAdded id owner pk]) r := ⟨h.nz, h.own, h.has, hpend', h.mono⟩
    rw [regEvent_operatorAdded]
    split
    · exact same
    · rename_i hmal
      split
      · exact same
      · rename_i hex
        -- the id is not stored yet, neither in the database nor in the transaction
        have hnot : hasOp r.txn.ops id = false := by
          cases hh : hasOp r.txn.ops id with
          | false => rfl
          | true =>
            rcases h.pend id hh with h1 | h1
            · exact absurd h1 hex
            · exact absurd h1 hfresh.1
        have happ : upsertOp ⟨id, pk, owner⟩ r.txn.ops = r.txn.ops ++ [⟨id, pk, owner⟩] := upsertOp_of_not_has _ _ hnot
        have hpendN : ∀ i, hasOp (r.txn.ops ++ [⟨id, pk, owner⟩]) i = true →
            hasOp r.db.ops i = true ∨ i ∈ addIds (evs ++ [Event.operatorAdded id owner pk]) := by
          intro i hi
          obtain ⟨x, hx, hxi⟩ := (hasOp_iff _ _).1 hi
          rcases List.mem_append.1 hx with hx | hx
          · exact hpend' i ((hasOp_iff _ _).2 ⟨x, hx, hxi⟩)
          · simp at hx; subst hx
            exact Or.inr (by rw [addIds_append]; simp [addIds, ← hxi])
        have hmonoN : ∀ i, hasOp r.db.ops i = true → hasOp (r.txn.ops ++ [⟨id, pk, owner⟩]) i = true := by
          intro i hi
          obtain ⟨x, hx, hxi⟩ := (hasOp_iff _ _).1 (h.mono i hi)
          exact (hasOp_iff _ _).2 ⟨x, List.mem_append_left _ hx, hxi⟩
        split
        · rename_i hme
          have hpk : pk = me := by simpa using hme
          -- not malformed: the node does not know an own id yet, or it is this id
          have hself0 : r.self = 0 := by
            cases hs0 : (r.self != 0) with
            | false => simpa using hs0
            | true =>
              have hsid : r.self = id := by
                cases hsi : (r.self != id) with
                | false => simpa using hsi
                | true => simp [hs0, hme, hsi] at hmal
              have hs0' : r.self ≠ 0 := by simpa using hs0
              obtain ⟨o, ho, hoid, _⟩ := h.has hs0'
              have : hasOp r.txn.ops id = true := (hasOp_iff _ _).2 ⟨o, ho, hoid.trans hsid⟩
              rw [hnot] at this; cases this
          have hnoown : ∀ o ∈ r.txn.ops, o.pk ≠ me := by
            intro o ho hpo
            exact h.nz o ho ((h.own o ho hpo).trans hself0)
          refine ⟨?_, ?_, ?_, ?_, ?_⟩
          · simp only [happ]; intro o ho
            rcases List.mem_append.1 ho with ho | ho
            · exact h.nz o ho
            · simp at ho; subst ho; exact hfresh.2
          · simp only [happ]; intro o ho hpo
            rcases List.mem_append.1 ho with ho | ho
            · exact absurd hpo (hnoown o ho)
            · simp at ho; subst ho; rfl
          · simp only [happ]; intro _
            exact ⟨⟨id, pk, owner⟩, by simp, rfl, hpk⟩
          · simp only [happ]; exact hpendN
          · simp only [happ]; exact hmonoN
        · rename_i hme
          have hpk : pk ≠ me := by simpa using hme
          refine ⟨?_, ?_, ?_, ?_, ?_⟩
          · simp only [happ]; intro o ho
            rcases List.mem_append.1 ho with ho | ho
            · exact h.nz o ho
            · simp at ho; subst ho; exact hfresh.2
          · simp only [happ]; intro o ho hpo
            rcases List.mem_append.1 ho with ho | ho
            · exact h.own o ho hpo
            · simp at ho; subst ho; exact absurd hpo hpk
          · simp only [happ]; intro hs
            obtain ⟨o, ho, h1, h2⟩ := h.has hs
            exact ⟨o, List.mem_append_left _ ho, h1, h2⟩
          · simp only [happ]; exact hpendN
          · simp only [happ]; exact hmonoN

/-! ## what a restarted process finds -/

/-- the step function of `firstOwn` -/
def firstOwnStep (me : Nat) (best : Option OperatorRec) (o : OperatorRec) : Option OperatorRec :=
  if o.pk == me then
    match best with
    | none => some o
    | some b => if lexLt (decKey o.id) (decKey b.id) then some o else some b
  else best

theorem firstOwn_eq (me : Nat) (ops : List OperatorRec) : firstOwn me ops = ops.foldl (firstOwnStep me) none := rfl

theorem foldl_firstOwn_some (me : Nat) (l : List OperatorRec) (best : Option OperatorRec) (o : OperatorRec)
    (h : l.foldl (firstOwnStep me) best = some o) : best = some o ∨ (o ∈ l ∧ o.pk = me) := by
  induction l generalizing best with
  | nil => exact Or.inl h
  | cons y ys ih =>
    simp only [List.foldl_cons] at h
    rcases ih _ h with h1 | ⟨h1, h2⟩
    · unfold firstOwnStep at h1
      by_cases hy : (y.pk == me) = true
      · simp only [hy, ↓reduceIte] at h1
        cases best with
        | none => simp at h1; subst h1; exact Or.inr ⟨List.mem_cons_self, by simpa using hy⟩
        | some b =>
          simp only at h1
          split at h1
          · simp at h1; subst h1; exact Or.inr ⟨List.mem_cons_self, by simpa using hy⟩
          · exact Or.inl h1
      · simp only [hy, Bool.false_eq_true, ↓reduceIte] at h1
        exact Or.inl h1
    · exact Or.inr ⟨List.mem_cons_of_mem _ h1, h2⟩

theorem foldl_firstOwn_none (me : Nat) (l : List OperatorRec) (best : Option OperatorRec)
    (h : l.foldl (firstOwnStep me) best = none) : best = none ∧ ∀ o ∈ l, o.pk ≠ me := by
  induction l generalizing best with
  | nil => exact ⟨h, by simp⟩
  | cons y ys ih =>
    simp only [List.foldl_cons] at h
    obtain ⟨h1, h2⟩ := ih _ h
    unfold firstOwnStep at h1
    by_cases hy : (y.pk == me) = true
    · simp only [hy, ↓reduceIte] at h1
      cases best with
      | none => simp at h1
      | some b => simp only at h1; split at h1 <;> simp at h1
    · simp only [hy, Bool.false_eq_true, ↓reduceIte] at h1
      refine ⟨h1, ?_⟩
      intro o ho
      rcases List.mem_cons.1 ho with rfl | ho
      · simpa using hy
      · exact h2 o ho

theorem lookupSelf_eq (me self : Nat) (ops : List OperatorRec)
    (hown : ∀ o ∈ ops, o.pk = me → o.id = self)
    (hhas : self ≠ 0 → ∃ o ∈ ops, o.id = self ∧ o.pk = me) : lookupSelf me ops = self := by
  unfold lookupSelf
  cases hf : firstOwn me ops with
  | some o =>
    rw [firstOwn_eq] at hf
    rcases foldl_firstOwn_some me ops none o hf with h | ⟨h1, h2⟩
    · cases h
    · exact hown o h1 h2
  | none =>
    rw [firstOwn_eq] at hf
    have := (foldl_firstOwn_none me ops none hf).2
    by_cases hs : self = 0
    · exact hs.symm
    · obtain ⟨o, ho, _, hpk⟩ := hhas hs
      exact absurd hpk (this o ho)

theorem commitReg_selfInv {me : Nat} {evs : List Event} {x : RegMem} (m : Nat) (h : SelfInv me evs x) :
    SelfInv me evs (commitReg x m) :=
  ⟨by simpa [commitReg] using h.nz, by simpa [commitReg] using h.own, by simpa [commitReg] using h.has,
    by intro id hid; exact Or.inl (by simpa [commitReg] using hid), by intro id hid; simpa [commitReg] using hid⟩

/-- run-level: between blocks the own operator id in memory is what a restart would find -/
theorem regRun_selfInv (me : Nat) (r : RegMem) (bs : List Block) (hb : r.txn = r.db) (h : SelfInv me [] r)
    (hwf : OpAddsWF (flatten bs)) (hok : (regRun me r bs).2 = true) :
    SelfInv me (flatten bs) (regRun me r bs).1 := by
  have hbeg : ∀ x : RegMem, x.txn = x.db → beginReg x = x := by
    intro x hx; cases x; simp only [beginReg] at *; simp [hx]
  have := regRun_induction me
    (fun evs x => x.txn = x.db ∧ (OpAddsWF evs → SelfInv me evs x))
    (fun evs x => OpAddsWF evs → SelfInv me evs x)
    (by intro evs x h hw; rw [hbeg x h.1]; exact h.2 hw)
    (by intro evs x blk e h _ hw; exact regEvent_selfInv me blk x e evs (h hw.prefix) hw)
    (by intro evs x m h; exact ⟨rfl, fun hw => commitReg_selfInv m (h hw)⟩)
    bs [] r ⟨hb, fun _ => h⟩ hok
  exact this.2 (by simpa using hwf)

end Ssv.Registry
