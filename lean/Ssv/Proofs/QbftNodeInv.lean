/-
C01 Layer B, part 4 — the per-node invariant that couples the instance state with the ghost trace, and its preservation
by every node transition (`NStep`).
-/
import Ssv.Proofs.QbftNodeTrace
set_option linter.unusedSimpArgs false
set_option linter.unusedVariables false

namespace Ssv.Qbft.B
open Ssv.Qbft

/-- what the log records of a broadcast: sent by a correct operator, for the height, and reflected in the trace -/
def LogOK (P : Params) (T : List (Ev (Op P))) (m : Msg) : Prop :=
  ∃ i : Op P, P.honest i = true ∧ m.signers = [opId i] ∧ m.height = P.height ∧
    (m.type = tPrepare → Ev.P i m.round m.root ∈ T) ∧
    (m.type = tCommit → Ev.K i m.round m.root ∈ T) ∧
    (m.type = tRoundChange → Ev.RC i m.round m.dataRound m.root ∈ T)

theorem LogOK.ext {P : Params} {T : List (Ev (Op P))} {m : Msg} (h : LogOK P T m) (evs : List (Ev (Op P))) :
    LogOK P (T ++ evs) m := by
  obtain ⟨i, h1, h2, h3, h4, h5, h6⟩ := h
  exact ⟨i, h1, h2, h3, fun t => List.mem_append_left _ (h4 t), fun t => List.mem_append_left _ (h5 t),
    fun t => List.mem_append_left _ (h6 t)⟩

/-- unforgeability at work: a verified signed part listing a correct operator is reflected in the trace -/
theorem backed_event {P : Params} {T : List (Ev (Op P))} {log : List Msg} (hlog : ∀ m ∈ log, LogOK P T m)
    {b : Base} (hb : backed P log b = true) (hs : b.sigOk = true) (hid : b.ident = ownIdent) (j : Op P)
    (hj : P.honest j = true) (hmem : opId j ∈ b.signers) :
    b.height = P.height ∧ (b.type = tPrepare → Ev.P j b.round b.root ∈ T) ∧
    (b.type = tCommit → Ev.K j b.round b.root ∈ T) ∧
    (b.type = tRoundChange → Ev.RC j b.round b.dataRound b.root ∈ T) := by
  unfold backed at hb
  simp only [hs, hid, bne_self_eq_false, Bool.not_true, Bool.false_or, List.all_eq_true, Bool.or_eq_true, Bool.not_eq_true',
    List.any_eq_true] at hb
  rcases hb (opId j) hmem with h | ⟨m', hm', hsame⟩
  · rw [(honestId_iff P j).2 hj] at h; exact absurd h (by simp)
  · obtain ⟨i, _, h2, h3, h4, h5, h6⟩ := hlog m' hm'
    unfold sameSigned at hsame
    simp only [Bool.and_eq_true, beq_iff_eq] at hsame
    obtain ⟨⟨⟨⟨⟨⟨e1, e2⟩, e3⟩, e4⟩, e5⟩, e6⟩, _⟩ := hsame
    have hij : i = j := by
      rw [h2] at e1
      exact opId_inj (by simpa using e1)
    subst hij
    rw [← e2, ← e3, ← e4, ← e5, ← e6]
    exact ⟨h3, h4, h5, h6⟩

/-- a stored prepare: single committee signer; if that signer is correct it accepted the proposal (round, root) -/
def PrepOK (P : Params) (T : List (Ev (Op P))) (x : Msg) : Prop :=
  ∃ sg, x.signers = [sg] ∧ sg ∈ P.committee ∧ ∀ j, P.honest j = true → opId j = sg → Ev.P j x.round x.root ∈ T

/-- how a stored prepare relates to the propose container: it matches the proposal of its round, or it was added while the
    accepted proposal was of another round (possible only after a decided message moved the round) -/
def PrepKind {P : Params} (T : List (Ev (Op P))) (i : Op P) (s : State) (x : Msg) : Prop :=
  (∃ q ∈ s.propose, q.round = x.round ∧ q.root = x.root) ∨
  ((∃ rc, Ev.G i rc ∈ T) ∧
    (x.round < s.round ∨ (x.round = s.round ∧ ∃ q, s.accepted = some q ∧ q.round ≠ s.round ∧ x.root = q.root)))

/-- a stored commit / decided message: distinct committee signers, every correct one broadcast that commit -/
def CommitOK (P : Params) (T : List (Ev (Op P))) (x : Msg) : Prop :=
  x.signers.Nodup ∧ (∀ s ∈ x.signers, s ∈ P.committee) ∧
  ∀ j, P.honest j = true → opId j ∈ x.signers → Ev.K j x.round x.root ∈ T

structure NodeInv (P : Params) (T : List (Ev (Op P))) (i : Op P) (s : State) : Prop where
  height : s.height = P.height
  round : 1 ≤ s.round
  propGood : ∀ q ∈ s.propose, GoodProposal (P.cfg i) P.height q
  propUniq : ∀ q ∈ s.propose, ∀ q' ∈ s.propose, q.round = q'.round → q.root = q'.root
  propEv : ∀ q ∈ s.propose, Ev.P i q.round q.root ∈ T
  evProp : ∀ r v, Ev.P i r v ∈ T → ∃ q ∈ s.propose, q.round = r ∧ q.root = v
  acc : ∀ p, s.accepted = some p → p ∈ s.propose ∧ (p.round ≠ s.round → ∃ rc, Ev.G i rc ∈ T)
  gRound : ∀ rc, Ev.G i rc ∈ T → rc ≤ s.round ∧ s.decided = true
  propLe : (∀ rc, Ev.G i rc ∉ T) → ∀ q ∈ s.propose, q.round ≤ s.round
  low : ∀ p, s.accepted = some p → p.round < s.round → ∀ q ∈ s.propose, q.round < s.round
  prep : ∀ x ∈ s.prepare, PrepOK P T x ∧ PrepKind T i s x
  lock : s.lastPreparedRound ≠ 0 → s.lastPreparedValue ≠ 0
  kLock : ∀ (k1 r v : Nat), T[k1]? = some (Ev.K i r v) → (∀ (g rc : Nat), k1 < g → T[g]? = some (Ev.G i rc) → r ≤ rc) →
    r ≤ s.round ∧ r ≤ s.lastPreparedRound
  rcRound : ∀ (k1 r' pr pv : Nat), T[k1]? = some (Ev.RC i r' pr pv) →
    r' ≤ s.round ∨ ∃ (g rc : Nat), k1 < g ∧ T[g]? = some (Ev.G i rc) ∧ rc ≤ s.round
  commits : ∀ x ∈ s.commit, CommitOK P T x
  dec : s.decided = true → ∃ r, Ev.D i r s.decidedValue ∈ T

/-- the invariant of a node: no instance yet ⇒ no events yet -/
def NodeInvO (P : Params) (T : List (Ev (Op P))) (i : Op P) : Option State → Prop
  | none => ∀ e ∈ T, e.node ≠ i
  | some s => NodeInv P T i s

theorem PrepOK.ext {P : Params} {T : List (Ev (Op P))} {x : Msg} (h : PrepOK P T x) (evs : List (Ev (Op P))) :
    PrepOK P (T ++ evs) x := by
  obtain ⟨sg, h1, h2, h3⟩ := h
  exact ⟨sg, h1, h2, fun j hj e => List.mem_append_left _ (h3 j hj e)⟩

theorem CommitOK.ext {P : Params} {T : List (Ev (Op P))} {x : Msg} (h : CommitOK P T x) (evs : List (Ev (Op P))) :
    CommitOK P (T ++ evs) x :=
  ⟨h.1, h.2.1, fun j hj e => List.mem_append_left _ (h.2.2 j hj e)⟩

theorem PrepKind.ext {P : Params} {T : List (Ev (Op P))} {i : Op P} {s : State} {x : Msg} (h : PrepKind T i s x)
    (evs : List (Ev (Op P))) : PrepKind (T ++ evs) i s x := by
  rcases h with h | ⟨⟨rc, hg⟩, h⟩
  · exact Or.inl h
  · exact Or.inr ⟨⟨rc, List.mem_append_left _ hg⟩, h⟩

theorem mem_append_foreign {α : Type} {T evs : List α} {e : α} (h : e ∈ T ++ evs) (hf : e ∉ evs) : e ∈ T := by
  rcases List.mem_append.1 h with h | h
  · exact h
  · exact absurd h hf

theorem getElem?_append_foreign {α : Type} {T evs : List α} {k : Nat} {e : α} (h : (T ++ evs)[k]? = some e) (hf : e ∉ evs) :
    T[k]? = some e := by
  rcases getElem?_append_cases h with ⟨_, h⟩ | ⟨_, h⟩
  · exact h
  · exact absurd (getElem?_mem' h) hf

/-- extending the trace by events that are not P/K/RC/G events of this node keeps its invariant -/
theorem NodeInv.ext {P : Params} {T : List (Ev (Op P))} {i : Op P} {s : State} (h : NodeInv P T i s)
    (evs : List (Ev (Op P))) (hP : ∀ r v, Ev.P i r v ∉ evs) (hK : ∀ r v, Ev.K i r v ∉ evs)
    (hRC : ∀ r pr pv, Ev.RC i r pr pv ∉ evs) (hG : ∀ rc, Ev.G i rc ∉ evs) : NodeInv P (T ++ evs) i s where
  height := h.height
  round := h.round
  propGood := h.propGood
  propUniq := h.propUniq
  propEv := fun q hq => List.mem_append_left _ (h.propEv q hq)
  evProp := fun r v hm => h.evProp r v (mem_append_foreign hm (hP r v))
  acc := fun p hp => ⟨(h.acc p hp).1, fun hne => by
    obtain ⟨rc, hg⟩ := (h.acc p hp).2 hne; exact ⟨rc, List.mem_append_left _ hg⟩⟩
  gRound := fun rc hm => h.gRound rc (mem_append_foreign hm (hG rc))
  propLe := fun hn => h.propLe (fun rc hm => hn rc (List.mem_append_left _ hm))
  low := h.low
  prep := fun x hx => ⟨(h.prep x hx).1.ext evs, (h.prep x hx).2.ext evs⟩
  lock := h.lock
  kLock := fun k1 r v hk hg =>
    h.kLock k1 r v (getElem?_append_foreign hk (hK r v)) (fun g rc hlt hgg => hg g rc hlt (getElem?_append_old hgg))
  rcRound := fun k1 r' pr pv hk => by
    rcases h.rcRound k1 r' pr pv (getElem?_append_foreign hk (hRC r' pr pv)) with h1 | ⟨g, rc, h1, h2, h3⟩
    · exact Or.inl h1
    · exact Or.inr ⟨g, rc, h1, getElem?_append_old h2, h3⟩
  commits := fun x hx => (h.commits x hx).ext evs
  dec := fun hd => by obtain ⟨r, hr⟩ := h.dec hd; exact ⟨r, List.mem_append_left _ hr⟩

theorem getElem?_append_single {α : Type} {T : List α} {k : Nat} {e x : α} (h : (T ++ [x])[k]? = some e) :
    T[k]? = some e ∨ (k = T.length ∧ e = x) := by
  rcases getElem?_append_cases h with ⟨_, h⟩ | ⟨hk, h⟩
  · exact Or.inl h
  · right
    have hlt := getElem?_lt h
    simp only [List.length_singleton] at hlt
    have hk0 : k - T.length = 0 := by omega
    rw [hk0] at h
    simp at h
    exact ⟨by omega, h.symm⟩

/-- appending this node's commit event for a round that is both reached and locked -/
theorem NodeInv.ext_K {P : Params} {T : List (Ev (Op P))} {i : Op P} {s : State} (h : NodeInv P T i s)
    (r v : Nat) (h1 : r ≤ s.round) (h2 : r ≤ s.lastPreparedRound) : NodeInv P (T ++ [Ev.K i r v]) i s where
  height := h.height
  round := h.round
  propGood := h.propGood
  propUniq := h.propUniq
  propEv := fun q hq => List.mem_append_left _ (h.propEv q hq)
  evProp := fun r v hm => h.evProp r v (mem_append_foreign hm (by simp))
  acc := fun p hp => ⟨(h.acc p hp).1, fun hne => by
    obtain ⟨rc, hg⟩ := (h.acc p hp).2 hne; exact ⟨rc, List.mem_append_left _ hg⟩⟩
  gRound := fun rc hm => h.gRound rc (mem_append_foreign hm (by simp))
  propLe := fun hn => h.propLe (fun rc hm => hn rc (List.mem_append_left _ hm))
  low := h.low
  prep := fun x hx => ⟨(h.prep x hx).1.ext _, (h.prep x hx).2.ext _⟩
  lock := h.lock
  kLock := fun k1 r' v' hk hg => by
    rcases getElem?_append_single hk with hk | ⟨_, he⟩
    · exact h.kLock k1 r' v' hk (fun g rc hlt hgg => hg g rc hlt (getElem?_append_old hgg))
    · cases he; exact ⟨h1, h2⟩
  rcRound := fun k1 r' pr pv hk => by
    rcases h.rcRound k1 r' pr pv (getElem?_append_foreign hk (by simp)) with h1 | ⟨g, rc, h1, h2, h3⟩
    · exact Or.inl h1
    · exact Or.inr ⟨g, rc, h1, getElem?_append_old h2, h3⟩
  commits := fun x hx => (h.commits x hx).ext _
  dec := fun hd => by obtain ⟨r, hr⟩ := h.dec hd; exact ⟨r, List.mem_append_left _ hr⟩

/-- appending this node's round-change event for a round that is reached -/
theorem NodeInv.ext_RC {P : Params} {T : List (Ev (Op P))} {i : Op P} {s : State} (h : NodeInv P T i s)
    (r pr pv : Nat) (h1 : r ≤ s.round) : NodeInv P (T ++ [Ev.RC i r pr pv]) i s where
  height := h.height
  round := h.round
  propGood := h.propGood
  propUniq := h.propUniq
  propEv := fun q hq => List.mem_append_left _ (h.propEv q hq)
  evProp := fun r v hm => h.evProp r v (mem_append_foreign hm (by simp))
  acc := fun p hp => ⟨(h.acc p hp).1, fun hne => by
    obtain ⟨rc, hg⟩ := (h.acc p hp).2 hne; exact ⟨rc, List.mem_append_left _ hg⟩⟩
  gRound := fun rc hm => h.gRound rc (mem_append_foreign hm (by simp))
  propLe := fun hn => h.propLe (fun rc hm => hn rc (List.mem_append_left _ hm))
  low := h.low
  prep := fun x hx => ⟨(h.prep x hx).1.ext _, (h.prep x hx).2.ext _⟩
  lock := h.lock
  kLock := fun k1 r' v' hk hg =>
    h.kLock k1 r' v' (getElem?_append_foreign hk (by simp)) (fun g rc hlt hgg => hg g rc hlt (getElem?_append_old hgg))
  rcRound := fun k1 r' pr' pv' hk => by
    rcases getElem?_append_single hk with hk | ⟨_, he⟩
    · rcases h.rcRound k1 r' pr' pv' hk with h1 | ⟨g, rc, h1, h2, h3⟩
      · exact Or.inl h1
      · exact Or.inr ⟨g, rc, h1, getElem?_append_old h2, h3⟩
    · cases he; exact Or.inl h1
  commits := fun x hx => (h.commits x hx).ext _
  dec := fun hd => by obtain ⟨r, hr⟩ := h.dec hd; exact ⟨r, List.mem_append_left _ hr⟩

/-! ### state updates under a fixed trace -/

theorem NodeInv.upd_roundChange {P : Params} {T : List (Ev (Op P))} {i : Op P} {s : State} (h : NodeInv P T i s)
    (X : Container) : NodeInv P T i { s with roundChange := X } :=
  ⟨h.height, h.round, h.propGood, h.propUniq, h.propEv, h.evProp, h.acc, h.gRound, h.propLe, h.low, h.prep, h.lock,
    h.kLock, h.rcRound, h.commits, h.dec⟩

theorem NodeInv.upd_commit {P : Params} {T : List (Ev (Op P))} {i : Op P} {s : State} (h : NodeInv P T i s)
    (m : Msg) (hm : CommitOK P T m) : NodeInv P T i { s with commit := s.commit ++ [m] } :=
  ⟨h.height, h.round, h.propGood, h.propUniq, h.propEv, h.evProp, h.acc, h.gRound, h.propLe, h.low, h.prep, h.lock,
    h.kLock, h.rcRound,
    fun x hx => by
      rcases List.mem_append.1 hx with hx | hx
      · exact h.commits x hx
      · simp at hx; subst hx; exact hm,
    h.dec⟩

theorem NodeInv.upd_prepare {P : Params} {T : List (Ev (Op P))} {i : Op P} {s : State} (h : NodeInv P T i s)
    (m : Msg) (hm : PrepOK P T m) (hk : PrepKind T i s m) : NodeInv P T i { s with prepare := s.prepare ++ [m] } :=
  ⟨h.height, h.round, h.propGood, h.propUniq, h.propEv, h.evProp, h.acc, h.gRound, h.propLe, h.low,
    fun x hx => by
      rcases List.mem_append.1 hx with hx | hx
      · exact h.prep x hx
      · simp at hx; subst hx; exact ⟨hm, hk⟩,
    h.lock, h.kLock, h.rcRound, h.commits, h.dec⟩

theorem NodeInv.upd_lock {P : Params} {T : List (Ev (Op P))} {i : Op P} {s : State} (h : NodeInv P T i s)
    (v : Nat) (hv : v ≠ 0) : NodeInv P T i { s with lastPreparedValue := v, lastPreparedRound := s.round } :=
  ⟨h.height, h.round, h.propGood, h.propUniq, h.propEv, h.evProp, h.acc, h.gRound, h.propLe, h.low, h.prep,
    fun _ => hv,
    fun k1 r w hk hg => ⟨(h.kLock k1 r w hk hg).1, (h.kLock k1 r w hk hg).1⟩,
    h.rcRound, h.commits, h.dec⟩

theorem NodeInv.upd_decided {P : Params} {T : List (Ev (Op P))} {i : Op P} {s : State} (h : NodeInv P T i s)
    (v : Nat) (hd : ∃ r, Ev.D i r v ∈ T) : NodeInv P T i { s with decided := true, decidedValue := v } :=
  ⟨h.height, h.round, h.propGood, h.propUniq, h.propEv, h.evProp, h.acc,
    fun rc hg => ⟨(h.gRound rc hg).1, rfl⟩,
    h.propLe, h.low, h.prep, h.lock, h.kLock, h.rcRound, h.commits, fun _ => hd⟩

theorem NodeInv.upd_jump {P : Params} {T : List (Ev (Op P))} {i : Op P} {s : State} (h : NodeInv P T i s)
    (X : Container) (R : Nat) (hR : s.round < R) :
    NodeInv P T i { s with roundChange := X, round := R, accepted := none } where
  height := h.height
  round := le_trans h.round (Nat.le_of_lt hR)
  propGood := h.propGood
  propUniq := h.propUniq
  propEv := h.propEv
  evProp := h.evProp
  acc := fun p hp => by simp at hp
  gRound := fun rc hg => ⟨le_trans (h.gRound rc hg).1 (Nat.le_of_lt hR), (h.gRound rc hg).2⟩
  propLe := fun hn q hq => le_trans (h.propLe hn q hq) (Nat.le_of_lt hR)
  low := fun p hp => by simp at hp
  prep := fun x hx => by
    refine ⟨(h.prep x hx).1, ?_⟩
    rcases (h.prep x hx).2 with hF | ⟨hg, hS⟩
    · exact Or.inl hF
    · refine Or.inr ⟨hg, Or.inl ?_⟩
      show x.round < R
      rcases hS with hS | ⟨hS, _⟩ <;> omega
  lock := h.lock
  kLock := fun k1 r v hk hg => ⟨le_trans (h.kLock k1 r v hk hg).1 (Nat.le_of_lt hR), (h.kLock k1 r v hk hg).2⟩
  rcRound := fun k1 r' pr pv hk => by
    rcases h.rcRound k1 r' pr pv hk with h1 | ⟨g, rc, h1, h2, h3⟩
    · exact Or.inl (le_trans h1 (Nat.le_of_lt hR))
    · exact Or.inr ⟨g, rc, h1, h2, le_trans h3 (Nat.le_of_lt hR)⟩
  commits := h.commits
  dec := h.dec

end Ssv.Qbft.B
