/-
C01 Layer B, part 1 — transition specifications of the instance functions (`processMsg`, `uponRoundTimeout`, `start`):
every step is one of a small number of exact state updates with an exact description of what was broadcast.
All later invariants reason on these cases and never unfold the model again. Core Lean only.
-/
import Ssv.Model.Qbft.SystemB
import Ssv.Proofs.QbftFaultFree
import Ssv.Proofs.QbftCompact
set_option linter.unusedSimpArgs false
set_option linter.unusedVariables false

namespace Ssv.Qbft.B
open Ssv.Qbft

/-! ### broadcast lists -/

theorem bcasts_append (a b : List Out) : bcasts (a ++ b) = bcasts a ++ bcasts b := by
  induction a with
  | nil => rfl
  | cons o rest ih => cases o <;> simp [bcasts, ih]

@[simp] theorem bcasts_nil : bcasts [] = [] := rfl
@[simp] theorem bcasts_timer (h r : Nat) : bcasts [.timer h r] = [] := rfl
@[simp] theorem bcasts_bcast (m : Msg) : bcasts [.bcast m] = [m] := rfl

theorem outEvents_append {N : Type} (i : N) (a b : List Out) : outEvents i (a ++ b) = outEvents i a ++ outEvents i b := by
  induction a with
  | nil => rfl
  | cons o rest ih => cases o <;> simp [outEvents, ih]

/-- the events of instance outputs are the events of the broadcast messages -/
theorem outEvents_inst {N : Type} (i : N) (l : List Out) (h : OutsInst l) : outEvents i l = (bcasts l).flatMap (msgEvents i) := by
  induction l with
  | nil => rfl
  | cons o rest ih =>
    have hr : OutsInst rest := fun x hx => h x (List.mem_cons_of_mem _ hx)
    rcases h o List.mem_cons_self with ⟨m, rfl⟩ | ⟨a, b, rfl⟩
    · simp [outEvents, bcasts, ih hr]
    · simp [outEvents, bcasts, ih hr]

theorem sendOr_bcasts (cfg : Cfg) (s : State) (a : Atom) (m : Msg) (pre : List Out) :
    bcasts (sendOr cfg s a m pre).outs = bcasts pre ∨ bcasts (sendOr cfg s a m pre).outs = bcasts pre ++ [m] := by
  unfold sendOr broadcast
  by_cases hc : canProcess cfg s = true
  · right; simp [hc, wrap, okStep, bcasts_append, pure, Except.pure]
  · left
    have hc' : canProcess cfg s = false := by simpa using hc
    simp [hc', wrap, fail, failStep]

theorem broadcast_bcasts (cfg : Cfg) (s : State) (m : Msg) (o : List Out) (h : broadcast cfg s m = .ok o) : bcasts o = [m] := by
  unfold broadcast at h
  split at h
  · simp [pure, Except.pure] at h; subst h; rfl
  · simp [fail] at h

theorem addFirst_cases (c : Container) (m : Msg) :
    ((addFirst c m).2 = false ∧ (addFirst c m).1 = c) ∨
    ((addFirst c m).2 = true ∧ (addFirst c m).1 = c ++ [m] ∧
      ∀ e ∈ c, e.round = m.round → matchedSigners e.signers m.signers = false) := by
  unfold addFirst
  split
  · left; exact ⟨rfl, rfl⟩
  · rename_i h
    right
    refine ⟨rfl, rfl, ?_⟩
    intro e he hr
    simp only [List.any_eq_true, not_exists, not_and, Bool.not_eq_true] at h
    apply h e
    unfold forRound
    exact List.mem_filter.2 ⟨he, by simpa using hr⟩

/-! ### per-function specifications -/

theorem uponProposal_spec (cfg : Cfg) (s : State) (m : Msg) :
    ((uponProposal cfg s m).st = s ∧ bcasts (uponProposal cfg s m).outs = [] ∧ NoAgg (uponProposal cfg s m)) ∨
    ((∀ e ∈ s.propose, e.round = m.round → matchedSigners e.signers m.signers = false) ∧
     (uponProposal cfg s m).st = { s with propose := s.propose ++ [m], accepted := some m, round := m.round } ∧
     (bcasts (uponProposal cfg s m).outs = [] ∨
      bcasts (uponProposal cfg s m).outs = [createPrepare cfg s m.round (hashData m.fullData)]) ∧
     NoAgg (uponProposal cfg s m)) := by
  unfold uponProposal
  rcases addFirst_cases s.propose m with ⟨h2, h1⟩ | ⟨h2, h1, hnew⟩
  · left
    simp only [h2, h1, Bool.not_false, if_true]
    exact ⟨rfl, rfl, okStep_noAgg _ _⟩
  · right
    simp only [h2, h1, Bool.not_true, Bool.false_eq_true, if_false]
    refine ⟨hnew, by rw [sendOr_st], ?_, sendOr_noAgg _ _ _ _ _⟩
    have hpre : bcasts (if m.round > s.round then [Out.timer m.height m.round] else []) = [] := by
      split <;> rfl
    rcases sendOr_bcasts cfg { s with propose := s.propose ++ [m], accepted := some m, round := m.round } .bcastPrepareFailed
      (createPrepare cfg { s with propose := s.propose ++ [m], accepted := some m, round := m.round } m.round (hashData m.fullData))
      (if m.round > s.round then [Out.timer m.height m.round] else []) with h | h
    · left; rw [h, hpre]
    · right; rw [h, hpre]; rfl

theorem uponPrepare_spec (cfg : Cfg) (s : State) (m : Msg) (p : Msg) (hacc : s.accepted = some p) :
    ((uponPrepare cfg s m).st = s ∧ bcasts (uponPrepare cfg s m).outs = [] ∧ NoAgg (uponPrepare cfg s m)) ∨
    ((uponPrepare cfg s m).st = { s with prepare := s.prepare ++ [m] } ∧ bcasts (uponPrepare cfg s m).outs = [] ∧
      NoAgg (uponPrepare cfg s m)) ∨
    (cfg.hasQuorum (signersOf (forRound (s.prepare ++ [m]) s.round)) = true ∧
     (uponPrepare cfg s m).st = { s with prepare := s.prepare ++ [m], lastPreparedValue := p.fullData, lastPreparedRound := s.round } ∧
     (bcasts (uponPrepare cfg s m).outs = [] ∨
      bcasts (uponPrepare cfg s m).outs = [createCommit cfg s p.root]) ∧
     NoAgg (uponPrepare cfg s m)) := by
  obtain ⟨f1, f2, f3, f4, f5, f6, f7, f8, f9, f10, f11, f12, f13, f14⟩ := s
  simp only at hacc
  subst hacc
  unfold uponPrepare
  rcases addFirst_cases f9 m with ⟨h2, h1⟩ | ⟨h2, h1, _⟩
  · left
    simp only [h2, h1, Bool.not_false, if_true]
    exact ⟨rfl, rfl, okStep_noAgg _ _⟩
  · right
    simp only [h2, h1, Bool.not_true, Bool.false_eq_true, if_false]
    split
    · left; exact ⟨rfl, rfl, okStep_noAgg _ _⟩
    · split
      · left; exact ⟨rfl, rfl, okStep_noAgg _ _⟩
      · rename_i hq
        right
        refine ⟨by simpa using hq, by rw [sendOr_st], ?_, sendOr_noAgg _ _ _ _ _⟩
        rcases sendOr_bcasts cfg ⟨f1, f2, f1, p.fullData, some p, f6, f7, f8, f9 ++ [m], f10, f11, f12, f13, f14⟩
          .bcastCommitFailed
          (createCommit cfg ⟨f1, f2, f1, p.fullData, some p, f6, f7, f8, f9 ++ [m], f10, f11, f12, f13, f14⟩ p.root)
          [] with h | h
        · left; rw [h]; rfl
        · right; rw [h]; rfl

theorem uponCommit_spec (cfg : Cfg) (s : State) (m : Msg) (p : Msg) (hacc : s.accepted = some p) :
    ((uponCommit cfg s m).st = s ∧ (uponCommit cfg s m).outs = [] ∧ NoAgg (uponCommit cfg s m)) ∨
    ((uponCommit cfg s m).st = { s with commit := s.commit ++ [m] } ∧ (uponCommit cfg s m).outs = [] ∧
      NoAgg (uponCommit cfg s m)) ∨
    (∃ agg, cfg.quorum ≤ (longestUniqueSigners (s.commit ++ [m]) m.round m.root).1.length ∧
      aggregateCommitMsgs (longestUniqueSigners (s.commit ++ [m]) m.round m.root).2 p.fullData = .ok agg ∧
      (uponCommit cfg s m).st = { s with commit := s.commit ++ [m], decided := true, decidedValue := p.fullData } ∧
      (uponCommit cfg s m).outs = [] ∧ (uponCommit cfg s m).res = .ok true p.fullData (some agg)) := by
  obtain ⟨f1, f2, f3, f4, f5, f6, f7, f8, f9, f10, f11, f12, f13, f14⟩ := s
  simp only at hacc
  subst hacc
  unfold uponCommit
  rcases addFirst_cases f10 m with ⟨h2, h1⟩ | ⟨h2, h1, _⟩
  · left
    simp only [h2, h1, Bool.not_false, if_true]
    exact ⟨rfl, rfl, okStep_noAgg _ _⟩
  · right
    simp only [h2, h1, Bool.not_true, Bool.false_eq_true, if_false]
    split
    · left; exact ⟨rfl, rfl, okStep_noAgg _ _⟩
    · rename_i hq
      cases hagg : wrap Atom.aggregateFailed (aggregateCommitMsgs (longestUniqueSigners (f10 ++ [m]) m.round m.root).2 p.fullData) with
      | error f =>
        left
        simp only
        refine ⟨by rw [failStep_st], ?_, failStep_noAgg _ _ _⟩
        cases f <;> rfl
      | ok agg =>
        right
        simp only
        refine ⟨agg, by simpa using hq, by simpa using hagg, trivial, trivial, rfl⟩

/-- `CreateRoundChange` reads only the lock, the height and the prepare container -/
theorem createRoundChange_congr (cfg : Cfg) (s s' : State) (r : Nat) (h1 : s'.lastPreparedRound = s.lastPreparedRound)
    (h2 : s'.lastPreparedValue = s.lastPreparedValue) (h3 : s'.height = s.height) (h4 : s'.prepare = s.prepare) :
    createRoundChange cfg s' r = createRoundChange cfg s r := by
  unfold createRoundChange getRoundChangeJustification
  rw [h1, h2, h3, h4]

theorem partialQuorum_spec (cfg : Cfg) (s : State) (r : Nat) :
    (uponChangeRoundPartialQuorum cfg s r).st = { s with round := r, accepted := none } ∧
    (bcasts (uponChangeRoundPartialQuorum cfg s r).outs = [] ∨
     bcasts (uponChangeRoundPartialQuorum cfg s r).outs = [createRoundChange cfg s r]) ∧
    NoAgg (uponChangeRoundPartialQuorum cfg s r) := by
  unfold uponChangeRoundPartialQuorum
  refine ⟨by rw [sendOr_st], ?_, sendOr_noAgg _ _ _ _ _⟩
  have e : createRoundChange cfg { s with round := r, accepted := none } r = createRoundChange cfg s r :=
    createRoundChange_congr cfg s _ r rfl rfl rfl rfl
  rcases sendOr_bcasts cfg { s with round := r, accepted := none } .bcastRoundChangeFailed
    (createRoundChange cfg { s with round := r, accepted := none } r)
    [.timer ({ s with round := r, accepted := none } : State).height ({ s with round := r, accepted := none } : State).round] with h | h
  · left; rw [h]; rfl
  · right; rw [h, e]; rfl

/-- a round-change either only extends the round-change container (possibly broadcasting a proposal), or additionally
    jumps to a higher round, clearing the accepted proposal and broadcasting a round-change for that round -/
theorem uponRoundChange_spec (cfg : Cfg) (s : State) (m : Msg) :
    (∃ X, (uponRoundChange cfg s m).st = { s with roundChange := X } ∧
      (∀ x ∈ bcasts (uponRoundChange cfg s m).outs, x.type = tProposal ∧ x.signers = [cfg.own] ∧ x.height = s.height) ∧
      NoAgg (uponRoundChange cfg s m)) ∨
    (∃ X R, s.round < R ∧ (uponRoundChange cfg s m).st = { s with roundChange := X, round := R, accepted := none } ∧
      (bcasts (uponRoundChange cfg s m).outs = [] ∨
       bcasts (uponRoundChange cfg s m).outs = [createRoundChange cfg s R]) ∧ NoAgg (uponRoundChange cfg s m)) := by
  unfold uponRoundChange
  simp only
  split
  · left; exact ⟨s.roundChange, rfl, by intro x hx; simp [okStep] at hx, okStep_noAgg _ _⟩
  · split
    · left; exact ⟨_, rfl, by intro x hx; simp [okStep] at hx, okStep_noAgg _ _⟩
    · split
      · left
        refine ⟨_, by rw [failStep_st], ?_, failStep_noAgg _ _ _⟩
        intro x hx
        rename_i f _
        cases f <;> simp [failStep] at hx
      · left
        refine ⟨_, by rw [sendOr_st], ?_, sendOr_noAgg _ _ _ _ _⟩
        intro x hx
        rcases sendOr_bcasts cfg { s with roundChange := (addFirst s.roundChange m).1 } .bcastProposalFailed
          (createProposal cfg { s with roundChange := (addFirst s.roundChange m).1 } _
            (forRound (addFirst s.roundChange m).1 ({ s with roundChange := (addFirst s.roundChange m).1 } : State).round) _) [] with h | h
        · rw [h] at hx; simp at hx
        · rw [h] at hx; simp at hx; rw [hx]; exact ⟨rfl, rfl, rfl⟩
      · split
        · split
          · left; exact ⟨_, rfl, by intro x hx; simp [okStep] at hx, okStep_noAgg _ _⟩
          · rename_i hlt
            right
            obtain ⟨h1, h2, h3⟩ := partialQuorum_spec cfg { s with roundChange := (addFirst s.roundChange m).1 }
              (minRound (List.filter (fun x => Nat.blt s.round x.round) (addFirst s.roundChange m).1))
            refine ⟨(addFirst s.roundChange m).1, _, by simpa using hlt, h1, ?_, h3⟩
            have e := createRoundChange_congr cfg s { s with roundChange := (addFirst s.roundChange m).1 }
              (minRound (List.filter (fun x => Nat.blt s.round x.round) (addFirst s.roundChange m).1)) rfl rfl rfl rfl
            rw [e] at h2
            exact h2
        · left; exact ⟨_, rfl, by intro x hx; simp [okStep] at hx, okStep_noAgg _ _⟩

/-! ### `ProcessMsg`, `UponRoundTimeout`, `Start` as case lists -/

theorem baseMsgValidation_prepare (cfg : Cfg) (s : State) (m : Msg) (u : Unit) (ht : m.type = tPrepare)
    (h : baseMsgValidation cfg s m = .ok u) :
    ∃ p, s.accepted = some p ∧ validSignedPrepare cfg m.toBase s.height s.round p.root = .ok () := by
  unfold baseMsgValidation at h
  simp only [bind_eq_ok, rejectIf_eq_ok, wrap_eq_ok] at h
  obtain ⟨_, _, _, _, h3⟩ := h
  have e0 : (m.type == tProposal) = false := by rw [ht]; decide
  have e1 : (m.type == tPrepare) = true := by rw [ht]; decide
  simp only [e0, e1, if_true, Bool.false_eq_true, if_false] at h3
  split at h3
  · simp at h3
  · rename_i p hp; exact ⟨p, hp, h3⟩

/-- every instance step is one of these exact updates (`m` is the delivered message; unused for timeouts) -/
inductive ISpec (cfg : Cfg) (s : State) (m : Msg) (st : Step) : Prop
  | noop (h1 : st.st = s) (h2 : bcasts st.outs = []) (h3 : NoAgg st)
  | prop (hv : isValidProposal cfg s m = .ok ())
      (hnew : ∀ e ∈ s.propose, e.round = m.round → matchedSigners e.signers m.signers = false)
      (h1 : st.st = { s with propose := s.propose ++ [m], accepted := some m, round := m.round })
      (h2 : bcasts st.outs = [] ∨ bcasts st.outs = [createPrepare cfg s m.round (hashData m.fullData)]) (h3 : NoAgg st)
  | prep (p : Msg) (hacc : s.accepted = some p)
      (hv : validSignedPrepare cfg m.toBase s.height s.round p.root = .ok ())
      (h1 : st.st = { s with prepare := s.prepare ++ [m] }) (h2 : bcasts st.outs = []) (h3 : NoAgg st)
  | prepQ (p : Msg) (hacc : s.accepted = some p)
      (hv : validSignedPrepare cfg m.toBase s.height s.round p.root = .ok ())
      (hq : cfg.hasQuorum (signersOf (forRound (s.prepare ++ [m]) s.round)) = true)
      (h1 : st.st = { s with prepare := s.prepare ++ [m], lastPreparedValue := p.fullData, lastPreparedRound := s.round })
      (h2 : bcasts st.outs = [] ∨ bcasts st.outs = [createCommit cfg s p.root]) (h3 : NoAgg st)
  | com (p : Msg) (hacc : s.accepted = some p)
      (hv : validateCommit cfg m.toBase s.height s.round p = .ok ())
      (h1 : st.st = { s with commit := s.commit ++ [m] }) (h2 : st.outs = []) (h3 : NoAgg st)
  | comQ (p agg : Msg) (hacc : s.accepted = some p)
      (hv : validateCommit cfg m.toBase s.height s.round p = .ok ())
      (hq : cfg.quorum ≤ (longestUniqueSigners (s.commit ++ [m]) m.round m.root).1.length)
      (hagg : aggregateCommitMsgs (longestUniqueSigners (s.commit ++ [m]) m.round m.root).2 p.fullData = .ok agg)
      (h1 : st.st = { s with commit := s.commit ++ [m], decided := true, decidedValue := p.fullData })
      (h2 : st.outs = []) (h3 : st.res = .ok true p.fullData (some agg))
  | rc (X : Container) (h1 : st.st = { s with roundChange := X })
      (h2 : ∀ x ∈ bcasts st.outs, x.type = tProposal ∧ x.signers = [cfg.own] ∧ x.height = s.height) (h3 : NoAgg st)
  | jump (X : Container) (R : Nat) (hR : s.round < R)
      (h1 : st.st = { s with roundChange := X, round := R, accepted := none })
      (h2 : bcasts st.outs = [] ∨ bcasts st.outs = [createRoundChange cfg s R]) (h3 : NoAgg st)

theorem processMsg_spec (cfg : Cfg) (s : State) (m : Msg) : ISpec cfg s m (processMsg cfg s m) := by
  unfold processMsg
  split
  · exact .noop rfl rfl (by intro d v a; simp)
  · cases hval : wrap Atom.invalidSigned (baseMsgValidation cfg s m) with
    | error f =>
      simp only
      refine .noop (by rw [failStep_st]) ?_ (failStep_noAgg _ _ _)
      cases f <;> rfl
    | ok u =>
      have hbv : baseMsgValidation cfg s m = .ok u := by simpa using hval
      simp only
      by_cases h0 : m.type = tProposal
      · have e0 : (m.type == tProposal) = true := by rw [h0]; decide
        simp only [e0, if_true]
        have hv := baseMsgValidation_proposal cfg s m u h0 hbv
        rcases uponProposal_spec cfg s m with ⟨a, b, c⟩ | ⟨a, b, c, d⟩
        · exact .noop a b c
        · exact .prop hv a b c d
      · have e0 : (m.type == tProposal) = false := by simpa using h0
        simp only [e0, Bool.false_eq_true, if_false]
        by_cases h1 : m.type = tPrepare
        · have e1 : (m.type == tPrepare) = true := by rw [h1]; decide
          simp only [e1, if_true]
          obtain ⟨p, hacc, hv⟩ := baseMsgValidation_prepare cfg s m u h1 hbv
          rcases uponPrepare_spec cfg s m p hacc with ⟨a, b, c⟩ | ⟨a, b, c⟩ | ⟨a, b, c, d⟩
          · exact .noop a b c
          · exact .prep p hacc hv a b c
          · exact .prepQ p hacc hv a b c d
        · have e1 : (m.type == tPrepare) = false := by simpa using h1
          simp only [e1, Bool.false_eq_true, if_false]
          by_cases h2 : m.type = tCommit
          · have e2 : (m.type == tCommit) = true := by rw [h2]; decide
            simp only [e2, if_true]
            obtain ⟨p, hacc, hv⟩ := baseMsgValidation_commit cfg s m u h2 hbv
            rcases uponCommit_spec cfg s m p hacc with ⟨a, b, c⟩ | ⟨a, b, c⟩ | ⟨agg, a, b, c, d, e⟩
            · exact .noop a (by rw [b]; rfl) c
            · exact .com p hacc hv a b c
            · exact .comQ p agg hacc hv a b c d e
          · have e2 : (m.type == tCommit) = false := by simpa using h2
            simp only [e2, Bool.false_eq_true, if_false]
            split
            · rcases uponRoundChange_spec cfg s m with ⟨X, a, b, c⟩ | ⟨X, R, a, b, c, d⟩
              · exact .rc X a b c
              · exact .jump X R a b c d
            · exact .noop rfl rfl (by intro d v a; simp)

theorem uponRoundTimeout_spec (cfg : Cfg) (s : State) (m : Msg) : ISpec cfg s m (uponRoundTimeout cfg s) := by
  by_cases hcp : canProcess cfg s = true
  · rw [uponRoundTimeout_progress cfg s hcp]
    exact .jump s.roundChange (s.round + 1) (Nat.lt_succ_self _) rfl (Or.inr rfl) (by intro d v a; simp)
  · have hc' : canProcess cfg s = false := by simpa using hcp
    unfold uponRoundTimeout
    simp only [hc', Bool.not_false, if_true]
    exact .noop rfl rfl (by intro d v a; simp)

/-- `Start` on a fresh instance: the started instance, possibly a broadcast proposal -/
theorem start_spec (cfg : Cfg) (h v : Nat) :
    ((start cfg (newInstance h) v h).st = { newInstance h with started := true, startValue := v }) ∧
    (∀ x ∈ bcasts (start cfg (newInstance h) v h).outs, x.type = tProposal ∧ x.signers = [cfg.own] ∧ x.height = h) ∧
    OutsInst (start cfg (newInstance h) v h).outs := by
  refine ⟨?_, ?_, outsInst_start cfg _ v h⟩
  · unfold start
    simp only [newInstance, Bool.false_eq_true, if_false]
    split
    · rfl
    · split
      · split <;> rfl
      · rfl
  · unfold start
    simp only [newInstance, Bool.false_eq_true, if_false]
    intro x hx
    split at hx
    · simp [bcasts] at hx
    · split at hx
      · split at hx
        · rename_i o ho
          have hb := broadcast_bcasts _ _ _ _ ho
          simp [okStep, bcasts_append, hb, bcasts] at hx
          rw [hx]; exact ⟨rfl, rfl, rfl⟩
        · simp [okStep, bcasts] at hx
      · simp [okStep, bcasts] at hx

end Ssv.Qbft.B
