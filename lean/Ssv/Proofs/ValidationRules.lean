/-
C09 helper lemmas: what an `accept` verdict implies (clause by clause) and how one accepted message moves
the per-signer state.   Core Lean only.
-/
import Ssv.Proofs.ValidationState

namespace Ssv.Validation
open Ssv

/-! ## accept ⇔ every guard passed -/

theorem ofChk_accept (c : Chk) : Outcome.ofChk c = .accept ↔ c = .ok () := by
  unfold Outcome.ofChk
  constructor
  · intro h
    split at h
    · rfl
    · split at h <;> cases h
    · cases h
  · intro h; subst h; rfl

theorem validate_accept_iff (x : Ctx) (st : State) (i : Input) : (validate x st i).2 = .accept ↔ check x st i = .ok () := by
  unfold validate
  constructor
  · intro h
    split at h
    · rename_i e he
      have := (ofChk_accept _).mp h
      cases this
    · rename_i hok; exact hok
  · intro h
    rw [h]
    simp only
    obtain ⟨st', hst'⟩ := update_ok_of_check_ok x st i h
    rw [hst']

/-- the state changes only on accept -/
theorem validate_state_of_not_accept (x : Ctx) (st : State) (i : Input) (h : (validate x st i).2 ≠ .accept) :
    (validate x st i).1 = st := by
  by_cases hc : check x st i = .ok ()
  · exact absurd ((validate_accept_iff x st i).mpr hc) h
  · unfold validate
    cases hck : check x st i with
    | error e => rfl
    | ok u => cases u; exact absurd hck hc

theorem blt_false_iff (a b : Nat) : Nat.blt a b = false ↔ b ≤ a := by
  rw [← Bool.not_eq_true, Nat.blt_eq]; omega

theorem validate_state_of_accept (x : Ctx) (st : State) (i : Input) (h : check x st i = .ok ()) :
    update x st i = .ok (validate x st i).1 := by
  unfold validate
  rw [h]
  simp only
  obtain ⟨st', hst'⟩ := update_ok_of_check_ok x st i h
  rw [hst']

/-- the shape of a passing `check` -/
theorem check_ok_cases (x : Ctx) (st : State) (i : Input) (h : check x st i = .ok ()) :
    firstFail (preChecks i) = .ok () ∧ ∃ sh, i.share = some sh ∧
      ((∃ m, i.body = .consensus m ∧
          firstFail (rejectIf (Nat.blt Gen.val_maxConsensusMsgSize i.dataLen) .SSVDataTooBig :: consensusChecks x st i sh m) = .ok ()) ∨
       (∃ m, i.body = .partialSig m ∧
          firstFail (rejectIf (Nat.blt Gen.val_maxPartialSignatureMsgSize i.dataLen) .SSVDataTooBig :: partialChecks x st i sh m) = .ok ())) := by
  unfold check at h
  split at h
  · cases h
  · cases h
  · rename_i u sh hpre hsh
    cases u
    refine ⟨hpre, sh, hsh, ?_⟩
    split at h
    · cases h
    · cases h
    · cases h
    · rename_i m hb; exact Or.inl ⟨m, hb, h⟩
    · rename_i m hb; exact Or.inr ⟨m, hb, h⟩

/-- every guard of `validateSSVMessage` before decoding passed -/
theorem preChecks_ok_spec (i : Input) (h : firstFail (preChecks i) = .ok ()) :
    i.dataLen ≠ 0 ∧ i.dataLen ≤ Gen.val_maxMessageSize ∧ i.domainOk = true ∧ validRole i.role = true ∧ i.pkOk = true ∧
    ∃ sh, i.share = some sh ∧ sh.liquidated = false ∧ sh.hasMeta = true ∧ isAttesting sh i.wallEpoch = true := by
  have hall := (firstFail_ok_iff _).mp h
  unfold preChecks at hall
  simp only [List.forall_mem_cons, List.not_mem_nil, false_imp_iff, implies_true, and_true] at hall
  obtain ⟨h1, h2, h3, h4, h5, h6⟩ := hall
  have h1' := (rejectIf_ok_iff _ _).mp h1
  have h2' := (rejectIf_ok_iff _ _).mp h2
  have h3' := (rejectIf_ok_iff _ _).mp h3
  have h4' := (rejectIf_ok_iff _ _).mp h4
  have h5' := (rejectIf_ok_iff _ _).mp h5
  refine ⟨by simpa using h1', ?_, by simpa using h3', by simpa using h4', by simpa using h5', ?_⟩
  · exact (blt_false_iff _ _).mp h2'
  · cases hs : i.share with
    | none => rw [hs] at h6; cases h6
    | some sh =>
      rw [hs] at h6
      simp only at h6
      have hall2 := (firstFail_ok_iff _).mp h6
      simp only [List.forall_mem_cons, List.not_mem_nil, false_imp_iff, implies_true, and_true] at hall2
      obtain ⟨g1, g2, g3⟩ := hall2
      exact ⟨sh, rfl, (rejectIf_ok_iff _ _).mp g1, by simpa using (rejectIf_ok_iff _ _).mp g2, by simpa using (rejectIf_ok_iff _ _).mp g3⟩

/-- all twelve guards of `validateConsensusMessage`, individually -/
structure ConsensusOk (x : Ctx) (st : State) (i : Input) (sh : Share) (m : QMsg) : Prop where
  roleOk : (i.role == Gen.val_BNRoleValidatorRegistration || i.role == Gen.val_BNRoleVoluntaryExit) = false
  sigOk : signatureFormat m.sigLen m.sigZero = .ok ()
  typeOk : validQBFTMsgType m.mtype = true
  roundNonZero : (m.round == Gen.val_NoRound) = false
  maxRoundOk : ∃ mx, maxRound i.role = .ok mx ∧ m.round ≤ mx
  slotTimeOk : validateSlotTime x.cfg m.height i.role i.now = .ok ()
  signersOk : validConsensusSigners sh m = .ok ()
  roundWindowOk : roundWindow x.cfg m i.now = .ok ()
  hashOk : ∀ h, m.fullData = some h → h = m.root
  dutyOk : validateBeaconDuty x i.role m.height sh = .ok ()
  behaviorOk : ∀ s ∈ m.signers, signerBehaviorConsensus x.cfg sh i.role m (st (i.vid, i.role, s)) = .ok ()
  envOk : envSigCheck i.envSig = .ok ()

theorem consensusChecks_ok_spec (x : Ctx) (st : State) (i : Input) (sh : Share) (m : QMsg)
    (h : firstFail (consensusChecks x st i sh m) = .ok ()) : ConsensusOk x st i sh m := by
  have hall := (firstFail_ok_iff _).mp h
  unfold consensusChecks at hall
  simp only [List.forall_mem_cons, List.not_mem_nil, false_imp_iff, implies_true, and_true] at hall
  obtain ⟨h1, h2, h3, h4, h5, h6, h7, h8, h9, h10, h11, h12⟩ := hall
  refine ⟨(rejectIf_ok_iff _ _).mp h1, h2, by simpa using (rejectIf_ok_iff _ _).mp h3, (rejectIf_ok_iff _ _).mp h4, ?_, h6, h7, h8, ?_, h10, ?_, h12⟩
  · cases hm : maxRound i.role with
    | error e => rw [hm] at h5; cases h5
    | ok mx =>
      rw [hm] at h5
      have := (rejectIf_ok_iff _ _).mp h5
      exact ⟨mx, rfl, by simpa using this⟩
  · intro hh hfd
    have := (rejectIf_ok_iff _ _).mp h9
    rw [hfd] at this
    simpa using this
  · intro s hs
    exact (firstFail_ok_iff _).mp h11 _ (List.mem_map.mpr ⟨s, hs, rfl⟩)

structure PartialOk (x : Ctx) (st : State) (i : Input) (sh : Share) (m : PMsg) : Prop where
  typeOk : validPartialSigMsgType m.ptype = true
  typeRoleOk : partialTypeMatchesRole m.ptype i.role = .ok true
  notEarly : earlyMessage x.cfg m.slot i.now = false
  messagesOk : validatePartialMessages sh m = .ok ()
  behaviorOk : signerBehaviorPartial x.cfg i.role m (st (i.vid, i.role, m.signer)) = .ok ()
  sigOk : signatureFormat m.sigLen m.sigZero = .ok ()
  envOk : envSigCheck i.envSig = .ok ()

theorem partialChecks_ok_spec (x : Ctx) (st : State) (i : Input) (sh : Share) (m : PMsg)
    (h : firstFail (partialChecks x st i sh m) = .ok ()) : PartialOk x st i sh m := by
  have hall := (firstFail_ok_iff _).mp h
  unfold partialChecks at hall
  simp only [List.forall_mem_cons, List.not_mem_nil, false_imp_iff, implies_true, and_true] at hall
  obtain ⟨h1, h2, h2e, h3, h4, h5, h6⟩ := hall
  refine ⟨by simpa using (rejectIf_ok_iff _ _).mp h1, ?_, (rejectIf_ok_iff _ _).mp h2e, h3, h4, h5, h6⟩
  cases hm : partialTypeMatchesRole m.ptype i.role with
  | error e => rw [hm] at h2; cases h2
  | ok b =>
    rw [hm] at h2
    have := (rejectIf_ok_iff _ _).mp h2
    cases b <;> simp_all

theorem firstFail_cons_ok_iff (c : Chk) (cs : List Chk) : firstFail (c :: cs) = .ok () ↔ c = .ok () ∧ firstFail cs = .ok () := by
  cases c with
  | ok u => cases u; simp [firstFail]
  | error e => simp [firstFail]

/-- MAIN decomposition: an accept verdict means the pre-checks, and either all consensus guards or all partial-signature guards, passed -/
theorem accept_cases (x : Ctx) (st : State) (i : Input) (h : (validate x st i).2 = .accept) :
    firstFail (preChecks i) = .ok () ∧ ∃ sh, i.share = some sh ∧
      ((∃ m, i.body = .consensus m ∧ i.dataLen ≤ Gen.val_maxConsensusMsgSize ∧ ConsensusOk x st i sh m) ∨
       (∃ m, i.body = .partialSig m ∧ i.dataLen ≤ Gen.val_maxPartialSignatureMsgSize ∧ PartialOk x st i sh m)) := by
  obtain ⟨hpre, sh, hsh, hb⟩ := check_ok_cases x st i ((validate_accept_iff x st i).mp h)
  refine ⟨hpre, sh, hsh, ?_⟩
  rcases hb with ⟨m, hm, hf⟩ | ⟨m, hm, hf⟩
  · obtain ⟨h1, h2⟩ := (firstFail_cons_ok_iff _ _).mp hf
    have := (rejectIf_ok_iff _ _).mp h1
    exact Or.inl ⟨m, hm, (blt_false_iff _ _).mp this, consensusChecks_ok_spec x st i sh m h2⟩
  · obtain ⟨h1, h2⟩ := (firstFail_cons_ok_iff _ _).mp hf
    have := (rejectIf_ok_iff _ _).mp h1
    exact Or.inr ⟨m, hm, (blt_false_iff _ _).mp this, partialChecks_ok_spec x st i sh m h2⟩

end Ssv.Validation
