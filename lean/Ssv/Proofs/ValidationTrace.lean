/-
C09 helper lemmas: the per-signer limits as an invariant over histories of validation calls, and commutation of
validation calls for different (validator, role) ids.   Core Lean only.
-/
import Ssv.Proofs.ValidationRules

namespace Ssv.Validation
open Ssv

/-! ## kinds of consensus messages and their counters -/

/-- 0 proposal, 1 prepare, 2 commit (one signer), 3 round change, 4 decided (commit with several signers) -/
def msgKind (m : QMsg) : Nat := if isDecided m then 4 else m.mtype

def kindCount (k : Nat) (c : Counts) : Nat :=
  if k = 0 then c.proposal else if k = 1 then c.prepare else if k = 2 then c.commit else if k = 3 then c.roundChange
  else if k = 4 then c.decided else 0

theorem len_cases (l : List Nat) (h : l ≠ []) : l.length = 1 ∨ 1 < l.length := by
  have : 0 < l.length := List.length_pos_iff.mpr h
  omega

/-- `RecordConsensusMessage` increments exactly the counter of the message's kind -/
theorem countsRecord_spec (c c' : Counts) (m : QMsg) (hv : validQBFTMsgType m.mtype = true) (hs : m.signers ≠ [])
    (h : countsRecord c m = .ok c') :
    kindCount (msgKind m) c' = kindCount (msgKind m) c + 1 ∧ ∀ k, k ≠ msgKind m → kindCount k c' = kindCount k c := by
  unfold countsRecord at h
  unfold msgKind isDecided
  rcases le3_cases _ ((validQBFT_iff _).mp hv) with ht | ht | ht | ht
  · simp [ht] at h ⊢; subst h; simp [kindCount]; intro k hk; simp [hk]
  · simp [ht] at h ⊢; subst h; simp [kindCount]; intro k hk; (repeat' split) <;> omega
  · rcases len_cases _ hs with hl | hl
    · simp [ht, hl] at h ⊢; subst h; simp [kindCount]; intro k hk; (repeat' split) <;> omega
    · have hne : ¬ m.signers.length = 1 := by omega
      simp [ht, hl, hne] at h ⊢; subst h; simp [kindCount]; intro k hk; (repeat' split) <;> omega
  · simp [ht] at h ⊢; subst h; simp [kindCount]; intro k hk; (repeat' split) <;> omega

/-- `ValidateConsensusMessage` passes for a non-decided message only if no message of that kind was counted yet -/
theorem countsValidate_spec (c : Counts) (m : QMsg) (n : Nat) (hv : validQBFTMsgType m.mtype = true) (hs : m.signers ≠ [])
    (h : countsValidate c m n = .ok ()) (hk : msgKind m ≠ 4) : kindCount (msgKind m) c = 0 := by
  unfold countsValidate at h
  unfold msgKind isDecided at hk ⊢
  rcases le3_cases _ ((validQBFT_iff _).mp hv) with ht | ht | ht | ht
  · simp [ht] at h ⊢
    have := (rejectIf_ok_iff _ _).mp h
    simp [kindCount]; simpa using this
  · simp [ht] at h ⊢
    have := (rejectIf_ok_iff _ _).mp h
    simp [kindCount]; simpa using this
  · rcases len_cases _ hs with hl | hl
    · simp [ht, hl] at h ⊢
      have h1 := (firstFail_ok_iff _).mp h _ (List.mem_cons_self)
      have := (rejectIf_ok_iff _ _).mp h1
      simp [kindCount]; simpa using this
    · simp [ht, hl] at hk
  · simp [ht] at h ⊢
    have := (rejectIf_ok_iff _ _).mp h
    simp [kindCount]; simpa using this

/-! ## lexicographic order on (slot, round) -/

def lexLt (a b : Nat × Nat) : Prop := a.1 < b.1 ∨ (a.1 = b.1 ∧ a.2 < b.2)
def lexLe (a b : Nat × Nat) : Prop := lexLt a b ∨ a = b

instance (a b : Nat × Nat) : Decidable (lexLt a b) := by unfold lexLt; infer_instance

/-! ## one accepted message moves a signer's entry forward -/

/-- `validateSignerBehaviorConsensus` passes for an existing entry: the message is not behind it -/
theorem behavior_some_spec (c : NetCfg) (sh : Share) (role : Nat) (m : QMsg) (ss : SignerState)
    (h : signerBehaviorConsensus c sh role m (some ss) = .ok ()) :
    lexLe (ss.slot, ss.round) (m.height, m.round) ∧
    ((m.height = ss.slot ∧ m.round = ss.round) → countsValidate ss.counts m sh.committee.length = .ok () ∧
      ¬ (hasFullData m = true ∧ ss.proposalData.isSome = true ∧ ss.proposalData ≠ m.fullData)) ∧
    validateDutyCount ss role (decide (m.height > ss.slot) && decide (epochAtSlot c m.height = epochAtSlot c ss.slot)) = .ok () ∧
    validateJustifications m = .ok () := by
  unfold signerBehaviorConsensus at h
  simp only at h
  have hall := (firstFail_ok_iff _).mp h
  simp only [List.forall_mem_cons, List.not_mem_nil, false_imp_iff, implies_true, and_true] at hall
  obtain ⟨h1, h2, h3, h4, h5, h6⟩ := hall
  have h1' := (rejectIf_ok_iff _ _).mp h1
  have h2' := (rejectIf_ok_iff _ _).mp h2
  have h4' := (rejectIf_ok_iff _ _).mp h4
  simp only [decide_eq_false_iff_not, Bool.and_eq_false_iff, Nat.not_lt] at h1' h2'
  refine ⟨?_, ?_, h3, h6⟩
  · unfold lexLe lexLt
    simp only
    by_cases hs : ss.slot = m.height
    · rcases h2' with h2' | h2'
      · exact absurd hs.symm h2'
      · by_cases hr : ss.round = m.round
        · right; rw [hs, hr]
        · left; right; exact ⟨hs, by omega⟩
    · left; left; omega
  · intro ⟨e1, e2⟩
    have hsame : (decide (m.height = ss.slot) && decide (m.round = ss.round)) = true := by simp [e1, e2]
    rw [hsame] at h4' h5
    simp only [if_true] at h5
    refine ⟨h5, ?_⟩
    intro ⟨a1, a2, a3⟩
    simp [a1, a2] at h4'
    exact a3 h4'

/-- the state update of one signer of an accepted consensus message: slot and round become the message's, the counter of
    the message's kind is at least 1; if the entry was already at this (slot, round) every counter only grows -/
theorem updSigner_spec (c : NetCfg) (m : QMsg) (ss? : Option SignerState) (ss' : SignerState)
    (hv : validQBFTMsgType m.mtype = true) (hs : m.signers ≠ []) (hr : 1 ≤ m.round)
    (hle : ∀ ss, ss? = some ss → lexLe (ss.slot, ss.round) (m.height, m.round))
    (h : updSignerConsensus c m ss? = .ok ss') :
    ss'.slot = m.height ∧ ss'.round = m.round ∧ 1 ≤ kindCount (msgKind m) ss'.counts ∧
    (∀ ss, ss? = some ss → (ss.slot, ss.round) = (m.height, m.round) →
        ∀ k, kindCount k ss.counts ≤ kindCount k ss'.counts ∧
          (k = msgKind m → kindCount k ss'.counts = kindCount k ss.counts + 1)) := by
  unfold updSignerConsensus at h
  simp only at h
  split at h
  · rename_i cnt hcnt
    cases h
    obtain ⟨hc1, hc2⟩ := countsRecord_spec _ _ m hv hs hcnt
    simp only
    -- the entry after the slot / round reset
    generalize hbase : (if m.height > (ss?.getD {}).slot then
        (ss?.getD {}).resetSlot m.height m.round (decide (epochAtSlot c m.height > epochAtSlot c (ss?.getD {}).slot))
      else if m.height = (ss?.getD {}).slot ∧ m.round > (ss?.getD {}).round then (ss?.getD {}).resetRound m.round
      else ss?.getD {}) = base at hcnt hc1 hc2 ⊢
    have hbase_sr : base.slot = m.height ∧ base.round = m.round ∧
        (∀ ss, ss? = some ss → (ss.slot, ss.round) = (m.height, m.round) → base = ss) := by
      cases hss : ss? with
      | none =>
        simp only [hss, Option.getD_none] at hbase
        by_cases h0 : m.height > 0
        · simp [h0, SignerState.resetSlot] at hbase; subst hbase; simp
        · have : m.height = 0 := by omega
          have hr' : m.round > 0 := by omega
          simp [this, hr', SignerState.resetRound] at hbase; subst hbase; simp [this]
      | some ss =>
        simp only [hss, Option.getD_some] at hbase
        have hl := hle ss hss
        unfold lexLe lexLt at hl
        simp only at hl
        by_cases h1 : m.height > ss.slot
        · simp [h1, SignerState.resetSlot] at hbase; subst hbase
          refine ⟨rfl, rfl, ?_⟩
          intro ss2 he heq; cases he; simp at heq; omega
        · by_cases h2 : m.height = ss.slot ∧ m.round > ss.round
          · simp [h1, h2, SignerState.resetRound] at hbase; subst hbase
            refine ⟨h2.1.symm, rfl, ?_⟩
            intro ss2 he heq; cases he; simp at heq; omega
          · simp [h1, h2] at hbase; subst hbase
            have : ss.slot = m.height ∧ ss.round = m.round := by
              rcases hl with (hl | hl) | hl
              · omega
              · omega
              · simp at hl; exact hl
            exact ⟨this.1, this.2, fun ss2 he _ => by cases he; rfl⟩
    obtain ⟨hb1, hb2, hb3⟩ := hbase_sr
    -- the proposal-data assignment does not touch slot, round or counts
    have hpd : ∀ (b : Bool), (if b then { base with proposalData := m.fullData } else base).slot = base.slot ∧
        (if b then { base with proposalData := m.fullData } else base).round = base.round ∧
        (if b then { base with proposalData := m.fullData } else base).counts = base.counts := by
      intro b; cases b <;> simp
    obtain ⟨p1, p2, p3⟩ := hpd (hasFullData m && base.proposalData.isNone)
    rw [p3] at hcnt hc1 hc2
    refine ⟨by rw [p1]; exact hb1, by rw [p2]; exact hb2, by omega, ?_⟩
    intro ss hss heq k
    have := hb3 ss hss heq
    subst this
    by_cases hk : k = msgKind m
    · subst hk; exact ⟨by omega, fun _ => hc1⟩
    · exact ⟨by rw [hc2 k hk]; exact Nat.le_refl _, fun h => absurd h hk⟩
  · cases h

/-! ## partial-signature messages never move a signer's entry backwards and never touch the consensus counters -/

theorem behaviorPartial_some_spec (c : NetCfg) (role : Nat) (m : PMsg) (ss : SignerState)
    (h : signerBehaviorPartial c role m (some ss) = .ok ()) : ss.slot ≤ m.slot := by
  unfold signerBehaviorPartial at h
  simp only at h
  have h1 := (firstFail_ok_iff _).mp h _ (List.mem_cons_self)
  have := (rejectIf_ok_iff _ _).mp h1
  simpa using this

theorem kindCount_partial (c c' : Counts) (t : Nat) (h : countsRecordPartial c t = .ok c') (k : Nat) :
    kindCount k c' = kindCount k c := by
  unfold countsRecordPartial at h
  split at h
  · cases h; simp [kindCount]
  · split at h
    · cases h; simp [kindCount]
    · cases h

theorem updPartial_spec (c : NetCfg) (m : PMsg) (ss ss' : SignerState) (hle : ss.slot ≤ m.slot)
    (h : updPartial c m (some ss) = .ok ss') :
    lexLe (ss.slot, ss.round) (ss'.slot, ss'.round) ∧
    ((ss'.slot, ss'.round) = (ss.slot, ss.round) → ∀ k, kindCount k ss'.counts = kindCount k ss.counts) := by
  unfold updPartial at h
  simp only [Option.getD_some] at h
  split at h
  · rename_i cnt hcnt
    cases h
    simp only
    by_cases hgt : m.slot > ss.slot
    · simp only [hgt, if_true] at hcnt ⊢
      refine ⟨Or.inl (Or.inl (by simp [SignerState.resetSlot]; omega)), ?_⟩
      intro heq
      simp [SignerState.resetSlot] at heq
      omega
    · simp only [hgt, if_false] at hcnt ⊢
      exact ⟨Or.inr rfl, fun _ k => kindCount_partial _ _ _ hcnt k⟩
  · cases h

/-! ## the effect of one validation call on one key -/

/-- one call either leaves the entry of key `k` alone, or it is an ACCEPTED consensus message of `k`'s (validator, role)
    signed by `k`'s signer (entry := single-signer update), or an ACCEPTED partial-signature message of that signer -/
theorem validate_key_cases (x : Ctx) (st : State) (i : Input) (k : Key) :
    (validate x st i).1 k = st k ∨
    (∃ sh m ss', i.share = some sh ∧ i.body = .consensus m ∧ ConsensusOk x st i sh m ∧ k = (i.vid, i.role, k.2.2) ∧
        k.2.2 ∈ m.signers ∧ updSignerConsensus x.cfg m (st k) = .ok ss' ∧ (validate x st i).1 k = some ss') ∨
    (∃ sh m ss', i.share = some sh ∧ i.body = .partialSig m ∧ PartialOk x st i sh m ∧ k = (i.vid, i.role, m.signer) ∧
        updPartial x.cfg m (st k) = .ok ss' ∧ (validate x st i).1 k = some ss') := by
  by_cases hacc : (validate x st i).2 = .accept
  · have hck := (validate_accept_iff x st i).mp hacc
    have hupd := validate_state_of_accept x st i hck
    obtain ⟨_, sh, hsh, hb⟩ := accept_cases x st i hacc
    rcases hb with ⟨m, hm, _, hok⟩ | ⟨m, hm, _, hok⟩
    · unfold update at hupd
      rw [hm] at hupd
      simp only at hupd
      obtain ⟨_, hpw, _⟩ := validConsensusSigners_spec sh m hok.signersOk
      by_cases hk : k.1 = i.vid ∧ k.2.1 = i.role ∧ k.2.2 ∈ m.signers
      · obtain ⟨ss', h1, h2⟩ := updConsensus_get x.cfg i.vid i.role m m.signers st _ (pairwise_lt_nodup _ hpw) hupd k.2.2 hk.2.2
        have hkeq : k = (i.vid, i.role, k.2.2) := by
          obtain ⟨a, b, c⟩ := k
          simp at hk ⊢
          exact ⟨hk.1, hk.2.1⟩
        right; left
        refine ⟨sh, m, ss', hsh, hm, hok, hkeq, hk.2.2, ?_, ?_⟩
        · rw [hkeq]; exact h1
        · rw [hkeq]; exact h2
      · left
        apply updConsensus_frame x.cfg i.vid i.role m m.signers st _ hupd k
        by_cases h1 : k.1 = i.vid
        · by_cases h2 : k.2.1 = i.role
          · exact Or.inr (Or.inr (fun h3 => hk ⟨h1, h2, h3⟩))
          · exact Or.inr (Or.inl h2)
        · exact Or.inl h1
    · unfold update at hupd
      rw [hm] at hupd
      simp only at hupd
      cases hu : updPartial x.cfg m (st (i.vid, i.role, m.signer)) with
      | error e => rw [hu] at hupd; cases hupd
      | ok ss' =>
        rw [hu] at hupd
        simp only at hupd
        have hst : (validate x st i).1 = st.set (i.vid, i.role, m.signer) ss' := by
          injection hupd with h; exact h.symm
        by_cases hk : k = (i.vid, i.role, m.signer)
        · right; right
          refine ⟨sh, m, ss', hsh, hm, hok, hk, ?_, ?_⟩
          · rw [hk]; exact hu
          · rw [hst, hk]; exact State.set_same _ _ _
        · left
          rw [hst]; exact State.set_other _ _ _ _ hk
  · left
    rw [validate_state_of_not_accept x st i hacc]

/-! ## the per-signer limit as an invariant over histories -/

/-- number of ACCEPTED inputs satisfying `p` along a history of validation calls starting in state `st` -/
def countAcc (x : Ctx) (p : Input → Bool) : State → List Input → Nat
  | _, [] => 0
  | st, i :: rest =>
    (if (validate x st i).2 = .accept ∧ p i = true then 1 else 0) + countAcc x p (validate x st i).1 rest

/-- "a consensus message of kind `kind` for (validator, role), signed (also) by `s`, for (slot, round)" -/
def isKindAt (kind vid role s slot round : Nat) (i : Input) : Bool :=
  match i.body with
  | .consensus m => i.vid == vid && i.role == role && m.signers.contains s && m.height == slot && m.round == round && msgKind m == kind
  | _ => false

/-- the budget of (kind, slot, round) is used up in this state: the entry already counted such a message at this
    (slot, round), or it has moved past (slot, round) -/
def usedUp (kind vid role s slot round : Nat) (st : State) : Prop :=
  ∃ ss, st (vid, role, s) = some ss ∧
    (lexLt (slot, round) (ss.slot, ss.round) ∨ ((ss.slot, ss.round) = (slot, round) ∧ 1 ≤ kindCount kind ss.counts))

theorem lexLe_trans_lt {a b c : Nat × Nat} (h1 : lexLt a b) (h2 : lexLe b c) : lexLt a c := by
  unfold lexLe lexLt at *
  rcases h2 with h2 | h2
  · omega
  · subst h2; exact h1

theorem round_ge_one (x : Ctx) (st : State) (i : Input) (sh : Share) (m : QMsg) (h : ConsensusOk x st i sh m) : 1 ≤ m.round := by
  have := h.roundNonZero
  simp at this; omega

/-- once used up, always used up -/
theorem usedUp_mono (x : Ctx) (kind vid role s slot round : Nat) (st : State) (i : Input)
    (h : usedUp kind vid role s slot round st) : usedUp kind vid role s slot round (validate x st i).1 := by
  obtain ⟨ss, hss, hcase⟩ := h
  rcases validate_key_cases x st i (vid, role, s) with hsame | ⟨sh, m, ss', hsh, hm, hok, hk, hmem, hupd, hnew⟩ | ⟨sh, m, ss', hsh, hm, hok, hk, hupd, hnew⟩
  · exact ⟨ss, by rw [hsame]; exact hss, hcase⟩
  · -- an accepted consensus message of this signer
    have hbeh := hok.behaviorOk _ hmem
    have hkk : (i.vid, i.role, ((vid, role, s) : Key).2.2) = (vid, role, s) := hk.symm
    simp only at hkk
    rw [hkk, hss] at hbeh
    obtain ⟨hle, _, _, _⟩ := behavior_some_spec x.cfg sh i.role m ss hbeh
    rw [hss] at hupd
    obtain ⟨u1, u2, _, u4⟩ := updSigner_spec x.cfg m (some ss) ss' hok.typeOk (validConsensusSigners_nonempty sh m hok.signersOk)
      (round_ge_one x st i sh m hok) (fun ss2 he => by cases he; exact hle) hupd
    refine ⟨ss', hnew, ?_⟩
    rw [u1, u2]
    rcases hcase with hlt | ⟨heq, hcnt⟩
    · exact Or.inl (lexLe_trans_lt hlt hle)
    · rcases hle with hlt | heq2
      · left; rw [← heq]; exact hlt
      · right
        refine ⟨by rw [← heq2, heq], ?_⟩
        have := (u4 ss rfl heq2 kind).1
        omega
  · -- an accepted partial-signature message of this signer
    have hbeh := hok.behaviorOk
    rw [← hk, hss] at hbeh
    have hle := behaviorPartial_some_spec x.cfg i.role m ss hbeh
    rw [hss] at hupd
    obtain ⟨p1, p2⟩ := updPartial_spec x.cfg m ss ss' hle hupd
    refine ⟨ss', hnew, ?_⟩
    rcases hcase with hlt | ⟨heq, hcnt⟩
    · exact Or.inl (lexLe_trans_lt hlt p1)
    · rcases p1 with hlt | heq2
      · left; rw [← heq]; exact hlt
      · right
        refine ⟨by rw [← heq2]; exact heq, ?_⟩
        rw [p2 heq2.symm kind]; exact hcnt

/-- accepting a message of that kind at (slot, round) requires an unused budget and uses it up -/
theorem accept_uses_budget (x : Ctx) (kind vid role s slot round : Nat) (hkind : kind ≠ 4) (st : State) (i : Input)
    (hacc : (validate x st i).2 = .accept) (hp : isKindAt kind vid role s slot round i = true) :
    ¬ usedUp kind vid role s slot round st ∧ usedUp kind vid role s slot round (validate x st i).1 := by
  unfold isKindAt at hp
  split at hp
  · rename_i m hm
    simp only [Bool.and_eq_true, beq_iff_eq, List.contains_iff_mem] at hp
    obtain ⟨⟨⟨⟨⟨e1, e2⟩, hmem⟩, e3⟩, e4⟩, e5⟩ := hp
    rcases validate_key_cases x st i (vid, role, s) with hsame | ⟨sh, m', ss', hsh, hm', hok, hk, hmem', hupd, hnew⟩ | ⟨sh, m', ss', hsh, hm', hok, hk, hupd, hnew⟩
    · -- impossible: an accepted consensus message of this signer changes the entry (its counter grows) — derive via accept_cases
      exfalso
      have hck := (validate_accept_iff x st i).mp hacc
      have hupd := validate_state_of_accept x st i hck
      obtain ⟨_, sh, hsh, hb⟩ := accept_cases x st i hacc
      rcases hb with ⟨m2, hm2, _, hok⟩ | ⟨m2, hm2, _, _⟩
      · rw [hm] at hm2; cases hm2
        unfold update at hupd
        rw [hm] at hupd
        simp only at hupd
        obtain ⟨_, hpw, _⟩ := validConsensusSigners_spec sh m hok.signersOk
        obtain ⟨ss', h1, h2⟩ := updConsensus_get x.cfg i.vid i.role m m.signers st _ (pairwise_lt_nodup _ hpw) hupd s hmem
        rw [e1, e2] at h1 h2
        rw [hsame] at h2
        have hbeh := hok.behaviorOk _ hmem
        rw [e1, e2] at hbeh
        have hle : ∀ ss, st (vid, role, s) = some ss → lexLe (ss.slot, ss.round) (m.height, m.round) := by
          intro ss hss
          rw [hss] at hbeh
          exact (behavior_some_spec x.cfg sh _ m ss hbeh).1
        obtain ⟨u1, u2, u3, u4⟩ := updSigner_spec x.cfg m _ ss' hok.typeOk (validConsensusSigners_nonempty sh m hok.signersOk)
          (round_ge_one x st i sh m hok) hle h1
        have := u4 ss' h2 (by rw [u1, u2]) (msgKind m)
        have := this.2 rfl
        omega
      · rw [hm] at hm2; cases hm2
    · rw [hm] at hm'; cases hm'
      have hbeh := hok.behaviorOk _ hmem
      rw [e1, e2] at hbeh
      have hne := validConsensusSigners_nonempty sh m hok.signersOk
      have hle : ∀ ss, st (vid, role, s) = some ss → lexLe (ss.slot, ss.round) (m.height, m.round) := by
        intro ss hss
        rw [hss] at hbeh
        exact (behavior_some_spec x.cfg sh _ m ss hbeh).1
      obtain ⟨u1, u2, u3, u4⟩ := updSigner_spec x.cfg m _ ss' hok.typeOk hne (round_ge_one x st i sh m hok) hle hupd
      constructor
      · rintro ⟨ss, hss, hcase⟩
        have hl := hle ss hss
        rw [hss] at hbeh
        obtain ⟨_, hsameRound, _, _⟩ := behavior_some_spec x.cfg sh _ m ss hbeh
        rcases hcase with hlt | ⟨heq, hcnt⟩
        · rw [← e3, ← e4] at hlt
          unfold lexLe lexLt at hl
          unfold lexLt at hlt
          simp only at hl hlt
          rcases hl with hl | hl
          · omega
          · simp at hl; omega
        · have heq' : m.height = ss.slot ∧ m.round = ss.round := by
            simp at heq; omega
          have hcv := (hsameRound heq').1
          have := countsValidate_spec ss.counts m _ hok.typeOk hne hcv (by rw [e5]; exact hkind)
          rw [e5] at this
          omega
      · exact ⟨ss', hnew, Or.inr ⟨by rw [u1, u2, e3, e4], by rw [← e5]; exact u3⟩⟩
    · rw [hm] at hm'; cases hm'
  · cases hp

/-- INVARIANT: starting from ANY state, along ANY history, at most one message of a given non-decided kind is accepted
    per (validator, role, signer, slot, round); none if the budget is already used up -/
theorem countAcc_le (x : Ctx) (kind vid role s slot round : Nat) (hkind : kind ≠ 4) (hist : List Input) :
    ∀ st, (usedUp kind vid role s slot round st → countAcc x (isKindAt kind vid role s slot round) st hist = 0) ∧
          countAcc x (isKindAt kind vid role s slot round) st hist ≤ 1 := by
  induction hist with
  | nil => intro st; exact ⟨fun _ => rfl, Nat.zero_le _⟩
  | cons i rest ih =>
    intro st
    unfold countAcc
    obtain ⟨ih0, ih1⟩ := ih (validate x st i).1
    by_cases hev : (validate x st i).2 = .accept ∧ isKindAt kind vid role s slot round i = true
    · obtain ⟨hnot, hnow⟩ := accept_uses_budget x kind vid role s slot round hkind st i hev.1 hev.2
      simp only [hev, and_self, if_true]
      rw [ih0 hnow]
      exact ⟨fun hu => absurd hu hnot, Nat.le_refl _⟩
    · simp only [hev, if_false, Nat.zero_add]
      exact ⟨fun hu => ih0 (usedUp_mono x kind vid role s slot round st i hu), ih1⟩

/-! ## validation calls for different (validator, role) ids commute -/

/-- a call touches only entries of its own (validator, role) -/
theorem validate_frame (x : Ctx) (st : State) (i : Input) (k : Key) (h : k.1 ≠ i.vid ∨ k.2.1 ≠ i.role) :
    (validate x st i).1 k = st k := by
  rcases validate_key_cases x st i k with hs | ⟨_, _, _, _, _, _, hk, _⟩ | ⟨_, _, _, _, _, _, hk, _⟩
  · exact hs
  · exfalso; rcases h with h | h
    · exact h (by rw [hk])
    · exact h (by rw [hk])
  · exfalso; rcases h with h | h
    · exact h (by rw [hk])
    · exact h (by rw [hk])

/-- the verdict depends only on the entries of the message's own (validator, role) -/
theorem validate_congr_out (x : Ctx) (st1 st2 : State) (i : Input)
    (h : ∀ s, st1 (i.vid, i.role, s) = st2 (i.vid, i.role, s)) : (validate x st1 i).2 = (validate x st2 i).2 := by
  have hc := check_congr x st1 st2 i h
  cases hck : check x st1 i with
  | ok u =>
    cases u
    have h2 : check x st2 i = .ok () := by rw [← hc]; exact hck
    rw [(validate_accept_iff x st1 i).mpr hck, (validate_accept_iff x st2 i).mpr h2]
  | error e =>
    have h2 : check x st2 i = .error e := by rw [← hc]; exact hck
    unfold validate
    rw [hck, h2]

/-- … and so do the new entries of that (validator, role) -/
theorem validate_congr_state (x : Ctx) (st1 st2 : State) (i : Input)
    (h : ∀ s, st1 (i.vid, i.role, s) = st2 (i.vid, i.role, s)) :
    ∀ s, (validate x st1 i).1 (i.vid, i.role, s) = (validate x st2 i).1 (i.vid, i.role, s) := by
  have hc := check_congr x st1 st2 i h
  cases hck : check x st1 i with
  | error e =>
    have h2 : check x st2 i = .error e := by rw [← hc]; exact hck
    have n1 : (validate x st1 i).2 ≠ .accept := by
      intro ha; rw [(validate_accept_iff x st1 i).mp ha] at hck; cases hck
    have n2 : (validate x st2 i).2 ≠ .accept := by
      intro ha; rw [(validate_accept_iff x st2 i).mp ha] at h2; cases h2
    rw [validate_state_of_not_accept x st1 i n1, validate_state_of_not_accept x st2 i n2]
    exact h
  | ok u =>
    cases u
    have h2 : check x st2 i = .ok () := by rw [← hc]; exact hck
    have u1 := validate_state_of_accept x st1 i hck
    have u2 := validate_state_of_accept x st2 i h2
    unfold update at u1 u2
    cases hb : i.body with
    | consensus m =>
      rw [hb] at u1 u2
      simp only at u1 u2
      obtain ⟨_, hok⟩ := updConsensus_congr x.cfg i.vid i.role m m.signers st1 st2 h
      obtain ⟨st2', e2, hag⟩ := hok _ u1
      rw [e2] at u2
      injection u2 with u2
      rw [← u2]; exact hag
    | partialSig m =>
      rw [hb] at u1 u2
      simp only at u1 u2
      rw [← h m.signer] at u2
      cases hu : updPartial x.cfg m (st1 (i.vid, i.role, m.signer)) with
      | error e => rw [hu] at u1; cases u1
      | ok ss =>
        rw [hu] at u1 u2
        simp only at u1 u2
        injection u1 with u1
        injection u2 with u2
        intro s
        rw [← u1, ← u2]
        by_cases hs : s = m.signer
        · subst hs; rw [State.set_same, State.set_same]
        · have : (i.vid, i.role, s) ≠ (i.vid, i.role, m.signer) := by
            intro he; injection he with _ h2; injection h2 with _ h3; exact hs h3
          rw [State.set_other _ _ _ _ this, State.set_other _ _ _ _ this]; exact h s
    | unknownType => rw [hb] at u1 u2; injection u1 with u1; injection u2 with u2; intro s; rw [← u1, ← u2]; exact h s
    | malformed => rw [hb] at u1 u2; injection u1 with u1; injection u2 with u2; intro s; rw [← u1, ← u2]; exact h s
    | event => rw [hb] at u1 u2; injection u1 with u1; injection u2 with u2; intro s; rw [← u1, ← u2]; exact h s

/-- two calls for different (validator, role) ids give the same verdicts and the same final state in either order -/
theorem validate_commutes (x : Ctx) (st : State) (a b : Input) (hid : a.vid ≠ b.vid ∨ a.role ≠ b.role) :
    (validate x (validate x st a).1 b).2 = (validate x st b).2 ∧
    (validate x (validate x st b).1 a).2 = (validate x st a).2 ∧
    (validate x (validate x st a).1 b).1 = (validate x (validate x st b).1 a).1 := by
  have fa : ∀ s, (validate x st a).1 (b.vid, b.role, s) = st (b.vid, b.role, s) := fun s =>
    validate_frame x st a _ (by rcases hid with h | h; exact Or.inl (Ne.symm h); exact Or.inr (Ne.symm h))
  have fb : ∀ s, (validate x st b).1 (a.vid, a.role, s) = st (a.vid, a.role, s) := fun s =>
    validate_frame x st b _ (by rcases hid with h | h; exact Or.inl h; exact Or.inr h)
  refine ⟨validate_congr_out x _ _ b fa, validate_congr_out x _ _ a fb, ?_⟩
  funext k
  obtain ⟨k1, k2, k3⟩ := k
  by_cases ha : k1 = a.vid ∧ k2 = a.role
  · obtain ⟨h1, h2⟩ := ha
    subst h1; subst h2
    rw [validate_frame x _ b _ (by rcases hid with h | h; exact Or.inl h; exact Or.inr h)]
    exact (validate_congr_state x _ _ a fb k3).symm
  · by_cases hb : k1 = b.vid ∧ k2 = b.role
    · obtain ⟨h1, h2⟩ := hb
      subst h1; subst h2
      rw [validate_frame x (validate x st b).1 a _ (by rcases hid with h | h; exact Or.inl (Ne.symm h); exact Or.inr (Ne.symm h))]
      exact validate_congr_state x _ _ b fa k3
    · have na : k1 ≠ a.vid ∨ k2 ≠ a.role := by
        by_cases h : k1 = a.vid
        · exact Or.inr (fun h2 => ha ⟨h, h2⟩)
        · exact Or.inl h
      have nb : k1 ≠ b.vid ∨ k2 ≠ b.role := by
        by_cases h : k1 = b.vid
        · exact Or.inr (fun h2 => hb ⟨h, h2⟩)
        · exact Or.inl h
      rw [validate_frame x _ b _ nb, validate_frame x _ a _ na, validate_frame x _ a _ na, validate_frame x _ b _ nb]

end Ssv.Validation
