/-
Helper lemmas for engine `logstream` (property C13). Core Lean only (no Mathlib needed).
The property theorems themselves are in Ssv/Props/C13.lean.
-/
import Ssv.Model.LogStream
namespace Ssv.LogStream

/-- the node lists each block's logs in transaction order -/
def ChainSorted (chain : Nat → List RawLog) : Prop :=
  ∀ b, (chain b).Pairwise (fun x y => x.tx ≤ y.tx)

def SortedLogs (l : List Log) : Prop := l.Pairwise (fun a b => logLess b a = false)

theorem sortLogs_of_sorted : ∀ {l : List Log}, SortedLogs l → sortLogs l = l
  | [], _ => rfl
  | x :: xs, h => by
    have hx := List.pairwise_cons.mp h
    rw [sortLogs, sortLogs_of_sorted hx.2]
    cases xs with
    | nil => rfl
    | cons y ys =>
      have : logLess y x = false := hx.1 y (by simp)
      simp [insLog, this]

/-- the non-removed logs of a list of blocks, as the node reports them -/
def flat (chain : Nat → List RawLog) (bs : List Nat) : List Log := bs.flatMap (nonRemoved chain)

theorem valid_eq_flat (chain : Nat → List RawLog) (lo n : Nat) :
    (nodeLogs chain lo n).filter (fun l => !l.removed) = flat chain (List.range' lo n) := by
  simp only [nodeLogs, flat, List.filter_flatMap]
  rfl

theorem mem_nonRemoved_block {chain : Nat → List RawLog} {b : Nat} {l : Log} (h : l ∈ nonRemoved chain b) :
    l.block = b := by
  simp [nonRemoved, mkLog] at h
  obtain ⟨⟨r, _, rfl⟩, _⟩ := h
  rfl

theorem mem_flat {chain : Nat → List RawLog} {bs : List Nat} {l : Log} (h : l ∈ flat chain bs) :
    l.block ∈ bs := by
  simp [flat] at h
  obtain ⟨b, hb, hl⟩ := h
  rw [mem_nonRemoved_block hl]; exact hb

theorem sorted_nonRemoved {chain : Nat → List RawLog} (hc : ChainSorted chain) (b : Nat) :
    SortedLogs (nonRemoved chain b) := by
  unfold SortedLogs nonRemoved
  apply List.Pairwise.filter
  rw [List.pairwise_map]
  refine (hc b).imp ?_
  intro x y hxy
  have : ¬ y.tx < x.tx := by omega
  simp [logLess, mkLog, this]

theorem sorted_flat {chain : Nat → List RawLog} (hc : ChainSorted chain) :
    ∀ {bs : List Nat}, bs.Pairwise (· < ·) → SortedLogs (flat chain bs)
  | [], _ => by simp [flat, SortedLogs]
  | b :: bs, h => by
    have hb := List.pairwise_cons.mp h
    have ih := sorted_flat hc hb.2
    show SortedLogs (nonRemoved chain b ++ flat chain bs)
    unfold SortedLogs
    rw [List.pairwise_append]
    refine ⟨sorted_nonRemoved hc b, ih, ?_⟩
    intro x hx y hy
    have h1 := mem_nonRemoved_block hx
    have h2 := hb.1 _ (mem_flat hy)
    simp [logLess]; split <;> omega

/-! ## PackLogs on the node's answer -/

theorem packFrom_same (b : Nat) : ∀ (ls : List Log) (acc rest : List Log), (∀ l ∈ ls, l.block = b) →
    packFrom b acc (ls ++ rest) = packFrom b (acc ++ ls) rest
  | [], acc, rest, _ => by simp
  | l :: ls, acc, rest, h => by
    have hl : l.block = b := h l (by simp)
    have ih := packFrom_same b ls (acc ++ [l]) rest (fun x hx => h x (by simp [hx]))
    simp [packFrom, hl, ih]

theorem packFrom_other (chain : Nat → List RawLog) (b : Nat) (acc : List Log) :
    ∀ (bs : List Nat), (∀ b' ∈ bs, b' ≠ b) →
      packFrom b acc (flat chain bs) = ⟨b, acc⟩ :: packLoop (flat chain bs)
  | [], _ => by simp [flat, packFrom, packLoop]
  | b' :: bs, h => by
    have ih := packFrom_other chain b acc bs (fun x hx => h x (by simp [hx]))
    have hne : b' ≠ b := h b' (by simp)
    show packFrom b acc (nonRemoved chain b' ++ flat chain bs) = _ :: packLoop (nonRemoved chain b' ++ flat chain bs)
    cases hnr : nonRemoved chain b' with
    | nil => simpa using ih
    | cons l ls =>
      have hl : l.block = b' := mem_nonRemoved_block (by rw [hnr]; simp)
      simp [packFrom, packLoop, hl, hne]

/-- the entries the property expects for a list of blocks: one per block that has non-removed logs -/
def entriesOf (chain : Nat → List RawLog) (bs : List Nat) : List BlockLogs :=
  bs.filterMap fun b => if nonRemoved chain b = [] then none else some ⟨b, nonRemoved chain b⟩

theorem packLoop_flat (chain : Nat → List RawLog) :
    ∀ {bs : List Nat}, bs.Pairwise (· < ·) → packLoop (flat chain bs) = entriesOf chain bs
  | [], _ => by simp [flat, packLoop, entriesOf]
  | b :: bs, h => by
    have hb := List.pairwise_cons.mp h
    have ih := packLoop_flat chain hb.2
    show packLoop (nonRemoved chain b ++ flat chain bs) = _
    cases hnr : nonRemoved chain b with
    | nil => simp [entriesOf, hnr] at ih ⊢; exact ih
    | cons l ls =>
      have hl : l.block = b := mem_nonRemoved_block (by rw [hnr]; simp)
      have hall : ∀ x ∈ ls, x.block = b := fun x hx => mem_nonRemoved_block (by rw [hnr]; simp [hx])
      have hne : ∀ b' ∈ bs, b' ≠ b := fun b' hb' => by have := hb.1 b' hb'; omega
      show packLoop (l :: (ls ++ flat chain bs)) = _
      rw [packLoop, hl, packFrom_same b ls [l] _ hall, packFrom_other chain b _ bs hne, ih]
      simp [entriesOf, hnr]

theorem packLogs_valid {chain : Nat → List RawLog} (hc : ChainSorted chain) (lo n : Nat) :
    packLogs ((nodeLogs chain lo n).filter (fun l => !l.removed)) = entriesOf chain (List.range' lo n) := by
  have hp : (List.range' lo n).Pairwise (· < ·) := List.pairwise_lt_range'
  rw [valid_eq_flat, packLogs, sortLogs_of_sorted (sorted_flat hc hp), packLoop_flat chain hp]


/-! ## the delivery invariant -/

/-- "every block in `[lo, hi)` that has non-removed logs has been delivered exactly once, with exactly these
    logs, in increasing order, and nothing else but empty markers of blocks without such logs" -/
structure EntriesOK (chain : Nat → List RawLog) (lo hi : Nat) (es : List BlockLogs) : Prop where
  incr : (es.map (·.block)).Pairwise (· < ·)
  sound : ∀ e ∈ es, lo ≤ e.block ∧ e.block < hi ∧ e.logs = nonRemoved chain e.block
  complete : ∀ b, lo ≤ b → b < hi → nonRemoved chain b ≠ [] → ∃ e ∈ es, e.block = b

theorem EntriesOK.nil (chain : Nat → List RawLog) (lo : Nat) : EntriesOK chain lo lo [] :=
  ⟨by simp, by simp, fun b h1 h2 => by omega⟩

theorem EntriesOK.append {chain : Nat → List RawLog} {lo mid hi : Nat} {a b : List BlockLogs}
    (ha : EntriesOK chain lo mid a) (hb : EntriesOK chain mid hi b) (h1 : lo ≤ mid) (h2 : mid ≤ hi) :
    EntriesOK chain lo hi (a ++ b) := by
  refine ⟨?_, ?_, ?_⟩
  · rw [List.map_append, List.pairwise_append]
    refine ⟨ha.incr, hb.incr, ?_⟩
    intro x hx y hy
    simp at hx hy
    obtain ⟨e, he, rfl⟩ := hx
    obtain ⟨f, hf, rfl⟩ := hy
    have := ha.sound e he; have := hb.sound f hf; omega
  · intro e he
    rcases List.mem_append.mp he with he | he
    · have := ha.sound e he; exact ⟨this.1, by omega, this.2.2⟩
    · have := hb.sound e he; exact ⟨by omega, this.2.1, this.2.2⟩
  · intro x hx1 hx2 hnr
    by_cases hm : x < mid
    · obtain ⟨e, he, hb'⟩ := ha.complete x hx1 hm hnr
      exact ⟨e, List.mem_append_left _ he, hb'⟩
    · obtain ⟨e, he, hb'⟩ := hb.complete x (by omega) hx2 hnr
      exact ⟨e, List.mem_append_right _ he, hb'⟩

theorem EntriesOK.extend {chain : Nat → List RawLog} {lo hi hi' : Nat} {es : List BlockLogs}
    (h : EntriesOK chain lo hi es) (hle : hi ≤ hi')
    (hempty : ∀ b, hi ≤ b → b < hi' → nonRemoved chain b = []) : EntriesOK chain lo hi' es :=
  ⟨h.incr, fun e he => by have := h.sound e he; exact ⟨this.1, by omega, this.2.2⟩,
   fun b h1 h2 hnr => by
     by_cases hb : b < hi
     · exact h.complete b h1 hb hnr
     · exact absurd (hempty b (by omega) h2) hnr⟩

theorem cursorAfter_nil (cur : Nat) : cursorAfter cur [] = cur := rfl

theorem cursorAfter_append_singleton (cur : Nat) (es : List BlockLogs) (e : BlockLogs) :
    cursorAfter cur (es ++ [e]) = e.block + 1 := by
  simp [cursorAfter, List.foldl_append]

/-- the last element of a strictly increasing list dominates -/
theorem le_last_of_incr {es : List BlockLogs} {e : BlockLogs}
    (h : ((es ++ [e]).map (·.block)).Pairwise (· < ·)) : ∀ x ∈ es ++ [e], x.block ≤ e.block := by
  intro x hx
  rw [List.map_append, List.pairwise_append] at h
  rcases List.mem_append.mp hx with hx | hx
  · have := h.2.2 x.block (List.mem_map.mpr ⟨x, hx, rfl⟩) e.block (by simp); omega
  · simp at hx; subst hx; exact Nat.le_refl _

/-- after forwarding `es` the cursor is `last + 1`: still "everything below the cursor, nothing at or above" -/
theorem EntriesOK.shrink {chain : Nat → List RawLog} {lo hi : Nat} {es : List BlockLogs}
    (h : EntriesOK chain lo hi es) (hle : lo ≤ hi) :
    EntriesOK chain lo (cursorAfter lo es) es ∧ lo ≤ cursorAfter lo es ∧ cursorAfter lo es ≤ hi := by
  rcases List.eq_nil_or_concat es with rfl | ⟨es', e, rfl⟩
  · exact ⟨EntriesOK.nil chain lo, Nat.le_refl _, hle⟩
  · rw [List.concat_eq_append] at *
    rw [cursorAfter_append_singleton]
    have hlast := le_last_of_incr h.incr
    have hse := h.sound e (by simp)
    refine ⟨⟨h.incr, ?_, ?_⟩, by omega, by omega⟩
    · intro x hx
      have h1 := h.sound x hx; have h2 := hlast x hx
      exact ⟨by omega, by omega, h1.2.2⟩
    · intro b h1 h2 hnr
      exact h.complete b h1 (by omega) hnr

theorem entriesOf_ok (chain : Nat → List RawLog) (lo n : Nat) :
    EntriesOK chain lo (lo + n) (entriesOf chain (List.range' lo n)) := by
  refine ⟨?_, ?_, ?_⟩
  · have hp : (List.range' lo n).Pairwise (· < ·) := List.pairwise_lt_range'
    have : (entriesOf chain (List.range' lo n)).map (·.block)
        = (List.range' lo n).filter (fun b => !(nonRemoved chain b).isEmpty) := by
      generalize List.range' lo n = bs
      induction bs with
      | nil => rfl
      | cons b bs ih =>
        by_cases hb : nonRemoved chain b = []
        · simp [entriesOf, hb] at ih ⊢; exact ih
        · have : (nonRemoved chain b).isEmpty = false := by simp [hb]
          simp [entriesOf, hb, this] at ih ⊢; exact ih
    rw [this]; exact hp.filter _
  · intro e he
    simp only [entriesOf, List.mem_filterMap] at he
    obtain ⟨b, hb, hne⟩ := he
    rw [List.mem_range'_1] at hb
    split at hne
    · cases hne
    · cases hne; exact ⟨hb.1, hb.2, rfl⟩
  · intro b h1 h2 hnr
    refine ⟨⟨b, nonRemoved chain b⟩, ?_, rfl⟩
    simp only [entriesOf, List.mem_filterMap]
    exact ⟨b, by rw [List.mem_range'_1]; omega, by rw [if_neg hnr]⟩

theorem flat_eq_nil {chain : Nat → List RawLog} {bs : List Nat} (h : flat chain bs = []) :
    ∀ b ∈ bs, nonRemoved chain b = [] := by
  intro b hb
  simp [flat] at h
  exact h b hb

/-- one successful batch `[lo, hi]` delivers exactly the blocks of `[lo, hi + 1)` -/
theorem batchEntries_ok {cfg : Cfg} (hc : ChainSorted cfg.chain) {lo hi : Nat} (h : lo ≤ hi) :
    EntriesOK cfg.chain lo (hi + 1) (batchEntries cfg lo hi) := by
  unfold batchEntries
  simp only
  split
  · rename_i hemp
    rw [valid_eq_flat, List.isEmpty_iff] at hemp
    have hall := flat_eq_nil hemp
    refine ⟨by simp, ?_, ?_⟩
    · intro e he
      simp at he; subst he
      exact ⟨h, by simp, (hall hi (by simp [List.mem_range'_1]; omega)).symm⟩
    · intro b h1 h2 hnr
      exact absurd (hall b (by simp [List.mem_range'_1]; omega)) hnr
  · rw [packLogs_valid hc]
    have := entriesOf_ok cfg.chain lo (hi + 1 - lo)
    have he : lo + (hi + 1 - lo) = hi + 1 := by omega
    rwa [he] at this


/-! ## fetchLogsInBatches -/

theorem fetchLoop_past (cfg : Cfg) (fuel lo endB : Nat) (arm : Option Nat) (h : lo > endB) :
    (fetchLoop cfg fuel lo endB arm).entries = [] := by
  cases fuel with
  | zero => simp [fetchLoop]
  | succ f => simp [fetchLoop, h]

/-- safety of the batch loop: whatever fails, the entries produced cover exactly `[lo, reach)` for some `reach`,
    and the whole range when no error is reported -/
theorem fetchLoop_ok {cfg : Cfg} (hb : 1 ≤ cfg.batch) (hc : ChainSorted cfg.chain) (endB : Nat) :
    ∀ (fuel lo : Nat) (arm : Option Nat), lo ≤ endB + 1 →
      ∃ reach, lo ≤ reach ∧ reach ≤ endB + 1 ∧
        EntriesOK cfg.chain lo reach (fetchLoop cfg fuel lo endB arm).entries ∧
        ((fetchLoop cfg fuel lo endB arm).ok = true → reach = endB + 1)
  | 0, lo, arm, h => ⟨lo, Nat.le_refl _, h, EntriesOK.nil _ _, by simp [fetchLoop]; omega⟩
  | fuel + 1, lo, arm, h => by
    by_cases hlo : lo > endB
    · refine ⟨lo, Nat.le_refl _, h, ?_, fun _ => by omega⟩
      rw [fetchLoop_past cfg _ lo endB arm hlo]; exact EntriesOK.nil _ _
    · by_cases harm : arm = some 0
      · subst harm
        refine ⟨lo, Nat.le_refl _, h, ?_, ?_⟩
        · simp [fetchLoop, hlo]; exact EntriesOK.nil _ _
        · simp [fetchLoop, hlo]
      · -- a successful FilterLogs for [lo, hi]
        have hstep : fetchLoop cfg (fuel + 1) lo endB arm =
            (let hi := if lo + cfg.batch - 1 > endB then endB else lo + cfg.batch - 1
             let r := fetchLoop cfg fuel (lo + cfg.batch) endB (arm.map (· - 1))
             ⟨batchEntries cfg lo hi ++ r.entries, r.arm, r.ok, ⟨lo, hi, true⟩ :: r.calls⟩) := by
          rw [fetchLoop, if_neg hlo]
          cases arm with
          | none => rfl
          | some k => cases k with
            | zero => exact absurd rfl harm
            | succ k => rfl
        rw [hstep]
        simp only
        by_cases hlast : lo + cfg.batch - 1 > endB
        · -- last batch: [lo, endB]
          rw [if_pos hlast]
          rw [fetchLoop_past cfg fuel (lo + cfg.batch) endB _ (by omega), List.append_nil]
          exact ⟨endB + 1, by omega, Nat.le_refl _, batchEntries_ok hc (by omega), fun _ => rfl⟩
        · rw [if_neg hlast]
          obtain ⟨reach, h1, h2, h3, h4⟩ := fetchLoop_ok hb hc endB fuel (lo + cfg.batch) (arm.map (· - 1)) (by omega)
          refine ⟨reach, by omega, h2, ?_, h4⟩
          have hb1 := batchEntries_ok hc (cfg := cfg) (lo := lo) (hi := lo + cfg.batch - 1) (by omega)
          have he : lo + cfg.batch - 1 + 1 = lo + cfg.batch := by omega
          rw [he] at hb1
          exact hb1.append h3 (by omega) h1

/-- liveness of the batch loop: with no armed failure and a batch size ≥ 1 it reports no error -/
theorem fetchLoop_none_ok {cfg : Cfg} (hb : 1 ≤ cfg.batch) (endB : Nat) :
    ∀ (fuel lo : Nat), endB + 1 ≤ fuel + lo →
      (fetchLoop cfg fuel lo endB none).ok = true ∧ (fetchLoop cfg fuel lo endB none).arm = none
  | 0, lo, h => by simp [fetchLoop]; omega
  | fuel + 1, lo, h => by
    by_cases hlo : lo > endB
    · simp [fetchLoop, hlo]
    · have ih := fetchLoop_none_ok hb endB fuel (lo + cfg.batch) (by omega)
      simp [fetchLoop, hlo, ih]


theorem fetchBatches_ok {cfg : Cfg} (hb : 1 ≤ cfg.batch) (hc : ChainSorted cfg.chain) {lo endB : Nat}
    (h : lo ≤ endB) (arm : Option Nat) :
    ∃ reach, lo ≤ reach ∧ reach ≤ endB + 1 ∧
      EntriesOK cfg.chain lo reach (fetchBatches cfg lo endB arm).entries ∧
      ((fetchBatches cfg lo endB arm).ok = true → reach = endB + 1) := by
  unfold fetchBatches
  rw [if_neg (by omega)]
  exact fetchLoop_ok hb hc endB _ lo arm (by omega)

theorem fetchBatches_none_ok {cfg : Cfg} (hb : 1 ≤ cfg.batch) {lo endB : Nat} (h : lo ≤ endB) :
    (fetchBatches cfg lo endB none).ok = true ∧ (fetchBatches cfg lo endB none).arm = none := by
  unfold fetchBatches
  rw [if_neg (by omega)]
  exact fetchLoop_none_ok hb endB _ lo (by omega)

/-! ## StreamLogs: the error path never touches the cursor or the output -/

theorem afterError_out (s : St) : (afterError s).out = s.out := by
  unfold afterError; simp only; split <;> rfl
theorem afterError_cursor (s : St) : (afterError s).cursor = s.cursor := by
  unfold afterError; simp only; split <;> rfl
theorem afterError_armFetch (s : St) : (afterError s).armFetch = s.armFetch := by
  unfold afterError; simp only; split <;> rfl
theorem afterError_armSub (s : St) : (afterError s).armSub = s.armSub := by
  unfold afterError; simp only; split <;> rfl
theorem afterError_callStart_le (s : St) (h : s.callStart ≤ s.cursor) :
    (afterError s).callStart ≤ (afterError s).cursor := by
  unfold afterError; simp only; split
  · exact h
  · exact Nat.le_refl _

theorem resub_out : ∀ (k : Nat) (s : St), (resub k s).out = s.out
  | 0, s => rfl
  | k + 1, s => by
    unfold resub; split
    · rfl
    · rw [resub_out k, afterError_out]
theorem resub_cursor : ∀ (k : Nat) (s : St), (resub k s).cursor = s.cursor
  | 0, s => rfl
  | k + 1, s => by
    unfold resub; split
    · rfl
    · rw [resub_cursor k, afterError_cursor]
theorem resub_armFetch : ∀ (k : Nat) (s : St), (resub k s).armFetch = s.armFetch
  | 0, s => rfl
  | k + 1, s => by
    unfold resub; split
    · rfl
    · rw [resub_armFetch k, afterError_armFetch]
theorem resub_callStart_le : ∀ (k : Nat) (s : St), s.callStart ≤ s.cursor →
    (resub k s).callStart ≤ (resub k s).cursor
  | 0, s, h => h
  | k + 1, s, h => by
    unfold resub; split
    · exact h
    · exact resub_callStart_le k _ (afterError_callStart_le _ h)

theorem failPath_out (s : St) : (failPath s).out = s.out := by
  simp [failPath, resub_out, afterError_out]
theorem failPath_cursor (s : St) : (failPath s).cursor = s.cursor := by
  simp [failPath, resub_cursor, afterError_cursor]
theorem failPath_armFetch (s : St) : (failPath s).armFetch = s.armFetch := by
  simp [failPath, resub_armFetch, afterError_armFetch]
theorem failPath_callStart_le (s : St) (h : s.callStart ≤ s.cursor) :
    (failPath s).callStart ≤ (failPath s).cursor := by
  unfold failPath
  exact resub_callStart_le _ _ (afterError_callStart_le _ h)

/-! ## the cursor invariant -/

/-- "everything in `[start, cursor)` has been delivered exactly once, nothing at or above the cursor" -/
structure Inv (cfg : Cfg) (start : Nat) (s : St) : Prop where
  ok : EntriesOK cfg.chain start s.cursor s.out
  ge : start ≤ s.cursor
  call : s.callStart ≤ s.cursor

theorem inv_init (cfg : Cfg) (start : Nat) : Inv cfg start (init start) :=
  ⟨EntriesOK.nil _ _, Nat.le_refl _, Nat.le_refl _⟩

theorem inv_failPath {cfg : Cfg} {start : Nat} {s : St} (h : Inv cfg start s) : Inv cfg start (failPath s) :=
  ⟨by rw [failPath_cursor, failPath_out]; exact h.ok, by rw [failPath_cursor]; exact h.ge,
   failPath_callStart_le s h.call⟩

theorem inv_step {cfg : Cfg} (hb : 1 ≤ cfg.batch) (hc : ChainSorted cfg.chain) {start : Nat} {s : St}
    (h : Inv cfg start s) (op : Op) :
    Inv cfg start (step cfg s op).1 ∧ s.cursor ≤ (step cfg s op).1.cursor := by
  by_cases hab : s.aborted = true
  · have : (step cfg s op).1 = s := by cases op <;> simp [step, hab]
    rw [this]; exact ⟨h, Nat.le_refl _⟩
  cases op with
  | subErr =>
    have : (step cfg s .subErr).1 = failPath s := by simp [step, hab]
    rw [this]; exact ⟨inv_failPath h, by simp [failPath_cursor]⟩
  | connDrop =>
    have : (step cfg s .connDrop).1 = failPath s := by simp [step, hab]
    rw [this]; exact ⟨inv_failPath h, by simp [failPath_cursor]⟩
  | fetchErr k =>
    have : (step cfg s (.fetchErr k)).1 = { s with armFetch := some k } := by simp [step, hab]
    rw [this]; exact ⟨⟨h.ok, h.ge, h.call⟩, Nat.le_refl _⟩
  | subFail =>
    have : (step cfg s .subFail).1 = { s with armSub := s.armSub + 1 } := by simp [step, hab]
    rw [this]; exact ⟨⟨h.ok, h.ge, h.call⟩, Nat.le_refl _⟩
  | head n =>
    by_cases hfol : n < cfg.follow
    · have : (step cfg s (.head n)).1 = s := by simp [step, hab, hfol]
      rw [this]; exact ⟨h, Nat.le_refl _⟩
    by_cases hto : n - cfg.follow < s.cursor
    · have : (step cfg s (.head n)).1 = s := by simp [step, hab, hfol, hto]
      rw [this]; exact ⟨h, Nat.le_refl _⟩
    have hle : s.cursor ≤ n - cfg.follow := by omega
    obtain ⟨reach, h1, h2, h3, h4⟩ := fetchBatches_ok hb hc hle s.armFetch
    have hsh := h3.shrink h1
    by_cases hok : (fetchBatches cfg s.cursor (n - cfg.follow) s.armFetch).ok = true
    · have hst : (step cfg s (.head n)).1 =
          { s with out := s.out ++ (fetchBatches cfg s.cursor (n - cfg.follow) s.armFetch).entries,
                   cursor := n - cfg.follow + 1,
                   armFetch := (fetchBatches cfg s.cursor (n - cfg.follow) s.armFetch).arm } := by
        simp [step, hab, hfol, hto, hok]
      rw [hst]
      have hr := h4 hok
      subst hr
      refine ⟨⟨?_, ?_, ?_⟩, ?_⟩
      · exact h.ok.append h3 h.ge h1
      · show start ≤ n - cfg.follow + 1
        have := h.ge; omega
      · show s.callStart ≤ n - cfg.follow + 1
        have := h.call; omega
      · show s.cursor ≤ n - cfg.follow + 1
        omega
    · have hst : (step cfg s (.head n)).1 = failPath
          { s with out := s.out ++ (fetchBatches cfg s.cursor (n - cfg.follow) s.armFetch).entries,
                   cursor := cursorAfter s.cursor (fetchBatches cfg s.cursor (n - cfg.follow) s.armFetch).entries,
                   armFetch := (fetchBatches cfg s.cursor (n - cfg.follow) s.armFetch).arm } := by
        simp [step, hab, hfol, hto, hok]
      rw [hst]
      refine ⟨inv_failPath ⟨?_, ?_, ?_⟩, ?_⟩
      · exact h.ok.append hsh.1 h.ge hsh.2.1
      · show start ≤ cursorAfter s.cursor _
        have := h.ge; have := hsh.2.1; omega
      · show s.callStart ≤ cursorAfter s.cursor _
        have := h.call; have := hsh.2.1; omega
      · rw [failPath_cursor]; exact hsh.2.1


theorem run_append (cfg : Cfg) (s : St) (a b : List Op) : run cfg s (a ++ b) = run cfg (run cfg s a) b := by
  simp [run, List.foldl_append]

theorem run_cons (cfg : Cfg) (s : St) (o : Op) (b : List Op) :
    run cfg s (o :: b) = run cfg (step cfg s o).1 b := rfl

theorem inv_run {cfg : Cfg} (hb : 1 ≤ cfg.batch) (hc : ChainSorted cfg.chain) {start : Nat} :
    ∀ (ops : List Op) {s : St}, Inv cfg start s →
      Inv cfg start (run cfg s ops) ∧ s.cursor ≤ (run cfg s ops).cursor
  | [], s, h => ⟨h, Nat.le_refl _⟩
  | o :: ops, s, h => by
    have h1 := inv_step hb hc h o
    have h2 := inv_run hb hc ops h1.1
    rw [run_cons]
    exact ⟨h2.1, Nat.le_trans h1.2 h2.2⟩

/-- a head that arrives while the client is alive and no fetch failure is armed is fully caught up with -/
theorem step_head_reaches {cfg : Cfg} (hb : 1 ≤ cfg.batch) {s : St} {n : Nat}
    (hab : s.aborted = false) (harm : s.armFetch = none) (hfol : cfg.follow ≤ n) :
    n - cfg.follow < (step cfg s (.head n)).1.cursor := by
  have hfol' : ¬ n < cfg.follow := by omega
  by_cases hto : n - cfg.follow < s.cursor
  · have : (step cfg s (.head n)).1 = s := by simp [step, hab, hfol', hto]
    rw [this]; exact hto
  · have hok := (fetchBatches_none_ok hb (cfg := cfg) (lo := s.cursor) (endB := n - cfg.follow) (by omega)).1
    have : (step cfg s (.head n)).1.cursor = n - cfg.follow + 1 := by
      simp [step, hab, hfol', hto, harm, hok]
    omega

/-- strictly increasing block numbers: a block number selects at most one entry, and `complete` makes it one -/
theorem EntriesOK.unique {chain : Nat → List RawLog} {lo hi : Nat} {es : List BlockLogs}
    (h : EntriesOK chain lo hi es) {b : Nat} (h1 : lo ≤ b) (h2 : b < hi) (hnr : nonRemoved chain b ≠ []) :
    es.filter (fun e => e.block = b) = [⟨b, nonRemoved chain b⟩] := by
  obtain ⟨e, he, hb⟩ := h.complete b h1 h2 hnr
  have hlogs := (h.sound e he).2.2
  have hnd : ∀ (l : List BlockLogs), (l.map (·.block)).Pairwise (· < ·) → ∀ x ∈ l, x.block = b →
      l.filter (fun e => e.block = b) = [x] := by
    intro l
    induction l with
    | nil => intro _ x hx; simp at hx
    | cons y ys ih =>
      intro hp x hx hxb
      rw [List.map_cons, List.pairwise_cons] at hp
      rcases List.mem_cons.mp hx with rfl | hx'
      · have : ys.filter (fun e => e.block = b) = [] := by
          rw [List.filter_eq_nil_iff]
          intro z hz
          have := hp.1 z.block (List.mem_map.mpr ⟨z, hz, rfl⟩)
          simp; omega
        simp [hxb, this]
      · have hy : y.block ≠ b := by
          have := hp.1 x.block (List.mem_map.mpr ⟨x, hx', rfl⟩); omega
        simp [hy, ih hp.2 x hx' hxb]
  rw [hnd es h.incr e he hb]
  cases e; simp at hb hlogs; subst hb; subst hlogs; rfl


/-! ## when does StreamLogs give up? never before the third fault of a script -/

def isFault : Op → Nat
  | .head _ => 0
  | _ => 1

def faults (ops : List Op) : Nat := (ops.map isFault).sum

def armed (a : Option Nat) : Nat := if a.isSome then 1 else 0

/-- potential: failures counted so far plus failures still armed -/
def pot (s : St) : Nat := s.tries + s.armSub + armed s.armFetch

def Bound (s : St) (B : Nat) : Prop := if s.aborted = true then 3 ≤ B else pot s ≤ B

theorem fetchLoop_arm {cfg : Cfg} (hb : 1 ≤ cfg.batch) (endB : Nat) :
    ∀ (fuel lo : Nat) (arm : Option Nat), endB + 1 ≤ fuel + lo →
      ((fetchLoop cfg fuel lo endB arm).ok = true → armed (fetchLoop cfg fuel lo endB arm).arm ≤ armed arm) ∧
      ((fetchLoop cfg fuel lo endB arm).ok = false → armed arm = 1 ∧ (fetchLoop cfg fuel lo endB arm).arm = none)
  | 0, lo, arm, h => by simp [fetchLoop]; omega
  | fuel + 1, lo, arm, h => by
    by_cases hlo : lo > endB
    · simp [fetchLoop, hlo]
    · have ih := fetchLoop_arm hb endB fuel (lo + cfg.batch) (arm.map (· - 1)) (by omega)
      cases arm with
      | none => simpa [fetchLoop, hlo] using ih
      | some k => cases k with
        | zero => simp [fetchLoop, hlo, armed]
        | succ k => simpa [fetchLoop, hlo, armed] using ih

theorem Bound.of_true {s : St} {B : Nat} (h : Bound s B) (ha : s.aborted = true) : 3 ≤ B := by
  unfold Bound at h; rwa [if_pos ha] at h
theorem Bound.of_false {s : St} {B : Nat} (h : Bound s B) (ha : s.aborted = false) : pot s ≤ B := by
  unfold Bound at h; rwa [if_neg (by simp [ha])] at h

theorem afterError_spec (s : St) :
    ((afterError s).aborted = true ∧ 2 ≤ s.tries) ∨
    ((afterError s).aborted = s.aborted ∧ (afterError s).tries ≤ s.tries + 1) := by
  unfold afterError
  simp only
  by_cases ht : s.tries + 1 > maxTries
  · left; rw [if_pos ht]; exact ⟨rfl, by unfold maxTries at ht; omega⟩
  · right; rw [if_neg ht]; refine ⟨rfl, ?_⟩
    show (if s.cursor > s.callStart then 0 else s.tries + 1) ≤ s.tries + 1
    split <;> omega

theorem bound_resub : ∀ (k : Nat) (s : St) (B : Nat),
    (s.aborted = true → 3 ≤ B) → (s.aborted = false → s.tries + k + armed s.armFetch ≤ B) →
    Bound (resub k s) B
  | 0, s, B, h1, h2 => by
    unfold resub Bound pot; simp only
    cases hab : s.aborted with
    | true => simpa using h1 hab
    | false => have := h2 hab; simpa using this
  | k + 1, s, B, h1, h2 => by
    rw [resub]
    cases hab : s.aborted with
    | true => rw [if_pos rfl]; unfold Bound; rw [if_pos hab]; exact h1 hab
    | false =>
      rw [if_neg (by simp)]
      have h2' := h2 hab
      have hsp := afterError_spec { s with armSub := k }
      have hcs := afterError_armFetch { s with armSub := k }
      simp only [hab] at hsp hcs
      apply bound_resub k
      · intro ha
        rcases hsp with ⟨_, ht⟩ | ⟨he, _⟩
        · omega
        · rw [ha] at he; cases he
      · intro ha
        rcases hsp with ⟨he, _⟩ | ⟨_, ht⟩
        · rw [ha] at he; cases he
        · rw [hcs]; omega

theorem bound_failPath {s : St} {B : Nat} (hab : s.aborted = false)
    (h : s.tries + 1 + s.armSub + armed s.armFetch ≤ B) : Bound (failPath s) B := by
  unfold failPath
  simp only
  have hsp := afterError_spec s
  have hcs := afterError_armFetch s
  have harm := afterError_armSub s
  apply bound_resub
  · intro ha
    rcases hsp with ⟨_, ht⟩ | ⟨he, _⟩
    · omega
    · rw [ha, hab] at he; cases he
  · intro ha
    rcases hsp with ⟨he, _⟩ | ⟨_, ht⟩
    · rw [ha] at he; cases he
    · rw [hcs, harm]; omega

theorem bound_step {cfg : Cfg} (hb : 1 ≤ cfg.batch) {s : St} {B : Nat} (h : Bound s B) (op : Op) :
    Bound (step cfg s op).1 (B + isFault op) := by
  by_cases hab : s.aborted = true
  · have : (step cfg s op).1 = s := by cases op <;> simp [step, hab]
    rw [this]; unfold Bound; rw [if_pos hab]; have := h.of_true hab; omega
  have hab' : s.aborted = false := by simpa using hab
  have hp := h.of_false hab'
  unfold pot at hp
  cases op with
  | subErr =>
    have : (step cfg s .subErr).1 = failPath s := by simp [step, hab]
    rw [this]; exact bound_failPath hab' (by simp [isFault]; omega)
  | connDrop =>
    have : (step cfg s .connDrop).1 = failPath s := by simp [step, hab]
    rw [this]; exact bound_failPath hab' (by simp [isFault]; omega)
  | fetchErr k =>
    have : (step cfg s (.fetchErr k)).1 = { s with armFetch := some k } := by simp [step, hab]
    rw [this]; unfold Bound pot; simp [hab', isFault, armed]
    have : armed s.armFetch ≥ 0 := Nat.zero_le _
    omega
  | subFail =>
    have : (step cfg s .subFail).1 = { s with armSub := s.armSub + 1 } := by simp [step, hab]
    rw [this]; unfold Bound pot; simp [hab', isFault]; omega
  | head n =>
    simp only [isFault, Nat.add_zero]
    by_cases hfol : n < cfg.follow
    · have : (step cfg s (.head n)).1 = s := by simp [step, hab, hfol]
      rw [this]; exact h
    by_cases hto : n - cfg.follow < s.cursor
    · have : (step cfg s (.head n)).1 = s := by simp [step, hab, hfol, hto]
      rw [this]; exact h
    have harm : ((fetchBatches cfg s.cursor (n - cfg.follow) s.armFetch).ok = true →
          armed (fetchBatches cfg s.cursor (n - cfg.follow) s.armFetch).arm ≤ armed s.armFetch) ∧
        ((fetchBatches cfg s.cursor (n - cfg.follow) s.armFetch).ok = false →
          armed s.armFetch = 1 ∧ (fetchBatches cfg s.cursor (n - cfg.follow) s.armFetch).arm = none) := by
      unfold fetchBatches
      rw [if_neg (by omega)]
      exact fetchLoop_arm hb _ _ _ _ (by omega)
    by_cases hok : (fetchBatches cfg s.cursor (n - cfg.follow) s.armFetch).ok = true
    · have hst : (step cfg s (.head n)).1 =
          { s with out := s.out ++ (fetchBatches cfg s.cursor (n - cfg.follow) s.armFetch).entries,
                   cursor := n - cfg.follow + 1,
                   armFetch := (fetchBatches cfg s.cursor (n - cfg.follow) s.armFetch).arm } := by
        simp [step, hab, hfol, hto, hok]
      rw [hst]; unfold Bound pot; simp only [hab']
      have := harm.1 hok
      simp; omega
    · have hst : (step cfg s (.head n)).1 = failPath
          { s with out := s.out ++ (fetchBatches cfg s.cursor (n - cfg.follow) s.armFetch).entries,
                   cursor := cursorAfter s.cursor (fetchBatches cfg s.cursor (n - cfg.follow) s.armFetch).entries,
                   armFetch := (fetchBatches cfg s.cursor (n - cfg.follow) s.armFetch).arm } := by
        simp [step, hab, hfol, hto, hok]
      rw [hst]
      have := harm.2 (by simpa using hok)
      refine bound_failPath (s := { s with out := _, cursor := _, armFetch := _ }) hab' ?_
      simp only [this.2, armed]
      simp; omega

theorem bound_run {cfg : Cfg} (hb : 1 ≤ cfg.batch) :
    ∀ (ops : List Op) {s : St} {B : Nat}, Bound s B → Bound (run cfg s ops) (B + faults ops)
  | [], s, B, h => by simpa [run, faults] using h
  | o :: ops, s, B, h => by
    have := bound_run hb ops (bound_step hb h o)
    rw [run_cons]
    simpa [faults, Nat.add_assoc] using this

theorem no_abort_of_faults_le_two {cfg : Cfg} (hb : 1 ≤ cfg.batch) (start : Nat) (ops : List Op)
    (h : faults ops ≤ 2) : (streamLogs cfg start ops).aborted = false := by
  have hb0 : Bound (init start) 0 := by simp [Bound, init, pot, armed]
  have := bound_run hb ops hb0
  cases hab : (streamLogs cfg start ops).aborted with
  | false => rfl
  | true =>
    have := this.of_true hab
    omega


/-! ## historical fetch, the handler's cursor check and the hand-over -/

theorem lastAfter_append_singleton (r : Nat) (es : List BlockLogs) (e : BlockLogs) :
    lastAfter r (es ++ [e]) = e.block := by
  simp [lastAfter, List.foldl_append]

theorem cursorAfter_eq_lastAfter {es : List BlockLogs} (h : es ≠ []) (c r : Nat) :
    cursorAfter c es = lastAfter r es + 1 := by
  rcases List.eq_nil_or_concat es with rfl | ⟨es', e, rfl⟩
  · exact absurd rfl h
  · rw [List.concat_eq_append, cursorAfter_append_singleton, lastAfter_append_singleton]

theorem handleStream_last : ∀ (es : List BlockLogs) (db ret d l : Nat),
    handleStream db ret es = some (d, l) → l = lastAfter ret es
  | [], db, ret, d, l, h => by simp [handleStream] at h; simp [lastAfter, h.2]
  | e :: es, db, ret, d, l, h => by
    unfold handleStream at h
    split at h
    · cases h
    · have := handleStream_last es _ _ d l h
      simpa [lastAfter] using this

/-- the handler accepts every strictly increasing stream that starts above its stored block -/
theorem handleStream_incr : ∀ (es : List BlockLogs) (db ret : Nat),
    (es.map (·.block)).Pairwise (· < ·) → (∀ e ∈ es, db < e.block) →
    handleStream db ret es = some (lastAfter db es, lastAfter ret es)
  | [], db, ret, _, _ => rfl
  | e :: es, db, ret, hp, hdb => by
    rw [List.map_cons, List.pairwise_cons] at hp
    have h1 : ¬ db ≥ e.block := by have := hdb e (by simp); omega
    rw [handleStream, if_neg h1]
    rw [handleStream_incr es e.block e.block hp.2
      (fun x hx => hp.1 x.block (List.mem_map.mpr ⟨x, hx, rfl⟩))]
    simp [lastAfter]

theorem syncHistory_ok {cfg : Cfg} (hb : 1 ≤ cfg.batch) (hc : ChainSorted cfg.chain)
    {db fromB : Nat} {cur arm : Option Nat} {hist : List BlockLogs} {last : Nat}
    (h : syncHistory cfg db fromB cur arm = .ok (hist, last)) :
    ∃ H, cur = some H ∧ cfg.follow ≤ H ∧ fromB ≤ H - cfg.follow ∧
      EntriesOK cfg.chain fromB (H - cfg.follow + 1) hist ∧
      hist ≠ [] ∧ last = lastAfter 0 hist ∧ fromB ≤ last ∧ EntriesOK cfg.chain fromB (last + 1) hist := by
  unfold syncHistory fetchHistorical at h
  cases cur with
  | none => simp at h
  | some H =>
    simp only at h
    by_cases h1 : H < cfg.follow
    · simp [h1] at h
    by_cases h2 : H - cfg.follow < fromB
    · simp [h1, h2] at h
    simp only [h1, h2, if_false] at h
    obtain ⟨reach, r1, r2, r3, r4⟩ := fetchBatches_ok hb hc (lo := fromB) (endB := H - cfg.follow) (by omega) arm
    cases hh : handleStream db 0 (fetchBatches cfg fromB (H - cfg.follow) arm).entries with
    | none => simp [hh] at h
    | some p =>
      obtain ⟨d, l⟩ := p
      simp only [hh] at h
      by_cases h3 : l = 0
      · simp [h3] at h
      by_cases h4 : l < fromB
      · simp [h3, h4] at h
      by_cases h5 : (fetchBatches cfg fromB (H - cfg.follow) arm).ok = true
      · simp [h3, h4, h5] at h
        obtain ⟨rfl, rfl⟩ := h
        have hl := handleStream_last _ _ _ _ _ hh
        have hne : (fetchBatches cfg fromB (H - cfg.follow) arm).entries ≠ [] := by
          intro he; rw [he] at hl; simp [lastAfter] at hl; exact h3 hl
        have hreach := r4 h5
        subst hreach
        have hsh := r3.shrink r1
        rw [cursorAfter_eq_lastAfter hne fromB 0, ← hl] at hsh
        exact ⟨H, rfl, by omega, by omega, r3, hne, hl, by omega, hsh.1⟩
      · simp [h3, h4, h5] at h

end Ssv.LogStream
