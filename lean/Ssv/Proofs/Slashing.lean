/-
Helper lemmas for C04: the invariant of the slashing-protection model and its preservation by every step of the
CURRENT semantics (`step`: the bump holds the wallet write lock; lock-taking requests issued meanwhile are delayed).
-/
import Ssv.Model.Slashing

namespace Ssv.Slashing

/-! ### hypothesis on histories, as a per-step guard evaluated in the state in which the op executes -/

/-- every signature RELEASED by the step from `s` to `s'` (new entries of the ghost logs) is within the property's
    quantifier at its release: attestation `source < target ≤ epoch(clock)`, block `slot ≤ clock` -/
def NewOk (cfg : Cfg) (s s' : State) : Prop :=
  (∀ a ∈ s'.atts, a ∈ s.atts ∨ (a.1 < a.2 ∧ a.2 ≤ epochOf cfg s.clock)) ∧
  (∀ b ∈ s'.blocks, b ∈ s.blocks ∨ b ≤ s.clock)

/-- the property's quantifier ("targets and block slots not beyond the clock at signing time"), asked only of
    requests that are actually SIGNED, at the moment they are signed (a request delayed behind a bump is signed when
    the bump finishes); plus `source < target` for attestations (the attester value check of ssv-spec enforces it
    before any sign request; the proof needs it across remove / re-add). -/
def SignedOk (cfg : Cfg) (s : State) (op : Op) : Prop := NewOk cfg s (step cfg s op).1

/-- `P` holds at every step of the run of `ops` from `s` -/
def Along (cfg : Cfg) (P : State → Op → Prop) (s : State) : List Op → Prop
  | [] => True
  | op :: ops => P s op ∧ Along cfg P (step cfg s op).1 ops

/-! ### the invariant -/

def BumpPc.c : BumpPc → Nat
  | .attRead c | .attWrite c _ | .propRead c | .propWrite c _ => c

def PcOk (cfg : Cfg) : BumpPc → Prop
  | .attWrite c w => w = minimalAtt (epochOf cfg c)
  | .propWrite c w => w = minimalProp c
  | _ => True

/-- an in-flight bump: its decided write is the minimal record of its clock reading, and — because nothing is signed
    while it holds the lock — every released signature is within that clock reading -/
def PendOk (cfg : Cfg) (atts : List Att) (blocks : List Nat) : Option BumpPc → Prop
  | none => True
  | some pc => PcOk cfg pc ∧ (∀ a ∈ atts, a.2 ≤ epochOf cfg pc.c) ∧ (∀ b ∈ blocks, b ≤ pc.c)

structure Inv (cfg : Cfg) (s : State) : Prop where
  attWF : ∀ a ∈ s.atts, a.1 < a.2 ∧ a.2 ≤ epochOf cfg s.clock
  blkWF : ∀ b ∈ s.blocks, b ≤ s.clock
  attDom : ∀ hs ht, s.d.att = some (hs, ht) → ∀ a ∈ s.atts, a.1 ≤ hs ∧ a.2 ≤ ht
  blkDom : ∀ hp, s.d.prop = some hp → ∀ b ∈ s.blocks, b ≤ hp
  attSafe : s.atts.Pairwise (fun a b => ¬ Slashable a b)
  blkSafe : s.blocks.Pairwise (fun a b => a ≠ b)
  pendOk : PendOk cfg s.atts s.blocks s.pend

theorem inv_init (cfg : Cfg) (c : Nat) : Inv cfg (init c) := by
  constructor <;> simp [init, PendOk]

/-- the invariant only reads clock, records, in-flight bump and the two logs -/
theorem inv_of_fields {cfg : Cfg} {s s' : State} (h : Inv cfg s) (h1 : s'.clock = s.clock) (h2 : s'.d = s.d)
    (h3 : s'.pend = s.pend) (h4 : s'.atts = s.atts) (h5 : s'.blocks = s.blocks) : Inv cfg s' := by
  constructor
  · rw [h4, h1]; exact h.attWF
  · rw [h5, h1]; exact h.blkWF
  · rw [h2, h4]; exact h.attDom
  · rw [h2, h5]; exact h.blkDom
  · rw [h4]; exact h.attSafe
  · rw [h5]; exact h.blkSafe
  · rw [h3, h4, h5]; exact h.pendOk

theorem epochOf_mono (cfg : Cfg) {a b : Nat} (h : a ≤ b) : epochOf cfg a ≤ epochOf cfg b :=
  Nat.div_le_div_right h

theorem minimalAtt_dom {a : Att} {e e' : Nat} (h1 : a.1 < a.2) (h2 : a.2 ≤ e') (h3 : e' ≤ e) :
    a.1 ≤ (minimalAtt e).1 ∧ a.2 ≤ (minimalAtt e).2 := by
  simp only [minimalAtt]
  split <;> omega

theorem minimalProp_dom {b c c' : Nat} (h1 : b ≤ c') (h2 : c' ≤ c) : b ≤ minimalProp c := by
  simp only [minimalProp]; omega

theorem attDecision_some {cfg : Cfg} {cur : Option Att} {c : Nat} {w : Att}
    (h : attDecision cfg cur c = some w) : w = minimalAtt (epochOf cfg c) := by
  simp only [attDecision] at h
  split at h
  · split at h <;> simp_all
  · simp_all

theorem propDecision_some {cur : Option Nat} {c w : Nat}
    (h : propDecision cur c = some w) : w = minimalProp c := by
  simp only [propDecision] at h
  split at h
  · split at h <;> simp_all
  · simp_all

/-- what a whole bump can do to the durable state -/
theorem bumpAtomic_spec (cfg : Cfg) (c : Nat) (d : Durable) (fa fp : Bool) :
    ((bumpAtomic cfg c d fa fp).1.att = d.att ∨ (bumpAtomic cfg c d fa fp).1.att = some (minimalAtt (epochOf cfg c))) ∧
    ((bumpAtomic cfg c d fa fp).1.prop = d.prop ∨ (bumpAtomic cfg c d fa fp).1.prop = some (minimalProp c)) ∧
    (bumpAtomic cfg c d fa fp).1.account = d.account := by
  unfold bumpAtomic
  split
  · rename_i w hw
    have hw' := attDecision_some hw
    rw [hw']
    by_cases hfa : fa = true
    · simp [hfa]
    · simp only [hfa, Bool.false_eq_true, if_false]
      split
      · rename_i p hp
        have hp' := propDecision_some hp
        rw [hp']
        by_cases hfp : fp = true
        · simp [hfp]
        · by_cases hz : minimalProp c = 0 <;> simp [hfp, hz]
      · simp
  · split
    · rename_i p hp
      have hp' := propDecision_some hp
      rw [hp']
      by_cases hfp : fp = true
      · simp [hfp]
      · by_cases hz : minimalProp c = 0 <;> simp [hfp, hz]
    · simp

/-- any change of the durable records that deletes a record, keeps it, or installs a record that dominates every
    released signature, keeps the invariant -/
theorem inv_durable {cfg : Cfg} {s : State} (h : Inv cfg s) (d' : Durable) (pend' : Option BumpPc)
    (ha : d'.att = s.d.att ∨ d'.att = none ∨ ∃ w, d'.att = some w ∧ ∀ a ∈ s.atts, a.1 ≤ w.1 ∧ a.2 ≤ w.2)
    (hp : d'.prop = s.d.prop ∨ d'.prop = none ∨ ∃ w, d'.prop = some w ∧ ∀ b ∈ s.blocks, b ≤ w)
    (hpend : PendOk cfg s.atts s.blocks pend') :
    Inv cfg { s with d := d', pend := pend' } := by
  refine ⟨h.attWF, h.blkWF, ?_, ?_, h.attSafe, h.blkSafe, hpend⟩
  · intro hs ht hd a hmem
    rcases ha with ha | ha | ⟨w, ha, hw⟩
    · exact h.attDom hs ht (by simpa [ha] using hd) a hmem
    · simp [ha] at hd
    · simp only [ha, Option.some.injEq] at hd
      have := hw a hmem
      rw [hd] at this
      exact this
  · intro hp' hd b hmem
    rcases hp with hp | hp | ⟨w, hp, hw⟩
    · exact h.blkDom hp' (by simpa [hp] using hd) b hmem
    · simp [hp] at hd
    · simp only [hp, Option.some.injEq] at hd
      have := hw b hmem
      omega

theorem inv_pend {cfg : Cfg} {s : State} (h : Inv cfg s) (pend' : Option BumpPc)
    (hpend : PendOk cfg s.atts s.blocks pend') : Inv cfg { s with pend := pend' } :=
  inv_durable h s.d pend' (Or.inl rfl) (Or.inl rfl) hpend

/-- the minimal record of the CURRENT clock dominates everything released -/
theorem dom_clock_att {cfg : Cfg} {s : State} (h : Inv cfg s) :
    ∀ a ∈ s.atts, a.1 ≤ (minimalAtt (epochOf cfg s.clock)).1 ∧ a.2 ≤ (minimalAtt (epochOf cfg s.clock)).2 :=
  fun a ha => minimalAtt_dom (h.attWF a ha).1 (h.attWF a ha).2 (Nat.le_refl _)

theorem dom_clock_prop {cfg : Cfg} {s : State} (h : Inv cfg s) : ∀ b ∈ s.blocks, b ≤ minimalProp s.clock :=
  fun b hb => minimalProp_dom (h.blkWF b hb) (Nat.le_refl _)

/-! ### preservation, op by op -/

theorem inv_bumpAtomic {cfg : Cfg} {s : State} (h : Inv cfg s) (fa fp : Bool) (acc : Bool) :
    Inv cfg { s with d := { (bumpAtomic cfg s.clock s.d fa fp).1 with account := acc } } := by
  obtain ⟨h1, h2, _⟩ := bumpAtomic_spec cfg s.clock s.d fa fp
  exact inv_durable h { (bumpAtomic cfg s.clock s.d fa fp).1 with account := acc } s.pend
    (by rcases h1 with h1 | h1
        · exact Or.inl h1
        · exact Or.inr (Or.inr ⟨_, h1, dom_clock_att h⟩))
    (by rcases h2 with h2 | h2
        · exact Or.inl h2
        · exact Or.inr (Or.inr ⟨_, h2, dom_clock_prop h⟩))
    h.pendOk

theorem inv_add {cfg : Cfg} {s : State} (h : Inv cfg s) (fa fp : Bool) : Inv cfg (stepAdd cfg s fa fp).1 := by
  unfold stepAdd
  split
  · exact h
  · split
    · rename_i d' heq
      have : d' = (bumpAtomic cfg s.clock s.d fa fp).1 := by rw [heq]
      subst this
      exact inv_bumpAtomic h fa fp true
    · rename_i d' o _ heq
      have : d' = (bumpAtomic cfg s.clock s.d fa fp).1 := by rw [heq]
      subst this
      exact inv_bumpAtomic h fa fp (bumpAtomic cfg s.clock s.d fa fp).1.account

theorem inv_remove {cfg : Cfg} {s : State} (h : Inv cfg s) (f : Option Nat) : Inv cfg (stepRemove s f).1 := by
  unfold stepRemove
  split
  · exact h
  · split
    · exact h
    · exact inv_durable h { s.d with att := none } s.pend (Or.inr (Or.inl rfl)) (Or.inl rfl) h.pendOk
    · exact inv_durable h ⟨none, none, false⟩ s.pend (Or.inr (Or.inl rfl)) (Or.inr (Or.inl rfl)) h.pendOk

theorem inv_bump {cfg : Cfg} {s : State} (h : Inv cfg s) : Inv cfg (stepBump cfg s).1 := by
  unfold stepBump
  exact inv_bumpAtomic h false false (bumpAtomic cfg s.clock s.d false false).1.account

theorem inv_bumpBegin {cfg : Cfg} {s : State} (h : Inv cfg s) : Inv cfg (stepBumpBegin s).1 := by
  unfold stepBumpBegin
  split
  · exact h
  · exact inv_pend h _ ⟨trivial, fun a ha => (h.attWF a ha).2, h.blkWF⟩

/-- the steps of the in-flight bump keep its clock reading -/
theorem pendOk_next {cfg : Cfg} {atts : List Att} {blocks : List Nat} {pc pc' : BumpPc}
    (h : PendOk cfg atts blocks (some pc)) (hc : pc'.c = pc.c) (hok : PcOk cfg pc') :
    PendOk cfg atts blocks (some pc') := by
  obtain ⟨_, h2, h3⟩ := h
  exact ⟨hok, by rw [hc]; exact h2, by rw [hc]; exact h3⟩

theorem inv_bumpRead {cfg : Cfg} {s : State} (h : Inv cfg s) : Inv cfg (stepBumpRead cfg s).1 := by
  unfold stepBumpRead
  split
  · rename_i c hp
    have hpo := h.pendOk
    rw [hp] at hpo
    split
    · rename_i w hw
      exact inv_pend h _ (pendOk_next hpo rfl (attDecision_some hw))
    · exact inv_pend h _ (pendOk_next hpo rfl trivial)
  · rename_i c hp
    have hpo := h.pendOk
    rw [hp] at hpo
    split
    · rename_i w hw
      exact inv_pend h _ (pendOk_next hpo rfl (propDecision_some hw))
    · exact inv_pend h _ trivial
  · exact h

/-- the bump's writes: the minimal record of ITS clock reading dominates every released signature, because none was
    released since that reading (no `Fresh` hypothesis needed any more) -/
theorem inv_bumpWrite {cfg : Cfg} {s : State} (h : Inv cfg s) : Inv cfg (stepBumpWrite s).1 := by
  unfold stepBumpWrite
  split
  · rename_i c w hp
    have hpo := h.pendOk
    rw [hp] at hpo
    obtain ⟨hw, h2, h3⟩ := hpo
    have hw' : w = minimalAtt (epochOf cfg c) := hw
    refine inv_durable h { s.d with att := some w } _ (Or.inr (Or.inr ⟨w, rfl, ?_⟩)) (Or.inl rfl)
      ⟨trivial, h2, h3⟩
    intro a ha
    rw [hw']
    exact minimalAtt_dom (h.attWF a ha).1 (h2 a ha) (Nat.le_refl _)
  · rename_i c w hp
    have hpo := h.pendOk
    rw [hp] at hpo
    obtain ⟨hw, h2, h3⟩ := hpo
    have hw' : w = minimalProp c := hw
    split
    · exact inv_pend h _ trivial
    · refine inv_durable h { s.d with prop := some w } _ (Or.inl rfl) (Or.inr (Or.inr ⟨w, rfl, ?_⟩)) trivial
      intro b hb
      rw [hw']
      exact minimalProp_dom (h3 b hb) (Nat.le_refl _)
  · exact h

theorem inv_tick {cfg : Cfg} {s : State} (h : Inv cfg s) (dt : Nat) : Inv cfg { s with clock := s.clock + dt } := by
  refine ⟨?_, ?_, h.attDom, h.blkDom, h.attSafe, h.blkSafe, h.pendOk⟩
  · intro a ha
    have := h.attWF a ha
    have hm := epochOf_mono cfg (Nat.le_add_right s.clock dt)
    exact ⟨this.1, Nat.le_trans this.2 hm⟩
  · intro b hb
    have := h.blkWF b hb
    show b ≤ s.clock + dt
    omega

/-- a request that passes the check against a record dominating every released attestation is not slashable
    with any of them -/
theorem not_slashable_of_dom {x y hs ht : Nat} {a : Att} (h1 : a.1 ≤ hs) (h2 : a.2 ≤ ht)
    (hx : ¬ x < hs) (hy : ¬ y ≤ ht) : ¬ Slashable (x, y) a := by
  unfold Slashable
  simp only
  omega

/-- the two outcomes of an attestation sign request -/
theorem stepSignAtt_cases (cfg : Cfg) (s : State) (x y : Nat) :
    ((stepSignAtt cfg s x y).1 = s ∧ (stepSignAtt cfg s x y).2 ≠ .signed) ∨
    (∃ hs ht, s.d.att = some (hs, ht) ∧ ¬ x < hs ∧ ¬ y ≤ ht ∧ s.d.account = true ∧
      y ≤ cfg.ffEpoch ∧ x ≤ cfg.ffEpoch ∧
      stepSignAtt cfg s x y =
        ({ s with d := { s.d with att := some (updAtt (hs, ht) x y) }, atts := (x, y) :: s.atts }, .signed)) := by
  unfold stepSignAtt
  split
  · left; simp
  split
  · left; simp
  split
  · left; simp
  split
  · left; simp
  · rename_i hs ht hatt
    split
    · left; simp
    · rename_i hc
      simp only [Bool.or_eq_true, decide_eq_true_eq, not_or] at hc
      right
      refine ⟨hs, ht, hatt, hc.1, hc.2, by simp_all, by omega, by omega, rfl⟩

theorem inv_signAtt {cfg : Cfg} {s : State} (h : Inv cfg s) (hp : s.pend = none) (x y : Nat)
    (hnew : NewOk cfg s (stepSignAtt cfg s x y).1) : Inv cfg (stepSignAtt cfg s x y).1 := by
  rcases stepSignAtt_cases cfg s x y with ⟨h1, _⟩ | ⟨hs, ht, hatt, hx, hy, _, _, _, heq⟩
  · rw [h1]; exact h
  · rw [heq] at hnew ⊢
    have hwf : x < y ∧ y ≤ epochOf cfg s.clock := by
      rcases hnew.1 (x, y) (by simp) with hm | hm
      · exact h.attWF _ hm
      · exact hm
    have hd := h.attDom hs ht hatt
    refine ⟨?_, h.blkWF, ?_, h.blkDom, ?_, h.blkSafe, ?_⟩
    · intro a ha
      simp only [List.mem_cons] at ha
      rcases ha with rfl | ha
      · exact hwf
      · exact h.attWF a ha
    · intro hs' ht' heq' a ha
      simp only [updAtt, Option.some.injEq, Prod.mk.injEq] at heq'
      simp only [List.mem_cons] at ha
      rcases ha with rfl | ha
      · simp only
        obtain ⟨e1, e2⟩ := heq'
        split at e1 <;> split at e2 <;> omega
      · have := hd a ha
        obtain ⟨e1, e2⟩ := heq'
        split at e1 <;> split at e2 <;> omega
    · simp only [List.pairwise_cons]
      refine ⟨?_, h.attSafe⟩
      intro a ha
      exact not_slashable_of_dom (hd a ha).1 (hd a ha).2 hx hy
    · show PendOk cfg _ _ s.pend
      rw [hp]; trivial

/-- the two outcomes of a block sign request -/
theorem stepSignBlock_cases (cfg : Cfg) (s : State) (slot : Nat) :
    ((stepSignBlock cfg s slot).1 = s ∧ (stepSignBlock cfg s slot).2 ≠ .signed) ∨
    (∃ hp, s.d.prop = some hp ∧ hp < slot ∧ s.d.account = true ∧ slot ≤ cfg.ffSlot ∧
      stepSignBlock cfg s slot =
        ({ s with d := { s.d with prop := some slot }, blocks := slot :: s.blocks }, .signed)) := by
  unfold stepSignBlock
  split
  · left; simp
  split
  · left; simp
  split
  · left; simp
  split
  · left; simp
  · rename_i hp hprop
    split
    · rename_i hc
      right
      exact ⟨hp, hprop, hc, by simp_all, by omega, rfl⟩
    · left; simp

theorem inv_signBlock {cfg : Cfg} {s : State} (h : Inv cfg s) (hp : s.pend = none) (slot : Nat)
    (hnew : NewOk cfg s (stepSignBlock cfg s slot).1) : Inv cfg (stepSignBlock cfg s slot).1 := by
  rcases stepSignBlock_cases cfg s slot with ⟨h1, _⟩ | ⟨hp', hprop, hc, _, _, heq⟩
  · rw [h1]; exact h
  · rw [heq] at hnew ⊢
    have hwf : slot ≤ s.clock := by
      rcases hnew.2 slot (by simp) with hm | hm
      · exact h.blkWF _ hm
      · exact hm
    have hd := h.blkDom hp' hprop
    refine ⟨h.attWF, ?_, h.attDom, ?_, h.attSafe, ?_, ?_⟩
    · intro b hb
      simp only [List.mem_cons] at hb
      rcases hb with rfl | hb
      · exact hwf
      · exact h.blkWF b hb
    · intro hp'' heq' b hb
      simp only [Option.some.injEq] at heq'
      simp only [List.mem_cons] at hb
      rcases hb with rfl | hb
      · omega
      · have := hd b hb; omega
    · simp only [List.pairwise_cons]
      refine ⟨?_, h.blkSafe⟩
      intro b hb
      have := hd b hb
      omega
    · show PendOk cfg _ _ s.pend
      rw [hp]; trivial

theorem stepSignAttFault_state (cfg : Cfg) (s : State) (x y : Nat) :
    (stepSignAttFault cfg s x y).1 = s ∧ (stepSignAttFault cfg s x y).2 ≠ .signed := by
  unfold stepSignAttFault
  rcases stepSignAtt_cases cfg s x y with ⟨_, h2⟩ | ⟨_, _, _, _, _, _, _, _, heq⟩
  · split
    · simp
    · rename_i o hne heq'
      refine ⟨rfl, ?_⟩
      intro ho
      apply h2
      rw [heq']
      exact ho
  · rw [heq]; simp

theorem stepSignBlockFault_state (cfg : Cfg) (s : State) (slot : Nat) :
    (stepSignBlockFault cfg s slot).1 = s ∧ (stepSignBlockFault cfg s slot).2 ≠ .signed := by
  unfold stepSignBlockFault
  rcases stepSignBlock_cases cfg s slot with ⟨_, h2⟩ | ⟨_, _, _, _, _, heq⟩
  · split
    · simp
    · rename_i o hne heq'
      refine ⟨rfl, ?_⟩
      intro ho
      apply h2
      rw [heq']
      exact ho
  · rw [heq]; simp

/-- a lock-taking request executed with the lock available -/
theorem inv_stepFree {cfg : Cfg} {s : State} (h : Inv cfg s) (hp : s.pend = none) (op : Op)
    (hnew : NewOk cfg s (stepFree cfg s op).1) : Inv cfg (stepFree cfg s op).1 := by
  cases op with
  | addShare => exact inv_add h _ _
  | addFail n => cases n <;> exact inv_add h _ _
  | removeShare => exact inv_remove h _
  | removeFail n => exact inv_remove h _
  | bump => exact inv_bump h
  | signAtt x y => exact inv_signAtt h hp x y hnew
  | signBlock slot => exact inv_signBlock h hp slot hnew
  | signAttFault x y => simp only [stepFree]; rw [(stepSignAttFault_state cfg s x y).1]; exact h
  | signBlockFault slot => simp only [stepFree]; rw [(stepSignBlockFault_state cfg s slot).1]; exact h
  | bumpBegin => exact h
  | bumpRead => exact h
  | bumpWrite => exact h
  | tick dt => exact h
  | restart => exact h
  | resume => exact h

/-- the waiting request runs once the lock is free -/
theorem inv_drain {cfg : Cfg} {s : State} (h : Inv cfg s) (hp : s.pend = none)
    (hnew : NewOk cfg s (drain cfg s)) : Inv cfg (drain cfg s) := by
  unfold drain at hnew ⊢
  split
  · exact h
  · rename_i op hop
    rw [hop] at hnew
    have h0 : Inv cfg { s with delayed := none } := inv_of_fields h rfl rfl rfl rfl rfl
    have h1 := inv_stepFree (s := { s with delayed := none }) h0 hp op hnew
    exact inv_of_fields h1 rfl rfl rfl rfl rfl

theorem stepBumpRead_fields (cfg : Cfg) (s : State) :
    (stepBumpRead cfg s).1.atts = s.atts ∧ (stepBumpRead cfg s).1.blocks = s.blocks ∧
    (stepBumpRead cfg s).1.clock = s.clock := by
  unfold stepBumpRead
  repeat' split
  all_goals exact ⟨rfl, rfl, rfl⟩

theorem stepBumpWrite_fields (s : State) :
    (stepBumpWrite s).1.atts = s.atts ∧ (stepBumpWrite s).1.blocks = s.blocks ∧
    (stepBumpWrite s).1.clock = s.clock := by
  unfold stepBumpWrite
  repeat' split
  all_goals exact ⟨rfl, rfl, rfl⟩

theorem newOk_of_fields {cfg : Cfg} {s r s' : State} (h : NewOk cfg s s') (ha : r.atts = s.atts)
    (hb : r.blocks = s.blocks) (hc : r.clock = s.clock) : NewOk cfg r s' := by
  unfold NewOk at h ⊢
  rw [ha, hb, hc]; exact h

theorem inv_finishBump {cfg : Cfg} {s : State} {r : State × Out} (hr : Inv cfg r.1)
    (hf : r.1.atts = s.atts ∧ r.1.blocks = s.blocks ∧ r.1.clock = s.clock)
    (hnew : NewOk cfg s (finishBump cfg r).1) : Inv cfg (finishBump cfg r).1 := by
  unfold finishBump at hnew ⊢
  split
  · rename_i hn
    have hp : r.1.pend = none := by simpa using hn
    rw [if_pos hn] at hnew
    exact inv_drain hr hp (newOk_of_fields hnew hf.1 hf.2.1 hf.2.2)
  · exact hr

theorem inv_blockOrRun {cfg : Cfg} {s : State} (h : Inv cfg s) (op : Op)
    (hnew : NewOk cfg s (blockOrRun cfg s op).1) : Inv cfg (blockOrRun cfg s op).1 := by
  unfold blockOrRun at hnew ⊢
  split
  · split
    · exact h
    · exact inv_of_fields h rfl rfl rfl rfl rfl
  · rename_i hn
    have hp : s.pend = none := by
      cases hs : s.pend with
      | none => rfl
      | some _ => simp [hs] at hn
    rw [if_neg hn] at hnew
    exact inv_stepFree h hp op hnew

theorem inv_step {cfg : Cfg} {s : State} (h : Inv cfg s) (op : Op)
    (hok : SignedOk cfg s op) : Inv cfg (step cfg s op).1 := by
  unfold SignedOk at hok
  cases op with
  | tick dt => exact inv_tick h dt
  | restart =>
    simp only [step] at hok ⊢
    exact inv_drain (s := { s with pend := none }) (inv_pend h none trivial) rfl hok
  | resume =>
    simp only [step]
    split
    · exact inv_of_fields h rfl rfl rfl rfl rfl
    · exact h
  | bumpBegin => exact inv_bumpBegin h
  | bumpRead =>
    simp only [step] at hok ⊢
    exact inv_finishBump (inv_bumpRead h) (stepBumpRead_fields cfg s) hok
  | bumpWrite =>
    simp only [step] at hok ⊢
    exact inv_finishBump (inv_bumpWrite h) (stepBumpWrite_fields s) hok
  | addShare => exact inv_blockOrRun h _ hok
  | addFail n => exact inv_blockOrRun h _ hok
  | removeShare => exact inv_blockOrRun h _ hok
  | removeFail n => exact inv_blockOrRun h _ hok
  | bump => exact inv_blockOrRun h _ hok
  | signAtt x y => exact inv_blockOrRun h _ hok
  | signBlock slot => exact inv_blockOrRun h _ hok
  | signAttFault x y => exact inv_blockOrRun h _ hok
  | signBlockFault slot => exact inv_blockOrRun h _ hok

theorem inv_run {cfg : Cfg} (ops : List Op) : ∀ {s : State}, Inv cfg s →
    Along cfg (SignedOk cfg) s ops → Inv cfg (run cfg s ops) := by
  induction ops with
  | nil => intro s h _; exact h
  | cons op ops ih =>
    intro s h hok
    exact ih (inv_step h op hok.1) hok.2

/-- a regenerated literal/operator list without its string literals (error texts may be reworded freely) -/
def opsOnly (l : List String) : List String := l.filter fun s => s.front != '"'

/-! ### decidability of the per-step guard (used by the concrete witnesses and non-vacuity examples) -/

instance (cfg : Cfg) (s s' : State) : Decidable (NewOk cfg s s') := by
  unfold NewOk; infer_instance

instance (cfg : Cfg) (s : State) (op : Op) : Decidable (SignedOk cfg s op) := by
  unfold SignedOk; infer_instance

def decAlong (cfg : Cfg) (P : State → Op → Prop) [∀ s op, Decidable (P s op)] :
    ∀ (s : State) (ops : List Op), Decidable (Along cfg P s ops)
  | _, [] => isTrue trivial
  | s, op :: ops =>
    match (inferInstance : Decidable (P s op)), decAlong cfg P (step cfg s op).1 ops with
    | isTrue h1, isTrue h2 => isTrue ⟨h1, h2⟩
    | isFalse h1, _ => isFalse (fun h => h1 h.1)
    | _, isFalse h2 => isFalse (fun h => h2 h.2)

instance (cfg : Cfg) (P : State → Op → Prop) [∀ s op, Decidable (P s op)] (s : State) (ops : List Op) :
    Decidable (Along cfg P s ops) := decAlong cfg P s ops

end Ssv.Slashing
