/-
Helper lemmas for C04: the invariant of the slashing-protection model and its preservation by every step.
-/
import Ssv.Model.Slashing

namespace Ssv.Slashing

/-! ### hypotheses on histories, as per-step guards evaluated in the state in which the op executes -/

/-- the property's quantifier ("targets and block slots not beyond the clock at signing time"), asked only of
    requests that are actually SIGNED; plus `source < target` for attestations (the attester value check of
    ssv-spec enforces it before any sign request; the proof needs it across remove / re-add). -/
def SignedOk (cfg : Cfg) (s : State) (op : Op) : Prop :=
  (step cfg s op).2 = .signed →
    match op with
    | .signAtt x y => x < y ∧ y ≤ epochOf cfg s.clock
    | .signBlock slot => slot ≤ s.clock
    | _ => True

/-- a split `BumpSlashingProtection` performs its writes while the clock still shows the epoch (attestation
    record) / slot (proposal record) it read at its beginning -/
def Fresh (cfg : Cfg) (s : State) (op : Op) : Prop :=
  match op, s.pend with
  | .bumpWrite, some (.attWrite c _) => epochOf cfg s.clock ≤ epochOf cfg c
  | .bumpWrite, some (.propWrite c _) => s.clock ≤ c
  | _, _ => True

/-- `P` holds at every step of the run of `ops` from `s` -/
def Along (cfg : Cfg) (P : State → Op → Prop) (s : State) : List Op → Prop
  | [] => True
  | op :: ops => P s op ∧ Along cfg P (step cfg s op).1 ops

/-- no split bump in the history (the op alphabet of the property text: reactivation is one op) -/
def Op.atomic : Op → Bool
  | .bumpBegin | .bumpRead | .bumpWrite => false
  | _ => true

/-! ### the invariant -/

def PendOk (cfg : Cfg) : Option BumpPc → Prop
  | some (.attWrite c w) => w = minimalAtt (epochOf cfg c)
  | some (.propWrite c w) => w = minimalProp c
  | _ => True

structure Inv (cfg : Cfg) (s : State) : Prop where
  attWF : ∀ a ∈ s.atts, a.1 < a.2 ∧ a.2 ≤ epochOf cfg s.clock
  blkWF : ∀ b ∈ s.blocks, b ≤ s.clock
  attDom : ∀ hs ht, s.d.att = some (hs, ht) → ∀ a ∈ s.atts, a.1 ≤ hs ∧ a.2 ≤ ht
  blkDom : ∀ hp, s.d.prop = some hp → ∀ b ∈ s.blocks, b ≤ hp
  attSafe : s.atts.Pairwise (fun a b => ¬ Slashable a b)
  blkSafe : s.blocks.Pairwise (fun a b => a ≠ b)
  pendOk : PendOk cfg s.pend

theorem inv_init (cfg : Cfg) (c : Nat) : Inv cfg (init c) := by
  constructor <;> simp [init, PendOk]

theorem epochOf_mono (cfg : Cfg) {a b : Nat} (h : a ≤ b) : epochOf cfg a ≤ epochOf cfg b :=
  Nat.div_le_div_right h

theorem minimalAtt_dom {a : Att} {e e' : Nat} (h1 : a.1 < a.2) (h2 : a.2 ≤ e') (h3 : e' ≤ e) :
    a.1 ≤ (minimalAtt e).1 ∧ a.2 ≤ (minimalAtt e).2 := by
  simp only [minimalAtt]
  split <;> omega

theorem minimalProp_dom {b c c' : Nat} (h1 : b ≤ c') (h2 : c' ≤ c) : b ≤ minimalProp c := by
  simp only [minimalProp]; omega

theorem attDecision_some {cfg : Cfg} {cur : Option Att} {c : Nat} {w : Att}
    (h : attDecision cfg cur c = some w) : w = minimalAtt (epochOf cfg c) := by
  simp only [attDecision] at h
  split at h
  · split at h <;> simp_all
  · simp_all

theorem propDecision_some {cur : Option Nat} {c w : Nat}
    (h : propDecision cur c = some w) : w = minimalProp c := by
  simp only [propDecision] at h
  split at h
  · split at h <;> simp_all
  · simp_all

/-- what a whole bump can do to the durable state -/
theorem bumpAtomic_spec (cfg : Cfg) (c : Nat) (d : Durable) (fa fp : Bool) :
    ((bumpAtomic cfg c d fa fp).1.att = d.att ∨ (bumpAtomic cfg c d fa fp).1.att = some (minimalAtt (epochOf cfg c))) ∧
    ((bumpAtomic cfg c d fa fp).1.prop = d.prop ∨ (bumpAtomic cfg c d fa fp).1.prop = some (minimalProp c)) ∧
    (bumpAtomic cfg c d fa fp).1.account = d.account := by
  unfold bumpAtomic
  split
  · rename_i w hw
    have hw' := attDecision_some hw
    rw [hw']
    by_cases hfa : fa = true
    · simp [hfa]
    · simp only [hfa, Bool.false_eq_true, if_false]
      split
      · rename_i p hp
        have hp' := propDecision_some hp
        rw [hp']
        by_cases hfp : fp = true
        · simp [hfp]
        · by_cases hz : minimalProp c = 0 <;> simp [hfp, hz]
      · simp
  · split
    · rename_i p hp
      have hp' := propDecision_some hp
      rw [hp']
      by_cases hfp : fp = true
      · simp [hfp]
      · by_cases hz : minimalProp c = 0 <;> simp [hfp, hz]
    · simp

/-- any change of the durable records that deletes a record, keeps it, or installs the minimal protection of a
    clock value whose epoch / slot is not behind the current clock, keeps the invariant -/
theorem inv_durable {cfg : Cfg} {s : State} (h : Inv cfg s) (d' : Durable) (pend' : Option BumpPc)
    (ha : d'.att = s.d.att ∨ d'.att = none ∨
      ∃ c, epochOf cfg s.clock ≤ epochOf cfg c ∧ d'.att = some (minimalAtt (epochOf cfg c)))
    (hp : d'.prop = s.d.prop ∨ d'.prop = none ∨ ∃ c, s.clock ≤ c ∧ d'.prop = some (minimalProp c))
    (hpend : PendOk cfg pend') :
    Inv cfg { s with d := d', pend := pend' } := by
  refine ⟨h.attWF, h.blkWF, ?_, ?_, h.attSafe, h.blkSafe, hpend⟩
  · intro hs ht hd a hmem
    rcases ha with ha | ha | ⟨c, hc, ha⟩
    · exact h.attDom hs ht (by simpa [ha] using hd) a hmem
    · simp [ha] at hd
    · simp only [ha, Option.some.injEq] at hd
      have := minimalAtt_dom (h.attWF a hmem).1 (h.attWF a hmem).2 hc
      rw [hd] at this
      exact this
  · intro hp' hd b hmem
    rcases hp with hp | hp | ⟨c, hc, hp⟩
    · exact h.blkDom hp' (by simpa [hp] using hd) b hmem
    · simp [hp] at hd
    · simp only [hp, Option.some.injEq] at hd
      have := minimalProp_dom (h.blkWF b hmem) hc
      omega

theorem inv_pend {cfg : Cfg} {s : State} (h : Inv cfg s) (pend' : Option BumpPc) (hpend : PendOk cfg pend') :
    Inv cfg { s with pend := pend' } :=
  inv_durable h s.d pend' (Or.inl rfl) (Or.inl rfl) hpend

/-! ### preservation, op by op -/

theorem inv_add {cfg : Cfg} {s : State} (h : Inv cfg s) (fa fp : Bool) : Inv cfg (stepAdd cfg s fa fp).1 := by
  unfold stepAdd
  split
  · exact h
  · obtain ⟨h1, h2, _⟩ := bumpAtomic_spec cfg s.clock s.d fa fp
    have key : ∀ acc : Bool, Inv cfg { s with d := { (bumpAtomic cfg s.clock s.d fa fp).1 with account := acc } } := by
      intro acc
      have := inv_durable h { (bumpAtomic cfg s.clock s.d fa fp).1 with account := acc } s.pend
        (by rcases h1 with h1 | h1
            · exact Or.inl h1
            · exact Or.inr (Or.inr ⟨s.clock, Nat.le_refl _, h1⟩))
        (by rcases h2 with h2 | h2
            · exact Or.inl h2
            · exact Or.inr (Or.inr ⟨s.clock, Nat.le_refl _, h2⟩))
        h.pendOk
      exact this
    split
    · rename_i d' heq
      have : d' = (bumpAtomic cfg s.clock s.d fa fp).1 := by rw [heq]
      subst this
      exact key true
    · rename_i d' o _ heq
      have : d' = (bumpAtomic cfg s.clock s.d fa fp).1 := by rw [heq]
      subst this
      have := key (bumpAtomic cfg s.clock s.d fa fp).1.account
      exact this

theorem inv_remove {cfg : Cfg} {s : State} (h : Inv cfg s) (f : Option Nat) : Inv cfg (stepRemove s f).1 := by
  unfold stepRemove
  split
  · exact h
  · split
    · exact h
    · exact inv_durable h { s.d with att := none } s.pend (Or.inr (Or.inl rfl)) (Or.inl rfl) h.pendOk
    · exact inv_durable h ⟨none, none, false⟩ s.pend (Or.inr (Or.inl rfl)) (Or.inr (Or.inl rfl)) h.pendOk

theorem inv_bump {cfg : Cfg} {s : State} (h : Inv cfg s) : Inv cfg (stepBump cfg s).1 := by
  unfold stepBump
  obtain ⟨h1, h2, _⟩ := bumpAtomic_spec cfg s.clock s.d false false
  exact inv_durable h (bumpAtomic cfg s.clock s.d false false).1 s.pend
    (by rcases h1 with h1 | h1
        · exact Or.inl h1
        · exact Or.inr (Or.inr ⟨s.clock, Nat.le_refl _, h1⟩))
    (by rcases h2 with h2 | h2
        · exact Or.inl h2
        · exact Or.inr (Or.inr ⟨s.clock, Nat.le_refl _, h2⟩))
    h.pendOk

theorem inv_bumpBegin {cfg : Cfg} {s : State} (h : Inv cfg s) : Inv cfg (stepBumpBegin s).1 := by
  unfold stepBumpBegin
  split
  · exact h
  · exact inv_pend h _ (by simp [PendOk])

theorem inv_bumpRead {cfg : Cfg} {s : State} (h : Inv cfg s) : Inv cfg (stepBumpRead cfg s).1 := by
  unfold stepBumpRead
  split
  · split
    · rename_i w hw
      exact inv_pend h _ (by simpa [PendOk] using attDecision_some hw)
    · exact inv_pend h _ (by simp [PendOk])
  · split
    · rename_i w hw
      exact inv_pend h _ (by simpa [PendOk] using propDecision_some hw)
    · exact inv_pend h _ (by simp [PendOk])
  · exact h

theorem inv_bumpWrite {cfg : Cfg} {s : State} (h : Inv cfg s) (hf : Fresh cfg s .bumpWrite) :
    Inv cfg (stepBumpWrite s).1 := by
  unfold stepBumpWrite
  split
  · rename_i c w hp
    have hw : w = minimalAtt (epochOf cfg c) := by have := h.pendOk; simpa [hp, PendOk] using this
    have hfr : epochOf cfg s.clock ≤ epochOf cfg c := by simpa [Fresh, hp] using hf
    exact inv_durable h { s.d with att := some w } _ (Or.inr (Or.inr ⟨c, hfr, by simp [hw]⟩)) (Or.inl rfl) (by simp [PendOk])
  · rename_i c w hp
    have hw : w = minimalProp c := by have := h.pendOk; simpa [hp, PendOk] using this
    have hfr : s.clock ≤ c := by simpa [Fresh, hp] using hf
    split
    · exact inv_pend h _ (by simp [PendOk])
    · exact inv_durable h { s.d with prop := some w } _ (Or.inl rfl) (Or.inr (Or.inr ⟨c, hfr, by simp [hw]⟩)) (by simp [PendOk])
  · exact h

theorem inv_tick {cfg : Cfg} {s : State} (h : Inv cfg s) (dt : Nat) : Inv cfg { s with clock := s.clock + dt } := by
  refine ⟨?_, ?_, h.attDom, h.blkDom, h.attSafe, h.blkSafe, h.pendOk⟩
  · intro a ha
    have := h.attWF a ha
    have hm := epochOf_mono cfg (Nat.le_add_right s.clock dt)
    exact ⟨this.1, Nat.le_trans this.2 hm⟩
  · intro b hb
    have := h.blkWF b hb
    show b ≤ s.clock + dt
    omega

/-- a request that passes the check against a record dominating every released attestation is not slashable
    with any of them -/
theorem not_slashable_of_dom {x y hs ht : Nat} {a : Att} (h1 : a.1 ≤ hs) (h2 : a.2 ≤ ht)
    (hx : ¬ x < hs) (hy : ¬ y ≤ ht) : ¬ Slashable (x, y) a := by
  unfold Slashable
  simp only
  omega

/-- the two outcomes of an attestation sign request -/
theorem stepSignAtt_cases (cfg : Cfg) (s : State) (x y : Nat) :
    ((stepSignAtt cfg s x y).1 = s ∧ (stepSignAtt cfg s x y).2 ≠ .signed) ∨
    (∃ hs ht, s.d.att = some (hs, ht) ∧ ¬ x < hs ∧ ¬ y ≤ ht ∧ s.d.account = true ∧
      y ≤ cfg.ffEpoch ∧ x ≤ cfg.ffEpoch ∧
      stepSignAtt cfg s x y =
        ({ s with d := { s.d with att := some (updAtt (hs, ht) x y) }, atts := (x, y) :: s.atts }, .signed)) := by
  unfold stepSignAtt
  split
  · left; simp
  split
  · left; simp
  split
  · left; simp
  split
  · left; simp
  · rename_i hs ht hatt
    split
    · left; simp
    · rename_i hc
      simp only [Bool.or_eq_true, decide_eq_true_eq, not_or] at hc
      right
      refine ⟨hs, ht, hatt, hc.1, hc.2, by simp_all, by omega, by omega, rfl⟩

theorem inv_signAtt {cfg : Cfg} {s : State} (h : Inv cfg s) (x y : Nat) (hok : SignedOk cfg s (.signAtt x y)) :
    Inv cfg (stepSignAtt cfg s x y).1 := by
  have hok' : (stepSignAtt cfg s x y).2 = .signed → x < y ∧ y ≤ epochOf cfg s.clock := hok
  rcases stepSignAtt_cases cfg s x y with ⟨h1, _⟩ | ⟨hs, ht, hatt, hx, hy, _, _, _, heq⟩
  · rw [h1]; exact h
  · rw [heq] at hok' ⊢
    have hwf := hok' rfl
    have hd := h.attDom hs ht hatt
    refine ⟨?_, h.blkWF, ?_, h.blkDom, ?_, h.blkSafe, h.pendOk⟩
    · intro a ha
      simp only [List.mem_cons] at ha
      rcases ha with rfl | ha
      · exact hwf
      · exact h.attWF a ha
    · intro hs' ht' heq' a ha
      simp only [updAtt, Option.some.injEq, Prod.mk.injEq] at heq'
      simp only [List.mem_cons] at ha
      rcases ha with rfl | ha
      · simp only
        obtain ⟨e1, e2⟩ := heq'
        split at e1 <;> split at e2 <;> omega
      · have := hd a ha
        obtain ⟨e1, e2⟩ := heq'
        split at e1 <;> split at e2 <;> omega
    · simp only [List.pairwise_cons]
      refine ⟨?_, h.attSafe⟩
      intro a ha
      exact not_slashable_of_dom (hd a ha).1 (hd a ha).2 hx hy

/-- the two outcomes of a block sign request -/
theorem stepSignBlock_cases (cfg : Cfg) (s : State) (slot : Nat) :
    ((stepSignBlock cfg s slot).1 = s ∧ (stepSignBlock cfg s slot).2 ≠ .signed) ∨
    (∃ hp, s.d.prop = some hp ∧ hp < slot ∧ s.d.account = true ∧ slot ≤ cfg.ffSlot ∧
      stepSignBlock cfg s slot =
        ({ s with d := { s.d with prop := some slot }, blocks := slot :: s.blocks }, .signed)) := by
  unfold stepSignBlock
  split
  · left; simp
  split
  · left; simp
  split
  · left; simp
  split
  · left; simp
  · rename_i hp hprop
    split
    · rename_i hc
      right
      exact ⟨hp, hprop, hc, by simp_all, by omega, rfl⟩
    · left; simp

theorem inv_signBlock {cfg : Cfg} {s : State} (h : Inv cfg s) (slot : Nat) (hok : SignedOk cfg s (.signBlock slot)) :
    Inv cfg (stepSignBlock cfg s slot).1 := by
  have hok' : (stepSignBlock cfg s slot).2 = .signed → slot ≤ s.clock := hok
  rcases stepSignBlock_cases cfg s slot with ⟨h1, _⟩ | ⟨hp, hprop, hc, _, _, heq⟩
  · rw [h1]; exact h
  · rw [heq] at hok' ⊢
    have hwf := hok' rfl
    have hd := h.blkDom hp hprop
    refine ⟨h.attWF, ?_, h.attDom, ?_, h.attSafe, ?_, h.pendOk⟩
    · intro b hb
      simp only [List.mem_cons] at hb
      rcases hb with rfl | hb
      · exact hwf
      · exact h.blkWF b hb
    · intro hp' heq' b hb
      simp only [Option.some.injEq] at heq'
      simp only [List.mem_cons] at hb
      rcases hb with rfl | hb
      · omega
      · have := hd b hb; omega
    · simp only [List.pairwise_cons]
      refine ⟨?_, h.blkSafe⟩
      intro b hb
      have := hd b hb
      omega

theorem stepSignAttFault_state (cfg : Cfg) (s : State) (x y : Nat) :
    (stepSignAttFault cfg s x y).1 = s ∧ (stepSignAttFault cfg s x y).2 ≠ .signed := by
  unfold stepSignAttFault
  rcases stepSignAtt_cases cfg s x y with ⟨_, h2⟩ | ⟨_, _, _, _, _, _, _, _, heq⟩
  · split
    · simp
    · rename_i o hne heq'
      refine ⟨rfl, ?_⟩
      intro ho
      apply h2
      rw [heq']
      exact ho
  · rw [heq]; simp

theorem stepSignBlockFault_state (cfg : Cfg) (s : State) (slot : Nat) :
    (stepSignBlockFault cfg s slot).1 = s ∧ (stepSignBlockFault cfg s slot).2 ≠ .signed := by
  unfold stepSignBlockFault
  rcases stepSignBlock_cases cfg s slot with ⟨_, h2⟩ | ⟨_, _, _, _, _, heq⟩
  · split
    · simp
    · rename_i o hne heq'
      refine ⟨rfl, ?_⟩
      intro ho
      apply h2
      rw [heq']
      exact ho
  · rw [heq]; simp

theorem inv_step {cfg : Cfg} {s : State} (h : Inv cfg s) (op : Op)
    (hok : SignedOk cfg s op) (hf : Fresh cfg s op) : Inv cfg (step cfg s op).1 := by
  cases op with
  | addShare => exact inv_add h _ _
  | addFail n => cases n <;> exact inv_add h _ _
  | removeShare => exact inv_remove h _
  | removeFail n => exact inv_remove h _
  | bump => exact inv_bump h
  | bumpBegin => exact inv_bumpBegin h
  | bumpRead => exact inv_bumpRead h
  | bumpWrite => exact inv_bumpWrite h hf
  | signAtt x y => exact inv_signAtt h x y hok
  | signBlock slot => exact inv_signBlock h slot hok
  | signAttFault x y => simp only [step]; rw [(stepSignAttFault_state cfg s x y).1]; exact h
  | signBlockFault slot => simp only [step]; rw [(stepSignBlockFault_state cfg s slot).1]; exact h
  | tick dt => exact inv_tick h dt
  | restart => exact inv_pend h none (by simp [PendOk])

theorem inv_run {cfg : Cfg} (ops : List Op) : ∀ {s : State}, Inv cfg s →
    Along cfg (SignedOk cfg) s ops → Along cfg (Fresh cfg) s ops → Inv cfg (run cfg s ops) := by
  induction ops with
  | nil => intro s h _ _; exact h
  | cons op ops ih =>
    intro s h hok hf
    exact ih (inv_step h op hok.1 hf.1) hok.2 hf.2

/-! ### histories without split bumps never have a bump in flight, so `Fresh` is vacuous for them -/

theorem pend_none_step {cfg : Cfg} {s : State} (hp : s.pend = none) (op : Op) (ha : Op.atomic op = true) :
    (step cfg s op).1.pend = none := by
  cases op with
  | addShare =>
    simp only [step, stepAdd]
    repeat' split
    all_goals exact hp
  | addFail n =>
    cases n <;>
    · simp only [step, stepAdd]
      repeat' split
      all_goals exact hp
  | removeShare =>
    simp only [step, stepRemove]
    repeat' split
    all_goals exact hp
  | removeFail n =>
    simp only [step, stepRemove]
    repeat' split
    all_goals exact hp
  | bump => exact hp
  | bumpBegin => simp [Op.atomic] at ha
  | bumpRead => simp [Op.atomic] at ha
  | bumpWrite => simp [Op.atomic] at ha
  | signAtt x y =>
    rcases stepSignAtt_cases cfg s x y with ⟨h1, _⟩ | ⟨_, _, _, _, _, _, _, _, heq⟩
    · simp only [step]; rw [h1]; exact hp
    · simp only [step]; rw [heq]; exact hp
  | signBlock slot =>
    rcases stepSignBlock_cases cfg s slot with ⟨h1, _⟩ | ⟨_, _, _, _, _, heq⟩
    · simp only [step]; rw [h1]; exact hp
    · simp only [step]; rw [heq]; exact hp
  | signAttFault x y => simp only [step]; rw [(stepSignAttFault_state cfg s x y).1]; exact hp
  | signBlockFault slot => simp only [step]; rw [(stepSignBlockFault_state cfg s slot).1]; exact hp
  | tick dt => exact hp
  | restart => rfl

theorem fresh_of_atomic {cfg : Cfg} (ops : List Op) : ∀ {s : State}, s.pend = none →
    (∀ op ∈ ops, Op.atomic op = true) → Along cfg (Fresh cfg) s ops := by
  induction ops with
  | nil => intro s _ _; trivial
  | cons op ops ih =>
    intro s hp ha
    refine ⟨?_, ih (pend_none_step hp op (ha op (by simp))) (fun o ho => ha o (by simp [ho]))⟩
    unfold Fresh
    rw [hp]
    split <;> simp_all

/-- a regenerated literal/operator list without its string literals (error texts may be reworded freely) -/
def opsOnly (l : List String) : List String := l.filter fun s => s.front != '"'

/-! ### decidability of the per-step guards (used by the concrete witnesses and non-vacuity examples) -/

instance (cfg : Cfg) (s : State) (op : Op) : Decidable (SignedOk cfg s op) := by
  unfold SignedOk
  cases op <;> dsimp only <;> infer_instance

instance (cfg : Cfg) (s : State) (op : Op) : Decidable (Fresh cfg s op) := by
  unfold Fresh
  split <;> infer_instance

def decAlong (cfg : Cfg) (P : State → Op → Prop) [∀ s op, Decidable (P s op)] :
    ∀ (s : State) (ops : List Op), Decidable (Along cfg P s ops)
  | _, [] => isTrue trivial
  | s, op :: ops =>
    match (inferInstance : Decidable (P s op)), decAlong cfg P (step cfg s op).1 ops with
    | isTrue h1, isTrue h2 => isTrue ⟨h1, h2⟩
    | isFalse h1, _ => isFalse (fun h => h1 h.1)
    | _, isFalse h2 => isFalse (fun h => h2 h.2)

instance (cfg : Cfg) (P : State → Op → Prop) [∀ s op, Decidable (P s op)] (s : State) (ops : List Op) :
    Decidable (Along cfg P s ops) := decAlong cfg P s ops

end Ssv.Slashing
