/-
C10 emission bridge, part 5 — the message-count clause over the whole log of `SystemB`: a correct operator hands to
`Instance.Broadcast` at most ONE prepare and at most ONE commit per round (all schedules, all Byzantine behaviours), and at
most one round-change per round as long as no `UponDecided` moved its round (ghost event `G`).

Why: a prepare goes out only together with a NEW entry of the propose container (one proposal per (round, leader),
`AddFirstMsgForSignerAndRound`, never compacted in `SystemB`); a commit only on the step where the prepare quorum of the
current round is FIRST reached (the prepare container only grows, so that happens once per round); a round-change only for
a round strictly above the current one, and without `G` the round never decreases.
-/
import Ssv.Proofs.EmissionBridgeSys
set_option linter.unusedSimpArgs false
set_option linter.unusedVariables false

namespace Ssv.Emission
open Ssv Ssv.Qbft Ssv.Qbft.B

/-! ## rounds of the logged broadcasts of one operator, by type -/

def sentRounds {P : Params} (i : Op P) (t : Nat) (log : List Msg) : List Nat :=
  (log.filter (fun x => x.signers == [opId i] && x.type == t)).map (·.round)

theorem sentRounds_append {P : Params} (i : Op P) (t : Nat) (a b : List Msg) :
    sentRounds i t (a ++ b) = sentRounds i t a ++ sentRounds i t b := by
  simp [sentRounds, List.filter_append]

theorem mem_sentRounds {P : Params} (i : Op P) (t r : Nat) (l : List Msg) :
    r ∈ sentRounds i t l ↔ ∃ x ∈ l, x.signers = [opId i] ∧ x.type = t ∧ x.round = r := by
  unfold sentRounds
  simp only [List.mem_map, List.mem_filter, Bool.and_eq_true, beq_iff_eq]
  constructor
  · rintro ⟨x, ⟨hx, h1, h2⟩, h3⟩; exact ⟨x, hx, h1, h2, h3⟩
  · rintro ⟨x, hx, h1, h2, h3⟩; exact ⟨x, ⟨hx, h1, h2⟩, h3⟩

theorem sentRounds_none {P : Params} (i : Op P) (t : Nat) (l : List Msg)
    (h : ∀ x ∈ l, ¬ (x.signers = [opId i] ∧ x.type = t)) : sentRounds i t l = [] := by
  apply List.eq_nil_iff_forall_not_mem.2
  intro r hr
  obtain ⟨x, hx, h1, h2, _⟩ := (mem_sentRounds i t r l).1 hr
  exact h x hx ⟨h1, h2⟩

theorem sentRounds_single {P : Params} (i : Op P) (t : Nat) (x : Msg) (h1 : x.signers = [opId i]) (h2 : x.type = t) :
    sentRounds i t [x] = [x.round] := by
  simp [sentRounds, h1, h2]

theorem sentRounds_nil {P : Params} (i : Op P) (t : Nat) : sentRounds i t [] = [] := rfl

/-! ## quorum counting is monotone -/

theorem uniqueCount_mono (a b : List Nat) (h : ∀ x ∈ a, x ∈ b) : uniqueCount a ≤ uniqueCount b := by
  unfold uniqueCount
  apply List.Nodup.length_le_of_subset (uniq_nodup a)
  intro x hx
  exact (uniq_mem b x).2 (h x ((uniq_mem a x).1 hx))

theorem hasQuorum_forRound_append (cfg : Cfg) (c : Container) (m : Msg) (r : Nat)
    (h : cfg.hasQuorum (signersOf (forRound c r)) = true) : cfg.hasQuorum (signersOf (forRound (c ++ [m]) r)) = true := by
  rw [hasQuorum_iff] at h ⊢
  refine Nat.le_trans h (uniqueCount_mono _ _ ?_)
  intro x hx
  simp only [signersOf, forRound, List.mem_flatMap, List.mem_filter, List.filter_append, List.mem_append] at hx ⊢
  obtain ⟨y, hy, hxy⟩ := hx
  exact ⟨y, Or.inl hy, hxy⟩

/-! ## the invariant, on (log, trace, instance of the height) of one correct operator -/

structure CountInvL {P : Params} (log : List Msg) (T : List (Ev (Op P))) (i : Op P) (os : Option State) : Prop where
  prepares : (sentRounds i tPrepare log).Nodup
  commits : (sentRounds i tCommit log).Nodup
  commitQ : ∀ s, os = some s → ∀ r ∈ sentRounds i tCommit log,
    (P.cfg i).hasQuorum (signersOf (forRound s.prepare r)) = true
  rcs : (∀ rc, Ev.G i rc ∉ T) → (sentRounds i tRoundChange log).Nodup

theorem logOK_own {P : Params} {T : List (Ev (Op P))} {x : Msg} {i : Op P} (h : LogOK P T x) (hs : x.signers = [opId i]) :
    (x.type = tPrepare → Ev.P i x.round x.root ∈ T) ∧ (x.type = tCommit → Ev.K i x.round x.root ∈ T) ∧
    (x.type = tRoundChange → Ev.RC i x.round x.dataRound x.root ∈ T) := by
  obtain ⟨i', _, h2, _, h4, h5, h6⟩ := h
  have : i' = i := by
    rw [hs] at h2
    injection h2 with h2 _
    exact (opId_inj h2).symm
  subst this
  exact ⟨h4, h5, h6⟩

/-- an operator without an instance has sent no prepare / commit / round-change -/
theorem sent_none_of_noInst {P : Params} {T : List (Ev (Op P))} {log : List Msg} {i : Op P}
    (hlog : ∀ m ∈ log, LogOK P T m) (hn : NodeInvO P T i none) (t : Nat)
    (ht : t = tPrepare ∨ t = tCommit ∨ t = tRoundChange) : sentRounds i t log = [] := by
  apply sentRounds_none
  rintro x hx ⟨h1, h2⟩
  obtain ⟨a, b, c⟩ := logOK_own (hlog x hx) h1
  rcases ht with ht | ht | ht
  · exact hn _ (a (h2.trans ht)) rfl
  · exact hn _ (b (h2.trans ht)) rfl
  · exact hn _ (c (h2.trans ht)) rfl

theorem countInvL_of_empty {P : Params} {log : List Msg} {T : List (Ev (Op P))} {i : Op P} {os : Option State}
    (h1 : sentRounds i tPrepare log = []) (h2 : sentRounds i tCommit log = []) (h3 : sentRounds i tRoundChange log = []) :
    CountInvL log T i os :=
  ⟨(by rw [h1]; exact List.nodup_nil), (by rw [h2]; exact List.nodup_nil),
   (by intro s _ r hr; rw [h2] at hr; cases hr), (by intro _; rw [h3]; exact List.nodup_nil)⟩

theorem noG_of_append {P : Params} {T evs : List (Ev (Op P))} {i : Op P} (h : ∀ rc, Ev.G i rc ∉ T ++ evs) :
    ∀ rc, Ev.G i rc ∉ T := fun rc hm => h rc (List.mem_append_left _ hm)

/-- no new message of the three counted types, prepare container unchanged or extended -/
theorem countInvL_frame {P : Params} {log bs : List Msg} {T evs : List (Ev (Op P))} {i : Op P} {s s' : State}
    (hc : CountInvL log T i (some s))
    (hbs : ∀ x ∈ bs, x.type ≠ tPrepare ∧ x.type ≠ tCommit ∧ x.type ≠ tRoundChange)
    (hp : s'.prepare = s.prepare ∨ ∃ m, s'.prepare = s.prepare ++ [m]) :
    CountInvL (log ++ bs) (T ++ evs) i (some s') := by
  have e : ∀ t, (t = tPrepare ∨ t = tCommit ∨ t = tRoundChange) → sentRounds i t (log ++ bs) = sentRounds i t log := by
    intro t ht
    rw [sentRounds_append, sentRounds_none i t bs, List.append_nil]
    rintro x hx ⟨_, h2⟩
    obtain ⟨a, b, c⟩ := hbs x hx
    rcases ht with ht | ht | ht <;> subst ht
    · exact a h2
    · exact b h2
    · exact c h2
  refine ⟨by rw [e _ (Or.inl rfl)]; exact hc.prepares, by rw [e _ (Or.inr (Or.inl rfl))]; exact hc.commits, ?_, ?_⟩
  · intro s0 hs0 r hr
    injection hs0 with hs0
    subst hs0
    rw [e _ (Or.inr (Or.inl rfl))] at hr
    have := hc.commitQ s rfl r hr
    rcases hp with hp | ⟨m, hp⟩
    · rw [hp]; exact this
    · rw [hp]; exact hasQuorum_forRound_append _ _ _ _ this
  · intro hg
    rw [e _ (Or.inr (Or.inr rfl))]
    exact hc.rcs (noG_of_append hg)

/-- one node transition keeps the invariant; `hcommit` = a commit is only broadcast when the current round had no prepare
    quorum before the step (`Emit.commit`) -/
theorem countInvL_nstep {P : Params} {T : List (Ev (Op P))} {log : List Msg} {A : Msg → Prop} {i : Op P}
    {os os' : Option State} {bs : List Msg} {evs : List (Ev (Op P))}
    (hlog : ∀ m ∈ log, LogOK P T m) (hnode : NodeInvO P T i os)
    (hst : NStep (P.cfg i) P.height A i os os' bs evs)
    (hcommit : ∀ x ∈ bs, x.type = tCommit → ∀ s, os = some s →
      (P.cfg i).hasQuorum (signersOf (forRound s.prepare s.round)) = false)
    (hc : CountInvL log T i os) : CountInvL (log ++ bs) (T ++ evs) i os' := by
  have hprop : tProposal ≠ tPrepare ∧ tProposal ≠ tCommit ∧ tProposal ≠ tRoundChange := by decide
  cases hst with
  | idle h1 h2 h3 =>
    subst h1 h2 h3
    simpa using hc
  | create v h0 h1 h2 h3 =>
    subst h0 h1 h3
    have e : ∀ t, (t = tPrepare ∨ t = tCommit ∨ t = tRoundChange) → sentRounds i t (log ++ bs) = [] := by
      intro t ht
      rw [sentRounds_append, sent_none_of_noInst hlog hnode t ht, List.nil_append]
      apply sentRounds_none
      rintro x hx ⟨_, hty⟩
      have := (h2 x hx).1
      rw [this] at hty
      rcases ht with ht | ht | ht <;> subst ht
      · exact hprop.1 hty
      · exact hprop.2.1 hty
      · exact hprop.2.2 hty
    exact countInvL_of_empty (e _ (Or.inl rfl)) (e _ (Or.inr (Or.inl rfl))) (e _ (Or.inr (Or.inr rfl)))
  | createDecided m ha h0 hv hh h1 h2 h3 =>
    subst h0 h1 h2
    have e : ∀ t, (t = tPrepare ∨ t = tCommit ∨ t = tRoundChange) → sentRounds i t (log ++ []) = [] := by
      intro t ht
      rw [List.append_nil]; exact sent_none_of_noInst hlog hnode t ht
    exact countInvL_of_empty (e _ (Or.inl rfl)) (e _ (Or.inr (Or.inl rfl))) (e _ (Or.inr (Or.inr rfl)))
  | adopt s m ha h0 hd hv hh h1 h2 h3 =>
    subst h0 h1 h2
    exact countInvL_frame hc (by intro x hx; cases hx) (Or.inl rfl)
  | more s m ha h0 hd hv hh h1 h2 h3 =>
    subst h0 h1 h2
    exact countInvL_frame hc (by intro x hx; cases hx) (Or.inl rfl)
  | prop s m ha h0 hv hnew h1 h2 h3 =>
    subst h0 h1
    have hn : NodeInv P T i s := hnode
    rcases h2 with h2 | h2
    · subst h2
      exact countInvL_frame hc (by intro x hx; cases hx) (Or.inl rfl)
    · subst h2
      have hsig : (createPrepare (P.cfg i) s m.round (hashData m.fullData)).signers = [opId i] := rfl
      have hty : (createPrepare (P.cfg i) s m.round (hashData m.fullData)).type = tPrepare := rfl
      have hother : ∀ t, t ≠ tPrepare →
          sentRounds i t (log ++ [createPrepare (P.cfg i) s m.round (hashData m.fullData)]) = sentRounds i t log := by
        intro t ht
        rw [sentRounds_append, sentRounds_none i t [_], List.append_nil]
        rintro x hx ⟨_, h2⟩
        simp at hx; subst hx
        exact ht (h2.symm.trans hty)
      refine ⟨?_, by rw [hother _ (by decide)]; exact hc.commits, ?_, ?_⟩
      · rw [sentRounds_append, sentRounds_single i _ _ hsig hty]
        refine List.nodup_append.2 ⟨hc.prepares, by simp, ?_⟩
        intro a ha b hb hab
        simp at hb
        subst hab hb
        -- an earlier prepare of this round would mean a stored proposal of this round from the same leader
        obtain ⟨x, hx, hx1, hx2, hx3⟩ := (mem_sentRounds i _ _ _).1 ha
        have hP := (logOK_own (hlog x hx) hx1).1 hx2
        obtain ⟨q, hq, hqr, _⟩ := hn.evProp _ _ hP
        have hqm : q.round = m.round := hqr.trans hx3
        have hms := hnew q hq hqm
        obtain ⟨l, hl, hls⟩ := (hn.propGood q hq).leader
        obtain ⟨l', hl', hls'⟩ := (isValidProposal_ok _ s m () hv).leader
        rw [hn.height, ← hqm, hl] at hl'
        injection hl' with hl'
        rw [hls, hls', hl', matchedSigners_self] at hms
        cases hms
      · intro s0 hs0 r hr
        injection hs0 with hs0
        subst hs0
        rw [hother _ (by decide)] at hr
        exact hc.commitQ s rfl r hr
      · intro hg
        rw [hother _ (by decide)]
        exact hc.rcs (noG_of_append hg)
  | prep s m p ha h0 hacc hv h1 h2 h3 =>
    subst h0 h1 h2
    exact countInvL_frame hc (by intro x hx; cases hx) (Or.inr ⟨m, rfl⟩)
  | prepQ s m p ha h0 hacc hv hq h1 h2 =>
    subst h0 h1
    rcases h2 with ⟨h2, _⟩ | ⟨h2, _⟩
    · subst h2
      exact countInvL_frame hc (by intro x hx; cases hx) (Or.inr ⟨m, rfl⟩)
    · subst h2
      have hsig : (createCommit (P.cfg i) s p.root).signers = [opId i] := rfl
      have hty : (createCommit (P.cfg i) s p.root).type = tCommit := rfl
      have hrd : (createCommit (P.cfg i) s p.root).round = s.round := rfl
      have hother : ∀ t, t ≠ tCommit →
          sentRounds i t (log ++ [createCommit (P.cfg i) s p.root]) = sentRounds i t log := by
        intro t ht
        rw [sentRounds_append, sentRounds_none i t [_], List.append_nil]
        rintro x hx ⟨_, h2⟩
        simp at hx; subst hx
        exact ht (h2.symm.trans hty)
      have hbefore := hcommit _ (by simp) hty s rfl
      refine ⟨by rw [hother _ (by decide)]; exact hc.prepares, ?_, ?_, ?_⟩
      · rw [sentRounds_append, sentRounds_single i _ _ hsig hty, hrd]
        refine List.nodup_append.2 ⟨hc.commits, by simp, ?_⟩
        intro a ha b hb hab
        simp at hb
        subst hab hb
        have := hc.commitQ s rfl _ ha
        rw [hbefore] at this
        cases this
      · intro s0 hs0 r hr
        injection hs0 with hs0
        subst hs0
        rw [sentRounds_append, sentRounds_single i _ _ hsig hty, hrd] at hr
        rcases List.mem_append.1 hr with hr | hr
        · exact hasQuorum_forRound_append _ _ _ _ (hc.commitQ s rfl r hr)
        · simp at hr; subst hr; exact hq
      · intro hg
        rw [hother _ (by decide)]
        exact hc.rcs (noG_of_append hg)
  | com s m p ha h0 hacc hv h1 h2 h3 =>
    subst h0 h1 h2
    exact countInvL_frame hc (by intro x hx; cases hx) (Or.inl rfl)
  | comQ s m p agg ha h0 hacc hv hq hagg h1 h2 h3 =>
    subst h0 h1 h2
    exact countInvL_frame hc (by intro x hx; cases hx) (Or.inl rfl)
  | rc s X h0 h1 h2 h3 =>
    subst h0 h1
    refine countInvL_frame hc ?_ (Or.inl rfl)
    intro x hx
    rw [(h2 x hx).1]
    exact hprop
  | jump s X R h0 hR h1 h2 =>
    subst h0 h1
    have hn : NodeInv P T i s := hnode
    rcases h2 with ⟨h2, _⟩ | ⟨h2, _⟩
    · subst h2
      exact countInvL_frame hc (by intro x hx; cases hx) (Or.inl rfl)
    · subst h2
      obtain ⟨hty, hrd, _, hsig, _⟩ := createRoundChange_clause (P.cfg i) s R
      have hsig' : (createRoundChange (P.cfg i) s R).signers = [opId i] := hsig
      have hother : ∀ t, t ≠ tRoundChange →
          sentRounds i t (log ++ [createRoundChange (P.cfg i) s R]) = sentRounds i t log := by
        intro t ht
        rw [sentRounds_append, sentRounds_none i t [_], List.append_nil]
        rintro x hx ⟨_, h2⟩
        simp at hx; subst hx
        exact ht (h2.symm.trans hty)
      refine ⟨by rw [hother _ (by decide)]; exact hc.prepares, by rw [hother _ (by decide)]; exact hc.commits, ?_, ?_⟩
      · intro s0 hs0 r hr
        injection hs0 with hs0
        subst hs0
        rw [hother _ (by decide)] at hr
        exact hc.commitQ s rfl r hr
      · intro hg
        have hg' := noG_of_append hg
        rw [sentRounds_append, sentRounds_single i _ _ hsig' hty, hrd]
        refine List.nodup_append.2 ⟨hc.rcs hg', by simp, ?_⟩
        intro a ha b hb hab
        simp at hb
        subst hab hb
        obtain ⟨x, hx, hx1, hx2, hx3⟩ := (mem_sentRounds i _ _ _).1 ha
        have hRC := (logOK_own (hlog x hx) hx1).2.2 hx2
        obtain ⟨k1, hk1⟩ := List.getElem?_of_mem hRC
        rcases hn.rcRound k1 _ _ _ hk1 with h | ⟨g, rc, _, hgm, _⟩
        · omega
        · exact hg' rc (getElem?_mem' hgm)

/-! ## the system -/

/-- the controller of the acting operator after the step -/
def stepCtrl {P : Params} (σ : Sys P) : Action P → Ctrl
  | .start i v => ((σ.ctrl i).startNewInstance (P.cfg i) P.height v).ct
  | .deliver i m => ((σ.ctrl i).processMsg (P.cfg i) m).ct
  | .timeout i r => ((σ.ctrl i).onTimeout (P.cfg i) P.height r).ct

/-- `step_nstep` with the new controller and the outputs named -/
theorem step_nstepE {P : Params} (hP : P.Valid) (σ : Sys P) (hinv : Inv P hP σ) (a : Action P)
    (hen : enabled σ a = true) :
    ∃ evs : List (Ev (Op P)), P.honest (actor a) = true ∧
      step σ a = σ.update (actor a) (stepCtrl σ a) (stepOuts σ a) evs ∧
      NStep (P.cfg (actor a)) P.height (fun m => authentic P σ.log m = true ∧ m.ident = ownIdent) (actor a)
        (instAt P.height (σ.ctrl (actor a))) (instAt P.height (stepCtrl σ a)) (bcasts (stepOuts σ a)) evs := by
  cases a with
  | start i v =>
    have hi : P.honest i = true := hen
    obtain ⟨_, h2⟩ := ctrl_start_node (P.cfg i) P.height (fun m => authentic P σ.log m = true ∧ m.ident = ownIdent) i (σ.ctrl i) v
      (hinv.shape i) (capacity_pos P i)
    exact ⟨_, hi, rfl, h2⟩
  | deliver i m =>
    have hen' : P.honest i = true ∧ authentic P σ.log m = true := by
      simpa [enabled] using hen
    obtain ⟨_, h2⟩ := ctrl_processMsg_node (P.cfg i) P.height (fun m => authentic P σ.log m = true ∧ m.ident = ownIdent) i (σ.ctrl i) m
      (hinv.shape i) (capacity_pos P i) (fun hid => ⟨hen'.2, hid⟩)
      (fun hv hid => (cert_facts hP hinv.log i m hv hen'.2 hid).height)
    exact ⟨_, hen'.1, rfl, h2⟩
  | timeout i r =>
    have hi : P.honest i = true := hen
    obtain ⟨_, h2⟩ := ctrl_onTimeout_node (P.cfg i) P.height (fun m => authentic P σ.log m = true ∧ m.ident = ownIdent) i (σ.ctrl i) r
      (hinv.shape i)
    exact ⟨_, hi, rfl, h2⟩

/-- a commit leaves the acting operator only when its current round had no prepare quorum before the step -/
theorem step_commit_first {P : Params} (hP : P.Valid) {σ : Sys P} (hinv : Inv P hP σ) (a : Action P) (x : Msg)
    (hx : x ∈ bcasts (stepOuts σ a)) (hty : x.type = tCommit) (s : State)
    (hs : instAt P.height (σ.ctrl (actor a)) = some s) :
    (P.cfg (actor a)).hasQuorum (signersOf (forRound s.prepare s.round)) = false := by
  have hx' := (mem_bcasts _ _).1 hx
  cases a with
  | start i v =>
    obtain ⟨_, ho⟩ := ctrl_start_outs _ _ _ _ _ hx'
    have := (start_bcast _ _ _ _ x ((mem_bcasts _ _).2 ho)).1
    rw [this] at hty
    exact absurd hty (by show tProposal ≠ tCommit; decide)
  | deliver i m =>
    obtain ⟨inst, hf, _, hb⟩ := ctrl_processMsg_bcast _ _ _ _ hx'
    have hi := inst_of_find (hinv.shape i) hf
    have hs' : instAt P.height (σ.ctrl i) = some s := hs
    rw [hi] at hs'
    injection hs' with hs'
    subst hs'
    cases processMsg_emit _ _ _ _ hb with
    | prepare hv hx => subst hx; exact absurd hty (by show tPrepare ≠ tCommit; decide)
    | commit p hacc hb hx => exact hb
    | roundChange R hR hx => subst hx; rw [createRoundChange_type] at hty; exact absurd hty (by decide)
    | proposal j v htype hbv hx hj hq hjust => subst hx; exact absurd hty (by show tProposal ≠ tCommit; decide)
  | timeout i r =>
    obtain ⟨inst, _, ho⟩ := ctrl_onTimeout_outs _ _ _ _ _ hx'
    have := uponRoundTimeout_bcast _ inst x ((mem_bcasts _ _).2 ho)
    rw [this, createRoundChange_type] at hty
    exact absurd hty (by decide)

theorem nstep_bs_signers {N : Type} {cfg : Cfg} {h : Nat} {A : Msg → Prop} {i : N} {os os' : Option State}
    {bs : List Msg} {evs : List (Ev N)} (hst : NStep cfg h A i os os' bs evs) : ∀ x ∈ bs, x.signers = [cfg.own] := by
  intro x hx
  cases hst with
  | idle _ h2 => subst h2; cases hx
  | create v _ _ h2 => exact (h2 x hx).2.1
  | createDecided m _ _ _ _ _ h2 => subst h2; cases hx
  | adopt s m _ _ _ _ _ _ h2 => subst h2; cases hx
  | more s m _ _ _ _ _ _ h2 => subst h2; cases hx
  | prop s m _ _ _ _ _ h2 =>
    rcases h2 with h2 | h2 <;> subst h2
    · cases hx
    · simp at hx; subst hx; rfl
  | prep s m p _ _ _ _ _ h2 => subst h2; cases hx
  | prepQ s m p _ _ _ _ _ _ h2 =>
    rcases h2 with ⟨h2, _⟩ | ⟨h2, _⟩ <;> subst h2
    · cases hx
    · simp at hx; subst hx; rfl
  | com s m p _ _ _ _ _ h2 => subst h2; cases hx
  | comQ s m p agg _ _ _ _ _ _ _ h2 => subst h2; cases hx
  | rc s X _ _ h2 => exact (h2 x hx).2.1
  | jump s X R _ _ _ h2 =>
    rcases h2 with ⟨h2, _⟩ | ⟨h2, _⟩ <;> subst h2
    · cases hx
    · simp at hx; subst hx; exact (createRoundChange_clause cfg s R).2.2.2.1

theorem nstep_evs_own {N : Type} {cfg : Cfg} {h : Nat} {A : Msg → Prop} {i : N} {os os' : Option State}
    {bs : List Msg} {evs : List (Ev N)} (hst : NStep cfg h A i os os' bs evs) : ∀ e ∈ evs, e.node = i :=
  fun e he => nstep_evs_node hst e he

/-- MESSAGE COUNTS: in every reachable state of `SystemB`, every correct operator has handed to `Instance.Broadcast` at
    most one prepare per round, at most one commit per round, and — unless `UponDecided` ever moved its round — at most
    one round-change per round -/
theorem countInv_of_reachable {P : Params} (hP : P.Valid) {σ : Sys P} (h : Reachable σ) :
    ∀ i, P.honest i = true → CountInvL σ.log σ.trace i (instAt P.height (σ.ctrl i)) := by
  induction h with
  | init =>
    intro i _
    exact countInvL_of_empty rfl rfl rfl
  | step a hr hen ih =>
    rename_i σ0
    have hinv := inv_of_reachable hP hr
    obtain ⟨evs, hi, he, hst⟩ := step_nstepE hP σ0 hinv a hen
    intro j hj
    rw [he]
    show CountInvL (σ0.log ++ bcasts (stepOuts σ0 a)) (σ0.trace ++ evs) j
      (instAt P.height ((σ0.update (actor a) (stepCtrl σ0 a) (stepOuts σ0 a) evs).ctrl j))
    by_cases hji : j = actor a
    · subst hji
      have : (σ0.update (actor a) (stepCtrl σ0 a) (stepOuts σ0 a) evs).ctrl (actor a) = stepCtrl σ0 a := by simp [Sys.update]
      rw [this]
      exact countInvL_nstep hinv.log (hinv.node _ hj) hst
        (fun x hx hty s hs => step_commit_first hP hinv a x hx hty s hs) (ih _ hj)
    · have : (σ0.update (actor a) (stepCtrl σ0 a) (stepOuts σ0 a) evs).ctrl j = σ0.ctrl j := by simp [Sys.update, hji]
      rw [this]
      have hc := ih j hj
      have hsg := nstep_bs_signers hst
      have e : ∀ t, sentRounds j t (σ0.log ++ bcasts (stepOuts σ0 a)) = sentRounds j t σ0.log := by
        intro t
        rw [sentRounds_append, sentRounds_none j t (bcasts (stepOuts σ0 a)), List.append_nil]
        rintro x hx ⟨h1, _⟩
        have h2 : x.signers = [opId (actor a)] := hsg x hx
        rw [h1] at h2
        injection h2 with h2 _
        exact hji (opId_inj h2)
      refine ⟨by rw [e]; exact hc.prepares, by rw [e]; exact hc.commits, ?_, ?_⟩
      · intro s hs r hr'
        rw [e] at hr'
        exact hc.commitQ s hs r hr'
      · intro hg
        rw [e]
        exact hc.rcs (noG_of_append hg)

end Ssv.Emission
