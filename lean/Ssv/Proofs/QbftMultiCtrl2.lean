/-
C01 all heights, part 2 — `Controller.ProcessMsg`, `StartNewInstance`, `OnTimeout` on the many-height container.
Core Lean only.
-/
import Ssv.Proofs.QbftMultiCtrl
set_option linter.unusedSimpArgs false
set_option linter.unusedVariables false

namespace Ssv.Qbft.M
open Ssv.Qbft Ssv.Qbft.B

theorem uponExisting_ctheight (cfg : Cfg) (c : Ctrl) (m : Msg) : (uponExistingInstanceMsg cfg c m).ct.height = c.height := by
  unfold uponExistingInstanceMsg
  split
  · rfl
  · simp only
    split
    · rfl
    · rfl
    · split
      · rfl
      · split
        · rfl
        · split <;> rfl

theorem idle_multi {N : Type} (cfg : Cfg) (A : Msg → Prop) (i : N) (c : Ctrl) (m : Msg) (hc : CInv c) (t : Tag) :
    CInv (⟨c, [], .err t⟩ : CStep).ct ∧ (∀ h, Blocked h c → Blocked h (⟨c, [], .err t⟩ : CStep).ct) ∧
    HStep cfg m.height A i c (⟨c, [], .err t⟩ : CStep).ct (bcasts (⟨c, [], .err t⟩ : CStep).outs)
      (deliverEvents cfg m.height i c ⟨c, [], .err t⟩ m) ∧
    ∀ h, h ≠ m.height → OStep h c (⟨c, [], .err t⟩ : CStep).ct := by
  refine ⟨hc, fun _ hb => hb, .n (.idle rfl rfl ?_), fun _ _ => .same rfl⟩
  unfold deliverEvents
  simp [outEvents]

theorem uponExisting_multi {N : Type} (cfg : Cfg) (A : Msg → Prop) (i : N) (c : Ctrl) (m : Msg) (s : State)
    (hc : CInv c) (hf : findInstance c.insts m.height = some s) (hA : A m) (hnd : isDecidedMsg cfg m = false) :
    CInv (uponExistingInstanceMsg cfg c m).ct ∧ (∀ h, Blocked h c → Blocked h (uponExistingInstanceMsg cfg c m).ct) ∧
    HStep cfg m.height A i c (uponExistingInstanceMsg cfg c m).ct (bcasts (uponExistingInstanceMsg cfg c m).outs)
      (deliverEvents cfg m.height i c (uponExistingInstanceMsg cfg c m) m) ∧
    ∀ h, h ≠ m.height → OStep h c (uponExistingInstanceMsg cfg c m).ct := by
  obtain ⟨h1, h2, h3⟩ := uponExisting_outs i cfg c m s hf
  have hspec := processMsg_spec cfg s m
  have hsh := (findInstance_mem_hts hf).1
  have hht : (processMsg cfg s m).st.height = m.height := by rw [hspec.height, hsh]
  obtain ⟨u, hi1⟩ := upd_of_update c _ m.height s (processMsg cfg s m).st hf hht h1
    (by rw [uponExisting_ctheight]; exact Nat.le_refl _)
  have hi0 : instAt m.height c = some s := hf
  refine ⟨u.cinv hc, u.blocked, .n ?_, fun h hne => .same (u.other h hne)⟩
  have hev : deliverEvents cfg m.height i c (uponExistingInstanceMsg cfg c m) m =
      (if plen (some s) < plen (some (processMsg cfg s m).st) then [.P i m.round m.root] else []) ++
        (bcasts (processMsg cfg s m).outs).flatMap (msgEvents i) ++ aggEvents i (processMsg cfg s m).res := by
    unfold deliverEvents
    rw [proposeLen_of hi0, proposeLen_of hi1, h3, hnd, outEvents_inst i _ (outsInst_processMsg cfg s m)]
    simp [List.append_assoc]
  rw [hi0, hi1, h2, hev]
  exact nstep_of_ispec cfg m.height A i s m (processMsg cfg s m) hA hspec

theorem ctrl_processMsg_multi {N : Type} (cfg : Cfg) (hcap : cfg.capacity = 2) (A : Msg → Prop) (i : N) (c : Ctrl) (m : Msg)
    (hc : CInv c) (hA : m.ident = cfg.ident → A m) :
    CInv (c.processMsg cfg m).ct ∧ (∀ h, Blocked h c → Blocked h (c.processMsg cfg m).ct) ∧
    HStep cfg m.height A i c (c.processMsg cfg m).ct (bcasts (c.processMsg cfg m).outs)
      (deliverEvents cfg m.height i c (c.processMsg cfg m) m) ∧
    ∀ h, h ≠ m.height → OStep h c (c.processMsg cfg m).ct := by
  unfold Ctrl.processMsg
  split
  · exact idle_multi cfg A i c m hc _
  · rename_i hid
    have hid' : m.ident = cfg.ident := by simpa using hid
    split
    · rename_i hdm
      by_cases hv : validateDecided cfg m = .ok ()
      · exact uponDecided_multi cfg hcap A i c m hc (hA hid') hv hdm
      · obtain ⟨r1, r2, r3⟩ := uponDecided_rejected cfg c m hv
        rw [r1]
        refine ⟨hc, fun _ hb => hb, .n (.idle rfl (by rw [r2]; rfl) ?_), fun _ _ => .same rfl⟩
        unfold deliverEvents
        rw [r1, r2, hdm]
        simp only [Nat.lt_irrefl, if_false, if_true, outEvents, List.nil_append]
        split
        · rename_i d hd; exact absurd hd (r3 _)
        · rfl
    · rename_i hdm
      have hnd : isDecidedMsg cfg m = false := by simpa using hdm
      split
      · exact idle_multi cfg A i c m hc _
      · cases hf : findInstance c.insts m.height with
        | none =>
          unfold uponExistingInstanceMsg
          simp only [hf]
          exact idle_multi cfg A i c m hc _
        | some s => exact uponExisting_multi cfg A i c m s hc hf (hA hid') hnd

/-! ### `OnTimeout` -/

theorem ctrl_onTimeout_multi {N : Type} (cfg : Cfg) (A : Msg → Prop) (i : N) (c : Ctrl) (h0 r : Nat) (hc : CInv c) :
    CInv (c.onTimeout cfg h0 r).ct ∧ (∀ h, Blocked h c → Blocked h (c.onTimeout cfg h0 r).ct) ∧
    HStep cfg h0 A i c (c.onTimeout cfg h0 r).ct (bcasts (c.onTimeout cfg h0 r).outs)
      (outEvents i (c.onTimeout cfg h0 r).outs) ∧
    ∀ h, h ≠ h0 → OStep h c (c.onTimeout cfg h0 r).ct := by
  have hidle : ∀ (res : COutcome), CInv (⟨c, [], res⟩ : CStep).ct ∧ (∀ h, Blocked h c → Blocked h (⟨c, [], res⟩ : CStep).ct) ∧
      HStep cfg h0 A i c (⟨c, [], res⟩ : CStep).ct (bcasts (⟨c, [], res⟩ : CStep).outs) (outEvents i (⟨c, [], res⟩ : CStep).outs) ∧
      ∀ h, h ≠ h0 → OStep h c (⟨c, [], res⟩ : CStep).ct :=
    fun res => ⟨hc, fun _ hb => hb, .n (.idle rfl rfl rfl), fun _ _ => .same rfl⟩
  unfold Ctrl.onTimeout
  cases hf : findInstance c.insts h0 with
  | none => simp only; exact hidle (.err [.instanceNil])
  | some s =>
    simp only
    split
    · exact hidle _
    · split
      · exact hidle _
      · have hsh := (findInstance_mem_hts hf).1
        have hi0 : instAt h0 c = some s := hf
        have key : ∀ (res : COutcome),
            CInv (⟨{ c with insts := updateInstance c.insts (uponRoundTimeout cfg s).st }, (uponRoundTimeout cfg s).outs, res⟩ : CStep).ct ∧
            (∀ h, Blocked h c → Blocked h (⟨{ c with insts := updateInstance c.insts (uponRoundTimeout cfg s).st }, (uponRoundTimeout cfg s).outs, res⟩ : CStep).ct) ∧
            HStep cfg h0 A i c (⟨{ c with insts := updateInstance c.insts (uponRoundTimeout cfg s).st }, (uponRoundTimeout cfg s).outs, res⟩ : CStep).ct
              (bcasts (uponRoundTimeout cfg s).outs) (outEvents i (uponRoundTimeout cfg s).outs) ∧
            ∀ h, h ≠ h0 → OStep h c (⟨{ c with insts := updateInstance c.insts (uponRoundTimeout cfg s).st }, (uponRoundTimeout cfg s).outs, res⟩ : CStep).ct := by
          intro res
          by_cases hcp : canProcess cfg s = true
          · have e := uponRoundTimeout_progress cfg s hcp
            obtain ⟨u, hi1⟩ := upd_of_update c { c with insts := updateInstance c.insts (uponRoundTimeout cfg s).st } h0 s
              (uponRoundTimeout cfg s).st hf (by rw [e]; exact hsh) rfl (Nat.le_refl _)
            refine ⟨u.cinv hc, u.blocked, .n ?_, fun h hne => .same (u.other h hne)⟩
            show NStep cfg h0 A i (instAt h0 c) (instAt h0 { c with insts := updateInstance c.insts (uponRoundTimeout cfg s).st }) _ _
            rw [hi0, hi1, e]
            refine .jump s s.roundChange (s.round + 1) rfl (Nat.lt_succ_self _) rfl (Or.inr ⟨rfl, ?_⟩)
            simp only [outEvents, List.append_nil]
            exact msgEvents_roundChange i cfg s (s.round + 1)
          · have hc' : canProcess cfg s = false := by simpa using hcp
            have e : uponRoundTimeout cfg s = ⟨s, [], .err [.stoppedTimeouts]⟩ := by
              unfold uponRoundTimeout; simp [hc']
            obtain ⟨u, hi1⟩ := upd_of_update c { c with insts := updateInstance c.insts (uponRoundTimeout cfg s).st } h0 s
              (uponRoundTimeout cfg s).st hf (by rw [e]; exact hsh) rfl (Nat.le_refl _)
            refine ⟨u.cinv hc, u.blocked, .n ?_, fun h hne => .same (u.other h hne)⟩
            show NStep cfg h0 A i (instAt h0 c) (instAt h0 { c with insts := updateInstance c.insts (uponRoundTimeout cfg s).st }) _ _
            rw [hi0, hi1, e]
            exact .idle rfl rfl rfl
        split
        · exact key _
        · exact key _
        · exact key _

/-! ### `StartNewInstance` -/

def stopF (hgt : Nat) (x : State) : State := if x.height != hgt then forceStop x else x

theorem stopF_height (hgt : Nat) (x : State) : (stopF hgt x).height = x.height := by
  unfold stopF; split <;> rfl

theorem forceStopOthers_eq (c : Ctrl) : forceStopOthers c = { c with insts := c.insts.map (stopF c.height) } := rfl

theorem hts_forceStopOthers (c : Ctrl) : hts (forceStopOthers c) = hts c := by
  rw [forceStopOthers_eq]
  show (c.insts.map (stopF c.height)).map (·.height) = c.insts.map (·.height)
  rw [List.map_map]
  apply List.map_congr_left
  intro x _
  exact stopF_height _ x

theorem find_map_height (f : State → State) (hf : ∀ x, (f x).height = x.height) (l : List State) (h : Nat) :
    (l.map f).find? (fun x => x.height == h) = (l.find? (fun x => x.height == h)).map f := by
  induction l with
  | nil => rfl
  | cons e rest ih =>
    simp only [List.map_cons, List.find?_cons, hf]
    split
    · rfl
    · exact ih

theorem instAt_forceStopOthers (c : Ctrl) (h : Nat) :
    instAt h (forceStopOthers c) = (instAt h c).map (stopF c.height) := by
  rw [forceStopOthers_eq]
  exact find_map_height (stopF c.height) (stopF_height c.height) c.insts h

theorem ctrl_start_multi {N : Type} (cfg : Cfg) (hcap : cfg.capacity = 2) (A : Msg → Prop) (i : N) (c : Ctrl) (h0 v : Nat)
    (hc : CInv c) :
    CInv (c.startNewInstance cfg h0 v).ct ∧ (∀ h, Blocked h c → Blocked h (c.startNewInstance cfg h0 v).ct) ∧
    HStep cfg h0 A i c (c.startNewInstance cfg h0 v).ct (bcasts (c.startNewInstance cfg h0 v).outs)
      (outEvents i (c.startNewInstance cfg h0 v).outs) ∧
    ∀ h, h ≠ h0 → OStep h c (c.startNewInstance cfg h0 v).ct := by
  have hidle : ∀ (t : Tag), CInv (⟨c, [], .err t⟩ : CStep).ct ∧ (∀ h, Blocked h c → Blocked h (⟨c, [], .err t⟩ : CStep).ct) ∧
      HStep cfg h0 A i c (⟨c, [], .err t⟩ : CStep).ct (bcasts (⟨c, [], .err t⟩ : CStep).outs) (outEvents i (⟨c, [], .err t⟩ : CStep).outs) ∧
      ∀ h, h ≠ h0 → OStep h c (⟨c, [], .err t⟩ : CStep).ct :=
    fun t => ⟨hc, fun _ hb => hb, .n (.idle rfl rfl rfl), fun _ _ => .same rfl⟩
  unfold Ctrl.startNewInstance
  split
  · exact hidle _
  · split
    · exact hidle _
    · split
      · exact hidle _
      · rename_i hpast hsome
        have hge : c.height ≤ h0 := Nat.le_of_not_lt hpast
        have hf : findInstance c.insts h0 = none := by
          cases hx : findInstance c.insts h0 with
          | none => rfl
          | some s => rw [hx] at hsome; simp at hsome
        obtain ⟨e1, e2, e3⟩ := start_spec cfg h0 v
        have hev : outEvents i (start cfg (newInstance h0) v h0).outs = [] := by
          rw [outEvents_inst i _ e3, msgEvents_proposals i _ (fun x hx => (e2 x hx).1)]
        have I := ins_of_add c { height := h0, insts := addNewInstance cfg.capacity c.insts (start cfg (newInstance h0) v h0).st }
          { newInstance h0 with started := true, startValue := v } hc hf (by rw [hcap, e1]) hge (Nat.le_refl _)
        have hi0 : instAt h0 c = none := hf
        have hmain : instAt h0 ({ height := h0, insts := addNewInstance cfg.capacity c.insts (start cfg (newInstance h0) v h0).st } : Ctrl) =
            some { newInstance h0 with started := true, startValue := v } := by
          rcases I.main with h | ⟨_, x, y, hxy, hlt⟩
          · exact h
          · exfalso
            have hy : y ∈ hts ({ height := h0, insts := addNewInstance cfg.capacity c.insts (start cfg (newInstance h0) v h0).st } : Ctrl) := by
              rw [hxy]; simp
            rcases I.sub y hy with h | h
            · have := hc.bound y h
              have hlt' : h0 < y := hlt
              omega
            · have hlt' : h0 < y := hlt
              omega
        dsimp only
        split
        · refine ⟨I.cinv, I.blocked, .n ?_, I.other⟩
          show NStep cfg h0 A i (instAt h0 c) (instAt h0 { height := h0, insts := addNewInstance cfg.capacity c.insts (start cfg (newInstance h0) v h0).st }) _ _
          rw [hi0, hmain]
          exact .create v rfl rfl e2 hev
        · have hh := hts_forceStopOthers ({ height := h0, insts := addNewInstance cfg.capacity c.insts (start cfg (newInstance h0) v h0).st } : Ctrl)
          refine ⟨⟨by rw [hh]; exact I.cinv.sorted, by rw [hh]; exact I.cinv.len, by rw [hh]; exact I.cinv.bound⟩, ?_, .n ?_, ?_⟩
          · intro h hb
            obtain ⟨x, y, hxy, hlt⟩ := I.blocked h hb
            exact ⟨x, y, by rw [hh]; exact hxy, hlt⟩
          · show NStep cfg h0 A i (instAt h0 c) (instAt h0 (forceStopOthers { height := h0, insts := addNewInstance cfg.capacity c.insts (start cfg (newInstance h0) v h0).st })) _ _
            rw [hi0, instAt_forceStopOthers, hmain]
            have : stopF h0 ({ newInstance h0 with started := true, startValue := v } : State) =
                { newInstance h0 with started := true, startValue := v } := by
              simp [stopF, newInstance]
            simp only [Option.map_some, this]
            exact .create v rfl rfl e2 hev
          · intro h hne
            rcases I.other h hne with h1 | ⟨s, _, _⟩ | ⟨s, a, b, d⟩
            · cases hs : instAt h c with
              | none =>
                refine .same ?_
                show instAt h (forceStopOthers _) = instAt h c
                rw [instAt_forceStopOthers, h1, hs]; rfl
              | some s =>
                refine .stop s hs ?_
                show instAt h (forceStopOthers _) = some (forceStop s)
                rw [instAt_forceStopOthers, h1, hs]
                have hsh : s.height = h := (findInstance_mem_hts hs).1
                have : stopF h0 s = forceStop s := by
                  unfold stopF
                  have : (s.height != h0) = true := by rw [hsh]; simpa using hne
                  simp [this]
                simp [this]
            · rename_i hs0 hs1
              refine .stop s hs0 ?_
              show instAt h (forceStopOthers _) = some (forceStop s)
              rw [instAt_forceStopOthers, hs1]
              have hsh : s.height = h := (findInstance_mem_hts hs0).1
              have : stopF h0 (forceStop s) = forceStop s := by
                unfold stopF
                have : ((forceStop s).height != h0) = true := by
                  show (s.height != h0) = true
                  rw [hsh]; simpa using hne
                simp [this, forceStop]
              simp [this]
            · refine .evict s a ?_ ?_
              · show instAt h (forceStopOthers _) = none
                rw [instAt_forceStopOthers, b]; rfl
              · obtain ⟨x, y, hxy, hlt⟩ := d
                exact ⟨x, y, by rw [hh]; exact hxy, hlt⟩

end Ssv.Qbft.M
