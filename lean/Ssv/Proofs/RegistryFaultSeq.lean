/-
Sequences of faults (property C12): every fault is followed by restart-and-resume, the next fault may hit any later
block (or the same block again). Core Lean only.
-/
import Ssv.Proofs.RegistryFault

namespace Ssv.Registry

theorem run_append (me : Nat) (n : Node) (a b : List Block) :
    run me n (a ++ b) = if (run me n a).2 then run me (run me n a).1 b else run me n a := by
  induction a generalizing n with
  | nil => simp [run]
  | cons x xs ih =>
    cases hs : (applyBlock me n x).2.1 with
    | ok => simp only [List.cons_append, run, hs]; exact ih _
    | refused => simp [run, hs]
    | panicked => simp [run, hs]

/-- a stream that is processed completely has block numbers above the marker -/
theorem run_ok_numbers (me : Nat) (n : Node) (bs : List Block) (hok : (run me n bs).2 = true) :
    ∀ c ∈ bs, n.reg.db.marker.getD 0 < c.number := by
  induction bs generalizing n with
  | nil => intro c hc; cases hc
  | cons b bs ih =>
    simp only [run] at hok
    cases hs : (applyBlock me n b).2.1 with
    | refused => simp [hs] at hok
    | panicked => simp [hs] at hok
    | ok =>
      simp only [hs] at hok
      obtain ⟨hinf, _, heq⟩ := applyBlock_ok_eq me n b hs
      have hb : n.reg.db.marker.getD 0 < b.number := by
        simp only [inferior, decide_eq_false_iff_not, ge_iff_le, Nat.not_le] at hinf; exact hinf
      intro c hc
      rcases List.mem_cons.1 hc with rfl | hc
      · exact hb
      · have := ih _ hok c hc
        rw [heq, commit_reg] at this
        simp only [commitReg, Option.getD_some] at this
        omega

theorem run_ok_head (me : Nat) (n : Node) (b : Block) (rest : List Block) (hok : (run me n (b :: rest)).2 = true) :
    (applyBlock me n b).2.1 = .ok ∧ (run me (applyBlock me n b).1 rest).2 = true ∧
    n.reg.db.marker.getD 0 < b.number ∧ (∀ c ∈ rest, b.number < c.number) ∧
    (regEvents me b.number (beginReg n.reg) b.events).2 = false := by
  have hnum := run_ok_numbers me n (b :: rest) hok
  simp only [run] at hok
  cases hs : (applyBlock me n b).2.1 with
  | refused => simp [hs] at hok
  | panicked => simp [hs] at hok
  | ok =>
    simp only [hs] at hok
    obtain ⟨_, hnp, heq⟩ := applyBlock_ok_eq me n b hs
    refine ⟨rfl, hok, hnum b List.mem_cons_self, ?_, ?_⟩
    · intro c hc
      have := run_ok_numbers me _ rest hok c hc
      rw [heq, commit_reg] at this
      simpa [commitReg] using this
    · have h2 := (runEvents_reg me b.number (beginTxn n) b.events).2
      rw [hnp] at h2
      exact h2.symm

theorem SelfInv.reset {me : Nat} {evs : List Event} {x : RegMem} (h : SelfInv me evs x) (ht : x.txn = x.db) : SelfInv me [] x :=
  ⟨h.nz, h.own, h.has, by intro id hid; exact Or.inl (by rw [← ht]; exact hid), h.mono⟩

theorem OpAddsWF.suffix {a b : List Event} (h : OpAddsWF (a ++ b)) : OpAddsWF b := by
  unfold OpAddsWF at *
  rw [addIds_append] at h
  exact ⟨(List.nodup_append.1 h.1).2.1, fun h0 => h.2 (List.mem_append_right _ h0)⟩

theorem flatten_append (a b : List Block) : flatten (a ++ b) = flatten a ++ flatten b := by
  simp [flatten, List.flatMap_append]

/-- facts about the state after a completely processed prefix of the stream -/
theorem run_state (me : Nat) (n : Node) (bs : List Block) (hB : Boundary n) (hS : Sane n.wal) (hself : SelfInv me [] n.reg)
    (hwf : OpAddsWF (flatten bs)) (hok : (run me n bs).2 = true) :
    Boundary (run me n bs).1 ∧ Sane (run me n bs).1.wal ∧ SelfInv me [] (run me n bs).1.reg := by
  have hbd := run_boundary me n bs hB hok
  have hr := run_reg me n bs
  have hinv := regRun_selfInv me n.reg bs hB.1.1 hself hwf (by rw [← hr.2]; exact hok)
  rw [← hr.1] at hinv
  exact ⟨hbd, run_sane me n bs hS, hinv.reset hbd.1.1⟩

theorem SameOutcome.trans {x y z : Node × Bool} (h1 : SameOutcome x y) (h2 : SameOutcome y z) : SameOutcome x z :=
  ⟨h1.ok.trans h2.ok, h1.reg.trans h2.reg, h1.hist.trans h2.hist, fun k => (h1.keys k).trans (h2.keys k), h1.sane.1, h2.sane.2⟩

/-- Any sequence of crashes / failing writes, each at any write index of any block still to be processed and each
    followed by restart-and-resume: unless one of them falls between the account record and the wallet index of an
    AddShare, the stream ends exactly where the uninterrupted run ends. -/
theorem fault_sequence (me : Nat) (fs : List Fault) :
    ∀ (n : Node) (bs : List Block), (∀ f ∈ fs, f.kind ≠ .retry) → Boundary n → Sane n.wal → SelfInv me [] n.reg →
      OpAddsWF (flatten bs) → (run me n bs).2 = true → (faultyRun me n bs fs).2 = false →
      SameOutcome (faultyRun me n bs fs).1 (run me n bs) := by
  induction fs with
  | nil => intro n bs _ _ hS _ _ _ _; exact SameOutcome.refl me n bs hS
  | cons f fs ih =>
    intro n bs hkinds hB hS hself hwf hok hgood
    have hsplit : bs = bs.take f.skip ++ bs.drop f.skip := (List.take_append_drop _ _).symm
    have happ := run_append me n (bs.take f.skip) (bs.drop f.skip)
    rw [← hsplit] at happ
    -- the prefix is processed completely
    have hpre : (run me n (bs.take f.skip)).2 = true := by
      cases hp : (run me n (bs.take f.skip)).2 with
      | true => rfl
      | false => rw [happ] at hok; simp [hp] at hok
    simp only [hpre, ↓reduceIte] at happ
    have hwf1 : OpAddsWF (flatten (bs.take f.skip)) := by
      rw [hsplit, flatten_append] at hwf; exact hwf.prefix
    have hwf2 : OpAddsWF (flatten (bs.drop f.skip)) := by
      rw [hsplit, flatten_append] at hwf; exact hwf.suffix
    obtain ⟨hB1, hS1, hself1⟩ := run_state me n (bs.take f.skip) hB hS hself hwf1 hpre
    simp only [faultyRun, hpre, Bool.not_true, Bool.false_eq_true, ↓reduceIte] at hgood ⊢
    cases hd : bs.drop f.skip with
    | nil =>
      simp only [hd] at hgood ⊢
      rw [happ, hd]
      exact ⟨hpre, rfl, rfl, fun _ => Iff.rfl, hS1, hS1⟩
    | cons b rest =>
      simp only [hd] at hgood ⊢ happ hwf2
      rw [happ]
      have hok1 : (run me (run me n (bs.take f.skip)).1 (b :: rest)).2 = true := by rw [← happ]; exact hok
      obtain ⟨hbok, hrest, hv1, hv2, hnp⟩ := run_ok_head me _ b rest hok1
      have hkind : f.kind ≠ .retry := hkinds f List.mem_cons_self
      have hkinds' : ∀ g ∈ fs, g.kind ≠ .retry := fun g hg => hkinds g (List.mem_cons_of_mem _ hg)
      have hgb : (faultBlock me (run me n (bs.take f.skip)).1 b f.kind f.k).2 ≠ .faultedBad := by
        intro hbad; simp [hbad] at hgood
      have hgrest : (faultyRun me (faultBlock me (run me n (bs.take f.skip)).1 b f.kind f.k).1
          (resumeList (faultBlock me (run me n (bs.take f.skip)).1 b f.kind f.k).1 (b :: rest)) fs).2 = false := by
        cases hq : (faultyRun me (faultBlock me (run me n (bs.take f.skip)).1 b f.kind f.k).1
          (resumeList (faultBlock me (run me n (bs.take f.skip)).1 b f.kind f.k).1 (b :: rest)) fs).2 with
        | false => rfl
        | true => simp [hq] at hgood
      have hone := fault_resume me _ b rest f.kind f.k hkind hB1 hS1
        (by rw [← hB1.1.1]; exact hself1.own) (by rw [← hB1.1.1]; exact hself1.has) hnp hv1 hv2 hgb
      simp only [faultRun] at hone
      refine SameOutcome.trans ?_ hone
      -- the state the restarted process starts from satisfies the hypotheses again
      generalize hx : (faultBlock me (run me n (bs.take f.skip)).1 b f.kind f.k).1 = x at hgrest hone ⊢
      have hspec := faultBlock_spec me _ b f.kind f.k hkind hB1 hS1
        (by rw [← hB1.1.1]; exact hself1.own) (by rw [← hB1.1.1]; exact hself1.has) hnp hv1 hgb
      rw [hx] at hspec
      cases hspec with
      | completed _ hxe =>
        have hmk : x.reg.db.marker = some b.number := by
          obtain ⟨_, _, heq⟩ := applyBlock_ok_eq me _ b hbok
          rw [hxe, heq, commit_reg]; rfl
        rw [resumeList_next x b rest hmk hv2] at hgrest ⊢
        have hwfb : OpAddsWF (flatten [b]) ∧ OpAddsWF (flatten rest) := by
          have : flatten (b :: rest) = flatten [b] ++ flatten rest := by simp [flatten]
          rw [this] at hwf2; exact ⟨hwf2.prefix, hwf2.suffix⟩
        have hrun1 : run me (run me n (bs.take f.skip)).1 [b] = ((applyBlock me (run me n (bs.take f.skip)).1 b).1, true) := by
          simp [run, hbok]
        obtain ⟨hB2, hS2, hself2⟩ := run_state me _ [b] hB1 hS1 hself1 hwfb.1 (by rw [hrun1])
        rw [hrun1] at hB2 hS2 hself2
        simp only at hB2 hS2 hself2
        rw [← hxe] at hB2 hS2 hself2 hrest
        exact ih x rest hkinds' hB2 hS2 hself2 hwfb.2 hrest hgrest
      | restarted l1 r _ hreg hsx _ _ =>
        rw [resumeList_same x b rest _ (by rw [hreg]) hv1 hv2] at hgrest ⊢
        have hB2 : Boundary x := ⟨by rw [hreg]; exact hB1.1, hsx.2⟩
        have hok2 : (run me x (b :: rest)).2 = true := by
          rw [(run_reg me x (b :: rest)).2, hreg, ← (run_reg me _ (b :: rest)).2]; exact hok1
        exact ih x (b :: rest) hkinds' hB2 hsx (by rw [hreg]; exact hself1) hwf2 hok2 hgrest

end Ssv.Registry
