/-
C10 helper lemmas: what a correct operator's emission code guarantees about a message (`HonestConsensus`,
`HonestPartial`), and why such a message can only be accepted or IGNORED (never rejected) by a correct peer whose
per-signer state is fresh or consistent.   Core Lean only.
-/
import Ssv.Proofs.ValidationClauses

namespace Ssv.Validation
open Ssv

/-! ## reject-free checks -/

/-- a check that, when it fails, fails with an ignore-class error (and never panics) -/
def RejectFree (c : Chk) : Prop := ∀ e, c = .error e → ∃ t, e = .tag t ∧ t.reject = false

theorem rejectFree_ok : RejectFree (.ok ()) := by intro e h; cases h
theorem rejectFree_of_ok (c : Chk) (h : c = .ok ()) : RejectFree c := by subst h; exact rejectFree_ok

theorem rejectFree_rejectIf (c : Bool) (t : Tag) (ht : t.reject = false) : RejectFree (rejectIf c t) := by
  intro e he
  obtain ⟨h1, _⟩ := rejectIf_error c t e he
  exact ⟨t, h1, ht⟩

theorem rejectFree_firstFail (cs : List Chk) (h : ∀ c ∈ cs, RejectFree c) : RejectFree (firstFail cs) := by
  intro e he
  exact h _ (firstFail_error_mem cs e he) e rfl

theorem rejectIf_false (t : Tag) : rejectIf false t = .ok () := rfl

/-! ## what the emission code guarantees -/

/-- signer list of an honest consensus message: a single own id that is a committee member (the leader for a proposal),
    or — for a decided message — a strictly increasing list of committee members of quorum size up to committee size -/
def HonestSigners (sh : Share) (m : QMsg) : Prop :=
  (∃ s, m.signers = [s] ∧ s ≠ 0 ∧ s ∈ sh.committee ∧
      (m.mtype = Gen.val_ProposalMsgType → roundRobinProposer sh.committee m.height m.round = .ok s)) ∨
  (m.mtype = Gen.val_CommitMsgType ∧ 2 ≤ m.signers.length ∧ sh.quorum ≤ m.signers.length ∧
      m.signers.length ≤ sh.committee.length ∧ m.signers.Pairwise (· < ·) ∧ ∀ s ∈ m.signers, s ≠ 0 ∧ s ∈ sh.committee)

/-- a consensus message as a correct operator emits it (`HonestEmission` of DESIGN §7.10): valid enums, a role that runs
    consensus, well-formed non-zero signature, round ≥ 1, honest signer list, root = hash(full data), justifications that are
    decodable, placed only where allowed and satisfy the very predicate the validator calls, a payload within the size limit,
    and an envelope that is absent (before the fork) or verifies -/
structure HonestConsensus (i : Input) (sh : Share) (m : QMsg) : Prop where
  size : i.dataLen ≤ Gen.val_maxConsensusMsgSize
  role : validRole i.role = true
  consensusRole : (i.role == Gen.val_BNRoleValidatorRegistration || i.role == Gen.val_BNRoleVoluntaryExit) = false
  key : i.pkOk = true
  sig : m.sigLen = Gen.val_signatureSize ∧ m.sigZero = false
  mtype : validQBFTMsgType m.mtype = true
  round : 1 ≤ m.round
  signers : HonestSigners sh m
  root : ∀ h, m.fullData = some h → h = m.root
  just : validateJustifications m = .ok ()
  env : i.envSig = .none ∨ i.envSig = .valid

/-- what the peer must agree on with the sender for the reject-class rules that read the peer's own data: the proposer
    duty is in the peer's duty store (DESIGN §9: assumed consistent), and its per-signer entries neither hold a DIFFERENT
    proposal data for this very (slot, round) nor an exhausted duty count -/
structure PeerConsistent (x : Ctx) (st : State) (i : Input) (sh : Share) (m : QMsg) : Prop where
  duty : i.role = Gen.val_BNRoleProposer →
    x.duties.proposer.contains ((epochAtSlot x.cfg m.height).toNat, m.height, sh.index) = true
  entries : ∀ s ∈ m.signers, ∀ ss, st (i.vid, i.role, s) = some ss →
    validateDutyCount ss i.role (decide (m.height > ss.slot) && decide (epochAtSlot x.cfg m.height = epochAtSlot x.cfg ss.slot)) = .ok () ∧
    ((m.height = ss.slot ∧ m.round = ss.round) → hasFullData m = true → ss.proposalData.isSome = true → ss.proposalData = m.fullData)

theorem signatureFormat_ok (l : Nat) (z : Bool) (h : l = Gen.val_signatureSize ∧ z = false) : signatureFormat l z = .ok () := by
  obtain ⟨h1, h2⟩ := h
  subst h1; subst h2
  decide

theorem commonSigner_ok_of (sh : Share) (s : Nat) (h0 : s ≠ 0) (hm : s ∈ sh.committee) : commonSigner sh s = .ok () := by
  unfold commonSigner
  apply (firstFail_ok_iff _).mpr
  intro c hc
  simp only [List.mem_cons, List.mem_nil_iff, or_false] at hc
  rcases hc with h | h <;> subst h
  · exact (rejectIf_ok_iff _ _).mpr (by simp [h0])
  · exact (rejectIf_ok_iff _ _).mpr (by simp [hm])

theorem isSorted_of_pairwise (l : List Nat) (h : l.Pairwise (· < ·)) : isSorted l = true := by
  induction l with
  | nil => rfl
  | cons a rest ih =>
    cases rest with
    | nil => rfl
    | cons b r =>
      rw [List.pairwise_cons] at h
      unfold isSorted
      simp only [Bool.and_eq_true, decide_eq_true_eq]
      exact ⟨Nat.le_of_lt (h.1 b List.mem_cons_self), ih h.2⟩

theorem signerLoop_ok_of (sh : Share) (l : List Nat) : ∀ prev, (∀ s ∈ l, prev < s) → l.Pairwise (· < ·) →
    (∀ s ∈ l, s ≠ 0 ∧ s ∈ sh.committee) → signerLoop sh prev l = .ok () := by
  induction l with
  | nil => intro _ _ _ _; rfl
  | cons a rest ih =>
    intro prev hp hpw hmem
    rw [List.pairwise_cons] at hpw
    unfold signerLoop
    apply (firstFail_ok_iff _).mpr
    intro c hc
    simp only [List.mem_cons, List.mem_nil_iff, or_false] at hc
    rcases hc with h | h | h <;> subst h
    · exact commonSigner_ok_of sh a (hmem a List.mem_cons_self).1 (hmem a List.mem_cons_self).2
    · apply (rejectIf_ok_iff _ _).mpr
      have := hp a List.mem_cons_self
      simp; omega
    · exact ih a hpw.1 hpw.2 (fun s hs => hmem s (List.mem_cons_of_mem _ hs))

theorem three_ok (a b c : Chk) (ha : a = .ok ()) (hb : b = .ok ()) (hc : c = .ok ()) : firstFail [a, b, c] = .ok () := by
  subst ha; subst hb; subst hc; rfl

/-- an honest signer list passes `validConsensusSigners` -/
theorem validConsensusSigners_of_honest (sh : Share) (m : QMsg) (h : HonestSigners sh m) : validConsensusSigners sh m = .ok () := by
  unfold validConsensusSigners
  rcases h with ⟨s, hs, h0, hm, hlead⟩ | ⟨hc, hlen, hq, hn, hpw, hmem⟩
  · apply three_ok
    · unfold signersShape
      rw [hs]
      simp only
      by_cases hp : (m.mtype == Gen.val_ProposalMsgType) = true
      · simp only [hp, if_true]
        rw [hlead (beq_iff_eq.mp hp)]
        exact (rejectIf_ok_iff _ _).mpr (by simp)
      · have hp' : (m.mtype == Gen.val_ProposalMsgType) = false := by simpa using hp
        simp only [hp', Bool.false_eq_true, if_false]
        rfl
    · apply (rejectIf_ok_iff _ _).mpr
      rw [hs]; rfl
    · rw [hs]
      exact signerLoop_ok_of sh [s] 0 (by intro x hx; simp at hx; omega) (by simp) (by intro x hx; simp at hx; subst hx; exact ⟨h0, hm⟩)
  · apply three_ok
    · unfold signersShape
      match hsg : m.signers with
      | [] => rw [hsg] at hlen; simp at hlen
      | [a] => rw [hsg] at hlen; simp at hlen
      | a :: b :: r =>
        simp only
        have hcb : (m.mtype != Gen.val_CommitMsgType) = false := by simp [hc]
        simp only [hcb, Bool.false_eq_true, if_false]
        apply (rejectIf_ok_iff _ _).mpr
        rw [hsg] at hq hn
        have hq' : hasQuorum sh (a :: b :: r).length = true := by
          unfold hasQuorum; simpa using hq
        rw [hq']
        simp only [Bool.not_true, Bool.false_or, decide_eq_false_iff_not]
        omega
    · apply (rejectIf_ok_iff _ _).mpr
      rw [isSorted_of_pairwise _ hpw]; rfl
    · exact signerLoop_ok_of sh m.signers 0 (fun s hs => by have := (hmem s hs).1; omega) hpw hmem

/-! ## honest consensus messages are never rejected -/

theorem rejectFree_validateSlotTime (c : NetCfg) (slot role : Nat) (now : GoTime) : RejectFree (validateSlotTime c slot role now) := by
  unfold validateSlotTime
  apply rejectFree_firstFail
  intro c' hc'
  simp only [List.mem_cons, List.mem_nil_iff, or_false] at hc'
  rcases hc' with h | h <;> subst h <;> exact rejectFree_rejectIf _ _ rfl

theorem rejectFree_behavior (x : Ctx) (st : State) (i : Input) (sh : Share) (m : QMsg) (hh : HonestConsensus i sh m)
    (hp : PeerConsistent x st i sh m) (s : Nat) (hs : s ∈ m.signers) :
    RejectFree (signerBehaviorConsensus x.cfg sh i.role m (st (i.vid, i.role, s))) := by
  unfold signerBehaviorConsensus
  cases hst : st (i.vid, i.role, s) with
  | none => exact rejectFree_of_ok _ hh.just
  | some ss =>
    simp only
    obtain ⟨hd, hpd⟩ := hp.entries s hs ss hst
    apply rejectFree_firstFail
    intro c' hc'
    simp only [List.mem_cons, List.mem_nil_iff, or_false] at hc'
    rcases hc' with h | h | h | h | h | h <;> subst h
    · exact rejectFree_rejectIf _ _ rfl
    · exact rejectFree_rejectIf _ _ rfl
    · exact rejectFree_of_ok _ hd
    · -- duplicated proposal with different data: excluded by the consistent entry
      apply rejectFree_of_ok
      apply (rejectIf_ok_iff _ _).mpr
      by_cases hsame : (decide (m.height = ss.slot) && decide (m.round = ss.round)) = true
      · simp only [Bool.and_eq_true, decide_eq_true_eq] at hsame
        by_cases hf : hasFullData m = true
        · by_cases hsome : ss.proposalData.isSome = true
          · have := hpd hsame hf hsome
            simp [this]
          · simp [hsome]
        · simp [hf]
      · simp [hsame]
    · split
      · -- too many messages of the same type: ignore class
        unfold countsValidate
        split
        · exact rejectFree_rejectIf _ _ rfl
        · split
          · exact rejectFree_rejectIf _ _ rfl
          · split
            · apply rejectFree_firstFail
              intro c' hc'
              simp only [List.mem_cons, List.mem_nil_iff, or_false] at hc'
              rcases hc' with h | h <;> subst h <;> exact rejectFree_rejectIf _ _ rfl
            · split
              · exact rejectFree_rejectIf _ _ rfl
              · -- unknown type: excluded by the honest message type
                rename_i h0 h1 h2 h3
                exfalso
                have := (validQBFT_iff _).mp hh.mtype
                simp only [g_tProposal, g_tPrepare, g_tCommit, g_tRC, beq_iff_eq] at h0 h1 h2 h3
                omega
      · exact rejectFree_ok
    · exact rejectFree_of_ok _ hh.just

theorem rejectFree_beaconDuty (x : Ctx) (st : State) (i : Input) (sh : Share) (m : QMsg) (hp : PeerConsistent x st i sh m) :
    RejectFree (validateBeaconDuty x i.role m.height sh) := by
  unfold validateBeaconDuty
  split
  · rename_i hr
    apply rejectFree_firstFail
    intro c' hc'
    simp only [List.mem_cons, List.mem_nil_iff, or_false] at hc'
    rcases hc' with h | h <;> subst h
    · exact rejectFree_rejectIf _ _ rfl
    · have := hp.duty (beq_iff_eq.mp hr)
      rw [this]; exact rejectFree_ok
  · split
    · apply rejectFree_firstFail
      intro c' hc'
      simp only [List.mem_cons, List.mem_nil_iff, or_false] at hc'
      rcases hc' with h | h <;> subst h <;> exact rejectFree_rejectIf _ _ rfl
    · exact rejectFree_ok

theorem rejectFree_preChecks (i : Input) (hsize : i.dataLen ≤ Gen.val_maxMessageSize) (hrole : validRole i.role = true)
    (hkey : i.pkOk = true) : RejectFree (firstFail (preChecks i)) := by
  unfold preChecks
  apply rejectFree_firstFail
  intro c' hc'
  simp only [List.mem_cons, List.mem_nil_iff, or_false] at hc'
  rcases hc' with h | h | h | h | h | h <;> subst h
  · exact rejectFree_rejectIf _ _ rfl
  · exact rejectFree_of_ok _ ((rejectIf_ok_iff _ _).mpr ((blt_false_iff _ _).mpr hsize))
  · exact rejectFree_rejectIf _ _ rfl
  · exact rejectFree_of_ok _ ((rejectIf_ok_iff _ _).mpr (by simp [hrole]))
  · exact rejectFree_of_ok _ ((rejectIf_ok_iff _ _).mpr (by simp [hkey]))
  · split
    · intro e he; cases he; exact ⟨_, rfl, rfl⟩
    · apply rejectFree_firstFail
      intro c' hc'
      simp only [List.mem_cons, List.mem_nil_iff, or_false] at hc'
      rcases hc' with h | h | h <;> subst h <;> exact rejectFree_rejectIf _ _ rfl

theorem envSigCheck_ok_of (e : EnvSig) (h : e = .none ∨ e = .valid) : envSigCheck e = .ok () := by
  rcases h with h | h <;> subst h <;> rfl

theorem rejectFree_consensusChecks (x : Ctx) (st : State) (i : Input) (sh : Share) (m : QMsg)
    (hh : HonestConsensus i sh m) (hp : PeerConsistent x st i sh m) :
    ∀ c ∈ consensusChecks x st i sh m, RejectFree c := by
  intro c hc
  unfold consensusChecks at hc
  simp only [List.mem_cons, List.mem_nil_iff, or_false] at hc
  rcases hc with h | h | h | h | h | h | h | h | h | h | h | h <;> subst h
  · exact rejectFree_of_ok _ ((rejectIf_ok_iff _ _).mpr hh.consensusRole)
  · exact rejectFree_of_ok _ (signatureFormat_ok _ _ hh.sig)
  · exact rejectFree_of_ok _ ((rejectIf_ok_iff _ _).mpr (by simp [hh.mtype]))
  · exact rejectFree_of_ok _ ((rejectIf_ok_iff _ _).mpr (by have := hh.round; simp; omega))
  · obtain ⟨mx, hmx, _⟩ := maxRound_of_validRole i.role hh.role
    rw [hmx]; exact rejectFree_rejectIf _ _ rfl
  · exact rejectFree_validateSlotTime _ _ _ _
  · exact rejectFree_of_ok _ (validConsensusSigners_of_honest sh m hh.signers)
  · exact rejectFree_rejectIf _ _ rfl
  · apply rejectFree_of_ok
    apply (rejectIf_ok_iff _ _).mpr
    cases hfd : m.fullData with
    | none => rfl
    | some d => simp [hh.root d hfd]
  · exact rejectFree_beaconDuty x st i sh m hp
  · apply rejectFree_firstFail
    intro c' hc'
    obtain ⟨s, hs, rfl⟩ := List.mem_map.mp hc'
    exact rejectFree_behavior x st i sh m hh hp s hs
  · exact rejectFree_of_ok _ (envSigCheck_ok_of _ hh.env)

theorem ofChk_of_rejectFree (c : Chk) (h : RejectFree c) : (∀ t, Outcome.ofChk c ≠ .reject t) ∧ (∀ s, Outcome.ofChk c ≠ .panic s) := by
  cases c with
  | ok u => exact ⟨fun t h => (by cases h), fun s h => (by cases h)⟩
  | error e =>
    obtain ⟨t, he, ht⟩ := h e rfl
    subst he
    unfold Outcome.ofChk
    simp only [ht, Bool.false_eq_true, if_false]
    exact ⟨fun t h => (by cases h), fun s h => (by cases h)⟩

/-- a correct operator's consensus message is accepted or ignored — never rejected, never a panic — by a correct peer
    with a fresh-or-consistent state, whatever the peer's clock and whatever it knows about the validator -/
theorem honest_consensus_not_rejected (x : Ctx) (st : State) (i : Input) (sh : Share) (m : QMsg)
    (hb : i.body = .consensus m) (hs : i.share = some sh ∨ i.share = none)
    (hh : HonestConsensus i sh m) (hp : PeerConsistent x st i sh m) :
    (∀ t, (validate x st i).2 ≠ .reject t) ∧ (∀ s, (validate x st i).2 ≠ .panic s) := by
  have hsize : i.dataLen ≤ Gen.val_maxMessageSize := hh.size
  have hpre := rejectFree_preChecks i hsize hh.role hh.key
  have hcheck : RejectFree (check x st i) := by
    unfold check
    cases hpc : firstFail (preChecks i) with
    | error e =>
      simp only
      intro e' he'; cases he'
      exact hpre e hpc
    | ok u =>
      rcases hs with hs | hs
      · rw [hs]
        simp only
        rw [hb]
        simp only
        apply rejectFree_firstFail
        intro c hc
        rcases List.mem_cons.mp hc with h | h
        · subst h; exact rejectFree_of_ok _ ((rejectIf_ok_iff _ _).mpr ((blt_false_iff _ _).mpr hh.size))
        · exact rejectFree_consensusChecks x st i sh m hh hp c h
      · rw [hs]
        simp only
        intro e he; cases he; exact ⟨_, rfl, rfl⟩
  unfold validate
  split
  · rename_i e he
    rw [← he]
    exact ofChk_of_rejectFree _ hcheck
  · rename_i hok
    obtain ⟨st', hst'⟩ := update_ok_of_check_ok x st i hok
    rw [hst']
    exact ⟨fun t h => (by cases h), fun s h => (by cases h)⟩

/-! ## partial-signature messages of a correct operator -/

structure HonestPartial (i : Input) (sh : Share) (m : PMsg) : Prop where
  size : i.dataLen ≤ Gen.val_maxPartialSignatureMsgSize
  role : validRole i.role = true
  key : i.pkOk = true
  ptype : validPartialSigMsgType m.ptype = true
  typeRole : partialTypeMatchesRole m.ptype i.role = .ok true
  messages : validatePartialMessages sh m = .ok ()
  sig : m.sigLen = Gen.val_signatureSize ∧ m.sigZero = false
  env : i.envSig = .none ∨ i.envSig = .valid

def PeerConsistentPartial (x : Ctx) (st : State) (i : Input) (m : PMsg) : Prop :=
  ∀ ss, st (i.vid, i.role, m.signer) = some ss →
    validateDutyCount ss i.role (decide (m.slot > ss.slot) && decide (epochAtSlot x.cfg m.slot = epochAtSlot x.cfg ss.slot)) = .ok ()

theorem honest_partial_not_rejected (x : Ctx) (st : State) (i : Input) (sh : Share) (m : PMsg)
    (hb : i.body = .partialSig m) (hs : i.share = some sh ∨ i.share = none)
    (hh : HonestPartial i sh m) (hp : PeerConsistentPartial x st i m) :
    (∀ t, (validate x st i).2 ≠ .reject t) ∧ (∀ s, (validate x st i).2 ≠ .panic s) := by
  have hsize : i.dataLen ≤ Gen.val_maxMessageSize := Nat.le_trans hh.size (by decide)
  have hpre := rejectFree_preChecks i hsize hh.role hh.key
  have hcheck : RejectFree (check x st i) := by
    unfold check
    cases hpc : firstFail (preChecks i) with
    | error e =>
      simp only
      intro e' he'; cases he'
      exact hpre e hpc
    | ok u =>
      rcases hs with hs | hs
      · rw [hs]
        simp only
        rw [hb]
        simp only
        apply rejectFree_firstFail
        intro c hc
        rcases List.mem_cons.mp hc with h | h
        · subst h; exact rejectFree_of_ok _ ((rejectIf_ok_iff _ _).mpr ((blt_false_iff _ _).mpr hh.size))
        · unfold partialChecks at h
          simp only [List.mem_cons, List.mem_nil_iff, or_false] at h
          rcases h with h | h | h | h | h | h | h <;> subst h
          · exact rejectFree_of_ok _ ((rejectIf_ok_iff _ _).mpr (by simp [hh.ptype]))
          · rw [hh.typeRole]; exact rejectFree_of_ok _ rfl
          · exact rejectFree_rejectIf _ _ rfl
          · exact rejectFree_of_ok _ hh.messages
          · unfold signerBehaviorPartial
            cases hst : st (i.vid, i.role, m.signer) with
            | none => exact rejectFree_ok
            | some ss =>
              simp only
              apply rejectFree_firstFail
              intro c' hc'
              simp only [List.mem_cons, List.mem_nil_iff, or_false] at hc'
              rcases hc' with h | h | h <;> subst h
              · exact rejectFree_rejectIf _ _ rfl
              · exact rejectFree_of_ok _ (hp ss hst)
              · split
                · unfold countsValidatePartial
                  split
                  · exact rejectFree_rejectIf _ _ rfl
                  · split
                    · exact rejectFree_rejectIf _ _ rfl
                    · rename_i h1 h2
                      exfalso
                      rcases isPre_or_post_of_valid m.ptype hh.ptype with h | h
                      · exact h1 h
                      · apply h2; simp [h]
                · exact rejectFree_ok
          · exact rejectFree_of_ok _ (signatureFormat_ok _ _ hh.sig)
          · exact rejectFree_of_ok _ (envSigCheck_ok_of _ hh.env)
      · rw [hs]
        simp only
        intro e he; cases he; exact ⟨_, rfl, rfl⟩
  unfold validate
  split
  · rename_i e he
    rw [← he]
    exact ofChk_of_rejectFree _ hcheck
  · rename_i hok
    obtain ⟨st', hst'⟩ := update_ok_of_check_ok x st i hok
    rw [hst']
    exact ⟨fun t h => (by cases h), fun s h => (by cases h)⟩

/-! ## … and accepted by a fresh peer that knows the validator, inside the window -/

/-- what "the peer knows the validator and the message is timely" means for the ignore-class guards -/
structure TimelyKnown (x : Ctx) (i : Input) (sh : Share) (m : QMsg) : Prop where
  nonEmpty : i.dataLen ≠ 0
  domain : i.domainOk = true
  share : i.share = some sh
  active : sh.liquidated = false ∧ sh.hasMeta = true ∧ isAttesting sh i.wallEpoch = true
  roundMax : ∃ mx, maxRound i.role = .ok mx ∧ m.round ≤ mx
  slotTime : validateSlotTime x.cfg m.height i.role i.now = .ok ()
  roundWin : roundWindow x.cfg m i.now = .ok ()
  syncDuty : (i.role = Gen.val_BNRoleSyncCommittee ∨ i.role = Gen.val_BNRoleSyncCommitteeContribution) →
    x.duties.sync.contains ((periodAtEpoch x.cfg (epochAtSlot x.cfg m.height)).toNat, sh.index) = true
  propDuty : i.role = Gen.val_BNRoleProposer →
    x.duties.proposer.contains ((epochAtSlot x.cfg m.height).toNat, m.height, sh.index) = true

theorem honest_consensus_accepted (x : Ctx) (st : State) (i : Input) (sh : Share) (m : QMsg)
    (hb : i.body = .consensus m) (hh : HonestConsensus i sh m) (ht : TimelyKnown x i sh m)
    (hfresh : ∀ s ∈ m.signers, st (i.vid, i.role, s) = none) : (validate x st i).2 = .accept := by
  apply (validate_accept_iff x st i).mpr
  have hpre : firstFail (preChecks i) = .ok () := by
    unfold preChecks
    apply (firstFail_ok_iff _).mpr
    intro c hc
    simp only [List.mem_cons, List.mem_nil_iff, or_false] at hc
    rcases hc with h | h | h | h | h | h <;> subst h
    · exact (rejectIf_ok_iff _ _).mpr (by simp [ht.nonEmpty])
    · exact (rejectIf_ok_iff _ _).mpr ((blt_false_iff _ _).mpr hh.size)
    · exact (rejectIf_ok_iff _ _).mpr (by simp [ht.domain])
    · exact (rejectIf_ok_iff _ _).mpr (by simp [hh.role])
    · exact (rejectIf_ok_iff _ _).mpr (by simp [hh.key])
    · rw [ht.share]
      simp only
      apply (firstFail_ok_iff _).mpr
      intro c hc
      simp only [List.mem_cons, List.mem_nil_iff, or_false] at hc
      obtain ⟨a1, a2, a3⟩ := ht.active
      rcases hc with h | h | h <;> subst h
      · exact (rejectIf_ok_iff _ _).mpr a1
      · exact (rejectIf_ok_iff _ _).mpr (by simp [a2])
      · exact (rejectIf_ok_iff _ _).mpr (by simp [a3])
  unfold check
  rw [hpre, ht.share]
  simp only
  rw [hb]
  simp only
  apply (firstFail_ok_iff _).mpr
  intro c hc
  rcases List.mem_cons.mp hc with h | h
  · subst h; exact (rejectIf_ok_iff _ _).mpr ((blt_false_iff _ _).mpr hh.size)
  · unfold consensusChecks at h
    simp only [List.mem_cons, List.mem_nil_iff, or_false] at h
    rcases h with h | h | h | h | h | h | h | h | h | h | h | h <;> subst h
    · exact (rejectIf_ok_iff _ _).mpr hh.consensusRole
    · exact signatureFormat_ok _ _ hh.sig
    · exact (rejectIf_ok_iff _ _).mpr (by simp [hh.mtype])
    · exact (rejectIf_ok_iff _ _).mpr (by have := hh.round; simp; omega)
    · obtain ⟨mx, hmx, hle⟩ := ht.roundMax
      rw [hmx]
      exact (rejectIf_ok_iff _ _).mpr (by simp; omega)
    · exact ht.slotTime
    · exact validConsensusSigners_of_honest sh m hh.signers
    · exact ht.roundWin
    · apply (rejectIf_ok_iff _ _).mpr
      cases hfd : m.fullData with
      | none => rfl
      | some d => simp [hh.root d hfd]
    · unfold validateBeaconDuty
      obtain ⟨_, a2, _⟩ := ht.active
      split
      · rename_i hr
        apply (firstFail_ok_iff _).mpr
        intro c hc
        simp only [List.mem_cons, List.mem_nil_iff, or_false] at hc
        rcases hc with h | h <;> subst h
        · exact (rejectIf_ok_iff _ _).mpr (by simp [a2])
        · exact (rejectIf_ok_iff _ _).mpr (by rw [ht.propDuty (beq_iff_eq.mp hr)]; rfl)
      · split
        · rename_i _ hr
          apply (firstFail_ok_iff _).mpr
          intro c hc
          simp only [List.mem_cons, List.mem_nil_iff, or_false] at hc
          rcases hc with h | h <;> subst h
          · exact (rejectIf_ok_iff _ _).mpr (by simp [a2])
          · apply (rejectIf_ok_iff _ _).mpr
            have : i.role = Gen.val_BNRoleSyncCommittee ∨ i.role = Gen.val_BNRoleSyncCommitteeContribution := by
              simp only [Bool.or_eq_true, beq_iff_eq] at hr; exact hr
            rw [ht.syncDuty this]; rfl
        · rfl
    · apply (firstFail_ok_iff _).mpr
      intro c hc
      obtain ⟨s, hs, rfl⟩ := List.mem_map.mp hc
      rw [hfresh s hs]
      exact hh.just
    · exact envSigCheck_ok_of _ hh.env

end Ssv.Validation
