/-
Facts about the arithmetic kernels TRANSLATED from the Go source on every run (Ssv/Gen/Kernels.lean).
If the Go arithmetic changes (e.g. `f*2+1` → `f*2`) these proofs stop checking.   Core Lean only.
-/
import Ssv.Gen.Kernels

namespace Ssv.Kernels
open Ssv.Gen

/-- committee sizes accepted by `ValidCommitteeSize` are exactly 4, 7, 10, 13 -/
theorem valid_sizes (n : Int) : k_ValidCommitteeSize n = true ↔ (n = 4 ∨ n = 7 ∨ n = 10 ∨ n = 13) := by
  unfold k_ValidCommitteeSize
  simp only [Bool.and_eq_true, decide_eq_true_eq]
  constructor
  · rintro ⟨⟨h1, h2⟩, h3⟩
    by_cases hn : 0 ≤ n - 1
    · rw [Int.tdiv_eq_ediv_of_nonneg hn] at h2 h3
      rw [Int.tmod_eq_emod_of_nonneg hn] at h1
      omega
    · have h0 : 0 ≤ (-(n - 1)).tdiv 3 := Int.tdiv_nonneg (by omega) (by decide)
      rw [Int.neg_tdiv] at h0
      omega
  · rintro (h | h | h | h) <;> subst h <;> decide

/-- for every valid committee size n = 3f+1 the kernel yields quorum 2f+1 and partial quorum f+1 -/
theorem quorum_values (n : Int) (h : k_ValidCommitteeSize n = true) :
    ∃ f : Int, 1 ≤ f ∧ f ≤ 4 ∧ n = 3 * f + 1 ∧ k_ComputeQuorumAndPartialQuorum n = (2 * f + 1, f + 1) := by
  rcases (valid_sizes n).1 h with h | h | h | h <;> subst h
  · exact ⟨1, by decide, by decide, by decide, by decide⟩
  · exact ⟨2, by decide, by decide, by decide, by decide⟩
  · exact ⟨3, by decide, by decide, by decide, by decide⟩
  · exact ⟨4, by decide, by decide, by decide, by decide⟩

/-- quorum intersection arithmetic: two quorums overlap in more than f members, a quorum and a
    partial quorum overlap, and a quorum never fits into the f faulty members -/
theorem quorum_intersection (n : Int) (h : k_ValidCommitteeSize n = true) :
    let q := (k_ComputeQuorumAndPartialQuorum n).1
    let p := (k_ComputeQuorumAndPartialQuorum n).2
    let f := (n - 1) / 3
    2 * q - n ≥ f + 1 ∧ q + p > n ∧ q > f ∧ q ≤ n ∧ p = f + 1 := by
  rcases (valid_sizes n).1 h with h | h | h | h <;> subst h <;> decide

/-- the round-robin leader index is a valid committee index whenever the round is at least 1 and
    height and round fit a signed 64-bit integer (what message validation guarantees before it computes it) -/
theorem leader_index_in_range (round height n : Int) (hn : 0 < n)
    (hr : 1 ≤ round) (hr' : round < 9223372036854775808 - n)
    (hh0 : 0 ≤ height) (hh : height < 9223372036854775808) :
    0 ≤ k_RoundRobinProposerIndex round height n ∧ k_RoundRobinProposerIndex round height n < n := by
  unfold k_RoundRobinProposerIndex
  have e1 : toInt64 height = height := toInt64_of_lt height hh0 hh
  have e2 : toInt64 round = round := toInt64_of_lt round (by omega) (by omega)
  simp only [e1, e2]
  have hm0 : 0 ≤ Int.tmod height n := Int.tmod_nonneg _ hh0
  have hm1 : Int.tmod height n < n := Int.tmod_lt_of_pos _ hn
  refine ⟨Int.tmod_nonneg _ ?_, Int.tmod_lt_of_pos _ hn⟩
  split <;> omega

/-- the defect repaired by `fix: message validation must not compute the round leader …`:
    for round 0 and a height that is a multiple of the committee size the index is −1 -/
theorem leader_index_round0_negative : k_RoundRobinProposerIndex 0 8 4 = -1 := by decide

/-- … and for a height beyond MaxInt64 it is negative even for round 1 -/
theorem leader_index_huge_height_negative : k_RoundRobinProposerIndex 1 18446744073709551615 4 = -1 := by decide

end Ssv.Kernels
