/- Helper lemmas for C05 (partial-signature collection). Core Lean only. -/
import Ssv.Model.PartialSig

namespace Ssv.PartialSig

/-! ### counting with `List.filter` -/

theorem filter_len_mono (l : List Nat) (p p' : Nat → Bool) (h : ∀ x ∈ l, p x = true → p' x = true) :
    (l.filter p).length ≤ (l.filter p').length := by
  induction l with
  | nil => simp
  | cons a t ih =>
    have iht := ih (fun x hx => h x (List.mem_cons_of_mem a hx))
    have ha := h a List.mem_cons_self
    simp only [List.filter_cons]
    by_cases hp : p a = true
    · simp [hp, ha hp]; omega
    · by_cases hp' : p' a = true
      · simp [hp, hp']; omega
      · simp [hp, hp']; omega

theorem filter_len_eq (l : List Nat) (p p' : Nat → Bool) (h : ∀ x ∈ l, p x = p' x) :
    (l.filter p).length = (l.filter p').length := by
  apply Nat.le_antisymm
  · exact filter_len_mono l p p' (fun x hx hp => by rw [← h x hx]; exact hp)
  · exact filter_len_mono l p' p (fun x hx hp => by rw [h x hx]; exact hp)

theorem filter_len_le_succ (l : List Nat) (hnd : l.Nodup) (s : Nat) (p p' : Nat → Bool)
    (h : ∀ x ∈ l, x ≠ s → p' x = p x) : (l.filter p').length ≤ (l.filter p).length + 1 := by
  induction l with
  | nil => simp
  | cons a t ih =>
    rw [List.nodup_cons] at hnd
    by_cases has : a = s
    · -- the tail does not contain s: the two filters agree on it
      have ht : (t.filter p').length = (t.filter p).length := by
        apply filter_len_eq
        intro x hx
        apply h x (List.mem_cons_of_mem a hx)
        intro hxs; subst hxs; subst has; exact hnd.1 hx
      simp only [List.filter_cons]
      by_cases h1 : p' a = true <;> by_cases h2 : p a = true <;> simp [h1, h2] <;> omega
    · have iht := ih hnd.2 (fun x hx => h x (List.mem_cons_of_mem a hx))
      have ha := h a List.mem_cons_self has
      simp only [List.filter_cons, ha]
      by_cases h2 : p a = true <;> simp [h2] <;> omega

theorem filter_len_lt (l : List Nat) (p p' : Nat → Bool) (h : ∀ x ∈ l, p' x = true → p x = true)
    (x : Nat) (hx : x ∈ l) (hpx : p x = true) (hnx : p' x = false) :
    (l.filter p').length < (l.filter p).length := by
  induction l with
  | nil => cases hx
  | cons a t ih =>
    simp only [List.filter_cons]
    have hmono := filter_len_mono t p' p (fun y hy => h y (List.mem_cons_of_mem a hy))
    rcases List.mem_cons.1 hx with hxa | hxt
    · subst hxa
      simp [hpx, hnx]; omega
    · have iht := ih (fun y hy => h y (List.mem_cons_of_mem a hy)) hxt
      have ha := h a List.mem_cons_self
      by_cases h1 : p' a = true
      · simp [h1, ha h1]; omega
      · by_cases h2 : p a = true <;> simp [h1, h2] <;> omega

/-- a duplicate-free list of elements of `l` satisfying `p` is no longer than `l.filter p` -/
theorem nodup_len_le_filter (G l : List Nat) (p : Nat → Bool) (hG : G.Nodup)
    (h : ∀ s ∈ G, s ∈ l ∧ p s = true) : G.length ≤ (l.filter p).length := by
  induction l generalizing G with
  | nil =>
    cases G with
    | nil => simp
    | cons g _ => exact absurd (h g List.mem_cons_self).1 (by simp)
  | cons a t ih =>
    -- remove `a` from G
    have hGe : (G.erase a).Nodup := hG.erase a
    have hsub : ∀ s ∈ G.erase a, s ∈ t ∧ p s = true := by
      intro s hs
      have hsG : s ∈ G := List.mem_of_mem_erase hs
      have hne : s ≠ a := by
        intro e; subst e
        exact (List.Nodup.mem_erase_iff hG).1 hs |>.1 rfl
      have := h s hsG
      rcases List.mem_cons.1 this.1 with e | ht
      · exact absurd e hne
      · exact ⟨ht, this.2⟩
    have ih' := ih (G.erase a) hGe hsub
    simp only [List.filter_cons]
    by_cases haG : a ∈ G
    · have hlen : (G.erase a).length = G.length - 1 := List.length_erase_of_mem haG
      have hpos : 0 < G.length := List.length_pos_of_mem haG
      have hpa := (h a haG).2
      simp [hpa]; omega
    · have : G.erase a = G := List.erase_of_not_mem haG
      rw [this] at ih'
      by_cases hpa : p a = true <;> simp [hpa] <;> omega

/-! ### the container only ever gains correct shares -/

/-- every correct stored share of `c` is still stored (and correct) in `c'` -/
def GoodLE (c c' : Container) : Prop := ∀ r s, c.get r s = some true → c'.get r s = some true

theorem GoodLE.refl (c : Container) : GoodLE c c := fun _ _ h => h
theorem GoodLE.trans {a b c : Container} (h1 : GoodLE a b) (h2 : GoodLE b c) : GoodLE a c :=
  fun r s h => h2 r s (h1 r s h)

theorem setSig_get (c : Container) (r s : Nat) (v : Option Bool) (r' s' : Nat) :
    (setSig c r s v).get r' s' = if r' = r ∧ s' = s then v else c.get r' s' := rfl

theorem fallback_get (c : Container) (r r' s' : Nat) :
    (fallback c r).get r' s' = match c.get r' s' with
      | some false => if r' = r then none else some false
      | v => v := rfl

theorem goodLE_setSig (c : Container) (r s : Nat) (v : Option Bool) (h : c.get r s ≠ some true) :
    GoodLE c (setSig c r s v) := by
  intro r' s' hg
  rw [setSig_get]
  by_cases e : r' = r ∧ s' = s
  · obtain ⟨e1, e2⟩ := e; subst e1; subst e2; exact absurd hg h
  · simp [e, hg]

theorem goodLE_addSignature (c : Container) (r s : Nat) (g : Bool) : GoodLE c (addSignature c r s g) := by
  unfold addSignature
  split
  · next h => exact goodLE_setSig c r s _ (by rw [h]; simp)
  · exact GoodLE.refl c

theorem goodLE_resolveDuplicate (c : Container) (r s : Nat) (g : Bool) : GoodLE c (resolveDuplicate c r s g) := by
  unfold resolveDuplicate
  split
  · exact GoodLE.refl c
  · next h =>
    have hne : c.get r s ≠ some true := fun e => h e
    split
    · exact goodLE_setSig c r s _ hne
    · exact goodLE_setSig c r s _ hne

theorem goodLE_processOne (q : Nat) (cm : List Nat) (c : Container) (s r : Nat) (g : Bool) :
    GoodLE c (processOne q cm c s r g).1 := by
  simp only [processOne]
  split
  · exact goodLE_resolveDuplicate c r s g
  · exact goodLE_addSignature c r s g

theorem goodLE_fallback (c : Container) (r : Nat) : GoodLE c (fallback c r) := by
  intro r' s' h
  rw [fallback_get, h]

theorem goodLE_foldl_fallback (rs : List Nat) (c : Container) : GoodLE c (rs.foldl fallback c) := by
  induction rs generalizing c with
  | nil => exact GoodLE.refl c
  | cons a t ih => exact GoodLE.trans (goodLE_fallback c a) (ih (fallback c a))

/-- number of correct stored shares of a root -/
def goodCount (cm : List Nat) (c : Container) (r : Nat) : Nat := (cm.filter fun s => c.get r s == some true).length

theorem goodCount_mono (cm : List Nat) {c c' : Container} (h : GoodLE c c') (r : Nat) :
    goodCount cm c r ≤ goodCount cm c' r := by
  apply filter_len_mono
  intro x _ hx
  simp only [beq_iff_eq] at hx ⊢
  exact h r x hx

theorem goodCount_le_count (cm : List Nat) (c : Container) (r : Nat) : goodCount cm c r ≤ count cm c r := by
  apply filter_len_mono
  intro x _ hx
  simp only [beq_iff_eq] at hx
  simp [hx]

theorem hasQuorum_of_goodCount (q : Nat) (cm : List Nat) (c : Container) (r : Nat) (h : q ≤ goodCount cm c r) :
    hasQuorum q cm c r = true := by
  have := goodCount_le_count cm c r
  simp only [hasQuorum, decide_eq_true_eq]; omega

theorem allGood_iff (cm : List Nat) (c : Container) (r : Nat) :
    allGood cm c r = true ↔ ∀ s ∈ cm, (c.get r s).isSome = true → c.get r s = some true := by
  simp only [allGood, signersOf, List.all_eq_true, List.mem_filter, beq_iff_eq, and_imp]

theorem goodCount_eq_count_of_allGood (cm : List Nat) (c : Container) (r : Nat) (h : allGood cm c r = true) :
    goodCount cm c r = count cm c r := by
  apply filter_len_eq
  intro x hx
  have := (allGood_iff cm c r).1 h x hx
  by_cases hs : (c.get r x).isSome = true
  · simp [this hs]
  · have : c.get r x = none := by
      cases hc : c.get r x with
      | none => rfl
      | some v => rw [hc] at hs; simp at hs
    simp [this]

theorem goodCount_of_reconstructOK (q : Nat) (cm : List Nat) (c : Container) (r : Nat)
    (h : reconstructOK q cm c r = true) : q ≤ goodCount cm c r := by
  simp only [reconstructOK, Bool.and_eq_true, decide_eq_true_eq] at h
  rw [goodCount_eq_count_of_allGood cm c r h.1]; exact h.2

/-! ### `basePartialSigMsgProcessing` -/

theorem processEntries_goodLE (q : Nat) (cm : List Nat) (s : Nat) (es : List (Nat × Bool)) (c : Container) (acc : List Nat) :
    GoodLE c (processEntries q cm s c es acc).1 := by
  induction es generalizing c acc with
  | nil => exact GoodLE.refl c
  | cons e t ih =>
    obtain ⟨r, g⟩ := e
    simp only [processEntries]
    exact GoodLE.trans (goodLE_processOne q cm c s r g) (ih _ _)

/-- the reported roots extend the accumulator by a sublist of the message's roots -/
theorem processEntries_edges (q : Nat) (cm : List Nat) (s : Nat) (es : List (Nat × Bool)) (c : Container) (acc : List Nat) :
    ∃ new, (processEntries q cm s c es acc).2 = acc ++ new ∧ new.Sublist (es.map (·.1)) := by
  induction es generalizing c acc with
  | nil => exact ⟨[], by simp [processEntries], List.Sublist.refl _⟩
  | cons e t ih =>
    obtain ⟨r, g⟩ := e
    simp only [processEntries]
    by_cases hedge : (processOne q cm c s r g).2 = true
    · obtain ⟨new, h1, h2⟩ := ih (processOne q cm c s r g).1 (acc ++ [r])
      refine ⟨r :: new, ?_, ?_⟩
      · simp only [hedge, if_true]; rw [h1]; simp
      · simpa using h2.cons_cons r
    · obtain ⟨new, h1, h2⟩ := ih (processOne q cm c s r g).1 acc
      refine ⟨new, ?_, ?_⟩
      · simp only [hedge]; exact h1
      · simpa using h2.cons r

/-- a root that already holds a quorum of correct shares is never reported again -/
theorem processEntries_no_edge (q : Nat) (cm : List Nat) (s : Nat) (es : List (Nat × Bool)) (c : Container) (acc : List Nat)
    (r0 : Nat) (h : q ≤ goodCount cm c r0) (hacc : r0 ∉ acc) : r0 ∉ (processEntries q cm s c es acc).2 := by
  induction es generalizing c acc with
  | nil => simpa [processEntries] using hacc
  | cons e t ih =>
    obtain ⟨r, g⟩ := e
    simp only [processEntries]
    have hle := goodLE_processOne q cm c s r g
    have h' : q ≤ goodCount cm (processOne q cm c s r g).1 r0 := Nat.le_trans h (goodCount_mono cm hle r0)
    apply ih _ _ h'
    by_cases hedge : (processOne q cm c s r g).2 = true
    · simp only [hedge, if_true, List.mem_append, List.mem_singleton, not_or]
      refine ⟨hacc, ?_⟩
      intro e; subst e
      have hq := hasQuorum_of_goodCount q cm c r0 h
      simp [processOne, hq] at hedge
    · simpa [hedge] using hacc

/-! ### the quorum branch -/

/-- what verify-before-use guarantees of a submission: every share it was reconstructed from is correct and there are at least `q` of them -/
def SubOK (q : Nat) (sub : Sub) : Prop :=
  (sub.shares.all fun p => p.2 == some true) = true ∧ q ≤ sub.shares.length

theorem subOK_of_reconstructOK (q : Nat) (cm : List Nat) (c : Container) (r : Nat) (h : reconstructOK q cm c r = true) :
    SubOK q ⟨r, sharesOf cm c r⟩ := by
  simp only [reconstructOK, Bool.and_eq_true, decide_eq_true_eq] at h
  refine ⟨?_, ?_⟩
  · simp only [sharesOf, List.all_map]
    simpa [allGood] using h.1
  · simpa [sharesOf, count] using h.2

/-- facts about the loop `for _, root := range roots`: the container only gains correct shares, and every
    submission made is for a root of the list, reconstructed successfully from the (unchanged) container `c` -/
theorem handleRoots_spec (q : Nat) (cm : List Nat) (allRoots : List Nat) (submitIf : Nat → Bool)
    (c : Container) (rs : List Nat) (acc : List Sub) :
    GoodLE c (handleRoots q cm allRoots submitIf c rs acc).1 ∧
    ∃ new : List Sub, (handleRoots q cm allRoots submitIf c rs acc).2.1 = acc ++ new ∧
      (new.map (·.root)).Sublist rs ∧
      (∀ sub ∈ new, reconstructOK q cm c sub.root = true ∧ sub.shares = sharesOf cm c sub.root) ∧
      ((handleRoots q cm allRoots submitIf c rs acc).2.2 = true →
        (handleRoots q cm allRoots submitIf c rs acc).1 = c ∧ ∀ r ∈ rs, reconstructOK q cm c r = true ∧ (submitIf r = true → r ∈ new.map (·.root))) := by
  induction rs generalizing acc with
  | nil =>
    refine ⟨GoodLE.refl c, [], by simp [handleRoots], by simp, by simp, ?_⟩
    intro _; exact ⟨rfl, by simp⟩
  | cons r t ih =>
    simp only [handleRoots]
    by_cases hok : reconstructOK q cm c r = true
    · simp only [hok, if_true]
      by_cases hs : submitIf r = true
      · obtain ⟨hle, new, h1, h2, h3, h4⟩ := ih (acc ++ [⟨r, sharesOf cm c r⟩])
        simp only [hs, if_true]
        refine ⟨hle, ⟨r, sharesOf cm c r⟩ :: new, ?_, ?_, ?_, ?_⟩
        · rw [h1]; simp
        · simpa using h2.cons_cons r
        · intro sub hsub
          rcases List.mem_cons.1 hsub with e | hm
          · subst e; exact ⟨hok, rfl⟩
          · exact h3 sub hm
        · intro hd
          obtain ⟨e, hall⟩ := h4 hd
          refine ⟨e, ?_⟩
          intro x hx
          rcases List.mem_cons.1 hx with e' | hm
          · subst e'; exact ⟨hok, fun _ => by simp⟩
          · obtain ⟨a, b⟩ := hall x hm
            exact ⟨a, fun hsx => by simp only [List.map_cons, List.mem_cons]; exact Or.inr (b hsx)⟩
      · obtain ⟨hle, new, h1, h2, h3, h4⟩ := ih acc
        have hs' : submitIf r = false := by simpa using hs
        simp only [hs', Bool.false_eq_true, if_false]
        refine ⟨hle, new, h1, h2.cons r, h3, ?_⟩
        intro hd
        obtain ⟨e, hall⟩ := h4 hd
        refine ⟨e, ?_⟩
        intro x hx
        rcases List.mem_cons.1 hx with e' | hm
        · subst e'; exact ⟨hok, fun hsx => by rw [hs'] at hsx; cases hsx⟩
        · exact hall x hm
    · have hok' : reconstructOK q cm c r = false := by simpa using hok
      simp only [hok', Bool.false_eq_true, if_false]
      refine ⟨goodLE_foldl_fallback allRoots c, [], by simp, by simp, by simp, ?_⟩
      intro h; cases h

/-! ### one message -/

theorem validate_none (st : St) (m : Msg) (h : validate st m = none) :
    st.finished = false ∧ st.decided = true ∧ validateForm st.cm st.expected m = none := by
  unfold validate at h
  by_cases hf : st.finished = true
  · simp [hf] at h
  · by_cases hd : st.decided = true
    · simp [hf, hd] at h; exact ⟨by simpa using hf, hd, h⟩
    · simp [hf, hd] at h

theorem validateForm_none (cm expected : List Nat) (m : Msg) (h : validateForm cm expected m = none) :
    m.signer ≠ 0 ∧ (∀ e ∈ m.entries, e.1 = m.signer) ∧ m.slotOk = true ∧ m.signer ∈ cm ∧
    expected.length = m.entries.length ∧ (m.entries.map (·.2.1)).Perm expected := by
  unfold validateForm at h
  by_cases h1 : m.signer = 0
  · simp [h1] at h
  · by_cases h2 : (m.entries.any fun e => e.1 != m.signer) = true
    · simp [h1, h2] at h
    · by_cases h3 : m.entries.isEmpty = true
      · simp [h1, h2, h3] at h
      · by_cases h4 : m.slotOk = true
        · by_cases h5 : m.signer ∈ cm
          · by_cases h6 : expected.length = m.entries.length
            · by_cases h7 : (m.entries.map (·.2.1)).isPerm expected = true
              · refine ⟨h1, ?_, h4, h5, h6, List.isPerm_iff.1 h7⟩
                intro e he
                simp only [List.any_eq_true, bne_iff_ne, ne_eq, not_exists, not_and, Decidable.not_not] at h2
                exact h2 e he
              · simp [h1, h2, h3, h4, h5, h6, h7] at h
            · simp [h1, h2, h3, h4, h5, h6] at h
          · simp [h1, h2, h3, h4, h5] at h
        · simp [h1, h2, h3, h4] at h

/-- the parameters of the duty never change -/
theorem step_params (st : St) (m : Msg) :
    (step st m).1.q = st.q ∧ (step st m).1.cm = st.cm ∧ (step st m).1.expected = st.expected ∧
    (step st m).1.style = st.style ∧ (step st m).1.decided = st.decided := by
  unfold step
  repeat' split
  all_goals simp
  all_goals (split <;> simp)

/-- main per-message fact: the container only gains correct shares; every submission of this message is reconstructed
    from correct shares only (at least `q`), is over an expected root that held no quorum of correct shares before, and
    holds one afterwards; no root is submitted twice by one message -/
theorem step_facts (st : St) (m : Msg) :
    GoodLE st.c (step st m).1.c ∧
    (∀ sub ∈ subsOf (step st m).2, SubOK st.q sub ∧ sub.root ∈ st.expected ∧
        st.q ≤ goodCount st.cm (step st m).1.c sub.root ∧ ¬ st.q ≤ goodCount st.cm st.c sub.root) ∧
    (st.expected.Nodup → ((subsOf (step st m).2).map (·.root)).Nodup) := by
  unfold step
  split
  · exact ⟨GoodLE.refl _, by simp [subsOf], by simp [subsOf]⟩
  · next hval =>
    obtain ⟨_, _, hform⟩ := validate_none st m hval
    obtain ⟨_, _, _, _, _, hperm⟩ := validateForm_none _ _ m hform
    have hes : ((m.entries.map fun e => (e.2.1, e.2.2)).map (·.1)) = m.entries.map (·.2.1) := by
      simp [List.map_map, Function.comp_def]
    have hle1 := processEntries_goodLE st.q st.cm m.signer (m.entries.map fun e => (e.2.1, e.2.2)) st.c []
    obtain ⟨new, hnew, hsub⟩ := processEntries_edges st.q st.cm m.signer (m.entries.map fun e => (e.2.1, e.2.2)) st.c []
    have hnoedge := fun r0 h => processEntries_no_edge st.q st.cm m.signer (m.entries.map fun e => (e.2.1, e.2.2)) st.c [] r0 h (by simp)
    rw [hes] at hsub
    have hnd : st.expected.Nodup → (m.entries.map (·.2.1)).Nodup := fun hexp => hperm.nodup_iff.2 hexp
    generalize hpe : processEntries st.q st.cm m.signer st.c (m.entries.map fun e => (e.2.1, e.2.2)) [] = pe at hle1 hnew hnoedge ⊢
    obtain ⟨c1, roots⟩ := pe
    simp only [List.nil_append] at hnew
    simp only at hle1 hnew hnoedge ⊢
    subst hnew
    have hrnd : st.expected.Nodup → roots.Nodup := fun hexp => hsub.nodup (hnd hexp)
    have hrexp : ∀ r ∈ roots, r ∈ st.expected := fun r hr => hperm.mem_iff.1 (hsub.subset hr)
    have hrno : ∀ r ∈ roots, ¬ st.q ≤ goodCount st.cm st.c r := fun r hr hq => hnoedge r hq hr
    split
    · exact ⟨hle1, by simp [subsOf], by simp [subsOf]⟩
    · split
      · -- style `first`
        split
        · exact ⟨hle1, by simp [subsOf], by simp [subsOf]⟩
        · next _ r _ _ =>
          split
          · next hok =>
            refine ⟨hle1, ?_, by simp [subsOf]⟩
            intro sub hsubm
            simp only [subsOf, List.mem_singleton] at hsubm
            subst hsubm
            exact ⟨subOK_of_reconstructOK _ _ _ _ hok, hrexp r (by simp), goodCount_of_reconstructOK _ _ _ _ hok, hrno r (by simp)⟩
          · exact ⟨GoodLE.trans hle1 (goodLE_fallback c1 r), by simp [subsOf], by simp [subsOf]⟩
      · -- styles `loop`, `loopMatch`
        obtain ⟨hle2, new2, h1, h2, h3, _⟩ := handleRoots_spec st.q st.cm roots
          (fun r => st.style == Style.loop || st.expected.contains r) c1 roots []
        generalize hhr : handleRoots st.q st.cm roots (fun r => st.style == Style.loop || st.expected.contains r) c1 roots [] = hr at hle2 h1 ⊢
        obtain ⟨c2, subs, done⟩ := hr
        simp only [List.nil_append] at h1
        simp only at hle2 h1 ⊢
        subst h1
        have key : (∀ sub ∈ subs, SubOK st.q sub ∧ sub.root ∈ st.expected ∧
            st.q ≤ goodCount st.cm c2 sub.root ∧ ¬ st.q ≤ goodCount st.cm st.c sub.root) := by
          intro sub hm
          obtain ⟨hok, hsh⟩ := h3 sub hm
          have hrm : sub.root ∈ roots := h2.subset (List.mem_map_of_mem hm)
          refine ⟨?_, hrexp _ hrm, Nat.le_trans (goodCount_of_reconstructOK _ _ _ _ hok) (goodCount_mono _ hle2 _), hrno _ hrm⟩
          have := subOK_of_reconstructOK _ _ _ _ hok
          cases sub with
          | mk r sh => simp only at hsh; subst hsh; exact this
        have knd : st.expected.Nodup → (subs.map (·.root)).Nodup := fun hexp => h2.nodup (hrnd hexp)
        split
        · exact ⟨GoodLE.trans hle1 hle2, by simpa [subsOf] using key, by simpa [subsOf] using knd⟩
        · exact ⟨GoodLE.trans hle1 hle2, by simpa [subsOf] using key, by simpa [subsOf] using knd⟩

/-! ### message sequences -/

theorem run_params (st : St) (ms : List Msg) :
    (run st ms).1.q = st.q ∧ (run st ms).1.cm = st.cm ∧ (run st ms).1.expected = st.expected ∧
    (run st ms).1.style = st.style := by
  induction ms generalizing st with
  | nil => simp [run]
  | cons m t ih =>
    simp only [run]
    obtain ⟨a, b, c, d, _⟩ := step_params st m
    obtain ⟨a', b', c', d'⟩ := ih (step st m).1
    exact ⟨a'.trans a, b'.trans b, c'.trans c, d'.trans d⟩

theorem run_safety (st : St) (ms : List Msg) :
    ∀ sub ∈ (run st ms).2, SubOK st.q sub ∧ sub.root ∈ st.expected := by
  induction ms generalizing st with
  | nil => simp [run]
  | cons m t ih =>
    intro sub hsub
    simp only [run, List.mem_append] at hsub
    obtain ⟨a, _, c, _, _⟩ := step_params st m
    rcases hsub with h | h
    · obtain ⟨_, hf, _⟩ := step_facts st m
      exact ⟨(hf sub h).1, (hf sub h).2.1⟩
    · have := ih (step st m).1 sub h
      rw [a, c] at this
      exact this

/-- roots in `R` hold a quorum of correct shares (they were submitted earlier): nothing in `R` is submitted again and
    no root is submitted twice -/
theorem run_nodup (st : St) (ms : List Msg) (hexp : st.expected.Nodup) (R : List Nat) (hRnd : R.Nodup)
    (hR : ∀ r ∈ R, st.q ≤ goodCount st.cm st.c r) : (R ++ (run st ms).2.map (·.root)).Nodup := by
  induction ms generalizing st R with
  | nil => simpa [run] using hRnd
  | cons m t ih =>
    simp only [run, List.map_append]
    obtain ⟨a, b, c, _, _⟩ := step_params st m
    obtain ⟨hle, hf, hnd⟩ := step_facts st m
    have hnew := hnd hexp
    rw [← List.append_assoc]
    apply ih (step st m).1 (by rw [c]; exact hexp)
    · -- R ++ new is duplicate free
      rw [List.nodup_append]
      refine ⟨hRnd, hnew, ?_⟩
      intro x hx y hy e
      subst e
      obtain ⟨sub, hsub, rfl⟩ := List.mem_map.1 hy
      exact (hf sub hsub).2.2.2 (hR _ hx)
    · intro r hr
      rw [a, b]
      rcases List.mem_append.1 hr with h | h
      · exact Nat.le_trans (hR r h) (goodCount_mono _ hle r)
      · obtain ⟨sub, hsub, rfl⟩ := List.mem_map.1 h
        exact (hf sub hsub).2.2.1

/-! ### single-root duties -/

/-- closed form of one message for a single-root duty -/
def stepSingle (st : St) (s r0 : Nat) (g : Bool) : St × Out :=
  let p := processOne st.q st.cm st.c s r0 g
  if p.2 then
    if reconstructOK st.q st.cm p.1 r0 then
      ({ st with c := p.1, finished := true }, .submitted [⟨r0, sharesOf st.cm p.1 r0⟩])
    else ({ st with c := fallback p.1 r0 }, .reconstructFailed [])
  else ({ st with c := p.1 }, .collected)

theorem single_entry (cm : List Nat) (r0 : Nat) (m : Msg) (h : validateForm cm [r0] m = none) :
    ∃ g, m.entries = [(m.signer, r0, g)] := by
  obtain ⟨_, hin, _, _, hlen, hperm⟩ := validateForm_none cm [r0] m h
  match hm : m.entries, hlen with
  | [e], _ =>
    obtain ⟨a, b, g⟩ := e
    rw [hm] at hin hperm
    have ha : a = m.signer := hin (a, b, g) (by simp)
    simp only [List.map_cons, List.map_nil] at hperm
    have hb : b = r0 := by
      have := hperm.mem_iff (a := b)
      simp at this
      exact this
    subst ha; subst hb
    exact ⟨g, rfl⟩

theorem step_single_eq (st : St) (m : Msg) (r0 : Nat) (g : Bool) (hE : st.expected = [r0])
    (hval : validate st m = none) (hm : m.entries = [(m.signer, r0, g)]) :
    step st m = stepSingle st m.signer r0 g := by
  unfold step stepSingle
  rw [hval]
  simp only [hm, List.map_cons, List.map_nil, processEntries]
  by_cases hp : (processOne st.q st.cm st.c m.signer r0 g).2 = true
  · simp only [hp, if_true, List.nil_append]
    cases hs : st.style with
    | first =>
      simp
    | loop =>
      simp only [List.isEmpty_cons, Bool.false_eq_true, if_false, handleRoots]
      by_cases hok : reconstructOK st.q st.cm (processOne st.q st.cm st.c m.signer r0 g).1 r0 = true
      · simp [hok]
      · simp [hok]
    | loopMatch =>
      simp only [List.isEmpty_cons, Bool.false_eq_true, if_false, handleRoots]
      by_cases hok : reconstructOK st.q st.cm (processOne st.q st.cm st.c m.signer r0 g).1 r0 = true
      · simp [hok, hE]
      · simp [hok]
  · simp [hp]

theorem processOne_edge (q : Nat) (cm : List Nat) (c : Container) (s r : Nat) (g : Bool) :
    (processOne q cm c s r g).2 = (hasQuorum q cm (processOne q cm c s r g).1 r && !hasQuorum q cm c r) := rfl

/-! processOne touches one cell only -/
theorem processOne_get_other (q : Nat) (cm : List Nat) (c : Container) (s r : Nat) (g : Bool) (r' s' : Nat)
    (h : ¬ (r' = r ∧ s' = s)) : (processOne q cm c s r g).1.get r' s' = c.get r' s' := by
  simp only [processOne]
  split
  · unfold resolveDuplicate
    split
    · rfl
    · split <;> simp [setSig_get, h]
  · unfold addSignature
    split
    · simp [setSig_get, h]
    · rfl

theorem processOne_get_good (q : Nat) (cm : List Nat) (c : Container) (s r : Nat) :
    (processOne q cm c s r true).1.get r s = some true := by
  simp only [processOne]
  split
  · next hs =>
    unfold resolveDuplicate
    split
    · next h => exact h
    · simp [setSig_get]
  · next hs =>
    unfold addSignature
    split
    · simp [setSig_get]
    · next v h => rw [h] at hs; simp at hs

theorem processOne_count_le (q : Nat) (cm : List Nat) (hcm : cm.Nodup) (c : Container) (s r : Nat) (g : Bool) :
    count cm (processOne q cm c s r g).1 r ≤ count cm c r + 1 := by
  unfold count signersOf
  apply filter_len_le_succ cm hcm s
  intro x _ hx
  rw [processOne_get_other q cm c s r g r x (by simp [hx])]

theorem fallback_count_lt (q : Nat) (cm : List Nat) (c : Container) (r : Nat)
    (hq : q ≤ count cm c r) (hno : reconstructOK q cm c r = false) : count cm (fallback c r) r < count cm c r := by
  have hng : allGood cm c r = false := by
    simp only [reconstructOK, Bool.and_eq_false_iff, decide_eq_false_iff_not] at hno
    rcases hno with h | h
    · exact h
    · exact absurd hq h
  have : ¬ (allGood cm c r = true) := by simp [hng]
  rw [allGood_iff] at this
  simp only [Classical.not_forall] at this
  obtain ⟨x, hx, hsome, hnt⟩ := this
  have hxf : c.get r x = some false := by
    cases hc : c.get r x with
    | none => rw [hc] at hsome; simp at hsome
    | some v => cases v with
      | true => exact absurd hc hnt
      | false => rfl
  unfold count signersOf
  apply filter_len_lt cm _ _ _ x hx
  · simp [hxf]
  · simp [fallback_get, hxf]
  · intro y _ hy
    rw [fallback_get] at hy
    cases hc : c.get r y with
    | none => rw [hc] at hy; simp at hy
    | some v => simp

/-- single-root invariant: an unfinished duty holds fewer than `q` shares of its root -/
def SInv (st : St) (r0 : Nat) : Prop := st.finished = false → count st.cm st.c r0 < st.q

theorem stepSingle_facts (st : St) (s r0 : Nat) (g : Bool) (hcm : st.cm.Nodup) (hfin : st.finished = false)
    (hS : SInv st r0) :
    SInv (stepSingle st s r0 g).1 r0 ∧
    ((stepSingle st s r0 g).1.finished = false → g = true → (stepSingle st s r0 g).1.c.get r0 s = some true) ∧
    ((stepSingle st s r0 g).1.finished = true → r0 ∈ (subsOf (stepSingle st s r0 g).2).map (·.root)) := by
  have hlt := hS hfin
  have hcnt := processOne_count_le st.q st.cm hcm st.c s r0 g
  have hprev : hasQuorum st.q st.cm st.c r0 = false := by simp [hasQuorum]; omega
  unfold stepSingle
  by_cases hp : (processOne st.q st.cm st.c s r0 g).2 = true
  · have hq : st.q ≤ count st.cm (processOne st.q st.cm st.c s r0 g).1 r0 := by
      rw [processOne_edge, hprev] at hp
      simpa [hasQuorum] using hp
    simp only [hp, if_true]
    by_cases hok : reconstructOK st.q st.cm (processOne st.q st.cm st.c s r0 g).1 r0 = true
    · simp only [hok, if_true]
      refine ⟨fun h => by simp at h, fun h => by simp at h, fun _ => by simp [subsOf]⟩
    · have hok' : reconstructOK st.q st.cm (processOne st.q st.cm st.c s r0 g).1 r0 = false := by simpa using hok
      simp only [hok', Bool.false_eq_true, if_false]
      refine ⟨?_, ?_, fun h => by simp [hfin] at h⟩
      · intro _
        have := fallback_count_lt st.q st.cm _ r0 hq hok'
        simp only; omega
      · intro _ hg
        subst hg
        exact goodLE_fallback _ r0 r0 s (processOne_get_good st.q st.cm st.c s r0)
  · have hp' : (processOne st.q st.cm st.c s r0 g).2 = false := by simpa using hp
    simp only [hp', Bool.false_eq_true, if_false]
    refine ⟨?_, ?_, fun h => by simp [hfin] at h⟩
    · intro _
      rw [processOne_edge, hprev] at hp'
      simp only [Bool.not_false, Bool.and_true, hasQuorum, decide_eq_false_iff_not] at hp'
      simp only; omega
    · intro _ hg
      subst hg
      exact processOne_get_good st.q st.cm st.c s r0


theorem step_finished (st : St) (m : Msg) (h : st.finished = true) : step st m = (st, .rejected .noRunningDuty) := by
  unfold step validate; simp [h]

theorem validate_eq_form (st : St) (m : Msg) (hf : st.finished = false) (hd : st.decided = true) :
    validate st m = validateForm st.cm st.expected m := by
  unfold validate; simp [hf, hd]

theorem step_rejected (st : St) (m : Msg) (why : Reject) (h : validate st m = some why) : step st m = (st, .rejected why) := by
  unfold step; rw [h]

theorem run_live (r0 : Nat) (ms : List Msg) (st : St) (hE : st.expected = [r0]) (hcm : st.cm.Nodup)
    (hdec : st.decided = true) (hS : SInv st r0) (P : List Nat)
    (hP : st.finished = false → ∀ s ∈ P, st.c.get r0 s = some true) :
    SInv (run st ms).1 r0 ∧
    ((run st ms).1.finished = false →
      ∀ s, (s ∈ P ∨ SentGood st.cm [r0] r0 ms s) → (run st ms).1.c.get r0 s = some true) ∧
    (st.finished = false → (run st ms).1.finished = true → r0 ∈ (run st ms).2.map (·.root)) := by
  induction ms generalizing st P with
  | nil =>
    refine ⟨hS, ?_, ?_⟩
    · intro hf s hs
      rcases hs with h | ⟨m, hm, _⟩
      · exact hP hf s h
      · cases hm
    · intro h1 h2; simp [run, h1] at h2
  | cons m t ih =>
    obtain ⟨pq, pcm, pe, _, pd⟩ := step_params st m
    simp only [run]
    by_cases hfin : st.finished = true
    · -- finished: the message is refused, nothing changes
      rw [step_finished st m hfin]
      obtain ⟨i1, i2, _⟩ := ih st hE hcm hdec hS (m.signer :: P) (fun h => by simp [hfin] at h)
      refine ⟨i1, ?_, fun h => by simp [hfin] at h⟩
      intro hf s hs
      apply i2 hf s
      rcases hs with h | ⟨m', hm', h1, h2, h3⟩
      · exact Or.inl (List.mem_cons_of_mem _ h)
      · rcases List.mem_cons.1 hm' with e | h
        · subst e; exact Or.inl (by simp [h1])
        · exact Or.inr ⟨m', h, h1, h2, h3⟩
    · have hfin' : st.finished = false := by simpa using hfin
      cases hv : validateForm st.cm st.expected m with
      | some why =>
        have := step_rejected st m why (by rw [validate_eq_form st m hfin' hdec, hv])
        rw [this]
        obtain ⟨i1, i2, i3⟩ := ih st hE hcm hdec hS P hP
        refine ⟨i1, ?_, by simpa [subsOf] using i3⟩
        intro hf s hs
        apply i2 hf s
        rcases hs with h | ⟨m', hm', h1, h2, h3⟩
        · exact Or.inl h
        · rcases List.mem_cons.1 hm' with e | h
          · subst e; rw [← hE, hv] at h2; cases h2
          · exact Or.inr ⟨m', h, h1, h2, h3⟩
      | none =>
        rw [hE] at hv
        obtain ⟨g, hent⟩ := single_entry st.cm r0 m hv
        have hval : validate st m = none := by rw [validate_eq_form st m hfin' hdec, hE, hv]
        have heq := step_single_eq st m r0 g hE hval hent
        obtain ⟨f1, f2, f3⟩ := stepSingle_facts st m.signer r0 g hcm hfin' hS
        obtain ⟨hle, _, _⟩ := step_facts st m
        rw [heq] at pq pcm pe pd hle ⊢
        have hP' : (stepSingle st m.signer r0 g).1.finished = false →
            ∀ s ∈ (if g then m.signer :: P else P), (stepSingle st m.signer r0 g).1.c.get r0 s = some true := by
          intro hf s hs
          by_cases hg : g = true
          · simp only [hg, if_true] at hs
            rcases List.mem_cons.1 hs with e | h
            · subst e; exact f2 hf hg
            · exact hle r0 s (hP hfin' s h)
          · simp only [hg] at hs
            exact hle r0 s (hP hfin' s hs)
        obtain ⟨i1, i2, i3⟩ := ih (stepSingle st m.signer r0 g).1 (by rw [pe]; exact hE) (by rw [pcm]; exact hcm)
          (by rw [pd]; exact hdec) f1 (if g then m.signer :: P else P) hP'
        refine ⟨i1, ?_, ?_⟩
        · intro hf s hs
          apply i2 hf s
          rcases hs with h | ⟨m', hm', h1, h2, h3⟩
          · cases g <;> simp [h]
          · rcases List.mem_cons.1 hm' with e | h
            · subst e
              have hg : g = true := by simpa [goodFor, hent] using h3
              subst hg; subst h1
              exact Or.inl (by simp)
            · rw [pcm]; exact Or.inr ⟨m', h, h1, h2, h3⟩
        · intro _ hfinal
          simp only [List.map_append, List.mem_append]
          by_cases h1 : (stepSingle st m.signer r0 g).1.finished = true
          · exact Or.inl (f3 h1)
          · exact Or.inr (i3 (by simpa using h1) hfinal)


theorem eq_singleton_of_nodup (l : List Nat) (a : Nat) (hnd : l.Nodup) (hall : ∀ x ∈ l, x = a) (hmem : a ∈ l) : l = [a] := by
  match l, hmem with
  | [x], _ => rw [hall x (by simp)]
  | x :: y :: t, _ =>
    have hx := hall x (by simp)
    have hy := hall y (by simp)
    subst hx; subst hy
    simp at hnd

theorem init_cm_nodup (n k : Nat) (style : Style) (d : Bool) : (init n k style d).cm.Nodup := by
  simp only [init, List.Nodup, List.pairwise_map]
  exact (List.nodup_range (n := n)).imp (fun h => by omega)

theorem init_mem_cm (n k : Nat) (style : Style) (d : Bool) (s : Nat) : s ∈ (init n k style d).cm ↔ 1 ≤ s ∧ s ≤ n := by
  simp only [init, List.mem_map, List.mem_range]
  constructor
  · rintro ⟨a, ha, rfl⟩; omega
  · rintro ⟨h1, h2⟩; exact ⟨s - 1, by omega, by omega⟩

/-- a step never takes the `roots[0]` branch on an empty list -/
theorem step_no_panic (st : St) (m : Msg) : ∀ st', step st m ≠ (st', .panicked) := by
  intro st'
  unfold step
  split
  · intro h; cases h
  · split
    split
    · intro h; cases h
    · next hne =>
      split
      · split
        · simp at hne
        · split <;> (intro h; cases h)
      · simp only
        split <;> (intro h; cases h)

/-! ### fault-free runs of a multi-root duty -/

theorem filter_len_succ (l : List Nat) (hnd : l.Nodup) (s : Nat) (hs : s ∈ l) (p p' : Nat → Bool)
    (hp : p s = false) (hp' : p' s = true) (h : ∀ x ∈ l, x ≠ s → p' x = p x) :
    (l.filter p').length = (l.filter p).length + 1 := by
  induction l with
  | nil => cases hs
  | cons a t ih =>
    rw [List.nodup_cons] at hnd
    by_cases has : a = s
    · subst has
      have ht : (t.filter p').length = (t.filter p).length := by
        apply filter_len_eq
        intro x hx
        apply h x (List.mem_cons_of_mem a hx)
        intro hxs; subst hxs; exact hnd.1 hx
      simp [hp, hp', ht]
    · have hst : s ∈ t := by
        rcases List.mem_cons.1 hs with e | e
        · exact absurd e.symm has
        · exact e
      have iht := ih hnd.2 hst (fun x hx => h x (List.mem_cons_of_mem a hx))
      have ha := h a List.mem_cons_self has
      simp only [List.filter_cons, ha]
      by_cases h2 : p a = true <;> simp [h2] <;> omega

/-- count of a row after the cell of signer `s` was (re)written to a stored share and nothing else in the row changed -/
theorem row_count_update (cm : List Nat) (hcm : cm.Nodup) (c c1 : Container) (r s : Nat) (hs : s ∈ cm)
    (hsame : ∀ x, x ≠ s → c1.get r x = c.get r x) (hset : (c1.get r s).isSome = true) :
    count cm c1 r = count cm c r + (if (c.get r s).isSome then 0 else 1) := by
  unfold count signersOf
  by_cases hp : (c.get r s).isSome = true
  · simp only [hp, if_true, Nat.add_zero]
    apply filter_len_eq
    intro x _
    by_cases e : x = s
    · subst e; rw [hset, hp]
    · rw [hsame x e]
  · have hp' : (c.get r s).isSome = false := by simpa using hp
    simp only [hp', Bool.false_eq_true, if_false]
    exact filter_len_succ cm hcm s hs _ _ hp' hset (fun x _ e => by rw [hsame x e])

/-- no wrong share is stored -/
def Clean (c : Container) : Prop := ∀ r s, c.get r s ≠ some false

theorem clean_processOne_good (q : Nat) (cm : List Nat) (c : Container) (s r : Nat) (h : Clean c) :
    Clean (processOne q cm c s r true).1 := by
  intro r' s'
  by_cases e : r' = r ∧ s' = s
  · obtain ⟨e1, e2⟩ := e; subst e1; subst e2
    rw [processOne_get_good]; simp
  · rw [processOne_get_other q cm c s r true r' s' e]; exact h r' s'

theorem allGood_of_clean (cm : List Nat) (c : Container) (r : Nat) (h : Clean c) : allGood cm c r = true := by
  rw [allGood_iff]
  intro s _ hs
  cases hc : c.get r s with
  | none => rw [hc] at hs; simp at hs
  | some v => cases v with
    | true => rfl
    | false => exact absurd hc (h r s)

/-- `basePartialSigMsgProcessing` on a message whose shares are all correct, roots pairwise distinct, every root currently
    holding `N < q` shares and the signer uniformly present/absent: all cells of the signer become correct shares; either
    every root is reported (signer new and `N + 1` reaches the quorum) or none -/
theorem processEntries_good (q : Nat) (cm : List Nat) (hcm : cm.Nodup) (s : Nat) (hs : s ∈ cm) (N : Nat) (hN : N < q)
    (present : Bool) (rs : List Nat) (hnd : rs.Nodup) (c : Container) (acc : List Nat)
    (hclean : Clean c) (hcnt : ∀ r ∈ rs, count cm c r = N) (hpres : ∀ r ∈ rs, (c.get r s).isSome = present) :
    let res := processEntries q cm s c (rs.map fun r => (r, true)) acc
    res.2 = acc ++ (if !present && decide (q ≤ N + 1) then rs else []) ∧
    Clean res.1 ∧ (∀ r ∈ rs, res.1.get r s = some true) ∧
    (∀ r x, (r ∉ rs ∨ x ≠ s) → res.1.get r x = c.get r x) := by
  induction rs generalizing c acc with
  | nil => simp [processEntries, hclean]
  | cons r t ih =>
    rw [List.nodup_cons] at hnd
    simp only [List.map_cons, processEntries]
    have hc1clean := clean_processOne_good q cm c s r hclean
    have hget := processOne_get_good q cm c s r
    have hother := processOne_get_other q cm c s r true
    have hcntr := hcnt r (by simp)
    have hpresr := hpres r (by simp)
    have hrow := row_count_update cm hcm c (processOne q cm c s r true).1 r s hs
      (fun x e => hother r x (by simp [e])) (by rw [hget]; rfl)
    have hprev : hasQuorum q cm c r = false := by simp [hasQuorum, hcntr]; omega
    have hedge : (processOne q cm c s r true).2 = (!present && decide (q ≤ N + 1)) := by
      rw [processOne_edge, hprev, hasQuorum, hrow, hcntr, hpresr]
      cases present <;> simp <;> omega
    have hcnt' : ∀ r' ∈ t, count cm (processOne q cm c s r true).1 r' = N := by
      intro r' hr'
      have hne : r' ≠ r := fun e => hnd.1 (e ▸ hr')
      rw [← hcnt r' (List.mem_cons_of_mem _ hr')]
      unfold count signersOf
      apply filter_len_eq
      intro x _
      rw [hother r' x (by simp [hne])]
    have hpres' : ∀ r' ∈ t, ((processOne q cm c s r true).1.get r' s).isSome = present := by
      intro r' hr'
      have hne : r' ≠ r := fun e => hnd.1 (e ▸ hr')
      rw [hother r' s (by simp [hne])]
      exact hpres r' (List.mem_cons_of_mem _ hr')
    obtain ⟨i1, i2, i3, i4⟩ := ih hnd.2 (processOne q cm c s r true).1
      (if (processOne q cm c s r true).2 then acc ++ [r] else acc) hc1clean hcnt' hpres'
    refine ⟨?_, i2, ?_, ?_⟩
    · rw [i1, hedge]
      cases hcond : (!present && decide (q ≤ N + 1)) <;> simp
    · intro r' hr'
      rcases List.mem_cons.1 hr' with e | e
      · subst e
        rw [i4 r' s (Or.inl hnd.1)]; exact hget
      · exact i3 r' e
    · intro r' x hx
      have hx' : r' ∉ t ∨ x ≠ s := by
        rcases hx with h | h
        · exact Or.inl (fun e => h (List.mem_cons_of_mem _ e))
        · exact Or.inr h
      rw [i4 r' x hx']
      apply hother
      rcases hx with h | h
      · intro e; exact h (by simp [e.1])
      · intro e; exact h e.2

/-- the submission loop when every root reconstructs -/
theorem handleRoots_all_ok (q : Nat) (cm : List Nat) (allRoots : List Nat) (submitIf : Nat → Bool) (c : Container)
    (rs : List Nat) (acc : List Sub) (h : ∀ r ∈ rs, reconstructOK q cm c r = true ∧ submitIf r = true) :
    handleRoots q cm allRoots submitIf c rs acc = (c, acc ++ rs.map (fun r => ⟨r, sharesOf cm c r⟩), true) := by
  induction rs generalizing acc with
  | nil => simp [handleRoots]
  | cons r t ih =>
    obtain ⟨h1, h2⟩ := h r (by simp)
    simp only [handleRoots, h1, h2, if_true]
    rw [ih _ (fun x hx => h x (List.mem_cons_of_mem _ hx))]
    simp

/-- fault-free collection invariant: no wrong share stored, every expected root holds the shares of exactly the signers
    in `P`, `N` of them, fewer than the quorum -/
structure FF (st : St) (N : Nat) (P : List Nat) : Prop where
  clean : Clean st.c
  cnt : ∀ r ∈ st.expected, count st.cm st.c r = N
  lt : N < st.q
  pres : ∀ r ∈ st.expected, ∀ s, (st.c.get r s).isSome = decide (s ∈ P)

theorem entries_all_good (m : Msg) (h : hasBadShare m = false) :
    (m.entries.map fun e => (e.2.1, e.2.2)) = (m.entries.map (·.2.1)).map fun r => (r, true) := by
  rw [List.map_map]
  apply List.map_congr_left
  intro e he
  simp only [hasBadShare, List.any_eq_false, Bool.not_eq_true', Bool.not_eq_false] at h
  have := h e he
  simp [this]

/-- one well-formed all-correct message in a fault-free unfinished multi-root collection: either it is just stored (the
    invariant continues with the signer added) or it completes the quorum of EVERY root at once and every root is submitted -/
theorem step_ff (st : St) (m : Msg) (N : Nat) (P : List Nat) (hcm : st.cm.Nodup) (hexp : st.expected.Nodup)
    (hsty : st.style ≠ .first) (hval : validate st m = none) (hgood : hasBadShare m = false) (hff : FF st N P) :
    ((step st m).1.finished = false ∧ subsOf (step st m).2 = [] ∧
        FF (step st m).1 (if m.signer ∈ P then N else N + 1) (if m.signer ∈ P then P else m.signer :: P)) ∨
    ((step st m).1.finished = true ∧ ((subsOf (step st m).2).map (·.root)).Perm st.expected) := by
  obtain ⟨hfin, _, hform⟩ := validate_none st m hval
  obtain ⟨_, _, _, hmem, _, hperm⟩ := validateForm_none _ _ m hform
  have hrnd : (m.entries.map (·.2.1)).Nodup := hperm.nodup_iff.2 hexp
  have hrexp : ∀ r, r ∈ m.entries.map (·.2.1) ↔ r ∈ st.expected := fun r => hperm.mem_iff
  obtain ⟨e1, e2, e3, e4⟩ := processEntries_good st.q st.cm hcm m.signer hmem N hff.lt (decide (m.signer ∈ P))
    (m.entries.map (·.2.1)) hrnd st.c [] hff.clean (fun r hr => hff.cnt r ((hrexp r).1 hr))
    (fun r hr => hff.pres r ((hrexp r).1 hr) m.signer)
  unfold step
  rw [hval]
  simp only []
  rw [entries_all_good m hgood]
  generalize hpe : processEntries st.q st.cm m.signer st.c ((m.entries.map (·.2.1)).map fun r => (r, true)) [] = pe at e1 e2 e3 e4
  obtain ⟨c1, edges⟩ := pe
  simp only [List.nil_append] at e1 e2 e3 e4
  simp only []
  -- the row counts after the message
  have hrow : ∀ r ∈ st.expected, count st.cm c1 r = N + (if m.signer ∈ P then 0 else 1) := by
    intro r hr
    have := row_count_update st.cm hcm st.c c1 r m.signer hmem (fun x e => e4 r x (Or.inr e))
      (by rw [e3 r ((hrexp r).2 hr)]; rfl)
    rw [this, hff.cnt r hr, hff.pres r hr m.signer]
    by_cases hp : m.signer ∈ P <;> simp [hp]
  by_cases hcond : (!decide (m.signer ∈ P) && decide (st.q ≤ N + 1)) = true
  · -- every root crosses the quorum edge and reconstructs
    right
    rw [hcond] at e1
    simp only [if_true] at e1
    subst e1
    have hP : m.signer ∉ P := by
      simp only [Bool.and_eq_true, Bool.not_eq_true', decide_eq_false_iff_not, decide_eq_true_eq] at hcond
      exact hcond.1
    have hq : st.q ≤ N + 1 := by
      simp only [Bool.and_eq_true, decide_eq_true_eq] at hcond
      exact hcond.2
    have hne : (m.entries.map (·.2.1)).isEmpty = false := by
      cases hm : m.entries.map (·.2.1) with
      | nil =>
        exfalso
        obtain ⟨_, _, _, _, hlen, _⟩ := validateForm_none _ _ m hform
        unfold validateForm at hform
        have : m.entries = [] := by simpa using hm
        simp [this] at hform
        split at hform <;> simp at hform
      | cons a t => rfl
    simp only [hne, Bool.false_eq_true, if_false]
    have hall : ∀ r ∈ m.entries.map (·.2.1), reconstructOK st.q st.cm c1 r = true ∧
        (st.style == Style.loop || st.expected.contains r) = true := by
      intro r hr
      have hre := (hrexp r).1 hr
      refine ⟨?_, by simp [hre]⟩
      simp only [reconstructOK, Bool.and_eq_true, decide_eq_true_eq]
      refine ⟨allGood_of_clean _ _ _ e2, ?_⟩
      rw [hrow r hre]; simp [hP]; exact hq
    cases hs : st.style with
    | first => exact absurd hs hsty
    | loop =>
      rw [handleRoots_all_ok _ _ _ _ _ _ _ (by simpa [hs] using hall)]
      simp only [if_true, subsOf, List.nil_append, List.map_map]
      refine ⟨trivial, ?_⟩
      simpa [Function.comp_def] using hperm
    | loopMatch =>
      rw [handleRoots_all_ok _ _ _ _ _ _ _ (by simpa [hs] using hall)]
      simp only [if_true, subsOf, List.nil_append, List.map_map]
      refine ⟨trivial, ?_⟩
      simpa [Function.comp_def] using hperm
  · -- stored, no edge
    left
    have hcond' : (!decide (m.signer ∈ P) && decide (st.q ≤ N + 1)) = false := by simpa using hcond
    rw [hcond'] at e1
    simp only [Bool.false_eq_true, if_false] at e1
    subst e1
    simp only [List.isEmpty_nil, if_true, subsOf]
    refine ⟨hfin, ?_, ?_⟩
    · first | rfl | trivial
    refine ⟨e2, ?_, ?_, ?_⟩
    · intro r hr
      rw [hrow r hr]
      by_cases hp : m.signer ∈ P <;> simp [hp]
    · have := hff.lt
      by_cases hp : m.signer ∈ P
      · simp [hp]; exact this
      · simp only [hp, if_false]
        simp only [hp, decide_false, Bool.not_false, Bool.true_and, decide_eq_false_iff_not] at hcond'
        show N + 1 < st.q
        omega
    · intro r hr x
      by_cases ex : x = m.signer
      · subst ex
        rw [e3 r ((hrexp r).2 hr)]
        by_cases hp : m.signer ∈ P <;> simp [hp]
      · rw [e4 r x (Or.inr ex), hff.pres r hr x]
        by_cases hp : m.signer ∈ P
        · simp [hp]
        · simp only [hp, if_false, List.mem_cons]
          simp [ex]

theorem run_finished (st : St) (ms : List Msg) (h : st.finished = true) : run st ms = (st, []) := by
  induction ms with
  | nil => rfl
  | cons m t ih => simp only [run, step_finished st m h, ih, subsOf, List.append_nil]

/-- fault-free multi-root run: while unfinished the invariant holds and every sender of a well-formed message is stored;
    when the duty finishes, every expected root has been submitted -/
theorem run_ff (ms : List Msg) (st : St) (N : Nat) (P : List Nat) (hcm : st.cm.Nodup) (hexp : st.expected.Nodup)
    (hsty : st.style ≠ .first) (hdec : st.decided = true)
    (hclean : ∀ m ∈ ms, validateForm st.cm st.expected m = none → hasBadShare m = false)
    (hff : st.finished = false → FF st N P) :
    ((run st ms).1.finished = false → ∃ N' P', FF (run st ms).1 N' P' ∧
        ∀ s, (s ∈ P ∨ ∃ m ∈ ms, m.signer = s ∧ validateForm st.cm st.expected m = none) → s ∈ P') ∧
    (st.finished = false → (run st ms).1.finished = true → ∀ r ∈ st.expected, r ∈ (run st ms).2.map (·.root)) := by
  induction ms generalizing st N P with
  | nil =>
    refine ⟨?_, ?_⟩
    · intro hf
      refine ⟨N, P, hff hf, ?_⟩
      rintro s (h | ⟨m, hm, _⟩)
      · exact h
      · cases hm
    · intro h1 h2; simp [run, h1] at h2
  | cons m t ih =>
    obtain ⟨pq, pcm, pe, ps, pd⟩ := step_params st m
    by_cases hfin : st.finished = true
    · rw [run_finished st _ hfin]
      exact ⟨fun h => by simp [hfin] at h, fun h => by simp [hfin] at h⟩
    · have hfin' : st.finished = false := by simpa using hfin
      have hffst := hff hfin'
      simp only [run]
      cases hv : validateForm st.cm st.expected m with
      | some why =>
        rw [step_rejected st m why (by rw [validate_eq_form st m hfin' hdec, hv])]
        obtain ⟨i1, i2⟩ := ih st N P hcm hexp hsty hdec (fun x hx => hclean x (List.mem_cons_of_mem _ hx)) hff
        refine ⟨?_, by simpa [subsOf] using i2⟩
        intro hf
        obtain ⟨N', P', a, b⟩ := i1 hf
        refine ⟨N', P', a, ?_⟩
        rintro s (h | ⟨m', hm', h1, h2⟩)
        · exact b s (Or.inl h)
        · rcases List.mem_cons.1 hm' with e | h
          · subst e; rw [hv] at h2; cases h2
          · exact b s (Or.inr ⟨m', h, h1, h2⟩)
      | none =>
        have hval : validate st m = none := by rw [validate_eq_form st m hfin' hdec, hv]
        have hgood := hclean m (by simp) hv
        rcases step_ff st m N P hcm hexp hsty hval hgood hffst with ⟨f1, f2, f3⟩ | ⟨f1, f2⟩
        · -- stored
          obtain ⟨i1, i2⟩ := ih (step st m).1 _ _ (by rw [pcm]; exact hcm) (by rw [pe]; exact hexp) (by rw [ps]; exact hsty)
            (by rw [pd]; exact hdec) (by rw [pcm, pe]; exact fun x hx => hclean x (List.mem_cons_of_mem _ hx)) (fun _ => f3)
          refine ⟨?_, ?_⟩
          · intro hf
            obtain ⟨N', P', a, b⟩ := i1 hf
            refine ⟨N', P', a, ?_⟩
            rintro s (h | ⟨m', hm', h1, h2⟩)
            · apply b s; left
              by_cases hp : m.signer ∈ P <;> simp [hp, h]
            · rcases List.mem_cons.1 hm' with e | h
              · subst e; subst h1
                apply b m'.signer; left
                by_cases hp : m'.signer ∈ P <;> simp [hp]
              · apply b s; right
                rw [pcm, pe]; exact ⟨m', h, h1, h2⟩
          · intro _ hfinal r hr
            rw [f2, List.nil_append]
            have := i2 f1 hfinal r (by rw [pe]; exact hr)
            exact this
        · -- the quorum of every root completed in this step
          rw [run_finished _ t f1]
          refine ⟨fun h => by simp [f1] at h, ?_⟩
          intro _ _ r hr
          simp only [List.append_nil]
          exact f2.mem_iff.2 hr


end Ssv.PartialSig
