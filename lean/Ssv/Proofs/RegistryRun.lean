/-
Node-level facts about runs of the registry model: induction principle, state between blocks, restart,
batching independence (properties C11, C12). Core Lean only.
-/
import Ssv.Proofs.RegistrySelf

namespace Ssv.Registry

/-! ## induction over successful runs (whole node) -/

theorem applyBlock_ok_eq (me : Nat) (n : Node) (b : Block) (h : (applyBlock me n b).2.1 = .ok) :
    inferior n b = false ∧ (runEvents me b.number (beginTxn n) b.events).2.2 = false ∧
    (applyBlock me n b).1 = runSteps (runEvents me b.number (beginTxn n) b.events).1 [.putMarker b.number, .commit] := by
  simp only [applyBlock] at h ⊢
  by_cases hi : inferior n b = true
  · simp [hi] at h
  · simp only [hi, Bool.false_eq_true, ↓reduceIte] at h ⊢
    by_cases hp : (runEvents me b.number (beginTxn n) b.events).2.2 = true
    · simp [hp] at h
    · simp [hp]

theorem run_induction (me : Nat) (B P : List Event → Node → Prop)
    (hBP : ∀ evs n, B evs n → P evs (beginTxn n))
    (hP : ∀ evs n blk e, P evs n → (eventOutcome me blk n e).isPanic = false → P (evs ++ [e]) (applyEvent me blk n e).1)
    (hPB : ∀ evs n m, P evs n → B evs (runSteps n [.putMarker m, .commit])) :
    ∀ (bs : List Block) (pre : List Event) (n : Node), B pre n → (run me n bs).2 = true →
      B (pre ++ flatten bs) (run me n bs).1 := by
  have hev : ∀ (blk : Nat) (es : List Event) (pre : List Event) (n : Node), P pre n →
      (runEvents me blk n es).2.2 = false → P (pre ++ es) (runEvents me blk n es).1 := by
    intro blk es
    induction es with
    | nil => intro pre n h _; simpa [runEvents] using h
    | cons e es ih =>
      intro pre n h hnp
      simp only [runEvents] at hnp ⊢
      by_cases hp : (applyEvent me blk n e).2.isPanic = true
      · simp [hp] at hnp
      · simp only [hp, Bool.false_eq_true, ↓reduceIte] at hnp ⊢
        have := ih (pre ++ [e]) _ (hP pre n blk e h (by simpa [applyEvent] using hp)) hnp
        simpa [List.append_assoc] using this
  intro bs
  induction bs with
  | nil => intro pre n h _; simpa [run, flatten] using h
  | cons b bs ih =>
    intro pre n h hok
    simp only [run] at hok ⊢
    cases hs : (applyBlock me n b).2.1 with
    | refused => simp [hs] at hok
    | panicked => simp [hs] at hok
    | ok =>
      simp only [hs] at hok ⊢
      obtain ⟨_, hnp, heq⟩ := applyBlock_ok_eq me n b hs
      have h1 := hev b.number b.events pre (beginTxn n) (hBP pre n h) hnp
      have h2 := hPB _ _ b.number h1
      rw [← heq] at h2
      have := ih (pre ++ b.events) _ h2 hok
      simpa [flatten, List.append_assoc] using this

/-! ## the state between blocks -/

/-- nothing pending, memory equals the database (shares map and wallet index) -/
def Boundary (n : Node) : Prop := RegBoundary n.reg ∧ n.wal.midx = n.wal.pidx

theorem init_boundary : Boundary init := by
  refine ⟨⟨rfl, rfl, ?_⟩, rfl⟩
  simp [NodupPk, init]

theorem init_selfInv (me : Nat) : SelfInv me [] init.reg :=
  ⟨by simp [init], by simp [init], by simp [init], by simp [init, hasOp], by simp [init, hasOp]⟩

theorem commit_wal (n : Node) (m : Nat) : (runSteps n [.putMarker m, .commit]).wal = n.wal := by
  simp [runSteps, applyStep, stepWal]

theorem run_boundary (me : Nat) (n : Node) (bs : List Block) (h : Boundary n) (hok : (run me n bs).2 = true) :
    Boundary (run me n bs).1 := by
  refine ⟨?_, ?_⟩
  · have := run_reg me n bs
    rw [this.1]
    exact regRun_boundary me n.reg bs h.1 (by rw [← this.2]; exact hok)
  · have := run_induction me (fun _ x => x.wal.midx = x.wal.pidx) (fun _ x => x.wal.midx = x.wal.pidx)
      (by intro _ x h; exact h)
      (by intro _ x blk e h _; exact applyEvent_wal_sync me blk x e h)
      (by intro _ x m h; rw [commit_wal]; exact h)
      bs [] n h.2 hok
    exact this

/-- between blocks, with the own operator id consistent with the stored operators, a restart changes nothing -/
theorem restart_eq (me : Nat) (n : Node) (h : Boundary n)
    (hown : ∀ o ∈ n.reg.db.ops, o.pk = me → o.id = n.reg.self)
    (hhas : n.reg.self ≠ 0 → ∃ o ∈ n.reg.db.ops, o.id = n.reg.self ∧ o.pk = me) : restart me n = n := by
  obtain ⟨⟨h1, h2, _⟩, h3⟩ := h
  have hs := lookupSelf_eq me n.reg.self n.reg.db.ops hown hhas
  cases n with
  | mk reg wal hist =>
    cases reg with
    | mk db txn shares self =>
      cases wal with
      | mk recs pidx midx nextId =>
        simp only [restart, load, persist] at *
        simp [hs, h1, h2, h3]


/-! ## batching independence -/

/-- two nodes agree on everything an event handler reads or writes, except the committed view of the operators
    (read by SaveOperatorData outside the transaction) and the marker -/
structure Sim (a b : Node) : Prop where
  wal : a.wal = b.wal
  hist : a.hist = b.hist
  shares : a.reg.shares = b.reg.shares
  self : a.reg.self = b.reg.self
  tsh : a.reg.txn.shares = b.reg.txn.shares
  tops : a.reg.txn.ops = b.reg.txn.ops
  trec : a.reg.txn.recips = b.reg.txn.recips

/-- the node with everything written so far committed -/
def norm (n : Node) : Node := { n with reg := { n.reg with db := n.reg.txn } }

/-- batching-free reference semantics: every event sees all earlier writes as committed -/
def idealEvent (me : Nat) (n : Node) (e : Event) : Node := norm (applyEvent me 0 (norm n) e).1

def idealRun (me : Nat) (n : Node) (evs : List Event) : Node := evs.foldl (idealEvent me) (norm n)

theorem sim_norm_right {a b : Node} (h : Sim a b) : Sim a (norm b) :=
  ⟨h.wal, h.hist, h.shares, h.self, h.tsh, h.tops, h.trec⟩

/-- steps of an expanded handler list act the same way on similar nodes -/
theorem sim_applyStep_any {a b : Node} (s : Step) (hs : s ≠ .commit) (h : Sim a b) :
    Sim (applyStep a s) (applyStep b s) := by
  obtain ⟨h1, h2, h3, h4, h5, h6, h7⟩ := h
  cases s <;> first
    | exact absurd rfl hs
    | exact ⟨by simp [applyStep, h1], by simp [applyStep, h2], by simp [applyStep, stepReg, h3],
        by simp [applyStep, stepReg, h4], by simp [applyStep, stepReg, h5], by simp [applyStep, stepReg, h6],
        by simp [applyStep, stepReg, h7]⟩

theorem sim_runSteps {a b : Node} (l : List Step) (hl : ∀ s ∈ l, s ≠ .commit) (h : Sim a b) :
    Sim (runSteps a l) (runSteps b l) := by
  induction l generalizing a b with
  | nil => exact h
  | cons s l ih =>
    rw [runSteps_cons, runSteps_cons]
    exact ih (fun s hs => hl s (List.mem_cons_of_mem _ hs)) (sim_applyStep_any s (hl s List.mem_cons_self) h)

theorem expand_no_commit (w : Wal) (s : Step) (hs : s.handler = true) : ∀ t ∈ expand w s, t ≠ .commit := by
  intro t ht
  cases s <;> simp [Step.handler] at hs <;> simp only [expand] at ht
  all_goals (try (simp at ht; subst ht; intro h; cases h))
  · split at ht
    · simp at ht
    · simp at ht; rcases ht with rfl | rfl | rfl <;> (intro h; cases h)
  · split at ht
    · simp at ht; rcases ht with rfl | rfl | rfl <;> (intro h; cases h)
    · simp at ht

theorem sim_runMacro {a b : Node} (l : List Step) (hl : ∀ s ∈ l, s.handler = true) (h : Sim a b) :
    Sim (runMacro a l) (runMacro b l) := by
  induction l generalizing a b with
  | nil => exact h
  | cons s l ih =>
    simp only [runMacro]
    refine ih (fun s hs => hl s (List.mem_cons_of_mem _ hs)) ?_
    rw [h.wal]
    exact sim_runSteps _ (expand_no_commit b.wal s (hl s List.mem_cons_self)) h

/-- the block number only shows up in the exit task, never in a step -/
theorem regSteps_blk (me blk blk' : Nat) (v : View) (e : Event) : (regSteps me blk v e).1 = (regSteps me blk' v e).1 := by
  cases e with
  | validatorExited owner pk ops =>
    simp only [regSteps]
    split
    · rfl
    · split
      · rfl
      · split
        · rfl
        · split <;> rfl
  | _ => rfl

theorem regSteps_cops (me blk : Nat) (v : View) (c : List OperatorRec) (e : Event)
    (h : ∀ id o p, e = Event.operatorAdded id o p → hasOp c id = hasOp v.cops id) :
    regSteps me blk { v with cops := c } e = regSteps me blk v e := by
  cases e with
  | operatorAdded id owner pk =>
    have := h id owner pk rfl
    simp only [regSteps, this]
  | _ => rfl

theorem sim_applyEvent (me blk blk' : Nat) {a b : Node} (e : Event) (h : Sim a b)
    (hc : ∀ id o p, e = Event.operatorAdded id o p → hasOp a.reg.db.ops id = hasOp b.reg.db.ops id) :
    Sim (applyEvent me blk a e).1 (applyEvent me blk' b e).1 := by
  have hv : viewOf a.reg = { viewOf b.reg with cops := a.reg.db.ops } := by
    simp [viewOf, h.shares, h.self, h.tops, h.trec]
  have hst : (regSteps me blk (viewOf a.reg) e).1 = (regSteps me blk' (viewOf b.reg) e).1 := by
    rw [hv, regSteps_cops me blk (viewOf b.reg) a.reg.db.ops e (by intro id o p he; simpa [viewOf] using hc id o p he),
      regSteps_blk me blk blk']
  simp only [applyEvent]
  rw [hst]
  exact sim_runMacro _ (regSteps_handler me blk' _ e) h

theorem sim_commit {a b : Node} (m : Nat) (h : Sim a b) : Sim (runSteps a [.putMarker m, .commit]) b := by
  obtain ⟨h1, h2, h3, h4, h5, h6, h7⟩ := h
  exact ⟨by simpa [runSteps, applyStep, stepWal] using h1, by simpa [runSteps, applyStep, stepHist] using h2,
    by simpa [runSteps, applyStep, stepReg] using h3, by simpa [runSteps, applyStep, stepReg] using h4,
    by simpa [runSteps, applyStep, stepReg] using h5, by simpa [runSteps, applyStep, stepReg] using h6,
    by simpa [runSteps, applyStep, stepReg] using h7⟩

theorem beginTxn_eq (n : Node) (h : n.reg.txn = n.reg.db) : beginTxn n = n := by
  cases n with
  | mk reg wal hist => cases reg; simp only [beginTxn] at *; simp [h]

/-- Every successful run ends in the state of the batching-free reference run over the flattened events (up to the
    marker), provided operator ids are fresh and non-zero as the contract guarantees. -/
theorem run_sim_ideal (me : Nat) (n : Node) (bs : List Block) (hb : n.reg.txn = n.reg.db) (hself : SelfInv me [] n.reg)
    (hwf : OpAddsWF (flatten bs)) (hok : (run me n bs).2 = true) :
    Sim (run me n bs).1 (idealRun me n (flatten bs)) ∧ (run me n bs).1.reg.txn = (run me n bs).1.reg.db := by
  have := run_induction me
    (fun evs x => x.reg.txn = x.reg.db ∧ (OpAddsWF evs → Sim x (idealRun me n evs) ∧ SelfInv me evs x.reg))
    (fun evs x => OpAddsWF evs → Sim x (idealRun me n evs) ∧ SelfInv me evs x.reg)
    (by intro evs x h hw; rw [beginTxn_eq x h.1]; exact h.2 hw)
    (by
      intro evs x blk e h _ hw
      obtain ⟨hsim, hinv⟩ := h hw.prefix
      refine ⟨?_, by rw [applyEvent_reg]; exact regEvent_selfInv me blk x.reg e evs hinv hw⟩
      have : idealRun me n (evs ++ [e]) = idealEvent me (idealRun me n evs) e := by
        simp [idealRun, List.foldl_append]
      rw [this]
      refine sim_norm_right (sim_applyEvent me blk 0 e (sim_norm_right hsim) ?_)
      intro id o p he
      subst he
      -- the id of this OperatorAdded is fresh: stored in the database iff written in this transaction
      have hfresh : id ∉ addIds evs := by
        unfold OpAddsWF at hw
        rw [addIds_append] at hw
        simp only [addIds] at hw
        intro hin
        exact (List.nodup_append.1 hw.1).2.2 id hin id (by simp) rfl
      have h1 : hasOp x.reg.db.ops id = hasOp x.reg.txn.ops id := by
        cases hh : hasOp x.reg.txn.ops id with
        | true =>
          rcases hinv.pend id hh with h | h
          · exact h
          · exact absurd h hfresh
        | false =>
          cases hd : hasOp x.reg.db.ops id with
          | false => rfl
          | true => rw [hinv.mono id hd] at hh; cases hh
      rw [h1, hsim.tops]
      rfl)
    (by
      intro evs x m h
      refine ⟨by simp [runSteps, applyStep, stepReg], fun hw => ?_⟩
      obtain ⟨hsim, hinv⟩ := h hw
      refine ⟨sim_commit m hsim, ?_⟩
      rw [commit_reg]
      exact commitReg_selfInv m hinv)
    bs [] n
    ⟨hb, fun _ => ⟨⟨rfl, rfl, rfl, rfl, rfl, rfl, rfl⟩, hself⟩⟩ hok
  exact ⟨(this.2 (by simpa using hwf)).1, this.1⟩

/-- number of the last block of a batching -/
def lastNumber : List Block → Option Nat
  | [] => none
  | [b] => some b.number
  | _ :: b :: bs => lastNumber (b :: bs)

theorem lastNumber_cons_ne (b c : Block) (cs : List Block) : ∃ m, lastNumber (c :: cs) = some m ∧ lastNumber (b :: c :: cs) = some m := by
  induction cs generalizing b c with
  | nil => exact ⟨c.number, rfl, rfl⟩
  | cons d ds ih =>
    obtain ⟨m, h1, h2⟩ := ih c d
    exact ⟨m, by simpa [lastNumber] using h1, by simpa [lastNumber] using h1⟩

theorem run_marker (me : Nat) (n : Node) (bs : List Block) (hok : (run me n bs).2 = true) :
    (run me n bs).1.reg.db.marker = match lastNumber bs with | some m => some m | none => n.reg.db.marker := by
  induction bs generalizing n with
  | nil => rfl
  | cons b bs ih =>
    simp only [run] at hok ⊢
    cases hs : (applyBlock me n b).2.1 with
    | refused => simp [hs] at hok
    | panicked => simp [hs] at hok
    | ok =>
      simp only [hs] at hok ⊢
      rw [ih _ hok]
      obtain ⟨_, _, heq⟩ := applyBlock_ok_eq me n b hs
      cases bs with
      | nil => simp [lastNumber, heq, commit_reg, commitReg]
      | cons c cs =>
        obtain ⟨m, h1, h2⟩ := lastNumber_cons_ne b c cs
        simp [h1, h2]

theorem node_eq_of_sim {x x' y : Node} (h : Sim x y) (h' : Sim x' y) (hx : x.reg.txn = x.reg.db) (hx' : x'.reg.txn = x'.reg.db)
    (hm : x.reg.db.marker = x'.reg.db.marker) : x = x' := by
  cases x with
  | mk reg wal hist =>
    cases x' with
    | mk reg' wal' hist' =>
      cases reg with
      | mk db txn shares self =>
        cases reg' with
        | mk db' txn' shares' self' =>
          obtain ⟨h1, h2, h3, h4, h5, h6, h7⟩ := h
          obtain ⟨g1, g2, g3, g4, g5, g6, g7⟩ := h'
          simp only at *
          subst hx hx'
          cases txn; cases txn'
          simp only at *
          simp [h1, g1, h2, g2, h3, g3, h4, g4, h5, g5, h6, g6, h7, g7, hm]


/-! ## only the owner makes a share disappear -/

theorem regEvent_share_disappears (me blk : Nat) (r : RegMem) (e : Event) (pk : Nat) (sh : Share)
    (h1 : r.shares = r.txn.shares) (h2 : NodupPk r.shares)
    (hf : findShare r.shares pk = some sh) (hgone : findShare (regEvent me blk r e).shares pk = none) :
    ∃ ops, e = Event.validatorRemoved sh.owner pk ops := by
  cases e with
  | validatorAdded owner pk' sn len ms =>
    rw [regEvent_validatorAdded] at hgone
    split at hgone
    · rename_i shn _
      rw [findShare_upsert] at hgone
      by_cases hp : pk = shn.pk
      · simp [hp] at hgone
      · simp only [hp, ↓reduceIte] at hgone; rw [hf] at hgone; cases hgone
    · rw [show (bumpReg r owner).shares = r.shares from rfl, hf] at hgone; cases hgone
  | validatorRemoved owner pk' ops =>
    rw [regEvent_validatorRemoved] at hgone
    cases hf0 : findShare r.shares pk' with
    | none => simp only [hf0] at hgone; rw [hf] at hgone; cases hgone
    | some sh0 =>
      simp only [hf0] at hgone
      by_cases ho : (owner != sh0.owner) = true
      · simp only [ho, ↓reduceIte] at hgone; rw [hf] at hgone; cases hgone
      · simp only [ho, Bool.false_eq_true, ↓reduceIte] at hgone
        rw [findShare_erase] at hgone
        by_cases hp : pk = sh0.pk
        · have h3 : sh0.pk = pk' := findShare_pk hf0
          have hpk : pk = pk' := hp.trans h3
          subst hpk
          rw [hf] at hf0; cases hf0
          have : owner = sh.owner := by simpa using ho
          exact ⟨ops, by rw [this]⟩
        · simp only [hp, ↓reduceIte] at hgone; rw [hf] at hgone; cases hgone
  | clusterLiquidated owner ops =>
    rw [regEvent_clusterLiquidated] at hgone
    obtain ⟨s', hs'⟩ := (clusterEffect_find r owner ops true h1 h2 pk).2 sh hf
    rw [hs'] at hgone; cases hgone
  | clusterReactivated owner ops =>
    rw [regEvent_clusterReactivated] at hgone
    obtain ⟨s', hs'⟩ := (clusterEffect_find r owner ops false h1 h2 pk).2 sh hf
    rw [hs'] at hgone; cases hgone
  | operatorAdded id owner pk' =>
    rw [regEvent_operatorAdded] at hgone
    have : ∀ x : RegMem, x.shares = r.shares → findShare x.shares pk = none → False := by
      intro x hx hn; rw [hx, hf] at hn; cases hn
    split at hgone
    · exact absurd hgone (by rw [hf]; simp)
    · split at hgone
      · exact absurd hgone (by rw [hf]; simp)
      · split at hgone <;> exact (this _ rfl hgone).elim
  | operatorRemoved id => rw [regEvent_operatorRemoved, hf] at hgone; cases hgone
  | validatorExited owner pk' ops => rw [regEvent_validatorExited, hf] at hgone; cases hgone
  | feeRecipientUpdated owner fee =>
    rw [regEvent_feeRecipientUpdated] at hgone
    have : ∀ x : RegMem, x.shares = r.shares → findShare x.shares pk = none → False := by
      intro x hx hn; rw [hx, hf] at hn; cases hn
    split at hgone
    · split at hgone <;> exact (this _ rfl hgone).elim
    · exact (this _ rfl hgone).elim
  | unparsable => rw [regEvent_unparsable, hf] at hgone; cases hgone
  | unknownTopic => rw [regEvent_unknownTopic, hf] at hgone; cases hgone
  | noTopics => rw [regEvent_noTopics, hf] at hgone; cases hgone


/-! ## when a stream is processed completely -/

theorem addSteps_not_panic (v : View) (owner pk : Nat) (sn : Option Nat) (len : Nat) (ms : List Member) :
    (addSteps v owner pk sn len ms).2.isPanic = false := by
  unfold addSteps
  simp only []
  split
  · rfl
  · split
    · rfl
    · split
      · rfl
      · split
        · split <;> rfl
        · split <;> rfl

theorem regOutcome_panic (me blk : Nat) (r : RegMem) (e : Event) (h : e ≠ .noTopics) : (regOutcome me blk r e).isPanic = false := by
  cases e with
  | noTopics => exact absurd rfl h
  | validatorAdded owner pk sn len ms => exact addSteps_not_panic _ _ _ _ _ _
  | operatorAdded id owner pk =>
    simp only [regOutcome, regSteps]
    split
    · rfl
    · split <;> rfl
  | operatorRemoved id => simp only [regOutcome, regSteps]; split <;> rfl
  | validatorRemoved owner pk ops =>
    simp only [regOutcome, regSteps]
    split
    · rfl
    · split <;> rfl
  | validatorExited owner pk ops =>
    simp only [regOutcome, regSteps]
    split
    · rfl
    · split
      · rfl
      · split
        · rfl
        · split <;> rfl
  | clusterLiquidated owner ops => rfl
  | clusterReactivated owner ops => rfl
  | feeRecipientUpdated owner fee =>
    simp only [regOutcome, regSteps]
    split
    · split <;> rfl
    · rfl
  | unparsable => rfl
  | unknownTopic => rfl


/-- block numbers strictly increase, starting above `m` -/
def Increasing : Nat → List Block → Prop
  | _, [] => True
  | m, b :: bs => m < b.number ∧ Increasing b.number bs

theorem regEvents_no_panic (me blk : Nat) (r : RegMem) (es : List Event) (h : Event.noTopics ∉ es) :
    (regEvents me blk r es).2 = false := by
  induction es generalizing r with
  | nil => rfl
  | cons e es ih =>
    simp only [List.mem_cons, not_or] at h
    simp only [regEvents, regOutcome_panic me blk r e (fun he => h.1 he.symm), Bool.false_eq_true, ↓reduceIte]
    exact ih _ h.2

/-- a stream with strictly increasing block numbers above the marker and without a log that lacks topics is
    processed completely -/
theorem run_completes (me : Nat) (n : Node) (bs : List Block) (hinc : Increasing (n.reg.db.marker.getD 0) bs)
    (hnt : Event.noTopics ∉ flatten bs) : (run me n bs).2 = true := by
  induction bs generalizing n with
  | nil => rfl
  | cons b bs ih =>
    obtain ⟨hm, hrest⟩ := hinc
    have hnt1 : Event.noTopics ∉ b.events := fun h => hnt (by simp [flatten, h])
    have hnt2 : Event.noTopics ∉ flatten bs := fun h => hnt (by simp [flatten] at h ⊢; exact Or.inr h)
    have hb := applyBlock_reg me n b
    have hst : (regBlock me n.reg b).2 = .ok ∧ (regBlock me n.reg b).1.db.marker = some b.number := by
      have hi : decide (n.reg.db.marker.getD 0 ≥ b.number) = false := by simp; omega
      simp [regBlock, hi, regEvents_no_panic me b.number _ b.events hnt1, commitReg]
    simp only [run]
    rw [hb.2, hst.1]
    simp only []
    apply ih _ _ hnt2
    rw [hb.1, hst.2]
    exact hrest

end Ssv.Registry
