/-
C01 Layer B, part 6 — the log invariant, where each ghost event comes from, and the step lemmas of the rules H0–H7.
-/
import Ssv.Proofs.QbftNodeStep
import Mathlib.Data.Finset.Max
set_option linter.unusedSimpArgs false
set_option linter.unusedVariables false

namespace Ssv.Qbft.B
open Ssv.Qbft

/-! ### own messages -/

theorem createRoundChange_signers (cfg : Cfg) (s : State) (r : Nat) : (createRoundChange cfg s r).signers = [cfg.own] := by
  unfold createRoundChange; split <;> rfl

theorem createRoundChange_height (cfg : Cfg) (s : State) (r : Nat) : (createRoundChange cfg s r).height = s.height := by
  unfold createRoundChange; split <;> rfl

theorem createRoundChange_dataRound (cfg : Cfg) (s : State) (r : Nat) :
    (createRoundChange cfg s r).dataRound =
      if s.lastPreparedRound ≠ 0 ∧ s.lastPreparedValue ≠ 0 then s.lastPreparedRound else 0 := by
  have e : noRound = 0 := rfl
  unfold createRoundChange
  by_cases hc : s.lastPreparedRound ≠ 0 ∧ s.lastPreparedValue ≠ 0
  · have hb : (s.lastPreparedRound != noRound && s.lastPreparedValue != 0) = true := by
      simp [e, hc.1, hc.2]
    rw [if_pos hb, if_pos hc]; rfl
  · have hb : (s.lastPreparedRound != noRound && s.lastPreparedValue != 0) = false := by
      rw [e]
      cases h1 : (s.lastPreparedRound != 0) <;> cases h2 : (s.lastPreparedValue != 0) <;> simp
      exact hc ⟨by simpa using h1, by simpa using h2⟩
    rw [if_neg (by simp [hb]), if_neg hc]; rfl

/-- everything a node transition hands to `Broadcast` is a message of that (correct) operator for the height, and the
    trace (extended by the transition's events) reflects it -/
theorem log_step {P : Params} {T : List (Ev (Op P))} {A : Msg → Prop} (i : Op P) (hi : P.honest i = true)
    {os os' : Option State} {bs : List Msg} {evs : List (Ev (Op P))}
    (hst : NStep (P.cfg i) P.height A i os os' bs evs) (hinv : NodeInvO P T i os) :
    ∀ x ∈ bs, LogOK P (T ++ evs) x := by
  intro x hx
  have hprop : ∀ y : Msg, y.type = tProposal → y.signers = [(P.cfg i).own] → y.height = P.height → LogOK P (T ++ evs) y := by
    intro y h1 h2 h3
    refine ⟨i, hi, h2, h3, ?_, ?_, ?_⟩ <;> intro ht <;> rw [h1] at ht <;> exact absurd ht (by decide)
  cases hst with
  | idle h1 h2 h3 => rw [h2] at hx; simp at hx
  | create v h0 h1 h2 h3 => exact hprop x (h2 x hx).1 (h2 x hx).2.1 (h2 x hx).2.2
  | createDecided m ha h0 hv hh h1 h2 h3 => rw [h2] at hx; simp at hx
  | adopt s m ha h0 hd hv hh h1 h2 h3 => rw [h2] at hx; simp at hx
  | more s m ha h0 hd hv hh h1 h2 h3 => rw [h2] at hx; simp at hx
  | prop s m ha h0 hv hnew h1 h2 h3 =>
    rw [h0] at hinv
    have hinv' : NodeInv P T i s := hinv
    rcases h2 with h2 | h2
    · rw [h2] at hx; simp at hx
    · rw [h2] at hx; simp at hx; subst hx
      have hgp := isValidProposal_ok (P.cfg i) s m () hv
      refine ⟨i, hi, rfl, hinv'.height, ?_, ?_, ?_⟩
      · intro _
        rw [h3]
        have e : (createPrepare (P.cfg i) s m.round (hashData m.fullData)).root = m.root := hgp.hash
        rw [e]
        show Ev.P i m.round m.root ∈ T ++ [Ev.P i m.round m.root]
        simp
      · intro ht; exact absurd (show tPrepare = tCommit from ht) (by decide)
      · intro ht; exact absurd (show tPrepare = tRoundChange from ht) (by decide)
  | prep s m p ha h0 hacc hv h1 h2 h3 => rw [h2] at hx; simp at hx
  | prepQ s m p ha h0 hacc hv hq h1 h2 =>
    rw [h0] at hinv
    have hinv' : NodeInv P T i s := hinv
    rcases h2 with ⟨h2, _⟩ | ⟨h2, h3⟩
    · rw [h2] at hx; simp at hx
    · rw [h2] at hx; simp at hx; subst hx
      refine ⟨i, hi, rfl, hinv'.height, ?_, ?_, ?_⟩
      · intro ht; exact absurd (show tCommit = tPrepare from ht) (by decide)
      · intro _
        rw [h3]
        show Ev.K i s.round p.root ∈ T ++ [Ev.K i s.round p.root]
        simp
      · intro ht; exact absurd (show tCommit = tRoundChange from ht) (by decide)
  | com s m p ha h0 hacc hv h1 h2 h3 => rw [h2] at hx; simp at hx
  | comQ s m p agg ha h0 hacc hv hq hagg h1 h2 h3 => rw [h2] at hx; simp at hx
  | rc s X h0 h1 h2 h3 =>
    rw [h0] at hinv
    have hinv' : NodeInv P T i s := hinv
    exact hprop x (h2 x hx).1 (h2 x hx).2.1 (by rw [(h2 x hx).2.2, hinv'.height])
  | jump s X R h0 hR h1 h2 =>
    rw [h0] at hinv
    have hinv' : NodeInv P T i s := hinv
    rcases h2 with ⟨h2, _⟩ | ⟨h2, h3⟩
    · rw [h2] at hx; simp at hx
    · rw [h2] at hx; simp at hx; subst hx
      refine ⟨i, hi, createRoundChange_signers _ _ _, by rw [createRoundChange_height, hinv'.height], ?_, ?_, ?_⟩
      · intro ht; rw [createRoundChange_type] at ht; exact absurd ht (by decide)
      · intro ht; rw [createRoundChange_type] at ht; exact absurd ht (by decide)
      · intro _
        rw [h3, createRoundChange_round]
        simp

/-! ### where events come from -/

theorem origin_P {N : Type} {cfg : Cfg} {h : Nat} {A : Msg → Prop} {i : N} {os os' : Option State} {bs : List Msg}
    {evs : List (Ev N)} (hst : NStep cfg h A i os os' bs evs) {j : N} {r v : Nat} (he : Ev.P j r v ∈ evs) :
    j = i ∧ evs = [Ev.P i r v] ∧ ∃ s m, os = some s ∧ A m ∧ isValidProposal cfg s m = .ok () ∧ r = m.round ∧ v = m.root := by
  cases hst with
  | idle h1 h2 h3 => rw [h3] at he; simp at he
  | create v h0 h1 h2 h3 => rw [h3] at he; simp at he
  | createDecided m ha h0 hv hh h1 h2 h3 => rw [h3] at he; simp at he
  | adopt s m ha h0 hd hv hh h1 h2 h3 => rw [h3] at he; simp at he
  | more s m ha h0 hd hv hh h1 h2 h3 => rw [h3] at he; simp at he
  | prop s m ha h0 hv hnew h1 h2 h3 =>
    rw [h3] at he; simp at he
    obtain ⟨rfl, rfl, rfl⟩ := he
    exact ⟨rfl, h3, s, m, h0, ha, hv, rfl, rfl⟩
  | prep s m p ha h0 hacc hv h1 h2 h3 => rw [h3] at he; simp at he
  | prepQ s m p ha h0 hacc hv hq h1 h2 => rcases h2 with ⟨_, h3⟩ | ⟨_, h3⟩ <;> rw [h3] at he <;> simp at he
  | com s m p ha h0 hacc hv h1 h2 h3 => rw [h3] at he; simp at he
  | comQ s m p agg ha h0 hacc hv hq hagg h1 h2 h3 => rw [h3] at he; simp at he
  | rc s X h0 h1 h2 h3 => rw [h3] at he; simp at he
  | jump s X R h0 hR h1 h2 => rcases h2 with ⟨_, h3⟩ | ⟨_, h3⟩ <;> rw [h3] at he <;> simp at he

theorem origin_K {N : Type} {cfg : Cfg} {h : Nat} {A : Msg → Prop} {i : N} {os os' : Option State} {bs : List Msg}
    {evs : List (Ev N)} (hst : NStep cfg h A i os os' bs evs) {j : N} {r v : Nat} (he : Ev.K j r v ∈ evs) :
    j = i ∧ evs = [Ev.K i r v] ∧ ∃ s m p, os = some s ∧ A m ∧ s.accepted = some p ∧
      validSignedPrepare cfg m.toBase s.height s.round p.root = .ok () ∧
      cfg.hasQuorum (signersOf (forRound (s.prepare ++ [m]) s.round)) = true ∧ r = s.round ∧ v = p.root := by
  cases hst with
  | idle h1 h2 h3 => rw [h3] at he; simp at he
  | create v h0 h1 h2 h3 => rw [h3] at he; simp at he
  | createDecided m ha h0 hv hh h1 h2 h3 => rw [h3] at he; simp at he
  | adopt s m ha h0 hd hv hh h1 h2 h3 => rw [h3] at he; simp at he
  | more s m ha h0 hd hv hh h1 h2 h3 => rw [h3] at he; simp at he
  | prop s m ha h0 hv hnew h1 h2 h3 => rw [h3] at he; simp at he
  | prep s m p ha h0 hacc hv h1 h2 h3 => rw [h3] at he; simp at he
  | prepQ s m p ha h0 hacc hv hq h1 h2 =>
    rcases h2 with ⟨_, h3⟩ | ⟨_, h3⟩
    · rw [h3] at he; simp at he
    · rw [h3] at he; simp at he
      obtain ⟨rfl, rfl, rfl⟩ := he
      exact ⟨rfl, h3, s, m, p, h0, ha, hacc, hv, hq, rfl, rfl⟩
  | com s m p ha h0 hacc hv h1 h2 h3 => rw [h3] at he; simp at he
  | comQ s m p agg ha h0 hacc hv hq hagg h1 h2 h3 => rw [h3] at he; simp at he
  | rc s X h0 h1 h2 h3 => rw [h3] at he; simp at he
  | jump s X R h0 hR h1 h2 => rcases h2 with ⟨_, h3⟩ | ⟨_, h3⟩ <;> rw [h3] at he <;> simp at he

theorem origin_RC {N : Type} {cfg : Cfg} {h : Nat} {A : Msg → Prop} {i : N} {os os' : Option State} {bs : List Msg}
    {evs : List (Ev N)} (hst : NStep cfg h A i os os' bs evs) {j : N} {r pr pv : Nat} (he : Ev.RC j r pr pv ∈ evs) :
    j = i ∧ evs = [Ev.RC i r pr pv] ∧ ∃ s, os = some s ∧ s.round < r ∧ pr = (createRoundChange cfg s r).dataRound := by
  cases hst with
  | idle h1 h2 h3 => rw [h3] at he; simp at he
  | create v h0 h1 h2 h3 => rw [h3] at he; simp at he
  | createDecided m ha h0 hv hh h1 h2 h3 => rw [h3] at he; simp at he
  | adopt s m ha h0 hd hv hh h1 h2 h3 => rw [h3] at he; simp at he
  | more s m ha h0 hd hv hh h1 h2 h3 => rw [h3] at he; simp at he
  | prop s m ha h0 hv hnew h1 h2 h3 => rw [h3] at he; simp at he
  | prep s m p ha h0 hacc hv h1 h2 h3 => rw [h3] at he; simp at he
  | prepQ s m p ha h0 hacc hv hq h1 h2 => rcases h2 with ⟨_, h3⟩ | ⟨_, h3⟩ <;> rw [h3] at he <;> simp at he
  | com s m p ha h0 hacc hv h1 h2 h3 => rw [h3] at he; simp at he
  | comQ s m p agg ha h0 hacc hv hq hagg h1 h2 h3 => rw [h3] at he; simp at he
  | rc s X h0 h1 h2 h3 => rw [h3] at he; simp at he
  | jump s X R h0 hR h1 h2 =>
    rcases h2 with ⟨_, h3⟩ | ⟨_, h3⟩
    · rw [h3] at he; simp at he
    · rw [h3] at he; simp at he
      obtain ⟨rfl, rfl, rfl, rfl⟩ := he
      exact ⟨rfl, h3, s, h0, hR, rfl⟩

theorem origin_G {N : Type} {cfg : Cfg} {h : Nat} {A : Msg → Prop} {i : N} {os os' : Option State} {bs : List Msg}
    {evs : List (Ev N)} (hst : NStep cfg h A i os os' bs evs) {j : N} {rc : Nat} (he : Ev.G j rc ∈ evs) :
    j = i ∧ ∃ m, A m ∧ validateDecided cfg m = .ok () ∧ rc = m.round ∧ evs = [Ev.G i m.round, Ev.D i m.round m.fullData] := by
  cases hst with
  | idle h1 h2 h3 => rw [h3] at he; simp at he
  | create v h0 h1 h2 h3 => rw [h3] at he; simp at he
  | createDecided m ha h0 hv hh h1 h2 h3 =>
    rw [h3] at he; simp at he
    obtain ⟨rfl, rfl⟩ := he
    exact ⟨rfl, m, ha, hv, rfl, h3⟩
  | adopt s m ha h0 hd hv hh h1 h2 h3 =>
    rw [h3] at he; simp at he
    obtain ⟨rfl, rfl⟩ := he
    exact ⟨rfl, m, ha, hv, rfl, h3⟩
  | more s m ha h0 hd hv hh h1 h2 h3 => rw [h3] at he; simp at he
  | prop s m ha h0 hv hnew h1 h2 h3 => rw [h3] at he; simp at he
  | prep s m p ha h0 hacc hv h1 h2 h3 => rw [h3] at he; simp at he
  | prepQ s m p ha h0 hacc hv hq h1 h2 => rcases h2 with ⟨_, h3⟩ | ⟨_, h3⟩ <;> rw [h3] at he <;> simp at he
  | com s m p ha h0 hacc hv h1 h2 h3 => rw [h3] at he; simp at he
  | comQ s m p agg ha h0 hacc hv hq hagg h1 h2 h3 => rw [h3] at he; simp at he
  | rc s X h0 h1 h2 h3 => rw [h3] at he; simp at he
  | jump s X R h0 hR h1 h2 => rcases h2 with ⟨_, h3⟩ | ⟨_, h3⟩ <;> rw [h3] at he <;> simp at he

/-- a reported decision is either an adopted decided message or a local commit quorum -/
theorem origin_D {N : Type} {cfg : Cfg} {h : Nat} {A : Msg → Prop} {i : N} {os os' : Option State} {bs : List Msg}
    {evs : List (Ev N)} (hst : NStep cfg h A i os os' bs evs) {j : N} {r v : Nat} (he : Ev.D j r v ∈ evs) :
    j = i ∧
    ((∃ m, A m ∧ validateDecided cfg m = .ok () ∧ r = m.round ∧ v = m.fullData) ∨
     (∃ s m p agg, os = some s ∧ A m ∧ s.accepted = some p ∧
        validateCommit cfg m.toBase s.height s.round p = .ok () ∧
        cfg.quorum ≤ (longestUniqueSigners (s.commit ++ [m]) m.round m.root).1.length ∧
        aggregateCommitMsgs (longestUniqueSigners (s.commit ++ [m]) m.round m.root).2 p.fullData = .ok agg ∧
        r = agg.round ∧ v = agg.fullData)) := by
  cases hst with
  | idle h1 h2 h3 => rw [h3] at he; simp at he
  | create v h0 h1 h2 h3 => rw [h3] at he; simp at he
  | createDecided m ha h0 hv hh h1 h2 h3 =>
    rw [h3] at he; simp at he
    obtain ⟨rfl, rfl, rfl⟩ := he
    exact ⟨rfl, Or.inl ⟨m, ha, hv, rfl, rfl⟩⟩
  | adopt s m ha h0 hd hv hh h1 h2 h3 =>
    rw [h3] at he; simp at he
    obtain ⟨rfl, rfl, rfl⟩ := he
    exact ⟨rfl, Or.inl ⟨m, ha, hv, rfl, rfl⟩⟩
  | more s m ha h0 hd hv hh h1 h2 h3 => rw [h3] at he; simp at he
  | prop s m ha h0 hv hnew h1 h2 h3 => rw [h3] at he; simp at he
  | prep s m p ha h0 hacc hv h1 h2 h3 => rw [h3] at he; simp at he
  | prepQ s m p ha h0 hacc hv hq h1 h2 => rcases h2 with ⟨_, h3⟩ | ⟨_, h3⟩ <;> rw [h3] at he <;> simp at he
  | com s m p ha h0 hacc hv h1 h2 h3 => rw [h3] at he; simp at he
  | comQ s m p agg ha h0 hacc hv hq hagg h1 h2 h3 =>
    rw [h3] at he; simp at he
    obtain ⟨rfl, rfl, rfl⟩ := he
    exact ⟨rfl, Or.inr ⟨s, m, p, agg, h0, ha, hacc, hv, hq, hagg, rfl, rfl⟩⟩
  | rc s X h0 h1 h2 h3 => rw [h3] at he; simp at he
  | jump s X R h0 hR h1 h2 => rcases h2 with ⟨_, h3⟩ | ⟨_, h3⟩ <;> rw [h3] at he <;> simp at he

/-! ### old and new indices of an extended trace -/

theorem at_ext {P : Params} {hP : P.Valid} {T evs : List (Ev (Op P))} {k : Nat} {q : QAbs.Ev (Op P)}
    (h : QAbs.At (ctxT P hP T) k q) : QAbs.At (ctxT P hP (T ++ evs)) k q := by
  obtain ⟨e, rfl⟩ := toQ_surj q
  exact at_iff.2 (getElem?_append_old (at_iff.1 h))

theorem at_cases {P : Params} {hP : P.Valid} {T evs : List (Ev (Op P))} {k : Nat} {e : Ev (Op P)}
    (h : QAbs.At (ctxT P hP (T ++ evs)) k (toQ e)) :
    (k < T.length ∧ QAbs.At (ctxT P hP T) k (toQ e)) ∨ (T.length ≤ k ∧ evs[k - T.length]? = some e) := by
  rcases getElem?_append_cases (at_iff.1 h) with ⟨h1, h2⟩ | ⟨h1, h2⟩
  · exact Or.inl ⟨h1, at_iff.2 h2⟩
  · exact Or.inr ⟨h1, h2⟩

theorem at_lt {P : Params} {hP : P.Valid} {T : List (Ev (Op P))} {k : Nat} {q : QAbs.Ev (Op P)}
    (h : QAbs.At (ctxT P hP T) k q) : k < T.length := by
  obtain ⟨e, rfl⟩ := toQ_surj q
  exact getElem?_lt (at_iff.1 h)

theorem at_old {P : Params} {hP : P.Valid} {T evs : List (Ev (Op P))} {k : Nat} {q : QAbs.Ev (Op P)}
    (h : QAbs.At (ctxT P hP (T ++ evs)) k q) (hk : k < T.length) : QAbs.At (ctxT P hP T) k q := by
  obtain ⟨e, rfl⟩ := toQ_surj q
  rcases at_cases h with ⟨_, h2⟩ | ⟨h1, _⟩
  · exact h2
  · omega

theorem single_index {α : Type} {x e : α} {n : Nat} (h : [x][n]? = some e) : n = 0 ∧ e = x := by
  cases n with
  | zero => simp at h; exact ⟨rfl, h.symm⟩
  | succ n => simp at h

theorem mem_signersOf (l : List Msg) (s : Nat) : s ∈ signersOf l ↔ ∃ x ∈ l, s ∈ x.signers := by
  simp [signersOf]

theorem mem_signersOfB (l : List Base) (s : Nat) : s ∈ signersOfB l ↔ ∃ x ∈ l, s ∈ x.signers := by
  simp [signersOfB]

theorem mem_signersOfL (l : List Lvl1) (s : Nat) : s ∈ signersOfL l ↔ ∃ x ∈ l, s ∈ x.signers := by
  simp [signersOfL]

/-! ### commit quorums -/

theorem kq_of_cert {P : Params} (hP : P.Valid) {T evs : List (Ev (Op P))} {m : Msg} (cf : CertFacts P T m) {k : Nat}
    (hk : T.length ≤ k) : QAbs.KQ (ctxT P hP (T ++ evs)) k m.round m.root := by
  obtain ⟨S, hS, hm⟩ := quorum_set P m.signers P.quorum cf.ok.2.1 cf.quorum
  rw [kernel_quorum P hP] at hS
  exact kq_of_mem hk S hS (fun j hj hh => cf.ok.2.2 j hh (hm j hj))

/-- a local commit quorum is an authentic commit quorum for the accepted proposal's value -/
theorem kq_of_local {P : Params} (hP : P.Valid) {T evs : List (Ev (Op P))} {log : List Msg}
    (hlog : ∀ m ∈ log, LogOK P T m) (i : Op P) (s : State) (hinv : NodeInv P T i s) (m p agg : Msg)
    (ha : authentic P log m = true ∧ m.ident = ownIdent) (hacc : s.accepted = some p)
    (hv : validateCommit (P.cfg i) m.toBase s.height s.round p = .ok ())
    (hq : (P.cfg i).quorum ≤ (longestUniqueSigners (s.commit ++ [m]) m.round m.root).1.length)
    (hagg : aggregateCommitMsgs (longestUniqueSigners (s.commit ++ [m]) m.round m.root).2 p.fullData = .ok agg)
    {k : Nat} (hk : T.length ≤ k) : QAbs.KQ (ctxT P hP (T ++ evs)) k agg.round agg.fullData := by
  obtain ⟨hmok, hmr, hroot⟩ := commitOK_of_validateCommit hlog i m _ _ p hv ha.1 ha.2
  have hcc : ∀ x ∈ s.commit ++ [m], CommitOK P T x ∧ x.signers.Nodup := by
    intro x hx
    rcases List.mem_append.1 hx with hx | hx
    · exact ⟨hinv.commits x hx, (hinv.commits x hx).1⟩
    · simp at hx; subst hx; exact ⟨hmok, hmok.1⟩
  have hspec := longestUniqueSigners_spec (CommitOK P T) (s.commit ++ [m]) m.round m.root hcc
  obtain ⟨hsg, hnd, hms⟩ := hspec
  obtain ⟨m0, rest, hmsgs, _, _, _, hro, _, _, hfd, _⟩ := aggregateCommitMsgs_spec _ _ _ hagg
  have hm0 : m0 ∈ (longestUniqueSigners (s.commit ++ [m]) m.round m.root).2 := by rw [hmsgs]; exact List.mem_cons_self
  have hround : agg.round = m.round := by rw [hro]; exact (hms m0 hm0).2.1
  have hp := hinv.propGood p (hinv.acc p hacc).1
  have hval : agg.fullData = m.root := by
    rw [hfd, ← hroot]; exact hp.hash
  rw [hround, hval]
  have hcomm : ∀ sg ∈ (longestUniqueSigners (s.commit ++ [m]) m.round m.root).1, sg ∈ P.committee := by
    intro sg hsgm
    rw [hsg, mem_signersOf] at hsgm
    obtain ⟨x, hx, hxs⟩ := hsgm
    exact (hms x hx).1.2.1 sg hxs
  have hq' : P.quorum ≤ uniqueCount (longestUniqueSigners (s.commit ++ [m]) m.round m.root).1 := by
    rw [uniqueCount_of_nodup _ hnd]; exact hq
  obtain ⟨S, hS, hm⟩ := quorum_set P _ P.quorum hcomm hq'
  rw [kernel_quorum P hP] at hS
  refine kq_of_mem hk S hS ?_
  intro j hj hh
  have := hm j hj
  rw [hsg, mem_signersOf] at this
  obtain ⟨x, hx, hxs⟩ := this
  have hK := (hms x hx).1.2.2 j hh hxs
  rw [(hms x hx).2.1, (hms x hx).2.2] at hK
  exact hK

/-! ### the step lemmas of the rules -/

/-- everything known when one correct node takes a transition from a state satisfying the invariants -/
structure StepCtx (P : Params) (hP : P.Valid) (T : List (Ev (Op P))) (log : List Msg) (i : Op P)
    (os os' : Option State) (bs : List Msg) (evs : List (Ev (Op P))) : Prop where
  hi : P.honest i = true
  hlog : ∀ m ∈ log, LogOK P T m
  hst : NStep (P.cfg i) P.height (fun m => authentic P log m = true ∧ m.ident = ownIdent) i os os' bs evs
  hpre : NodeInvO P T i os
  R : QAbs.Rules (ctxT P hP T)

section
variable {P : Params} {hP : P.Valid} {T : List (Ev (Op P))} {log : List Msg} {i : Op P}
  {os os' : Option State} {bs : List Msg} {evs : List (Ev (Op P))}

theorem step_H0 (X : StepCtx P hP T log i os os' bs evs) :
    ∀ (i' : Op P) (r v k : Nat), i' ∉ (ctxT P hP (T ++ evs)).byz → QAbs.At (ctxT P hP (T ++ evs)) k (.K i' r v) → 1 ≤ r := by
  intro i' r v k hb h
  rcases at_cases (e := .K i' r v) h with ⟨_, hold⟩ | ⟨_, hnew⟩
  · exact X.R.H0 i' r v k hb hold
  · obtain ⟨rfl, _, s, m, p, h0, _, _, _, _, hr, _⟩ := origin_K X.hst (getElem?_mem' hnew)
    have hpre := X.hpre
    rw [h0] at hpre
    rw [hr]
    exact NodeInv.round hpre

theorem step_H6 (X : StepCtx P hP T log i os os' bs evs) :
    ∀ (i' : Op P) (rc k : Nat), i' ∉ (ctxT P hP (T ++ evs)).byz → QAbs.At (ctxT P hP (T ++ evs)) k (.G i' rc) →
      ∃ v, QAbs.KQ (ctxT P hP (T ++ evs)) k rc v := by
  intro i' rc k hb h
  rcases at_cases (e := .G i' rc) h with ⟨_, hold⟩ | ⟨hk, hnew⟩
  · obtain ⟨v, hkq⟩ := X.R.H6 i' rc k hb hold
    exact ⟨v, kq_ext hkq⟩
  · obtain ⟨rfl, m, ha, hv, hr, _⟩ := origin_G X.hst (getElem?_mem' hnew)
    have cf := cert_facts hP X.hlog i' m hv ha.1 ha.2
    rw [hr]
    exact ⟨m.root, kq_of_cert hP cf hk⟩

theorem step_H7 (X : StepCtx P hP T log i os os' bs evs) :
    ∀ (i' : Op P) (r v k : Nat), i' ∉ (ctxT P hP (T ++ evs)).byz → QAbs.At (ctxT P hP (T ++ evs)) k (.D i' r v) →
      QAbs.KQ (ctxT P hP (T ++ evs)) (k + 1) r v := by
  intro i' r v k hb h
  rcases at_cases (e := .D i' r v) h with ⟨_, hold⟩ | ⟨hk, hnew⟩
  · exact kq_ext (X.R.H7 i' r v k hb hold)
  · obtain ⟨rfl, hcase⟩ := origin_D X.hst (getElem?_mem' hnew)
    rcases hcase with ⟨m, ha, hv, hr, hvv⟩ | ⟨s, m, p, agg, h0, ha, hacc, hv, hq, hagg, hr, hvv⟩
    · have cf := cert_facts hP X.hlog i' m hv ha.1 ha.2
      rw [hr, hvv, cf.hash]
      exact kq_of_cert hP cf (by omega)
    · have hpre := X.hpre
      rw [h0] at hpre
      rw [hr, hvv]
      exact kq_of_local hP X.hlog i' s hpre m p agg ha hacc hv hq hagg (by omega)

theorem step_H5 (X : StepCtx P hP T log i os os' bs evs) :
    ∀ (i' : Op P) (r v r' pr pv k1 k2 : Nat), i' ∉ (ctxT P hP (T ++ evs)).byz →
      QAbs.At (ctxT P hP (T ++ evs)) k1 (.RC i' r' pr pv) → QAbs.At (ctxT P hP (T ++ evs)) k2 (.K i' r v) →
      k1 < k2 → r < r' →
      ∃ g rc, k1 < g ∧ g < k2 ∧ QAbs.At (ctxT P hP (T ++ evs)) g (.G i' rc) ∧ rc ≤ r := by
  intro i' r v r' pr pv k1 k2 hb hRC hK hlt hrr
  rcases at_cases (e := .K i' r v) hK with ⟨hk2, hold⟩ | ⟨hk2, hnew⟩
  · have hRC' := at_old hRC (by omega)
    obtain ⟨g, rc, h1, h2, h3, h4⟩ := X.R.H5 i' r v r' pr pv k1 k2 hb hRC' hold hlt hrr
    exact ⟨g, rc, h1, h2, at_ext h3, h4⟩
  · obtain ⟨rfl, hevs, s, m, p, h0, _, _, _, _, hr, _⟩ := origin_K X.hst (getElem?_mem' hnew)
    have hpre := X.hpre
    rw [h0] at hpre
    have hRCold : T[k1]? = some (Ev.RC i' r' pr pv) := by
      rcases at_cases (e := .RC i' r' pr pv) hRC with ⟨_, hold⟩ | ⟨_, hn⟩
      · exact at_iff.1 hold
      · have := getElem?_mem' hn
        rw [hevs] at this; simp at this
    rcases NodeInv.rcRound hpre k1 r' pr pv hRCold with hle | ⟨g, rc, h1, h2, h3⟩
    · omega
    · exact ⟨g, rc, h1, by have := getElem?_lt h2; omega, at_iff.2 (getElem?_append_old h2), by omega⟩

theorem step_H4 (X : StepCtx P hP T log i os os' bs evs) :
    ∀ (i' : Op P) (r v r' pr pv k1 k2 : Nat), i' ∉ (ctxT P hP (T ++ evs)).byz →
      QAbs.At (ctxT P hP (T ++ evs)) k1 (.K i' r v) → QAbs.At (ctxT P hP (T ++ evs)) k2 (.RC i' r' pr pv) →
      k1 < k2 → r < r' →
      (∀ g rc, k1 < g → g < k2 → QAbs.At (ctxT P hP (T ++ evs)) g (.G i' rc) → r ≤ rc) → r ≤ pr := by
  intro i' r v r' pr pv k1 k2 hb hK hRC hlt hrr hyp
  rcases at_cases (e := .RC i' r' pr pv) hRC with ⟨hk2, hold⟩ | ⟨hk2, hnew⟩
  · have hK' := at_old hK (by omega)
    exact X.R.H4 i' r v r' pr pv k1 k2 hb hK' hold hlt hrr (fun g rc h1 h2 hG => hyp g rc h1 h2 (at_ext hG))
  · obtain ⟨rfl, hevs, s, h0, _, hpr⟩ := origin_RC X.hst (getElem?_mem' hnew)
    have hpre := X.hpre
    rw [h0] at hpre
    have hk2' : k2 = T.length := by
      rw [hevs] at hnew
      have := (single_index hnew).1
      omega
    have hKold : T[k1]? = some (Ev.K i' r v) := by
      rcases at_cases (e := .K i' r v) hK with ⟨_, hold⟩ | ⟨_, hn⟩
      · exact at_iff.1 hold
      · have := getElem?_mem' hn
        rw [hevs] at this; simp at this
    have hr1 : 1 ≤ r := X.R.H0 i' r v k1 hb (at_iff.2 hKold)
    have hl := (NodeInv.kLock hpre k1 r v hKold (fun g rc h1 hG =>
      hyp g rc h1 (by have := getElem?_lt hG; omega) (at_iff.2 (getElem?_append_old hG)))).2
    have hne : s.lastPreparedRound ≠ 0 := by omega
    rw [hpr, createRoundChange_dataRound, if_pos ⟨hne, NodeInv.lock hpre hne⟩]
    exact hl

end

end Ssv.Qbft.B
