/-
C07 clause (c), part 2 — the wedge invariant `W` is preserved by every enabled step whose delivery is `quiet`.
-/
import Ssv.Proofs.QbftWedge
set_option linter.unusedSimpArgs false
set_option linter.unusedVariables false

namespace Ssv.Qbft.B.Wedge
open Ssv.Qbft Ssv.Qbft.B

/-! ### counting among three correct operators -/

theorem three_of_three (l : List Nat) (hnd : l.Nodup) (hsub : ∀ x ∈ l, x = 1 ∨ x = 2 ∨ x = 3) (hlen : 3 ≤ l.length) :
    1 ∈ l ∧ 2 ∈ l := by
  have h1 : l.toFinset ⊆ ({1, 2, 3} : Finset Nat) := by
    intro x hx
    rcases hsub x (List.mem_toFinset.1 hx) with rfl | rfl | rfl <;> simp
  have h2 : l.toFinset.card = l.length := List.toFinset_card_of_nodup hnd
  have h3 : ({1, 2, 3} : Finset Nat).card ≤ l.toFinset.card := by rw [h2]; simpa using hlen
  have h4 := Finset.eq_of_subset_of_card_le h1 h3
  constructor
  · apply List.mem_toFinset.1; rw [h4]; simp
  · apply List.mem_toFinset.1; rw [h4]; simp

theorem committee_cases (s : Nat) (h : s ∈ wP.committee) (h4 : s ≠ 4) : s = 1 ∨ s = 2 ∨ s = 3 := by
  have := (mem_committee wP s).1 h
  have hn : wP.n = 4 := rfl
  omega

theorem quiet_use (b : Base) (hq : quietBase b = true) (hs : b.sigOk = true) (h4 : 4 ∈ b.signers) :
    b.type ≠ tCommit ∧ ¬ (b.type = tRoundChange ∧ 3 ≤ b.round) := by
  unfold quietBase at hq
  simp only [hs, Bool.not_true, Bool.false_or, Bool.or_eq_true, Bool.not_eq_true', Bool.and_eq_true, bne_iff_ne, ne_eq,
    Bool.and_eq_false_iff, beq_eq_false_iff_ne, decide_eq_false_iff_not, List.contains_eq_mem, decide_eq_false_iff_not] at hq
  rcases hq with hq | ⟨h1, h2⟩
  · exact absurd h4 (by simpa using hq)
  · refine ⟨h1, ?_⟩
    rintro ⟨a, b'⟩
    rcases h2 with h2 | h2
    · exact h2 a
    · exact h2 b'

theorem backed_get {log : List Msg} {b : Base} (hb : backed wP log b = true) (hs : b.sigOk = true) (hid : b.ident = ownIdent)
    (s : Nat) (hmem : s ∈ b.signers) (hh : wP.honestId s = true) :
    ∃ m' ∈ log, m'.signers = [s] ∧ m'.type = b.type ∧ m'.round = b.round ∧ m'.root = b.root ∧ m'.dataRound = b.dataRound := by
  unfold backed at hb
  simp only [hs, hid, bne_self_eq_false, Bool.not_true, Bool.false_or, List.all_eq_true, Bool.or_eq_true, Bool.not_eq_true',
    List.any_eq_true] at hb
  rcases hb s hmem with h | ⟨m', hm', hsame⟩
  · rw [hh] at h; exact absurd h (by simp)
  · unfold sameSigned at hsame
    simp only [Bool.and_eq_true, beq_iff_eq] at hsame
    obtain ⟨⟨⟨⟨⟨⟨e1, e2⟩, _⟩, e4⟩, e5⟩, e6⟩, _⟩ := hsame
    exact ⟨m', hm', e1, e2, e4, e5, e6⟩

theorem uniq_three (l : List Nat) (hsub : ∀ x ∈ l, x = 1 ∨ x = 2 ∨ x = 3) (hq : 3 ≤ uniqueCount l) : 1 ∈ l ∧ 2 ∈ l := by
  have := three_of_three (uniq l) (uniq_nodup l) (fun x hx => hsub x ((uniq_mem l x).1 hx)) hq
  exact ⟨(uniq_mem l 1).1 this.1, (uniq_mem l 2).1 this.2⟩

/-! ### no certificate, no justified proposal -/

/-- no decided message validates: operators 1 and 2 committed in different rounds, operator 4 signs no commit -/
theorem no_decided {log : List Msg} (hlog : WLog log) (i : Op wP) (m : Msg) (ha : authentic wP log m = true)
    (hid : m.ident = ownIdent) (hq : quiet m = true) : validateDecided (wP.cfg i) m ≠ .ok () := by
  intro hv
  obtain ⟨ht, hqu, hnd, _, hso, hc, _⟩ := validateDecided_ok _ m () hv
  have hqb : quietBase m.toBase = true := by
    unfold quiet at hq; simp only [Bool.and_eq_true] at hq; exact hq.1
  have h4 : 4 ∉ m.signers := fun h4 => (quiet_use m.toBase hqb hso h4).1 ht
  have hsub : ∀ x ∈ m.signers, x = 1 ∨ x = 2 ∨ x = 3 :=
    fun x hx => committee_cases x (hc x hx) (fun e => h4 (e ▸ hx))
  have hlen : 3 ≤ m.signers.length := hqu
  obtain ⟨h1, h2⟩ := three_of_three m.signers hnd hsub hlen
  obtain ⟨m1, hm1, s1, t1, r1, _, _⟩ := backed_get (authentic_base ha) hso hid 1 h1 (by decide)
  obtain ⟨m2, hm2, s2, t2, r2, _, _⟩ := backed_get (authentic_base ha) hso hid 2 h2 (by decide)
  have e1 := (hlog m1 hm1 0 (by decide) s1).2 (by rw [t1]; exact ht)
  have e2 := (hlog m2 hm2 1 (by decide) s2).2 (by rw [t2]; exact ht)
  have l0 : (lockOf 0).1 = 1 := rfl
  have l1 : (lockOf 1).1 = 2 := rfl
  have hr1 : m1.round = m.round := r1
  have hr2 : m2.round = m.round := r2
  omega

/-- no proposal validates at a node in round ≥ 3: its round-change quorum must contain operators 1 and 2, whose round-changes
    are prepared for different values -/
theorem no_proposal {log : List Msg} (hlog : WLog log) (i : Op wP) (s : State) (hr : 3 ≤ s.round) (m : Msg)
    (ha : authentic wP log m = true) (hq : quiet m = true) : isValidProposal (wP.cfg i) s m ≠ .ok () := by
  intro hv
  have hst := isValidProposal_state _ s m () hv
  have hmr : 3 ≤ m.round := by rcases hst with ⟨_, e⟩ | e <;> omega
  obtain ⟨_, hjust⟩ := isValidProposal_just _ s m () hv
  have hfr : firstRound = 1 := rfl
  obtain ⟨hrcs, hqrc⟩ := just_facts _ _ _ _ _ _ _ () hjust (by rw [hfr]; omega)
  have hqrc' : 3 ≤ uniqueCount (signersOfL m.rcJust) := (hasQuorum_iff _ _).1 hqrc
  have hauth := authentic_rc ha
  have hqall : ∀ rc ∈ m.rcJust, quietBase rc.toBase = true := by
    unfold quiet at hq; simp only [Bool.and_eq_true, List.all_eq_true] at hq; exact hq.2
  have hV : ∀ rc ∈ m.rcJust, RcValid (wP.cfg i) s.height rc m.round m.fullData :=
    fun rc hin => validRC_facts _ _ rc _ _ _ () (hrcs rc hin)
  have hsub : ∀ x ∈ signersOfL m.rcJust, x = 1 ∨ x = 2 ∨ x = 3 := by
    intro x hx
    obtain ⟨rc, hin, hxs⟩ := (mem_signersOfL _ _).1 hx
    have V := hV rc hin
    obtain ⟨sg, e1, e2⟩ := V.signer
    rw [e1] at hxs; simp at hxs; subst hxs
    refine committee_cases x e2 ?_
    intro e4
    have h4 : 4 ∈ rc.toBase.signers := by rw [e1, e4]; simp
    exact (quiet_use rc.toBase (hqall rc hin) V.sigOk h4).2 ⟨V.type, by rw [V.round]; exact hmr⟩
  obtain ⟨h1, h2⟩ := uniq_three _ hsub hqrc'
  -- the round-change of operator `k+1` is prepared for that operator's locked value
  have key : ∀ (k : Op wP) (sgn : Nat), wP.honest k = true → opId k = sgn → wP.honestId sgn = true → (lockOf k).1 ≠ 0 →
      sgn ∈ signersOfL m.rcJust → m.fullData = (lockOf k).2 := by
    intro k sgn hk hid hh hne hin
    obtain ⟨rc, hrcin, hxs⟩ := (mem_signersOfL _ _).1 hin
    have V := hV rc hrcin
    obtain ⟨m', hm', s', t', r', ro', d'⟩ := backed_get (hauth rc hrcin).1 V.sigOk V.ident sgn hxs hh
    have hrr : m'.round = m.round := by rw [r']; exact V.round
    have hl := (hlog m' hm' k hk (by rw [s', hid])).1 (by rw [t']; exact V.type) (by rw [hrr]; exact hmr)
    have hdr : rc.dataRound = (lockOf k).1 := by rw [← hl.1]; exact d'.symm
    have hroot : rc.root = (lockOf k).2 := by rw [← hl.2]; exact ro'.symm
    have := (V.prepared (by rw [hdr]; exact hne)).2.1
    rw [this, hroot]
  have e1 := key 0 1 (by decide) rfl (by decide) (by decide) h1
  have e2 := key 1 2 (by decide) rfl (by decide) (by decide) h2
  have l0 : (lockOf 0).2 = 5 := rfl
  have l1 : (lockOf 1).2 = 6 := rfl
  omega

/-! ### preservation -/

theorem createRoundChange_root (cfg : Cfg) (s : State) (r : Nat) (h1 : s.lastPreparedRound ≠ 0) (h2 : s.lastPreparedValue ≠ 0) :
    (createRoundChange cfg s r).root = s.lastPreparedValue := by
  have e : noRound = 0 := rfl
  unfold createRoundChange
  have hb : (s.lastPreparedRound != noRound && s.lastPreparedValue != 0) = true := by simp [e, h1, h2]
  rw [if_pos hb]; rfl

/-- what a correct operator may add to the log without leaving the wedge -/
structure GoodNew (i : Op wP) (x : Msg) : Prop where
  signer : x.signers = [opId i]
  rc : x.type = tRoundChange → 3 ≤ x.round → x.dataRound = (lockOf i).1 ∧ x.root = (lockOf i).2
  notCommit : x.type ≠ tCommit

theorem w_update (σ : Sys wP) (hw : W σ) (i : Op wP) (hi : wP.honest i = true) (c' : Ctrl) (outs : List Out)
    (evs : List (Ev (Op wP))) (hsh : Shape 0 c') (s' : State) (hs' : instAt 0 c' = some s') (hn : WNode i s')
    (hbs : ∀ x ∈ bcasts outs, GoodNew i x) (hev : ∀ e ∈ evs, ∀ j r v, e ≠ Ev.D j r v) : W (σ.update i c' outs evs) := by
  refine ⟨?_, ?_, ?_, ?_⟩
  · intro j
    by_cases hji : j = i
    · subst hji
      have : (σ.update j c' outs evs).ctrl j = c' := by simp [Sys.update]
      rw [this]; exact hsh
    · have : (σ.update i c' outs evs).ctrl j = σ.ctrl j := by simp [Sys.update, hji]
      rw [this]; exact hw.shape j
  · intro j hj
    by_cases hji : j = i
    · subst hji
      have : (σ.update j c' outs evs).ctrl j = c' := by simp [Sys.update]
      rw [this]; exact ⟨s', hs', hn⟩
    · have : (σ.update i c' outs evs).ctrl j = σ.ctrl j := by simp [Sys.update, hji]
      rw [this]; exact hw.node j hj
  · intro m' hm' j hj hs
    have hm'' : m' ∈ σ.log ++ bcasts outs := hm'
    rcases List.mem_append.1 hm'' with h | h
    · exact hw.log m' h j hj hs
    · have g := hbs m' h
      have hij : j = i := by
        rw [g.signer] at hs
        exact (opId_inj (by simpa using hs)).symm
      subst hij
      exact ⟨g.rc, fun ht => absurd ht g.notCommit⟩
  · intro e he
    have he' : e ∈ σ.trace ++ evs := he
    rcases List.mem_append.1 he' with h | h
    · exact hw.noD e h
    · exact hev e h

/-- a node transition of a wedged operator is a no-op, a round-change container update, or a jump to a higher round -/
theorem w_nstep (σ : Sys wP) (hw : W σ) (i : Op wP) (hi : wP.honest i = true) (c' : Ctrl) (outs : List Out)
    (evs : List (Ev (Op wP))) (hsh : Shape 0 c')
    (hst : NStep (wP.cfg i) 0 (fun m => (authentic wP σ.log m = true ∧ m.ident = ownIdent) ∧ quiet m = true) i
      (instAt 0 (σ.ctrl i)) (instAt 0 c') (bcasts outs) evs) : W (σ.update i c' outs evs) := by
  obtain ⟨s, hs, hn⟩ := hw.node i hi
  have hlr : s.lastPreparedRound ≠ 0 := by
    rw [hn.lpr]; rcases honest_cases i hi with rfl | rfl | rfl <;> decide
  have hlv : s.lastPreparedValue ≠ 0 := by
    rw [hn.lpv]; rcases honest_cases i hi with rfl | rfl | rfl <;> decide
  have same : ∀ {x : State}, instAt 0 (σ.ctrl i) = some x → x = s := by
    intro x hx; rw [hs] at hx; exact (Option.some.inj hx).symm
  cases hst with
  | idle h1 h2 h3 =>
    refine w_update σ hw i hi c' outs evs hsh s (by rw [h1]; exact hs) hn ?_ ?_
    · rw [h2]; intro x hx; simp at hx
    · rw [h3]; intro e he; simp at he
  | create v h0 h1 h2 h3 => rw [hs] at h0; simp at h0
  | createDecided m ha h0 hv hh h1 h2 h3 => rw [hs] at h0; simp at h0
  | adopt s0 m ha h0 hd hv hh h1 h2 h3 => exact absurd hv (no_decided hw.log i m ha.1.1 ha.1.2 ha.2)
  | more s0 m ha h0 hd hv hh h1 h2 h3 => exact absurd hv (no_decided hw.log i m ha.1.1 ha.1.2 ha.2)
  | prop s0 m ha h0 hv hnew h1 h2 h3 =>
    have := same h0; subst this
    exact absurd hv (no_proposal hw.log i s0 hn.round m ha.1.1 ha.2)
  | prep s0 m p ha h0 hacc hv h1 h2 h3 =>
    have := same h0; subst this
    rw [hn.acc] at hacc; simp at hacc
  | prepQ s0 m p ha h0 hacc hv hq h1 h2 =>
    have := same h0; subst this
    rw [hn.acc] at hacc; simp at hacc
  | com s0 m p ha h0 hacc hv h1 h2 h3 =>
    have := same h0; subst this
    rw [hn.acc] at hacc; simp at hacc
  | comQ s0 m p agg ha h0 hacc hv hq hagg h1 h2 h3 =>
    have := same h0; subst this
    rw [hn.acc] at hacc; simp at hacc
  | rc s0 X h0 h1 h2 h3 =>
    have := same h0; subst this
    refine w_update σ hw i hi c' outs evs hsh _ h1 ⟨hn.acc, hn.undecided, hn.round, hn.lpr, hn.lpv⟩ ?_ ?_
    · intro x hx
      obtain ⟨t1, t2, _⟩ := h2 x hx
      refine ⟨t2, fun ht => ?_, fun ht => ?_⟩
      · rw [t1] at ht; exact absurd ht (by decide)
      · rw [t1] at ht; exact absurd ht (by decide)
    · rw [h3]; intro e he; simp at he
  | jump s0 X R h0 hR h1 h2 =>
    have := same h0; subst this
    have hr3 : 3 ≤ R := by have := hn.round; omega
    refine w_update σ hw i hi c' outs evs hsh _ h1 ⟨rfl, hn.undecided, hr3, hn.lpr, hn.lpv⟩ ?_ ?_
    · intro x hx
      rcases h2 with ⟨hb, _⟩ | ⟨hb, _⟩
      · rw [hb] at hx; simp at hx
      · rw [hb] at hx; simp at hx; subst hx
        refine ⟨createRoundChange_signers _ _ _, fun _ _ => ⟨?_, ?_⟩, ?_⟩
        · rw [createRoundChange_dataRound, if_pos ⟨hlr, hlv⟩]; exact hn.lpr
        · rw [createRoundChange_root _ _ _ hlr hlv]; exact hn.lpv
        · rw [createRoundChange_type]; decide
    · intro e he j r v
      rcases h2 with ⟨_, hb⟩ | ⟨_, hb⟩
      · rw [hb] at he; simp at he
      · rw [hb] at he; simp at he; rw [he]; intro x; cases x

/-- every enabled step whose delivery is quiet keeps the wedge -/
theorem w_step (σ : Sys wP) (hw : W σ) (a : Action wP) (hen : enabled σ a = true) (hq : quietA a = true) : W (step σ a) := by
  cases a with
  | start i v =>
    have hi : wP.honest i = true := hen
    obtain ⟨h1, h2⟩ := ctrl_start_node (wP.cfg i) 0 (fun m => (authentic wP σ.log m = true ∧ m.ident = ownIdent) ∧ quiet m = true) i (σ.ctrl i) v
      (hw.shape i) (capacity_pos wP i)
    exact w_nstep σ hw i hi _ _ _ h1 h2
  | deliver i m =>
    have hen' : wP.honest i = true ∧ authentic wP σ.log m = true := by
      simpa [enabled] using hen
    have hq' : quiet m = true := hq
    obtain ⟨h1, h2⟩ := ctrl_processMsg_node (wP.cfg i) 0 (fun m => (authentic wP σ.log m = true ∧ m.ident = ownIdent) ∧ quiet m = true) i (σ.ctrl i) m
      (hw.shape i) (capacity_pos wP i) (fun hid => ⟨⟨hen'.2, hid⟩, hq'⟩)
      (fun hv hid => absurd hv (no_decided hw.log i m hen'.2 hid hq'))
    exact w_nstep σ hw i hen'.1 _ _ _ h1 h2
  | timeout i r =>
    have hi : wP.honest i = true := hen
    obtain ⟨h1, h2⟩ := ctrl_onTimeout_node (wP.cfg i) 0 (fun m => (authentic wP σ.log m = true ∧ m.ident = ownIdent) ∧ quiet m = true) i (σ.ctrl i) r
      (hw.shape i)
    exact w_nstep σ hw i hi _ _ _ h1 h2

theorem w_of_qreach {σ0 σ : Sys wP} (h0 : W σ0) (h : QReach σ0 σ) : W σ := by
  induction h with
  | refl => exact h0
  | step a _ hen hq ih => exact w_step _ ih a hen hq

theorem reachable_of_qreach {σ0 σ : Sys wP} (h0 : Reachable σ0) (h : QReach σ0 σ) : Reachable σ := by
  induction h with
  | refl => exact h0
  | step a _ hen _ ih => exact Reachable.step a ih hen

/-! ### the way out that only the fourth member can open -/

/-- the decided message for (round 2, value 6) that needs operator 4's commit signature -/
def unwedgeCert : Msg :=
  { type := tCommit, height := 0, round := 2, ident := 1, root := 6, dataRound := 0, signers := [2, 3, 4], sigOk := true,
    malformed := false, mid := 0, rcJust := [], prepJust := [], fullData := 6 }

theorem unwedge_facts :
    enabled wSys (.deliver 0 unwedgeCert) = true ∧ quiet unwedgeCert = false ∧
    (instAt 0 ((step wSys (.deliver 0 unwedgeCert)).ctrl 0)).map (fun s => (s.decided, s.decidedValue)) = some (true, 6) := by
  decide +kernel

theorem wedge_summary :
    [(0 : Op wP), 1, 2].map (fun i => (instAt 0 (wSys.ctrl i)).map (fun s =>
      (s.round, s.decided, s.accepted.isNone, s.lastPreparedRound, s.lastPreparedValue))) =
    [some (3, false, true, 1, 5), some (3, false, true, 2, 6), some (3, false, true, 2, 6)] := by decide +kernel

end Ssv.Qbft.B.Wedge
