/-
C01 Layer B, part 5 — what validation + unforgeability establish (certificates, prepares), and preservation of the node
invariant by every `NStep`.
-/
import Ssv.Proofs.QbftNodeInv
set_option linter.unusedSimpArgs false
set_option linter.unusedVariables false

namespace Ssv.Qbft.B
open Ssv.Qbft

/-! ### what validation establishes -/

theorem isValidProposal_state (cfg : Cfg) (s : State) (m : Msg) (u : Unit) (h : isValidProposal cfg s m = .ok u) :
    (s.accepted = none ∧ m.round = s.round) ∨ s.round < m.round := by
  unfold isValidProposal at h
  simp only [bind_eq_ok, rejectIf_eq_ok] at h
  obtain ⟨_, _, _, _, _, _, _, _, h5⟩ := h
  split at h5
  · simp at h5
  · simp only [bind_eq_ok, rejectIf_eq_ok, wrap_eq_ok] at h5
    obtain ⟨_, _, _, _, _, _, _, _, h9⟩ := h5
    split at h9
    · rename_i hc
      simp only [Bool.or_eq_true, Bool.and_eq_true, Option.isNone_iff_eq_none, beq_iff_eq, decide_eq_true_eq] at hc
      rcases hc with ⟨a, b⟩ | c
      · exact Or.inl ⟨a, b⟩
      · exact Or.inr c
    · simp at h9

theorem length_one {α : Type} (l : List α) (h : l.length = 1) : ∃ a, l = [a] := by
  match l, h with
  | [a], _ => exact ⟨a, rfl⟩

theorem validSignedPrepare_ok (cfg : Cfg) (b : Base) (h r root : Nat) (u : Unit)
    (hv : validSignedPrepare cfg b h r root = .ok u) :
    b.type = tPrepare ∧ b.height = h ∧ b.round = r ∧ b.root = root ∧ b.sigOk = true ∧
    ∃ sg, b.signers = [sg] ∧ sg ∈ cfg.committee := by
  unfold validSignedPrepare at hv
  simp only [bind_eq_ok, rejectIf_eq_ok, wrap_eq_ok] at hv
  obtain ⟨_, h1, _, h2, _, h3, _, _, _, h5, _, h6, h7⟩ := hv
  have h7' : cfg.verifySig b = true := by simpa using h7
  obtain ⟨hso, hc⟩ := verifySig_true cfg b h7'
  obtain ⟨sg, hsg⟩ := length_one b.signers (by simpa using h6)
  refine ⟨by simpa using h1, by simpa using h2, by simpa using h3, by simpa using h5, hso, sg, hsg, ?_⟩
  exact hc sg (by rw [hsg]; simp)

theorem authentic_base {P : Params} {log : List Msg} {m : Msg} (h : authentic P log m = true) :
    backed P log m.toBase = true := by
  unfold authentic at h
  simp only [Bool.and_eq_true] at h
  exact h.1.1

theorem authentic_rc {P : Params} {log : List Msg} {m : Msg} (h : authentic P log m = true) :
    ∀ rc ∈ m.rcJust, backed P log rc.toBase = true ∧ ∀ pm ∈ rc.just, backed P log pm = true := by
  unfold authentic at h
  simp only [Bool.and_eq_true, List.all_eq_true] at h
  intro rc hrc
  exact ⟨(h.1.2 rc hrc).1, (h.1.2 rc hrc).2⟩

/-- a stored prepare is reflected in the trace -/
theorem prepOK_of_valid {P : Params} {T : List (Ev (Op P))} {log : List Msg} (hlog : ∀ m ∈ log, LogOK P T m)
    (i : Op P) (m : Msg) (h r root : Nat) (hv : validSignedPrepare (P.cfg i) m.toBase h r root = .ok ())
    (ha : authentic P log m = true) (hid : m.ident = ownIdent) : PrepOK P T m ∧ m.round = r ∧ m.root = root := by
  obtain ⟨ht, _, hr, hroot, hso, sg, hsg, hc⟩ := validSignedPrepare_ok _ _ _ _ _ _ hv
  refine ⟨⟨sg, hsg, hc, ?_⟩, hr, hroot⟩
  intro j hj hjs
  have hmem : opId j ∈ m.toBase.signers := by rw [hsg, hjs]; simp
  exact (backed_event hlog (authentic_base ha) hso hid j hj hmem).2.1 ht

/-- a validated decided message / commit with verified signature is reflected in the trace -/
theorem commitOK_of {P : Params} {T : List (Ev (Op P))} {log : List Msg} (hlog : ∀ m ∈ log, LogOK P T m)
    (m : Msg) (ht : m.type = tCommit) (hso : m.sigOk = true) (hnd : m.signers.Nodup)
    (hc : ∀ s ∈ m.signers, s ∈ P.committee) (ha : authentic P log m = true) (hid : m.ident = ownIdent) : CommitOK P T m :=
  ⟨hnd, hc, fun j hj hmem => (backed_event hlog (authentic_base ha) hso hid j hj hmem).2.2.1 ht⟩

/-- a signer list of quorum size inside the committee contains a correct operator -/
theorem exists_honest_signer (P : Params) (hP : P.Valid) (l : List Nat) (hc : ∀ s ∈ l, s ∈ P.committee)
    (hq : P.quorum ≤ uniqueCount l) : ∃ j : Op P, P.honest j = true ∧ opId j ∈ l := by
  obtain ⟨S, hS, hm⟩ := quorum_set P l P.quorum hc hq
  rw [kernel_quorum P hP] at hS
  obtain ⟨j, hj, hjb⟩ := QAbs.exists_honest (ctxT P hP []) S (by show P.f < S.card; omega)
  exact ⟨j, (honest_iff P hP [] j).1 hjb, hm j hj⟩

structure CertFacts (P : Params) (T : List (Ev (Op P))) (m : Msg) : Prop where
  ok : CommitOK P T m
  hash : m.fullData = m.root
  height : m.height = P.height
  quorum : P.quorum ≤ uniqueCount m.signers
  honest : ∃ j : Op P, P.honest j = true ∧ Ev.K j m.round m.root ∈ T

theorem cert_facts {P : Params} (hP : P.Valid) {T : List (Ev (Op P))} {log : List Msg} (hlog : ∀ m ∈ log, LogOK P T m)
    (i : Op P) (m : Msg) (hv : validateDecided (P.cfg i) m = .ok ()) (ha : authentic P log m = true)
    (hid : m.ident = ownIdent) : CertFacts P T m := by
  obtain ⟨ht, hq, hnd, _, hso, hc, hh⟩ := validateDecided_ok _ m () hv
  have hok := commitOK_of hlog m ht hso hnd hc ha hid
  have hq' : P.quorum ≤ uniqueCount m.signers := by rw [uniqueCount_of_nodup _ hnd]; exact hq
  obtain ⟨j, hj, hmem⟩ := exists_honest_signer P hP m.signers hc hq'
  have hb := backed_event hlog (authentic_base ha) hso hid j hj hmem
  exact ⟨hok, hh, hb.1, hq', j, hj, hb.2.2.1 ht⟩

/-! ### the coupled cases: proposal acceptance, decided-message adoption, instance creation -/

theorem matchedSigners_self (l : Nat) : matchedSigners [l] [l] = true := by
  simp [matchedSigners]

theorem NodeInv.step_prop {P : Params} {T : List (Ev (Op P))} {i : Op P} {s : State} (h : NodeInv P T i s) (m : Msg)
    (hv : isValidProposal (P.cfg i) s m = .ok ())
    (hnew : ∀ e ∈ s.propose, e.round = m.round → matchedSigners e.signers m.signers = false) :
    NodeInv P (T ++ [Ev.P i m.round m.root]) i
      { s with propose := s.propose ++ [m], accepted := some m, round := m.round } := by
  have hgp : GoodProposal (P.cfg i) P.height m := by
    have := isValidProposal_ok (P.cfg i) s m () hv
    rw [h.height] at this; exact this
  have hst := isValidProposal_state (P.cfg i) s m () hv
  have hle : s.round ≤ m.round := by rcases hst with ⟨_, e⟩ | e <;> omega
  have hnr : ∀ q ∈ s.propose, q.round ≠ m.round := by
    intro q hq heq
    obtain ⟨l, hl, hs⟩ := (h.propGood q hq).leader
    obtain ⟨l', hl', hs'⟩ := hgp.leader
    rw [heq, hl'] at hl
    have : l' = l := by simpa using hl
    subst this
    have := hnew q hq heq
    rw [hs, hs', matchedSigners_self] at this
    exact absurd this (by simp)
  have hmem : ∀ q, q ∈ s.propose ++ [m] → q ∈ s.propose ∨ q = m := by
    intro q hq
    rcases List.mem_append.1 hq with hq | hq
    · exact Or.inl hq
    · right; simpa using hq
  refine ⟨h.height, le_trans h.round hle, ?_, ?_, ?_, ?_, ?_, ?_, ?_, ?_, ?_, h.lock, ?_, ?_, ?_, ?_⟩
  · intro q hq
    rcases hmem q hq with hq | rfl
    · exact h.propGood q hq
    · exact hgp
  · intro q hq q' hq' hr
    rcases hmem q hq with hq1 | hq1
    · rcases hmem q' hq' with hq2 | hq2
      · exact h.propUniq q hq1 q' hq2 hr
      · rw [hq2] at hr; exact absurd hr (hnr q hq1)
    · rcases hmem q' hq' with hq2 | hq2
      · rw [hq1] at hr; exact absurd hr.symm (hnr q' hq2)
      · rw [hq1, hq2]
  · intro q hq
    rcases hmem q hq with hq | rfl
    · exact List.mem_append_left _ (h.propEv q hq)
    · simp
  · intro r v hm
    rcases List.mem_append.1 hm with hm | hm
    · obtain ⟨q, hq, e⟩ := h.evProp r v hm
      exact ⟨q, List.mem_append_left _ hq, e⟩
    · simp at hm
      obtain ⟨rfl, rfl⟩ := hm
      exact ⟨m, by simp, rfl, rfl⟩
  · intro p hp
    simp only [Option.some.injEq] at hp
    subst hp
    exact ⟨by simp, fun hne => absurd rfl hne⟩
  · intro rc hg
    have hg' := h.gRound rc (mem_append_foreign hg (by simp))
    exact ⟨le_trans hg'.1 hle, hg'.2⟩
  · intro hn q hq
    rcases hmem q hq with hq | rfl
    · exact le_trans (h.propLe (fun rc hm => hn rc (List.mem_append_left _ hm)) q hq) hle
    · exact Nat.le_refl _
  · intro p hp hlt
    simp only [Option.some.injEq] at hp
    subst hp
    exact absurd hlt (Nat.lt_irrefl _)
  · intro x hx
    refine ⟨(h.prep x hx).1.ext _, ?_⟩
    rcases (h.prep x hx).2 with ⟨q, hq, e⟩ | ⟨⟨rc, hg⟩, hS⟩
    · exact Or.inl ⟨q, List.mem_append_left _ hq, e⟩
    · refine Or.inr ⟨⟨rc, List.mem_append_left _ hg⟩, Or.inl ?_⟩
      show x.round < m.round
      rcases hS with hS | ⟨hS, q, hacc, _, _⟩
      · omega
      · rcases hst with ⟨hnone, _⟩ | hlt
        · rw [hnone] at hacc; simp at hacc
        · omega
  · intro k1 r v hk hg
    have := h.kLock k1 r v (getElem?_append_foreign hk (by simp)) (fun g rc hlt hgg => hg g rc hlt (getElem?_append_old hgg))
    exact ⟨le_trans this.1 hle, this.2⟩
  · intro k1 r' pr pv hk
    rcases h.rcRound k1 r' pr pv (getElem?_append_foreign hk (by simp)) with h1 | ⟨g, rc, h1, h2, h3⟩
    · exact Or.inl (le_trans h1 hle)
    · exact Or.inr ⟨g, rc, h1, getElem?_append_old h2, le_trans h3 hle⟩
  · intro x hx
    exact (h.commits x hx).ext _
  · intro hd
    obtain ⟨r, hr⟩ := h.dec hd
    exact ⟨r, List.mem_append_left _ hr⟩

theorem getElem?_append_two {α : Type} {T : List α} {k : Nat} {e x y : α} (h : (T ++ [x, y])[k]? = some e) :
    T[k]? = some e ∨ (k = T.length ∧ e = x) ∨ (k = T.length + 1 ∧ e = y) := by
  rcases getElem?_append_cases h with ⟨_, h⟩ | ⟨hk, h⟩
  · exact Or.inl h
  · right
    have hlt := getElem?_lt h
    simp only [List.length_cons, List.length_nil] at hlt
    have hk0 : k - T.length = 0 ∨ k - T.length = 1 := by omega
    rcases hk0 with hk0 | hk0
    · rw [hk0] at h; simp at h; exact Or.inl ⟨by omega, h.symm⟩
    · rw [hk0] at h; simp at h; exact Or.inr ⟨by omega, h.symm⟩

theorem getElem?_append_at {α : Type} (T : List α) (x : α) (rest : List α) : (T ++ x :: rest)[T.length]? = some x := by
  rw [List.getElem?_append_right (Nat.le_refl _)]; simp

theorem NodeInv.step_adopt {P : Params} {T : List (Ev (Op P))} {i : Op P} {s : State} (h : NodeInv P T i s) (m : Msg)
    (hd : s.decided = false) (hm : CommitOK P T m) (hr : 1 ≤ m.round) :
    NodeInv P (T ++ [Ev.G i m.round, Ev.D i m.round m.fullData]) i
      { s with decided := true, round := m.round, decidedValue := m.fullData, commit := s.commit ++ [m] } := by
  have hng : ∀ rc, Ev.G i rc ∉ T := by
    intro rc hg
    have := (h.gRound rc hg).2
    rw [hd] at this; exact absurd this (by simp)
  have hfresh : ∀ p, s.accepted = some p → p.round = s.round := by
    intro p hp
    by_contra hne
    obtain ⟨rc, hg⟩ := (h.acc p hp).2 hne
    exact hng rc hg
  refine ⟨h.height, hr, h.propGood, h.propUniq, ?_, ?_, ?_, ?_, ?_, ?_, ?_, h.lock, ?_, ?_, ?_, ?_⟩
  · intro q hq; exact List.mem_append_left _ (h.propEv q hq)
  · intro r v hm'; exact h.evProp r v (mem_append_foreign hm' (by simp))
  · intro p hp
    exact ⟨(h.acc p hp).1, fun _ => ⟨m.round, by simp⟩⟩
  · intro rc hg
    rcases List.mem_append.1 hg with hg | hg
    · exact absurd hg (hng rc)
    · simp at hg; subst hg; exact ⟨Nat.le_refl _, rfl⟩
  · intro hn
    exact absurd (by simp) (hn m.round)
  · intro p hp hlt q hq
    have e := hfresh p hp
    have := h.propLe hng q hq
    show q.round < m.round
    have hlt' : p.round < m.round := hlt
    omega
  · intro x hx
    refine ⟨(h.prep x hx).1.ext _, ?_⟩
    rcases (h.prep x hx).2 with hF | ⟨⟨rc, hg⟩, _⟩
    · exact Or.inl hF
    · exact absurd hg (hng rc)
  · intro k1 r v hk hg
    have hk' := getElem?_append_foreign hk (by simp)
    have hlt := getElem?_lt hk'
    have h1 := hg T.length m.round hlt (getElem?_append_at T _ _)
    have h2 := h.kLock k1 r v hk' (fun g rc hlt' hgg => hg g rc hlt' (getElem?_append_old hgg))
    exact ⟨h1, h2.2⟩
  · intro k1 r' pr pv hk
    have hk' := getElem?_append_foreign hk (by simp)
    exact Or.inr ⟨T.length, m.round, getElem?_lt hk', getElem?_append_at T _ _, Nat.le_refl _⟩
  · intro x hx
    rcases List.mem_append.1 hx with hx | hx
    · exact (h.commits x hx).ext _
    · simp at hx; subst hx; exact hm.ext _
  · intro _
    exact ⟨m.round, by simp⟩

theorem nodeInv_createDecided {P : Params} {T : List (Ev (Op P))} {i : Op P} (h : ∀ e ∈ T, e.node ≠ i) (m : Msg)
    (hm : CommitOK P T m) (hr : 1 ≤ m.round) :
    NodeInv P (T ++ [Ev.G i m.round, Ev.D i m.round m.fullData]) i
      { newInstance P.height with round := m.round, decided := true, decidedValue := m.fullData, commit := [m] } := by
  have hno : ∀ e : Ev (Op P), e.node = i → e ∉ T := fun e he hmem => h e hmem he
  refine ⟨rfl, hr, ?_, ?_, ?_, ?_, ?_, ?_, ?_, ?_, ?_, ?_, ?_, ?_, ?_, ?_⟩
  · intro q hq; simp [newInstance] at hq
  · intro q hq; simp [newInstance] at hq
  · intro q hq; simp [newInstance] at hq
  · intro r v hm'
    exact absurd (mem_append_foreign hm' (by simp)) (hno _ rfl)
  · intro p hp; simp [newInstance] at hp
  · intro rc hg
    rcases List.mem_append.1 hg with hg | hg
    · exact absurd hg (hno _ rfl)
    · simp at hg; subst hg; exact ⟨Nat.le_refl _, rfl⟩
  · intro hn q hq; simp [newInstance] at hq
  · intro p hp; simp [newInstance] at hp
  · intro x hx; simp [newInstance] at hx
  · intro hne; exact absurd rfl hne
  · intro k1 r v hk
    exact absurd (getElem?_mem' (getElem?_append_foreign hk (by simp))) (hno _ rfl)
  · intro k1 r' pr pv hk
    exact absurd (getElem?_mem' (getElem?_append_foreign hk (by simp))) (hno _ rfl)
  · intro x hx
    simp at hx; subst hx; exact hm.ext _
  · intro _
    exact ⟨m.round, by simp⟩

theorem nodeInv_create {P : Params} {T : List (Ev (Op P))} {i : Op P} (h : ∀ e ∈ T, e.node ≠ i) (v : Nat) :
    NodeInv P T i { newInstance P.height with started := true, startValue := v } := by
  have hno : ∀ e : Ev (Op P), e.node = i → e ∉ T := fun e he hmem => h e hmem he
  refine ⟨rfl, ?_, ?_, ?_, ?_, ?_, ?_, ?_, ?_, ?_, ?_, ?_, ?_, ?_, ?_, ?_⟩
  · show 1 ≤ firstRound; decide
  · intro q hq; simp [newInstance] at hq
  · intro q hq; simp [newInstance] at hq
  · intro q hq; simp [newInstance] at hq
  · intro r v hm'; exact absurd hm' (hno _ rfl)
  · intro p hp; simp [newInstance] at hp
  · intro rc hg; exact absurd hg (hno _ rfl)
  · intro hn q hq; simp [newInstance] at hq
  · intro p hp; simp [newInstance] at hp
  · intro x hx; simp [newInstance] at hx
  · intro hne; exact absurd rfl hne
  · intro k1 r v hk; exact absurd (getElem?_mem' hk) (hno _ rfl)
  · intro k1 r' pr pv hk; exact absurd (getElem?_mem' hk) (hno _ rfl)
  · intro x hx; simp [newInstance] at hx
  · intro hd; simp [newInstance] at hd

/-! ### every node transition keeps the node invariant -/

theorem valOk_ne_zero (cfg : Cfg) (v : Nat) (h : cfg.valOk v = true) : v ≠ 0 := by
  unfold Cfg.valOk at h
  simp at h
  exact h.1

theorem commitOK_of_validateCommit {P : Params} {T : List (Ev (Op P))} {log : List Msg} (hlog : ∀ m ∈ log, LogOK P T m)
    (i : Op P) (m : Msg) (h r : Nat) (p : Msg) (hv : validateCommit (P.cfg i) m.toBase h r p = .ok ())
    (ha : authentic P log m = true) (hid : m.ident = ownIdent) : CommitOK P T m ∧ m.round = r ∧ p.root = m.root := by
  obtain ⟨ht, hso, hc, hnd, _, hr, hroot, _, _⟩ := validateCommit_ok _ _ _ _ _ _ hv
  exact ⟨commitOK_of hlog m ht hso hnd hc ha hid, hr, hroot⟩

theorem nodeInvO_step {P : Params} (hP : P.Valid) {T : List (Ev (Op P))} {log : List Msg}
    (hlog : ∀ m ∈ log, LogOK P T m)
    (H0 : ∀ (j : Op P) (r v : Nat), P.honest j = true → Ev.K j r v ∈ T → 1 ≤ r)
    (i : Op P) {os os' : Option State} {bs : List Msg} {evs : List (Ev (Op P))}
    (hst : NStep (P.cfg i) P.height (fun m => authentic P log m = true ∧ m.ident = ownIdent) i os os' bs evs)
    (hinv : NodeInvO P T i os) : NodeInvO P (T ++ evs) i os' := by
  cases hst with
  | idle h1 h2 h3 => rw [h1, h3, List.append_nil]; exact hinv
  | create v h0 h1 h2 h3 =>
    rw [h0] at hinv
    rw [h1, h3, List.append_nil]
    exact nodeInv_create hinv v
  | createDecided m ha h0 hv hh h1 h2 h3 =>
    rw [h0] at hinv
    rw [h1, h3]
    have cf := cert_facts hP hlog i m hv ha.1 ha.2
    obtain ⟨j, hj, hK⟩ := cf.honest
    exact nodeInv_createDecided hinv m cf.ok (H0 j _ _ hj hK)
  | adopt s m ha h0 hd hv hh h1 h2 h3 =>
    rw [h0] at hinv
    rw [h1, h3]
    have cf := cert_facts hP hlog i m hv ha.1 ha.2
    obtain ⟨j, hj, hK⟩ := cf.honest
    exact NodeInv.step_adopt hinv m hd cf.ok (H0 j _ _ hj hK)
  | more s m ha h0 hd hv hh h1 h2 h3 =>
    rw [h0] at hinv
    rw [h1, h3, List.append_nil]
    exact NodeInv.upd_commit hinv m (cert_facts hP hlog i m hv ha.1 ha.2).ok
  | prop s m ha h0 hv hnew h1 h2 h3 =>
    rw [h0] at hinv
    rw [h1, h3]
    exact NodeInv.step_prop hinv m hv hnew
  | prep s m p ha h0 hacc hv h1 h2 h3 =>
    rw [h0] at hinv
    rw [h1, h3, List.append_nil]
    obtain ⟨hok, hr, hroot⟩ := prepOK_of_valid hlog i m _ _ _ hv ha.1 ha.2
    have hinv' : NodeInv P T i s := hinv
    refine NodeInv.upd_prepare hinv' m hok ?_
    by_cases hpr : p.round = s.round
    · exact Or.inl ⟨p, (hinv'.acc p hacc).1, by rw [hpr, hr], hroot.symm⟩
    · exact Or.inr ⟨(hinv'.acc p hacc).2 hpr, Or.inr ⟨hr, p, hacc, hpr, hroot⟩⟩
  | prepQ s m p ha h0 hacc hv hq h1 h2 =>
    rw [h0] at hinv
    rw [h1]
    obtain ⟨hok, hr, hroot⟩ := prepOK_of_valid hlog i m _ _ _ hv ha.1 ha.2
    have hinv' : NodeInv P T i s := hinv
    have hkind : PrepKind T i s m := by
      by_cases hpr : p.round = s.round
      · exact Or.inl ⟨p, (hinv'.acc p hacc).1, by rw [hpr, hr], hroot.symm⟩
      · exact Or.inr ⟨(hinv'.acc p hacc).2 hpr, Or.inr ⟨hr, p, hacc, hpr, hroot⟩⟩
    have hne : p.fullData ≠ 0 := valOk_ne_zero _ _ (hinv'.propGood p (hinv'.acc p hacc).1).value
    have hS : NodeInv P T i
        { s with prepare := s.prepare ++ [m], lastPreparedValue := p.fullData, lastPreparedRound := s.round } :=
      NodeInv.upd_lock (NodeInv.upd_prepare hinv' m hok hkind) p.fullData hne
    rcases h2 with ⟨_, h3⟩ | ⟨_, h3⟩
    · rw [h3, List.append_nil]; exact hS
    · rw [h3]; exact NodeInv.ext_K hS s.round p.root (Nat.le_refl _) (Nat.le_refl _)
  | com s m p ha h0 hacc hv h1 h2 h3 =>
    rw [h0] at hinv
    rw [h1, h3, List.append_nil]
    exact NodeInv.upd_commit hinv m (commitOK_of_validateCommit hlog i m _ _ p hv ha.1 ha.2).1
  | comQ s m p agg ha h0 hacc hv hq hagg h1 h2 h3 =>
    rw [h0] at hinv
    rw [h1, h3]
    have hinv' : NodeInv P T i s := hinv
    obtain ⟨_, _, _, _, _, _, _, _, _, hfd, _⟩ := aggregateCommitMsgs_spec _ _ _ hagg
    have hE := NodeInv.ext hinv' [Ev.D i agg.round agg.fullData] (by simp) (by simp) (by simp) (by simp)
    have hC := NodeInv.upd_commit hE m ((commitOK_of_validateCommit hlog i m _ _ p hv ha.1 ha.2).1.ext _)
    exact NodeInv.upd_decided hC p.fullData ⟨agg.round, by rw [← hfd]; simp⟩
  | rc s X h0 h1 h2 h3 =>
    rw [h0] at hinv
    rw [h1, h3, List.append_nil]
    exact NodeInv.upd_roundChange hinv X
  | jump s X R h0 hR h1 h2 =>
    rw [h0] at hinv
    rw [h1]
    have hS := NodeInv.upd_jump (show NodeInv P T i s from hinv) X R hR
    rcases h2 with ⟨_, h3⟩ | ⟨_, h3⟩
    · rw [h3, List.append_nil]; exact hS
    · rw [h3]; exact NodeInv.ext_RC hS R _ _ (Nat.le_refl _)

/-- the events of a node transition belong to that node -/
theorem nstep_evs_node {N : Type} {cfg : Cfg} {h : Nat} {A : Msg → Prop} {i : N} {os os' : Option State} {bs : List Msg}
    {evs : List (Ev N)} (hst : NStep cfg h A i os os' bs evs) : ∀ e ∈ evs, e.node = i := by
  intro e he
  cases hst with
  | idle h1 h2 h3 => rw [h3] at he; simp at he
  | create v h0 h1 h2 h3 => rw [h3] at he; simp at he
  | createDecided m ha h0 hv hh h1 h2 h3 => rw [h3] at he; simp at he; rcases he with rfl | rfl <;> rfl
  | adopt s m ha h0 hd hv hh h1 h2 h3 => rw [h3] at he; simp at he; rcases he with rfl | rfl <;> rfl
  | more s m ha h0 hd hv hh h1 h2 h3 => rw [h3] at he; simp at he
  | prop s m ha h0 hv hnew h1 h2 h3 => rw [h3] at he; simp at he; rw [he]; rfl
  | prep s m p ha h0 hacc hv h1 h2 h3 => rw [h3] at he; simp at he
  | prepQ s m p ha h0 hacc hv hq h1 h2 =>
    rcases h2 with ⟨_, h3⟩ | ⟨_, h3⟩ <;> rw [h3] at he <;> simp at he
    rw [he]; rfl
  | com s m p ha h0 hacc hv h1 h2 h3 => rw [h3] at he; simp at he
  | comQ s m p agg ha h0 hacc hv hq hagg h1 h2 h3 => rw [h3] at he; simp at he; rw [he]; rfl
  | rc s X h0 h1 h2 h3 => rw [h3] at he; simp at he
  | jump s X R h0 hR h1 h2 =>
    rcases h2 with ⟨_, h3⟩ | ⟨_, h3⟩ <;> rw [h3] at he <;> simp at he
    rw [he]; rfl

/-- the invariant of a node that does not act survives the events of another node -/
theorem nodeInvO_other {P : Params} {T : List (Ev (Op P))} {j : Op P} {os : Option State} (h : NodeInvO P T j os)
    (evs : List (Ev (Op P))) (hf : ∀ e ∈ evs, e.node ≠ j) : NodeInvO P (T ++ evs) j os := by
  cases os with
  | none =>
    intro e he
    rcases List.mem_append.1 he with he | he
    · exact h e he
    · exact hf e he
  | some s =>
    exact NodeInv.ext h evs (fun r v hm => hf _ hm rfl) (fun r v hm => hf _ hm rfl) (fun r pr pv hm => hf _ hm rfl)
      (fun rc hm => hf _ hm rfl)

end Ssv.Qbft.B
