/- C16 helper lemmas: exactly-once-if-fetched for the attester handler, under `envOK`. -/
import Ssv.Proofs.DutiesLiveSync
import Ssv.Proofs.DutiesLatestAtt

namespace Ssv.Duties

/-! ### fetching -/

structure AttNextPost (n : Net) (st st' : HState) (m m' : DMon) (E t : Nat) : Prop where
  okeq : m'.ok = m.ok
  covn : st.fetchNext = true → attShouldFetchNext n t = true → Cov .att st' m' (E + 1)
  covo : ∀ K, (K ≠ E + 1 ∨ ¬ (st.fetchNext = true ∧ attShouldFetchNext n t = true)) → Cov .att st m K → Cov .att st' m' K
  keys : ∀ K A, m'.due K = some A → K = E + 1 ∨ m.due K = some A

theorem attNext_post (n : Net) (st : HState) (m : DMon) (E t : Nat) (r : FetchRes) :
    AttNextPost n st (attFetchNextPart n st E t r).1 m (drun .att n m (attFetchNextPart n st E t r).2) E t := by
  have fp := attFetch_post n st m (E + 1) r
  unfold attFetchNextPart
  split
  · rename_i hc
    simp only [Bool.and_eq_true] at hc
    split
    · rename_i st2 o heq
      simp only [heq] at fp
      exact ⟨fp.okeq, fun _ _ => fp.covp.of_store_eq rfl,
        (fun K hK hcv => by
          rcases hK with hK | hK
          · exact (fp.covo K hK hcv).of_store_eq rfl
          · exact absurd hc hK),
        fp.keys⟩
    · rename_i st2 o heq
      simp only [heq] at fp
      exact ⟨fp.okeq, fun _ _ => fp.covp,
        (fun K hK hcv => by
          rcases hK with hK | hK
          · exact fp.covo K hK hcv
          · exact absurd hc hK),
        fp.keys⟩
  · rename_i hc
    simp only [Bool.and_eq_true] at hc
    exact ⟨rfl, fun h1 h2 => absurd ⟨h1, h2⟩ hc, fun K _ hcv => hcv, fun K A h => Or.inr h⟩

structure AttPFPost (n : Net) (st st' : HState) (m m' : DMon) (E t : Nat) : Prop where
  okeq : m'.ok = m.ok
  covp : (st.fetchCur = true ∨ Cov .att st m E) → Cov .att st' m' E
  covn : ((st.fetchNext = true ∧ attShouldFetchNext n t = true) ∨ Cov .att st m (E + 1)) → Cov .att st' m' (E + 1)
  covo : ∀ K, K ≠ E → K ≠ E + 1 → Cov .att st m K → Cov .att st' m' K
  keys : ∀ K A, m'.due K = some A → K = E ∨ K = E + 1 ∨ m.due K = some A

theorem attPF_post (n : Net) (st : HState) (m : DMon) (E t : Nat) (r1 r2 : FetchRes) :
    AttPFPost n st (attProcessFetching n st E t r1 r2).1 m (drun .att n m (attProcessFetching n st E t r1 r2).2) E t := by
  have fp := attFetch_post n st m E r1
  have hf := attFetch_flags st E r1
  unfold attProcessFetching
  split
  · rename_i hfc
    split
    · rename_i st1 o1 heq
      simp only [heq] at fp hf
      have hv := fp.void rfl
      exact ⟨fp.okeq, fun _ => Cov.of_none (hv _), fun _ => Cov.of_none (hv _), fun K _ _ _ => Cov.of_none (hv K),
        (fun K A h => by rw [hv K] at h; cases h)⟩
    · rename_i st1 o1 heq
      simp only [heq] at fp hf
      have np := attNext_post n { st1 with fetchCur := false } (drun .att n m o1) E t r2
      simp only [drun_append]
      refine ⟨np.okeq.trans fp.okeq, ?_, ?_, ?_, ?_⟩
      · intro _
        exact np.covo E (Or.inl (by omega)) (fp.covp.of_store_eq rfl)
      · intro h
        by_cases hfn : st.fetchNext = true ∧ attShouldFetchNext n t = true
        · exact np.covn (by simpa [hf.2.2.1] using hfn.1) hfn.2
        · rcases h with h | h
          · exact absurd h hfn
          · exact np.covo (E + 1) (Or.inr (by simpa [hf.2.2.1] using hfn)) ((fp.covo (E + 1) (by omega) h).of_store_eq rfl)
      · intro K h1 h2 hc
        exact np.covo K (Or.inl h2) ((fp.covo K h1 hc).of_store_eq rfl)
      · intro K A h
        rcases np.keys K A h with h | h
        · exact Or.inr (Or.inl h)
        · rcases fp.keys K A h with h | h
          · exact Or.inl h
          · exact Or.inr (Or.inr h)
  · rename_i hfc
    have np := attNext_post n st m E t r1
    refine ⟨np.okeq, ?_, ?_, fun K _ h2 hc => np.covo K (Or.inl h2) hc, ?_⟩
    · intro h
      rcases h with h | h
      · exact absurd h hfc
      · exact np.covo E (Or.inl (by omega)) h
    · intro h
      by_cases hfn : st.fetchNext = true ∧ attShouldFetchNext n t = true
      · exact np.covn hfn.1 hfn.2
      · rcases h with h | h
        · exact absurd h hfn
        · exact np.covo (E + 1) (Or.inr hfn) h
    · intro K A h
      rcases np.keys K A h with h | h
      · exact Or.inr (Or.inl h)
      · exact Or.inr (Or.inr h)

/-! ### invariant -/

structure AInv (n : Net) (st : HState) (m : DMon) (lt : Option Nat) (now : Nat) (le : Option Nat) : Prop where
  ok : m.ok = true
  ltnow : ∀ t, lt = some t → t ≤ now
  i1 : st.fetchFirst = true → st.fetchCur = true
  i2 : st.indicesChanged = true → st.fetchCur = true
  dueLe : ∀ K A, m.due K = some A → K ≤ n.epoch now + 1
  leLe : ∀ K, le = some K → K ≤ n.epoch now
  /-- the epoch of a possible next tick is covered, unless that tick fetches before it executes
      (`fetchFirst`, or — first tick of a new epoch with `fetchNextEpoch` set — the first-tick block) -/
  A : ∀ t, Cand lt now t → st.fetchFirst = true ∨ (st.fetchNext = true ∧ le ≠ some (n.epoch t)) ∨
        Cov .att st m (n.epoch t)
  /-- the epoch after it is covered, unless its (re-)fetch is still pending -/
  B : ∀ t, Cand lt now t → Cov .att st m (n.epoch t + 1) ∨ st.fetchNext = true

/-- one tick, from the facts it needs about the state it starts in -/
theorem attTick_core (n : Net) (hspe : 0 < n.spe) {st : HState} {m : DMon} {now : Nat} (t0 clock : Nat) (r1 r2 : FetchRes)
    (hok : m.ok = true) (hi1 : st.fetchFirst = true → st.fetchCur = true)
    (hi2 : st.indicesChanged = true → st.fetchCur = true)
    (hdueLe : ∀ K A, m.due K = some A → K ≤ n.epoch now + 1) (hnow : now ≤ t0)
    (hA : st.fetchFirst = true ∨ Cov .att st m (n.epoch t0))
    (hB : Cov .att st m (n.epoch t0 + 1) ∨ st.fetchNext = true) :
    AInv n (attTick n st t0 clock r1 r2).1 (drun .att n m (attTick n st t0 clock r1 r2).2) (some t0) t0
      (some (n.epoch t0)) := by
  have hem := epoch_mono n hnow
  obtain ⟨store, ff0, fc, fn, ic⟩ := st
  have fin : ∀ (s : HState) (m2 : DMon), m2.ok = true → s.fetchFirst = false → s.indicesChanged = false →
      Cov .att s m2 (n.epoch t0) → (Cov .att s m2 (n.epoch t0 + 1) ∨ s.fetchNext = true) →
      (∀ K A, m2.due K = some A → K = n.epoch t0 ∨ K = n.epoch t0 + 1 ∨ m.due K = some A) →
      AInv n (attPost n s t0) m2 (some t0) t0 (some (n.epoch t0)) := by
    intro s m2 hok hff hic hc0 hc1 hk
    have hpf := attPost_flags n s t0
    have hdue : ∀ K A, m2.due K = some A → K ≤ n.epoch t0 + 1 := by
      intro K A hA'
      rcases hk K A hA' with h1 | h1 | h1
      · omega
      · omega
      · have := hdueLe K A h1; omega
    -- coverage of an epoch survives the end of the ticker branch unless it is the current epoch at its last slot
    have hpost : ∀ K, Cov .att s m2 K → (n.epoch t0 < K ∨ (K = n.epoch t0 ∧ ¬ (t0 % n.spe == n.spe - 1) = true)) →
        Cov .att (attPost n s t0) m2 K := by
      intro K hcK hK
      have hst := attPost_store_eq n s t0
      split at hst
      · rename_i hlast
        apply hcK.of_reset hst
        rcases hK with hK | hK
        · omega
        · exact absurd hlast hK.2
      · exact hcK.of_store_eq hst
    have hfar : ∀ K, n.epoch t0 + 1 < K → Cov .att (attPost n s t0) m2 K := by
      intro K hK
      apply Cov.of_none
      cases hd : m2.due K with
      | none => rfl
      | some A => have := hdue K A hd; omega
    have hnext : ∀ t, Cand (some t0) t0 t → n.epoch t0 < n.epoch t ∨
        (n.epoch t = n.epoch t0 ∧ ¬ (t0 % n.spe == n.spe - 1) = true) := by
      intro t ht
      have hlt := ht.1 t0 rfl
      have := epoch_mono n ht.2
      by_cases hlast : (t0 % n.spe == n.spe - 1) = true
      · exact Or.inl (div_lt_of_last hspe (by simpa using hlast) hlt)
      · by_cases heq : n.epoch t = n.epoch t0
        · exact Or.inr ⟨heq, hlast⟩
        · exact Or.inl (by omega)
    -- the epoch after the current one: covered, or its fetch is still pending
    have hc1' : Cov .att (attPost n s t0) m2 (n.epoch t0 + 1) ∨ (attPost n s t0).fetchNext = true := by
      rcases hc1 with h1 | h1
      · exact Or.inl (hpost _ h1 (Or.inl (by omega)))
      · exact Or.inr (by rw [hpf.2.2.2, h1]; rfl)
    refine ⟨hok, fun t ht => by cases ht; exact Nat.le_refl _, ?_, ?_, hdue,
      fun K hK => by cases hK; exact Nat.le_refl _, ?_, ?_⟩
    · intro hh; rw [hpf.1, hff] at hh; cases hh
    · intro hh; rw [hpf.2.2.1, hic] at hh; cases hh
    · intro t ht
      rcases hnext t ht with h1 | h1
      · by_cases h2 : n.epoch t = n.epoch t0 + 1
        · rcases hc1' with h3 | h3
          · exact Or.inr (Or.inr (by rw [h2]; exact h3))
          · refine Or.inr (Or.inl ⟨h3, ?_⟩)
            intro hh
            have := Option.some.inj hh
            omega
        · exact Or.inr (Or.inr (hfar _ (by omega)))
      · exact Or.inr (Or.inr (by rw [h1.1]; exact hpost _ hc0 (Or.inr ⟨rfl, h1.2⟩)))
    · intro t ht
      rcases hnext t ht with h1 | h1
      · exact Or.inl (hfar _ (by omega))
      · rw [h1.1]; exact hc1'
  cases ff0
  · -- regular tick: execute, (reset on indices change,) fetch
    have hcov : Cov .att ⟨store, false, fc, fn, ic⟩ m (n.epoch t0) := by
      rcases hA with h1 | h1
      · cases h1
      · exact h1
    have hx := dstep_exec .att n t0 clock (st := ⟨store, false, fc, fn, ic⟩) hok (fun _ => hcov)
    simp only [execOf] at hx
    let s0 : HState := if ic = true then ⟨store.reset (n.epoch t0), false, fc, fn, false⟩ else ⟨store, false, fc, fn, ic⟩
    have hs0 : s0 = if ic = true then ⟨store.reset (n.epoch t0), false, fc, fn, false⟩ else ⟨store, false, fc, fn, ic⟩ := rfl
    have pf := attPF_post n s0 (drun .att n m (attProcessExecution n ⟨store, false, fc, fn, ic⟩ (n.epoch t0) t0 clock))
      (n.epoch t0) t0 r1 r2
    have hfl := attPF_flags n s0 (n.epoch t0) t0 r1 r2
    have hkeep := attPF_keep n s0 (n.epoch t0) t0 r1 r2
    have hs0ff : s0.fetchFirst = false := by rw [hs0]; split <;> rfl
    have hs0ic : s0.indicesChanged = false := by
      rw [hs0]; split
      · rfl
      · rename_i hh; simpa using hh
    have hs0fn : s0.fetchNext = fn := by rw [hs0]; split <;> rfl
    have hB0 : Cov .att s0 (drun .att n m (attProcessExecution n ⟨store, false, fc, fn, ic⟩ (n.epoch t0) t0 clock))
        (n.epoch t0 + 1) ∨ fn = true := by
      rcases hB with h1 | h1
      · left
        have h2 := h1.of_due_eq hx.2
        rw [hs0]
        split
        · exact h2.of_reset rfl (by omega)
        · exact h2
      · exact Or.inr h1
    simp only [attTick, Bool.false_eq_true, if_false, drun_append]
    apply fin _ _ (by rw [pf.okeq]; exact hx.1) (by rw [hfl.1, hs0ff]) (by rw [hfl.2.1, hs0ic])
    · apply pf.covp
      by_cases hic : ic = true
      · left
        rw [hs0, if_pos hic]
        exact hi2 hic
      · right
        rw [hs0, if_neg hic]
        exact hcov.of_due_eq hx.2
    · cases hsh : attShouldFetchNext n t0 with
      | true =>
        left
        apply pf.covn
        rcases hB0 with h1 | h1
        · exact Or.inr h1
        · exact Or.inl ⟨by rw [hs0fn]; exact h1, hsh⟩
      | false =>
        rcases hB0 with h1 | h1
        · exact Or.inl (pf.covn (Or.inr h1))
        · exact Or.inr (by rw [hkeep hsh, hs0fn]; exact h1)
    · intro K A hA'
      rcases pf.keys K A hA' with h1 | h1 | h1
      · exact Or.inl h1
      · exact Or.inr (Or.inl h1)
      · exact Or.inr (Or.inr (by rw [hx.2] at h1; exact h1))
  · -- fetch-first tick: fetch, execute
    have hfc : fc = true := hi1 rfl
    have pf := attPF_post n ⟨store, false, fc, fn, false⟩ m (n.epoch t0) t0 r1 r2
    have hfl := attPF_flags n ⟨store, false, fc, fn, false⟩ (n.epoch t0) t0 r1 r2
    have hkeep := attPF_keep n ⟨store, false, fc, fn, false⟩ (n.epoch t0) t0 r1 r2
    have hc0 := pf.covp (Or.inl hfc)
    have hc1 : Cov .att (attProcessFetching n ⟨store, false, fc, fn, false⟩ (n.epoch t0) t0 r1 r2).1
        (drun .att n m (attProcessFetching n ⟨store, false, fc, fn, false⟩ (n.epoch t0) t0 r1 r2).2) (n.epoch t0 + 1) ∨
        (attProcessFetching n ⟨store, false, fc, fn, false⟩ (n.epoch t0) t0 r1 r2).1.fetchNext = true := by
      cases hsh : attShouldFetchNext n t0 with
      | true =>
        left
        apply pf.covn
        rcases hB with h1 | h1
        · exact Or.inr h1
        · exact Or.inl ⟨h1, hsh⟩
      | false =>
        rcases hB with h1 | h1
        · exact Or.inl (pf.covn (Or.inr h1))
        · exact Or.inr (by rw [hkeep hsh]; exact h1)
    have hx := dstep_exec .att n t0 clock (st := (attProcessFetching n ⟨store, false, fc, fn, false⟩ (n.epoch t0) t0 r1 r2).1)
      (m := drun .att n m (attProcessFetching n ⟨store, false, fc, fn, false⟩ (n.epoch t0) t0 r1 r2).2)
      (by rw [pf.okeq]; exact hok) (fun _ => hc0)
    simp only [execOf] at hx
    simp only [attTick, if_true, drun_append]
    apply fin _ _ hx.1 (by rw [hfl.1]) (by rw [hfl.2.1]) (hc0.of_due_eq hx.2)
    · rcases hc1 with h1 | h1
      · exact Or.inl (h1.of_due_eq hx.2)
      · exact Or.inr h1
    · intro K A hA'
      rw [hx.2] at hA'
      exact pf.keys K A hA'

/-- the ticker branch with its first-tick-of-a-new-epoch block -/
theorem attTick_inv (n : Net) (hspe : 0 < n.spe) {st : HState} {m : DMon} {lt : Option Nat} {now : Nat} {le : Option Nat}
    (t0 clock : Nat) (r1 r2 : FetchRes) (h : AInv n st m lt now le) (hc : Cand lt now t0) :
    AInv n (attTick n (repairPre st le (n.epoch t0)) t0 clock r1 r2).1
      (drun .att n m (attTick n (repairPre st le (n.epoch t0)) t0 clock r1 r2).2) (some t0) t0 (some (n.epoch t0)) := by
  unfold repairPre
  split
  · rename_i hcond
    simp only [Bool.and_eq_true, bne_iff_ne, ne_eq] at hcond
    have hB : Cov .att { st with fetchCur := true, fetchFirst := true } m (n.epoch t0 + 1) ∨ st.fetchNext = true :=
      Or.inr hcond.2
    exact attTick_core n hspe (st := { st with fetchCur := true, fetchFirst := true }) t0 clock r1 r2 h.ok
      (fun _ => rfl) (fun _ => rfl) h.dueLe hc.2 (Or.inl rfl) hB
  · rename_i hcond
    simp only [Bool.and_eq_true, bne_iff_ne, ne_eq, not_and] at hcond
    have hA : st.fetchFirst = true ∨ Cov .att st m (n.epoch t0) := by
      rcases h.A t0 hc with h1 | ⟨h1, h2⟩ | h1
      · exact Or.inl h1
      · exact absurd h1 (hcond h2)
      · exact Or.inr h1
    exact attTick_core n hspe t0 clock r1 r2 h.ok h.i1 h.i2 h.dueLe hc.2 hA (h.B t0 hc)

/-! ### notices (handled at any time: their slot may be older than the last tick) -/

/-- a notice that only changes flags -/
theorem att_keep_inv (n : Net) {st st' : HState} {m : DMon} {lt : Option Nat} {now now' : Nat} {le : Option Nat}
    (h : AInv n st m lt now le) (hnow : now ≤ now') (hs : st'.store = st.store) (hff : st'.fetchFirst = st.fetchFirst)
    (hfn : st.fetchNext = true → st'.fetchNext = true)
    (hi1 : st'.fetchFirst = true → st'.fetchCur = true) (hi2 : st'.indicesChanged = true → st'.fetchCur = true) :
    AInv n st' m lt now' le := by
  have hem := epoch_mono n hnow
  refine ⟨h.ok, fun t ht => Nat.le_trans (h.ltnow t ht) hnow, hi1, hi2,
    fun K A hA => by have := h.dueLe K A hA; omega, fun K hK => by have := h.leLe K hK; omega, ?_, ?_⟩
  · intro t ht
    rcases h.A t (ht.mono hnow) with h1 | h1 | h1
    · exact Or.inl (by rw [hff]; exact h1)
    · exact Or.inr (Or.inl ⟨hfn h1.1, h1.2⟩)
    · exact Or.inr (Or.inr (h1.of_store_eq hs))
  · intro t ht
    rcases h.B t (ht.mono hnow) with h1 | h1
    · exact Or.inl (h1.of_store_eq hs)
    · exact Or.inr (hfn h1)

/-- reorg(current) / indices change inside the fetch-next window: `ResetEpoch(E+1)`, `fetchNextEpoch = true`, then the
    late-notice block.  `s` is the state after the existing code of the branch. -/
theorem att_resetNext_inv (n : Net) {st s : HState} {m : DMon} {lt : Option Nat} {now now' : Nat} {le : Option Nat} (E : Nat)
    (h : AInv n st m lt now le) (hnow : now ≤ now')
    (hs : s.store = st.store.reset (E + 1)) (hff : s.fetchFirst = st.fetchFirst) (hfn : s.fetchNext = true)
    (hi1 : s.fetchFirst = true → s.fetchCur = true) (hi2 : s.indicesChanged = true → s.fetchCur = true) :
    AInv n (lateFix s le (E + 1)) m lt now' le := by
  have hem := epoch_mono n hnow
  by_cases hle : le = some (E + 1)
  · have hbeq : (le == some (E + 1)) = true := by simp [hle]
    simp only [lateFix, hbeq, if_true]
    exact ⟨h.ok, fun t ht => Nat.le_trans (h.ltnow t ht) hnow, fun _ => rfl, fun _ => rfl,
      fun K A hA => by have := h.dueLe K A hA; omega, fun K hK => by have := h.leLe K hK; omega,
      fun t _ => Or.inl rfl, fun t _ => Or.inr hfn⟩
  · have hbeq : (le == some (E + 1)) = false := by simpa using hle
    simp only [lateFix, hbeq, Bool.false_eq_true, if_false]
    refine ⟨h.ok, fun t ht => Nat.le_trans (h.ltnow t ht) hnow, hi1, hi2,
      fun K A hA => by have := h.dueLe K A hA; omega, fun K hK => by have := h.leLe K hK; omega, ?_,
      fun t _ => Or.inr hfn⟩
    intro t ht
    by_cases hlt : le = some (n.epoch t)
    · rcases h.A t (ht.mono hnow) with h1 | h1 | h1
      · exact Or.inl (by rw [hff]; exact h1)
      · exact absurd hlt h1.2
      · refine Or.inr (Or.inr (h1.of_reset hs ?_))
        intro heq
        rw [← heq] at hlt
        exact hle hlt
    · exact Or.inr (Or.inl ⟨hfn, hlt⟩)

theorem attReorg_inv (n : Net) {st : HState} {m : DMon} {lt : Option Nat} {now : Nat} {le : Option Nat}
    (r : Nat) (prev cur : Bool) (h : AInv n st m lt now le) :
    AInv n (attReorgN n st le r prev cur) m lt (max now r) le := by
  have hnow : now ≤ max now r := Nat.le_max_left _ _
  have hr : r ≤ max now r := Nat.le_max_right _ _
  have hem := epoch_mono n hnow
  cases prev
  · cases cur
    · simp only [attReorgN, attReorg, Bool.not_false, Bool.true_and, Bool.false_and, Bool.false_eq_true, if_false]
      exact att_keep_inv n h hnow rfl rfl (fun x => x) h.i1 h.i2
    · cases hsh : attShouldFetchNext n r
      · simp only [attReorgN, attReorg, Bool.not_false, Bool.true_and, hsh, Bool.false_eq_true, if_false, if_true]
        exact att_keep_inv n h hnow rfl rfl (fun x => x) h.i1 h.i2
      · simp only [attReorgN, attReorg, Bool.not_false, Bool.true_and, hsh, Bool.false_eq_true, if_false, if_true]
        exact att_resetNext_inv n (n.epoch r) h hnow rfl rfl rfl h.i1 h.i2
  · -- previous dependent root changed: everything is re-fetched before the next execution
    have hB : ∀ (st' : HState), st'.fetchFirst = true →
        (∀ t, Cand lt (max now r) t → Cov .att st' m (n.epoch t + 1) ∨ st'.fetchNext = true) →
        st'.fetchCur = true → AInv n st' m lt (max now r) le := by
      intro st' hff hb hfc
      exact ⟨h.ok, fun t ht => Nat.le_trans (h.ltnow t ht) hnow, fun _ => hfc, fun _ => hfc,
        fun K A hA => by have := h.dueLe K A hA; omega, fun K hK => by have := h.leLe K hK; omega,
        fun t _ => Or.inl hff, hb⟩
    cases hsh : attShouldFetchNext n r
    · simp only [attReorgN, attReorg, Bool.not_true, Bool.false_and, Bool.false_eq_true, if_false, if_true, hsh]
      apply hB _ rfl _ rfl
      intro t ht
      have hpt := epoch_mono n (Nat.le_trans hr ht.2)
      rcases h.B t (ht.mono hnow) with h1 | h1
      · exact Or.inl (h1.of_reset rfl (by omega))
      · exact Or.inr h1
    · simp only [attReorgN, attReorg, Bool.not_true, Bool.false_and, Bool.false_eq_true, if_false, if_true, hsh]
      exact hB _ rfl (fun t _ => Or.inr rfl) rfl

theorem attIndices_inv (n : Net) {st : HState} {m : DMon} {lt : Option Nat} {now : Nat} {le : Option Nat}
    (c : Nat) (h : AInv n st m lt now le) : AInv n (attIndicesN n st le c) m lt (max now c) le := by
  have hnow : now ≤ max now c := Nat.le_max_left _ _
  cases hsh : attShouldFetchNext n c
  · simp only [attIndicesN, attIndices, hsh, Bool.false_eq_true, if_false]
    exact att_keep_inv n h hnow rfl rfl (fun x => x) (fun _ => rfl) (fun _ => rfl)
  · simp only [attIndicesN, attIndices, hsh, if_true]
    exact att_resetNext_inv n (n.epoch c) h hnow rfl rfl rfl (fun _ => rfl) (fun _ => rfl)

/-! ### whole runs -/

theorem att_exactly_runFrom (n : Net) (hspe : 0 < n.spe) : ∀ (evs : List Event) (rs : RState) (m : DMon)
    (lt : Option Nat) (now : Nat),
    AInv n rs.st m lt now rs.le → envOK lt now evs = true →
    (drun .att n m (runFrom .att n rs evs)).ok = true := by
  intro evs
  induction evs with
  | nil => intro rs m lt now h _; exact h.ok
  | cons e es ih =>
    intro rs m lt now h henv
    obtain ⟨htick, henv'⟩ := envOK_cons henv
    cases e with
    | tick s c r1 r2 =>
      obtain ⟨hnow, hlt⟩ := htick s c r1 r2 rfl
      have hc : Cand lt now s := ⟨hlt, hnow⟩
      simp only [runFrom, step, drun_append]
      exact ih ⟨_, _⟩ _ _ _ (attTick_inv n hspe s c r1 r2 h hc) henv'
    | reorg r p c =>
      simp only [runFrom, step, List.nil_append]
      exact ih ⟨_, _⟩ _ _ _ (attReorg_inv n r p c h) henv'
    | indices c =>
      simp only [runFrom, step, List.nil_append]
      exact ih ⟨_, _⟩ _ _ _ (attIndices_inv n c h) henv'

theorem att_exactly_run (n : Net) (hspe : 0 < n.spe) (clock0 : Nat) (r0 : FetchRes) (evs : List Event)
    (henv : envOK none clock0 evs = true) : exactlyOnceOK .att n (run .att n clock0 r0 evs) = true := by
  unfold exactlyOnceOK run
  have h0 : AInv n attInit DMon.init none clock0 none :=
    ⟨rfl, fun t ht => (nomatch ht), fun _ => rfl, fun hh => (nomatch hh), fun K A hA => (nomatch hA),
      fun K hK => (nomatch hK), fun t _ => Or.inl rfl, fun t _ => Or.inl (Cov.of_none rfl)⟩
  have := att_exactly_runFrom n hspe evs ⟨attInit, none⟩ _ none clock0 h0 henv
  simpa [initH, drun, List.foldl_append] using this

end Ssv.Duties
